/-
  C06 — helper lemmas: `mu`, pair functions, cell products and their sum over ℝ.
-/
import GridVerif.Lemmas.Becke
import Mathlib.Algebra.Order.BigOperators.Ring.Finset
import Mathlib.Algebra.Order.BigOperators.Group.Finset
import Mathlib.Order.Interval.Finset.Nat

namespace GridVerif.Becke
open GridVerif.Gen.Becke

/-- what the theorems assume of a molecule: at least one atom, nuclei at pairwise distinct
positions, positive radii (the code rejects none of this; coincident nuclei or a zero radius give nan). -/
structure Mol.Valid (m : Mol ℝ) : Prop where
  natom_pos : 0 < m.natom
  distinct : ∀ A B, A < m.natom → B < m.natom → A ≠ B → m.pos A ≠ m.pos B
  rad_pos : ∀ A, A < m.natom → 0 < m.rad A

theorem cutoff_bounds : (0 : ℝ) ≤ defaultCutoff ∧ (defaultCutoff : ℝ) < 1 / 2 := by
  unfold defaultCutoff
  constructor <;> norm_num

theorem alpha_half (ra rb : ℝ) : -(1 / 2) ≤ alpha ra rb ∧ alpha ra rb ≤ 1 / 2 := by
  have h := alpha_abs_le ra rb cutoff_bounds.1
  have c := cutoff_bounds.2
  constructor <;> linarith [h.1, h.2]

section
variable (m : Mol ℝ) (order : ℕ) (p : V3 ℝ)

theorem mu_mem (hv : m.Valid) {A B : ℕ} (hA : A < m.natom) (hB : B < m.natom) (hAB : A ≠ B) :
    -1 ≤ mu m p A B ∧ mu m p A B ≤ 1 := by
  unfold mu
  have hd : 0 < dist3 (m.pos A) (m.pos B) := dist3_pos (hv.distinct A B hA hB hAB)
  have ht := abs_le.mp (abs_dist3_sub_le (m.pos A) (m.pos B) p)
  constructor
  · rw [le_div_iff₀ hd]; linarith [ht.1]
  · rw [div_le_one hd]; exact ht.2

theorem mu_swap (A B : ℕ) : mu m p B A = -mu m p A B := by
  unfold mu
  rw [dist3_comm (m.pos B) (m.pos A), ← neg_div]; congr 1; ring

theorem mu_nonpos_of_nearer (hv : m.Valid) {A B : ℕ} (hA : A < m.natom) (hB : B < m.natom)
    (hAB : A ≠ B) (hn : dist3 (m.pos A) p ≤ dist3 (m.pos B) p) : mu m p A B ≤ 0 := by
  unfold mu
  have hd : 0 < dist3 (m.pos A) (m.pos B) := dist3_pos (hv.distinct A B hA hB hAB)
  exact div_nonpos_of_nonpos_of_nonneg (by linarith) hd.le

/-- at the nucleus of `A`, `mu_AB = -1`. -/
theorem mu_at_nucleus (hv : m.Valid) {A B : ℕ} (hA : A < m.natom) (hB : B < m.natom) (hAB : A ≠ B) :
    mu m (m.pos A) A B = -1 := by
  unfold mu
  have hd : 0 < dist3 (m.pos A) (m.pos B) := dist3_pos (hv.distinct A B hA hB hAB)
  rw [dist3_self, dist3_comm (m.pos B) (m.pos A), zero_sub, neg_div, div_self hd.ne']

theorem sPair_eq (A B : ℕ) :
    sPair routeGW m order p A B
      = 1 / 2 * (1 - switchFunc (nuGW (mu m p A B) (alpha (m.rad A) (m.rad B))) order) := by
  unfold sPair routeGW
  simp only [sGW_real]

theorem nu_mem (hv : m.Valid) {A B : ℕ} (hA : A < m.natom) (hB : B < m.natom) (hAB : A ≠ B) :
    -1 ≤ nuGW (mu m p A B) (alpha (m.rad A) (m.rad B)) ∧
      nuGW (mu m p A B) (alpha (m.rad A) (m.rad B)) ≤ 1 :=
  nuGW_mem (mu_mem m p hv hA hB hAB) (alpha_half _ _)

theorem sPair_mem (hv : m.Valid) {A B : ℕ} (hA : A < m.natom) (hB : B < m.natom) (hAB : A ≠ B) :
    0 ≤ sPair routeGW m order p A B ∧ sPair routeGW m order p A B ≤ 1 := by
  rw [sPair_eq]
  have h := switchFunc_mem order (nu_mem m p hv hA hB hAB)
  constructor <;> linarith [h.1, h.2]

theorem sPair_swap (A B : ℕ) :
    sPair routeGW m order p A B + sPair routeGW m order p B A = 1 := by
  rw [sPair_eq, sPair_eq, mu_swap m p A B, alpha_swap (m.rad A) (m.rad B) cutoff_bounds.1,
    nuGW_neg, switchFunc_neg]
  ring

theorem sPair_pos_of_nearer (hv : m.Valid) {A B : ℕ} (hA : A < m.natom) (hB : B < m.natom)
    (hAB : A ≠ B) (hn : dist3 (m.pos A) p ≤ dist3 (m.pos B) p) :
    0 < sPair routeGW m order p A B := by
  rw [sPair_eq]
  have hmu := mu_mem m p hv hA hB hAB
  have h0 := mu_nonpos_of_nearer m p hv hA hB hAB hn
  have hlt := nuGW_lt_one ⟨hmu.1, h0⟩ (alpha_half (m.rad A) (m.rad B))
  have := switchFunc_lt_one order (nu_mem m p hv hA hB hAB).1 hlt
  linarith

theorem sPair_at_nucleus (hv : m.Valid) {A B : ℕ} (hA : A < m.natom) (hB : B < m.natom) (hAB : A ≠ B) :
    sPair routeGW m order (m.pos A) A B = 1 := by
  rw [sPair_eq, mu_at_nucleus m hv hA hB hAB, nuGW_real]
  norm_num
  rw [switchFunc_neg_one]; norm_num

theorem cell_eq (A : ℕ) :
    cell routeGW m order p A
      = ∏ B ∈ Finset.range m.natom, (if B = A then 1 else sPair routeGW m order p A B) := by
  unfold cell; rw [prodSkip_eq]

theorem cellSum_eq : cellSum routeGW m order p = ∑ A ∈ Finset.range m.natom, cell routeGW m order p A := by
  unfold cellSum; rw [sumRange_eq]

theorem cell_nonneg (hv : m.Valid) {A : ℕ} (hA : A < m.natom) : 0 ≤ cell routeGW m order p A := by
  rw [cell_eq]
  apply Finset.prod_nonneg
  intro B hB
  split_ifs with h
  · exact zero_le_one
  · exact (sPair_mem m order p hv hA (Finset.mem_range.mp hB) (Ne.symm h)).1

theorem cell_le_one (hv : m.Valid) {A : ℕ} (hA : A < m.natom) : cell routeGW m order p A ≤ 1 := by
  rw [cell_eq]
  apply Finset.prod_le_one
  · intro B hB
    split_ifs with h
    · exact zero_le_one
    · exact (sPair_mem m order p hv hA (Finset.mem_range.mp hB) (Ne.symm h)).1
  · intro B hB
    split_ifs with h
    · exact le_refl _
    · exact (sPair_mem m order p hv hA (Finset.mem_range.mp hB) (Ne.symm h)).2

/-- some atom is nearest to `p`. -/
theorem exists_nearest (hv : m.Valid) :
    ∃ A, A < m.natom ∧ ∀ B, B < m.natom → dist3 (m.pos A) p ≤ dist3 (m.pos B) p := by
  obtain ⟨A, hA, hmin⟩ := Finset.exists_min_image (Finset.range m.natom)
    (fun A => dist3 (m.pos A) p) ⟨0, Finset.mem_range.mpr hv.natom_pos⟩
  exact ⟨A, Finset.mem_range.mp hA, fun B hB => hmin B (Finset.mem_range.mpr hB)⟩

theorem cell_pos_of_nearest (hv : m.Valid) {A : ℕ} (hA : A < m.natom)
    (hn : ∀ B, B < m.natom → dist3 (m.pos A) p ≤ dist3 (m.pos B) p) :
    0 < cell routeGW m order p A := by
  rw [cell_eq]
  apply Finset.prod_pos
  intro B hB
  split_ifs with h
  · exact zero_lt_one
  · exact sPair_pos_of_nearer m order p hv hA (Finset.mem_range.mp hB) (Ne.symm h)
      (hn B (Finset.mem_range.mp hB))

theorem cellSum_pos' (hv : m.Valid) : 0 < cellSum routeGW m order p := by
  obtain ⟨A, hA, hn⟩ := exists_nearest m p hv
  rw [cellSum_eq]
  calc 0 < cell routeGW m order p A := cell_pos_of_nearest m order p hv hA hn
    _ ≤ ∑ B ∈ Finset.range m.natom, cell routeGW m order p B :=
      Finset.single_le_sum (f := fun B => cell routeGW m order p B)
        (fun B hB => cell_nonneg m order p hv (Finset.mem_range.mp hB)) (Finset.mem_range.mpr hA)

theorem cell_le_cellSum (hv : m.Valid) {A : ℕ} (hA : A < m.natom) :
    cell routeGW m order p A ≤ cellSum routeGW m order p := by
  rw [cellSum_eq]
  exact Finset.single_le_sum (f := fun B => cell routeGW m order p B)
    (fun B hB => cell_nonneg m order p hv (Finset.mem_range.mp hB)) (Finset.mem_range.mpr hA)

theorem cell_own_nucleus (hv : m.Valid) {A : ℕ} (hA : A < m.natom) :
    cell routeGW m order (m.pos A) A = 1 := by
  rw [cell_eq]
  apply Finset.prod_eq_one
  intro B hB
  split_ifs with h
  · rfl
  · exact sPair_at_nucleus m order hv hA (Finset.mem_range.mp hB) (Ne.symm h)

theorem cell_other_nucleus (hv : m.Valid) {A C : ℕ} (hA : A < m.natom) (hC : C < m.natom) (hAC : A ≠ C) :
    cell routeGW m order (m.pos A) C = 0 := by
  rw [cell_eq]
  apply Finset.prod_eq_zero (Finset.mem_range.mpr hA)
  rw [if_neg hAC]
  have h1 := sPair_swap m order (m.pos A) A C
  have h2 := sPair_at_nucleus m order hv hA hC hAC
  linarith

theorem cellSum_at_nucleus (hv : m.Valid) {A : ℕ} (hA : A < m.natom) :
    cellSum routeGW m order (m.pos A) = 1 := by
  rw [cellSum_eq, Finset.sum_eq_single A]
  · exact cell_own_nucleus m order hv hA
  · intro C hC hne
    exact cell_other_nucleus m order hv hA (Finset.mem_range.mp hC) (Ne.symm hne)
  · intro h; exact absurd (Finset.mem_range.mpr hA) h

end

end GridVerif.Becke

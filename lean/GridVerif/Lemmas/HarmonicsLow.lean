/-
  C08 — the rows of degree `l ≤ 3` in explicit Cartesian form, for all angles
  (normalisation, sign, no Condon–Shortley phase, `m > 0 ↔ cos`, `m < 0 ↔ sin`).
-/
import GridVerif.Lemmas.HarmonicsSym
import Mathlib.Tactic.IntervalCases

namespace GridVerif.Harmonics
open Real

theorem eq_of_sq_eq {a b : ℝ} (ha : 0 ≤ a) (hb : 0 ≤ b) (h : a ^ 2 = b ^ 2) : a = b := by
  have := (sq_eq_sq_iff_abs_eq_abs a b).mp h
  rwa [abs_of_nonneg ha, abs_of_nonneg hb] at this

/-- equality of two positive constants built from square roots: compare the squares. -/
macro "const_sq" : tactic =>
  `(tactic| (apply eq_of_sq_eq (by positivity) (by positivity)
             simp (disch := positivity) only [mul_pow, div_pow, Real.sq_sqrt]
             field_simp
             try norm_num))

/-- The familiar real spherical harmonics of degree `≤ 3` on the unit sphere, `(x, y, z)` Cartesian. -/
noncomputable def cartY (l : ℕ) (m : ℤ) (x y z : ℝ) : ℝ :=
  match l with
  | 0 => √(1 / (4 * π))
  | 1 =>
    if m = 0 then √(3 / (4 * π)) * z
    else if m = 1 then √(3 / (4 * π)) * x
    else √(3 / (4 * π)) * y
  | 2 =>
    if m = 0 then √(5 / (16 * π)) * (3 * z ^ 2 - 1)
    else if m = 1 then √(15 / (4 * π)) * (x * z)
    else if m = -1 then √(15 / (4 * π)) * (y * z)
    else if m = 2 then √(15 / (16 * π)) * (x ^ 2 - y ^ 2)
    else √(15 / (4 * π)) * (x * y)
  | 3 =>
    if m = 0 then √(7 / (16 * π)) * (5 * z ^ 3 - 3 * z)
    else if m = 1 then √(21 / (32 * π)) * (x * (5 * z ^ 2 - 1))
    else if m = -1 then √(21 / (32 * π)) * (y * (5 * z ^ 2 - 1))
    else if m = 2 then √(105 / (16 * π)) * ((x ^ 2 - y ^ 2) * z)
    else if m = -2 then √(105 / (4 * π)) * (x * y * z)
    else if m = 3 then √(35 / (32 * π)) * (x ^ 3 - 3 * x * y ^ 2)
    else √(35 / (32 * π)) * (3 * x ^ 2 * y - y ^ 3)
  | _ => 0

theorem cos2 (t : ℝ) : cos (2 * t) = cos t ^ 2 - sin t ^ 2 := by
  rw [Real.cos_two_mul, ← Real.sin_sq_add_cos_sq t]; ring
theorem sin2 (t : ℝ) : sin (2 * t) = 2 * sin t * cos t := Real.sin_two_mul t
theorem cos3 (t : ℝ) : cos (3 * t) = cos t ^ 3 - 3 * cos t * sin t ^ 2 := by
  have h : sin t ^ 2 = 1 - cos t ^ 2 := by linarith [Real.sin_sq_add_cos_sq t]
  rw [Real.cos_three_mul, h]; ring
theorem sin3 (t : ℝ) : sin (3 * t) = 3 * cos t ^ 2 * sin t - sin t ^ 3 := by
  have h : cos t ^ 2 = 1 - sin t ^ 2 := by linarith [Real.sin_sq_add_cos_sq t]
  rw [Real.sin_three_mul, h]; ring

theorem pleg_1_0 (s c : ℝ) : pleg s c 1 0 = c := by simp [pleg, legPair]
theorem pleg_1_1 (s c : ℝ) : pleg s c 1 1 = s := by simp [pleg, legPair]
theorem pleg_2_0 (s c : ℝ) : pleg s c 2 0 = (3 * c ^ 2 - 1) / 2 := by simp [pleg, legPair]; ring
theorem pleg_2_1 (s c : ℝ) : pleg s c 2 1 = 3 * c * s := by
  simp only [pleg, legPair]; norm_num
theorem pleg_2_2 (s c : ℝ) : pleg s c 2 2 = 3 * s ^ 2 := by simp [pleg, legPair]; ring
theorem pleg_3_0 (s c : ℝ) : pleg s c 3 0 = (5 * c ^ 3 - 3 * c) / 2 := by simp [pleg, legPair]; ring
theorem pleg_3_1 (s c : ℝ) : pleg s c 3 1 = (15 * c ^ 2 * s - 3 * s) / 2 := by simp [pleg, legPair]; ring
theorem pleg_3_2 (s c : ℝ) : pleg s c 3 2 = 15 * c * s ^ 2 := by simp [pleg, legPair]; ring
theorem pleg_3_3 (s c : ℝ) : pleg s c 3 3 = 15 * s ^ 3 := by simp [pleg, legPair]; ring

theorem k00 : (facSph 0 : ℝ) = √(1 / (4 * π)) := by rw [facSph_real]; norm_num
theorem k10 : (facSph 1 : ℝ) = √(3 / (4 * π)) := by rw [facSph_real]; norm_num
theorem k11 : 1 / factG 1 0 * facSph 1 * √2 = √(3 / (4 * π)) := by
  rw [facSph_real]; simp only [factG]; norm_num; const_sq
theorem k20 : (facSph 2 : ℝ) / 2 = √(5 / (16 * π)) := by rw [facSph_real]; norm_num; const_sq
theorem k21 : 3 / factG 2 0 * facSph 2 * √2 = √(15 / (4 * π)) := by
  rw [facSph_real]; simp only [factG]; norm_num; const_sq
theorem k22 : 3 / factG 2 1 * facSph 2 * √2 = √(15 / (16 * π)) := by
  rw [facSph_real]; simp only [factG]; norm_num; const_sq
theorem k22' : 6 / factG 2 1 * facSph 2 * √2 = √(15 / (4 * π)) := by
  rw [facSph_real]; simp only [factG]; norm_num; const_sq
theorem k30 : (facSph 3 : ℝ) / 2 = √(7 / (16 * π)) := by rw [facSph_real]; norm_num; const_sq
theorem k31 : 3 / 2 / factG 3 0 * facSph 3 * √2 = √(21 / (32 * π)) := by
  rw [facSph_real]; simp only [factG]; norm_num; const_sq
theorem k32 : 15 / factG 3 1 * facSph 3 * √2 = √(105 / (16 * π)) := by
  rw [facSph_real]; simp only [factG]; norm_num; const_sq
theorem k32' : 30 / factG 3 1 * facSph 3 * √2 = √(105 / (4 * π)) := by
  rw [facSph_real]; simp only [factG]; norm_num; const_sq
theorem k33 : 15 / factG 3 2 * facSph 3 * √2 = √(35 / (32 * π)) := by
  rw [facSph_real]; simp only [factG]; norm_num; const_sq

/-! ### the sixteen rows -/
section rows
variable (s c θ : ℝ)

theorem y00 : ylmSpec s c θ 0 0 = √(1 / (4 * π)) := by
  rw [ylmSpec_zero, pleg_zero, k00]; simp
theorem y10 : ylmSpec s c θ 1 0 = √(3 / (4 * π)) * c := by
  rw [ylmSpec_zero, pleg_1_0, k10]
theorem y11 : ylmSpec s c θ 1 1 = √(3 / (4 * π)) * (s * cos θ) := by
  have h := ylmSpec_pos s c θ 1 1 (by norm_num)
  simp only [Nat.cast_one, Nat.sub_self, one_mul] at h
  rw [h, pleg_1_1, ← k11]; ring
theorem y1m1 : ylmSpec s c θ 1 (-1) = √(3 / (4 * π)) * (s * sin θ) := by
  have h := ylmSpec_neg s c θ 1 1 (by norm_num)
  simp only [Nat.cast_one, Nat.sub_self, one_mul] at h
  rw [h, pleg_1_1, ← k11]; ring
theorem y20 : ylmSpec s c θ 2 0 = √(5 / (16 * π)) * (3 * c ^ 2 - 1) := by
  rw [ylmSpec_zero, pleg_2_0, ← k20]; ring
theorem y21 : ylmSpec s c θ 2 1 = √(15 / (4 * π)) * (s * cos θ * c) := by
  have h := ylmSpec_pos s c θ 2 1 (by norm_num)
  simp only [Nat.cast_one, Nat.sub_self, one_mul] at h
  rw [h, pleg_2_1, ← k21]; ring
theorem y2m1 : ylmSpec s c θ 2 (-1) = √(15 / (4 * π)) * (s * sin θ * c) := by
  have h := ylmSpec_neg s c θ 2 1 (by norm_num)
  simp only [Nat.cast_one, Nat.sub_self, one_mul] at h
  rw [h, pleg_2_1, ← k21]; ring
theorem y22 : ylmSpec s c θ 2 2 = √(15 / (16 * π)) * ((s * cos θ) ^ 2 - (s * sin θ) ^ 2) := by
  have h := ylmSpec_pos s c θ 2 2 (by norm_num)
  simp only [Nat.cast_ofNat, Nat.add_one_sub_one] at h
  rw [h, pleg_2_2, cos2, ← k22]; ring
theorem y2m2 : ylmSpec s c θ 2 (-2) = √(15 / (4 * π)) * (s * cos θ * (s * sin θ)) := by
  have h := ylmSpec_neg s c θ 2 2 (by norm_num)
  simp only [Nat.cast_ofNat, Nat.add_one_sub_one] at h
  rw [h, pleg_2_2, sin2, ← k22']; ring
theorem y30 : ylmSpec s c θ 3 0 = √(7 / (16 * π)) * (5 * c ^ 3 - 3 * c) := by
  rw [ylmSpec_zero, pleg_3_0, ← k30]; ring
theorem y31 : ylmSpec s c θ 3 1 = √(21 / (32 * π)) * (s * cos θ * (5 * c ^ 2 - 1)) := by
  have h := ylmSpec_pos s c θ 3 1 (by norm_num)
  simp only [Nat.cast_one, Nat.sub_self, one_mul] at h
  rw [h, pleg_3_1, ← k31]; ring
theorem y3m1 : ylmSpec s c θ 3 (-1) = √(21 / (32 * π)) * (s * sin θ * (5 * c ^ 2 - 1)) := by
  have h := ylmSpec_neg s c θ 3 1 (by norm_num)
  simp only [Nat.cast_one, Nat.sub_self, one_mul] at h
  rw [h, pleg_3_1, ← k31]; ring
theorem y32 : ylmSpec s c θ 3 2 =
    √(105 / (16 * π)) * (((s * cos θ) ^ 2 - (s * sin θ) ^ 2) * c) := by
  have h := ylmSpec_pos s c θ 3 2 (by norm_num)
  simp only [Nat.cast_ofNat, Nat.add_one_sub_one] at h
  rw [h, pleg_3_2, cos2, ← k32]; ring
theorem y3m2 : ylmSpec s c θ 3 (-2) = √(105 / (4 * π)) * (s * cos θ * (s * sin θ) * c) := by
  have h := ylmSpec_neg s c θ 3 2 (by norm_num)
  simp only [Nat.cast_ofNat, Nat.add_one_sub_one] at h
  rw [h, pleg_3_2, sin2, ← k32']; ring
theorem y33 : ylmSpec s c θ 3 3 =
    √(35 / (32 * π)) * ((s * cos θ) ^ 3 - 3 * (s * cos θ) * (s * sin θ) ^ 2) := by
  have h := ylmSpec_pos s c θ 3 3 (by norm_num)
  simp only [Nat.cast_ofNat, Nat.add_one_sub_one] at h
  rw [h, pleg_3_3, cos3, ← k33]; ring
theorem y3m3 : ylmSpec s c θ 3 (-3) =
    √(35 / (32 * π)) * (3 * (s * cos θ) ^ 2 * (s * sin θ) - (s * sin θ) ^ 3) := by
  have h := ylmSpec_neg s c θ 3 3 (by norm_num)
  simp only [Nat.cast_ofNat, Nat.add_one_sub_one] at h
  rw [h, pleg_3_3, sin3, ← k33]; ring

end rows

/-- For `l ≤ 3` every row of the recursion is the explicit Cartesian harmonic of the point
`(x, y, z) = (sin φ cos θ, sin φ sin θ, cos φ)` — as functions of `s = sin φ`, `c = cos φ`, `θ`. -/
theorem ylmSpec_low (s c θ : ℝ) (l : ℕ) (m : ℤ) (hl : l ≤ 3) (hm : m.natAbs ≤ l) :
    ylmSpec s c θ l m = cartY l m (s * cos θ) (s * sin θ) c := by
  have h1 : -(l : ℤ) ≤ m := by omega
  have h2 : m ≤ (l : ℤ) := by omega
  interval_cases l
  · have : m = 0 := by omega
    subst this; simpa [cartY] using y00 s c θ
  · simp only [Nat.cast_one] at h1 h2
    interval_cases m
    · simpa [cartY] using y1m1 s c θ
    · simpa [cartY] using y10 s c θ
    · simpa [cartY] using y11 s c θ
  · simp only [Nat.cast_ofNat] at h1 h2
    interval_cases m
    · simpa [cartY] using y2m2 s c θ
    · simpa [cartY] using y2m1 s c θ
    · simpa [cartY] using y20 s c θ
    · simpa [cartY] using y21 s c θ
    · simpa [cartY] using y22 s c θ
  · simp only [Nat.cast_ofNat] at h1 h2
    interval_cases m
    · simpa [cartY] using y3m3 s c θ
    · simpa [cartY] using y3m2 s c θ
    · simpa [cartY] using y3m1 s c θ
    · simpa [cartY] using y30 s c θ
    · simpa [cartY] using y31 s c θ
    · simpa [cartY] using y32 s c θ
    · simpa [cartY] using y33 s c θ

end GridVerif.Harmonics

/-
  C16 — helper lemmas (no reference to the generated code):
  a function with vanishing derivative in the interior of an interval is constant on it, and
  the two-point boundary-value problem `w'' = 0`, `w(0) = w(R) = 0` has only the zero solution;
  maximum principle: `w'' = c·w` with `c > 0`, `w(0) = w(R) = 0` has only the zero solution.
-/
import Mathlib.Analysis.Calculus.Deriv.MeanValue
import Mathlib.Analysis.Calculus.DerivativeTest
import Mathlib.Tactic.Linarith
import Mathlib.Tactic.Ring

namespace GridVerif
open Set Filter Topology

/-- continuous on a convex set of reals, derivative `0` in its interior ⇒ constant on the set. -/
theorem const_of_hasDerivAt_zero_interior {D : Set ℝ} (hD : Convex ℝ D) {f : ℝ → ℝ}
    (hf : ContinuousOn f D) (hf' : ∀ x ∈ interior D, HasDerivAt f 0 x) :
    ∀ x ∈ D, ∀ y ∈ D, f x = f y := by
  have hdiff : DifferentiableOn ℝ f (interior D) := fun x hx => (hf' x hx).differentiableAt.differentiableWithinAt
  have hder : ∀ x ∈ interior D, deriv f x = 0 := fun x hx => (hf' x hx).deriv
  have key : ∀ x ∈ D, ∀ y ∈ D, x ≤ y → f x = f y := by
    intro x hx y hy hxy
    have h1 := hD.mul_sub_le_image_sub_of_le_deriv hf hdiff (C := 0) (fun z hz => (hder z hz).ge) x hx y hy hxy
    have h2 := hD.image_sub_le_mul_sub_of_deriv_le hf hdiff (C := 0) (fun z hz => (hder z hz).le) x hx y hy hxy
    linarith
  intro x hx y hy
  rcases le_total x y with h | h
  · exact key x hx y hy h
  · exact (key y hy x hx h).symm

/-- `w'' = 0` on `(0, R)`, `w` continuous on `[0, R]`, `w(0) = w(R) = 0` ⇒ `w = 0` on `[0, R]`. -/
theorem zero_of_second_deriv_zero {R : ℝ} (hR : 0 < R) {w w1 : ℝ → ℝ}
    (hc : ContinuousOn w (Icc 0 R))
    (hw : ∀ r ∈ Ioo 0 R, HasDerivAt w (w1 r) r) (hw1 : ∀ r ∈ Ioo 0 R, HasDerivAt w1 0 r)
    (h0 : w 0 = 0) (hRv : w R = 0) : ∀ r ∈ Icc 0 R, w r = 0 := by
  have hmid : R / 2 ∈ Ioo 0 R := ⟨by linarith, by linarith⟩
  -- w1 is constant on the open interval
  have hw1c : ∀ r ∈ Ioo 0 R, w1 r = w1 (R / 2) := by
    intro r hr
    refine const_of_hasDerivAt_zero_interior (convex_Ioo 0 R) ?_ ?_ r hr (R / 2) hmid
    · exact fun x hx => (hw1 x hx).continuousAt.continuousWithinAt
    · intro x hx; rw [interior_Ioo] at hx; exact hw1 x hx
  set c := w1 (R / 2)
  -- g = w − c·r has derivative 0 inside, so it is constant on the closed interval
  have hg : ∀ x ∈ Icc (0:ℝ) R, ∀ y ∈ Icc (0:ℝ) R, (w x - c * x) = (w y - c * y) := by
    refine const_of_hasDerivAt_zero_interior (f := fun r => w r - c * r) (convex_Icc 0 R) ?_ ?_
    · exact hc.sub (by fun_prop)
    · intro x hx
      rw [interior_Icc] at hx
      have := (hw x hx).sub ((hasDerivAt_id x).const_mul c)
      simp only [id, mul_one, hw1c x hx, sub_self] at this
      exact this
  have hz : (0:ℝ) ∈ Icc 0 R := ⟨le_rfl, hR.le⟩
  have hRm : R ∈ Icc 0 R := ⟨hR.le, le_rfl⟩
  have hc0 : c = 0 := by
    have := hg 0 hz R hRm
    rw [h0, hRv] at this
    have : c * R = 0 := by linarith
    rcases mul_eq_zero.mp this with h | h
    · exact h
    · exact absurd h hR.ne'
  intro r hr
  have := hg r hr 0 hz
  rw [h0, hc0] at this
  linarith

/-- maximum principle, one side: `w'' = c·w` with `c > 0` inside, `w ≤ 0` at both ends ⇒ `w ≤ 0`. -/
theorem nonpos_of_second_deriv_eq_pos_mul {R : ℝ} (hR : 0 < R) {w w1 w2 c : ℝ → ℝ}
    (hc : ContinuousOn w (Icc 0 R))
    (hw : ∀ r ∈ Ioo 0 R, HasDerivAt w (w1 r) r) (hw1 : ∀ r ∈ Ioo 0 R, HasDerivAt w1 (w2 r) r)
    (hode : ∀ r ∈ Ioo 0 R, w2 r = c r * w r) (hcpos : ∀ r ∈ Ioo 0 R, 0 < c r)
    (h0 : w 0 = 0) (hRv : w R = 0) : ∀ r ∈ Icc 0 R, w r ≤ 0 := by
  by_contra hne
  simp only [not_forall, not_le] at hne
  obtain ⟨x, hx, hxpos⟩ := hne
  obtain ⟨r₀, hr₀, hmax⟩ := isCompact_Icc.exists_isMaxOn ⟨x, hx⟩ hc
  have hpos : 0 < w r₀ := lt_of_lt_of_le hxpos (hmax hx)
  have hr₀' : r₀ ∈ Ioo 0 R := by
    refine ⟨lt_of_le_of_ne hr₀.1 ?_, lt_of_le_of_ne hr₀.2 ?_⟩
    · rintro rfl; rw [h0] at hpos; exact lt_irrefl _ hpos
    · rintro rfl; rw [hRv] at hpos; exact lt_irrefl _ hpos
  have hloc : IsLocalMax w r₀ := hmax.isLocalMax (Icc_mem_nhds hr₀'.1 hr₀'.2)
  have hd0 : w1 r₀ = 0 := hloc.hasDerivAt_eq_zero (hw r₀ hr₀')
  have hev : deriv w =ᶠ[𝓝 r₀] w1 := by
    filter_upwards [Ioo_mem_nhds hr₀'.1 hr₀'.2] with r hr using (hw r hr).deriv
  have hdd : deriv (deriv w) r₀ = w2 r₀ := by rw [hev.deriv_eq, (hw1 r₀ hr₀').deriv]
  have hddpos : deriv (deriv w) r₀ > 0 := by
    rw [hdd, hode r₀ hr₀']; exact mul_pos (hcpos r₀ hr₀') hpos
  have hmin : IsLocalMin w r₀ :=
    isLocalMin_of_deriv_deriv_pos hddpos (by rw [(hw r₀ hr₀').deriv, hd0]) (hw r₀ hr₀').continuousAt
  have hconst : w =ᶠ[𝓝 r₀] fun _ => w r₀ := by
    filter_upwards [hloc, hmin] with y h1 h2 using le_antisymm h1 h2
  have : deriv (deriv w) r₀ = 0 := by
    rw [hconst.deriv.deriv_eq]; simp
  linarith

/-- `w'' = c·w` on `(0, R)` with `c > 0`, `w` continuous on `[0, R]`, `w(0) = w(R) = 0` ⇒ `w = 0` on `[0, R]`
(maximum principle: no positive interior maximum, no negative interior minimum). -/
theorem zero_of_second_deriv_eq_pos_mul {R : ℝ} (hR : 0 < R) {w w1 w2 c : ℝ → ℝ}
    (hc : ContinuousOn w (Icc 0 R))
    (hw : ∀ r ∈ Ioo 0 R, HasDerivAt w (w1 r) r) (hw1 : ∀ r ∈ Ioo 0 R, HasDerivAt w1 (w2 r) r)
    (hode : ∀ r ∈ Ioo 0 R, w2 r = c r * w r) (hcpos : ∀ r ∈ Ioo 0 R, 0 < c r)
    (h0 : w 0 = 0) (hRv : w R = 0) : ∀ r ∈ Icc 0 R, w r = 0 := by
  intro r hr
  have h1 := nonpos_of_second_deriv_eq_pos_mul hR hc hw hw1 hode hcpos h0 hRv r hr
  have h2 := nonpos_of_second_deriv_eq_pos_mul hR (w := fun r => -w r) (w1 := fun r => -w1 r) (w2 := fun r => -w2 r)
    (c := c) hc.neg (fun r hr => (hw r hr).neg) (fun r hr => (hw1 r hr).neg)
    (fun r hr => by rw [hode r hr]; ring) hcpos (by simp [h0]) (by simp [hRv]) r hr
  linarith

end GridVerif

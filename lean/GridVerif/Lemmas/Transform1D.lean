/-
  Helper lemmas for property C04 (`transform_1d_grid`), at `K = ℝ`:
  the list vocabulary of the model (`sumK`, `sort2`, `npMin/npMax`) in Mathlib's terms and
  the inversion / acceptance lemmas of `oneDGridNew` and `transform1dGrid`.
-/
import GridVerif.Lemmas.ElemReal
import GridVerif.Model.Transform1D
import Mathlib.Tactic.Linarith
import Mathlib.Tactic.Ring
import Mathlib.Order.Interval.Set.Basic

namespace GridVerif.Transform1D
open GridVerif.Gen.Transform1D

theorem sumK_eq_sum (l : List ℝ) : sumK l = l.sum := by
  induction l with
  | nil => simp [sumK]
  | cons x xs ih => simp [sumK, ih]

/-- On the reals `np.sort` of two numbers is `(min, max)`. -/
theorem sort2_real (a b : ℝ) : sort2 a b = (min a b, max a b) := by
  unfold sort2
  by_cases h : b < a
  · simp [h, min_eq_right h.le, max_eq_left h.le]
  · have h' : a ≤ b := not_lt.mp h
    simp [h, min_eq_left h', max_eq_right h']

theorem minStep_real (a x : ℝ) : minStep a x = min a x := by
  unfold minStep
  by_cases h : x < a
  · simp [h, min_eq_right h.le]
  · simp [h, min_eq_left (not_lt.mp h)]

theorem maxStep_real (a x : ℝ) : maxStep a x = max a x := by
  unfold maxStep
  by_cases h : a < x
  · simp [h, max_eq_right h.le]
  · simp [h, max_eq_left (not_lt.mp h)]

theorem foldl_min_le (xs : List ℝ) (x : ℝ) :
    xs.foldl min x ≤ x ∧ ∀ p ∈ xs, xs.foldl min x ≤ p := by
  induction xs generalizing x with
  | nil => simp
  | cons y ys ih =>
    simp only [List.foldl_cons, List.mem_cons, forall_eq_or_imp]
    obtain ⟨h1, h2⟩ := ih (min x y)
    exact ⟨h1.trans (min_le_left _ _), h1.trans (min_le_right _ _), h2⟩

theorem le_foldl_max (xs : List ℝ) (x : ℝ) :
    x ≤ xs.foldl max x ∧ ∀ p ∈ xs, p ≤ xs.foldl max x := by
  induction xs generalizing x with
  | nil => simp
  | cons y ys ih =>
    simp only [List.foldl_cons, List.mem_cons, forall_eq_or_imp]
    obtain ⟨h1, h2⟩ := ih (max x y)
    exact ⟨(le_max_left _ _).trans h1, (le_max_right _ _).trans h1, h2⟩

theorem foldl_min_mem (xs : List ℝ) (x : ℝ) : xs.foldl min x ∈ x :: xs := by
  induction xs generalizing x with
  | nil => simp
  | cons y ys ih =>
    simp only [List.foldl_cons]
    have := ih (min x y)
    rcases List.mem_cons.mp this with h | h
    · rcases min_choice x y with hc | hc <;> rw [h, hc] <;> simp
    · simp [h]

theorem foldl_max_mem (xs : List ℝ) (x : ℝ) : xs.foldl max x ∈ x :: xs := by
  induction xs generalizing x with
  | nil => simp
  | cons y ys ih =>
    simp only [List.foldl_cons]
    have := ih (max x y)
    rcases List.mem_cons.mp this with h | h
    · rcases max_choice x y with hc | hc <;> rw [h, hc] <;> simp
    · simp [h]

/-- `np.min` on the reals: a member of the list below every member. -/
theorem npMin_spec {l : List ℝ} {m : ℝ} (h : npMin l = some m) : m ∈ l ∧ ∀ p ∈ l, m ≤ p := by
  cases l with
  | nil => simp [npMin] at h
  | cons x xs =>
    simp only [npMin, Option.some.injEq] at h
    have hf : (fun a b : ℝ => minStep a b) = min := by funext a b; exact minStep_real a b
    rw [show (minStep : ℝ → ℝ → ℝ) = min from hf] at h
    subst h
    refine ⟨foldl_min_mem xs x, ?_⟩
    intro p hp
    rcases List.mem_cons.mp hp with rfl | hp
    · exact (foldl_min_le xs _).1
    · exact (foldl_min_le xs x).2 p hp

theorem npMax_spec {l : List ℝ} {m : ℝ} (h : npMax l = some m) : m ∈ l ∧ ∀ p ∈ l, p ≤ m := by
  cases l with
  | nil => simp [npMax] at h
  | cons x xs =>
    simp only [npMax, Option.some.injEq] at h
    have hf : (fun a b : ℝ => maxStep a b) = max := by funext a b; exact maxStep_real a b
    rw [show (maxStep : ℝ → ℝ → ℝ) = max from hf] at h
    subst h
    refine ⟨foldl_max_mem xs x, ?_⟩
    intro p hp
    rcases List.mem_cons.mp hp with rfl | hp
    · exact (le_foldl_max xs _).1
    · exact (le_foldl_max xs x).2 p hp

theorem npMin_isSome {l : List ℝ} (h : l ≠ []) : ∃ m, npMin l = some m := by
  cases l with
  | nil => exact absurd rfl h
  | cons x xs => exact ⟨_, rfl⟩

theorem npMax_isSome {l : List ℝ} (h : l ≠ []) : ∃ m, npMax l = some m := by
  cases l with
  | nil => exact absurd rfl h
  | cons x xs => exact ⟨_, rfl⟩

theorem slack_real : (slack : ℝ) = 1 / 10000000 := by
  unfold slack; norm_num

/-- What an accepted `OneDGrid(pts, wts, (lo, hi))` guarantees. -/
theorem oneDGridNew_ok {pts wts : List ℝ} {lo hi : ℝ} {g : Grid1D ℝ}
    (h : oneDGridNew pts wts (some (lo, hi)) = .ok g) :
    g = { pts := pts, wts := wts, domain := some (lo, hi) } ∧ lo ≤ hi ∧ pts ≠ [] ∧
      pts.length = wts.length ∧ ∀ p ∈ pts, lo - slack ≤ p ∧ p ≤ hi + slack := by
  unfold oneDGridNew at h
  simp only at h
  by_cases h1 : lo > hi
  · simp [h1] at h
  simp only [h1, ↓reduceIte] at h
  cases hmin : npMin pts with
  | none => simp [hmin] at h
  | some mn =>
    cases hmax : npMax pts with
    | none => simp [hmin, hmax] at h
    | some mx =>
      simp only [hmin, hmax] at h
      by_cases h2 : lo - slack > mn
      · simp [h2] at h
      by_cases h3 : hi + slack < mx
      · simp [h2, h3] at h
      by_cases h4 : pts.length ≠ wts.length
      · simp [h2, h3, h4] at h
      simp only [h2, h3, h4, ↓reduceIte, Except.ok.injEq] at h
      have hne : pts ≠ [] := by rintro rfl; simp [npMin] at hmin
      refine ⟨h.symm, not_lt.mp h1, hne, not_not.mp h4, ?_⟩
      intro p hp
      exact ⟨(not_lt.mp h2).trans ((npMin_spec hmin).2 p hp),
        ((npMax_spec hmax).2 p hp).trans (not_lt.mp h3)⟩

/-- When `OneDGrid(pts, wts, (lo, hi))` is accepted. -/
theorem oneDGridNew_accepts {pts wts : List ℝ} {lo hi : ℝ} (hlh : lo ≤ hi) (hne : pts ≠ [])
    (hlen : pts.length = wts.length) (hin : ∀ p ∈ pts, lo - slack ≤ p ∧ p ≤ hi + slack) :
    oneDGridNew pts wts (some (lo, hi)) = .ok { pts := pts, wts := wts, domain := some (lo, hi) } := by
  unfold oneDGridNew
  obtain ⟨mn, hmin⟩ := npMin_isSome hne
  obtain ⟨mx, hmax⟩ := npMax_isSome hne
  simp only [hmin, hmax, gt_iff_lt, not_lt.mpr hlh, ↓reduceIte]
  have h2 : ¬ mn < lo - slack := not_lt.mpr (hin mn (npMin_spec hmin).1).1
  have h3 : ¬ hi + slack < mx := not_lt.mpr (hin mx (npMax_spec hmax).1).2
  simp [h2, h3, hlen]

/-- Inversion of the model: what `transform1dGrid tf g = ok g'` says. -/
theorem transform1dGrid_ok {tf : Tf ℝ} {g g' : Grid1D ℝ} (h : transform1dGrid tf g = .ok g') :
    ∃ lo hi, g.domain = some (lo, hi) ∧ ¬ domainMismatch tf lo hi ∧
      g'.pts = List.zipWith (newPoint tf) g.pts g.wts ∧
      g'.wts = List.zipWith (newWeight tf) g.pts g.wts ∧
      g'.domain = some (newDomain tf lo hi) ∧
      (newDomain tf lo hi).1 ≤ (newDomain tf lo hi).2 ∧ g'.pts ≠ [] ∧
      ∀ p ∈ g'.pts, (newDomain tf lo hi).1 - slack ≤ p ∧ p ≤ (newDomain tf lo hi).2 + slack := by
  unfold transform1dGrid at h
  cases hd : g.domain with
  | none => simp [hd] at h
  | some d =>
    obtain ⟨lo, hi⟩ := d
    simp only [hd] at h
    split_ifs at h with h1 h2 h3 h4
    obtain ⟨rfl, hle, hne, -, hin⟩ := oneDGridNew_ok h
    exact ⟨lo, hi, rfl, h1, rfl, rfl, rfl, hle, hne, hin⟩

/-- Acceptance: the model returns a grid when nothing is rejected on the way. -/
theorem transform1dGrid_accepts {tf : Tf ℝ} {g : Grid1D ℝ} {lo hi : ℝ} (hd : g.domain = some (lo, hi))
    (hguard : ¬ domainMismatch tf lo hi) (hsz : ∀ n, tf.sizeRaises n = false)
    (hdr : ∀ x, tf.derivRaises x = false) (hne : g.pts ≠ []) (hlen : g.pts.length = g.wts.length)
    (hle : (newDomain tf lo hi).1 ≤ (newDomain tf lo hi).2)
    (hin : ∀ p ∈ List.zipWith (newPoint tf) g.pts g.wts,
      (newDomain tf lo hi).1 - slack ≤ p ∧ p ≤ (newDomain tf lo hi).2 + slack) :
    transform1dGrid tf g = .ok { pts := List.zipWith (newPoint tf) g.pts g.wts,
                                 wts := List.zipWith (newWeight tf) g.pts g.wts,
                                 domain := some (newDomain tf lo hi) } := by
  unfold transform1dGrid
  simp only [hd, hguard, hsz, ↓reduceIte, Bool.false_eq_true]
  have hany : g.pts.any tf.derivRaises = false := by
    simp [hdr]
  simp only [hany, Bool.false_eq_true, ↓reduceIte]
  apply oneDGridNew_accepts hle
  · intro h0
    have := congrArg List.length h0
    simp only [List.length_zipWith, List.length_nil] at this
    have hpos : 0 < g.pts.length := List.length_pos_iff.mpr hne
    omega
  · simp
  · exact hin

end GridVerif.Transform1D

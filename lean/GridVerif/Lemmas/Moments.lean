/-
  Helper lemmas for C14 (`Model/Moments.lean`): positions in block-structured lists,
  the Horton-2 sequence of `m`, `mapM` in `Except`, transposition.
-/
import GridVerif.Model.Moments
import Mathlib.Tactic.Ring
import Mathlib.Tactic.Linarith

namespace GridVerif.Moments

variable {β γ : Type}

/-! ### Horton order of Cartesian rows -/

/-- `a` comes before `b` in Horton order: strictly greater lexicographically
(`[2,0,0]` before `[1,1,0]` before `[1,0,1]` before `[0,2,0]` …). -/
def HortonBefore : List Nat → List Nat → Prop
  | x :: xs, y :: ys => x > y ∨ (x = y ∧ HortonBefore xs ys)
  | _, _ => False

theorem hortonBefore_irrefl : ∀ a : List Nat, ¬ HortonBefore a a
  | [] => by simp [HortonBefore]
  | x :: xs => by
    simp only [HortonBefore, gt_iff_lt, Nat.lt_irrefl, true_and, false_or]
    exact hortonBefore_irrefl xs

theorem pairwise_gt_downFrom (n : Nat) : (downFrom n).Pairwise (· > ·) := by
  unfold downFrom
  rw [List.pairwise_reverse]
  exact List.pairwise_lt_range

theorem mem_downFrom (n k : Nat) : k ∈ downFrom n ↔ k ≤ n := by
  simp [downFrom]; omega

/-! ### positions in `flatMap` over a range -/

/-- Blocks `f 0, f 1, …` laid end to end: block `k` starts at `off k`. -/
theorem getElem?_flatMap_range (f : Nat → List β) (off : Nat → Nat) (hoff0 : off 0 = 0)
    (hoff : ∀ k, off (k + 1) = off k + (f k).length) (n : Nat) :
    ((List.range n).flatMap f).length = off n ∧
    ∀ k j, k < n → j < (f k).length → ((List.range n).flatMap f)[off k + j]? = (f k)[j]? := by
  induction n with
  | zero => simp [hoff0]
  | succ n ih =>
    obtain ⟨ihl, ihg⟩ := ih
    rw [List.range_succ, List.flatMap_append]
    simp only [List.flatMap_cons, List.flatMap_nil, List.append_nil]
    refine ⟨by rw [List.length_append, ihl, hoff], ?_⟩
    intro k j hk hj
    by_cases hkn : k < n
    · have hmono : off k + j < off n := by
        have : off (k + 1) ≤ off n := by
          have mono : ∀ a b, a ≤ b → off a ≤ off b := by
            intro a b hab
            induction b with
            | zero => have : a = 0 := by omega
                      subst this; exact Nat.le_refl _
            | succ b ihb =>
              by_cases h : a ≤ b
              · exact Nat.le_trans (ihb h) (by rw [hoff]; omega)
              · have : a = b + 1 := by omega
                subst this; exact Nat.le_refl _
          exact mono _ _ (by omega)
        rw [hoff] at this; omega
      rw [List.getElem?_append_left (by rw [ihl]; exact hmono)]
      exact ihg k j hkn hj
    · have : k = n := by omega
      subst this
      rw [List.getElem?_append_right (by rw [ihl]; omega), ihl]
      congr 1; omega

/-- Pairs `[f x, g x]` laid end to end. -/
theorem getElem?_flatMap_pair (f g : Nat → β) (n i : Nat) (hi : i < n) :
    ((List.range n).flatMap fun x => [f x, g x])[2 * i]? = some (f i) ∧
    ((List.range n).flatMap fun x => [f x, g x])[2 * i + 1]? = some (g i) := by
  have h := (getElem?_flatMap_range (fun x => [f x, g x]) (fun k => 2 * k) rfl
    (by intro k; simp; omega) n).2
  constructor
  · have := h i 0 hi (by simp)
    simpa using this
  · have := h i 1 hi (by simp)
    simpa using this

theorem length_flatMap_pair (f g : Nat → β) (n : Nat) :
    ((List.range n).flatMap fun x => [f x, g x]).length = 2 * n :=
  (getElem?_flatMap_range (fun x => [f x, g x]) (fun k => 2 * k) rfl
    (by intro k; simp; omega) n).1

/-! ### the Horton-2 sequence `0, 1, -1, …, l, -l` -/

def hortonMs (l : Nat) : List Int :=
  0 :: (List.range l).flatMap fun x => [((x + 1 : Nat) : Int), -((x + 1 : Nat) : Int)]

/-- Position of `m` in the Horton-2 sequence: `2m − 1` for `m > 0`, `2|m|` for `m ≤ 0`. -/
def hidx (m : Int) : Nat := if m > 0 then 2 * m.toNat - 1 else 2 * m.natAbs

theorem length_hortonMs (l : Nat) : (hortonMs l).length = 2 * l + 1 := by
  unfold hortonMs
  rw [List.length_cons, length_flatMap_pair]

theorem hortonMs_get (l : Nat) (m : Int) (hm : m.natAbs ≤ l) : (hortonMs l)[hidx m]? = some m := by
  unfold hortonMs hidx
  by_cases h0 : m = 0
  · subst h0; simp
  · by_cases hp : m > 0
    · simp only [hp, ↓reduceIte]
      have hx : m.toNat - 1 < l := by omega
      have := (getElem?_flatMap_pair (fun x => ((x + 1 : Nat) : Int)) (fun x => -((x + 1 : Nat) : Int))
        l (m.toNat - 1) hx).1
      have e : 2 * m.toNat - 1 = 2 * (m.toNat - 1) + 1 := by omega
      rw [e, List.getElem?_cons_succ, this]
      congr 1
      show ((m.toNat - 1 + 1 : Nat) : Int) = m
      omega
    · simp only [hp, ↓reduceIte]
      have hx : m.natAbs - 1 < l := by omega
      have := (getElem?_flatMap_pair (fun x => ((x + 1 : Nat) : Int)) (fun x => -((x + 1 : Nat) : Int))
        l (m.natAbs - 1) hx).2
      have e : 2 * m.natAbs = (2 * (m.natAbs - 1) + 1) + 1 := by omega
      rw [e, List.getElem?_cons_succ, this]
      congr 1
      show -((m.natAbs - 1 + 1 : Nat) : Int) = m
      omega

theorem mem_hortonMs (l : Nat) (m : Int) : m ∈ hortonMs l ↔ m.natAbs ≤ l := by
  constructor
  · intro h
    unfold hortonMs at h
    simp only [List.mem_cons, List.mem_flatMap, List.mem_range, List.not_mem_nil, or_false] at h
    rcases h with rfl | ⟨x, hx, rfl | rfl⟩
    · simp
    · omega
    · omega
  · intro h
    exact List.mem_of_getElem? (hortonMs_get l m h)

theorem pureOrders_eq (l : Nat) : pureOrders l = (hortonMs l).map fun m => [(l : Int), m] := by
  simp [pureOrders, hortonMs, List.map_flatMap]

theorem pureRadial_inner_eq (n l : Nat) :
    ((List.range (l + 1)).flatMap fun (m : Nat) =>
      if m ≠ 0 then [[Int.ofNat n, Int.ofNat l, Int.ofNat m], [Int.ofNat n, Int.ofNat l, -Int.ofNat m]]
      else [[Int.ofNat n, Int.ofNat l, Int.ofNat m]])
      = (hortonMs l).map fun m => [(n : Int), (l : Int), m] := by
  rw [List.range_succ_eq_map, List.flatMap_cons, List.flatMap_map]
  simp [hortonMs, List.map_flatMap]

theorem pureRadialOrders_eq (n : Nat) :
    pureRadialOrders n = (List.range n).flatMap fun l => (hortonMs l).map fun m => [(n : Int), (l : Int), m] := by
  unfold pureRadialOrders
  congr 1
  funext l
  exact pureRadial_inner_eq n l

/-- Sum of the first `k` squares `1² + … + k²` (start of the pure-radial block of `n = k+1`). -/
def sqSum : Nat → Nat
  | 0 => 0
  | k + 1 => sqSum k + (k + 1) * (k + 1)

theorem six_sqSum (k : Nat) : 6 * sqSum k = k * (k + 1) * (2 * k + 1) := by
  induction k with
  | zero => rfl
  | succ k ih => simp only [sqSum]; rw [Nat.mul_add, ih]; ring

/-! ### `mapM` in `Except` -/

theorem mapM_ok {ε : Type} (l : List β) (fn : β → Except ε γ) (h : β → γ)
    (hok : ∀ x ∈ l, fn x = .ok (h x)) : l.mapM fn = .ok (l.map h) := by
  induction l with
  | nil => rfl
  | cons x xs ih =>
    rw [List.mapM_cons, hok x (List.mem_cons_self), ih (fun y hy => hok y (List.mem_cons_of_mem _ hy))]
    rfl

/-! ### transposition -/

/-- Transposing the matrix whose column for `c` is `rows.map (g c)` gives the matrix whose
row for `h` is `cs.map (g · h)`. -/
theorem transpose_map {K ι κ : Type} (cs : List ι) (rows : List κ) (g : ι → κ → K) :
    transpose (cs.map fun c => rows.map (g c)) rows.length = rows.map fun h => cs.map fun c => g c h := by
  induction rows with
  | nil => rfl
  | cons h hs ih =>
    simp only [List.length_cons, transpose, List.map_cons, List.map_map]
    congr 1
    · rw [List.filterMap_map]
      simp [Function.comp_def, List.filterMap_eq_map']

/-! ### primitives of the generated code (`Gen/Moments.lean`) -/

theorem pyRange_down (l : Nat) : pyRange (l : Int) (-1) (-1) = (downFrom l).map Int.ofNat := by
  unfold pyRange downFrom
  simp only [show ¬ (0 : Int) < -1 by omega, show (-1 : Int) < 0 by omega, if_true, if_false]
  have h : (((l : Int) - -1 + - -1 - 1) / - -1).toNat = l + 1 := by simp
  rw [h]
  apply List.ext_getElem
  · simp
  · intro i h1 h2
    simp at h1
    simp [List.getElem_reverse]
    omega

theorem pyRange_up (a : Int) (n : Nat) : pyRange a (a + n) 1 = (List.range n).map fun (k : Nat) => a + (k : Int) := by
  unfold pyRange
  simp

theorem flatMap_single' {α β : Type} (xs : List α) (h : α → β) :
    xs.flatMap (fun a => [h a]) = xs.map h := by
  induction xs with
  | nil => rfl
  | cons a t ih => rw [List.flatMap_cons, ih]; rfl

theorem flatMap_congr' {α β : Type} {l : List α} {f g : α → List β} (h : ∀ x ∈ l, f x = g x) :
    l.flatMap f = l.flatMap g := by
  induction l with
  | nil => rfl
  | cons a t ih =>
    rw [List.flatMap_cons, List.flatMap_cons, h a (List.mem_cons_self),
      ih (fun x hx => h x (List.mem_cons_of_mem _ hx))]

theorem foldl_append {α β : Type} (xs : List α) (f : α → List β) (init : List β) :
    xs.foldl (fun acc x => acc ++ f x) init = init ++ xs.flatMap f := by
  induction xs generalizing init with
  | nil => simp
  | cons x xs ih => simp [ih]


theorem npArrayRows_ne (rows : List (List Int)) (h : rows ≠ []) : npArrayRows rows = .d2 rows := by
  unfold npArrayRows
  cases rows with
  | nil => exact absurd rfl h
  | cons a t => rfl

theorem int_sub_ofNat (l mx : Nat) (h : mx ≤ l) : (l : Int) - Int.ofNat mx = ((l - mx : Nat) : Int) := by
  simp only [Int.ofNat_eq_natCast]; omega

theorem ite_append_left {α : Type} (c : Prop) [Decidable c] (a x y : List α) :
    (if c then a ++ x else a ++ y) = a ++ (if c then x else y) := by
  split <;> rfl

theorem map_ne_nil' {α β : Type} (f : α → β) (l : List α) (h : l ≠ []) : l.map f ≠ [] := by
  cases l with
  | nil => exact absurd rfl h
  | cons a t => simp


theorem maskGet_map_filter (zs : List Int) (p : Int → Bool) :
    npMaskGet zs (zs.map p) = .ok (zs.filter p) := by
  unfold npMaskGet
  rw [if_neg (by simp)]
  congr 1
  induction zs with
  | nil => rfl
  | cons z zs ih =>
    simp only [List.map_cons, List.zip_cons_cons, List.filterMap_cons, List.filter_cons]
    cases h : p z <;> simp [ih]

theorem maskAdd_map_filter (xs zs : List Int) (p : Int → Bool) (g : Int → Int) (hl : xs.length = zs.length) :
    maskAdd xs (zs.map p) ((zs.filter p).map g)
      = List.zipWith (fun x z => if p z then x + g z else x) xs zs := by
  induction zs generalizing xs with
  | nil =>
    cases xs with
    | nil => rfl
    | cons x xs => simp at hl
  | cons z zs ih =>
    cases xs with
    | nil => simp at hl
    | cons x xs =>
      have hl' : xs.length = zs.length := by simpa using hl
      simp only [List.map_cons, List.filter_cons, List.zipWith_cons_cons]
      cases h : p z
      · simp only [Bool.false_eq_true, if_false, maskAdd, ih xs hl']
      · simp only [if_true, List.map_cons, maskAdd, ih xs hl']

/-- `a[mask] += g(z[mask])` with `mask = p(z)`, all of one length: elementwise conditional update. -/
theorem maskIAdd_map_filter (xs zs : List Int) (p : Int → Bool) (g : Int → Int) (hl : xs.length = zs.length) :
    npMaskIAdd xs (zs.map p) ((zs.filter p).map g)
      = .ok (List.zipWith (fun x z => if p z then x + g z else x) xs zs) := by
  unfold npMaskIAdd
  have hc : ∀ ws : List Int, ((ws.map p).filter id).length = (ws.filter p).length := by
    intro ws
    induction ws with
    | nil => rfl
    | cons z zs ih =>
      simp only [List.map_cons, List.filter_cons]
      cases h : p z <;> simp [ih]
  rw [if_neg (by simp [hl]), if_neg (by simp [hc]), maskAdd_map_filter xs zs p g hl]

end GridVerif.Moments

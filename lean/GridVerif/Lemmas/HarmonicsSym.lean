/-
  C08 — consequences of the loop invariant (`HarmonicsSpec.lean`): normalisation in closed form,
  invariance under reparametrisation of the same point of the sphere, periodicity, the azimuthal
  derivative, solid harmonics.
-/
import GridVerif.Lemmas.HarmonicsSpec
import Mathlib.Analysis.SpecialFunctions.Trigonometric.Deriv
import Mathlib.Data.Nat.Factorial.Basic

namespace GridVerif.Harmonics
open Real

/-! ## the running factorial in closed form -/

/-- `factG l k = √((l+k+1)! / (l-k-1)!)` for `k + 1 ≤ l`: the value the code divides by at order
`m = k + 1` is `√((l+m)!/(l-m)!)`. -/
theorem factG_closed (l k : ℕ) (h : k + 1 ≤ l) :
    factG l k = √(((l + k + 1).factorial : ℝ) / ((l - k - 1).factorial : ℝ)) := by
  induction k with
  | zero =>
    obtain ⟨n, rfl⟩ : ∃ n, l = n + 1 := ⟨l - 1, by omega⟩
    simp only [factG, Nat.add_zero, Nat.sub_zero, Nat.add_sub_cancel]
    congr 1
    have hn : ((n.factorial : ℝ)) ≠ 0 := by positivity
    rw [Nat.factorial_succ (n + 1), Nat.factorial_succ n]
    push_cast
    field_simp
  | succ k ih =>
    have ih' := ih (by omega)
    obtain ⟨n, rfl⟩ : ∃ n, l = n + (k + 2) := ⟨l - (k + 2), by omega⟩
    simp only [factG]
    rw [ih', ← Real.sqrt_mul (by positivity)]
    congr 1
    have e1 : n + (k + 2) - k - 1 = (n + 1) := by omega
    have e2 : n + (k + 2) - (k + 1) - 1 = n := by omega
    have e3 : n + (k + 2) + (k + 1) + 1 = (n + (k + 2) + k + 1) + 1 := by omega
    rw [e1, e2, e3, Nat.factorial_succ (n + (k + 2) + k + 1), Nat.factorial_succ n]
    have hn : ((n.factorial : ℝ)) ≠ 0 := by positivity
    push_cast
    field_simp
    ring

theorem factG_pos (l k : ℕ) (h : k + 1 ≤ l) : 0 < factG l k := by
  rw [factG_closed l k h]
  positivity

/-! ## parity in `sin φ` -/

theorem legPair_neg (s c : ℝ) (l : ℕ) :
    (∀ m, (legPair (-s) c l).1 m = (-1) ^ m * (legPair s c l).1 m) ∧
      (∀ m, (legPair (-s) c l).2 m = (-1) ^ m * (legPair s c l).2 m) := by
  induction l with
  | zero =>
    refine ⟨fun m => ?_, fun m => ?_⟩
    · by_cases h : m = 0 <;> simp [legPair, h]
    · simp [legPair]
  | succ l ih =>
    refine ⟨fun m => ?_, fun m => ?_⟩
    · simp only [legPair]
      by_cases h1 : m = l + 1
      · subst h1
        simp only [↓reduceIte]
        rw [ih.1 l, pow_succ]; ring
      · by_cases h2 : m ≤ l
        · simp only [h1, h2, ↓reduceIte]
          rw [ih.1 m, ih.2 m]; ring
        · simp [h1, h2]
    · exact ih.1 m

/-- `P_l^m` has the parity of `m` in `sin φ`. -/
theorem pleg_neg (s c : ℝ) (l m : ℕ) : pleg (-s) c l m = (-1) ^ m * pleg s c l m :=
  (legPair_neg s c l).1 m

theorem neg_one_pow_mul_self (k : ℕ) : ((-1 : ℝ) ^ k) * ((-1) ^ k) = 1 := by
  rw [← mul_pow]; norm_num

/-- The rows do not change under `(θ, φ) ↦ (θ + π, -φ)` (same point of the sphere). -/
theorem ylmSpec_reparam (s c θ : ℝ) (l : ℕ) (m : ℤ) :
    ylmSpec (-s) c (θ + π) l m = ylmSpec s c θ l m := by
  obtain ⟨k, rfl | rfl⟩ := m.eq_nat_or_neg
  · by_cases hk : k = 0
    · subst hk; simp [ylmSpec_zero, pleg_neg]
    · rw [ylmSpec_pos _ _ _ _ _ (by omega), ylmSpec_pos _ _ _ _ _ (by omega), pleg_neg,
        mul_add, Real.cos_add_nat_mul_pi]
      have := neg_one_pow_mul_self k
      calc (-1) ^ k * pleg s c l k / factG l (k - 1) * facSph l * √2 * ((-1) ^ k * cos (↑k * θ))
          = ((-1) ^ k * (-1) ^ k) * (pleg s c l k / factG l (k - 1) * facSph l * √2 * cos (↑k * θ)) := by ring
        _ = _ := by rw [this, one_mul]
  · by_cases hk : k = 0
    · subst hk; simp [ylmSpec_zero, pleg_neg]
    · rw [ylmSpec_neg _ _ _ _ _ (by omega), ylmSpec_neg _ _ _ _ _ (by omega), pleg_neg,
        mul_add, Real.sin_add_nat_mul_pi]
      have := neg_one_pow_mul_self k
      calc (-1) ^ k * pleg s c l k / factG l (k - 1) * facSph l * √2 * ((-1) ^ k * sin (↑k * θ))
          = ((-1) ^ k * (-1) ^ k) * (pleg s c l k / factG l (k - 1) * facSph l * √2 * sin (↑k * θ)) := by ring
        _ = _ := by rw [this, one_mul]

/-- `2π`-periodicity in the azimuth. -/
theorem ylmSpec_theta_periodic (s c θ : ℝ) (l : ℕ) (m : ℤ) :
    ylmSpec s c (θ + 2 * π) l m = ylmSpec s c θ l m := by
  obtain ⟨k, rfl | rfl⟩ := m.eq_nat_or_neg
  · by_cases hk : k = 0
    · subst hk; simp [ylmSpec_zero]
    · rw [ylmSpec_pos _ _ _ _ _ (by omega), ylmSpec_pos _ _ _ _ _ (by omega), mul_add,
        Real.cos_add_nat_mul_two_pi]
  · by_cases hk : k = 0
    · subst hk; simp [ylmSpec_zero]
    · rw [ylmSpec_neg _ _ _ _ _ (by omega), ylmSpec_neg _ _ _ _ _ (by omega), mul_add,
        Real.sin_add_nat_mul_two_pi]

/-! ## the azimuthal derivative -/

/-- `∂/∂θ Y_{l,m} = -m Y_{l,-m}` for the rows of the recursion, every `l`, `m`. -/
theorem ylmSpec_hasDerivAt_theta (s c θ : ℝ) (l : ℕ) (m : ℤ) :
    HasDerivAt (fun t => ylmSpec s c t l m) (-(m : ℝ) * ylmSpec s c θ l (-m)) θ := by
  obtain ⟨k, rfl | rfl⟩ := m.eq_nat_or_neg
  · by_cases hk : k = 0
    · subst hk
      simp only [ylmSpec_zero, Nat.cast_zero, Int.cast_zero, neg_zero, zero_mul]
      exact hasDerivAt_const _ _
    · have hf : (fun t => ylmSpec s c t l (k : ℤ)) =
          fun t => pleg s c l k / factG l (k - 1) * facSph l * √2 * cos ((k : ℝ) * t) := by
        funext t; exact ylmSpec_pos _ _ _ _ _ (by omega)
      rw [hf, ylmSpec_neg _ _ _ _ _ (by omega)]
      have h1 : HasDerivAt (fun t : ℝ => (k : ℝ) * t) (k : ℝ) θ := by
        simpa using (hasDerivAt_id θ).const_mul (k : ℝ)
      have h2 := (h1.cos).const_mul (pleg s c l k / factG l (k - 1) * facSph l * √2)
      refine h2.congr_deriv ?_
      push_cast
      ring
  · by_cases hk : k = 0
    · subst hk
      simp only [ylmSpec_zero, Nat.cast_zero, Int.cast_zero, neg_zero, zero_mul]
      exact hasDerivAt_const _ _
    · have hf : (fun t => ylmSpec s c t l (-(k : ℤ))) =
          fun t => pleg s c l k / factG l (k - 1) * facSph l * √2 * sin ((k : ℝ) * t) := by
        funext t; exact ylmSpec_neg _ _ _ _ _ (by omega)
      rw [hf, neg_neg, ylmSpec_pos _ _ _ _ _ (by omega)]
      have h1 : HasDerivAt (fun t : ℝ => (k : ℝ) * t) (k : ℝ) θ := by
        simpa using (hasDerivAt_id θ).const_mul (k : ℝ)
      have h2 := (h1.sin).const_mul (pleg s c l k / factG l (k - 1) * facSph l * √2)
      refine h2.congr_deriv ?_
      push_cast
      ring

/-! ## the derivative routine, azimuthal part -/

theorem ofInt_real (m : ℤ) : (ofInt m : ℝ) = (m : ℝ) := by
  unfold ofInt
  split
  · rename_i h
    rw [Nat.cast_natAbs, abs_of_neg h]; push_cast; ring
  · rename_i h
    rw [Nat.cast_natAbs, abs_of_nonneg (by omega)]

/-- `output[0]` of the derivative routine is `-m Y_{l,-m}` row by row. -/
theorem dYlm_theta_eq (L : ℕ) (θ φ : ℝ) :
    (dYlm L θ φ).1 =
      (lmOrder L).map (fun lm => -(lm.2 : ℝ) * ylmSpec (sin φ) (cos φ) θ lm.1 (-lm.2)) := by
  unfold dYlm
  simp only [List.map_map]
  apply List.map_congr_left
  intro lm hlm
  obtain ⟨hl, hm⟩ := lmOrder_mem L lm hlm
  simp only [Function.comp, dEntry, ofInt_real]
  have hm' : (-lm.2).natAbs ≤ lm.1 := by simpa using hm
  unfold ylmCode
  rw [ylmCodeSC_getD L θ _ _ lm.1 (-lm.2) hl hm']
  rfl

/-! ## solid harmonics -/

/-- `solid_harmonics`: row `(l, m)` is `Y_lm · r^l · √(4π/(2l+1))`, the degree list is the degree of
the row. -/
theorem solidHarmonics_eq (L : ℕ) (r θ φ : ℝ) :
    solidHarmonics L r θ φ =
      (lmOrder L).map (fun lm =>
        ylmSpec (sin φ) (cos φ) θ lm.1 lm.2 * r ^ lm.1 * √(4 * π / (2 * (lm.1 : ℝ) + 1))) := by
  unfold solidHarmonics
  rw [ylmCode_eq, degreeList_eq, List.zipWith_map, List.zipWith_self]
  apply List.map_congr_left
  intro lm _
  simp [Elem.rpow, Elem.sqrt, Elem.pi, Real.rpow_natCast]

end GridVerif.Harmonics

/-
  Lemmas about the named primitives of the generated constructors (`Model/OneDPy.lean`) over ℝ, and the
  bridge between the generated `OneDGrid.__init__` (`Gen.OneD.OneDGrid.init`) and the hand-written
  `OneD.oneDGrid` of `Model/OneD.lean`.
-/
import GridVerif.Gen.OneDCtor
import GridVerif.Lemmas.OneDShape

namespace GridVerif.OneD
open GridVerif.OneD.Py

/-- the slack of the domain check as regenerated from the source -/
noncomputable def initSlack : ℝ := ((1 : ℕ) : ℝ) / ((10000000 : ℕ) : ℝ)

theorem initSlack_eq : initSlack = 1e-7 := by unfold initSlack; norm_num

theorem minimum_real (a b : ℝ) : Py.minimum a b = min a b := by
  unfold Py.minimum
  by_cases h : a < b
  · simp [h, min_eq_left h.le]
  · have : b ≤ a := not_lt.mp h
    simp [h, min_eq_right this]

theorem maximum_real (a b : ℝ) : Py.maximum a b = max a b := by
  unfold Py.maximum
  by_cases h : b < a
  · simp [h, max_eq_left h.le]
  · have : a ≤ b := not_lt.mp h
    simp [h, max_eq_right this]

theorem foldl_minimum_lt_iff (xs : List ℝ) (x c : ℝ) :
    xs.foldl Py.minimum x < c ↔ x < c ∨ ∃ p ∈ xs, p < c := by
  induction xs generalizing x with
  | nil => simp
  | cons y ys ih =>
    rw [List.foldl_cons, ih, minimum_real]
    simp only [List.mem_cons, exists_eq_or_imp, min_lt_iff]
    tauto

theorem lt_foldl_maximum_iff (xs : List ℝ) (x c : ℝ) :
    c < xs.foldl Py.maximum x ↔ c < x ∨ ∃ p ∈ xs, c < p := by
  induction xs generalizing x with
  | nil => simp
  | cons y ys ih =>
    rw [List.foldl_cons, ih, maximum_real]
    simp only [List.mem_cons, exists_eq_or_imp, lt_max_iff]
    tauto

/-- `np.min(points) < c` iff some point is below `c` -/
theorem npMin_lt_iff (x : ℝ) (xs : List ℝ) (c : ℝ) :
    ∃ m, Py.npMin (x :: xs) = .ok m ∧ (m < c ↔ ∃ p ∈ x :: xs, p < c) :=
  ⟨_, rfl, by rw [foldl_minimum_lt_iff]; simp⟩

theorem lt_npMax_iff (x : ℝ) (xs : List ℝ) (c : ℝ) :
    ∃ m, Py.npMax (x :: xs) = .ok m ∧ (c < m ↔ ∃ p ∈ x :: xs, c < p) :=
  ⟨_, rfl, by rw [lt_foldl_maximum_iff]; simp⟩

theorem any_decide_iff {α} (l : List α) (p : α → Prop) [DecidablePred p] :
    (l.any fun a => decide (p a)) = true ↔ ∃ a ∈ l, p a := by
  simp

/-- **The generated `OneDGrid.__init__` is the hand model's domain check.**  For a non-empty point array
(`np.min` of an empty array raises) and a declared domain `(lo, hi)` with `lo ≤ hi`, the regenerated
constructor body — `ndim` guard, tuple guard, `np.min` / `np.max`, the two comparisons with the slack,
`Grid.__init__`, `_domain` — gives exactly `OneD.oneDGrid points weights lo hi`. -/
theorem init_eq_model (P W : List ℝ) (lo : ℝ) (hi : Option ℝ) (hne : P ≠ [])
    (hord : ∀ b, hi = some b → lo ≤ b) :
    Gen.OneD.OneDGrid.init P W (some ⟨lo, hi⟩) = (oneDGrid P W lo hi).map Grid1D.toPy := by
  obtain ⟨x, xs, rfl⟩ := List.exists_cons_of_ne_nil hne
  obtain ⟨m, hm, hmlt⟩ := npMin_lt_iff x xs (lo - initSlack)
  have hgt : Py.gtHi lo hi = false := by
    cases hi with
    | none => rfl
    | some b =>
      have := hord b rfl
      simp only [Py.gtHi, Py.hiLt, decide_eq_false_iff_not, not_lt]
      exact this
  have hany1 : ((x :: xs).any fun p => decide (lo - initSlack > p)) = decide (m < lo - initSlack) := by
    rw [Bool.eq_iff_iff, any_decide_iff, decide_eq_true_iff, hmlt]
  have hs : ((1 : ℕ) : ℝ) / ((10000000 : ℕ) : ℝ) = initSlack := rfl
  unfold Gen.OneD.OneDGrid.init oneDGrid
  simp only [Py.ndim, Py.Domain.len, ne_eq, not_true_eq_false, decide_false, Bool.false_or, hgt,
    Bool.false_eq_true, if_false, hm, Except.bind, hs, hany1, gt_iff_lt]
  by_cases h1 : m < lo - initSlack
  · simp [h1, Except.map]
  · simp only [h1, decide_false, Bool.false_eq_true, if_false]
    cases hi with
    | none =>
      obtain ⟨M, hM, -⟩ := lt_npMax_iff x xs 0
      simp only [hM, Py.hiLt, Py.hiAdd, Option.map_none, Bool.false_eq_true, if_false, Py.gridInit]
      by_cases hl : xs.length + 1 = W.length
      · simp [hl, Except.map, Py.PyGrid.setDomain, Grid1D.toPy]
      · simp [hl, Except.map]
    | some b =>
      obtain ⟨M, hM, hMlt⟩ := lt_npMax_iff x xs (b + initSlack)
      have hany2 : ((x :: xs).any fun p => decide (b + initSlack < p)) = decide (b + initSlack < M) := by
        rw [Bool.eq_iff_iff, any_decide_iff, decide_eq_true_iff, hMlt]
      simp only [hM, Py.hiLt, Py.hiAdd, Option.map_some, Py.gridInit, hany2]
      by_cases h2 : b + initSlack < M
      · simp [h2, Except.map]
      · simp only [h2, decide_false, Bool.false_eq_true, if_false]
        by_cases hl : xs.length + 1 = W.length
        · simp [hl, Except.map, Py.PyGrid.setDomain, Grid1D.toPy]
        · simp [hl, Except.map]

/-- `Except.bind` of a mapped result -/
theorem bind_map_toPy {β} (r : Except Err (Grid1D ℝ)) (k : PyGrid ℝ → Except Err β) :
    (r.map Grid1D.toPy).bind k = r.bind fun g => k g.toPy := by
  cases r <;> rfl

end GridVerif.OneD

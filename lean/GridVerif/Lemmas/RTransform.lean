/-
  Helper lemmas for property C03 (radial transforms).

  * the `ℝ` instance of `HasInf` (there is no infinity among the reals, so the
    generated `_convert_inf` is the identity there);
  * rewriting of the generic vocabulary (`Elem.*`, `npow`, literals) into Mathlib's;
  * the generic inverse-function derivative package
      g' = 1/d₁,  g'' = -d₂/d₁³,  g''' = (3 d₂² - d₁ d₃)/d₁⁵
    in exactly the shape `BaseTransform.deriv*_inverse` / `InverseRTransform.deriv*` compute;
  * sign of the derivative ⇒ strict monotonicity.
-/
import GridVerif.Lemmas.ElemReal
import GridVerif.Model.RTransform
import GridVerif.Gen.RTransform
import Mathlib.Analysis.SpecialFunctions.Pow.Deriv
import Mathlib.Analysis.SpecialFunctions.Log.Deriv
import Mathlib.Analysis.SpecialFunctions.ExpDeriv
import Mathlib.Analysis.Calculus.Deriv.Inverse
import Mathlib.Analysis.Calculus.Deriv.Inv
import Mathlib.Analysis.Calculus.Deriv.MeanValue
import Mathlib.Tactic.FieldSimp
import Mathlib.Tactic.Ring
import Mathlib.Tactic.Linarith
import Mathlib.Tactic.Positivity

namespace GridVerif

/-- No real number is infinite: every infinity test of `_convert_inf` answers `false`. -/
noncomputable instance : HasInf ℝ where
  eqPosInf _ := false
  eqNegInf _ := false
  isInf _ := false
  sign x := (SignType.sign x : ℝ)

namespace C03
open GridVerif.Gen.RTransform Filter Topology

/-! ### Vocabulary -/

theorem elem_rpow (a b : ℝ) : Elem.rpow a b = a ^ b := rfl
theorem elem_log (a : ℝ) : Elem.log a = Real.log a := rfl
theorem elem_exp (a : ℝ) : Elem.exp a = Real.exp a := rfl

/-- `_convert_inf` (array branch) is the identity on the reals. -/
theorem convert_inf_real (a r : ℝ) : BaseTransform.convert_inf a r = a := rfl

/-- `_convert_inf` (scalar branch) is the identity on the reals. -/
theorem convert_inf_scalar_real (a r : ℝ) : BaseTransform.convert_inf_scalar a r = a := rfl

/-- Normal form of the generated text at `K = ℝ`. -/
macro "rt_norm" : tactic =>
  `(tactic| simp only [Nat.cast_ofNat, Nat.cast_one, Nat.cast_zero, npow_eq_pow, elem_rpow, elem_log, elem_exp,
      convert_inf_real, ite_self])

macro "rt_norm" "at" h:ident : tactic =>
  `(tactic| simp only [Nat.cast_ofNat, Nat.cast_one, Nat.cast_zero, npow_eq_pow, elem_rpow, elem_log, elem_exp,
      convert_inf_real, ite_self] at $h:ident)

/-- Closing step after `HasDerivAt.congr_deriv`: evaluate pointwise operations, clear denominators, `ring`. -/
macro "deriv_finish" : tactic =>
  `(tactic| (try simp only [Pi.pow_apply, Pi.neg_apply, Pi.mul_apply, Pi.add_apply, Pi.sub_apply, Pi.div_apply]
             field_simp
             try ring))

/-- `1 - y → 0⁺` as `y → 1⁻`. -/
theorem tendsto_one_sub_nhdsLT : Tendsto (fun y : ℝ => 1 - y) (𝓝[<] 1) (𝓝[>] 0) := by
  rw [tendsto_nhdsWithin_iff]
  constructor
  · have : Tendsto (fun y : ℝ => 1 - y) (𝓝 1) (𝓝 (1 - 1)) := (continuous_const.sub continuous_id).tendsto 1
    simpa using this.mono_left nhdsWithin_le_nhds
  · filter_upwards [self_mem_nhdsWithin] with y hy
    simp only [Set.mem_Iio] at hy
    simp only [Set.mem_Ioi]; linarith

/-- `1 + y → 0⁺` as `y → -1⁺`. -/
theorem tendsto_one_add_nhdsGT : Tendsto (fun y : ℝ => 1 + y) (𝓝[>] (-1)) (𝓝[>] 0) := by
  rw [tendsto_nhdsWithin_iff]
  constructor
  · have : Tendsto (fun y : ℝ => 1 + y) (𝓝 (-1)) (𝓝 (1 + -1)) := (continuous_const.add continuous_id).tendsto (-1)
    simpa using this.mono_left nhdsWithin_le_nhds
  · filter_upwards [self_mem_nhdsWithin] with y hy
    simp only [Set.mem_Ioi] at hy
    simp only [Set.mem_Ioi]; linarith

/-! ### Building blocks for derivatives with real exponents -/

theorem hasDerivAt_one_add (x : ℝ) : HasDerivAt (fun y : ℝ => 1 + y) 1 x := by
  simpa using (hasDerivAt_id x).const_add 1

theorem hasDerivAt_one_sub (x : ℝ) : HasDerivAt (fun y : ℝ => 1 - y) (-1) x := by
  simpa using (hasDerivAt_id x).const_sub 1

/-- `d/dx (1+x)^p = p (1+x)^(p-1)` for `1 + x > 0`, any real `p`. -/
theorem hasDerivAt_one_add_rpow (x p : ℝ) (h : 0 < 1 + x) :
    HasDerivAt (fun y : ℝ => (1 + y) ^ p) (p * (1 + x) ^ (p - 1)) x := by
  have := (hasDerivAt_one_add x).rpow_const (p := p) (Or.inl h.ne')
  simpa [mul_comm] using this

/-- `d/dx (1-x)^p = -p (1-x)^(p-1)` for `1 - x > 0`, any real `p`. -/
theorem hasDerivAt_one_sub_rpow (x p : ℝ) (h : 0 < 1 - x) :
    HasDerivAt (fun y : ℝ => (1 - y) ^ p) (-(p * (1 - x) ^ (p - 1))) x := by
  have := (hasDerivAt_one_sub x).rpow_const (p := p) (Or.inl h.ne')
  refine this.congr_deriv ?_
  ring

/-- `a^(p-n) = a^p / a^n` for `a > 0`, natural `n`. -/
theorem rpow_sub_nat' {a : ℝ} (h : 0 < a) (p : ℝ) (n : ℕ) : a ^ (p - (n : ℝ)) = a ^ p / a ^ n := by
  rw [Real.rpow_sub h, Real.rpow_natCast]

theorem rpow_sub_one' {a : ℝ} (h : 0 < a) (p : ℝ) : a ^ (p - 1) = a ^ p / a := by
  rw [Real.rpow_sub h, Real.rpow_one]

theorem rpow_sub_two' {a : ℝ} (h : 0 < a) (p : ℝ) : a ^ (p - 2) = a ^ p / a ^ 2 := by
  have := rpow_sub_nat' h p 2; simpa using this

theorem rpow_sub_three' {a : ℝ} (h : 0 < a) (p : ℝ) : a ^ (p - 3) = a ^ p / a ^ 3 := by
  have := rpow_sub_nat' h p 3; simpa using this

theorem rpow_sub_four' {a : ℝ} (h : 0 < a) (p : ℝ) : a ^ (p - 4) = a ^ p / a ^ 4 := by
  have := rpow_sub_nat' h p 4; simpa using this

theorem rpow_add_one' {a : ℝ} (h : 0 < a) (p : ℝ) : a ^ (p + 1) = a ^ p * a := by
  rw [Real.rpow_add h, Real.rpow_one]

theorem rpow_add_two' {a : ℝ} (h : 0 < a) (p : ℝ) : a ^ (p + 2) = a ^ p * a ^ 2 := by
  rw [Real.rpow_add h]; norm_cast

theorem rpow_add_three' {a : ℝ} (h : 0 < a) (p : ℝ) : a ^ (p + 3) = a ^ p * a ^ 3 := by
  rw [Real.rpow_add h]; norm_cast

theorem rpow_add_four' {a : ℝ} (h : 0 < a) (p : ℝ) : a ^ (p + 4) = a ^ p * a ^ 4 := by
  rw [Real.rpow_add h]; norm_cast

theorem rpow_two_mul' {a : ℝ} (h : 0 ≤ a) (p : ℝ) : a ^ (2 * p) = (a ^ p) ^ 2 := by
  rw [mul_comm, Real.rpow_mul h]; norm_cast

/-- `4^p = (2^p)^2`. -/
theorem four_rpow (p : ℝ) : (4 : ℝ) ^ p = ((2 : ℝ) ^ p) ^ 2 := by
  have : (4 : ℝ) = 2 ^ (2 : ℝ) := by norm_num
  rw [this, ← Real.rpow_mul (by norm_num), mul_comm, Real.rpow_mul (by norm_num)]
  norm_cast

/-! ### Sign of the derivative ⇒ strict monotonicity -/

theorem strictMonoOn_of_hasDerivAt_pos {D : Set ℝ} (hD : Convex ℝ D) {f f' : ℝ → ℝ}
    (h : ∀ x ∈ D, HasDerivAt f (f' x) x) (hpos : ∀ x ∈ D, 0 < f' x) : StrictMonoOn f D := by
  refine strictMonoOn_of_deriv_pos hD (fun x hx => (h x hx).continuousAt.continuousWithinAt) ?_
  intro x hx
  rw [(h x (interior_subset hx)).deriv]
  exact hpos x (interior_subset hx)

theorem strictAntiOn_of_hasDerivAt_neg {D : Set ℝ} (hD : Convex ℝ D) {f f' : ℝ → ℝ}
    (h : ∀ x ∈ D, HasDerivAt f (f' x) x) (hneg : ∀ x ∈ D, f' x < 0) : StrictAntiOn f D := by
  refine strictAntiOn_of_deriv_neg hD (fun x hx => (h x hx).continuousAt.continuousWithinAt) ?_
  intro x hx
  rw [(h x (interior_subset hx)).deriv]
  exact hneg x (interior_subset hx)

/-! ### The inverse-function derivative package -/

/-- `g' = 1/d₁`. -/
theorem inverse_hasDerivAt₁ {f g d1 : ℝ → ℝ} {r : ℝ}
    (hf : HasDerivAt f (d1 (g r)) (g r)) (hd : d1 (g r) ≠ 0)
    (hg : ContinuousAt g r) (hfg : ∀ᶠ y in 𝓝 r, f (g y) = y) :
    HasDerivAt g (1 / d1 (g r)) r := by
  have := HasDerivAt.of_local_left_inverse hg hf hd hfg
  simpa [one_div] using this

/-- `g'' = -d₂/d₁³` (as the derivative of `r ↦ 1 / d₁ (g r)`). -/
theorem inverse_hasDerivAt₂ {g d1 d2 : ℝ → ℝ} {r : ℝ}
    (hg : HasDerivAt g (1 / d1 (g r)) r) (hd1 : HasDerivAt d1 (d2 (g r)) (g r)) (hd : d1 (g r) ≠ 0) :
    HasDerivAt (fun y => 1 / d1 (g y)) (-(d2 (g r)) / d1 (g r) ^ 3) r := by
  have h1 : HasDerivAt (fun y => d1 (g y)) (d2 (g r) * (1 / d1 (g r))) r := hd1.comp r hg
  have h2 := h1.inv hd
  have : (fun y => 1 / d1 (g y)) = fun y => (d1 (g y))⁻¹ := by funext y; rw [one_div]
  rw [this]
  refine h2.congr_deriv ?_
  field_simp

/-- `g''' = (3 d₂² - d₁ d₃)/d₁⁵` (as the derivative of `r ↦ -d₂ (g r) / d₁ (g r)³`). -/
theorem inverse_hasDerivAt₃ {g d1 d2 d3 : ℝ → ℝ} {r : ℝ}
    (hg : HasDerivAt g (1 / d1 (g r)) r) (hd1 : HasDerivAt d1 (d2 (g r)) (g r))
    (hd2 : HasDerivAt d2 (d3 (g r)) (g r)) (hd : d1 (g r) ≠ 0) :
    HasDerivAt (fun y => -(d2 (g y)) / d1 (g y) ^ 3)
      ((3 * d2 (g r) ^ 2 - d1 (g r) * d3 (g r)) / d1 (g r) ^ 5) r := by
  have h1 : HasDerivAt (fun y => d1 (g y)) (d2 (g r) * (1 / d1 (g r))) r := hd1.comp r hg
  have h2 : HasDerivAt (fun y => d2 (g y)) (d3 (g r) * (1 / d1 (g r))) r := hd2.comp r hg
  have h3 := (h2.neg).div (h1.pow 3) (pow_ne_zero 3 hd)
  refine h3.congr_deriv ?_
  simp only [Pi.pow_apply, Pi.neg_apply]
  field_simp
  ring

/-- What the package needs from a transform object `F` at a point `r` of the codomain:
`F.deriv, F.deriv2, F.deriv3` are the successive derivatives of `F.transform` at `x = F.inverse r`,
the first one does not vanish there, and `F.inverse` is a continuous local right inverse at `r`. -/
structure LocalInverseAt (F : BaseTransform ℝ) (r : ℝ) : Prop where
  d1 : HasDerivAt F.transform (F.deriv (F.inverse r)) (F.inverse r)
  d2 : HasDerivAt F.deriv (F.deriv2 (F.inverse r)) (F.inverse r)
  d3 : HasDerivAt F.deriv2 (F.deriv3 (F.inverse r)) (F.inverse r)
  ne : F.deriv (F.inverse r) ≠ 0
  cont : ContinuousAt F.inverse r
  right_inv : ∀ᶠ y in 𝓝 r, F.transform (F.inverse y) = y

theorem deriv_inverse_fun (F : BaseTransform ℝ) :
    BaseTransform.deriv_inverse F = fun y => 1 / F.deriv (F.inverse y) := by
  funext y; simp only [BaseTransform.deriv_inverse, Nat.cast_one]

theorem deriv2_inverse_fun (F : BaseTransform ℝ) :
    BaseTransform.deriv2_inverse F = fun y => -(F.deriv2 (F.inverse y)) / F.deriv (F.inverse y) ^ 3 := by
  funext y; simp only [BaseTransform.deriv2_inverse, npow_eq_pow]

theorem deriv3_inverse_val (F : BaseTransform ℝ) (r : ℝ) :
    BaseTransform.deriv3_inverse F r =
      (3 * F.deriv2 (F.inverse r) ^ 2 - F.deriv (F.inverse r) * F.deriv3 (F.inverse r)) / F.deriv (F.inverse r) ^ 5 := by
  simp only [BaseTransform.deriv3_inverse, npow_eq_pow, Nat.cast_ofNat]

/-- The inherited `deriv_inverse`, `deriv2_inverse`, `deriv3_inverse` are the first three
derivatives of `inverse`. -/
theorem deriv_inverse_package (F : BaseTransform ℝ) (r : ℝ) (h : LocalInverseAt F r) :
    HasDerivAt F.inverse (BaseTransform.deriv_inverse F r) r ∧
    HasDerivAt (BaseTransform.deriv_inverse F) (BaseTransform.deriv2_inverse F r) r ∧
    HasDerivAt (BaseTransform.deriv2_inverse F) (BaseTransform.deriv3_inverse F r) r := by
  have h1 : HasDerivAt F.inverse (1 / F.deriv (F.inverse r)) r :=
    inverse_hasDerivAt₁ (f := F.transform) (d1 := F.deriv) h.d1 h.ne h.cont h.right_inv
  refine ⟨?_, ?_, ?_⟩
  · rw [deriv_inverse_fun]; exact h1
  · rw [deriv_inverse_fun, deriv2_inverse_fun]
    exact inverse_hasDerivAt₂ (d2 := F.deriv2) h1 h.d2 h.ne
  · rw [deriv2_inverse_fun, deriv3_inverse_val]
    exact inverse_hasDerivAt₃ (d2 := F.deriv2) (d3 := F.deriv3) h1 h.d2 h.d3 h.ne

/-- `InverseRTransform(F)`: its `transform` is `F.inverse`, and its `deriv`, `deriv2`, `deriv3`
compute the same expressions as the inherited inverse-derivative methods of `F`. -/
theorem inverseRTransform_methods (F : BaseTransform ℝ) :
    (wrapInverseRTransform F).transform = F.inverse ∧
    (wrapInverseRTransform F).inverse = F.transform ∧
    (wrapInverseRTransform F).deriv = BaseTransform.deriv_inverse F ∧
    (wrapInverseRTransform F).deriv2 = BaseTransform.deriv2_inverse F ∧
    (wrapInverseRTransform F).deriv3 = BaseTransform.deriv3_inverse F :=
  ⟨rfl, rfl, rfl, rfl, rfl⟩

end C03
end GridVerif

import GridVerif.Model.Effects

namespace GridVerif.Effects

/-- The invariant carried along an execution: a variable outside the may-alias set never
refers to a caller-owned object. -/
def Inv (owned : Nat → Prop) (t : List Nat) (σ : State) : Prop :=
  ∀ v, v ∉ t → ¬ owned (σ.ref v)

theorem closed_assign {stmts : List Stmt} {t : List Nat} (hc : closedB stmts t = true)
    {x : Nat} {ys : List Nat} {cb : Bool} (hs : Stmt.assign x ys cb ∈ stmts) (hx : x ∉ t) :
    cb = false ∧ ∀ y ∈ ys, y ∉ t := by
  unfold closedB at hc
  have := List.all_eq_true.mp hc _ hs
  simp only [Bool.or_eq_true, Bool.not_eq_true', List.contains_eq_mem, decide_eq_true_eq,
    List.any_eq_true] at this
  rcases this with h | h
  · simp only [Bool.or_eq_false_iff, List.any_eq_false, decide_eq_true_eq] at h
    exact ⟨h.1, fun y hy => h.2 y hy⟩
  · exact absurd h hx

theorem nowrite_inplace {stmts : List Stmt} {t : List Nat} (hw : noWriteB stmts t = true)
    {x : Nat} (hs : Stmt.inplace x ∈ stmts) : x ∉ t := by
  unfold noWriteB at hw
  have := List.all_eq_true.mp hw _ hs
  simpa using this

theorem step_preserves {owned : Nat → Prop} {stmts : List Stmt} {t : List Nat}
    (hc : closedB stmts t = true) (hw : noWriteB stmts t = true)
    {s : Stmt} (hs : s ∈ stmts) {σ σ' : State} (hI : Inv owned t σ) (h : Step owned s σ σ') :
    Inv owned t σ' ∧ ∀ o, owned o → σ'.heap o = σ.heap o := by
  cases h with
  | @aliasOf x ys cb y _ hy =>
    refine ⟨?_, fun _ _ => rfl⟩
    intro v hv
    by_cases hvx : v = x
    · subst hvx
      have := (closed_assign hc hs hv).2 y hy
      simpa using hI y this
    · simpa [hvx] using hI v hv
  | @fromCaller x ys _ o ho =>
    refine ⟨?_, fun _ _ => rfl⟩
    intro v hv
    by_cases hvx : v = x
    · subst hvx
      have := (closed_assign hc hs hv).1
      cases this
    · simpa [hvx] using hI v hv
  | @fresh x ys cb _ o ho c =>
    refine ⟨?_, ?_⟩
    · intro v hv
      by_cases hvx : v = x
      · subst hvx; simpa using ho
      · simpa [hvx] using hI v hv
    · intro a ha
      have : a ≠ o := fun h => ho (h ▸ ha)
      simp [this]
  | @write x _ c =>
    refine ⟨hI, ?_⟩
    intro a ha
    have hx : x ∉ t := nowrite_inplace hw hs
    have : a ≠ σ.ref x := fun h => hI x hx (h ▸ ha)
    simp [this]

theorem run_preserves {owned : Nat → Prop} {stmts : List Stmt} {t : List Nat}
    (hc : closedB stmts t = true) (hw : noWriteB stmts t = true)
    {σ σ' : State} (hI : Inv owned t σ) (h : Run owned stmts σ σ') :
    Inv owned t σ' ∧ ∀ o, owned o → σ'.heap o = σ.heap o := by
  induction h with
  | nil => exact ⟨hI, fun _ _ => rfl⟩
  | cons hs h1 _ ih =>
    obtain ⟨hI', hh⟩ := step_preserves hc hw hs hI h1
    obtain ⟨hI'', hh'⟩ := ih hI'
    exact ⟨hI'', fun o ho => (hh' o ho).trans (hh o ho)⟩

end GridVerif.Effects

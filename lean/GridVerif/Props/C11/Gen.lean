/-
  C11 — tie of the hand model `Model/Periodic.lean` to the source through the *generated*
  definitions (`Gen/LocalGrid.lean`, translated from src/grid/periodicgrid.py and
  src/grid/basegrid.py on every run by harness/translate/localgrid.py).

  `gen_*_eq`: each generated method of `PeriodicGrid` (constructor, `points` / `weights` setters,
  `__getitem__`, `get_localgrid`) equals the corresponding function of the hand model, so the
  theorems of `Props/C11.lean` are theorems about the generated text; the main ones are restated
  below over the generated definitions.  A change of the source that alters the generated text
  (`ceil` ↔ `floor`, `- delta` → `+ delta`, `radius / spacings` → `radius * spacings`, dropping
  `abs` in the 1-D spacing, not recomputing `_frac_intvls`, not resetting `_kdtree` …) breaks one of
  these proofs.
-/
import GridVerif.Props.C11
import GridVerif.Props.C10.Gen

set_option linter.unusedSectionVars false
set_option linter.unusedSimpArgs false

namespace GridVerif.C11
open GridVerif.LocalGrid GridVerif.Periodic GridVerif.LocalGridPy GridVerif.LocalGridGen
open GridVerif.Gen.LocalGrid

section generic
variable {K : Type} [Add K] [Sub K] [Mul K] [Div K] [Neg K] [NatCast K] [IntCast K] [Elem K]
variable [FloorCeil K] [LE K] [DecidableLE K] [LT K] [DecidableLT K]

/-- (setter effects) The generated effect summary of the `PeriodicGrid.points` setter: the base
setter is called (shape guard, new points, **tree reset**), then `_frac_intvls` is **recomputed**
from the fractional coordinates of the *new* points. -/
theorem gen_psetter_effects :
    PeriodicGrid_points_set_effects =
      [("call", "Grid.points.fset(self, value)"),
       ("frac_points", "[value.ndim == 1 and self._realvecs.size == 0] np.zeros((len(value), 0))"),
       ("frac_points", "[not (value.ndim == 1 and self._realvecs.size == 0)] [value.ndim == 1] value * self._recivecs"),
       ("frac_points", "[not (value.ndim == 1 and self._realvecs.size == 0)] [not (value.ndim == 1)] value @ self._recivecs.T"),
       ("self._frac_intvls", "[value.ndim == 1 and self._realvecs.size > 0] np.array([[frac_points.min(), frac_points.max()]])"),
       ("self._frac_intvls", "[not (value.ndim == 1 and self._realvecs.size > 0)] np.array([frac_points.min(axis=0), frac_points.max(axis=0)]).T")] :=
  rfl

/-- The integer ranges of the generated `get_localgrid`
(`ceil(fmin − b·c − r/s) … floor(fmax − b·c + r/s)`, `range(imin, imax + 1)`) are those of the
model, for every object (no hypothesis). -/
theorem gen_ranges_eq (g : PGrid K) (c : Point K) (r : K) :
    List.zipWith (fun (imin imax : Int) => pyRange2 imin (imax + 1))
      (npCeilInt (npSub (npSub (npCol0 g.fracIntvls) (npMatVec g.recivecs c)) (npSDiv r g.spacings)))
      (npFloorInt (npAdd (npSub (npCol1 g.fracIntvls) (npMatVec g.recivecs c)) (npSDiv r g.spacings)))
    = ilcRanges g c r := by
  unfold ilcRanges npCeilInt npFloorInt npSub npAdd npCol0 npCol1 npMatVec npSDiv
  apply List.ext_getElem
  · simp only [List.length_zipWith, List.length_map, List.length_zip]; omega
  · intro i h1 h2
    simp only [List.getElem_zipWith, List.getElem_map, List.getElem_zip, intRange, pyRange2]

/-- `(min, max)` per column of the matrix of fractional coordinates = the intervals of the model. -/
theorem npMinMaxCols_rows (reci : List (Point K)) (fv : Point K → Point K → K) (p0 : Point K)
    (rest : List (Point K)) :
    npMinMaxCols ((p0 :: rest).map fun x => reci.map fun b => fv x b) =
      some (intervalsOf reci fv p0 rest) := by
  simp only [List.map_cons, npMinMaxCols, intervalsOf, Option.some.injEq]
  apply List.ext_getElem
  · simp
  · intro i h1 h2
    have hi : i < reci.length := by simpa using h2
    have hcol : (rest.map fun x => reci.map fun b => fv x b).filterMap (fun r => r[i]?) =
        rest.map fun x => fv x reci[i] := by
      rw [List.filterMap_map]
      rw [← List.filterMap_eq_map]
      congr 1
      funext x
      simp [List.getElem?_eq_getElem hi]
    simp only [List.getElem_map, List.getElem_zipIdx, Nat.zero_add, hcol]

/-- The three spellings of the fractional coordinates in the source (no lattice vector and 1-D
points: `np.zeros((N, 0))`; 1-D: `points * recivecs`; N-D: `points @ recivecs.T`) are one matrix
in the row-list form. -/
theorem frac_points_eq (reci rv : List (Point K)) (hb : rv.isEmpty = true → reci = []) (oned : Bool)
    (pts : List (Point K)) :
    (if oned = true ∧ rv.isEmpty = true then npZerosM pts.length
      else if oned = true then npMatMulT pts reci else npMatMulT pts reci) = npMatMulT pts reci := by
  by_cases h : oned = true ∧ rv.isEmpty = true
  · have hr : reci = [] := hb h.2
    simp only [h, and_self, if_true, hr, npZerosM, npMatMulT, List.map_nil]
    exact List.map_const'.symm
  · simp only [h, if_false, ite_self]

/-- (generated = model, `PeriodicGrid.points` setter) shape guard, new points, tree reset,
intervals recomputed from the new points. -/
theorem gen_ppoints_set_eq (g : PGrid K) (hb : g.recivecs.length = g.realvecs.length)
    (hp : g.points ≠ []) (oned : Bool) (dim : Nat) (value : List (Point K)) :
    PeriodicGrid_points_set g oned dim value = some (setPoints g oned dim value) := by
  unfold PeriodicGrid_points_set setPoints
  by_cases hs : Periodic.sameShape g oned dim value = true
  · have hv : value ≠ [] := by
      simp only [Periodic.sameShape, Bool.and_eq_true, beq_iff_eq] at hs
      intro h0
      rw [h0] at hs
      exact hp (List.length_eq_zero_iff.mp hs.1.2.symm)
    simp only [hs, not_true_eq_false, if_false]
    rw [frac_points_eq g.recivecs g.realvecs (fun he => by
      have : g.realvecs = [] := List.isEmpty_iff.mp he
      rw [this] at hb; exact List.length_eq_zero_iff.mp hb) oned value]
    match value, hv with
    | p0 :: rest, _ =>
      have hm := npMinMaxCols_rows g.recivecs (fun p b => dot p b) p0 rest
      simp only [npMatMulT, hm, pyOpt_some, ite_self]
  · simp [hs]

/-- (generated = model, `weights` setter inherited from `Grid`) -/
theorem gen_pweights_set_eq (g : PGrid K) (value : List K) :
    PeriodicGrid_weights_set g value = some (setWeights g value) := by
  unfold PeriodicGrid_weights_set setWeights
  by_cases h : value.length = g.weights.length <;> simp [h]

/-! ### the constructor -/

/-- Reciprocal vectors: zeros of an empty shape / `1 / realvecs` (1-D) / the pseudo-inverse. -/
theorem reci_eq (oned : Bool) (rv rp : List (Point K)) :
    (if rv.isEmpty = true then npZerosLike rv else if oned = true then npRecipLat rv else rp) =
      recipOf oned rv rp := by
  unfold recipOf npZerosLike npRecipLat
  by_cases h : rv.isEmpty = true
  · have : rv = [] := List.isEmpty_iff.mp h
    simp [this]
  · simp only [h, Bool.false_eq_true, if_false]

/-- Plane spacings: `1 / abs(recivecs)` (1-D) and `1 / norm(recivecs, axis=1)` (N-D). -/
theorem spacings_eq (oned : Bool) (reci : List (Point K))
    (h : oned = true → ∀ b ∈ reci, b.length = 1) :
    (if oned = true then npRecip (npAbsFlat reci) else npRecip (npNormRows reci)) =
      reci.map (spacingOf oned) := by
  cases oned with
  | false =>
    simp only [Bool.false_eq_true, if_false, npRecip, npNormRows, List.map_map]
    apply List.map_congr_left
    intro b _
    simp [spacingOf]
  | true =>
    simp only [if_true, npRecip, npAbsFlat, List.map_map]
    have h' := h rfl
    clear h
    induction reci with
    | nil => rfl
    | cons b bs ih =>
      have hb := h' b List.mem_cons_self
      match b, hb with
      | [x], _ =>
        simp only [List.flatten_cons, List.singleton_append, List.map_cons, spacingOf,
          Function.comp]
        rw [ih (fun b hb => h' b (List.mem_cons_of_mem _ hb))]

theorem frac_shift_eq (pts reci : List (Point K)) :
    npNegM (npFloorM (npMatMulT pts reci)) =
      pts.map fun x => reci.map fun b => shiftOf (dot x b) := by
  simp [npNegM, npFloorM, npMatMulT, shiftOf, List.map_map, Function.comp_def]

omit [Add K] [Sub K] [Mul K] [Div K] [Neg K] [NatCast K] [IntCast K] [Elem K] [FloorCeil K] [LE K]
  [DecidableLE K] [LT K] [DecidableLT K] in
theorem zipWith_map_same {α β : Type} (op : β → β → β) (f g : α → β) (l : List α) :
    List.zipWith op (l.map f) (l.map g) = l.map fun a => op (f a) (g a) := by
  induction l with
  | nil => rfl
  | cons a l ih => simp only [List.map_cons, List.zipWith_cons_cons, ih]

theorem frac_wrapped_eq (pts reci : List (Point K)) :
    npAddM (npMatMulT pts reci) (pts.map fun x => reci.map fun b => shiftOf (dot x b)) =
      pts.map fun x => reci.map fun b => dot x b + shiftOf (dot x b) := by
  simp only [npAddM, npMatMulT]
  rw [zipWith_map_same]
  apply List.map_congr_left
  intro x _
  rw [zipWith_map_same]

theorem points_wrapped_eq (dim : Nat) (pts reci rv : List (Point K)) :
    npAddRows pts (npMatMul dim (pts.map fun x => reci.map fun b => shiftOf (dot x b)) rv) =
      pts.map fun p => vadd p (lincomb dim (reci.map fun b => shiftOf (dot p b)) rv) := by
  simp only [npAddRows, npMatMul, List.map_map]
  induction pts with
  | nil => rfl
  | cons p ps ih => simp only [List.map_cons, List.zipWith_cons_cons, ih, Function.comp]

omit [LE K] [DecidableLE K] in
theorem recipOf_oned_length (dim : Nat) (rv rp : List (Point K)) (hd : dim = 1)
    (hrv : ∀ a ∈ rv, a.length = dim) : ∀ b ∈ recipOf true rv rp, b.length = 1 := by
  intro b hb
  unfold recipOf at hb
  by_cases he : rv.isEmpty = true
  · simp [he] at hb
  · simp only [he, Bool.false_eq_true, if_false, if_true, List.mem_map] at hb
    obtain ⟨a, ha, rfl⟩ := hb
    simp [hrv a ha, hd]

/-- (generated = model, `PeriodicGrid.__init__`) for **all** arguments: the guards, the
reciprocal vectors (1-D: `1 / realvecs`; N-D: the pseudo-inverse parameter), the plane spacings
(`1 / abs(recivecs)` in 1-D, `1 / norm` otherwise), the fractional coordinates, the wrapping
(`frac_shift = -floor(frac_points)`, `points + frac_shift @ realvecs`), the intervals, and the
inlined base constructor (length check, `_kdtree = None`). -/
theorem gen_init_eq (oned : Bool) (dim : Nat) (pts : List (Point K)) (w : List K)
    (rv rp : List (Point K)) (wrap : Bool) :
    PeriodicGrid_init oned dim pts w rv rp wrap = some (construct oned dim pts w rv rp wrap) := by
  unfold PeriodicGrid_init construct
  by_cases h1 : oned = true ∧ dim ≠ 1
  · rw [if_pos h1, if_pos h1]
  rw [if_neg h1, if_neg h1]
  by_cases h2 : (rv.all fun a => a.length == dim) = true
  swap
  · rw [if_pos h2, if_pos h2]
  rw [if_neg (not_not.mpr h2), if_neg (not_not.mpr h2)]
  by_cases h3 : rv.length > dim
  · rw [if_pos h3, if_pos h3]
  rw [if_neg h3, if_neg h3]
  by_cases h4 : (pts.all fun p => p.length == dim) = true
  swap
  · rw [if_pos h4, if_pos h4]
  rw [if_neg (not_not.mpr h4), if_neg (not_not.mpr h4)]
  -- the computed attributes
  rw [reci_eq oned rv rp]
  dsimp only
  have hone : oned = true → ∀ b ∈ recipOf oned rv rp, b.length = 1 := by
    intro ho
    subst ho
    have hd : dim = 1 := by
      by_contra hcon; exact h1 ⟨rfl, hcon⟩
    exact recipOf_oned_length dim rv rp hd (by simpa using h2)
  rw [spacings_eq oned _ hone]
  rw [frac_points_eq (recipOf oned rv rp) rv (fun he => by simp [recipOf, he]) oned pts]
  by_cases hw : wrap = true ∧ ¬ rv.isEmpty = true
  · -- wrapping
    have hdo : (wrap && !rv.isEmpty) = true := by
      obtain ⟨h5, h6⟩ := hw
      simp [h5, h6]
    simp only [hw, and_self, not_false_eq_true, if_true, hdo, ite_self, frac_shift_eq, frac_wrapped_eq,
      points_wrapped_eq]
    match pts with
    | [] => simp [npMinMaxCols]
    | p0 :: rest =>
      have hm := npMinMaxCols_rows (recipOf oned rv rp)
        (fun x b => dot x b + shiftOf (dot x b)) p0 rest
      simp only [hm, pyOpt_some, ite_self, List.length_map]
      by_cases h5 : rest.length + 1 = w.length
      · simp [h5]
      · simp [h5]
  · have hdo : (wrap && !rv.isEmpty) = false := by
      cases wrap <;> cases he : rv.isEmpty <;> simp_all
    simp only [hw, if_false, hdo, Bool.false_eq_true]
    match pts with
    | [] => simp [npMinMaxCols, npMatMulT]
    | p0 :: rest =>
      have hm := npMinMaxCols_rows (recipOf oned rv rp) (fun x b => dot x b) p0 rest
      simp only [npMatMulT, hm, pyOpt_some, ite_self]
      by_cases h5 : rest.length + 1 = w.length
      · simp [h5]
      · simp [h5]

/-- (generated = model, `PeriodicGrid.__getitem__`) integer branch and array branch; the selected
points and weights go to the constructor of the same class with **the same lattice**, not
wrapped again (the default `wrap=False` of the signature). -/
theorem gen_pgetitem_eq (g : PGrid K) (hw : g.weights.length = g.points.length) (idx : Index) :
    PeriodicGrid_getitem g idx = some (Periodic.getItem g idx) := by
  unfold PeriodicGrid_getitem
  simp only [gen_init_eq]
  refine (C10.getitem_branches g.points g.weights hw.symm idx (fun e => some (Except.error e))
    (fun p w => some (construct g.oned g.dim p w g.realvecs g.recivecs false))).trans ?_
  unfold Periodic.getItem
  cases hs : select idx g.weights.length with
  | error e => rfl
  | ok sel =>
    cases hp : gather g.points sel <;> cases hq : gather g.weights sel <;> simp_all

/-! ### `get_localgrid`: the loop over the integer combinations -/

/-- The entries found for the integer combinations `L` (the model's `entries` for one list of
combinations). -/
def entriesOf (g : PGrid K) (tree : List (Point K)) (c : Point K) (r : K) (L : List (List Int)) :
    List (List Int × Nat) :=
  L.flatMap fun ilc => (ballQuery tree (vadd c (delta g.dim ilc g.realvecs)) r).map fun i => (ilc, i)

/-- The generated loop (`for ilc in ilc_iterator: …` with its three accumulators, blocks without
hits skipped) computes, block by block, the parent indices, weights and translated positions
`points[i] − ilc @ realvecs` of the model's entries, and never raises, when the tree indexes into
the current arrays. -/
theorem pyFor_body_spec (g : PGrid K) (tree : List (Point K)) (ht : g.tree = some tree)
    (hlt : tree.length ≤ g.points.length) (hw : g.weights.length = g.points.length)
    (c : Point K) (r : K) (L : List (List Int))
    (acc : List (List Nat) × List (List K) × List (List (Point K))) :
    ∃ acc' sw sp, pyFor (PeriodicGrid_get_localgrid_body g c r) L acc = some (.ok acc') ∧
      acc'.1.flatten = acc.1.flatten ++ (entriesOf g tree c r L).map (·.2) ∧
      acc'.2.1.flatten = acc.2.1.flatten ++ sw ∧
      (entriesOf g tree c r L).map (fun e => g.weights[e.2]?) = sw.map some ∧
      acc'.2.2.flatten = acc.2.2.flatten ++ sp ∧
      (entriesOf g tree c r L).map (entryPoint g) = sp.map some ∧
      (acc'.1.length = 0 ↔ acc.1.length = 0 ∧ entriesOf g tree c r L = []) := by
  induction L generalizing acc with
  | nil => exact ⟨acc, [], [], rfl, by simp [entriesOf], by simp, rfl, by simp, rfl, by simp [entriesOf]⟩
  | cons ilc L ih =>
    have hes : entriesOf g tree c r (ilc :: L) =
        (ballQuery tree (vadd c (delta g.dim ilc g.realvecs)) r).map (fun i => (ilc, i)) ++
          entriesOf g tree c r L := by
      simp [entriesOf]
    generalize hidx : ballQuery tree (vadd c (delta g.dim ilc g.realvecs)) r = idx at hes
    have hin : ∀ i ∈ idx, i < g.points.length := by
      intro i hi
      rw [← hidx] at hi
      exact Nat.lt_of_lt_of_le (ballQuery_lt _ _ _ i hi) hlt
    by_cases h0 : idx.length = 0
    · have hnil : idx = [] := List.length_eq_zero_iff.mp h0
      have hb : PeriodicGrid_get_localgrid_body g c r acc ilc = some (.ok acc) := by
        simp [PeriodicGrid_get_localgrid_body, queryBallPoint, ht, hidx, hnil]
      obtain ⟨acc', sw, sp, h1, h2, h3, h4, h5, h6, h7⟩ := ih acc
      refine ⟨acc', sw, sp, ?_, ?_, h3, ?_, h5, ?_, ?_⟩
      · simp only [pyFor, hb]; exact h1
      · rw [hes, hnil]; simpa using h2
      · rw [hes, hnil]; simpa using h4
      · rw [hes, hnil]; simpa using h6
      · rw [hes, hnil]; simpa using h7
    · obtain ⟨lw1, hlw⟩ := gather_isSome g.weights idx (fun i hi => by rw [hw]; exact hin i hi)
      obtain ⟨lp1, hlp⟩ := gather_isSome g.points idx hin
      have hb : PeriodicGrid_get_localgrid_body g c r acc ilc =
          some (.ok (acc.1 ++ [idx], acc.2.1 ++ [lw1],
            acc.2.2 ++ [npRowsSub lp1 (delta g.dim ilc g.realvecs)])) := by
        have h0' : idx ≠ [] := fun h => h0 (by simp [h])
        simp [PeriodicGrid_get_localgrid_body, queryBallPoint, ht, hidx, h0', hlw, hlp]
      obtain ⟨acc', sw, sp, h1, h2, h3, h4, h5, h6, h7⟩ := ih (acc.1 ++ [idx], acc.2.1 ++ [lw1],
            acc.2.2 ++ [npRowsSub lp1 (delta g.dim ilc g.realvecs)])
      have hlw' := (gather_eq_some_iff _ _ _).mp hlw
      have hlp' := (gather_eq_some_iff _ _ _).mp hlp
      refine ⟨acc', lw1 ++ sw, npRowsSub lp1 (delta g.dim ilc g.realvecs) ++ sp, ?_, ?_, ?_, ?_, ?_, ?_, ?_⟩
      · simp only [pyFor, hb]; exact h1
      · rw [hes, h2]; simp [Function.comp_def]
      · rw [h3]; simp
      · rw [hes]; simp only [List.map_append, List.map_map, h4, Function.comp_def]
        rw [← hlw']
      · rw [h5]; simp
      · rw [hes]; simp only [List.map_append, List.map_map, h6, Function.comp_def, entryPoint]
        congr 1
        have := congrArg (List.map (Option.map fun x => vsub x (delta g.dim ilc g.realvecs))) hlp'
        simpa [npRowsSub, Function.comp_def] using this
      · rw [hes, h7]
        have : idx ≠ [] := fun h => h0 (by simp [h])
        simp [this]

/-- The generated loop followed by the empty-result branch and the concatenation, on an object
whose tree is the tree of its current points: the outcome of the model. -/
theorem loop_result (g : PGrid K) (hw : g.weights.length = g.points.length)
    (ht : g.tree = some g.points) (c : Point K) (r : K) :
    (pyOptExcept (pyFor (PeriodicGrid_get_localgrid_body g c r) (product (ilcRanges g c r))
        (([] : List (List Nat)), ([] : List (List K)), ([] : List (List (Point K)))))
      none (fun e => some (g, Out.error e)) fun acc =>
        if acc.1.length = 0 then
          some (g, Out.localGrid ([] : List Nat) (List.take 0 g.points) (List.take 0 g.weights))
        else some (g, Out.localGrid (List.flatten acc.1) (List.flatten acc.2.2) (List.flatten acc.2.1))) =
    some (g, match (entries g g.points c r).mapM (entryPoint g),
                   (entries g g.points c r).mapM (fun e => g.weights[e.2]?) with
      | some lp, some lw => Out.localGrid ((entries g g.points c r).map (·.2)) lp lw
      | _, _ => Out.error Err.indexError) := by
  obtain ⟨acc', sw, sp, h1, h2, h3, h4, h5, h6, h7⟩ :=
    pyFor_body_spec g g.points ht (Nat.le_refl _) hw c r (product (ilcRanges g c r)) ([], [], [])
  have hes : entriesOf g g.points c r (product (ilcRanges g c r)) = entries g g.points c r := rfl
  rw [hes] at h2 h4 h6 h7
  have m1 := (mapM_option_eq_some_iff _ _ _).mpr h6
  have m2 := (mapM_option_eq_some_iff _ _ _).mpr h4
  simp only [h1, pyOptExcept_ok, m1, m2]
  simp only [List.flatten_nil, List.nil_append] at h2 h3 h5
  by_cases h0 : acc'.1.length = 0
  · have he := (h7.mp h0).2
    rw [he] at h6 h4
    have e1 : sp = [] := by simpa using h6.symm
    have e2 : sw = [] := by simpa using h4.symm
    simp [h0, he, e1, e2]
  · simp only [h0, if_false, h2, h3, h5]

/-- The model's `getLocalgrid` for an accepted centre and a non-negative finite radius, as a pair. -/
theorem getLocalgrid_pair (g : PGrid K) (c : Centre K) (c' : Point K)
    (hc : Periodic.centreOf g c = some c') (r : K) (hr : ¬ r < ((0 : Nat) : K))
    (ht : g.tree = none ∨ g.tree = some g.points) :
    getLocalgrid g c (.fin r) =
      (some g.points, match (entries g g.points c' r).mapM (entryPoint g),
                        (entries g g.points c' r).mapM (fun e => g.weights[e.2]?) with
        | some lp, some lw => Out.localGrid ((entries g g.points c' r).map (·.2)) lp lw
        | _, _ => Out.error Err.indexError) := by
  unfold getLocalgrid
  simp only [hc, hr, if_false]
  rcases ht with ht | ht <;> simp only [ht] <;>
    generalize (entries g g.points c' r).mapM (entryPoint g) = a <;>
    generalize (entries g g.points c' r).mapM (fun e => g.weights[e.2]?) = b <;>
    cases a <;> cases b <;> rfl

/-- (generated = model, `PeriodicGrid.get_localgrid`) guards (centre shape, finiteness, negative
radius), fractional centre, `ilc_min = ceil(…)`, `ilc_max = floor(…)`, product of the ranges,
lazily built tree over the current points, `delta = ilc @ realvecs`, displaced centre
`center + delta`, stored `points[indices] - delta`, empty-result branch, concatenation — on every
object with as many weights as points (at least one) whose tree, if built, is the tree of the
current points. -/
theorem gen_pquery_eq (g : PGrid K) (hw : g.weights.length = g.points.length)
    (ht : g.tree = none ∨ g.tree = some g.points) (hn : g.weights.length ≠ 0)
    (c : Centre K) (r : Radius K) :
    PeriodicGrid_get_localgrid g c r =
      some ({ g with tree := (getLocalgrid g c r).1 }, (getLocalgrid g c r).2) := by
  unfold PeriodicGrid_get_localgrid
  cases hc : Periodic.centreOf g c with
  | none => simp only [getLocalgrid, hc]; rfl
  | some c' =>
    simp only [pyOpt_some]
    cases r with
    | nan => simp only [getLocalgrid, hc]; rfl
    | inf => simp only [getLocalgrid, hc]; rfl
    | fin r =>
      simp only [pyIsFinite, pyLt0, not_true_eq_false, if_false, decide_eq_true_eq]
      by_cases hr : r < ((0 : Nat) : K)
      · simp only [getLocalgrid, hc, hr, if_true]
      · simp only [hr, if_false, ite_self, pyNum, pyOpt_some, gen_ranges_eq, npReshapeRows, hn, cKDTree]
        rw [getLocalgrid_pair g c c' hc r hr ht]
        rcases ht with ht | ht
        · simp only [ht, Option.isNone_none, if_true, pyOpt_some]
          exact loop_result { g with tree := some g.points } hw rfl c' r
        · simp only [ht, Option.isNone_some, Bool.false_eq_true, if_false]
          have hg : { g with tree := some g.points } = g := by cases g; simp_all
          rw [hg]
          exact loop_result g hw ht c' r

/-! ### the state machine on the generated definitions -/

/-- What the equalities need of an object (any carrier `K`): as many weights as points, at least
one point, one reciprocal vector per lattice vector, and the tree — if built — is the tree of the
current points. -/
structure Shape (g : PGrid K) : Prop where
  wlen : g.weights.length = g.points.length
  tree : g.tree = none ∨ g.tree = some g.points
  blen : g.recivecs.length = g.realvecs.length
  nonempty : g.points ≠ []

/-- (generated = model) **Every operation** on a periodic grid, executed by the generated
definitions, stays inside the modelled fragment and gives the state and answer of the hand
model. -/
theorem genPStep_eq_step (g : PGrid K) (h : Shape g) (op : POp K) :
    genPStep g op = some (Periodic.step g op) := by
  cases op with
  | query c r =>
    have hn : g.weights.length ≠ 0 := by
      rw [h.wlen]; exact fun h0 => h.nonempty (List.length_eq_zero_iff.mp h0)
    simp only [genPStep, gen_pquery_eq g h.wlen h.tree hn c r, Periodic.step, Option.map_some]
  | setPoints oned dim value =>
    simp only [genPStep, gen_ppoints_set_eq g h.blen h.nonempty oned dim value, Periodic.step,
      Option.map_some]
  | setWeights value =>
    simp only [genPStep, gen_pweights_set_eq g value, Periodic.step, Option.map_some]
  | getItem idx =>
    simp only [genPStep, gen_pgetitem_eq g h.wlen idx, Periodic.step, Option.map_some]
    cases Periodic.getItem g idx <;> rfl

/-- The shape facts are kept by every operation of the model. -/
theorem shape_step (g : PGrid K) (h : Shape g) (op : POp K) : Shape (Periodic.step g op).1 := by
  cases op with
  | query c r =>
    simp only [Periodic.step]
    refine ⟨h.wlen, ?_, h.blen, h.nonempty⟩
    show (getLocalgrid g c r).1 = none ∨ (getLocalgrid g c r).1 = some g.points
    unfold getLocalgrid
    split
    · exact h.tree
    · split
      · exact h.tree
      · exact h.tree
      · split
        · exact h.tree
        · rcases h.tree with h0 | h0 <;> simp only [h0] <;> split <;> exact Or.inr rfl
  | setPoints oned dim value =>
    simp only [Periodic.step, setPoints]
    split
    · exact h
    · rename_i hs
      have hs' := Decidable.not_not.mp hs
      simp only [Periodic.sameShape, Bool.and_eq_true, beq_iff_eq] at hs'
      split
      · exact h
      · rename_i p0 rest
        exact ⟨by simp only; rw [h.wlen]; exact hs'.1.2.symm, Or.inl rfl, h.blen, by simp⟩
  | setWeights value =>
    simp only [Periodic.step, setWeights]
    split
    · exact h
    · rename_i hl
      exact ⟨by simp only; rw [← h.wlen]; exact Decidable.not_not.mp hl, h.tree, h.blen, h.nonempty⟩
  | getItem idx => simp only [Periodic.step]; split <;> exact h

theorem shape_history (g : PGrid K) (h : Shape g) (ops : List (POp K)) :
    Shape (Periodic.run g ops).1 := by
  induction ops generalizing g with
  | nil => exact h
  | cons op ops ih => simp only [Periodic.run]; exact ih _ (shape_step g h op)

/-- (generated = model, histories) -/
theorem genPRun_eq_run (g : PGrid K) (h : Shape g) (ops : List (POp K)) :
    genPRun g ops = some (Periodic.run g ops) := by
  induction ops generalizing g with
  | nil => rfl
  | cons op ops ih =>
    simp only [genPRun, genPStep_eq_step g h op, Periodic.run]
    rw [ih _ (shape_step g h op)]

end generic

/-! ### the theorems of `Props/C11.lean` over the generated text (ℝ) -/

theorem shape_of_pinv (g : PGrid ℝ) (h : PInv g) (hn : g.points ≠ []) : Shape g :=
  ⟨h.wlen, h.tree, h.dual.1, hn⟩

/-- (`construct_inv` over the generated text) An accepted call of the generated constructor whose
reciprocal vectors satisfy the duality contract establishes the invariant, with at least one
point. -/
theorem gen_construct_inv {oned : Bool} {dim : Nat} {pts : List (Point ℝ)} {w : List ℝ}
    {realvecs reciParam : List (Point ℝ)} {wrap : Bool} {g : PGrid ℝ}
    (hc : PeriodicGrid_init oned dim pts w realvecs reciParam wrap = some (.ok g))
    (hd : Dual realvecs (recipOf oned realvecs reciParam))
    (hb : ∀ b ∈ recipOf oned realvecs reciParam, b.length = dim) : PInv g ∧ g.points ≠ [] := by
  rw [gen_init_eq] at hc
  have hc' : construct oned dim pts w realvecs reciParam wrap = .ok g := Option.some.inj hc
  refine ⟨construct_inv hc' hd hb, ?_⟩
  obtain ⟨_, _, _, _, _, p0, rest, hpts, hg⟩ := construct_ok hc'
  simp only at hg
  rw [hg]; simp

/-- (`wrap_spec` over the generated text) With `wrap=True` and at least one lattice vector the
generated constructor stores every point plus an **integer** combination of lattice vectors
(`−⌊p·bₖ⌋` along `aₖ`: the generated `frac_shift = -np.floor(frac_points)`) and all fractional
coordinates lie in `[0, 1)`; otherwise the points are stored unchanged. -/
theorem gen_wrap_spec {oned : Bool} {dim : Nat} {pts : List (Point ℝ)} {w : List ℝ}
    {realvecs reciParam : List (Point ℝ)} {wrap : Bool} {g : PGrid ℝ}
    (hc : PeriodicGrid_init oned dim pts w realvecs reciParam wrap = some (.ok g))
    (hd : Dual realvecs (recipOf oned realvecs reciParam)) :
    ((wrap && !realvecs.isEmpty) = false → g.points = pts) ∧
    ((wrap && !realvecs.isEmpty) = true →
      g.points = pts.map (fun p => vadd p (delta dim
        ((recipOf oned realvecs reciParam).map fun b => -⌊dot p b⌋) realvecs)) ∧
      ∀ p' ∈ g.points, ∀ b ∈ g.recivecs, 0 ≤ dot p' b ∧ dot p' b < 1) := by
  rw [gen_init_eq] at hc
  exact wrap_spec (Option.some.inj hc) hd

/-- (`setPoints_inv` over the generated text) The generated `points` setter keeps the invariant:
the tree is dropped and the intervals are those of the new points. -/
theorem gen_setPoints_inv (g g' : PGrid ℝ) (o : Out ℝ) (h : PInv g) (hn : g.points ≠ [])
    (oned : Bool) (dim : Nat) (value : List (Point ℝ))
    (hs : PeriodicGrid_points_set g oned dim value = some (g', o)) : PInv g' ∧ g'.points ≠ [] := by
  rw [gen_ppoints_set_eq g h.dual.1 hn] at hs
  have h1 : g' = (setPoints g oned dim value).1 :=
    (congrArg Prod.fst (Option.some.inj hs)).symm
  have h2 := shape_step g (shape_of_pinv g h hn) (.setPoints oned dim value)
  rw [h1]
  exact ⟨setPoints_inv g h oned dim value, h2.nonempty⟩

/-- (`ilc_in_box` over the generated text) If the translate `x − ilc@a` of a grid point lies
within `r` of `c`, its coefficients lie in the product of the ranges the generated
`get_localgrid` enumerates: `range(ilc_min, ilc_max + 1)` with
`ilc_min = ceil(frac_intvls[:,0] − recivecs@c − r/spacings)`,
`ilc_max = floor(frac_intvls[:,1] − recivecs@c + r/spacings)`. -/
theorem gen_ilc_in_box (g : PGrid ℝ) (h : PInv g) (c : Point ℝ) (hc : c.length = g.dim) (r : ℝ)
    (hr : 0 ≤ r) (js : List Int) (hjs : js.length = g.realvecs.length) (x : Point ℝ)
    (hx : x ∈ g.points) (hin : inBall (vsub x (delta g.dim js g.realvecs)) c r) :
    js ∈ product (List.zipWith (fun (imin imax : Int) => pyRange2 imin (imax + 1))
      (npCeilInt (npSub (npSub (npCol0 g.fracIntvls) (npMatVec g.recivecs c)) (npSDiv r g.spacings)))
      (npFloorInt (npAdd (npSub (npCol1 g.fracIntvls) (npMatVec g.recivecs c)) (npSDiv r g.spacings)))) := by
  rw [gen_ranges_eq]
  exact ilc_in_box g h c hc r hr js hjs x hx hin

/-- (`periodic_complete` + `periodic_sound` + `periodic_nodup` over the generated text) In a state
satisfying the invariant, the **generated** `get_localgrid` with an accepted centre and a finite
radius `r ≥ 0` stays inside the modelled fragment and returns a correct periodic local grid:
its entries are exactly the pairs (integer combination, parent position) whose translate
`points[i] − ilc@realvecs` lies within `r`, each once, with that position, the parent's weight
and the parent's index; the tree of the current points is left behind. -/
theorem gen_getLocalgrid_spec (g : PGrid ℝ) (h : PInv g) (hn : g.points ≠ []) (c : Centre ℝ)
    (c' : Point ℝ) (hc : Periodic.centreOf g c = some c') (r : ℝ) (hr : 0 ≤ r) :
    ∃ g' out, PeriodicGrid_get_localgrid g c (.fin r) = some (g', out) ∧
      PCorrect g c' r out ∧ g'.tree = some g.points ∧ g'.points = g.points ∧
      g'.weights = g.weights := by
  have hsh := shape_of_pinv g h hn
  have hn' : g.weights.length ≠ 0 := by
    rw [h.wlen]; exact fun h0 => hn (List.length_eq_zero_iff.mp h0)
  obtain ⟨ht, hcor⟩ := getLocalgrid_spec g h c c' hc r hr
  exact ⟨_, _, gen_pquery_eq g h.wlen h.tree hn' c (.fin r), hcor, ht, rfl, rfl⟩

/-- (`periodic_localgrid_correct` over the generated text) After **any** history executed by the
generated definitions on a periodic grid built by the generated constructor (duality contract
for its reciprocal vectors), the history stays inside the modelled fragment and the next
generated query is answered correctly for the points the grid has now. -/
theorem gen_periodic_localgrid_correct {oned : Bool} {dim : Nat} {pts : List (Point ℝ)} {w : List ℝ}
    {realvecs reciParam : List (Point ℝ)} {wrap : Bool} {g₀ : PGrid ℝ}
    (h₀ : PeriodicGrid_init oned dim pts w realvecs reciParam wrap = some (.ok g₀))
    (hd : Dual realvecs (recipOf oned realvecs reciParam))
    (hb : ∀ b ∈ recipOf oned realvecs reciParam, b.length = dim)
    (ops : List (POp ℝ)) (c : Centre ℝ) (c' : Point ℝ) (r : ℝ) :
    ∃ g outs, genPRun g₀ ops = some (g, outs) ∧
      (Periodic.centreOf g c = some c' → 0 ≤ r →
        ∃ g' out, PeriodicGrid_get_localgrid g c (.fin r) = some (g', out) ∧ PCorrect g c' r out) := by
  obtain ⟨hinv, hne⟩ := gen_construct_inv h₀ hd hb
  have hsh := shape_of_pinv g₀ hinv hne
  refine ⟨_, _, genPRun_eq_run g₀ hsh ops, ?_⟩
  intro hc hr
  have hinv' := pinv_history g₀ hinv ops
  have hsh' : Shape (Periodic.run g₀ ops).1 := shape_history g₀ hsh ops
  obtain ⟨g', out, h1, h2, _⟩ := gen_getLocalgrid_spec _ hinv' hsh'.nonempty c c' hc r hr
  exact ⟨g', out, h1, h2⟩

/-- (`periodic_getitem_spec` over the generated text) -/
theorem gen_periodic_getitem_spec (g : PGrid ℝ) (h : PInv g) (idx : Index) (sub : PGrid ℝ)
    (hs : PeriodicGrid_getitem g idx = some (.ok sub)) :
    ∃ sel, select idx g.weights.length = .ok sel ∧
      sel.map (fun i => g.points[i]?) = sub.points.map some ∧
      sel.map (fun i => g.weights[i]?) = sub.weights.map some ∧
      sub.realvecs = g.realvecs ∧ sub.recivecs = g.recivecs ∧ PInv sub := by
  rw [gen_pgetitem_eq g h.wlen idx] at hs
  exact periodic_getitem_spec g h idx sub (Option.some.inj hs)

/-! ### Non-vacuity: the generated constructor and query on the skewed lattice of `Props/C11.lean` -/

example : ∃ g, PeriodicGrid_init false 2 [[5 / 2, 1 / 2], [1 / 4, 1 / 2]] [1, 3] exA exB true = some (.ok g) ∧
    PInv g ∧ g.points ≠ [] := by
  have hc : PeriodicGrid_init false 2 [[5 / 2, 1 / 2], [1 / 4, 1 / 2]] [1, 3] exA exB true = some (.ok _) :=
    gen_init_eq _ _ _ _ _ _ _
  exact ⟨_, hc, gen_construct_inv hc exDual.1 exDual.2⟩

end GridVerif.C11

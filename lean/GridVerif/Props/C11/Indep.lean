/-
  C11 — the pairs of a periodic local grid do not depend on the weights (round 6).

  Clause: "the local grid consists of exactly the pairs (grid point, lattice translation) whose translated position lies
  within the radius … carrying the parent weight".  Which pairs are listed is a matter of positions only; the weights are
  carried, never consulted.  Stated over the **generated** `PeriodicGrid_get_localgrid` (Gen/LocalGrid.lean): on two grids
  that differ in their weights only, the generated query returns the same parent indices (with multiplicity and order) and
  the same stored positions, and each weight list is the parent's weights gathered at those indices — so a weight that is
  exactly zero (or negative, or anything else) cannot remove a pair.  A source change that filters the hits of a ball query
  by the weights (stored change C11-i: `indices = indices[self._weights[indices] != 0]`) changes the generated loop body
  and this theorem (through `gen_pquery_eq`) no longer holds for the regenerated text.
-/
import GridVerif.Props.C11.Gen

set_option linter.unusedSectionVars false
set_option linter.unusedSimpArgs false

namespace GridVerif.C11
open GridVerif.LocalGrid GridVerif.Periodic GridVerif.LocalGridPy GridVerif.LocalGridGen
open GridVerif.Gen.LocalGrid

/-- The generated query in closed form: the parent indices are those of the model's `entries` (positions only), the stored
positions are `entryPoint`, the weights are gathered at the same indices. -/
theorem gen_pquery_closed (g : PGrid ℝ) (h : PInv g) (hn : g.points ≠ []) (c : Centre ℝ) (c' : Point ℝ)
    (hc : Periodic.centreOf g c = some c') (r : ℝ) (hr : 0 ≤ r) :
    ∃ lp lw, (PeriodicGrid_get_localgrid g c (.fin r)).map (·.2) =
        some (.localGrid ((entries g g.points c' r).map (·.2)) lp lw) ∧
      (entries g g.points c' r).map (entryPoint g) = lp.map some ∧
      (entries g g.points c' r).map (fun e => g.weights[e.2]?) = lw.map some := by
  have hn' : g.weights.length ≠ 0 := by
    rw [h.wlen]; exact fun h0 => hn (List.length_eq_zero_iff.mp h0)
  have hr' : ¬ r < ((0 : Nat) : ℝ) := by simpa using hr
  have hsound : ∀ e ∈ entries g g.points c' r, IsImage g c' r e := fun e he => periodic_sound g h c' r e he
  obtain ⟨lp, hlp⟩ := mapM_isSome (entryPoint g) (entries g g.points c' r) (fun e he => by
    obtain ⟨_, x, hx, _⟩ := hsound e he
    simp [entryPoint, hx])
  obtain ⟨lw, hlw⟩ := mapM_isSome (fun e : List Int × Nat => g.weights[e.2]?) (entries g g.points c' r) (fun e he => by
    obtain ⟨_, x, hx, _⟩ := hsound e he
    have : e.2 < g.weights.length := by
      rw [h.wlen]; exact (List.getElem?_eq_some_iff.mp hx).1
    simp [List.getElem?_eq_getElem this])
  refine ⟨lp, lw, ?_, (mapM_option_eq_some_iff _ _ _).mp hlp, (mapM_option_eq_some_iff _ _ _).mp hlw⟩
  rw [gen_pquery_eq g h.wlen h.tree hn' c (.fin r), getLocalgrid_pair g c c' hc r hr' h.tree]
  simp only [Option.map_some, hlp, hlw]

/-- (C11, the pairs do not depend on the weights — over the generated text) Two grids that differ **only in their
weights** (any values: zero, negative, …) answer the generated `get_localgrid` with the same parent indices, in the same
order and multiplicity, and the same stored positions; each answer carries its own parent's weights at those indices. -/
theorem gen_localgrid_pairs_independent_of_weights (g : PGrid ℝ) (h : PInv g) (hn : g.points ≠ []) (w' : List ℝ)
    (hw : w'.length = g.weights.length) (c : Centre ℝ) (c' : Point ℝ)
    (hc : Periodic.centreOf g c = some c') (r : ℝ) (hr : 0 ≤ r) :
    ∃ idx lp lw lw',
      (PeriodicGrid_get_localgrid g c (.fin r)).map (·.2) = some (.localGrid idx lp lw) ∧
      (PeriodicGrid_get_localgrid { g with weights := w' } c (.fin r)).map (·.2) = some (.localGrid idx lp lw') ∧
      idx.map (fun i => g.weights[i]?) = lw.map some ∧ idx.map (fun i => w'[i]?) = lw'.map some := by
  have h' : PInv { g with weights := w' } := by
    have := setWeights_inv g h w'
    unfold setWeights at this
    simpa [hw] using this
  obtain ⟨lp, lw, h1, h2, h3⟩ := gen_pquery_closed g h hn c c' hc r hr
  obtain ⟨lp', lw', h1', h2', h3'⟩ := gen_pquery_closed { g with weights := w' } h' hn c c' hc r hr
  have hes : entries { g with weights := w' } g.points c' r = entries g g.points c' r := rfl
  have hep : ∀ e, entryPoint { g with weights := w' } e = entryPoint g e := fun _ => rfl
  have hlp : lp' = lp := by
    have : lp'.map some = lp.map some := by
      rw [← h2, ← h2']
      show (entries { g with weights := w' } g.points c' r).map (entryPoint { g with weights := w' }) = _
      rw [hes]
      exact List.map_congr_left (fun e _ => hep e)
    exact List.map_injective_iff.mpr (Option.some_injective _) this
  refine ⟨_, lp, lw, lw', h1, ?_, ?_, ?_⟩
  · rw [← hlp]; exact h1'
  · simpa [List.map_map, Function.comp_def] using h3
  · have := h3'
    simp only [List.map_map, Function.comp_def]
    exact this

/-- Non-vacuity: the hypotheses are met by the un-wrapped one-point grid on the skewed lattice of `Props/C11.lean`, whose
only weight is replaced by **zero**. -/
example : ∃ g, construct false 2 [[1 / 2, 1 / 2]] [1] exA exB false = .ok g ∧ PInv g ∧ g.points ≠ [] ∧
    ([0] : List ℝ).length = g.weights.length ∧ Periodic.centreOf g (.vector [5 / 2, 1 / 2]) = some [5 / 2, 1 / 2] := by
  have hc : construct false 2 [[1 / 2, 1 / 2]] [1] exA exB false = .ok _ := rfl
  exact ⟨_, hc, construct_inv hc exDual.1 exDual.2, by simp, rfl, rfl⟩

end GridVerif.C11

/-
  C11 — the warning block of `PeriodicGrid.__init__`, over the *generated* definition
  `Gen/PeriodicGridInit.lean` (translated from src/grid/periodicgrid.py on every run by
  harness/translate/periodicgrid_init.py).

  Documented behaviour of the class: "a warning is raised when the fractional coordinates span an
  interval wider than 1.1, because this implies a degradation of efficiency of `get_localgrid` …
  This will never happen when wrap==True."

  * `gen_init_warning_site`     where the block sits and what it reads (`self._frac_intvls`);
  * `gen_init_warning_total`    the block never raises (the `len(frac_intvls) > 0` guard protects `.max()`);
  * `gen_init_warning_iff`      the window: a `PeriodicGridWarning` (stack level 2) iff some interval is wider
                                than the regenerated constant 11/10, otherwise no warning;
  * `gen_init_warning_spec`     on an object built by the generated constructor: iff two stored points differ by
                                more than 11/10 in some fractional coordinate;
  * `gen_wrap_never_warns`      `wrap=True` never warns;
  * `gen_nowarn_range_small`    what the warning is about: without it, `get_localgrid` tries at most
                                `2 r / sₖ + 21/10` integer translations along lattice vector `k`.
-/
import GridVerif.Props.C11.Gen
import GridVerif.Gen.PeriodicGridInit

set_option linter.unusedSectionVars false
set_option linter.unusedSimpArgs false

namespace GridVerif.C11
open GridVerif.LocalGrid GridVerif.Periodic GridVerif.LocalGridPy GridVerif.PeriodicInitPy
open GridVerif.Gen.LocalGrid GridVerif.Gen.PeriodicGridInit

/-- (site) The warning block comes after `self._frac_intvls = frac_intvls` (hence after the
wrapping) and before the base constructor, and the only thing it reads is that attribute. -/
theorem gen_init_warning_site :
    PeriodicGrid_init_warning_site =
      [("after", "self._frac_intvls = frac_intvls"),
       ("parameter frac_intvls", "self._frac_intvls"),
       ("before", "super().__init__(points, weights)")] :=
  rfl

section generic
variable {K : Type} [Add K] [Sub K] [Mul K] [Div K] [NatCast K] [LT K] [DecidableLT K] [LE K] [DecidableLE K]

/-- (never raises) For every array of intervals — also the empty one of a grid without lattice
vectors — the generated block ends normally, with or without a warning: the guard
`len(frac_intvls) > 0` keeps `.max()` away from an empty array. -/
theorem gen_init_warning_total (iv : List (K × K)) :
    ∃ w, PeriodicGrid_init_warning iv = some (.ok w) := by
  unfold PeriodicGrid_init_warning
  cases iv with
  | nil => exact ⟨none, by simp [pyNoWarn]⟩
  | cons p ps =>
    simp only [List.length_cons, gt_iff_lt, Nat.zero_lt_succ, if_true, npCol0, npCol1, npSub,
      List.map_cons, List.zipWith_cons_cons, npMax, pyOpt_some]
    split
    · exact ⟨_, rfl⟩
    · exact ⟨_, rfl⟩

end generic

/-! ### over ℝ -/

theorem maxOf_mem (x : ℝ) (xs : List ℝ) : maxOf x xs ∈ x :: xs := by
  induction xs generalizing x with
  | nil => simp [maxOf]
  | cons y ys ih =>
    simp only [maxOf, List.foldl_cons]
    by_cases h : x < y
    · simp only [h, if_true]
      have := ih y
      simp only [maxOf] at this
      exact List.mem_cons_of_mem _ this
    · simp only [h, if_false]
      have := ih x
      simp only [maxOf] at this
      rcases List.mem_cons.mp this with h1 | h1
      · rw [h1]; exact List.mem_cons_self
      · exact List.mem_cons_of_mem _ (List.mem_cons_of_mem _ h1)

theorem minOf_mem (x : ℝ) (xs : List ℝ) : minOf x xs ∈ x :: xs := by
  induction xs generalizing x with
  | nil => simp [minOf]
  | cons y ys ih =>
    simp only [minOf, List.foldl_cons]
    by_cases h : y < x
    · simp only [h, if_true]
      have := ih y
      simp only [minOf] at this
      exact List.mem_cons_of_mem _ this
    · simp only [h, if_false]
      have := ih x
      simp only [minOf] at this
      rcases List.mem_cons.mp this with h1 | h1
      · rw [h1]; exact List.mem_cons_self
      · exact List.mem_cons_of_mem _ (List.mem_cons_of_mem _ h1)

/-- `(frac_intvls[:, 1] - frac_intvls[:, 0])`: the widths. -/
theorem widths_eq (iv : List (ℝ × ℝ)) :
    npSub (npCol1 iv) (npCol0 iv) = iv.map fun p => p.2 - p.1 := by
  unfold npSub npCol1 npCol0
  rw [zipWith_map_same]

/-- The generated block in closed form. -/
theorem gen_init_warning_eq (iv : List (ℝ × ℝ)) :
    PeriodicGrid_init_warning iv =
      if ∃ p ∈ iv, p.2 - p.1 > 11 / 10 then pyWarn "PeriodicGridWarning" 2 else pyNoWarn := by
  unfold PeriodicGrid_init_warning
  cases iv with
  | nil => simp
  | cons p ps =>
    rw [widths_eq]
    simp only [List.length_cons, gt_iff_lt, Nat.zero_lt_succ, if_true, List.map_cons, npMax,
      pyOpt_some, Nat.cast_ofNat]
    have hle := le_maxOf (p.2 - p.1) (ps.map fun q => q.2 - q.1)
    have hmem := maxOf_mem (p.2 - p.1) (ps.map fun q => q.2 - q.1)
    by_cases h : (11 : ℝ) / 10 < maxOf (p.2 - p.1) (ps.map fun q => q.2 - q.1)
    · have hex : ∃ q ∈ p :: ps, (11 : ℝ) / 10 < q.2 - q.1 := by
        rcases List.mem_cons.mp hmem with h1 | h1
        · exact ⟨p, List.mem_cons_self, by rw [← h1]; exact h⟩
        · obtain ⟨q, hq, hq'⟩ := List.mem_map.mp h1
          exact ⟨q, List.mem_cons_of_mem _ hq, by rw [hq']; exact h⟩
      rw [if_pos h, if_pos hex]
    · have hnex : ¬ ∃ q ∈ p :: ps, (11 : ℝ) / 10 < q.2 - q.1 := by
        rintro ⟨q, hq, hq'⟩
        apply h
        rcases List.mem_cons.mp hq with rfl | hq
        · exact lt_of_lt_of_le hq' hle.1
        · exact lt_of_lt_of_le hq' (hle.2 _ (List.mem_map.mpr ⟨q, hq, rfl⟩))
      rw [if_neg h, if_neg hnex]

/-- (window, class "inputs next to a hard-coded threshold") The generated block issues a
`PeriodicGridWarning` with `stacklevel=2` **iff** some interval of fractional coordinates is wider
than the regenerated constant `11/10` (strictly), and ends without any warning **iff** every
interval is at most `11/10` wide. -/
theorem gen_init_warning_iff (iv : List (ℝ × ℝ)) :
    (PeriodicGrid_init_warning iv = pyWarn "PeriodicGridWarning" 2 ↔ ∃ p ∈ iv, p.2 - p.1 > 11 / 10) ∧
    (PeriodicGrid_init_warning iv = pyNoWarn ↔ ∀ p ∈ iv, p.2 - p.1 ≤ 11 / 10) := by
  rw [gen_init_warning_eq]
  by_cases h : ∃ p ∈ iv, p.2 - p.1 > 11 / 10
  · rw [if_pos h]
    refine ⟨⟨fun _ => h, fun _ => rfl⟩, ⟨fun hc => by simp [pyWarn, pyNoWarn] at hc, fun hall => ?_⟩⟩
    obtain ⟨p, hp, hp'⟩ := h
    exact absurd (hall p hp) (not_le.mpr hp')
  · rw [if_neg h]
    refine ⟨⟨fun hc => by simp [pyWarn, pyNoWarn] at hc, fun hex => absurd hex h⟩, ⟨fun _ => ?_, fun _ => rfl⟩⟩
    intro p hp
    by_contra hcon
    exact h ⟨p, hp, not_le.mp hcon⟩

/-- On an object built by the constructor, the stored intervals are **attained**: the fractional
coordinates of two stored points. -/
theorem construct_intervals_attained {oned : Bool} {dim : Nat} {pts : List (Point ℝ)} {w : List ℝ}
    {realvecs reciParam : List (Point ℝ)} {wrap : Bool} {g : PGrid ℝ}
    (hc : construct oned dim pts w realvecs reciParam wrap = .ok g)
    (hd : Dual realvecs (recipOf oned realvecs reciParam))
    (k : Nat) (hk : k < g.fracIntvls.length) (hk' : k < g.recivecs.length) :
    (∃ q ∈ g.points, dot q g.recivecs[k] = g.fracIntvls[k].1) ∧
    (∃ p ∈ g.points, dot p g.recivecs[k] = g.fracIntvls[k].2) := by
  obtain ⟨ho, ha, _, hp, hw, p0, rest, hpts, hg⟩ := construct_ok hc
  subst hpts
  simp only at hg
  subst hg
  set reci := recipOf oned realvecs reciParam with hreci
  simp only at hk' ⊢
  -- fractional coordinate of the stored (possibly wrapped) point
  have hfv : ∀ p ∈ p0 :: rest,
      dot (if (wrap && !realvecs.isEmpty) = true then
            vadd p (lincomb dim (reci.map fun b => shiftOf (dot p b)) realvecs) else p) reci[k] =
        (if (wrap && !realvecs.isEmpty) = true then dot p reci[k] + shiftOf (dot p reci[k])
          else dot p reci[k]) := by
    intro p hpm
    by_cases hwr : (wrap && !realvecs.isEmpty) = true
    · simp only [hwr, if_true]
      exact dot_wrap dim realvecs reci hd ha p (hp p hpm) (fun b => shiftOf (dot p b)) k hk'
    · simp only [hwr]
      rfl
  rw [intervalsOf_getElem reci _ p0 rest k hk']
  constructor
  · have hm := minOf_mem
      ((fun (p b : Point ℝ) => if (wrap && !realvecs.isEmpty) = true then dot p b + shiftOf (dot p b) else dot p b) p0 reci[k])
      (rest.map (fun p => (fun (p b : Point ℝ) => if (wrap && !realvecs.isEmpty) = true then dot p b + shiftOf (dot p b) else dot p b) p reci[k]))
    rcases List.mem_cons.mp hm with h1 | h1
    · refine ⟨_, List.mem_map.mpr ⟨p0, List.mem_cons_self, rfl⟩, ?_⟩
      rw [hfv p0 List.mem_cons_self]; exact h1.symm
    · obtain ⟨q, hq, hq'⟩ := List.mem_map.mp h1
      refine ⟨_, List.mem_map.mpr ⟨q, List.mem_cons_of_mem _ hq, rfl⟩, ?_⟩
      rw [hfv q (List.mem_cons_of_mem _ hq)]; exact hq'
  · have hm := maxOf_mem
      ((fun (p b : Point ℝ) => if (wrap && !realvecs.isEmpty) = true then dot p b + shiftOf (dot p b) else dot p b) p0 reci[k])
      (rest.map (fun p => (fun (p b : Point ℝ) => if (wrap && !realvecs.isEmpty) = true then dot p b + shiftOf (dot p b) else dot p b) p reci[k]))
    rcases List.mem_cons.mp hm with h1 | h1
    · refine ⟨_, List.mem_map.mpr ⟨p0, List.mem_cons_self, rfl⟩, ?_⟩
      rw [hfv p0 List.mem_cons_self]; exact h1.symm
    · obtain ⟨q, hq, hq'⟩ := List.mem_map.mp h1
      refine ⟨_, List.mem_map.mpr ⟨q, List.mem_cons_of_mem _ hq, rfl⟩, ?_⟩
      rw [hfv q (List.mem_cons_of_mem _ hq)]; exact hq'

/-- (documented behaviour, over the generated text) On an object built by the **generated**
constructor (duality contract for its reciprocal vectors) the **generated** warning block, which
reads `self._frac_intvls`, issues the `PeriodicGridWarning` iff two *stored* points (after the
wrapping, if asked) differ by more than `11/10` in some fractional coordinate — "the fractional
coordinates span an interval wider than 1.1" — and no warning otherwise. -/
theorem gen_init_warning_spec {oned : Bool} {dim : Nat} {pts : List (Point ℝ)} {w : List ℝ}
    {realvecs reciParam : List (Point ℝ)} {wrap : Bool} {g : PGrid ℝ}
    (hc : PeriodicGrid_init oned dim pts w realvecs reciParam wrap = some (.ok g))
    (hd : Dual realvecs (recipOf oned realvecs reciParam))
    (hb : ∀ b ∈ recipOf oned realvecs reciParam, b.length = dim) :
    (PeriodicGrid_init_warning g.fracIntvls = pyWarn "PeriodicGridWarning" 2 ↔
      ∃ b ∈ g.recivecs, ∃ p ∈ g.points, ∃ q ∈ g.points, dot p b - dot q b > 11 / 10) ∧
    (PeriodicGrid_init_warning g.fracIntvls = pyNoWarn ↔
      ∀ b ∈ g.recivecs, ∀ p ∈ g.points, ∀ q ∈ g.points, dot p b - dot q b ≤ 11 / 10) := by
  rw [gen_init_eq] at hc
  have hc' : construct oned dim pts w realvecs reciParam wrap = .ok g := Option.some.inj hc
  have hinv := construct_inv hc' hd hb
  have hlen : g.fracIntvls.length = g.recivecs.length := by rw [hinv.ilen, hinv.dual.1]
  -- some interval is wide  ↔  two stored points are far apart in a fractional coordinate
  have key : (∃ iv ∈ g.fracIntvls, iv.2 - iv.1 > 11 / 10) ↔
      ∃ b ∈ g.recivecs, ∃ p ∈ g.points, ∃ q ∈ g.points, dot p b - dot q b > 11 / 10 := by
    constructor
    · rintro ⟨iv, hiv, hwide⟩
      obtain ⟨k, hk, rfl⟩ := List.getElem_of_mem hiv
      have hk' : k < g.recivecs.length := by rw [← hlen]; exact hk
      obtain ⟨⟨q, hq, hq'⟩, ⟨p, hp, hp'⟩⟩ := construct_intervals_attained hc' hd k hk hk'
      exact ⟨_, List.getElem_mem hk', p, hp, q, hq, by rw [hp', hq']; exact hwide⟩
    · rintro ⟨b, hbm, p, hp, q, hq, hfar⟩
      obtain ⟨k, hk', rfl⟩ := List.getElem_of_mem hbm
      have hk : k < g.fracIntvls.length := by rw [hlen]; exact hk'
      have h1 := hinv.bounds p hp k hk hk'
      have h2 := hinv.bounds q hq k hk hk'
      exact ⟨_, List.getElem_mem hk, by linarith [h1.2, h2.1]⟩
  obtain ⟨w1, w2⟩ := gen_init_warning_iff g.fracIntvls
  refine ⟨w1.trans key, w2.trans ?_⟩
  constructor
  · intro hall b hbm p hp q hq
    by_contra hcon
    obtain ⟨iv, hiv, hwide⟩ := key.mpr ⟨b, hbm, p, hp, q, hq, not_le.mp hcon⟩
    exact absurd (hall iv hiv) (not_le.mpr hwide)
  · intro hall iv hiv
    by_contra hcon
    obtain ⟨b, hbm, p, hp, q, hq, hfar⟩ := key.mp ⟨iv, hiv, not_le.mp hcon⟩
    exact absurd (hall b hbm p hp q hq) (not_le.mpr hfar)

/-- ("This will never happen when wrap==True", over the generated text) With `wrap=True` the
generated constructor followed by the generated warning block never warns — for any lattice
(also none), any points. -/
theorem gen_wrap_never_warns {oned : Bool} {dim : Nat} {pts : List (Point ℝ)} {w : List ℝ}
    {realvecs reciParam : List (Point ℝ)} {g : PGrid ℝ}
    (hc : PeriodicGrid_init oned dim pts w realvecs reciParam true = some (.ok g))
    (hd : Dual realvecs (recipOf oned realvecs reciParam))
    (hb : ∀ b ∈ recipOf oned realvecs reciParam, b.length = dim) :
    PeriodicGrid_init_warning g.fracIntvls = pyNoWarn := by
  refine (gen_init_warning_spec hc hd hb).2.mpr ?_
  intro b hbm p hp q hq
  by_cases he : realvecs.isEmpty = true
  · -- no lattice vector: no reciprocal vector
    have hinv := (gen_construct_inv hc hd hb).1
    rw [gen_init_eq] at hc
    obtain ⟨_, _, _, _, _, p0, rest, _, hg⟩ := construct_ok (Option.some.inj hc)
    simp only at hg
    rw [hg] at hbm
    simp [recipOf, he] at hbm
  · have hdo : (true && !realvecs.isEmpty) = true := by simp [he]
    obtain ⟨_, hin⟩ := (gen_wrap_spec hc hd).2 hdo
    have h1 := hin p hp b hbm
    have h2 := hin q hq b hbm
    linarith [h1.2, h2.1]

/-- (what the warning is about) In a state satisfying the invariant whose interval `k` is at most
`11/10` wide — no warning — `get_localgrid` with radius `r` tries at most `2 r / sₖ + 21/10`
integer translations along lattice vector `k` (with `sₖ` the plane spacing); in general at most
`width + 2 r / sₖ + 1`. -/
theorem gen_nowarn_range_small (g : PGrid ℝ) (h : PInv g) (c : Point ℝ) (r : ℝ)
    (k : Nat) (hk : k < g.realvecs.length) :
    (((ilcRanges g c r)[k]'(by rw [ilcRanges_length g h]; exact hk)).length : ℝ) ≤
      max 0 ((g.fracIntvls[k]'(by rw [h.ilen]; exact hk)).2 - (g.fracIntvls[k]'(by rw [h.ilen]; exact hk)).1 +
        2 * (r / (g.spacings[k]'(by rw [h.slen]; exact hk))) + 1) ∧
    ((g.fracIntvls[k]'(by rw [h.ilen]; exact hk)).2 - (g.fracIntvls[k]'(by rw [h.ilen]; exact hk)).1 ≤ 11 / 10 →
      (((ilcRanges g c r)[k]'(by rw [ilcRanges_length g h]; exact hk)).length : ℝ) ≤
        max 0 (2 * (r / (g.spacings[k]'(by rw [h.slen]; exact hk))) + 21 / 10)) := by
  rw [ilcRanges_getElem g h c r k hk]
  set lo := (g.fracIntvls[k]'(by rw [h.ilen]; exact hk)).1
  set hi := (g.fracIntvls[k]'(by rw [h.ilen]; exact hk)).2
  set fc := dot (g.recivecs[k]'(by rw [h.dual.1]; exact hk)) c
  set q := r / (g.spacings[k]'(by rw [h.slen]; exact hk))
  have hlen : ((intRange ⌈lo - fc - q⌉ ⌊hi - fc + q⌋).length : ℝ) ≤ max 0 (hi - lo + 2 * q + 1) := by
    unfold intRange
    simp only [List.length_map, List.length_range]
    by_cases hneg : ⌊hi - fc + q⌋ + 1 - ⌈lo - fc - q⌉ ≤ 0
    · rw [Int.toNat_of_nonpos hneg]; simp
    · have hpos : 0 ≤ ⌊hi - fc + q⌋ + 1 - ⌈lo - fc - q⌉ := by omega
      have hcast : ((⌊hi - fc + q⌋ + 1 - ⌈lo - fc - q⌉).toNat : ℝ) =
          ((⌊hi - fc + q⌋ : ℤ) : ℝ) + 1 - ((⌈lo - fc - q⌉ : ℤ) : ℝ) := by
        have := Int.toNat_of_nonneg hpos
        have h2 : (((⌊hi - fc + q⌋ + 1 - ⌈lo - fc - q⌉).toNat : ℤ) : ℝ) =
            ((⌊hi - fc + q⌋ + 1 - ⌈lo - fc - q⌉ : ℤ) : ℝ) := by rw [this]
        push_cast at h2
        exact_mod_cast h2
      rw [hcast]
      apply le_max_of_le_right
      linarith [Int.floor_le (hi - fc + q), Int.le_ceil (lo - fc - q)]
  refine ⟨hlen, fun hw => le_trans hlen ?_⟩
  apply max_le_max (le_refl _)
  linarith

/-! ### Non-vacuity -/

/-- The window is non-trivial on both sides: an interval of width `6/5` warns, one of width `11/10`
(exactly the constant) and one of width `1` do not. -/
example : PeriodicGrid_init_warning [((0 : ℝ), 1), (1 / 4, 29 / 20)] = pyWarn "PeriodicGridWarning" 2 ∧
    PeriodicGrid_init_warning [((0 : ℝ), 11 / 10)] = pyNoWarn ∧
    PeriodicGrid_init_warning ([] : List (ℝ × ℝ)) = pyNoWarn := by
  refine ⟨(gen_init_warning_iff _).1.mpr ⟨(1 / 4, 29 / 20), by simp, by norm_num⟩,
    (gen_init_warning_iff _).2.mpr ?_, (gen_init_warning_iff _).2.mpr (by simp)⟩
  intro p hp
  simp only [List.mem_singleton] at hp
  rw [hp]; norm_num

/-- The hypotheses of `gen_wrap_never_warns` are met by the wrapped two-point grid on the skewed
lattice of `Props/C11.lean` (one point 5/4 cells outside). -/
example : ∃ g, PeriodicGrid_init false 2 [[5 / 2, 1 / 2], [1 / 4, 1 / 2]] [1, 3] exA exB true = some (.ok g) ∧
    PeriodicGrid_init_warning g.fracIntvls = pyNoWarn := by
  have hc : PeriodicGrid_init false 2 [[5 / 2, 1 / 2], [1 / 4, 1 / 2]] [1, 3] exA exB true = some (.ok _) :=
    gen_init_eq _ _ _ _ _ _ _
  exact ⟨_, hc, gen_wrap_never_warns hc exDual.1 exDual.2⟩

end GridVerif.C11

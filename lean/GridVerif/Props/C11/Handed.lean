/-
  C11 — "for any orientation or sign of the lattice vectors": the reciprocal vectors the **generated** constructor stores are
  dual to the lattice for either handedness of the cell (round 6).

  The image box of `get_localgrid` (`gen_ilc_in_box`) rests on `bₖ·aₗ = δₖₗ`.  The N-D reciprocal vectors are the SVD
  pseudo-inverse (a named primitive whose contract is the hypothesis `Dual`); what the theorems below pin is that the
  generated constructor *stores that pseudo-inverse* for every cell shape — in particular for a left-handed 3 × 3 cell
  (negative triple product).  A source change that adds another route for some shape (stored change C11-h: `b_i = (a_j × a_k) / V`
  with `V = abs(triple product)` for 3 × 3 cells) is carried by the translator (`npCrossReci`), changes the generated
  constructor, and `gen_init_eq` — hence these theorems — no longer hold for the regenerated text.
-/
import GridVerif.Props.C11.Gen

set_option linter.unusedSectionVars false
set_option linter.unusedSimpArgs false

namespace GridVerif.C11
open GridVerif.LocalGrid GridVerif.Periodic GridVerif.LocalGridPy GridVerif.LocalGridGen
open GridVerif.Gen.LocalGrid

/-- (either handedness, any shape — over the generated text) An accepted call of the generated constructor whose
pseudo-inverse parameter is dual to the lattice stores the given lattice and reciprocal vectors **dual to it**:
`g.recivecs[k] · g.realvecs[l] = δₖₗ`, whatever the sign of the cell's volume. -/
theorem gen_init_recivecs_dual {oned : Bool} {dim : Nat} {pts : List (Point ℝ)} {w : List ℝ}
    {realvecs reciParam : List (Point ℝ)} {wrap : Bool} {g : PGrid ℝ}
    (hc : PeriodicGrid_init oned dim pts w realvecs reciParam wrap = some (.ok g))
    (hd : Dual realvecs (recipOf oned realvecs reciParam))
    (hb : ∀ b ∈ recipOf oned realvecs reciParam, b.length = dim) :
    g.realvecs = realvecs ∧ g.recivecs = recipOf oned realvecs reciParam ∧ Dual g.realvecs g.recivecs := by
  have hinv := (gen_construct_inv hc hd hb).1
  rw [gen_init_eq] at hc
  obtain ⟨_, _, _, _, _, p0, rest, _, hg⟩ := construct_ok (Option.some.inj hc)
  simp only at hg
  refine ⟨by rw [hg], by rw [hg], hinv.dual⟩

/-- A left-handed skewed cell `a₁ = (1, 1, 0)`, `a₂ = (1, 0, 0)`, `a₃ = (0, 0, 2)` … -/
def exL : List (Point ℝ) := [[1, 1, 0], [1, 0, 0], [0, 0, 2]]

/-- … and its reciprocal vectors `b₁ = (0, 1, 0)`, `b₂ = (1, −1, 0)`, `b₃ = (0, 0, 1/2)`. -/
noncomputable def exLB : List (Point ℝ) := [[0, 1, 0], [1, -1, 0], [0, 0, 1 / 2]]

/-- The cell is left-handed: `a₁ · (a₂ × a₃) = −2 < 0`. -/
theorem exL_left_handed : dot ([1, 1, 0] : Point ℝ) (cross3 [1, 0, 0] [0, 0, 2]) < 0 := by
  simp [cross3]

theorem exLDual : Dual exL (recipOf false exL exLB) ∧ ∀ b ∈ recipOf false exL exLB, b.length = 3 := by
  have hr : recipOf false exL exLB = exLB := by simp [recipOf, exL]
  rw [hr]
  refine ⟨⟨rfl, ?_⟩, by simp [exLB]⟩
  intro k l hk hl
  have hk' : k < 3 := hk
  have hl' : l < 3 := hl
  interval_cases k <;> interval_cases l <;> (simp [exL, exLB]; try norm_num)

/-- (left-handed instance) On the left-handed cell `exL` the generated constructor accepts a wrapped one-point grid, stores
reciprocal vectors dual to the cell and establishes the invariant on which completeness / soundness of the generated
`get_localgrid` rest (`gen_getLocalgrid_spec`). -/
theorem gen_init_left_handed :
    ∃ g, PeriodicGrid_init false 3 [[9 / 4, 1 / 2, 5]] [1] exL exLB true = some (.ok g) ∧
      g.realvecs = exL ∧ Dual exL g.recivecs ∧ PInv g ∧ g.points ≠ [] := by
  have hc : PeriodicGrid_init false 3 [[9 / 4, 1 / 2, 5]] [1] exL exLB true = some (.ok _) := gen_init_eq _ _ _ _ _ _ _
  obtain ⟨h1, _, h3⟩ := gen_init_recivecs_dual hc exLDual.1 exLDual.2
  refine ⟨_, hc, h1, ?_, gen_construct_inv hc exLDual.1 exLDual.2⟩
  rw [h1] at h3; exact h3

/-- Non-vacuity of `gen_init_recivecs_dual`: its hypotheses hold for that call. -/
example : ∃ g, PeriodicGrid_init false 3 [[9 / 4, 1 / 2, 5]] [1] exL exLB true = some (.ok g) ∧
    Dual exL (recipOf false exL exLB) := by
  obtain ⟨g, hc, _⟩ := gen_init_left_handed
  exact ⟨g, hc, exLDual.1⟩

end GridVerif.C11

/-
  C16 — Poisson solvers: what is *proved* here are the reduction lemmas around the numerical
  solve (the accuracy of SciPy's `solve_bvp` / `solve_ivp` on these problems is decided by the
  exploration in `harness/props/c16.py`, not by a theorem).

  All statements are over ℝ and about the *generated* text `Gen/Poisson.lean` (coefficients,
  right-hand sides, boundary / initial values, masks, robust split: regenerated from
  `poisson.py` / `robust_poisson.py` on every run), so a changed sign, prefactor, divisor or
  boundary expression in the source breaks the corresponding lemma.

  * `posed_bvp_eq`, `posed_ivp_eq`, `bvp_value_eq`        the generated text at ℝ
  * `u_form_equiv`            u = rV ⇒ u'' = r(V'' + 2V'/r); the two posed radial equations are equivalent
  * `radial_poisson_of_lm`    separated Laplacian + eigenfunction hypothesis ⇒ posed radial equation
  * `boundary_value_spec`, `boundary_value_origin`, `boundary_value_higher`, `initial_value_spec`
  * `posed_linear`, `linear_combination_solves`, `linear_in_density`, `bvp_unique_monopole`, `bvp_unique_higher`
  * `robust_split`, `robust_exact_core`, `robust_vs_plain`, `robust_fold`, `core_term_is_c17_density`
  * `problems_count`, `call_shapes`   loop structure and call plumbing recorded by the translator
  * `s_reference`             the oracle's analytic reference is C17's proven potential and it solves
                              the posed monopole problem exactly
-/
import GridVerif.Props.C17.S
import GridVerif.Model.Poisson
import GridVerif.Gen.Poisson
import GridVerif.Lemmas.Poisson

namespace GridVerif.C16
open GridVerif GridVerif.Gen.Poisson GridVerif.Poisson Real Filter Topology

/-! ### the generated text at `ℝ` -/

@[simp] theorem odeLhs3 (a0 a1 a2 y0 y1 y2 : ℝ) :
    odeLhs [a0, a1, a2] [y0, y1, y2] = a0 * y0 + a1 * y1 + a2 * y2 := by
  simp [odeLhs]; ring

/-- **Posed boundary-value problem** (generated text): for `r ≠ 0` the coefficient list is
`[−l(l+1)/r², 0, 1]` and the right-hand side `−4π r ρ_lm(r)`; at `r = 0` the code replaces the
zeroth coefficient by `−l(l+1)/(10⁻¹⁰)²`. -/
theorem posed_bvp_eq (l : ℕ) (r ρ : ℝ) :
    (r ≠ 0 → bvpCoeffs l r = [-((l:ℝ) * (l + 1)) / r ^ 2, 0, 1]) ∧
    bvpCoeffs l 0 = [-((l:ℝ) * (l + 1)) / ((1:ℝ) / 10 ^ 10) ^ 2, 0, 1] ∧
    bvpRhs ρ r = -(4 * π) * r * ρ := by
  refine ⟨fun hr => ?_, ?_, ?_⟩
  · have h : ¬ (|r| ≤ 0 ∧ 0 ≤ |r|) := fun h => hr (abs_eq_zero.mp (le_antisymm h.1 h.2))
    simp only [bvpCoeffs, bvpCoeff0, Elem.abs, npow_eq_pow, Nat.cast_ofNat, Nat.cast_zero, Nat.cast_one]
    rw [if_neg h]
    congr 1; ring
  · simp only [bvpCoeffs, bvpCoeff0, Elem.abs, npow_eq_pow, Nat.cast_ofNat, Nat.cast_zero, Nat.cast_one,
      abs_zero, le_refl, and_self, if_true]
    congr 1; ring
  · simp only [bvpRhs, Elem.pi, Nat.cast_ofNat]; ring

/-- **Posed initial-value problem** (generated text): coefficient list `[−l(l+1)/r², 2/r, 1]`,
right-hand side `−4π ρ_lm(r)`. -/
theorem posed_ivp_eq (l : ℕ) (r ρ : ℝ) :
    ivpCoeffs l r = [-((l:ℝ) * (l + 1)) / r ^ 2, 2 / r, 1] ∧ ivpRhs ρ r = -(4 * π) * ρ := by
  constructor
  · simp only [ivpCoeffs, ivpCoeff0, ivpCoeff1, npow_eq_pow, Nat.cast_ofNat, Nat.cast_one]
    congr 1; ring
  · simp only [ivpRhs, Elem.pi, Nat.cast_ofNat]; ring

set_option exponentiation.threshold 512 in
/-- **Back-substitution** (generated text of `interpolate`): the boundary-value solver returns
`u(r)/r` for every radius that is not (numerically) zero and `0` at the origin; the
initial-value solver returns the spline value itself. -/
theorem bvp_value_eq (u r : ℝ) :
    ((1:ℝ) / 10 ^ 300 ≤ |r| → bvpValue u r = u / r) ∧ bvpValue u 0 = 0 ∧ ivpValue u r = u := by
  refine ⟨fun hr => ?_, ?_, rfl⟩
  · simp only [bvpValue, Elem.abs, Nat.cast_ofNat, Nat.cast_zero, Nat.cast_one]
    exact if_neg (not_lt.mpr (le_trans (le_of_eq (by norm_num)) hr))
  · simp only [bvpValue, Elem.abs, Nat.cast_ofNat, Nat.cast_zero, Nat.cast_one, abs_zero]
    rw [if_pos (by positivity)]

/-! ### reduction lemmas -/

/-- **u-form equivalence** (clause: the boundary-value solver works with `u = rV`, the
initial-value solver with `V`; both must pose the same radial problem).  For `V` twice
differentiable on `r > 0` (derivatives `V1`, `V2`), `u(r) = r·V(r)` has
`u' = V + rV'` and `u'' = r·(V'' + 2V'/r)`, and at every `r > 0` the equation the code poses to
`solve_ode_bvp` for `u` (generated coefficients `bvpCoeffs`, right-hand side `bvpRhs`) holds
iff the equation it poses to `solve_ode_ivp` for `V` (`ivpCoeffs`, `ivpRhs`) holds. -/
theorem u_form_equiv {V V1 V2 : ℝ → ℝ}
    (hV : ∀ x, 0 < x → HasDerivAt V (V1 x) x) (hV1 : ∀ x, 0 < x → HasDerivAt V1 (V2 x) x)
    (l : ℕ) (ρ : ℝ) {r : ℝ} (hr : 0 < r) :
    HasDerivAt (fun x => x * V x) (V r + r * V1 r) r ∧
    HasDerivAt (fun x => V x + x * V1 x) (r * (V2 r + 2 * V1 r / r)) r ∧
    (odeLhs (bvpCoeffs l r) [r * V r, V r + r * V1 r, r * (V2 r + 2 * V1 r / r)] = bvpRhs ρ r ↔
      odeLhs (ivpCoeffs l r) [V r, V1 r, V2 r] = ivpRhs ρ r) := by
  have hr0 : r ≠ 0 := hr.ne'
  refine ⟨?_, ?_, ?_⟩
  · have := (hasDerivAt_id r).mul (hV r hr)
    simp only [id, one_mul] at this
    exact this
  · have h1 := (hasDerivAt_id r).mul (hV1 r hr)
    simp only [id, one_mul] at h1
    refine ((hV r hr).add h1).congr_deriv ?_
    field_simp; ring
  · rw [(posed_bvp_eq l r ρ).1 hr0, (posed_bvp_eq l r ρ).2.2, (posed_ivp_eq l r ρ).1, (posed_ivp_eq l r ρ).2,
      odeLhs3, odeLhs3]
    constructor
    · intro h
      have : r * (-((l:ℝ) * (l + 1)) / r ^ 2 * V r + 2 / r * V1 r + 1 * V2 r) = r * (-(4 * π) * ρ) := by
        rw [← h.trans (by ring : -(4 * π) * r * ρ = r * (-(4 * π) * ρ))]
        field_simp; ring
      exact mul_left_cancel₀ hr0 this
    · intro h
      have : -((l:ℝ) * (l + 1)) / r ^ 2 * (r * V r) + 0 * (V r + r * V1 r) + 1 * (r * (V2 r + 2 * V1 r / r))
          = r * (-((l:ℝ) * (l + 1)) / r ^ 2 * V r + 2 / r * V1 r + 1 * V2 r) := by
        field_simp; ring
      rw [this, h]; ring

/-- non-vacuity: `V = 1/r` (the monopole outside the charge), `l = 0`, `ρ = 0`, `r = 2`. -/
example : odeLhs (ivpCoeffs 0 2) [(1:ℝ) / 2, -1 / 2 ^ 2, 2 / 2 ^ 3] = ivpRhs 0 2 := by
  rw [(posed_ivp_eq 0 2 0).1, (posed_ivp_eq 0 2 0).2, odeLhs3]; norm_num

/-- The Laplacian in spherical coordinates applied to a separated function `V(r)·Y(θ,φ)`:
`(V'' + (2/r)V')·Y + (V/r²)·ΛY`, `Λ` the angular part (Laplace–Beltrami operator of the sphere).
Mathlib has no spherical-coordinate Laplacian: this separated form is the *definition* used
here (`interpolate_laplacian` documents and evaluates the same expression). Arguments are the
values at one point: `V, V', V''` at `r`, `Y` and `ΛY` at the angles. -/
noncomputable def sphLaplacianSeparated (r V V1 V2 Y LY : ℝ) : ℝ :=
  (V2 + 2 / r * V1) * Y + V / r ^ 2 * LY

/-- **From Poisson's equation to the posed radial equation** (clause: the per-(l,m) problems are
the spherical-harmonic components of `∇²Φ = −4πρ`).  Hypothesis `hΛ` is the Laplace
eigenfunction property `ΛY_lm = −l(l+1)·Y_lm` (not in Mathlib; named, not proved). At a point
with `r ≠ 0` and `Y ≠ 0`: `∇²(V·Y) = −4π·(ρ_lm·Y)` iff `V, V', V''` satisfy the equation handed
to `solve_ode_ivp` (generated `ivpCoeffs`, `ivpRhs`); by `u_form_equiv` iff `u = rV` satisfies
the one handed to `solve_ode_bvp`. -/
theorem radial_poisson_of_lm (l : ℕ) {r : ℝ} (hr : r ≠ 0) (V V1 V2 ρ Y LY : ℝ) (hY : Y ≠ 0)
    (hΛ : LY = -((l:ℝ) * (l + 1)) * Y) :
    sphLaplacianSeparated r V V1 V2 Y LY = -(4 * π) * (ρ * Y) ↔
      odeLhs (ivpCoeffs l r) [V, V1, V2] = ivpRhs ρ r := by
  rw [(posed_ivp_eq l r ρ).1, (posed_ivp_eq l r ρ).2, odeLhs3, sphLaplacianSeparated, hΛ]
  have e : (V2 + 2 / r * V1) * Y + V / r ^ 2 * (-((l:ℝ) * (l + 1)) * Y)
      = (-((l:ℝ) * (l + 1)) / r ^ 2 * V + 2 / r * V1 + 1 * V2) * Y := by
    field_simp; ring
  rw [e, show -(4 * π) * (ρ * Y) = (-(4 * π) * ρ) * Y by ring]
  exact ⟨fun h => mul_right_cancel₀ hY h, fun h => by rw [h]⟩

/-- non-vacuity: `l = 1`, `V = r` (regular solid harmonic `r·Y_1m`, harmonic: `ρ = 0`), `r = 3`,
`Y = 1/2`, `ΛY = −2·(1/2)`. -/
example : sphLaplacianSeparated 3 3 1 0 (1 / 2) (-((1:ℕ) * ((1:ℕ) + 1)) * (1 / 2)) = -(4 * π) * (0 * (1 / 2)) := by
  simp [sphLaplacianSeparated]; norm_num

/-! ### boundary and initial values -/

theorem y00_eq : (y00 : ℝ) = 1 / (2 * Real.sqrt π) := by
  simp only [y00, Elem.sqrt, Elem.pi, Nat.cast_ofNat, Nat.cast_one]

theorem y00_pos : 0 < (y00 : ℝ) := by
  rw [y00_eq]; have := sqrt_pi_pos; positivity

/-- `Y_00` is normalised on the sphere: `4π·Y_00² = 1`. -/
theorem y00_normalised : 4 * π * (y00 : ℝ) ^ 2 = 1 := by
  rw [y00_eq]
  have hp := sqrt_pi_pos
  have : π = Real.sqrt π * Real.sqrt π := (Real.mul_self_sqrt Real.pi_pos.le).symm
  field_simp
  nlinarith [this]

/-- **Boundary values as the code sets them** (clause: "boundary value at infinity for l = 0,
0 otherwise").
1. A potential whose monopole part `V_00(r)·Y_00` behaves like `q/r` (`r·V_00·Y_00 → q`) is the
   same as `u_00 = r·V_00 → bvpBoundary q Y_00` (generated expression `q / Y_00`).
2. The generated boundary conditions: for `(l, m) = (0, 0)`: `u = 0` at the lower end and
   `u = boundary` at the upper end; for every other `(l, m)`: `u = 0` at both ends.
3. With the default `boundary` the upper value is `q / Y_00 = 2√π·q`. -/
theorem boundary_value_spec (q : ℝ) (V00 : ℝ → ℝ) :
    (Tendsto (fun r => r * (V00 r * y00)) atTop (𝓝 q) ↔
      Tendsto (fun r => r * V00 r) atTop (𝓝 (bvpBoundary q y00))) ∧
    (∀ B : ℝ, bvpBdCond 0 0 B = [(0, 0, 0), (1, 0, B)]) ∧
    (∀ (l : ℕ) (m : ℤ) (B : ℝ), ¬ ((l : ℤ) = 0 ∧ m = 0) → bvpBdCond l m B = [(0, 0, 0), (1, 0, 0)]) ∧
    bvpBoundary q (y00 : ℝ) = 2 * Real.sqrt π * q := by
  have hy := y00_pos
  refine ⟨?_, ?_, ?_, ?_⟩
  · simp only [bvpBoundary]
    constructor
    · intro h
      have := h.div_const (y00 : ℝ)
      refine this.congr fun r => ?_
      field_simp
    · intro h
      have := h.mul_const (y00 : ℝ)
      rw [div_mul_cancel₀ _ hy.ne'] at this
      refine this.congr fun r => ?_
      ring
  · intro B
    simp only [bvpBdCond, Nat.cast_zero, and_self, if_true]
  · intro l m B h
    simp only [bvpBdCond, Nat.cast_zero]
    rw [if_neg h]
  · rw [bvpBoundary, y00_eq]; field_simp

/-- non-vacuity of (1): `V_00 = (q/Y_00)/r` exactly. -/
example (q : ℝ) : Tendsto (fun r => r * ((q / (y00:ℝ)) / r)) atTop (𝓝 (bvpBoundary q y00)) := by
  refine (tendsto_const_nhds (x := bvpBoundary q (y00:ℝ))).congr' ?_
  filter_upwards [eventually_gt_atTop 0] with r hr
  simp only [bvpBoundary]; field_simp

/-- **Lower boundary value** (clause: "0 at the origin"): a radial component that stays bounded
near the origin (here: has a limit `v0`) has `u = r·V → 0`. -/
theorem boundary_value_origin {V : ℝ → ℝ} {v0 : ℝ} (hV : Tendsto V (𝓝[>] 0) (𝓝 v0)) :
    Tendsto (fun r => r * V r) (𝓝[>] 0) (𝓝 0) := by
  have hid : Tendsto (fun r : ℝ => r) (𝓝[>] 0) (𝓝 0) := tendsto_nhdsWithin_of_tendsto_nhds tendsto_id
  simpa using hid.mul hV

/-- **Upper boundary value of the higher components** (clause: "0 otherwise"): a component
with multipole decay `r^{l+1}·V_lm(r) → c`, `l ≥ 1`, has `u = r·V_lm → 0` at infinity. -/
theorem boundary_value_higher {V : ℝ → ℝ} {c : ℝ} (l : ℕ) (hl : 1 ≤ l)
    (hV : Tendsto (fun r => r ^ (l + 1) * V r) atTop (𝓝 c)) :
    Tendsto (fun r => r * V r) atTop (𝓝 0) := by
  have h0 : Tendsto (fun r : ℝ => (r ^ l)⁻¹) atTop (𝓝 0) :=
    (tendsto_pow_atTop (by omega : l ≠ 0)).inv_tendsto_atTop
  have := h0.mul hV
  rw [zero_mul] at this
  refine this.congr' ?_
  filter_upwards [eventually_gt_atTop 0] with r hr
  have : r ^ l ≠ 0 := (pow_pos hr l).ne'
  rw [pow_succ]; field_simp

/-- non-vacuity: the dipole tail `V = 1/r²`, `l = 1`. -/
example : Tendsto (fun r : ℝ => r * (1 / r ^ 2)) atTop (𝓝 0) := by
  refine boundary_value_higher 1 le_rfl (c := 1) ?_
  refine (tendsto_const_nhds (x := (1:ℝ))).congr' ?_
  filter_upwards [eventually_gt_atTop 0] with r hr
  field_simp

/-- **Initial data of the initial-value solver** (clause: "(q/Y00)/r_max, −(q/Y00)/r_max²").
For `(l, m) = (0, 0)` the generated initial data at `r_max > 0` are the value and the derivative of
the exact monopole solution `r ↦ B/r` with `B = ivpBoundary q Y_00 = q / Y_00`; every other
component starts from `(0, 0)`. -/
theorem initial_value_spec (q : ℝ) {rmax : ℝ} (hr : 0 < rmax) :
    (∃ v v1, ivpInit 0 0 (ivpBoundary q (y00:ℝ)) rmax = [v, v1] ∧
      v = (q / y00) / rmax ∧ HasDerivAt (fun r => (q / (y00:ℝ)) / r) v1 rmax) ∧
    (∀ (l : ℕ) (m : ℤ) (B : ℝ), ¬ ((l : ℤ) = 0 ∧ m = 0) → ivpInit l m B rmax = [0, 0]) := by
  constructor
  · refine ⟨(q / y00) / rmax, -(q / y00) / rmax ^ 2, ?_, rfl, ?_⟩
    · simp only [ivpInit, Nat.cast_zero, and_self, if_true, ivpBoundary, Elem.rpow, Nat.cast_ofNat]
      rw [Real.rpow_two]
    · have h := (hasDerivAt_id rmax).inv hr.ne'
      have h2 := h.const_mul (q / (y00:ℝ))
      simp only [id] at h2
      refine (h2.congr_of_eventuallyEq (Eventually.of_forall fun r => ?_)).congr_deriv ?_
      · simp only [div_eq_mul_inv, Pi.inv_apply, id]
      · ring
  · intro l m B h
    simp only [ivpInit, Nat.cast_zero]
    rw [if_neg h]

example : (0:ℝ) < 1000 ∧ ¬ (((2:ℕ) : ℤ) = 0 ∧ (1:ℤ) = 0) := by constructor <;> norm_num

/-! ### linearity in the density -/

/-- `bc(ya, yb)` of `solve_ode_bvp`: every entry `(end, order, value)` of the list constrains the
derivative of that order (`y = [u, u']`) at the lower (`end = 0`) or upper end. -/
def BcHolds (bc : List (ℕ × ℕ × ℝ)) (lo hi : ℝ) (y : List (ℝ → ℝ)) : Prop :=
  ∀ t ∈ bc, ∃ f, y[t.2.1]? = some f ∧ f (if t.1 = 0 then lo else hi) = t.2.2

/-- `u` solves the boundary-value problem the code hands to `solve_ode_bvp` for the component
`(l, m)` with radial density component `ρ` and boundary value `B`, on the radial interval
`[0, R]`: continuous on `[0, R]`, twice differentiable inside with the generated coefficient
list and right-hand side, and the generated boundary conditions. -/
def IsBvpSolution (l : ℕ) (m : ℤ) (R : ℝ) (ρ : ℝ → ℝ) (B : ℝ) (u : ℝ → ℝ) : Prop :=
  ∃ u1 u2 : ℝ → ℝ, ContinuousOn u (Set.Icc 0 R) ∧
    (∀ r ∈ Set.Ioo 0 R, HasDerivAt u (u1 r) r ∧ HasDerivAt u1 (u2 r) r ∧
      odeLhs (bvpCoeffs l r) [u r, u1 r, u2 r] = bvpRhs (ρ r) r) ∧
    BcHolds (bvpBdCond l m B) 0 R [u, u1]

/-- the boundary value the generated conditions impose at the upper end. -/
noncomputable def upperValue (l : ℕ) (m : ℤ) (B : ℝ) : ℝ := if (l : ℤ) = 0 ∧ m = 0 then B else 0

theorem bcHolds_iff (l : ℕ) (m : ℤ) (B R : ℝ) (u u1 : ℝ → ℝ) :
    BcHolds (bvpBdCond l m B) 0 R [u, u1] ↔ u 0 = 0 ∧ u R = upperValue l m B := by
  unfold BcHolds bvpBdCond upperValue
  by_cases h : (l : ℤ) = 0 ∧ m = 0
  · rw [if_pos h, if_pos h]; simp
  · rw [if_neg h, if_neg h]; simp

/-- **The posed data are linear in the density** (clause "the solution depends linearly on the
density", part 1): right-hand sides, default boundary value, boundary conditions' upper value and
initial data are linear in `(ρ, q)`; the coefficient lists `bvpCoeffs l r`, `ivpCoeffs l r` do
not take the density as an argument at all. -/
theorem posed_linear (a b ρ₁ ρ₂ q₁ q₂ r y : ℝ) (l : ℕ) (m : ℤ) (rmax : ℝ) :
    bvpRhs (a * ρ₁ + b * ρ₂) r = a * bvpRhs ρ₁ r + b * bvpRhs ρ₂ r ∧
    ivpRhs (a * ρ₁ + b * ρ₂) r = a * ivpRhs ρ₁ r + b * ivpRhs ρ₂ r ∧
    bvpBoundary (a * q₁ + b * q₂) y = a * bvpBoundary q₁ y + b * bvpBoundary q₂ y ∧
    ivpBoundary (a * q₁ + b * q₂) y = a * ivpBoundary q₁ y + b * ivpBoundary q₂ y ∧
    upperValue l m (a * q₁ + b * q₂) = a * upperValue l m q₁ + b * upperValue l m q₂ ∧
    ivpInit l m (a * q₁ + b * q₂) rmax
      = List.zipWith (fun v w => a * v + b * w) (ivpInit l m q₁ rmax) (ivpInit l m q₂ rmax) := by
  refine ⟨?_, ?_, ?_, ?_, ?_, ?_⟩
  · simp only [(posed_bvp_eq 0 r _).2.2]; ring
  · simp only [(posed_ivp_eq 0 r _).2]; ring
  · simp only [bvpBoundary]; ring
  · simp only [ivpBoundary]; ring
  · unfold upperValue; split_ifs <;> ring
  · simp only [ivpInit, Elem.rpow, Nat.cast_ofNat, Nat.cast_zero]
    split_ifs
    · simp only [List.zipWith_cons_cons, List.zipWith_nil_right, List.cons.injEq, and_true]
      constructor <;> ring
    · simp

/-- **Superposition** (part 2): a linear combination of solutions of the posed boundary-value
problems solves the posed problem of the combined density and boundary value. -/
theorem linear_combination_solves {l : ℕ} {m : ℤ} {R : ℝ} {ρ₁ ρ₂ u v : ℝ → ℝ} {B₁ B₂ : ℝ}
    (hu : IsBvpSolution l m R ρ₁ B₁ u) (hv : IsBvpSolution l m R ρ₂ B₂ v) (a b : ℝ) :
    IsBvpSolution l m R (fun r => a * ρ₁ r + b * ρ₂ r) (a * B₁ + b * B₂) (fun r => a * u r + b * v r) := by
  obtain ⟨u1, u2, huc, hud, hub⟩ := hu
  obtain ⟨v1, v2, hvc, hvd, hvb⟩ := hv
  refine ⟨fun r => a * u1 r + b * v1 r, fun r => a * u2 r + b * v2 r, ?_, ?_, ?_⟩
  · exact (huc.const_smul a |>.add (hvc.const_smul b)).congr fun r _ => by simp [smul_eq_mul]
  · intro r hr
    obtain ⟨h1, h2, h3⟩ := hud r hr
    obtain ⟨k1, k2, k3⟩ := hvd r hr
    refine ⟨(h1.const_mul a).add (k1.const_mul b), (h2.const_mul a).add (k2.const_mul b), ?_⟩
    have hr0 : r ≠ 0 := hr.1.ne'
    simp only [(posed_bvp_eq l r 0).1 hr0, (posed_bvp_eq l r _).2.2, odeLhs3] at h3 k3 ⊢
    linear_combination a * h3 + b * k3
  · rw [bcHolds_iff] at hub hvb ⊢
    refine ⟨by rw [hub.1, hvb.1]; ring, ?_⟩
    rw [hub.2, hvb.2, (posed_linear a b 0 0 B₁ B₂ 0 0 l m 0).2.2.2.2.1]

/-- **Linearity of the answer under uniqueness** (part 3): let `solver` be any map from
(density component, boundary value) to functions that returns a solution of the posed problem
for the densities in a class `D`, and assume the posed problem has at most one solution on
`[0, R]` (`huniq`; for the exact problem this is a theorem for every `l`: the monopole is
`bvp_unique_monopole`, every `l ≥ 1` is `bvp_unique_higher`; for a numerical solver it is an
assumption about the solver). Then the answer is linear in `(ρ, B)`. -/
theorem linear_in_density {l : ℕ} {m : ℤ} {R : ℝ} (D : Set (ℝ → ℝ)) (solver : (ℝ → ℝ) → ℝ → ℝ → ℝ)
    (hsol : ∀ ρ ∈ D, ∀ B, IsBvpSolution l m R ρ B (solver ρ B))
    (huniq : ∀ ρ ∈ D, ∀ B u v, IsBvpSolution l m R ρ B u → IsBvpSolution l m R ρ B v →
      ∀ r ∈ Set.Icc 0 R, u r = v r)
    {ρ₁ ρ₂ : ℝ → ℝ} (h₁ : ρ₁ ∈ D) (h₂ : ρ₂ ∈ D) (a b : ℝ)
    (h₁₂ : (fun r => a * ρ₁ r + b * ρ₂ r) ∈ D) (B₁ B₂ : ℝ) :
    ∀ r ∈ Set.Icc 0 R, solver (fun r => a * ρ₁ r + b * ρ₂ r) (a * B₁ + b * B₂) r
      = a * solver ρ₁ B₁ r + b * solver ρ₂ B₂ r :=
  huniq _ h₁₂ _ _ _ (hsol _ h₁₂ _) (linear_combination_solves (hsol _ h₁ B₁) (hsol _ h₂ B₂) a b)

/-- **Uniqueness for the monopole problem** (`l = 0`: `u'' = −4π r ρ`, `u(0) = 0`, `u(R) = B`):
two solutions of the posed problem agree on `[0, R]`. This discharges `huniq` of
`linear_in_density` for the exact `l = 0` problem, for every density component. -/
theorem bvp_unique_monopole {m : ℤ} {R : ℝ} (hR : 0 < R) (ρ : ℝ → ℝ) (B : ℝ) (u v : ℝ → ℝ)
    (hu : IsBvpSolution 0 m R ρ B u) (hv : IsBvpSolution 0 m R ρ B v) :
    ∀ r ∈ Set.Icc 0 R, u r = v r := by
  obtain ⟨u1, u2, huc, hud, hub⟩ := hu
  obtain ⟨v1, v2, hvc, hvd, hvb⟩ := hv
  rw [bcHolds_iff] at hub hvb
  have key := zero_of_second_deriv_zero hR (w := fun r => u r - v r) (w1 := fun r => u1 r - v1 r)
    (huc.sub hvc)
    (fun r hr => (hud r hr).1.sub (hvd r hr).1)
    (fun r hr => by
      obtain ⟨_, h2, h3⟩ := hud r hr
      obtain ⟨_, k2, k3⟩ := hvd r hr
      have hr0 : r ≠ 0 := hr.1.ne'
      simp only [(posed_bvp_eq 0 r 0).1 hr0, (posed_bvp_eq 0 r _).2.2, odeLhs3] at h3 k3
      have : u2 r - v2 r = 0 := by linear_combination h3 - k3
      exact this ▸ h2.sub k2)
    (by simp only [hub.1, hvb.1, sub_self]) (by simp only [hub.2, hvb.2, sub_self])
  intro r hr
  exact sub_eq_zero.mp (key r hr)

/-- **Uniqueness for the higher components** (`l ≥ 1`: `u'' = l(l+1)u/r² − 4π r ρ`, `u(0) = 0`,
`u(R) = upper value`): two solutions of the posed problem agree on `[0, R]`.  The difference `w`
satisfies the Euler-type equation `w'' = l(l+1)·w/r²` on `(0, R)` with `w(0) = w(R) = 0`; by the
maximum principle (`zero_of_second_deriv_eq_pos_mul`: a positive interior maximum would have
`w' = 0`, `w'' > 0`) it vanishes.  Together with `bvp_unique_monopole` this discharges `huniq` of
`linear_in_density` for the exact problem of every `(l, m)`. -/
theorem bvp_unique_higher {l : ℕ} (hl : 1 ≤ l) {m : ℤ} {R : ℝ} (hR : 0 < R) (ρ : ℝ → ℝ) (B : ℝ) (u v : ℝ → ℝ)
    (hu : IsBvpSolution l m R ρ B u) (hv : IsBvpSolution l m R ρ B v) :
    ∀ r ∈ Set.Icc 0 R, u r = v r := by
  obtain ⟨u1, u2, huc, hud, hub⟩ := hu
  obtain ⟨v1, v2, hvc, hvd, hvb⟩ := hv
  rw [bcHolds_iff] at hub hvb
  have hlpos : (0:ℝ) < (l:ℝ) * (l + 1) := by
    have : (1:ℝ) ≤ l := by exact_mod_cast hl
    nlinarith
  have key := zero_of_second_deriv_eq_pos_mul hR (w := fun r => u r - v r) (w1 := fun r => u1 r - v1 r)
    (w2 := fun r => u2 r - v2 r) (c := fun r => (l:ℝ) * (l + 1) / r ^ 2)
    (huc.sub hvc)
    (fun r hr => (hud r hr).1.sub (hvd r hr).1)
    (fun r hr => (hud r hr).2.1.sub (hvd r hr).2.1)
    (fun r hr => by
      obtain ⟨_, _, h3⟩ := hud r hr
      obtain ⟨_, _, k3⟩ := hvd r hr
      have hr0 : r ≠ 0 := hr.1.ne'
      simp only [(posed_bvp_eq l r 0).1 hr0, (posed_bvp_eq l r _).2.2, odeLhs3] at h3 k3
      show u2 r - v2 r = (l:ℝ) * (l + 1) / r ^ 2 * (u r - v r)
      linear_combination h3 - k3)
    (fun r hr => div_pos hlpos (pow_pos hr.1 2))
    (by simp only [hub.1, hvb.1, sub_self]) (by simp only [hub.2, hvb.2, sub_self])
  intro r hr
  exact sub_eq_zero.mp (key r hr)

/-- non-vacuity of `bvp_unique_higher`: `l = 1`, constant density component `ρ = 1/π`, `R = 1`:
`u(r) = r² − r³` solves `u'' = 2u/r² − 4π r ρ`, `u(0) = u(1) = 0` (for any `B`: the upper value of an
`l = 1` component is `0`). -/
example (B : ℝ) : IsBvpSolution 1 0 1 (fun _ => 1 / π) B (fun r => r ^ 2 - r ^ 3) := by
  refine ⟨fun r => 2 * r - 3 * r ^ 2, fun r => 2 - 6 * r, by fun_prop, ?_, ?_⟩
  · intro r hr
    refine ⟨?_, ?_, ?_⟩
    · have := ((hasDerivAt_id r).pow 2).sub ((hasDerivAt_id r).pow 3)
      simp only [id] at this
      refine this.congr_deriv ?_
      ring
    · have := ((hasDerivAt_id r).const_mul 2).sub (((hasDerivAt_id r).pow 2).const_mul 3)
      simp only [id] at this
      refine this.congr_deriv ?_
      ring
    · have hr0 : r ≠ 0 := hr.1.ne'
      rw [(posed_bvp_eq 1 r 0).1 hr0, (posed_bvp_eq 1 r _).2.2, odeLhs3]
      have := Real.pi_ne_zero
      field_simp
      ring
  · rw [bcHolds_iff]
    refine ⟨by simp, ?_⟩
    simp [upperValue]

/-- non-vacuity of `IsBvpSolution` (and of the hypotheses of the three theorems above):
`l = 0`, constant density component `ρ = 1`, `R = 1`, boundary value `B`:
`u(r) = (B + 2π/3)·r − (2π/3)·r³` solves `u'' = −4π r`, `u(0) = 0`, `u(1) = B`. -/
theorem bvp_solution_example (B : ℝ) :
    IsBvpSolution 0 0 1 (fun _ => 1) B (fun r => (B + 2 * π / 3) * r - 2 * π / 3 * r ^ 3) := by
  refine ⟨fun r => (B + 2 * π / 3) - 2 * π * r ^ 2, fun r => -(4 * π * r), by fun_prop, ?_, ?_⟩
  · intro r hr
    refine ⟨?_, ?_, ?_⟩
    · have := ((hasDerivAt_id r).const_mul (B + 2 * π / 3)).sub (((hasDerivAt_id r).pow 3).const_mul (2 * π / 3))
      simp only [id] at this
      refine this.congr_deriv ?_
      ring
    · have := (hasDerivAt_const r (B + 2 * π / 3)).sub (((hasDerivAt_id r).pow 2).const_mul (2 * π))
      simp only [id] at this
      refine this.congr_deriv ?_
      ring
    · rw [(posed_bvp_eq 0 r 0).1 hr.1.ne', (posed_bvp_eq 0 r _).2.2, odeLhs3]
      simp
  · rw [bcHolds_iff]
    constructor
    · simp
    · simp only [upperValue, Nat.cast_zero, and_self, if_true]; ring

/-- the solver hypotheses of `linear_in_density` are satisfiable: for `l = 0` on `[0, 1]`, the class
`D` of constant density components, `solver` = the explicit cubic; uniqueness by
`bvp_unique_monopole`. -/
example (a b B₁ B₂ : ℝ) : ∀ r ∈ Set.Icc (0:ℝ) 1,
    (fun (ρ : ℝ → ℝ) (B r : ℝ) => (B + 2 * π / 3 * ρ 0) * r - 2 * π / 3 * ρ 0 * r ^ 3)
        (fun _ => a * 1 + b * 2) (a * B₁ + b * B₂) r
      = a * ((B₁ + 2 * π / 3 * 1) * r - 2 * π / 3 * 1 * r ^ 3)
        + b * ((B₂ + 2 * π / 3 * 2) * r - 2 * π / 3 * 2 * r ^ 3) := by
  intro r _; ring

/-! ### robust split -/

/-- the generated robust-split expressions at `ℝ`. -/
theorem robust_gen_eq (vc vb vr ρ c pot : ℝ) :
    robustTotal vc vb vr = vc + vb + vr ∧ robustResidual ρ c = ρ - c ∧ robustCoreAccum vc pot = vc + pot :=
  ⟨rfl, rfl, rfl⟩

/-- The per-atom loops of `solve_poisson_robust` (model `robustResidualAll`, `robustPotential`):
the residual is the density minus the sum of the atomic core densities, the total is the sum of the
analytic atomic potentials plus the bonding fit plus the numerical potential of the residual. -/
theorem robust_fold (ρ : ℝ) (cores pots : List ℝ) (vb vr : ℝ) :
    robustResidualAll ρ cores = ρ - cores.sum ∧ robustPotential pots vb vr = pots.sum + vb + vr := by
  constructor
  · unfold robustResidualAll
    induction cores generalizing ρ with
    | nil => simp
    | cons c cs ih => rw [List.foldl_cons, ih, (robust_gen_eq 0 0 0 ρ c 0).2.1, List.sum_cons]; ring
  · unfold robustPotential
    rw [(robust_gen_eq _ vb vr 0 0 0).1]
    have : ∀ v0 : ℝ, pots.foldl robustCoreAccum v0 = v0 + pots.sum := by
      induction pots with
      | nil => simp
      | cons p ps ih => intro v0; rw [List.foldl_cons, ih, (robust_gen_eq v0 0 0 0 0 p).2.2, List.sum_cons]; ring
    rw [this]; simp

/-- One term of `_build_core_density` is `c` times the normalised s-type density documented in
`coulomb.py`, the density whose potential C17 proves `coulomb_gaussian_s` to be. -/
theorem core_term_is_c17_density (c α r : ℝ) : coreTerm c α (r ^ 2) = c * C17.rhoS α r := by
  simp only [coreTerm, C17.rhoS, Elem.rpow, Elem.exp, Elem.pi, Nat.cast_ofNat]; ring

/-- **Robust split** (clause "the robust solver equals the analytic core potential plus the
numerical potential of the residual").  Let `P` be the exact Coulomb-potential operator
`ρ ↦ ∫ρ(y)/|x−y| dy` on densities over any point type `X`; all that is used is that it is
subtractive (`hP`, a consequence of linearity of the integral; hypothesis). If the analytic part
is the exact potential of the core model (C17 for the fitted s-Gaussians, see `s_reference`) and
the numerical solve of the residual were exact, the generated total `v_core + v_bonding +
v_residual` (no bonding fit: `v_bonding = 0`) is the exact potential of the full density. -/
theorem robust_split {X : Type} (P : (X → ℝ) → X → ℝ)
    (hP : ∀ f g : X → ℝ, P (fun x => f x - g x) = fun x => P f x - P g x) (ρ ρc : X → ℝ) (x : X) :
    robustTotal (P ρc x) 0 (P (fun y => robustResidual (ρ y) (ρc y)) x) = P ρ x := by
  simp only [(robust_gen_eq _ _ _ 0 0 0).1, (robust_gen_eq 0 0 0 _ _ 0).2.1, hP]; ring

/-- non-vacuity: `X = ℝ`, `P` = multiplication by `2` (a linear operator). -/
example : ∀ f g : ℝ → ℝ, (fun (h : ℝ → ℝ) x => 2 * h x) (fun x => f x - g x)
    = fun x => (fun (h : ℝ → ℝ) x => 2 * h x) f x - (fun (h : ℝ → ℝ) x => 2 * h x) g x := by
  intro f g; funext x; ring

/-- The zero function solves every posed boundary-value problem with zero density (the default
boundary value is then `bvpBoundary 0 Y_00 = 0`). -/
theorem zero_solves_zero (l : ℕ) (m : ℤ) (R : ℝ) :
    IsBvpSolution l m R (fun _ => 0) (bvpBoundary 0 (y00:ℝ)) (fun _ => 0) := by
  refine ⟨fun _ => 0, fun _ => 0, continuousOn_const, fun r hr => ⟨hasDerivAt_const r 0, hasDerivAt_const r 0, ?_⟩, ?_⟩
  · rw [(posed_bvp_eq l r 0).1 hr.1.ne', (posed_bvp_eq l r _).2.2, odeLhs3]; ring
  · rw [bcHolds_iff]
    refine ⟨rfl, ?_⟩
    unfold upperValue bvpBoundary
    split_ifs <;> simp

/-- **Exact when the density is the core model** (clause "exact when the density equals the fitted
core model"): if `ρ = ρ_core` at every grid point the residual handed to `solve_poisson_bvp`
vanishes identically (`solve_poisson_robust` has no special case for this: it still calls the
numerical solver, whose posed problems then have the zero solution, `zero_solves_zero`); for any
solver `S` that answers `0` to the zero density the total is the analytic core potential. -/
theorem robust_exact_core {X : Type} (S : (X → ℝ) → X → ℝ) (hS : S (fun _ => 0) = fun _ => 0)
    (ρ ρc : X → ℝ) (h : ∀ y, ρ y = ρc y) (vc : ℝ) (x : X) :
    (fun y => robustResidual (ρ y) (ρc y)) = (fun _ => 0) ∧
    robustTotal vc 0 (S (fun y => robustResidual (ρ y) (ρc y)) x) = vc := by
  have : (fun y => robustResidual (ρ y) (ρc y)) = (fun _ => (0:ℝ)) := by
    funext y; rw [(robust_gen_eq 0 0 0 _ _ 0).2.1, h y, sub_self]
  refine ⟨this, ?_⟩
  rw [this, hS, (robust_gen_eq _ _ _ 0 0 0).1]; ring

/-- **Robust versus plain solver** (clause "agrees with the plain solver on smooth densities"):
for a solver `S` that is subtractive in the density (see `linear_in_density`), the robust total
differs from the plain answer `S ρ` by exactly the plain solver's own error on the core model,
`v_core − S ρ_core`; the two agree wherever the plain solver resolves the core model. -/
theorem robust_vs_plain {X : Type} (S : (X → ℝ) → X → ℝ)
    (hS : ∀ f g : X → ℝ, S (fun x => f x - g x) = fun x => S f x - S g x) (ρ ρc : X → ℝ) (vc : ℝ) (x : X) :
    robustTotal vc 0 (S (fun y => robustResidual (ρ y) (ρc y)) x) - S ρ x = vc - S ρc x := by
  simp only [(robust_gen_eq _ _ _ 0 0 0).1, (robust_gen_eq 0 0 0 _ _ 0).2.1, hS]; ring

/-! ### the analytic reference -/

/-- **The oracle's reference is C17's proven potential, and it solves the posed problem**
(clause "matches the analytic Coulomb potential").  For every exponent `α > 0` and radius above
C17's small-`r` switch:
1. the reference formula `erf(√α r)/r` used by the oracle is the generated `coulomb_gaussian_s`;
2. `u = r·V_s` has `u' = sU1` and `u'' =` the *generated* right-hand side `bvpRhs` of the
   documented density `ρ_s = (α/π)^{3/2} e^{−αr²}`, i.e. `u` satisfies the `l = 0` equation handed
   to `solve_ode_bvp` exactly (`C17.s_solves_poisson`);
3. `u → 1 = (bvpBoundary 1 Y_00)·Y_00`: the upper boundary value the code sets for unit charge,
   times `Y_00`, is the limit of `r·V_s` (`C17.s_far`);
4. `erf(√α r)/r` is the Coulomb integral of `ρ_s` (`C17.s_closed_form_is_coulomb_integral`). -/
theorem s_reference (α r : ℝ) (hα : 0 < α) (hr : C17.thr < r) :
    Gen.Coulomb.coulombGaussianS r α true = realErf (Real.sqrt α * r) / r ∧
    (HasDerivAt (fun x => x * Gen.Coulomb.coulombGaussianS x α true) (C17.sU1 α r) r ∧
      HasDerivAt (C17.sU1 α) (bvpRhs (C17.rhoS α r) r) r ∧
      odeLhs (bvpCoeffs 0 r) [r * Gen.Coulomb.coulombGaussianS r α true, C17.sU1 α r, bvpRhs (C17.rhoS α r) r]
        = bvpRhs (C17.rhoS α r) r) ∧
    (Tendsto (fun x => x * Gen.Coulomb.coulombGaussianS x α true) atTop (𝓝 (bvpBoundary 1 (y00:ℝ) * y00)) ∧
      bvpBoundary 1 (y00:ℝ) * y00 = 1) ∧
    realErf (Real.sqrt α * r) / r
      = (1 / r) * (∫ s in (0:ℝ)..r, 4 * π * s ^ 2 * C17.rhoS α s) + ∫ s in Set.Ioi r, 4 * π * s * C17.rhoS α s := by
  have hr0 : 0 < r := C17.thr_pos.trans hr
  have hb : bvpBoundary 1 (y00:ℝ) * y00 = 1 := by
    simp only [bvpBoundary]; exact div_mul_cancel₀ _ y00_pos.ne'
  obtain ⟨h1, h2⟩ := C17.s_solves_poisson α r hα hr
  have hrhs : bvpRhs (C17.rhoS α r) r = -4 * π * r * C17.rhoS α r := by
    rw [(posed_bvp_eq 0 r _).2.2]; ring
  refine ⟨C17.s_upper hr.le, ⟨h1, hrhs ▸ h2, ?_⟩, ⟨by rw [hb]; exact C17.s_far α hα, hb⟩,
    C17.s_closed_form_is_coulomb_integral α hα r hr0⟩
  rw [(posed_bvp_eq 0 r 0).1 hr0.ne', odeLhs3]
  simp

example : (0:ℝ) < 2 ∧ C17.thr < 1 := by
  refine ⟨by norm_num, ?_⟩
  simp only [C17.thr, Gen.Coulomb.rZeroThreshold, Nat.cast_ofNat, Nat.cast_one]; norm_num

/-! ### plumbing recorded by the translator -/

theorem intRange_length (a b : Int) : (intRange a b).length = (b - a).toNat := by
  simp [intRange]

theorem mOrders_length (l : ℕ) : (bvpMOrders l).length = 2 * l + 1 := by
  simp only [bvpMOrders, List.length_append, List.length_map, intRange_length]
  omega

theorem sum_odd (n : ℕ) : ((List.range n).map fun l => 2 * l + 1).sum = n ^ 2 := by
  induction n with
  | zero => simp
  | succ n ih => rw [List.range_succ, List.map_append, List.sum_append, ih]; simp; ring

/-- The generated double loop poses one radial problem per real spherical harmonic up to degree
`l_max // 2`: `(l_max/2 + 1)²` problems (`2l + 1` orders for every degree). -/
theorem problems_count (lMax : ℕ) (B : ℝ) :
    (bvpProblems lMax B).length = (lMax / 2 + 1) ^ 2 := by
  simp only [bvpProblems, lmSeq, List.length_map, List.length_flatMap, bvpLStart, bvpLStop, intRange]
  have h : ((lMax : ℤ) / 2 + 1 - 0).toNat = lMax / 2 + 1 := by omega
  rw [h, List.map_map]
  rw [← sum_odd (lMax / 2 + 1)]
  congr 1
  apply List.map_congr_left
  intro k _
  simp [mOrders_length]

example : (bvpProblems 11 (1:ℝ)).length = 36 := by rw [problems_count]; norm_num


/-- The calls into the ODE layer pass the mesh, right-hand side, coefficient list, boundary /
initial data and the transform in the order `solve_ode_bvp` / `solve_ode_ivp` expect; the
interpolants contract radial values with the harmonics over the `(l, m)` index; the robust solver
hands the *residual* to `solve_poisson_bvp` and asks `coulomb_potential` for the normalised
s-type potentials of the core parameters. -/
theorem call_shapes :
    bvpCall = ["rad_points", "f_x", "coeffs", "bd_cond", "transform", "**ode_params"] ∧
    ivpCall = ["r_interval", "f_x", "coeffs", "ivp", "transform", "no_derivatives=True", "**ode_params"] ∧
    bvpEinsum = ["\"ij, ij -> j\"", "r_values", "r_sph_harm"] ∧ ivpEinsum = bvpEinsum ∧
    molCall = ["atom_grid", "func_vals_atom[start_index:final_index]"] ∧
    robustCall = ["molgrid", "residual", "transform", "**bvp_kwargs"] ∧
    robustCoreKw = [("alphas_s", "alphas_s"), ("centers_s", "centers_rep"), ("coeffs_s", "coeffs_s"),
      ("normalized", "True")] ∧
    (molSliceStart 3, molSliceEnd 3) = (3, 4) := by
  decide

end GridVerif.C16

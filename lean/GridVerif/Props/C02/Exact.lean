/-
  C02, proof tier: the shipped tables carried into Lean (`Gen/AngularData/*.lean`, regenerated from the .npz files
  on every run) integrate every monomial of degree ≤ their advertised degree to 1e-13: one corollary per file, obtained
  from the kernel-decided integer statement of the generated file and the soundness theorems of `Sound.lean`
  (for the larger tables, whose generated file states the test slice by slice, through `Slice.lean`).
-/
import GridVerif.Props.C02.Sound
import GridVerif.Props.C02.Slice
import GridVerif.Gen.AngularData

namespace GridVerif.C02
open GridVerif.SphereQuad GridVerif.Gen.AngularData

/-- `lebedev_3_6.npz` (normalised to one; `AngularGrid` multiplies by 4π): exact to degree 3. -/
theorem lebedev_3_6_exact (a b c : ℕ) (h : a + b + c ≤ 3) :
    |quadQ LebedevD3N6.table a b c - mean a b c| ≤ 1 / ((10000000000000 : ℕ) : ℚ) :=
  allOkUnit_sound (by norm_num) LebedevD3N6.exact a b c h

/-- `lebedev_5_18.npz` (normalised to one; `AngularGrid` multiplies by 4π): exact to degree 5. -/
theorem lebedev_5_18_exact (a b c : ℕ) (h : a + b + c ≤ 5) :
    |quadQ LebedevD5N18.table a b c - mean a b c| ≤ 1 / ((10000000000000 : ℕ) : ℚ) :=
  allOkUnit_sound (by norm_num) LebedevD5N18.exact a b c h

/-- `lebedev_7_26.npz` (normalised to one; `AngularGrid` multiplies by 4π): exact to degree 7. -/
theorem lebedev_7_26_exact (a b c : ℕ) (h : a + b + c ≤ 7) :
    |quadQ LebedevD7N26.table a b c - mean a b c| ≤ 1 / ((10000000000000 : ℕ) : ℚ) :=
  allOkUnit_sound (by norm_num) LebedevD7N26.exact a b c h

/-- `lebedev_9_38.npz` (normalised to one; `AngularGrid` multiplies by 4π): exact to degree 9. -/
theorem lebedev_9_38_exact (a b c : ℕ) (h : a + b + c ≤ 9) :
    |quadQ LebedevD9N38.table a b c - mean a b c| ≤ 1 / ((10000000000000 : ℕ) : ℚ) :=
  allOkUnit_sound (by norm_num) LebedevD9N38.exact a b c h

/-- `lebedev_11_50.npz` (normalised to one; `AngularGrid` multiplies by 4π): exact to degree 11. -/
theorem lebedev_11_50_exact (a b c : ℕ) (h : a + b + c ≤ 11) :
    |quadQ LebedevD11N50.table a b c - mean a b c| ≤ 1 / ((10000000000000 : ℕ) : ℚ) :=
  allOkUnit_sound (by norm_num) LebedevD11N50.exact a b c h

/-- `spherical_1_2.npz` (normalised to one; `AngularGrid` multiplies by 4π): exact to degree 1. -/
theorem spherical_1_2_exact (a b c : ℕ) (h : a + b + c ≤ 1) :
    |quadQ SphericalD1N2.table a b c - mean a b c| ≤ 1 / ((10000000000000 : ℕ) : ℚ) :=
  allOkUnit_sound (by norm_num) SphericalD1N2.exact a b c h

/-- `spherical_3_6.npz` (normalised to one; `AngularGrid` multiplies by 4π): exact to degree 3. -/
theorem spherical_3_6_exact (a b c : ℕ) (h : a + b + c ≤ 3) :
    |quadQ SphericalD3N6.table a b c - mean a b c| ≤ 1 / ((10000000000000 : ℕ) : ℚ) :=
  allOkUnit_sound (by norm_num) SphericalD3N6.exact a b c h

/-- `spherical_5_12.npz` (normalised to one; `AngularGrid` multiplies by 4π): exact to degree 5. -/
theorem spherical_5_12_exact (a b c : ℕ) (h : a + b + c ≤ 5) :
    |quadQ SphericalD5N12.table a b c - mean a b c| ≤ 1 / ((10000000000000 : ℕ) : ℚ) :=
  allOkUnit_sound (by norm_num) SphericalD5N12.exact a b c h

/-- `spherical_7_32.npz` (normalised to one; `AngularGrid` multiplies by 4π): exact to degree 7. -/
theorem spherical_7_32_exact (a b c : ℕ) (h : a + b + c ≤ 7) :
    |quadQ SphericalD7N32.table a b c - mean a b c| ≤ 1 / ((10000000000000 : ℕ) : ℚ) :=
  allOkUnit_sound (by norm_num) SphericalD7N32.exact a b c h

/-- `spherical_9_48.npz` (normalised to one; `AngularGrid` multiplies by 4π): exact to degree 9. -/
theorem spherical_9_48_exact (a b c : ℕ) (h : a + b + c ≤ 9) :
    |quadQ SphericalD9N48.table a b c - mean a b c| ≤ 1 / ((10000000000000 : ℕ) : ℚ) :=
  allOkUnit_sound (by norm_num) SphericalD9N48.exact a b c h

/-- `spherical_11_70.npz` (normalised to one; `AngularGrid` multiplies by 4π): exact to degree 11. -/
theorem spherical_11_70_exact (a b c : ℕ) (h : a + b + c ≤ 11) :
    |quadQ SphericalD11N70.table a b c - mean a b c| ≤ 1 / ((10000000000000 : ℕ) : ℚ) :=
  allOkUnit_sound (by norm_num) SphericalD11N70.exact a b c h

/-- `maxdet_1_4.npz` (weights sum to 4π): exact to degree 1. -/
theorem maxdet_1_4_exact (a b c : ℕ) (h : a + b + c ≤ 1) :
    |quadR MaxdetD1N4.table a b c - 4 * Real.pi * ((mean a b c : ℚ) : ℝ)| ≤ 1 / ((10000000000000 : ℕ) : ℝ) + ((mean a b c : ℚ) : ℝ) * (4 / 10 ^ 20) :=
  allOk4pi_sound (by norm_num) MaxdetD1N4.exact a b c h

/-- `maxdet_2_9.npz` (weights sum to 4π): exact to degree 2. -/
theorem maxdet_2_9_exact (a b c : ℕ) (h : a + b + c ≤ 2) :
    |quadR MaxdetD2N9.table a b c - 4 * Real.pi * ((mean a b c : ℚ) : ℝ)| ≤ 1 / ((10000000000000 : ℕ) : ℝ) + ((mean a b c : ℚ) : ℝ) * (4 / 10 ^ 20) :=
  allOk4pi_sound (by norm_num) MaxdetD2N9.exact a b c h

/-- `maxdet_3_16.npz` (weights sum to 4π): exact to degree 3. -/
theorem maxdet_3_16_exact (a b c : ℕ) (h : a + b + c ≤ 3) :
    |quadR MaxdetD3N16.table a b c - 4 * Real.pi * ((mean a b c : ℚ) : ℝ)| ≤ 1 / ((10000000000000 : ℕ) : ℝ) + ((mean a b c : ℚ) : ℝ) * (4 / 10 ^ 20) :=
  allOk4pi_sound (by norm_num) MaxdetD3N16.exact a b c h

/-- `maxdet_4_25.npz` (weights sum to 4π): exact to degree 4. -/
theorem maxdet_4_25_exact (a b c : ℕ) (h : a + b + c ≤ 4) :
    |quadR MaxdetD4N25.table a b c - 4 * Real.pi * ((mean a b c : ℚ) : ℝ)| ≤ 1 / ((10000000000000 : ℕ) : ℝ) + ((mean a b c : ℚ) : ℝ) * (4 / 10 ^ 20) :=
  allOk4pi_sound (by norm_num) MaxdetD4N25.exact a b c h

/-- `maxdet_5_36.npz` (weights sum to 4π): exact to degree 5. -/
theorem maxdet_5_36_exact (a b c : ℕ) (h : a + b + c ≤ 5) :
    |quadR MaxdetD5N36.table a b c - 4 * Real.pi * ((mean a b c : ℚ) : ℝ)| ≤ 1 / ((10000000000000 : ℕ) : ℝ) + ((mean a b c : ℚ) : ℝ) * (4 / 10 ^ 20) :=
  allOk4pi_sound (by norm_num) MaxdetD5N36.exact a b c h

/-- `maxdet_6_49.npz` (weights sum to 4π): exact to degree 6. -/
theorem maxdet_6_49_exact (a b c : ℕ) (h : a + b + c ≤ 6) :
    |quadR MaxdetD6N49.table a b c - 4 * Real.pi * ((mean a b c : ℚ) : ℝ)| ≤ 1 / ((10000000000000 : ℕ) : ℝ) + ((mean a b c : ℚ) : ℝ) * (4 / 10 ^ 20) :=
  allOk4pi_sound (by norm_num) MaxdetD6N49.exact a b c h

/-- `maxdet_7_64.npz` (weights sum to 4π): exact to degree 7. -/
theorem maxdet_7_64_exact (a b c : ℕ) (h : a + b + c ≤ 7) :
    |quadR MaxdetD7N64.table a b c - 4 * Real.pi * ((mean a b c : ℚ) : ℝ)| ≤ 1 / ((10000000000000 : ℕ) : ℝ) + ((mean a b c : ℚ) : ℝ) * (4 / 10 ^ 20) :=
  allOk4pi_sound (by norm_num) MaxdetD7N64.exact a b c h

/-- `maxdet_8_81.npz` (weights sum to 4π): exact to degree 8. -/
theorem maxdet_8_81_exact (a b c : ℕ) (h : a + b + c ≤ 8) :
    |quadR MaxdetD8N81.table a b c - 4 * Real.pi * ((mean a b c : ℚ) : ℝ)| ≤ 1 / ((10000000000000 : ℕ) : ℝ) + ((mean a b c : ℚ) : ℝ) * (4 / 10 ^ 20) :=
  allOk4pi_sound (by norm_num) MaxdetD8N81.exact a b c h

/-- `maxdet_9_100.npz` (weights sum to 4π): exact to degree 9. -/
theorem maxdet_9_100_exact (a b c : ℕ) (h : a + b + c ≤ 9) :
    |quadR MaxdetD9N100.table a b c - 4 * Real.pi * ((mean a b c : ℚ) : ℝ)| ≤ 1 / ((10000000000000 : ℕ) : ℝ) + ((mean a b c : ℚ) : ℝ) * (4 / 10 ^ 20) :=
  allOk4pi_sound (by norm_num) MaxdetD9N100.exact a b c h

/-! ### round 3: the tables whose kernel check is stated slice by slice (`Props/C02/Slice.lean`) -/

/-- `lebedev_13_74.npz` (normalised to one; `AngularGrid` multiplies by 4π): exact to degree 13 (kernel-decided slice by slice). -/
theorem lebedev_13_74_exact (a b c : ℕ) (h : a + b + c ≤ 13) :
    |quadQ LebedevD13N74.table a b c - mean a b c| ≤ 1 / ((10000000000000 : ℕ) : ℚ) :=
  allOkUnit_sound (by norm_num) (allOkUnit_of_slices LebedevD13N74.slices) a b c h

/-- `lebedev_15_86.npz` (normalised to one; `AngularGrid` multiplies by 4π): exact to degree 15 (kernel-decided slice by slice). -/
theorem lebedev_15_86_exact (a b c : ℕ) (h : a + b + c ≤ 15) :
    |quadQ LebedevD15N86.table a b c - mean a b c| ≤ 1 / ((10000000000000 : ℕ) : ℚ) :=
  allOkUnit_sound (by norm_num) (allOkUnit_of_slices LebedevD15N86.slices) a b c h

/-- `lebedev_17_110.npz` (normalised to one; `AngularGrid` multiplies by 4π): exact to degree 17 (kernel-decided slice by slice). -/
theorem lebedev_17_110_exact (a b c : ℕ) (h : a + b + c ≤ 17) :
    |quadQ LebedevD17N110.table a b c - mean a b c| ≤ 1 / ((10000000000000 : ℕ) : ℚ) :=
  allOkUnit_sound (by norm_num) (allOkUnit_of_slices LebedevD17N110.slices) a b c h

/-- `spherical_13_94.npz` (normalised to one; `AngularGrid` multiplies by 4π): exact to degree 13 (kernel-decided slice by slice). -/
theorem spherical_13_94_exact (a b c : ℕ) (h : a + b + c ≤ 13) :
    |quadQ SphericalD13N94.table a b c - mean a b c| ≤ 1 / ((10000000000000 : ℕ) : ℚ) :=
  allOkUnit_sound (by norm_num) (allOkUnit_of_slices SphericalD13N94.slices) a b c h

/-- `maxdet_10_121.npz` (weights sum to 4π): exact to degree 10 (kernel-decided slice by slice). -/
theorem maxdet_10_121_exact (a b c : ℕ) (h : a + b + c ≤ 10) :
    |quadR MaxdetD10N121.table a b c - 4 * Real.pi * ((mean a b c : ℚ) : ℝ)| ≤ 1 / ((10000000000000 : ℕ) : ℝ) + ((mean a b c : ℚ) : ℝ) * (4 / 10 ^ 20) :=
  allOk4pi_sound (by norm_num) (allOk4pi_of_slices MaxdetD10N121.slices) a b c h

/-- `maxdet_11_144.npz` (weights sum to 4π): exact to degree 11 (kernel-decided slice by slice). -/
theorem maxdet_11_144_exact (a b c : ℕ) (h : a + b + c ≤ 11) :
    |quadR MaxdetD11N144.table a b c - 4 * Real.pi * ((mean a b c : ℚ) : ℝ)| ≤ 1 / ((10000000000000 : ℕ) : ℝ) + ((mean a b c : ℚ) : ℝ) * (4 / 10 ^ 20) :=
  allOk4pi_sound (by norm_num) (allOk4pi_of_slices MaxdetD11N144.slices) a b c h

/-- `maxdet_12_169.npz` (weights sum to 4π): exact to degree 12 (kernel-decided slice by slice). -/
theorem maxdet_12_169_exact (a b c : ℕ) (h : a + b + c ≤ 12) :
    |quadR MaxdetD12N169.table a b c - 4 * Real.pi * ((mean a b c : ℚ) : ℝ)| ≤ 1 / ((10000000000000 : ℕ) : ℝ) + ((mean a b c : ℚ) : ℝ) * (4 / 10 ^ 20) :=
  allOk4pi_sound (by norm_num) (allOk4pi_of_slices MaxdetD12N169.slices) a b c h

/-- `ahrens_beylkin_14_72.npz` (weights sum to 4π): exact to degree 14 (kernel-decided slice by slice). -/
theorem ahrens_beylkin_14_72_exact (a b c : ℕ) (h : a + b + c ≤ 14) :
    |quadR AhrensBeylkinD14N72.table a b c - 4 * Real.pi * ((mean a b c : ℚ) : ℝ)| ≤ 1 / ((10000000000000 : ℕ) : ℝ) + ((mean a b c : ℚ) : ℝ) * (4 / 10 ^ 20) :=
  allOk4pi_sound (by norm_num) (allOk4pi_of_slices AhrensBeylkinD14N72.slices) a b c h

/-- the generated list of carried tables is the list proved here (a changed selection breaks this). -/
theorem carried_eq : carried = [("lebedev", 3, 6, false), ("lebedev", 5, 18, false), ("lebedev", 7, 26, false), ("lebedev", 9, 38, false), ("lebedev", 11, 50, false), ("lebedev", 13, 74, false), ("lebedev", 15, 86, false), ("lebedev", 17, 110, false), ("spherical", 1, 2, false), ("spherical", 3, 6, false), ("spherical", 5, 12, false), ("spherical", 7, 32, false), ("spherical", 9, 48, false), ("spherical", 11, 70, false), ("spherical", 13, 94, false), ("maxdet", 1, 4, true), ("maxdet", 2, 9, true), ("maxdet", 3, 16, true), ("maxdet", 4, 25, true), ("maxdet", 5, 36, true), ("maxdet", 6, 49, true), ("maxdet", 7, 64, true), ("maxdet", 8, 81, true), ("maxdet", 9, 100, true), ("maxdet", 10, 121, true), ("maxdet", 11, 144, true), ("maxdet", 12, 169, true), ("ahrens_beylkin", 14, 72, true)] := by decide

/-- every polynomial of degree ≤ 11 (given by its monomial coefficients) is integrated by the shipped 50-point Lebedev
table to `1e-13` times the 1-norm of the coefficients; likewise for every carried table (`poly_bound`). -/
theorem lebedev_11_50_poly (p : Poly) (hp : p.degLE 11) :
    |p.quad LebedevD11N50.table - p.mean| ≤ 1 / ((10000000000000 : ℕ) : ℚ) * p.norm1 :=
  poly_bound (fun a b c h => lebedev_11_50_exact a b c h) p hp

/-- the same for the largest carried table, the 110-point Lebedev rule: every polynomial of degree ≤ 17. -/
theorem lebedev_17_110_poly (p : Poly) (hp : p.degLE 17) :
    |p.quad LebedevD17N110.table - p.mean| ≤ 1 / ((10000000000000 : ℕ) : ℚ) * p.norm1 :=
  poly_bound (fun a b c h => lebedev_17_110_exact a b c h) p hp

/-- the two organisations of the integer test decide the same statement: on a table whose direct test the kernel accepted,
every slice of the sliced test is accepted too (`slices_of_allOkUnit`), and conversely (`allOkUnit_of_slices`). -/
example (a : ℕ) : sliceOkUnit SphericalD11N70.table 11 10000000000000 a = true := slices_of_allOkUnit SphericalD11N70.exact a
example : allOkUnit LebedevD13N74.table 13 10000000000000 = true := allOkUnit_of_slices LebedevD13N74.slices

/-- non-vacuity / reading check: the table reproduces the surface measure, `Σ w = 1`, and `⟨x²⟩ = 1/3`, `⟨x² y²⟩ = 1/15`. -/
example : mean 0 0 0 = 1 ∧ mean 2 0 0 = 1 / 3 ∧ mean 2 2 0 = 1 / 15 ∧ mean 4 0 0 = 1 / 5 ∧ mean 1 2 0 = 0 := by
  refine ⟨?_, ?_, ?_, ?_, ?_⟩ <;> simp [mean, meanNum, meanDen, dfact] <;> norm_num

end GridVerif.C02

/-
  C02, proof tier (round 3): the sliced integer test of `Model/SphereQuad.lean` (`sliceOkUnit`, `sliceOk4pi`: per-node
  moments by iterated multiplication, one kernel-decided statement per first exponent) means the same as the direct test
  (`allOkUnit`, `allOk4pi`), and the integer test `onSphere` means that every node of the table is on the unit sphere to
  `1/T` as a statement about the rational numbers the table entries denote.

      sliceMoments t a n = (sliceMonos n).map fun (b, c) => moment t a b c             (`sliceMoments_eq`)
      (∀ a ≤ L, sliceOkUnit t L T a) → allOkUnit t L T                                  (`allOkUnit_of_slices`)
      (∀ a ≤ L, sliceOk4pi t L T a) → allOk4pi t L T                                    (`allOk4pi_of_slices`)
      onSphere t T → ∀ node, | x² + y² + z² - 1 | ≤ 1/T                                 (`onSphere_sound`)
-/
import GridVerif.Props.C02.Sound
import Mathlib.Tactic.Linarith
import Mathlib.Algebra.Order.Ring.Abs

namespace GridVerif.C02
open GridVerif.SphereQuad

/-! ### the per-node lists -/

theorem geom_eq (s m : Int) (n : ℕ) : geom s m n = (List.range n).map fun c => s * m ^ c := by
  induction n generalizing s with
  | zero => simp [geom]
  | succ n ih =>
    rw [geom, ih, List.range_succ_eq_map, List.map_cons, List.map_map]
    simp only [pow_zero, mul_one, List.cons.injEq, true_and]
    apply List.map_congr_left
    intro c _
    simp only [Function.comp_apply, pow_succ]
    ring

theorem sliceMonos_succ (n : ℕ) :
    sliceMonos (n + 1) = ((List.range (n + 1)).map fun c => (0, c)) ++ (sliceMonos n).map fun q => (q.1 + 1, q.2) := by
  unfold sliceMonos
  conv_lhs => rw [List.range_succ_eq_map, List.flatMap_cons, List.flatMap_map]
  simp only [Nat.sub_zero, List.map_flatMap, List.map_map]
  congr 1
  apply List.flatMap_congr
  intro b _
  have : n + 1 - (b + 1) = n - b := by omega
  simp [this, Function.comp_def]

theorem goB_eq (s y z : Int) (n : ℕ) : goB s y z n = (sliceMonos n).map fun q => s * y ^ q.1 * z ^ q.2 := by
  induction n generalizing s with
  | zero => simp [goB, sliceMonos]
  | succ n ih =>
    rw [goB, ih, geom_eq, sliceMonos_succ, List.map_append, List.map_map, List.map_map]
    congr 1
    · apply List.map_congr_left
      intro c _
      simp
    · apply List.map_congr_left
      intro q _
      simp only [Function.comp_apply, pow_succ]
      ring

/-- the moments of one node, `a` fixed. -/
theorem nodeSlice_eq (p : Int × Int × Int × Int) (a n : ℕ) :
    nodeSlice p a n = (sliceMonos n).map fun q => p.1 * p.2.1 ^ a * p.2.2.1 ^ q.1 * p.2.2.2 ^ q.2 := by
  unfold nodeSlice
  rw [goB_eq]

theorem nodeSlice_zero (a n : ℕ) : nodeSlice (0, 0, 0, 0) a n = (sliceMonos n).map fun _ => (0 : Int) := by
  rw [nodeSlice_eq]
  apply List.map_congr_left
  intro q _
  simp

/-! ### adding the lists of all nodes -/

theorem addL_map {ι : Type} (idx : List ι) (g h : ι → Int) :
    addL (idx.map g) (idx.map h) = idx.map fun i => g i + h i := by
  unfold addL
  rw [List.zipWith_map, List.zipWith_self]

theorem foldl_addL {ι P : Type} (idx : List ι) (term : P → ι → Int) (pts : List P) (g : ι → Int) :
    pts.foldl (fun acc p => addL acc (idx.map (term p))) (idx.map g)
      = idx.map fun i => pts.foldl (fun s p => s + term p i) (g i) := by
  induction pts generalizing g with
  | nil => simp
  | cons p ps ih =>
    rw [List.foldl_cons, addL_map, ih]
    simp

/-- **the sliced evaluation computes the moments**: entry `(b, c)` of `sliceMoments t a n` is `moment t a b c`. -/
theorem sliceMoments_eq (t : Table) (a n : ℕ) :
    sliceMoments t a n = (sliceMonos n).map fun q => moment t a q.1 q.2 := by
  unfold sliceMoments moment
  rw [nodeSlice_zero]
  have h : (fun (acc : List Int) (p : Int × Int × Int × Int) => addL acc (nodeSlice p a n))
      = fun acc p => addL acc ((sliceMonos n).map
          ((fun (p : Int × Int × Int × Int) (q : ℕ × ℕ) => p.1 * p.2.1 ^ a * p.2.2.1 ^ q.1 * p.2.2.2 ^ q.2) p)) := by
    funext acc p
    rw [nodeSlice_eq]
  rw [h, foldl_addL]

/-- reading check of the sliced evaluator on the two-point rule `{±e_x}`, weights one: the pairs `(b, c)` of a slice, the
moments `Σ w x^a y^b z^c` for `a = 0` (`[2, 0, 0]`: only `b = c = 0` survives) and `a = 2, b = c = 0` (`2`), `a = 1` (`0`). -/
example : sliceMonos 2 = [(0, 0), (0, 1), (1, 0)]
    ∧ sliceMoments ⟨0, 0, [(1, 1, 0, 0), (1, -1, 0, 0)]⟩ 0 2 = [2, 0, 0]
    ∧ sliceMoments ⟨0, 0, [(1, 1, 0, 0), (1, -1, 0, 0)]⟩ 2 1 = [2]
    ∧ sliceMoments ⟨0, 0, [(1, 1, 0, 0), (1, -1, 0, 0)]⟩ 1 1 = [0] := by decide

theorem mem_sliceMonos {n b c : ℕ} : (b, c) ∈ sliceMonos n ↔ b + c < n := by
  unfold sliceMonos
  simp only [List.mem_flatMap, List.mem_range, List.mem_map, Prod.mk.injEq]
  constructor
  · rintro ⟨b', hb, c', hc, rfl, rfl⟩
    omega
  · intro h
    exact ⟨b, by omega, c, by omega, rfl, rfl⟩

theorem zip_map_self {ι β : Type} (l : List ι) (f : ι → β) : (l.map f).zip l = l.map fun i => (f i, i) := by
  induction l with
  | nil => rfl
  | cons x xs ih => simp [ih]

theorem okUnit_eq_M (t : Table) (T a b c : ℕ) : okUnit t T a b c = okUnitM t T a b c (moment t a b c) := rfl
theorem ok4pi_eq_M (t : Table) (T a b c : ℕ) : ok4pi t T a b c = ok4piM t T a b c (moment t a b c) := rfl

/-- one slice of the sliced test is the direct test on the monomials with that first exponent. -/
theorem sliceOkUnit_iff (t : Table) (L T a : ℕ) :
    sliceOkUnit t L T a = true ↔ ∀ b c, a + b + c ≤ L → okUnit t T a b c = true := by
  unfold sliceOkUnit
  rw [sliceMoments_eq, zip_map_self, List.all_map, List.all_eq_true]
  constructor
  · intro h b c hd
    have := h (b, c) (mem_sliceMonos.2 (by omega))
    simpa [okUnit_eq_M] using this
  · rintro h ⟨b, c⟩ hm
    have := h b c (by have := mem_sliceMonos.1 hm; omega)
    simpa [okUnit_eq_M] using this

theorem sliceOk4pi_iff (t : Table) (L T a : ℕ) :
    sliceOk4pi t L T a = true ↔ ∀ b c, a + b + c ≤ L → ok4pi t T a b c = true := by
  unfold sliceOk4pi
  rw [sliceMoments_eq, zip_map_self, List.all_map, List.all_eq_true]
  constructor
  · intro h b c hd
    have := h (b, c) (mem_sliceMonos.2 (by omega))
    simpa [ok4pi_eq_M] using this
  · rintro h ⟨b, c⟩ hm
    have := h b c (by have := mem_sliceMonos.1 hm; omega)
    simpa [ok4pi_eq_M] using this

theorem of_mem_monos {L a b c : ℕ} (h : (a, b, c) ∈ monos L) : a + b + c ≤ L := by
  unfold monos at h
  simp only [List.mem_flatMap, List.mem_range, List.mem_map, Prod.mk.injEq] at h
  obtain ⟨a', ha, b', hb, c', hc, rfl, rfl, rfl⟩ := h
  omega

/-- **the slices together are the direct test** (weights normalised to one). -/
theorem allOkUnit_of_slices {t : Table} {L T : ℕ} (h : ∀ a, a ≤ L → sliceOkUnit t L T a = true) :
    allOkUnit t L T = true := by
  unfold allOkUnit
  rw [List.all_eq_true]
  rintro ⟨a, b, c⟩ hm
  have hd := of_mem_monos hm
  exact (sliceOkUnit_iff t L T a).1 (h a (by omega)) b c hd

/-- **the slices together are the direct test** (weights summing to `4π`). -/
theorem allOk4pi_of_slices {t : Table} {L T : ℕ} (h : ∀ a, a ≤ L → sliceOk4pi t L T a = true) :
    allOk4pi t L T = true := by
  unfold allOk4pi
  rw [List.all_eq_true]
  rintro ⟨a, b, c⟩ hm
  have hd := of_mem_monos hm
  exact (sliceOk4pi_iff t L T a).1 (h a (by omega)) b c hd

/-- and conversely: the direct test implies every slice (the two organisations decide the same statement). -/
theorem slices_of_allOkUnit {t : Table} {L T : ℕ} (h : allOkUnit t L T = true) (a : ℕ) : sliceOkUnit t L T a = true := by
  unfold allOkUnit at h
  rw [List.all_eq_true] at h
  exact (sliceOkUnit_iff t L T a).2 fun b c hd => h (a, b, c) (mem_monos hd)

/-! ### the nodes are on the unit sphere -/

/-- `x² + y² + z²` of one node, as the rational number the table entries denote. -/
def norm2Q (t : Table) (p : Int × Int × Int × Int) : ℚ :=
  ((p.2.1 : ℚ) / 2 ^ t.kp) ^ 2 + ((p.2.2.1 : ℚ) / 2 ^ t.kp) ^ 2 + ((p.2.2.2 : ℚ) / 2 ^ t.kp) ^ 2

/-- **soundness of the integer test `onSphere`**: if the kernel accepted `onSphere t T`, every node `p` of the table
satisfies `| |p|² - 1 | ≤ 1/T` (exact rational arithmetic on the doubles of the file). -/
theorem onSphere_sound {t : Table} {T : ℕ} (hT : 0 < T) (h : onSphere t T = true)
    (p : Int × Int × Int × Int) (hp : p ∈ t.pts) : |norm2Q t p - 1| ≤ 1 / (T : ℚ) := by
  unfold onSphere at h
  rw [List.all_eq_true] at h
  have h' := of_decide_eq_true (h p hp)
  have hTq : (0 : ℚ) < T := by exact_mod_cast hT
  have hs : (0 : ℚ) < 2 ^ (2 * t.kp) := by positivity
  have hq : |((p.2.1 ^ 2 + p.2.2.1 ^ 2 + p.2.2.2 ^ 2 - (2 : Int) ^ (2 * t.kp) : Int) : ℚ)| * T ≤ 2 ^ (2 * t.kp) := by
    have := (Nat.cast_le (α := ℚ)).2 h'
    push_cast at this
    rw [Nat.cast_natAbs] at this
    push_cast at this
    simpa using this
  have e : norm2Q t p - 1
      = ((p.2.1 ^ 2 + p.2.2.1 ^ 2 + p.2.2.2 ^ 2 - (2 : Int) ^ (2 * t.kp) : Int) : ℚ) / 2 ^ (2 * t.kp) := by
    unfold norm2Q
    push_cast
    rw [pow_mul']
    have h2 : ((2 : ℚ) ^ t.kp) ≠ 0 := by positivity
    field_simp
  rw [e, abs_div, abs_of_pos hs, div_le_div_iff₀ hs hTq]
  linarith [hq]

/-- in terms of the Euclidean norm: `| |p|² - 1 | ≤ ε` with `ε ≤ 1` gives `| |p| - 1 | ≤ ε` (stated on squares:
`(1 - ε)² ≤ |p|² ≤ (1 + ε)²`), which is the form the property uses ("all points lie on the unit sphere"). -/
theorem norm_window {n2 ε : ℚ} (hε : 0 ≤ ε) (hε1 : ε ≤ 1) (h : |n2 - 1| ≤ ε) : (1 - ε) ^ 2 ≤ n2 ∧ n2 ≤ (1 + ε) ^ 2 := by
  rw [abs_le] at h
  constructor <;> nlinarith [h.1, h.2]

end GridVerif.C02

/-
  C02, proof tier: soundness of the integer test of `Model/SphereQuad.lean`.

  `okUnit` / `ok4pi` are statements about integers decided by the kernel on the generated tables; here they are
  turned into statements about the rational numbers the table entries denote:

      quadQ t a b c = Σ_i w_i x_i^a y_i^b z_i^c     (exact, `w_i = W_i / 2^kw`, `x_i = X_i / 2^kp`)
      |quadQ t a b c - mean a b c| ≤ 1 / T                       (weights normalised to one)
      |quadQ t a b c - 4π · mean a b c| ≤ 1 / T + mean a b c · 4e-20    (weights summing to 4π; over ℝ)

  for every exponent triple of total degree ≤ L, and by linearity for every polynomial of degree ≤ L with the
  error multiplied by the 1-norm of its coefficients.  `mean a b c` is the closed form of the mean of
  `x^a y^b z^c` over the unit sphere (stated, not derived: Mathlib has no surface measure on the sphere; the
  harness checks it against numerical integration, `sphere-mean` in the C02 correspondence).
-/
import GridVerif.Model.SphereQuad
import Mathlib.Tactic.Ring
import Mathlib.Tactic.FieldSimp
import Mathlib.Tactic.Positivity
import Mathlib.Tactic.Linarith
import Mathlib.Tactic.NormNum
import Mathlib.Algebra.Order.Field.Basic
import Mathlib.Algebra.BigOperators.Group.List.Basic
import Mathlib.Analysis.Real.Pi.Bounds

namespace GridVerif.C02
open GridVerif.SphereQuad

/-- the monomial `w x^a y^b z^c` at one node, as the rational number the table entry denotes. -/
def termQ (t : Table) (a b c : ℕ) (p : Int × Int × Int × Int) : ℚ :=
  (p.1 : ℚ) / 2 ^ t.kw * ((p.2.1 : ℚ) / 2 ^ t.kp) ^ a * ((p.2.2.1 : ℚ) / 2 ^ t.kp) ^ b * ((p.2.2.2 : ℚ) / 2 ^ t.kp) ^ c

/-- the quadrature sum of `x^a y^b z^c` over the shipped table, exact. -/
def quadQ (t : Table) (a b c : ℕ) : ℚ := (t.pts.map (termQ t a b c)).sum

/-- mean of `x^a y^b z^c` over the unit sphere (closed form). -/
def mean (a b c : ℕ) : ℚ := (meanNum a b c : ℚ) / meanDen a b c

theorem dfact_pos : ∀ n, 0 < dfact n
  | 0 => by decide
  | 1 => by decide
  | (n + 2) => by
    rw [dfact]
    exact Nat.mul_pos (by omega) (dfact_pos n)

theorem meanDen_pos (a b c : ℕ) : 0 < meanDen a b c := dfact_pos _

theorem scale_pos (t : Table) (a b c : ℕ) : 0 < scale t a b c := by
  unfold scale
  positivity

theorem foldl_add_eq_sum {α : Type} (f : α → Int) (l : List α) (s : Int) :
    l.foldl (fun s p => s + f p) s = s + (l.map f).sum := by
  induction l generalizing s with
  | nil => simp
  | cons x xs ih => simp [List.foldl_cons, ih, add_assoc]

theorem termQ_eq (t : Table) (a b c : ℕ) (p : Int × Int × Int × Int) :
    termQ t a b c p = ((p.1 * p.2.1 ^ a * p.2.2.1 ^ b * p.2.2.2 ^ c : Int) : ℚ) / (scale t a b c : ℚ) := by
  unfold termQ scale
  push_cast
  rw [div_pow, div_pow, div_pow, pow_add, pow_mul, pow_add, pow_add]
  have h1 : ((2 : ℚ) ^ t.kw) ≠ 0 := by positivity
  have h2 : ((2 : ℚ) ^ t.kp) ≠ 0 := by positivity
  field_simp

/-- the integer `moment` is the quadrature sum times the common power of two. -/
theorem quadQ_eq (t : Table) (a b c : ℕ) : quadQ t a b c = (moment t a b c : ℚ) / (scale t a b c : ℚ) := by
  unfold quadQ moment
  have hf := foldl_add_eq_sum (fun p : Int × Int × Int × Int => p.1 * p.2.1 ^ a * p.2.2.1 ^ b * p.2.2.2 ^ c) t.pts 0
  rw [hf, zero_add]
  induction t.pts with
  | nil => simp
  | cons x xs ih =>
    simp only [List.map_cons, List.sum_cons, ih, termQ_eq]
    push_cast
    rw [← add_div]

theorem okUnit_sound {t : Table} {T a b c : ℕ} (hT : 0 < T) (h : okUnit t T a b c = true) :
    |quadQ t a b c - mean a b c| ≤ 1 / (T : ℚ) := by
  unfold okUnit at h
  have h' := of_decide_eq_true h
  have hd : (0 : ℚ) < meanDen a b c := by exact_mod_cast meanDen_pos a b c
  have hs : (0 : ℚ) < scale t a b c := by exact_mod_cast scale_pos t a b c
  have hTq : (0 : ℚ) < T := by exact_mod_cast hT
  have hq : |((moment t a b c * (meanDen a b c : Int) - (meanNum a b c : Int) * (scale t a b c : Int) : Int) : ℚ)| * T
      ≤ (meanDen a b c : ℚ) * scale t a b c := by
    have := (Nat.cast_le (α := ℚ)).2 h'
    push_cast at this
    rw [Nat.cast_natAbs] at this
    push_cast at this
    simpa using this
  rw [quadQ_eq, mean]
  have e : (moment t a b c : ℚ) / scale t a b c - (meanNum a b c : ℚ) / meanDen a b c
      = ((moment t a b c * (meanDen a b c : Int) - (meanNum a b c : Int) * (scale t a b c : Int) : Int) : ℚ)
        / ((meanDen a b c : ℚ) * scale t a b c) := by
    push_cast
    field_simp
  rw [e, abs_div, abs_of_pos (mul_pos hd hs), div_le_div_iff₀ (mul_pos hd hs) hTq]
  linarith [hq]

theorem mem_monos {L a b c : ℕ} (h : a + b + c ≤ L) : (a, b, c) ∈ monos L := by
  unfold monos
  simp only [List.mem_flatMap, List.mem_range, List.mem_map]
  exact ⟨a, by omega, b, by omega, c, by omega, rfl⟩

/-- **C02 for a normalised shipped table** (Lebedev, spherical design): if the kernel accepted `allOkUnit`, the
table integrates every monomial of total degree `≤ L` to `1/T`. -/
theorem allOkUnit_sound {t : Table} {L T : ℕ} (hT : 0 < T) (h : allOkUnit t L T = true) (a b c : ℕ)
    (hd : a + b + c ≤ L) : |quadQ t a b c - mean a b c| ≤ 1 / (T : ℚ) := by
  unfold allOkUnit at h
  rw [List.all_eq_true] at h
  exact okUnit_sound hT (h (a, b, c) (mem_monos hd))

/-! ### weights that sum to `4π` -/

/-- the quadrature sum over ℝ. -/
noncomputable def quadR (t : Table) (a b c : ℕ) : ℝ := ((quadQ t a b c : ℚ) : ℝ)

theorem fourPi_close : |((fourPiNum : ℝ) / fourPiDen) - 4 * Real.pi| ≤ 4 / 10 ^ 20 := by
  have h1 := Real.pi_gt_d20
  have h2 := Real.pi_lt_d20
  unfold fourPiNum fourPiDen
  rw [abs_le]
  constructor <;> norm_num <;> linarith

theorem ok4pi_sound_q {t : Table} {T a b c : ℕ} (hT : 0 < T) (h : ok4pi t T a b c = true) :
    |quadQ t a b c - (fourPiNum : ℚ) / fourPiDen * mean a b c| ≤ 1 / (T : ℚ) := by
  unfold ok4pi at h
  have h' := of_decide_eq_true h
  have hd : (0 : ℚ) < meanDen a b c := by exact_mod_cast meanDen_pos a b c
  have hs : (0 : ℚ) < scale t a b c := by exact_mod_cast scale_pos t a b c
  have hTq : (0 : ℚ) < T := by exact_mod_cast hT
  have hF : (0 : ℚ) < fourPiDen := by unfold fourPiDen; norm_num
  have hq : |((moment t a b c * ((meanDen a b c * fourPiDen : ℕ) : Int)
      - ((meanNum a b c * fourPiNum : ℕ) : Int) * (scale t a b c : Int) : Int) : ℚ)| * T
      ≤ (meanDen a b c : ℚ) * fourPiDen * scale t a b c := by
    have := (Nat.cast_le (α := ℚ)).2 h'
    push_cast at this
    rw [Nat.cast_natAbs] at this
    push_cast at this
    simpa using this
  rw [quadQ_eq, mean]
  have e : (moment t a b c : ℚ) / scale t a b c - (fourPiNum : ℚ) / fourPiDen * ((meanNum a b c : ℚ) / meanDen a b c)
      = ((moment t a b c * ((meanDen a b c * fourPiDen : ℕ) : Int)
          - ((meanNum a b c * fourPiNum : ℕ) : Int) * (scale t a b c : Int) : Int) : ℚ)
        / ((meanDen a b c : ℚ) * fourPiDen * scale t a b c) := by
    push_cast
    field_simp
  have hpos : (0 : ℚ) < (meanDen a b c : ℚ) * fourPiDen * scale t a b c := mul_pos (mul_pos hd hF) hs
  rw [e, abs_div, abs_of_pos hpos, div_le_div_iff₀ hpos hTq]
  linarith [hq]

theorem mean_nonneg (a b c : ℕ) : (0 : ℚ) ≤ mean a b c := by
  unfold mean
  positivity

/-- **C02 for a shipped table whose weights sum to `4π`** (maxdet, Ahrens–Beylkin): every monomial of total
degree `≤ L` is integrated to `1/T` (plus the twenty-digit enclosure of `π`). -/
theorem allOk4pi_sound {t : Table} {L T : ℕ} (hT : 0 < T) (h : allOk4pi t L T = true) (a b c : ℕ)
    (hd : a + b + c ≤ L) :
    |quadR t a b c - 4 * Real.pi * ((mean a b c : ℚ) : ℝ)| ≤ 1 / (T : ℝ) + ((mean a b c : ℚ) : ℝ) * (4 / 10 ^ 20) := by
  unfold allOk4pi at h
  rw [List.all_eq_true] at h
  have hq := ok4pi_sound_q hT (h (a, b, c) (mem_monos hd))
  have hr : |quadR t a b c - (fourPiNum : ℝ) / fourPiDen * ((mean a b c : ℚ) : ℝ)| ≤ 1 / (T : ℝ) := by
    have := (Rat.cast_le (K := ℝ)).2 hq
    have e : ((|quadQ t a b c - (fourPiNum : ℚ) / fourPiDen * mean a b c| : ℚ) : ℝ)
        = |quadR t a b c - (fourPiNum : ℝ) / fourPiDen * ((mean a b c : ℚ) : ℝ)| := by
      simp [quadR, Rat.cast_abs]
    rw [e] at this
    simpa using this
  have hm : (0 : ℝ) ≤ ((mean a b c : ℚ) : ℝ) := by exact_mod_cast mean_nonneg a b c
  have hp := fourPi_close
  calc |quadR t a b c - 4 * Real.pi * ((mean a b c : ℚ) : ℝ)|
      = |(quadR t a b c - (fourPiNum : ℝ) / fourPiDen * ((mean a b c : ℚ) : ℝ))
          + ((fourPiNum : ℝ) / fourPiDen - 4 * Real.pi) * ((mean a b c : ℚ) : ℝ)| := by ring_nf
    _ ≤ |quadR t a b c - (fourPiNum : ℝ) / fourPiDen * ((mean a b c : ℚ) : ℝ)|
          + |((fourPiNum : ℝ) / fourPiDen - 4 * Real.pi) * ((mean a b c : ℚ) : ℝ)| := abs_add_le _ _
    _ ≤ 1 / (T : ℝ) + ((mean a b c : ℚ) : ℝ) * (4 / 10 ^ 20) := by
        rw [abs_mul, abs_of_nonneg hm, mul_comm |_| _]
        exact add_le_add hr (mul_le_mul_of_nonneg_left hp hm)

/-! ### from monomials to polynomials -/

/-- a polynomial in `x, y, z` as a list of `(coefficient, a, b, c)`. -/
abbrev Poly := List (ℚ × ℕ × ℕ × ℕ)

def Poly.degLE (p : Poly) (L : ℕ) : Prop := ∀ m ∈ p, m.2.1 + m.2.2.1 + m.2.2.2 ≤ L
def Poly.quad (p : Poly) (t : Table) : ℚ := (p.map fun m => m.1 * quadQ t m.2.1 m.2.2.1 m.2.2.2).sum
def Poly.mean (p : Poly) : ℚ := (p.map fun m => m.1 * C02.mean m.2.1 m.2.2.1 m.2.2.2).sum
def Poly.norm1 (p : Poly) : ℚ := (p.map fun m => |m.1|).sum

/-- linearity: a table exact on the monomials of degree `≤ L` to `ε` integrates every polynomial of degree `≤ L`
to `ε` times the 1-norm of its coefficients (in particular `r^l Y_lm` restricted to the sphere, `l ≤ L`). -/
theorem poly_bound {t : Table} {L : ℕ} {ε : ℚ}
    (h : ∀ a b c, a + b + c ≤ L → |quadQ t a b c - C02.mean a b c| ≤ ε) (p : Poly) (hp : p.degLE L) :
    |p.quad t - p.mean| ≤ ε * p.norm1 := by
  induction p with
  | nil => simp [Poly.quad, Poly.mean, Poly.norm1]
  | cons m ms ih =>
    have hm := h m.2.1 m.2.2.1 m.2.2.2 (hp m (List.mem_cons_self))
    have ih' := ih (fun x hx => hp x (List.mem_cons_of_mem _ hx))
    simp only [Poly.quad, Poly.mean, Poly.norm1, List.map_cons, List.sum_cons] at *
    have e : m.1 * quadQ t m.2.1 m.2.2.1 m.2.2.2 + (ms.map fun m => m.1 * quadQ t m.2.1 m.2.2.1 m.2.2.2).sum
        - (m.1 * C02.mean m.2.1 m.2.2.1 m.2.2.2 + (ms.map fun m => m.1 * C02.mean m.2.1 m.2.2.1 m.2.2.2).sum)
        = m.1 * (quadQ t m.2.1 m.2.2.1 m.2.2.2 - C02.mean m.2.1 m.2.2.1 m.2.2.2)
          + ((ms.map fun m => m.1 * quadQ t m.2.1 m.2.2.1 m.2.2.2).sum
            - (ms.map fun m => m.1 * C02.mean m.2.1 m.2.2.1 m.2.2.2).sum) := by ring
    rw [e]
    refine (abs_add_le _ _).trans ?_
    rw [abs_mul, mul_add]
    refine add_le_add ?_ ih'
    rw [mul_comm ε]
    exact mul_le_mul_of_nonneg_left hm (abs_nonneg _)

end GridVerif.C02

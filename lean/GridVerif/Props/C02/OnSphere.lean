/-
  C02, proof tier: every node of every shipped table carried into Lean (`Gen/AngularData/*.lean`) lies on the unit sphere to
  1e-13 in exact rational arithmetic: `| x² + y² + z² - 1 | ≤ 1e-13` (hence `| |p| - 1 | ≤ 1e-13`, `norm_window`), from the
  kernel-decided integer statement `on_sphere` of each generated file and `onSphere_sound` (`Slice.lean`).
  This is the clause "all points lie on the unit sphere" of C02 for these files; the number of points is `size_eq` of the
  generated file (`carried_sizes`).
-/
import GridVerif.Props.C02.Slice
import GridVerif.Gen.AngularData

namespace GridVerif.C02
open GridVerif.SphereQuad GridVerif.Gen.AngularData

/-- every node of `lebedev_3_6.npz` is on the unit sphere to 1e-13. -/
theorem lebedev_3_6_on_sphere (p : Int × Int × Int × Int) (hp : p ∈ LebedevD3N6.table.pts) :
    |norm2Q LebedevD3N6.table p - 1| ≤ 1 / ((10000000000000 : ℕ) : ℚ) :=
  onSphere_sound (by norm_num) LebedevD3N6.on_sphere p hp

/-- every node of `lebedev_5_18.npz` is on the unit sphere to 1e-13. -/
theorem lebedev_5_18_on_sphere (p : Int × Int × Int × Int) (hp : p ∈ LebedevD5N18.table.pts) :
    |norm2Q LebedevD5N18.table p - 1| ≤ 1 / ((10000000000000 : ℕ) : ℚ) :=
  onSphere_sound (by norm_num) LebedevD5N18.on_sphere p hp

/-- every node of `lebedev_7_26.npz` is on the unit sphere to 1e-13. -/
theorem lebedev_7_26_on_sphere (p : Int × Int × Int × Int) (hp : p ∈ LebedevD7N26.table.pts) :
    |norm2Q LebedevD7N26.table p - 1| ≤ 1 / ((10000000000000 : ℕ) : ℚ) :=
  onSphere_sound (by norm_num) LebedevD7N26.on_sphere p hp

/-- every node of `lebedev_9_38.npz` is on the unit sphere to 1e-13. -/
theorem lebedev_9_38_on_sphere (p : Int × Int × Int × Int) (hp : p ∈ LebedevD9N38.table.pts) :
    |norm2Q LebedevD9N38.table p - 1| ≤ 1 / ((10000000000000 : ℕ) : ℚ) :=
  onSphere_sound (by norm_num) LebedevD9N38.on_sphere p hp

/-- every node of `lebedev_11_50.npz` is on the unit sphere to 1e-13. -/
theorem lebedev_11_50_on_sphere (p : Int × Int × Int × Int) (hp : p ∈ LebedevD11N50.table.pts) :
    |norm2Q LebedevD11N50.table p - 1| ≤ 1 / ((10000000000000 : ℕ) : ℚ) :=
  onSphere_sound (by norm_num) LebedevD11N50.on_sphere p hp

/-- every node of `lebedev_13_74.npz` is on the unit sphere to 1e-13. -/
theorem lebedev_13_74_on_sphere (p : Int × Int × Int × Int) (hp : p ∈ LebedevD13N74.table.pts) :
    |norm2Q LebedevD13N74.table p - 1| ≤ 1 / ((10000000000000 : ℕ) : ℚ) :=
  onSphere_sound (by norm_num) LebedevD13N74.on_sphere p hp

/-- every node of `lebedev_15_86.npz` is on the unit sphere to 1e-13. -/
theorem lebedev_15_86_on_sphere (p : Int × Int × Int × Int) (hp : p ∈ LebedevD15N86.table.pts) :
    |norm2Q LebedevD15N86.table p - 1| ≤ 1 / ((10000000000000 : ℕ) : ℚ) :=
  onSphere_sound (by norm_num) LebedevD15N86.on_sphere p hp

/-- every node of `lebedev_17_110.npz` is on the unit sphere to 1e-13. -/
theorem lebedev_17_110_on_sphere (p : Int × Int × Int × Int) (hp : p ∈ LebedevD17N110.table.pts) :
    |norm2Q LebedevD17N110.table p - 1| ≤ 1 / ((10000000000000 : ℕ) : ℚ) :=
  onSphere_sound (by norm_num) LebedevD17N110.on_sphere p hp

/-- every node of `spherical_1_2.npz` is on the unit sphere to 1e-13. -/
theorem spherical_1_2_on_sphere (p : Int × Int × Int × Int) (hp : p ∈ SphericalD1N2.table.pts) :
    |norm2Q SphericalD1N2.table p - 1| ≤ 1 / ((10000000000000 : ℕ) : ℚ) :=
  onSphere_sound (by norm_num) SphericalD1N2.on_sphere p hp

/-- every node of `spherical_3_6.npz` is on the unit sphere to 1e-13. -/
theorem spherical_3_6_on_sphere (p : Int × Int × Int × Int) (hp : p ∈ SphericalD3N6.table.pts) :
    |norm2Q SphericalD3N6.table p - 1| ≤ 1 / ((10000000000000 : ℕ) : ℚ) :=
  onSphere_sound (by norm_num) SphericalD3N6.on_sphere p hp

/-- every node of `spherical_5_12.npz` is on the unit sphere to 1e-13. -/
theorem spherical_5_12_on_sphere (p : Int × Int × Int × Int) (hp : p ∈ SphericalD5N12.table.pts) :
    |norm2Q SphericalD5N12.table p - 1| ≤ 1 / ((10000000000000 : ℕ) : ℚ) :=
  onSphere_sound (by norm_num) SphericalD5N12.on_sphere p hp

/-- every node of `spherical_7_32.npz` is on the unit sphere to 1e-13. -/
theorem spherical_7_32_on_sphere (p : Int × Int × Int × Int) (hp : p ∈ SphericalD7N32.table.pts) :
    |norm2Q SphericalD7N32.table p - 1| ≤ 1 / ((10000000000000 : ℕ) : ℚ) :=
  onSphere_sound (by norm_num) SphericalD7N32.on_sphere p hp

/-- every node of `spherical_9_48.npz` is on the unit sphere to 1e-13. -/
theorem spherical_9_48_on_sphere (p : Int × Int × Int × Int) (hp : p ∈ SphericalD9N48.table.pts) :
    |norm2Q SphericalD9N48.table p - 1| ≤ 1 / ((10000000000000 : ℕ) : ℚ) :=
  onSphere_sound (by norm_num) SphericalD9N48.on_sphere p hp

/-- every node of `spherical_11_70.npz` is on the unit sphere to 1e-13. -/
theorem spherical_11_70_on_sphere (p : Int × Int × Int × Int) (hp : p ∈ SphericalD11N70.table.pts) :
    |norm2Q SphericalD11N70.table p - 1| ≤ 1 / ((10000000000000 : ℕ) : ℚ) :=
  onSphere_sound (by norm_num) SphericalD11N70.on_sphere p hp

/-- every node of `spherical_13_94.npz` is on the unit sphere to 1e-13. -/
theorem spherical_13_94_on_sphere (p : Int × Int × Int × Int) (hp : p ∈ SphericalD13N94.table.pts) :
    |norm2Q SphericalD13N94.table p - 1| ≤ 1 / ((10000000000000 : ℕ) : ℚ) :=
  onSphere_sound (by norm_num) SphericalD13N94.on_sphere p hp

/-- every node of `maxdet_1_4.npz` is on the unit sphere to 1e-13. -/
theorem maxdet_1_4_on_sphere (p : Int × Int × Int × Int) (hp : p ∈ MaxdetD1N4.table.pts) :
    |norm2Q MaxdetD1N4.table p - 1| ≤ 1 / ((10000000000000 : ℕ) : ℚ) :=
  onSphere_sound (by norm_num) MaxdetD1N4.on_sphere p hp

/-- every node of `maxdet_2_9.npz` is on the unit sphere to 1e-13. -/
theorem maxdet_2_9_on_sphere (p : Int × Int × Int × Int) (hp : p ∈ MaxdetD2N9.table.pts) :
    |norm2Q MaxdetD2N9.table p - 1| ≤ 1 / ((10000000000000 : ℕ) : ℚ) :=
  onSphere_sound (by norm_num) MaxdetD2N9.on_sphere p hp

/-- every node of `maxdet_3_16.npz` is on the unit sphere to 1e-13. -/
theorem maxdet_3_16_on_sphere (p : Int × Int × Int × Int) (hp : p ∈ MaxdetD3N16.table.pts) :
    |norm2Q MaxdetD3N16.table p - 1| ≤ 1 / ((10000000000000 : ℕ) : ℚ) :=
  onSphere_sound (by norm_num) MaxdetD3N16.on_sphere p hp

/-- every node of `maxdet_4_25.npz` is on the unit sphere to 1e-13. -/
theorem maxdet_4_25_on_sphere (p : Int × Int × Int × Int) (hp : p ∈ MaxdetD4N25.table.pts) :
    |norm2Q MaxdetD4N25.table p - 1| ≤ 1 / ((10000000000000 : ℕ) : ℚ) :=
  onSphere_sound (by norm_num) MaxdetD4N25.on_sphere p hp

/-- every node of `maxdet_5_36.npz` is on the unit sphere to 1e-13. -/
theorem maxdet_5_36_on_sphere (p : Int × Int × Int × Int) (hp : p ∈ MaxdetD5N36.table.pts) :
    |norm2Q MaxdetD5N36.table p - 1| ≤ 1 / ((10000000000000 : ℕ) : ℚ) :=
  onSphere_sound (by norm_num) MaxdetD5N36.on_sphere p hp

/-- every node of `maxdet_6_49.npz` is on the unit sphere to 1e-13. -/
theorem maxdet_6_49_on_sphere (p : Int × Int × Int × Int) (hp : p ∈ MaxdetD6N49.table.pts) :
    |norm2Q MaxdetD6N49.table p - 1| ≤ 1 / ((10000000000000 : ℕ) : ℚ) :=
  onSphere_sound (by norm_num) MaxdetD6N49.on_sphere p hp

/-- every node of `maxdet_7_64.npz` is on the unit sphere to 1e-13. -/
theorem maxdet_7_64_on_sphere (p : Int × Int × Int × Int) (hp : p ∈ MaxdetD7N64.table.pts) :
    |norm2Q MaxdetD7N64.table p - 1| ≤ 1 / ((10000000000000 : ℕ) : ℚ) :=
  onSphere_sound (by norm_num) MaxdetD7N64.on_sphere p hp

/-- every node of `maxdet_8_81.npz` is on the unit sphere to 1e-13. -/
theorem maxdet_8_81_on_sphere (p : Int × Int × Int × Int) (hp : p ∈ MaxdetD8N81.table.pts) :
    |norm2Q MaxdetD8N81.table p - 1| ≤ 1 / ((10000000000000 : ℕ) : ℚ) :=
  onSphere_sound (by norm_num) MaxdetD8N81.on_sphere p hp

/-- every node of `maxdet_9_100.npz` is on the unit sphere to 1e-13. -/
theorem maxdet_9_100_on_sphere (p : Int × Int × Int × Int) (hp : p ∈ MaxdetD9N100.table.pts) :
    |norm2Q MaxdetD9N100.table p - 1| ≤ 1 / ((10000000000000 : ℕ) : ℚ) :=
  onSphere_sound (by norm_num) MaxdetD9N100.on_sphere p hp

/-- every node of `maxdet_10_121.npz` is on the unit sphere to 1e-13. -/
theorem maxdet_10_121_on_sphere (p : Int × Int × Int × Int) (hp : p ∈ MaxdetD10N121.table.pts) :
    |norm2Q MaxdetD10N121.table p - 1| ≤ 1 / ((10000000000000 : ℕ) : ℚ) :=
  onSphere_sound (by norm_num) MaxdetD10N121.on_sphere p hp

/-- every node of `maxdet_11_144.npz` is on the unit sphere to 1e-13. -/
theorem maxdet_11_144_on_sphere (p : Int × Int × Int × Int) (hp : p ∈ MaxdetD11N144.table.pts) :
    |norm2Q MaxdetD11N144.table p - 1| ≤ 1 / ((10000000000000 : ℕ) : ℚ) :=
  onSphere_sound (by norm_num) MaxdetD11N144.on_sphere p hp

/-- every node of `maxdet_12_169.npz` is on the unit sphere to 1e-13. -/
theorem maxdet_12_169_on_sphere (p : Int × Int × Int × Int) (hp : p ∈ MaxdetD12N169.table.pts) :
    |norm2Q MaxdetD12N169.table p - 1| ≤ 1 / ((10000000000000 : ℕ) : ℚ) :=
  onSphere_sound (by norm_num) MaxdetD12N169.on_sphere p hp

/-- every node of `ahrens_beylkin_14_72.npz` is on the unit sphere to 1e-13. -/
theorem ahrens_beylkin_14_72_on_sphere (p : Int × Int × Int × Int) (hp : p ∈ AhrensBeylkinD14N72.table.pts) :
    |norm2Q AhrensBeylkinD14N72.table p - 1| ≤ 1 / ((10000000000000 : ℕ) : ℚ) :=
  onSphere_sound (by norm_num) AhrensBeylkinD14N72.on_sphere p hp

/-- the carried tables, in the order of `Gen.AngularData.carried`. -/
def carriedTables : List Table := [LebedevD3N6.table, LebedevD5N18.table, LebedevD7N26.table, LebedevD9N38.table, LebedevD11N50.table, LebedevD13N74.table, LebedevD15N86.table, LebedevD17N110.table, SphericalD1N2.table, SphericalD3N6.table, SphericalD5N12.table, SphericalD7N32.table, SphericalD9N48.table, SphericalD11N70.table, SphericalD13N94.table, MaxdetD1N4.table, MaxdetD2N9.table, MaxdetD3N16.table, MaxdetD4N25.table, MaxdetD5N36.table, MaxdetD6N49.table, MaxdetD7N64.table, MaxdetD8N81.table, MaxdetD9N100.table, MaxdetD10N121.table, MaxdetD11N144.table, MaxdetD12N169.table, AhrensBeylkinD14N72.table]

/-- **every node of every carried table is on the unit sphere to 1e-13** (soundness of the integer test included). -/
theorem all_on_sphere (t : Table) (ht : t ∈ carriedTables) (p : Int × Int × Int × Int) (hp : p ∈ t.pts) :
    |norm2Q t p - 1| ≤ 1 / ((10000000000000 : ℕ) : ℚ) := by
  simp only [carriedTables, List.mem_cons, List.not_mem_nil, or_false] at ht
  rcases ht with rfl | rfl | rfl | rfl | rfl | rfl | rfl | rfl | rfl | rfl | rfl | rfl | rfl | rfl | rfl | rfl | rfl | rfl | rfl | rfl | rfl | rfl | rfl | rfl | rfl | rfl | rfl | rfl
  · exact lebedev_3_6_on_sphere p hp
  · exact lebedev_5_18_on_sphere p hp
  · exact lebedev_7_26_on_sphere p hp
  · exact lebedev_9_38_on_sphere p hp
  · exact lebedev_11_50_on_sphere p hp
  · exact lebedev_13_74_on_sphere p hp
  · exact lebedev_15_86_on_sphere p hp
  · exact lebedev_17_110_on_sphere p hp
  · exact spherical_1_2_on_sphere p hp
  · exact spherical_3_6_on_sphere p hp
  · exact spherical_5_12_on_sphere p hp
  · exact spherical_7_32_on_sphere p hp
  · exact spherical_9_48_on_sphere p hp
  · exact spherical_11_70_on_sphere p hp
  · exact spherical_13_94_on_sphere p hp
  · exact maxdet_1_4_on_sphere p hp
  · exact maxdet_2_9_on_sphere p hp
  · exact maxdet_3_16_on_sphere p hp
  · exact maxdet_4_25_on_sphere p hp
  · exact maxdet_5_36_on_sphere p hp
  · exact maxdet_6_49_on_sphere p hp
  · exact maxdet_7_64_on_sphere p hp
  · exact maxdet_8_81_on_sphere p hp
  · exact maxdet_9_100_on_sphere p hp
  · exact maxdet_10_121_on_sphere p hp
  · exact maxdet_11_144_on_sphere p hp
  · exact maxdet_12_169_on_sphere p hp
  · exact ahrens_beylkin_14_72_on_sphere p hp

/-- the number of nodes of every carried table is the advertised size (the third component of `carried`). -/
theorem carried_sizes : carriedTables.map (fun t => t.pts.length) = carried.map (fun c => c.2.2.1) := by decide +kernel

/-- reading check: a node of the 6-point Lebedev rule is `(1, 0, 0)` and its `norm2Q` is exactly one. -/
example : norm2Q LebedevD3N6.table (0, 1, 0, 0) = 1 := by
  simp [norm2Q, LebedevD3N6.table]

end GridVerif.C02

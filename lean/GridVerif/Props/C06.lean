/-
  C06 — atom-in-molecule weights form a partition of unity on every geometry.

  Model: `Model/Becke.lean` (hand-written, tied by correspondence); formulas, cutoff, chunk arithmetic and the
  radius table: `Gen/Becke.lean` (regenerated from /repo on every run).  Helper lemmas:
  `Lemmas/Becke.lean`, `Lemmas/BeckeCore.lean`, `Lemmas/BeckeIndex.lean`.

  Part 1 (this file): the numeric clauses over ℝ — for every number of atoms at distinct positions, every
  positive radii, every switching order and every point.  Part 2: `Props/C06Index.lean` (routes, chunking,
  Hirshfeld, radius table).
-/
import GridVerif.Lemmas.BeckeCore
import Mathlib.Topology.MetricSpace.Isometry
import Mathlib.Logic.Equiv.Defs

namespace GridVerif.C06
open GridVerif.Becke GridVerif.Gen.Becke

/-- a concrete molecule for the non-vacuity examples: three atoms on a line at x = 0, 1, 2 with
radii 1, 2, 3 (heteronuclear). -/
def lineMol : Mol ℝ := { natom := 3, pos := fun i => ⟨i, 0, 0⟩, rad := fun i => i + 1 }

theorem lineMol_valid : lineMol.Valid where
  natom_pos := by decide
  distinct := by
    intro A B _ _ hAB h
    simp only [lineMol, V3.mk.injEq, Nat.cast_inj, and_self, and_true] at h
    exact hAB h
  rad_pos := by intro A _; simp only [lineMol]; positivity

/-- (1) **Switching function** `f^[n]`, `f x = 1.5 x - 0.5 x³` as generated: maps `[-1,1]` to itself, is odd,
fixes `±1`; for every iteration order. -/
theorem switch_maps_unit (n : ℕ) :
    (∀ x : ℝ, -1 ≤ x ∧ x ≤ 1 → -1 ≤ switchFunc x n ∧ switchFunc x n ≤ 1) ∧
    (∀ x : ℝ, switchFunc (-x) n = -switchFunc x n) ∧
    switchFunc (1 : ℝ) n = 1 ∧ switchFunc (-1 : ℝ) n = -1 :=
  ⟨fun _ h => switchFunc_mem n h, switchFunc_neg n, switchFunc_one n, switchFunc_neg_one n⟩

example : switchFunc (1 / 2 : ℝ) 1 = 11 / 16 := by
  simp only [switchFunc, switchStep_real]; norm_num

/-- (1') below `1` it stays below `1` (used for the positivity of the cell sum). -/
theorem switch_lt_one (n : ℕ) (x : ℝ) (h : -1 ≤ x) (h1 : x < 1) : switchFunc x n < 1 :=
  switchFunc_lt_one n h h1

/-- (2) The generated default cutoff is non-negative and **strictly below 1/2**. -/
theorem cutoff_lt_half : (0 : ℝ) ≤ defaultCutoff ∧ (defaultCutoff : ℝ) < 1 / 2 := cutoff_bounds

/-- (2') `alpha` as generated (`u/(u²-1)` clipped to the cutoff): for positive radii the quotients are
well defined (`r_A + r_B ≠ 0`, `u² - 1 < 0`), `|alpha| ≤ cutoff`, and `alpha_BA = -alpha_AB`. -/
theorem alpha_antisymm_clipped (ra rb : ℝ) (ha : 0 < ra) (hb : 0 < rb) :
    ra + rb ≠ 0 ∧ uAB ra rb ^ 2 - 1 < 0 ∧
    -defaultCutoff ≤ alpha ra rb ∧ alpha ra rb ≤ (defaultCutoff : ℝ) ∧
    alpha rb ra = -alpha ra rb := by
  have hs : 0 < ra + rb := by linarith
  refine ⟨hs.ne', ?_, (alpha_abs_le ra rb cutoff_bounds.1).1, (alpha_abs_le ra rb cutoff_bounds.1).2,
    alpha_swap ra rb cutoff_bounds.1⟩
  have h1 : uAB ra rb < 1 := by unfold uAB; rw [div_lt_one hs]; linarith
  have h2 : -1 < uAB ra rb := by unfold uAB; rw [lt_div_iff₀ hs]; linarith
  nlinarith

example : alpha (1 : ℝ) 3 = defaultCutoff ∧ alpha (3 : ℝ) 1 = -defaultCutoff := by
  have h := cutoff_bounds
  have e1 : alphaRaw (uAB (1 : ℝ) 3) = 2 / 3 := by
    unfold alphaRaw uAB; simp only [npow_eq_pow]; norm_num
  have e2 : alphaRaw (uAB (3 : ℝ) 1) = -(2 / 3) := by
    unfold alphaRaw uAB; simp only [npow_eq_pow]; norm_num
  unfold alpha alphaClip
  rw [e1, e2]
  simp only
  constructor <;> split_ifs <;> linarith [h.1, h.2]

/-- (3) `nu = mu + a (1 - mu²)` stays in `[-1,1]` when `|a| ≤ 1/2` (both copies of the formula). -/
theorem nu_in_unit (mu a : ℝ) (hmu : -1 ≤ mu ∧ mu ≤ 1) (ha : -(1 / 2) ≤ a ∧ a ≤ 1 / 2) :
    (-1 ≤ nuGW mu a ∧ nuGW mu a ≤ 1) ∧ (-1 ≤ nuCAW mu a ∧ nuCAW mu a ≤ 1) :=
  ⟨nuGW_mem hmu ha, nuGW_mem hmu ha⟩

example : nuGW (1 / 2 : ℝ) (1 / 2) = 7 / 8 := by rw [nuGW_real]; norm_num

section molecule
variable (m : Mol ℝ) (hv : m.Valid) (order : ℕ) (p : V3 ℝ)
include hv

/-- (4) `mu_AB(p) ∈ [-1,1]` (triangle inequality), for distinct nuclei. -/
theorem mu_bounds {A B : ℕ} (hA : A < m.natom) (hB : B < m.natom) (hAB : A ≠ B) :
    -1 ≤ mu m p A B ∧ mu m p A B ≤ 1 :=
  mu_mem m p hv hA hB hAB

/-- (5) `s_AB ∈ [0,1]` and `s_AB + s_BA = 1`. -/
theorem s_pair {A B : ℕ} (hA : A < m.natom) (hB : B < m.natom) (hAB : A ≠ B) :
    0 ≤ sPair routeGW m order p A B ∧ sPair routeGW m order p A B ≤ 1 ∧
    sPair routeGW m order p A B + sPair routeGW m order p B A = 1 :=
  ⟨(sPair_mem m order p hv hA hB hAB).1, (sPair_mem m order p hv hA hB hAB).2, sPair_swap m order p A B⟩

/-- (6) The sum of the cell functions is positive at every point (the nearest atom's cell product is). -/
theorem cell_sum_pos : 0 < cellSum routeGW m order p := cellSum_pos' m order p hv

/-- (7) Every weight lies in `[0,1]`. -/
theorem weights_in_unit {A : ℕ} (hA : A < m.natom) :
    0 ≤ weight routeGW m order p A ∧ weight routeGW m order p A ≤ 1 := by
  unfold weight
  have hs := cellSum_pos' m order p hv
  exact ⟨div_nonneg (cell_nonneg m order p hv hA) hs.le,
    (div_le_one hs).mpr (cell_le_cellSum m order p hv hA)⟩

/-- (8) **Partition of unity**: the weights of all atoms sum to one at every point. -/
theorem weights_sum_one : ∑ A ∈ Finset.range m.natom, weight routeGW m order p A = 1 := by
  unfold weight
  rw [← Finset.sum_div, ← cellSum_eq]
  exact div_self (cellSum_pos' m order p hv).ne'

/-- (9) An atom's weight is one at its own nucleus and zero at every other nucleus. -/
theorem weight_at_nuclei {A B : ℕ} (hA : A < m.natom) (hB : B < m.natom) :
    weight routeGW m order (m.pos A) B = if A = B then 1 else 0 := by
  unfold weight
  rw [cellSum_at_nucleus m order hv hA, div_one]
  split_ifs with h
  · subst h; exact cell_own_nucleus m order hv hA
  · exact cell_other_nucleus m order hv hA hB h

end molecule

example : (∑ A ∈ Finset.range 3, weight routeGW lineMol 3 ⟨1 / 2, 1, 0⟩ A = 1) ∧
    weight routeGW lineMol 3 ⟨1, 0, 0⟩ 1 = 1 ∧ weight routeGW lineMol 3 ⟨1, 0, 0⟩ 2 = 0 :=
  ⟨weights_sum_one lineMol lineMol_valid 3 _,
   by simpa [lineMol] using weight_at_nuclei lineMol lineMol_valid 3 (A := 1) (B := 1) (by decide) (by decide),
   by simpa [lineMol] using weight_at_nuclei lineMol lineMol_valid 3 (A := 1) (B := 2) (by decide) (by decide)⟩

/-- the molecule moved by `g`. -/
def Mol.move (m : Mol ℝ) (g : V3 ℝ → V3 ℝ) : Mol ℝ := { m with pos := fun i => g (m.pos i) }

/-- the molecule with its atoms relabelled by `σ`. -/
def Mol.relabel (m : Mol ℝ) (σ : ℕ → ℕ) : Mol ℝ :=
  { m with pos := fun i => m.pos (σ i), rad := fun i => m.rad (σ i) }

/-- (10) **Invariance under rigid motions**: a map of space that preserves the (model) distance — rotations,
reflections, translations and their compositions — applied to nuclei and point leaves every weight
unchanged (no hypothesis on the molecule is needed; either route). -/
theorem rigid_motion_invariant (r : Route ℝ) (m : Mol ℝ) (order : ℕ) (p : V3 ℝ) (A : ℕ)
    (g : V3 ℝ → V3 ℝ) (hg : ∀ a b, dist3 (g a) (g b) = dist3 a b) :
    weight r (Mol.move m g) order (g p) A = weight r m order p A := by
  have hmu : ∀ A B, mu (Mol.move m g) (g p) A B = mu m p A B := by
    intro A B; simp only [mu, Mol.move, hg]
  have hs : ∀ A B, sPair r (Mol.move m g) order (g p) A B = sPair r m order p A B := by
    intro A B; unfold sPair; rw [hmu]; rfl
  have hc : ∀ A, cell r (Mol.move m g) order (g p) A = cell r m order p A := by
    intro A; unfold cell
    rw [show sPair r (Mol.move m g) order (g p) A = sPair r m order p A from funext (hs A)]; rfl
  unfold weight cellSum
  rw [show cell r (Mol.move m g) order (g p) = cell r m order p from funext hc]; rfl

/-- (10') the same for an isometry of Euclidean 3-space, through the identification `toE3`/`ofE3`. -/
theorem isometry_invariant (r : Route ℝ) (m : Mol ℝ) (order : ℕ) (p : V3 ℝ) (A : ℕ)
    (g : EuclideanSpace ℝ (Fin 3) → EuclideanSpace ℝ (Fin 3)) (hg : Isometry g) :
    weight r (Mol.move m fun v => ofE3 (g (toE3 v))) order (ofE3 (g (toE3 p))) A
      = weight r m order p A := by
  apply rigid_motion_invariant r m order p A (fun v => ofE3 (g (toE3 v)))
  intro a b
  rw [dist3_eq_dist, dist3_eq_dist, toE3_ofE3, toE3_ofE3, hg.dist_eq]

/-- a translation is such a map (non-vacuity of (10)). -/
example (t a b : V3 ℝ) :
    dist3 (⟨a.x + t.x, a.y + t.y, a.z + t.z⟩ : V3 ℝ) ⟨b.x + t.x, b.y + t.y, b.z + t.z⟩ = dist3 a b := by
  unfold dist3; congr 1; ring

/-- (11) **Equivariance under relabelling**: permuting the atoms (positions and radii together) permutes the
weights. -/
theorem relabel_equivariant (r : Route ℝ) (m : Mol ℝ) (order : ℕ) (p : V3 ℝ) (A : ℕ)
    (σ : Equiv.Perm ℕ) (hσ : ∀ i, i < m.natom ↔ σ i < m.natom) :
    weight r (Mol.relabel m σ) order p A = weight r m order p (σ A) := by
  have hs : ∀ A B, sPair r (Mol.relabel m σ) order p A B = sPair r m order p (σ A) (σ B) := by
    intro A B; rfl
  have hc : ∀ A, cell r (Mol.relabel m σ) order p A = cell r m order p (σ A) := by
    intro A
    unfold cell
    rw [prodSkip_eq, prodSkip_eq]
    show ∏ B ∈ Finset.range m.natom, _ = _
    apply Finset.prod_equiv σ
    · intro i; simpa using hσ i
    · intro B _
      simp only [hs, EmbeddingLike.apply_eq_iff_eq]
  unfold weight
  rw [hc]
  congr 1
  unfold cellSum
  rw [sumRange_eq, sumRange_eq]
  show ∑ B ∈ Finset.range m.natom, _ = _
  apply Finset.sum_equiv σ
  · intro i; simpa using hσ i
  · intro B _; exact hc B

/-- swapping atoms 0 and 1 of a molecule with at least two atoms is such a relabelling. -/
example : ∀ i, i < 3 ↔ (Equiv.swap 0 1 : Equiv.Perm ℕ) i < 3 := by
  intro i
  by_cases h0 : i = 0
  · subst h0; simp
  · by_cases h1 : i = 1
    · subst h1; simp
    · rw [Equiv.swap_apply_of_ne_of_ne h0 h1]

/-- (12) The two copies of the `alpha` call and of the `nu`/`s` formulas in the source (`generate_weights`,
`compute_atom_weight`) are the same functions, hence give the same weights.  What each copy passes on to
`_calculate_alpha` (`cutoff`) and to `_switch_func` (`order`) is generated from the call's arguments bound against the
callee's signature, an omitted argument being the callee's generated default: dropping `order=self._order` in one copy
makes that copy use `switchDefaultOrder` for every `self._order`, and this theorem no longer checks.
`compute_atom_weight` is taken at the default of its `cutoff` parameter, as `compute_weights` calls it. -/
theorem routes_formula_agree :
    (routeCAW cawDefaultCutoff : Route ℝ) = routeGW ∧
    ∀ (m : Mol ℝ) (order : ℕ) (p : V3 ℝ) (A : ℕ),
      weight (routeCAW cawDefaultCutoff) m order p A = weight routeGW m order p A := by
  have h : (routeCAW cawDefaultCutoff : Route ℝ) = routeGW := by
    unfold routeCAW routeGW
    congr 1
  exact ⟨h, fun m order p A => by rw [h]⟩

/-- (12') The code as it is: the `cutoff` parameter of `compute_atom_weight` (documented "Cutoff for a_AB") has no
effect — the method calls `_calculate_alpha(radii)` without it, so the clipping always uses the default of
`_calculate_alpha`.  (Outside the wording of C06, which has no clause on `cutoff`; stated so that a change of the
plumbing is visible.) -/
theorem caw_cutoff_parameter_unused (c : ℝ) : (routeCAW c : Route ℝ) = routeCAW cawDefaultCutoff := by
  unfold routeCAW alphaCAW
  rfl

/-- (12'') both copies iterate the switching polynomial exactly `self._order` times (`order = 0`: not at all;
the default of `_switch_func` plays no role). -/
theorem routes_pass_order (v : ℝ) (order : ℕ) :
    (routeGW : Route ℝ).s v order = 1 / 2 * (1 - switchFunc v order) ∧
    (routeCAW cawDefaultCutoff : Route ℝ).s v order = 1 / 2 * (1 - switchFunc v order) := by
  constructor
  · show sGW v order = _
    exact sGW_real v order
  · show sCAW v order = _
    unfold sCAW; simp only [Nat.cast_ofNat, Nat.cast_one]

example : (routeGW : Route ℝ).s (1 / 2) 1 = 5 / 32 ∧ (routeGW : Route ℝ).s (1 / 2) 0 = 1 / 4 := by
  constructor
  · rw [(routes_pass_order _ _).1]; simp only [switchFunc, switchStep_real]; norm_num
  · rw [(routes_pass_order _ _).1]; simp only [switchFunc]; norm_num

end GridVerif.C06

/-
  C15, part 6 (round 3) — the hypothesis `Admissible` of the C15 theorems, discharged for a transform of the library as
  it is *generated from the source* (`Gen/RTransform.lean`, regenerated on every run of this check too): for
  `HandyRTransform(rmin, R, m, trim_inf)` — the class whose `deriv`, `deriv2`, `deriv3` all pass through
  `BaseTransform._convert_inf` — the five generated methods, with the trimming switched on or off, form an admissible
  transform on the open domain `(-1, 1)` with non-vanishing first derivative.  The derivative identities are C03's
  (`Props/C03/HandyRTransform.lean`); they hold because over ℝ the generated `_convert_inf` replaces nothing but ±∞ — a
  `_convert_inf` that truncates finite values is no longer the text those proofs are about.
-/
import GridVerif.Props.C15
import GridVerif.Props.C03.HandyRTransform

namespace GridVerif.C15
open GridVerif GridVerif.Ode GridVerif.Gen.RTransform

/-- The generated methods of `HandyRTransform` as the record `ode.py` reads. -/
noncomputable def handyFns (t : HandyRTransform ℝ) : TransformFns ℝ :=
  ⟨t.transform, t.inverse, t.deriv, t.deriv2, t.deriv3, (t.domain_lo, t.domain_hi)⟩

/-- **The library's Handy transform is admissible for the ODE theorems** on the whole open domain — in particular
arbitrarily close to the singular end `x = 1`, where `r`, `r'`, `r''`, `r'''` exceed every bound — for every accepted
`m > 0`, every `R > 0`, and both values of `trim_inf`. -/
theorem handy_admissible (t : HandyRTransform ℝ) (ht : t.Admissible) (hR : 0 < t.R) :
    Admissible (handyFns t) (Set.Ioo (-1) 1) where
  isOpen := isOpen_Ioo
  d1 := fun x hx => C03.HandyRTransform.hasDerivAt_transform t ht x ((C03.HandyRTransform.interior_iff t x).2 hx)
  d2 := fun x hx => C03.HandyRTransform.hasDerivAt_deriv t ht x ((C03.HandyRTransform.interior_iff t x).2 hx)
  d3 := fun x hx => C03.HandyRTransform.hasDerivAt_deriv2 t ht x ((C03.HandyRTransform.interior_iff t x).2 hx)
  left_inv := fun x hx =>
    C03.HandyRTransform.inverse_transform t ht hR x ((C03.HandyRTransform.interior_iff t x).2 hx)

/-- … and its first derivative does not vanish there (the other standing hypothesis of the C15 theorems). -/
theorem handy_deriv_ne_zero (t : HandyRTransform ℝ) (ht : t.Admissible) (hR : 0 < t.R) :
    ∀ x ∈ Set.Ioo (-1 : ℝ) 1, (handyFns t).deriv x ≠ 0 :=
  fun x hx => (C03.HandyRTransform.deriv_pos t ht hR x ((C03.HandyRTransform.interior_iff t x).2 hx)).ne'

/-- So every theorem of this property applies to the library's Handy map, e.g. the equivalence of the transformed and the
original third-order equation (`transformed_ode_equiv₃`), instantiated with the generated methods. -/
example (t : HandyRTransform ℝ) (ht : t.Admissible) (hR : 0 < t.R) :=
  @transformed_ode_equiv₃ (handyFns t) (Set.Ioo (-1) 1) (handy_admissible t ht hR)

example : ∃ t : HandyRTransform ℝ, t.Admissible ∧ 0 < t.R ∧ t.trim_inf = true :=
  ⟨⟨1 / 10, 3 / 2, 3, true⟩, by simp [HandyRTransform.Admissible], by norm_num, rfl⟩

end GridVerif.C15

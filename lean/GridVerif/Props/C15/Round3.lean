/-
  C15, part 5 (round 3) — statements about the text of `ode.py` carried since round 3:

  * the `if` of `_rearrange_to_explicit_ode` whose body is `warnings.warn(…)` (generated test `rearrangeWarns`): the
    block only warns — the explicit form divides by the *true* leading coefficient inside the warning window too;
  * the whole equation multiplied through by a constant (class 8) and amplitude homogeneity / additivity in the
    right-hand side and the data (class 13), for the generated explicit form and the generated callbacks `func`;
  * the Bell-polynomial loop of `_transform_ode_from_derivs` (generated `coeffBHigh`, `coeffBAny`): it does nothing for
    the orders of the property, and the general text restricted to orders ≤ 3 is the text the other theorems are about;
  * the defaults of the keyword parameters of `solve_ode_ivp` / `solve_ode_bvp` (generated constants).
-/
import GridVerif.Props.C15.Public
import Mathlib.Tactic.NormNum

namespace GridVerif.C15
open GridVerif GridVerif.Ode GridVerif.Gen.Ode

/-! ## 13. The warning block of `_rearrange_to_explicit_ode` only warns -/

/-- The test of the warning block can be evaluated whenever `coeff_b` has a last row (it cannot raise where the value
of the function is defined). -/
theorem rearrangeWarns_evaluates (ys as : List ℝ) (aK f : ℝ) :
    ∃ w, rearrangeWarns ys (as ++ [aK]) f = some w := by
  simp [rearrangeWarns]

/-- A vanishing leading coefficient — the situation the message of the warning describes — makes the test true,
whatever the positive threshold and whether the comparison is strict or not. -/
theorem rearrange_warning_fires_at_zero_leading (ys as : List ℝ) (f : ℝ) :
    rearrangeWarns ys (as ++ [0]) f = some true := by
  simp [rearrangeWarns, Elem.abs]

/-- A leading coefficient of modulus one does not warn. -/
theorem rearrange_warning_silent_at_unit_leading (ys as : List ℝ) (f : ℝ) :
    rearrangeWarns ys (as ++ [1]) f = some false ∧ rearrangeWarns ys (as ++ [-1]) f = some false := by
  constructor <;> simp [rearrangeWarns, Elem.abs] <;> norm_num

/-- **The block only warns.**  Also when the test of the warning block is true (the leading coefficient is inside the
window) and `a_K ≠ 0`, the returned value `v` is the explicit form with the *true* leading coefficient:
`Σ_{k<K} a_k y_k + a_K v = f`.  (The generated `rearrangeToExplicitOde` does not read the test; the translator raises
when the guarded block contains anything besides the one `warnings.warn` call.) -/
theorem rearrange_exact_inside_warning_window (as ys : List ℝ) (aK f : ℝ) (h : ys.length = as.length) (hne : aK ≠ 0)
    (_hw : rearrangeWarns ys (as ++ [aK]) f = some true) :
    ∃ v, rearrangeToExplicitOde ys (as ++ [aK]) f = some v ∧ (List.zipWith (· * ·) as ys).sum + aK * v = f := by
  refine ⟨_, rearrange_eq as ys aK f h, ?_⟩
  field_simp
  ring

/-- Non-vacuity: leading coefficient `10⁻⁴⁰` (far inside the window, not zero): the warning fires and the value is
`(40 − (4·1 + 5·2 + 6·3)) / 10⁻⁴⁰ = 8·10⁴⁰`. -/
example : rearrangeWarns [1, 2, 3] ([4, 5, 6] ++ [(1 / 10 ^ 40 : ℝ)]) 40 = some true ∧
    rearrangeToExplicitOde [1, 2, 3] ([4, 5, 6] ++ [(1 / 10 ^ 40 : ℝ)]) 40 = some (8 * 10 ^ 40) := by
  constructor
  · have h40 : |((10 : ℝ) ^ 40)⁻¹| = (10 ^ 40)⁻¹ := abs_of_pos (by positivity)
    simp [rearrangeWarns, Elem.abs, h40]
    norm_num
  · rw [rearrange_eq [4, 5, 6] [1, 2, 3] _ 40 rfl]; norm_num

/-! ## 14. The equation multiplied through by a constant; homogeneity and additivity in the right-hand side -/

theorem zipWith_scale_left_sum (c : ℝ) : ∀ (as ys : List ℝ),
    (List.zipWith (· * ·) (as.map (c * ·)) ys).sum = c * (List.zipWith (· * ·) as ys).sum
  | [], _ => by simp
  | _ :: _, [] => by simp
  | a :: as, y :: ys => by
    simp only [List.map_cons, List.zipWith_cons_cons, List.sum_cons, zipWith_scale_left_sum c as ys]; ring

theorem zipWith_scale_right_sum (c : ℝ) : ∀ (as ys : List ℝ),
    (List.zipWith (· * ·) as (ys.map (c * ·))).sum = c * (List.zipWith (· * ·) as ys).sum
  | [], _ => by simp
  | _ :: _, [] => by simp
  | a :: as, y :: ys => by
    simp only [List.map_cons, List.zipWith_cons_cons, List.sum_cons, zipWith_scale_right_sum c as ys]; ring

theorem zipWith_add_right_sum : ∀ (as ys zs : List ℝ), ys.length = as.length → zs.length = as.length →
    (List.zipWith (· * ·) as (List.zipWith (· + ·) ys zs)).sum
      = (List.zipWith (· * ·) as ys).sum + (List.zipWith (· * ·) as zs).sum
  | [], _, _, _, _ => by simp
  | _ :: _, [], _, h, _ => by simp at h
  | _ :: _, _ :: _, [], _, h => by simp at h
  | a :: as, y :: ys, z :: zs, h1, h2 => by
    simp only [List.zipWith_cons_cons, List.sum_cons,
      zipWith_add_right_sum as ys zs (by simpa using h1) (by simpa using h2)]; ring

/-- **The whole equation multiplied through by `s ≠ 0`** (all rows of `coeff_b` and the right-hand side): the explicit
form is unchanged, for every magnitude of `s` — in particular when `s·a_K` is inside the warning window. -/
theorem rearrange_scale_invariant (as ys : List ℝ) (aK f s : ℝ) (h : ys.length = as.length) (hs : s ≠ 0) :
    rearrangeToExplicitOde ys ((as ++ [aK]).map (s * ·)) (s * f) = rearrangeToExplicitOde ys (as ++ [aK]) f := by
  have h' : ys.length = (as.map (s * ·)).length := by simpa using h
  rw [List.map_append, List.map_singleton, rearrange_eq _ ys (s * aK) (s * f) h', rearrange_eq as ys aK f h,
    zipWith_scale_left_sum, ← mul_sub, mul_div_mul_left _ _ hs]

/-- **Amplitude homogeneity** of the explicit form: the rows `y` and the right-hand side multiplied by `c` give `c`
times the value (any order, any `c`, no threshold). -/
theorem rearrange_homogeneous (as ys : List ℝ) (aK f c : ℝ) (h : ys.length = as.length) :
    rearrangeToExplicitOde (ys.map (c * ·)) (as ++ [aK]) (c * f)
      = (rearrangeToExplicitOde ys (as ++ [aK]) f).map (c * ·) := by
  rw [rearrange_eq as _ aK (c * f) (by simpa using h), rearrange_eq as ys aK f h, zipWith_scale_right_sum, ← mul_sub,
    mul_div_assoc]
  rfl

/-- **Additivity** of the explicit form in `(y, f)`. -/
theorem rearrange_additive (as ys zs : List ℝ) (aK f g : ℝ) (h1 : ys.length = as.length) (h2 : zs.length = as.length) :
    rearrangeToExplicitOde (List.zipWith (· + ·) ys zs) (as ++ [aK]) (f + g)
      = some ((f - (List.zipWith (· * ·) as ys).sum) / aK + (g - (List.zipWith (· * ·) as zs).sum) / aK) := by
  rw [rearrange_eq as _ aK (f + g) (by simp [h1, h2]), zipWith_add_right_sum as ys zs h1 h2]
  congr 1; ring

/-- The coefficient `s · a_k` as the user would pass it. -/
def scaleCoeff (s : ℝ) : Coeff ℝ → Coeff ℝ
  | .const c => .const (s * c)
  | .fn f => .fn fun x => s * f x

theorem scaleCoeff_at (s : ℝ) (c : Coeff ℝ) (x : ℝ) : (scaleCoeff s c).at x = s * c.at x := by
  cases c <;> rfl

/-- **Callback `func` of `solve_ode_ivp` / `solve_ode_bvp` without a transform, any order**: the equation multiplied
through by `s ≠ 0` gives the same first-order system. -/
theorem ivpFunc_direct_scale_invariant (cs : List (Coeff ℝ)) (cK : Coeff ℝ) (fx : ℝ → ℝ) (x s : ℝ) (ys : List ℝ)
    (h : ys.length = cs.length) (hs : s ≠ 0) :
    ivpFunc ((cs ++ [cK]).map (scaleCoeff s)) none (fun t => s * fx t) x ys = ivpFunc (cs ++ [cK]) none fx x ys := by
  have e1 : evaluateCoeffsOnPoints x ((cs ++ [cK]).map (scaleCoeff s))
      = ((cs.map fun c => c.at x) ++ [cK.at x]).map (s * ·) := by
    simp [evaluateCoeffsOnPoints_eq, scaleCoeff_at]
  have e2 : evaluateCoeffsOnPoints x (cs ++ [cK]) = (cs.map fun c => c.at x) ++ [cK.at x] := by
    simp [evaluateCoeffsOnPoints_eq]
  have hl : ys.length = (cs.map fun c => c.at x).length := by simpa using h
  simp only [ivpFunc, e1, e2, rearrange_scale_invariant (cs.map fun c => c.at x) ys (cK.at x) (fx x) s hl hs]

/-- **Callback `func` without a transform, any order: amplitude homogeneity.**  With the right-hand side and the column
`y` multiplied by `c`, the column of derivatives is multiplied by `c`: the first-order system SciPy integrates is
linear, so `c · Y` solves the system posed for `c · f` with `c ·` the data. -/
theorem ivpFunc_direct_homogeneous (cs : List (Coeff ℝ)) (cK : Coeff ℝ) (fx : ℝ → ℝ) (x c : ℝ) (ys : List ℝ)
    (h : ys.length = cs.length) :
    ivpFunc (cs ++ [cK]) none (fun t => c * fx t) x (ys.map (c * ·))
      = (ivpFunc (cs ++ [cK]) none fx x ys).map (List.map (c * ·)) := by
  have e2 : evaluateCoeffsOnPoints x (cs ++ [cK]) = (cs.map fun c => c.at x) ++ [cK.at x] := by
    simp [evaluateCoeffsOnPoints_eq]
  have hl : ys.length = (cs.map fun c => c.at x).length := by simpa using h
  simp only [ivpFunc, e2, rearrange_homogeneous (cs.map fun c => c.at x) ys (cK.at x) (fx x) c hl,
    rearrange_eq (cs.map fun c => c.at x) ys (cK.at x) (fx x) hl]
  simp

/-- **Callback `func` through a transform, third order: amplitude homogeneity** (coefficients and transform
derivatives at `g⁻¹(r)` as generated). -/
theorem ivpFunc_transformed_homogeneous₃ (tf : TransformFns ℝ) (fx : ℝ → ℝ) (c0 c1 c2 c3 : Coeff ℝ) (r c Y0 Y1 Y2 : ℝ) :
    ivpFunc [c0, c1, c2, c3] (some tf) (fun t => c * fx t) r [c * Y0, c * Y1, c * Y2]
      = (ivpFunc [c0, c1, c2, c3] (some tf) fx r [Y0, Y1, Y2]).map (List.map (c * ·)) := by
  rw [ivpFunc_transformed_3, ivpFunc_transformed_3]
  simp only [Option.map_some, List.map_cons, List.map_nil, Option.some.injEq, List.cons.injEq, and_true, true_and]
  ring

/-- Second and first order. -/
theorem ivpFunc_transformed_homogeneous₂ (tf : TransformFns ℝ) (fx : ℝ → ℝ) (c0 c1 c2 : Coeff ℝ) (r c Y0 Y1 : ℝ) :
    ivpFunc [c0, c1, c2] (some tf) (fun t => c * fx t) r [c * Y0, c * Y1]
      = (ivpFunc [c0, c1, c2] (some tf) fx r [Y0, Y1]).map (List.map (c * ·)) := by
  rw [ivpFunc_transformed_2, ivpFunc_transformed_2]
  simp only [Option.map_some, List.map_cons, List.map_nil, Option.some.injEq, List.cons.injEq, and_true, true_and]
  ring

theorem ivpFunc_transformed_homogeneous₁ (tf : TransformFns ℝ) (fx : ℝ → ℝ) (c0 c1 : Coeff ℝ) (r c Y0 : ℝ) :
    ivpFunc [c0, c1] (some tf) (fun t => c * fx t) r [c * Y0]
      = (ivpFunc [c0, c1] (some tf) fx r [Y0]).map (List.map (c * ·)) := by
  rw [ivpFunc_transformed_1, ivpFunc_transformed_1]
  simp only [Option.map_some, List.map_cons, List.map_nil, Option.some.injEq, List.cons.injEq, and_true]
  ring

/-- **Callback `func` through a transform, third order: the equation multiplied through by `s ≠ 0`** gives the same
first-order system (the rows `coeffB_3_j` are linear in the `a_k`; the common factor cancels against the transformed
leading coefficient `s · a₃ g'³`, however small). -/
theorem ivpFunc_transformed_scale_invariant₃ (tf : TransformFns ℝ) (fx : ℝ → ℝ) (c0 c1 c2 c3 : Coeff ℝ)
    (r s Y0 Y1 Y2 : ℝ) (hs : s ≠ 0) :
    ivpFunc [scaleCoeff s c0, scaleCoeff s c1, scaleCoeff s c2, scaleCoeff s c3] (some tf) (fun t => s * fx t) r [Y0, Y1, Y2]
      = ivpFunc [c0, c1, c2, c3] (some tf) fx r [Y0, Y1, Y2] := by
  rw [ivpFunc_transformed_3, ivpFunc_transformed_3]
  simp only [scaleCoeff_at, coeffB_3_0, coeffB_3_1, coeffB_3_2, coeffB_3_3, npow_eq_pow, Nat.cast_zero, Nat.cast_ofNat,
    Option.some.injEq, List.cons.injEq, and_true, true_and]
  rw [← mul_div_mul_left _ (0 + c3.at (tf.inverse r) * tf.deriv (tf.inverse r) ^ 3) hs]
  congr 1 <;> ring

/-! ## 15. The Bell-polynomial loop of `_transform_ode_from_derivs` (orders above 3) -/

/-- The generated block `if total > n:` of the higher orders does nothing for `len(coeffs) ≤ 4`, i.e. for every order
of the property (it replaces the reading `bellLoopGuard` of round 1 by the text itself).  Nothing is claimed about what
the loop computes for orders above three: that is outside the property (the public functions reject such orders together
with a transform), the loop is carried and compared with the implementation only. -/
theorem coeffBHigh_noop_up_to_order_3 (bell : ℕ → ℕ → ℝ) (a b : List ℝ) (total : ℕ) (h : total ≤ 4) :
    coeffBHigh bell a total b = some b := by
  unfold coeffBHigh
  split
  · rename_i hgt
    simp at hgt
    omega
  · rfl

/-- The text of `_transform_ode_from_derivs` carried for *every* number of coefficients (`coeffBAny`) is, for orders
1–3, the text `coeffB` all other theorems of this property are about. -/
theorem coeffBAny_eq_coeffB (bell : ℕ → ℕ → ℝ) (a : List ℝ) (d0 d1 d2 : ℝ) (h : a.length ≤ 4) :
    coeffBAny bell a d0 d1 d2 = coeffB a d0 d1 d2 := by
  rcases a with _ | ⟨a0, _ | ⟨a1, _ | ⟨a2, _ | ⟨a3, _ | ⟨a4, rest⟩⟩⟩⟩⟩
  · simp [coeffBAny, coeffB]
  · simp [coeffBAny, coeffB]
  · simp [coeffBAny, coeffB, coeffBHigh_noop_up_to_order_3]
  · simp [coeffBAny, coeffB, coeffBHigh_noop_up_to_order_3]
  · simp [coeffBAny, coeffB, coeffBHigh_noop_up_to_order_3]
  · simp at h; omega

theorem transformOdeFromDerivsAny_eq (cs : List (Coeff ℝ)) (fns : List (ℝ → ℝ)) (x : ℝ) (h : cs.length ≤ 4) :
    transformOdeFromDerivsAny cs fns x = transformOdeFromDerivs cs fns x := by
  have key : ∀ d0 d1 d2, coeffBAny (fun n k => bell (seqOfList (fns.map fun dev => dev x)) n k)
      (evaluateCoeffsOnPoints x cs) d0 d1 d2 = coeffB (evaluateCoeffsOnPoints x cs) d0 d1 d2 :=
    fun d0 d1 d2 => coeffBAny_eq_coeffB _ _ _ _ _ (by simpa [evaluateCoeffsOnPoints] using h)
  simp only [transformOdeFromDerivsAny, transformOdeFromDerivs, key]

/-! ## 16. The defaults of the keyword parameters -/

/-- `solve_ode_ivp` called without `no_derivatives` returns the derivative rows too (the default is `False`): the
default call is the call the end-to-end theorem `solve_ode_ivp_correct₃` is about. -/
theorem solve_ode_ivp_default_returns_derivatives
    (solve_ivp : (ℝ → List ℝ → Option (List ℝ)) → List ℝ → List ℝ → SolveResult ℝ)
    (solve : Mat ℝ → List ℝ → List ℝ) (isinf : ℝ → Bool) (span : List ℝ) (fx : ℝ → ℝ) (cs : List (Coeff ℝ))
    (y0 : List ℝ) (tf : Option (TransformFns ℝ)) :
    ivpDefaultNoDerivatives = false ∧
    solveOdeIvpDefault solve_ivp solve isinf span fx cs y0 tf = solveOdeIvp solve_ivp solve isinf span fx cs y0 tf false :=
  ⟨rfl, rfl⟩

/-- `solve_ode_bvp` called without `no_derivatives` returns `y` only when a transform is given (the documented default
`True`): one number per point, row 0 of the dense output at `g(x)`. -/
theorem solve_ode_bvp_default_returns_solution_only
    (solve_bvp : (ℝ → List ℝ → Option (List ℝ)) → (List ℝ → List ℝ → Option (List ℝ)) → List ℝ → SolveResult ℝ)
    (x : List ℝ) (fx : ℝ → ℝ) (cs : List (Coeff ℝ)) (bd : List (ℕ × ℕ × ℝ)) (T : TransformFns ℝ)
    (hlen : bd.length = cs.length - 1) (hord : cs.length - 1 ≤ 3)
    (hstatus : (solve_bvp (ivpFunc cs (some T) fx) (bvpBc bd) (x.map T.transform)).status = 0)
    (pt h : ℝ) (t : List ℝ)
    (hsol : (solve_bvp (ivpFunc cs (some T) fx) (bvpBc bd) (x.map T.transform)).sol (T.transform pt) = h :: t) :
    bvpDefaultNoDerivatives = true ∧
    ∃ F, solveOdeBvpDefault solve_bvp x fx cs bd (some T) = .ok F ∧ F pt = some [h] := by
  refine ⟨rfl, _, solve_ode_bvp_transformed solve_bvp x fx cs bd T true hlen hord hstatus, ?_⟩
  exact transformSolution_noDerivs _ T _ pt h t hsol

/-- The default tolerances handed to SciPy are positive and not looser than the values for which the accuracy and
homogeneity envelopes of the exploration were measured (`rtol = 1e-8`, `atol = 1e-6` for `solve_ivp`; `tol = 1e-4`,
`max_nodes = 5000` for `solve_bvp`). -/
theorem default_tolerances_within_measured_envelope :
    0 < (ivpDefaultRtol : ℝ) ∧ (ivpDefaultRtol : ℝ) ≤ 1 / 10 ^ 8 ∧
    0 < (ivpDefaultAtol : ℝ) ∧ (ivpDefaultAtol : ℝ) ≤ 1 / 10 ^ 6 ∧
    0 < (bvpDefaultTol : ℝ) ∧ (bvpDefaultTol : ℝ) ≤ 1 / 10 ^ 4 ∧ 5000 ≤ bvpDefaultMaxNodes := by
  refine ⟨?_, ?_, ?_, ?_, ?_, ?_, ?_⟩ <;> norm_num [ivpDefaultRtol, ivpDefaultAtol, bvpDefaultTol, bvpDefaultMaxNodes]

end GridVerif.C15

/-
  C15, part 3 — "solving through any admissible transformation gives the same function of the original variable as
  solving directly": uniqueness of the solution of a linear initial-value problem (Grönwall, from Mathlib) applied
  to the two derivative chains of `through_transform_eq_direct_partial`.
-/
import GridVerif.Props.C15.Solve
import Mathlib.Analysis.ODE.Gronwall

namespace GridVerif.C15
open GridVerif GridVerif.Ode GridVerif.Gen.Ode Set

/-- Uniqueness for the linear third-order initial-value problem, in derivative-chain form: two chains
`(y₀, y₁, y₂, y₃)`, `(z₀, z₁, z₂, z₃)` that satisfy `a₀y₀ + a₁y₁ + a₂y₂ + a₃y₃ = f` on `s ⊇ [a, b]`, with continuous
coefficients, `a₃ ≠ 0` on `[a, b]`, and equal values at `a`, agree on `[a, b]`. -/
theorem linear_ivp_unique₃ {s : Set ℝ} {a b : ℝ} (hab : Icc a b ⊆ s) (a0 a1 a2 a3 f : ℝ → ℝ)
    (hc0 : ContinuousOn a0 (Icc a b)) (hc1 : ContinuousOn a1 (Icc a b)) (hc2 : ContinuousOn a2 (Icc a b))
    (hc3 : ContinuousOn a3 (Icc a b)) (hne : ∀ x ∈ Icc a b, a3 x ≠ 0)
    (y0 y1 y2 y3 z0 z1 z2 z3 : ℝ → ℝ)
    (hy : ∀ x ∈ s, HasDerivAt y0 (y1 x) x ∧ HasDerivAt y1 (y2 x) x ∧ HasDerivAt y2 (y3 x) x ∧
      a0 x * y0 x + a1 x * y1 x + a2 x * y2 x + a3 x * y3 x = f x)
    (hz : ∀ x ∈ s, HasDerivAt z0 (z1 x) x ∧ HasDerivAt z1 (z2 x) x ∧ HasDerivAt z2 (z3 x) x ∧
      a0 x * z0 x + a1 x * z1 x + a2 x * z2 x + a3 x * z3 x = f x)
    (h0 : y0 a = z0 a) (h1 : y1 a = z1 a) (h2 : y2 a = z2 a) :
    ∀ x ∈ Icc a b, y0 x = z0 x ∧ y1 x = z1 x ∧ y2 x = z2 x := by
  have hq : ContinuousOn (fun x => (|a0 x| + |a1 x| + |a2 x|) / |a3 x|) (Icc a b) :=
    ((hc0.abs.add hc1.abs).add hc2.abs).div hc3.abs (fun x hx => abs_ne_zero.mpr (hne x hx))
  obtain ⟨C, hC⟩ := isCompact_Icc.exists_bound_of_continuousOn hq
  let D : ℝ → ℝ × ℝ × ℝ := fun x => (y0 x - z0 x, y1 x - z1 x, y2 x - z2 x)
  let D' : ℝ → ℝ × ℝ × ℝ := fun x => (y1 x - z1 x, y2 x - z2 x, y3 x - z3 x)
  have hD : ∀ x ∈ s, HasDerivAt D (D' x) x := fun x hx => by
    obtain ⟨p0, p1, p2, _⟩ := hy x hx
    obtain ⟨q0, q1, q2, _⟩ := hz x hx
    exact (p0.sub q0).prodMk ((p1.sub q1).prodMk (p2.sub q2))
  have hcont : ContinuousOn D (Icc a b) := fun x hx => (hD x (hab hx)).continuousAt.continuousWithinAt
  have bound : ∀ x ∈ Ico a b, ‖D' x‖ ≤ (1 + C) * ‖D x‖ := by
    intro x hx
    have hxI : x ∈ Icc a b := Ico_subset_Icc_self hx
    obtain ⟨_, _, _, ey⟩ := hy x (hab hxI)
    obtain ⟨_, _, _, ez⟩ := hz x (hab hxI)
    have hq0 : 0 ≤ (|a0 x| + |a1 x| + |a2 x|) / |a3 x| := by positivity
    have hCx : (|a0 x| + |a1 x| + |a2 x|) / |a3 x| ≤ C := by
      have := hC x hxI
      rwa [Real.norm_eq_abs, abs_of_nonneg hq0] at this
    have hC0 : 0 ≤ C := hq0.trans hCx
    have n0 : |y0 x - z0 x| ≤ ‖D x‖ := by
      simp only [D, Prod.norm_def, Real.norm_eq_abs]; exact le_max_left _ _
    have n1 : |y1 x - z1 x| ≤ ‖D x‖ := by
      simp only [D, Prod.norm_def, Real.norm_eq_abs]
      exact le_trans (le_max_left _ _) (le_max_right _ _)
    have n2 : |y2 x - z2 x| ≤ ‖D x‖ := by
      simp only [D, Prod.norm_def, Real.norm_eq_abs]
      exact le_trans (le_max_right _ _) (le_max_right _ _)
    have hDn : 0 ≤ ‖D x‖ := norm_nonneg _
    have ha3 : 0 < |a3 x| := abs_pos.mpr (hne x hxI)
    -- the third component
    have e3 : a3 x * (y3 x - z3 x)
        = -(a0 x * (y0 x - z0 x) + a1 x * (y1 x - z1 x) + a2 x * (y2 x - z2 x)) := by linarith
    have n3 : |y3 x - z3 x| ≤ C * ‖D x‖ := by
      have h1 : |a3 x| * |y3 x - z3 x| ≤ (|a0 x| + |a1 x| + |a2 x|) * ‖D x‖ := by
        rw [← abs_mul, e3, abs_neg]
        calc |a0 x * (y0 x - z0 x) + a1 x * (y1 x - z1 x) + a2 x * (y2 x - z2 x)|
            ≤ |a0 x * (y0 x - z0 x)| + |a1 x * (y1 x - z1 x)| + |a2 x * (y2 x - z2 x)| := abs_add_three _ _ _
          _ = |a0 x| * |y0 x - z0 x| + |a1 x| * |y1 x - z1 x| + |a2 x| * |y2 x - z2 x| := by
              simp only [abs_mul]
          _ ≤ |a0 x| * ‖D x‖ + |a1 x| * ‖D x‖ + |a2 x| * ‖D x‖ := by
              gcongr
          _ = (|a0 x| + |a1 x| + |a2 x|) * ‖D x‖ := by ring
      have h2 : |y3 x - z3 x| ≤ (|a0 x| + |a1 x| + |a2 x|) / |a3 x| * ‖D x‖ := by
        rw [div_mul_eq_mul_div, le_div_iff₀ ha3]; linarith
      exact h2.trans (mul_le_mul_of_nonneg_right hCx hDn)
    have hK1 : ‖D x‖ ≤ (1 + C) * ‖D x‖ := by nlinarith
    have hK2 : C * ‖D x‖ ≤ (1 + C) * ‖D x‖ := by nlinarith
    simp only [D', Prod.norm_def, Real.norm_eq_abs]
    exact max_le (n1.trans hK1) (max_le (n2.trans hK1) (n3.trans hK2))
  have hzero := eq_zero_of_abs_deriv_le_mul_abs_self_of_eq_zero_right hcont
    (fun x hx => (hD x (hab (Ico_subset_Icc_self hx))).hasDerivWithinAt)
    (by simp [D, h0, h1, h2]) bound
  intro x hx
  have := hzero x hx
  simp only [D, Prod.mk_eq_zero, sub_eq_zero] at this
  exact this

/-- **Through a transform = directly** (`through_transform_eq_direct_full`, order 3): with exact integrators on
both routes and continuous coefficients (leading coefficient and `g'` non-vanishing), the callable returned
through an admissible transform has, at every point of `[a, b]`, exactly the rows of the directly computed one. -/
theorem through_transform_eq_direct : through_transform_eq_direct_full := by
  intro T s a b hT hab hne hda hle hdb c0 c1 c2 c3 f hc0 hc1 hc2 hc3 ha solve Y0 Y1 Y2 Z0 Z1 Z2 d0 d1 d2 hsolve hY hZ
    hY0 hZ0
  have has : a ∈ s := hab (left_mem_Icc.mpr hle)
  obtain ⟨y0, y1, y2, y3, z3, hret, hy, hz, hya, hza⟩ :=
    through_transform_eq_direct_partial (b := b) hT has hne hda (hda.trans hle) (hle.trans hdb) hdb c0 c1 c2 c3 f ha
      solve Y0 Y1 Y2 Z0 Z1 Z2 d0 d1 d2 hsolve hY hZ hY0 hZ0
  rw [← hza] at hya
  simp only [List.cons.injEq, and_true] at hya
  have := linear_ivp_unique₃ hab (fun x => c0.at x) (fun x => c1.at x) (fun x => c2.at x)
    (fun x => c3.at x) f hc0 hc1 hc2 hc3 (fun x hx => ha x (hab hx)) y0 y1 y2 y3 Z0 Z1 Z2 z3 hy hz
    hya.1 hya.2.1 hya.2.2
  intro x hx
  obtain ⟨e0, e1, e2⟩ := this x hx
  rw [hret x, e0, e1, e2]

/-- Non-vacuity of `through_transform_eq_direct`: `g = exp`, `[a, b] = [0, 1]`, third-order ODE with right-hand side
`8e^{2x}` and leading coefficient 1, `y(0) = 1, y'(0) = 2, y''(0) = 4`; through the transform the integrator's exact
output is `r², 2r, 2`, directly it is `e^{2x}, 2e^{2x}, 4e^{2x}`; all hypotheses hold, hence the returned rows
coincide on `[0, 1]`. -/
example : ∀ x ∈ Icc (0 : ℝ) 1,
    transformSolutionToOriginalDomain (okResult fun r => [r ^ 2, 2 * r, 2]) expT false 3 x
      = some [Real.exp (2 * x), 2 * Real.exp (2 * x), 4 * Real.exp (2 * x)] := by
  have hd : ∀ x : ℝ, HasDerivAt (fun t => Real.exp (2 * t)) (2 * Real.exp (2 * x)) x := fun x => by
    simpa [mul_comm] using ((hasDerivAt_id x).const_mul (2 : ℝ)).exp
  have hdm : expT.domain = (-1000, 1000) := rfl
  obtain ⟨k00, k01, k10, k11⟩ := derivMatrixAt_2 expT 0
  refine through_transform_eq_direct expT Set.univ 0 1 expT_admissible (Set.subset_univ _)
    (fun x _ => (Real.exp_pos x).ne') (by rw [hdm]; norm_num) (by norm_num) (by rw [hdm]; norm_num)
    (.const 0) (.const 0) (.const 0) (.const 1) (fun x => 8 * Real.exp (2 * x))
    (by simp [Coeff.at]; exact continuousOn_const) (by simp [Coeff.at]; exact continuousOn_const)
    (by simp [Coeff.at]; exact continuousOn_const) (by simp [Coeff.at]; exact continuousOn_const)
    (fun x _ => by simp [Coeff.at]) forwardSolve
    (fun r => r ^ 2) (fun r => 2 * r) (fun _ => 2)
    (fun x => Real.exp (2 * x)) (fun x => 2 * Real.exp (2 * x)) (fun x => 4 * Real.exp (2 * x)) 1 2 4
    (forwardSolve_solves expT 0 (Real.exp_pos _).ne' 2 4 0).2.1 ?_ ?_ ?_ ?_
  · intro x _
    refine ⟨2 * expT.transform x, 2, 0, ?_, by simpa using hasDerivAt_pow 2 (expT.transform x),
      by simpa using (hasDerivAt_id (expT.transform x)).const_mul (2 : ℝ), hasDerivAt_const _ _⟩
    rw [ivpFunc_transformed_3]
    have e2 : Real.exp (2 * x) = Real.exp x ^ 2 := by rw [← Real.exp_nat_mul]; norm_num
    have hpos := (Real.exp_pos x).ne'
    simp only [expT, Real.log_exp, Coeff.at, coeffB_3_0, coeffB_3_1, coeffB_3_2, coeffB_3_3, npow_eq_pow,
      Nat.cast_zero, Nat.cast_ofNat, e2, Option.some.injEq, List.cons.injEq, and_true, true_and]
    field_simp
    ring
  · intro x _
    refine ⟨2 * Real.exp (2 * x), 4 * Real.exp (2 * x), 8 * Real.exp (2 * x), ?_, hd x,
      ((hd x).const_mul 2).congr_deriv (by ring), ((hd x).const_mul 4).congr_deriv (by ring)⟩
    rw [ivpFunc_direct_3]
    simp [Coeff.at]
  · rw [ivpTransformSetup_eq forwardSolve expT 0 1 1 [2, 4] 3 (by omega) (by rw [hdm]; norm_num)
      (by rw [hdm]; norm_num) (by rw [hdm]; norm_num) (by rw [hdm]; norm_num)]
    simp only [Nat.add_one_sub_one, forwardSolve_two, k00, k10, k11]
    simp only [expT, Real.exp_zero]
    norm_num
  · simp

/-! ### orders 1 and 2 -/

/-- Direct branch, order 1. -/
theorem direct_contract_gives_solution₁ {s : Set ℝ} (c0 c1 : Coeff ℝ) (f : ℝ → ℝ)
    (ha : ∀ x ∈ s, c1.at x ≠ 0) (Y0 : ℝ → ℝ)
    (hsol : ∀ x ∈ s, ∃ D0, ivpFunc [c0, c1] none f x [Y0 x] = some [D0] ∧ HasDerivAt Y0 D0 x) :
    ∀ x ∈ s, ∃ y1, HasDerivAt Y0 y1 x ∧ c0.at x * Y0 x + c1.at x * y1 = f x := by
  intro x hx
  obtain ⟨D0, hD, h0⟩ := hsol x hx
  rw [ivpFunc_direct_1] at hD
  simp only [Option.some.injEq, List.cons.injEq, and_true] at hD
  subst hD
  refine ⟨_, h0, ?_⟩
  have := ha x hx
  field_simp
  ring

/-- Direct branch, order 2. -/
theorem direct_contract_gives_solution₂ {s : Set ℝ} (c0 c1 c2 : Coeff ℝ) (f : ℝ → ℝ)
    (ha : ∀ x ∈ s, c2.at x ≠ 0) (Y0 Y1 : ℝ → ℝ)
    (hsol : ∀ x ∈ s, ∃ D0 D1, ivpFunc [c0, c1, c2] none f x [Y0 x, Y1 x] = some [D0, D1] ∧
      HasDerivAt Y0 D0 x ∧ HasDerivAt Y1 D1 x) :
    ∀ x ∈ s, HasDerivAt Y0 (Y1 x) x ∧ ∃ y2, HasDerivAt Y1 y2 x ∧
      c0.at x * Y0 x + c1.at x * Y1 x + c2.at x * y2 = f x := by
  intro x hx
  obtain ⟨D0, D1, hD, h0, h1⟩ := hsol x hx
  rw [ivpFunc_direct_2] at hD
  simp only [Option.some.injEq, List.cons.injEq, and_true] at hD
  obtain ⟨rfl, rfl⟩ := hD
  refine ⟨h0, _, h1, ?_⟩
  have := ha x hx
  field_simp
  ring

/-- Uniqueness, order 1. -/
theorem linear_ivp_unique₁ {s : Set ℝ} {a b : ℝ} (hab : Icc a b ⊆ s) (a0 a1 f : ℝ → ℝ)
    (hc0 : ContinuousOn a0 (Icc a b)) (hc1 : ContinuousOn a1 (Icc a b)) (hne : ∀ x ∈ Icc a b, a1 x ≠ 0)
    (y0 y1 z0 z1 : ℝ → ℝ)
    (hy : ∀ x ∈ s, HasDerivAt y0 (y1 x) x ∧ a0 x * y0 x + a1 x * y1 x = f x)
    (hz : ∀ x ∈ s, HasDerivAt z0 (z1 x) x ∧ a0 x * z0 x + a1 x * z1 x = f x)
    (h0 : y0 a = z0 a) : ∀ x ∈ Icc a b, y0 x = z0 x := by
  have hq : ContinuousOn (fun x => |a0 x| / |a1 x|) (Icc a b) :=
    hc0.abs.div hc1.abs (fun x hx => abs_ne_zero.mpr (hne x hx))
  obtain ⟨C, hC⟩ := isCompact_Icc.exists_bound_of_continuousOn hq
  have hD : ∀ x ∈ s, HasDerivAt (fun x => y0 x - z0 x) (y1 x - z1 x) x := fun x hx =>
    (hy x hx).1.sub (hz x hx).1
  have hcont : ContinuousOn (fun x => y0 x - z0 x) (Icc a b) :=
    fun x hx => (hD x (hab hx)).continuousAt.continuousWithinAt
  have bound : ∀ x ∈ Ico a b, ‖y1 x - z1 x‖ ≤ C * ‖y0 x - z0 x‖ := by
    intro x hx
    have hxI : x ∈ Icc a b := Ico_subset_Icc_self hx
    have ey := (hy x (hab hxI)).2
    have ez := (hz x (hab hxI)).2
    have hq0 : 0 ≤ |a0 x| / |a1 x| := by positivity
    have hCx : |a0 x| / |a1 x| ≤ C := by
      have := hC x hxI
      rwa [Real.norm_eq_abs, abs_of_nonneg hq0] at this
    have ha1 : 0 < |a1 x| := abs_pos.mpr (hne x hxI)
    have e1 : a1 x * (y1 x - z1 x) = -(a0 x * (y0 x - z0 x)) := by linarith
    have h1 : |a1 x| * |y1 x - z1 x| = |a0 x| * |y0 x - z0 x| := by
      rw [← abs_mul, e1, abs_neg, abs_mul]
    have h2 : |y1 x - z1 x| = |a0 x| / |a1 x| * |y0 x - z0 x| := by
      rw [div_mul_eq_mul_div, eq_div_iff ha1.ne']; linarith
    rw [Real.norm_eq_abs, Real.norm_eq_abs, h2]
    exact mul_le_mul_of_nonneg_right hCx (abs_nonneg _)
  have hzero := eq_zero_of_abs_deriv_le_mul_abs_self_of_eq_zero_right hcont
    (fun x hx => (hD x (hab (Ico_subset_Icc_self hx))).hasDerivWithinAt) (by simp [h0]) bound
  intro x hx
  exact sub_eq_zero.mp (hzero x hx)

/-- Uniqueness, order 2. -/
theorem linear_ivp_unique₂ {s : Set ℝ} {a b : ℝ} (hab : Icc a b ⊆ s) (a0 a1 a2 f : ℝ → ℝ)
    (hc0 : ContinuousOn a0 (Icc a b)) (hc1 : ContinuousOn a1 (Icc a b)) (hc2 : ContinuousOn a2 (Icc a b))
    (hne : ∀ x ∈ Icc a b, a2 x ≠ 0) (y0 y1 y2 z0 z1 z2 : ℝ → ℝ)
    (hy : ∀ x ∈ s, HasDerivAt y0 (y1 x) x ∧ HasDerivAt y1 (y2 x) x ∧
      a0 x * y0 x + a1 x * y1 x + a2 x * y2 x = f x)
    (hz : ∀ x ∈ s, HasDerivAt z0 (z1 x) x ∧ HasDerivAt z1 (z2 x) x ∧
      a0 x * z0 x + a1 x * z1 x + a2 x * z2 x = f x)
    (h0 : y0 a = z0 a) (h1 : y1 a = z1 a) : ∀ x ∈ Icc a b, y0 x = z0 x ∧ y1 x = z1 x := by
  -- pad to a third-order problem `0·y''' ... ` is not possible (leading coefficient); argue directly
  have hq : ContinuousOn (fun x => (|a0 x| + |a1 x|) / |a2 x|) (Icc a b) :=
    (hc0.abs.add hc1.abs).div hc2.abs (fun x hx => abs_ne_zero.mpr (hne x hx))
  obtain ⟨C, hC⟩ := isCompact_Icc.exists_bound_of_continuousOn hq
  let D : ℝ → ℝ × ℝ := fun x => (y0 x - z0 x, y1 x - z1 x)
  let D' : ℝ → ℝ × ℝ := fun x => (y1 x - z1 x, y2 x - z2 x)
  have hD : ∀ x ∈ s, HasDerivAt D (D' x) x := fun x hx => by
    obtain ⟨p0, p1, _⟩ := hy x hx
    obtain ⟨q0, q1, _⟩ := hz x hx
    exact (p0.sub q0).prodMk (p1.sub q1)
  have hcont : ContinuousOn D (Icc a b) := fun x hx => (hD x (hab hx)).continuousAt.continuousWithinAt
  have bound : ∀ x ∈ Ico a b, ‖D' x‖ ≤ (1 + C) * ‖D x‖ := by
    intro x hx
    have hxI : x ∈ Icc a b := Ico_subset_Icc_self hx
    obtain ⟨_, _, ey⟩ := hy x (hab hxI)
    obtain ⟨_, _, ez⟩ := hz x (hab hxI)
    have hq0 : 0 ≤ (|a0 x| + |a1 x|) / |a2 x| := by positivity
    have hCx : (|a0 x| + |a1 x|) / |a2 x| ≤ C := by
      have := hC x hxI
      rwa [Real.norm_eq_abs, abs_of_nonneg hq0] at this
    have hC0 : 0 ≤ C := hq0.trans hCx
    have n0 : |y0 x - z0 x| ≤ ‖D x‖ := by
      simp only [D, Prod.norm_def, Real.norm_eq_abs]; exact le_max_left _ _
    have n1 : |y1 x - z1 x| ≤ ‖D x‖ := by
      simp only [D, Prod.norm_def, Real.norm_eq_abs]; exact le_max_right _ _
    have hDn : 0 ≤ ‖D x‖ := norm_nonneg _
    have ha2 : 0 < |a2 x| := abs_pos.mpr (hne x hxI)
    have e2 : a2 x * (y2 x - z2 x) = -(a0 x * (y0 x - z0 x) + a1 x * (y1 x - z1 x)) := by linarith
    have n2 : |y2 x - z2 x| ≤ C * ‖D x‖ := by
      have h1 : |a2 x| * |y2 x - z2 x| ≤ (|a0 x| + |a1 x|) * ‖D x‖ := by
        rw [← abs_mul, e2, abs_neg]
        calc |a0 x * (y0 x - z0 x) + a1 x * (y1 x - z1 x)|
            ≤ |a0 x * (y0 x - z0 x)| + |a1 x * (y1 x - z1 x)| := abs_add_le _ _
          _ = |a0 x| * |y0 x - z0 x| + |a1 x| * |y1 x - z1 x| := by simp only [abs_mul]
          _ ≤ |a0 x| * ‖D x‖ + |a1 x| * ‖D x‖ := by gcongr
          _ = (|a0 x| + |a1 x|) * ‖D x‖ := by ring
      have h2 : |y2 x - z2 x| ≤ (|a0 x| + |a1 x|) / |a2 x| * ‖D x‖ := by
        rw [div_mul_eq_mul_div, le_div_iff₀ ha2]; linarith
      exact h2.trans (mul_le_mul_of_nonneg_right hCx hDn)
    have hK1 : ‖D x‖ ≤ (1 + C) * ‖D x‖ := by nlinarith
    have hK2 : C * ‖D x‖ ≤ (1 + C) * ‖D x‖ := by nlinarith
    simp only [D', Prod.norm_def, Real.norm_eq_abs]
    exact max_le (n1.trans hK1) (n2.trans hK2)
  have hzero := eq_zero_of_abs_deriv_le_mul_abs_self_of_eq_zero_right hcont
    (fun x hx => (hD x (hab (Ico_subset_Icc_self hx))).hasDerivWithinAt) (by simp [D, h0, h1]) bound
  intro x hx
  have := hzero x hx
  simp only [D, Prod.mk_eq_zero, sub_eq_zero] at this
  exact this

/-- **Through a transform = directly, order 1** (the initial-data mapping of a first-order problem is the identity:
`ivpTransformSetup … [d0] … = (…, [d0])`, see `ivpTransformSetup_eq`). -/
theorem through_transform_eq_direct₁ {T : TransformFns ℝ} {s : Set ℝ} {a b : ℝ} (hT : Admissible T s)
    (hab : Icc a b ⊆ s) (hne : ∀ x ∈ s, T.deriv x ≠ 0) (c0 c1 : Coeff ℝ) (f : ℝ → ℝ)
    (hc0 : ContinuousOn (fun x => c0.at x) (Icc a b)) (hc1 : ContinuousOn (fun x => c1.at x) (Icc a b))
    (ha : ∀ x ∈ s, c1.at x ≠ 0) (Y0 Z0 : ℝ → ℝ) (d0 : ℝ)
    (hY : ∀ x ∈ s, ∃ D0, ivpFunc [c0, c1] (some T) f (T.transform x) [Y0 (T.transform x)] = some [D0] ∧
      HasDerivAt Y0 D0 (T.transform x))
    (hZ : ∀ x ∈ s, ∃ D0, ivpFunc [c0, c1] none f x [Z0 x] = some [D0] ∧ HasDerivAt Z0 D0 x)
    (hY0 : Y0 (T.transform a) = d0) (hZ0 : Z0 a = d0) :
    ∀ x ∈ Icc a b, transformSolutionToOriginalDomain (okResult fun r => [Y0 r]) T false 1 x = some [Z0 x] := by
  obtain ⟨y0, y1, hret, hy⟩ := transformed_contract_gives_solution₁ hT hne c0 c1 f ha Y0 hY
  have hdir := direct_contract_gives_solution₁ c0 c1 f ha Z0 hZ
  choose! z1 hz1 using hdir
  intro x hx
  have hle : a ≤ b := hx.1.trans hx.2
  have e0 : y0 a = Z0 a := by
    have h := (hret a).symm.trans (returned_rows₁ T (okResult fun r => [Y0 r]) a (Y0 (T.transform a)) rfl)
    simp only [Option.some.injEq, List.cons.injEq, and_true] at h
    rw [h, hY0, hZ0]
  have := linear_ivp_unique₁ hab (fun x => c0.at x) (fun x => c1.at x) f hc0 hc1
    (fun x hx => ha x (hab hx)) y0 y1 Z0 z1 hy hz1 e0 x hx
  rw [hret x, this]

/-- **Through a transform = directly, order 2.** -/
theorem through_transform_eq_direct₂ {T : TransformFns ℝ} {s : Set ℝ} {a b : ℝ} (hT : Admissible T s)
    (hab : Icc a b ⊆ s) (hne : ∀ x ∈ s, T.deriv x ≠ 0) (c0 c1 c2 : Coeff ℝ) (f : ℝ → ℝ)
    (hc0 : ContinuousOn (fun x => c0.at x) (Icc a b)) (hc1 : ContinuousOn (fun x => c1.at x) (Icc a b))
    (hc2 : ContinuousOn (fun x => c2.at x) (Icc a b))
    (ha : ∀ x ∈ s, c2.at x ≠ 0) (Y0 Y1 Z0 Z1 : ℝ → ℝ) (d0 d1 : ℝ)
    (hY : ∀ x ∈ s, ∃ D0 D1, ivpFunc [c0, c1, c2] (some T) f (T.transform x)
        [Y0 (T.transform x), Y1 (T.transform x)] = some [D0, D1] ∧
      HasDerivAt Y0 D0 (T.transform x) ∧ HasDerivAt Y1 D1 (T.transform x))
    (hZ : ∀ x ∈ s, ∃ D0 D1, ivpFunc [c0, c1, c2] none f x [Z0 x, Z1 x] = some [D0, D1] ∧
      HasDerivAt Z0 D0 x ∧ HasDerivAt Z1 D1 x)
    (hda : T.domain.1 ≤ a) (hdb : b ≤ T.domain.2) (solve : Mat ℝ → List ℝ → List ℝ)
    (hsolve : matVec (derivMatrixAt T a 1) (solve (derivMatrixAt T a 1) [d1]) = [d1])
    (hY0 : ivpTransformSetup solve noInf [a, b] [d0, d1] T 2
      = .ok ([T.transform a, T.transform b], [Y0 (T.transform a), Y1 (T.transform a)]))
    (hZ0 : [Z0 a, Z1 a] = [d0, d1]) :
    ∀ x ∈ Icc a b, transformSolutionToOriginalDomain (okResult fun r => [Y0 r, Y1 r]) T false 2 x = some [Z0 x, Z1 x] := by
  obtain ⟨y0, y1, y2, hret, hy⟩ := transformed_contract_gives_solution₂ hT hne c0 c1 c2 f ha Y0 Y1 hY
  have hdir := direct_contract_gives_solution₂ c0 c1 c2 f ha Z0 Z1 hZ
  choose! z2 hz2 using fun x hx => (hdir x hx).2
  intro x hx
  have hle : a ≤ b := hx.1.trans hx.2
  obtain ⟨init, h1, h2⟩ := ivp_initial_conditions_of_contract solve T a b hda (hda.trans hle) (hle.trans hdb) hdb
    d0 [d1] (by simp) hsolve
  have h1' : ivpTransformSetup solve noInf [a, b] [d0, d1] T 2 = .ok ([T.transform a, T.transform b], init) := h1
  rw [h1'] at hY0
  simp only [Except.ok.injEq, Prod.mk.injEq, true_and] at hY0
  have h3 : transformSolutionToOriginalDomain (okResult fun r => [Y0 r, Y1 r]) T false 2 a = some [d0, d1] :=
    h2 (okResult fun r => [Y0 r, Y1 r]) (by simp [okResult, hY0])
  have e := Option.some.inj ((hret a).symm.trans h3)
  rw [← hZ0] at e
  simp only [List.cons.injEq, and_true] at e
  have := linear_ivp_unique₂ hab (fun x => c0.at x) (fun x => c1.at x) (fun x => c2.at x) f
    hc0 hc1 hc2 (fun x hx => ha x (hab hx)) y0 y1 y2 Z0 Z1 z2 hy
    (fun x hx => ⟨(hdir x hx).1, hz2 x hx⟩) e.1 e.2 x hx
  rw [hret x, this.1, this.2]

end GridVerif.C15

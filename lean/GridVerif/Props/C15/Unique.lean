/-
  C15, part 3 — "solving through any admissible transformation gives the same function of the original variable as
  solving directly": uniqueness of the solution of a linear initial-value problem (Grönwall, from Mathlib) applied
  to the two derivative chains of `through_transform_eq_direct_partial`.
-/
import GridVerif.Props.C15.Solve
import Mathlib.Analysis.ODE.Gronwall

namespace GridVerif.C15
open GridVerif GridVerif.Ode GridVerif.Gen.Ode Set

/-- Uniqueness for the linear third-order initial-value problem, in derivative-chain form: two chains
`(y₀, y₁, y₂, y₃)`, `(z₀, z₁, z₂, z₃)` that satisfy `a₀y₀ + a₁y₁ + a₂y₂ + a₃y₃ = f` on `s ⊇ [a, b]`, with continuous
coefficients, `a₃ ≠ 0` on `[a, b]`, and equal values at `a`, agree on `[a, b]`. -/
theorem linear_ivp_unique₃ {s : Set ℝ} {a b : ℝ} (hab : Icc a b ⊆ s) (a0 a1 a2 a3 f : ℝ → ℝ)
    (hc0 : ContinuousOn a0 (Icc a b)) (hc1 : ContinuousOn a1 (Icc a b)) (hc2 : ContinuousOn a2 (Icc a b))
    (hc3 : ContinuousOn a3 (Icc a b)) (hne : ∀ x ∈ Icc a b, a3 x ≠ 0)
    (y0 y1 y2 y3 z0 z1 z2 z3 : ℝ → ℝ)
    (hy : ∀ x ∈ s, HasDerivAt y0 (y1 x) x ∧ HasDerivAt y1 (y2 x) x ∧ HasDerivAt y2 (y3 x) x ∧
      a0 x * y0 x + a1 x * y1 x + a2 x * y2 x + a3 x * y3 x = f x)
    (hz : ∀ x ∈ s, HasDerivAt z0 (z1 x) x ∧ HasDerivAt z1 (z2 x) x ∧ HasDerivAt z2 (z3 x) x ∧
      a0 x * z0 x + a1 x * z1 x + a2 x * z2 x + a3 x * z3 x = f x)
    (h0 : y0 a = z0 a) (h1 : y1 a = z1 a) (h2 : y2 a = z2 a) :
    ∀ x ∈ Icc a b, y0 x = z0 x ∧ y1 x = z1 x ∧ y2 x = z2 x := by
  have hq : ContinuousOn (fun x => (|a0 x| + |a1 x| + |a2 x|) / |a3 x|) (Icc a b) :=
    ((hc0.abs.add hc1.abs).add hc2.abs).div hc3.abs (fun x hx => abs_ne_zero.mpr (hne x hx))
  obtain ⟨C, hC⟩ := isCompact_Icc.exists_bound_of_continuousOn hq
  let D : ℝ → ℝ × ℝ × ℝ := fun x => (y0 x - z0 x, y1 x - z1 x, y2 x - z2 x)
  let D' : ℝ → ℝ × ℝ × ℝ := fun x => (y1 x - z1 x, y2 x - z2 x, y3 x - z3 x)
  have hD : ∀ x ∈ s, HasDerivAt D (D' x) x := fun x hx => by
    obtain ⟨p0, p1, p2, _⟩ := hy x hx
    obtain ⟨q0, q1, q2, _⟩ := hz x hx
    exact (p0.sub q0).prodMk ((p1.sub q1).prodMk (p2.sub q2))
  have hcont : ContinuousOn D (Icc a b) := fun x hx => (hD x (hab hx)).continuousAt.continuousWithinAt
  have bound : ∀ x ∈ Ico a b, ‖D' x‖ ≤ (1 + C) * ‖D x‖ := by
    intro x hx
    have hxI : x ∈ Icc a b := Ico_subset_Icc_self hx
    obtain ⟨_, _, _, ey⟩ := hy x (hab hxI)
    obtain ⟨_, _, _, ez⟩ := hz x (hab hxI)
    have hq0 : 0 ≤ (|a0 x| + |a1 x| + |a2 x|) / |a3 x| := by positivity
    have hCx : (|a0 x| + |a1 x| + |a2 x|) / |a3 x| ≤ C := by
      have := hC x hxI
      rwa [Real.norm_eq_abs, abs_of_nonneg hq0] at this
    have hC0 : 0 ≤ C := hq0.trans hCx
    have n0 : |y0 x - z0 x| ≤ ‖D x‖ := by
      simp only [D, Prod.norm_def, Real.norm_eq_abs]; exact le_max_left _ _
    have n1 : |y1 x - z1 x| ≤ ‖D x‖ := by
      simp only [D, Prod.norm_def, Real.norm_eq_abs]
      exact le_trans (le_max_left _ _) (le_max_right _ _)
    have n2 : |y2 x - z2 x| ≤ ‖D x‖ := by
      simp only [D, Prod.norm_def, Real.norm_eq_abs]
      exact le_trans (le_max_right _ _) (le_max_right _ _)
    have hDn : 0 ≤ ‖D x‖ := norm_nonneg _
    have ha3 : 0 < |a3 x| := abs_pos.mpr (hne x hxI)
    -- the third component
    have e3 : a3 x * (y3 x - z3 x)
        = -(a0 x * (y0 x - z0 x) + a1 x * (y1 x - z1 x) + a2 x * (y2 x - z2 x)) := by linarith
    have n3 : |y3 x - z3 x| ≤ C * ‖D x‖ := by
      have h1 : |a3 x| * |y3 x - z3 x| ≤ (|a0 x| + |a1 x| + |a2 x|) * ‖D x‖ := by
        rw [← abs_mul, e3, abs_neg]
        calc |a0 x * (y0 x - z0 x) + a1 x * (y1 x - z1 x) + a2 x * (y2 x - z2 x)|
            ≤ |a0 x * (y0 x - z0 x)| + |a1 x * (y1 x - z1 x)| + |a2 x * (y2 x - z2 x)| := abs_add_three _ _ _
          _ = |a0 x| * |y0 x - z0 x| + |a1 x| * |y1 x - z1 x| + |a2 x| * |y2 x - z2 x| := by
              simp only [abs_mul]
          _ ≤ |a0 x| * ‖D x‖ + |a1 x| * ‖D x‖ + |a2 x| * ‖D x‖ := by
              gcongr
          _ = (|a0 x| + |a1 x| + |a2 x|) * ‖D x‖ := by ring
      have h2 : |y3 x - z3 x| ≤ (|a0 x| + |a1 x| + |a2 x|) / |a3 x| * ‖D x‖ := by
        rw [div_mul_eq_mul_div, le_div_iff₀ ha3]; linarith
      exact h2.trans (mul_le_mul_of_nonneg_right hCx hDn)
    have hK1 : ‖D x‖ ≤ (1 + C) * ‖D x‖ := by nlinarith
    have hK2 : C * ‖D x‖ ≤ (1 + C) * ‖D x‖ := by nlinarith
    simp only [D', Prod.norm_def, Real.norm_eq_abs]
    exact max_le (n1.trans hK1) (max_le (n2.trans hK1) (n3.trans hK2))
  have hzero := eq_zero_of_abs_deriv_le_mul_abs_self_of_eq_zero_right hcont
    (fun x hx => (hD x (hab (Ico_subset_Icc_self hx))).hasDerivWithinAt)
    (by simp [D, h0, h1, h2]) bound
  intro x hx
  have := hzero x hx
  simp only [D, Prod.mk_eq_zero, sub_eq_zero] at this
  exact this

/-- **Through a transform = directly** (`through_transform_eq_direct_full`, order 3): with exact integrators on
both routes and continuous coefficients (leading coefficient and `g'` non-vanishing), the callable returned
through an admissible transform has, at every point of `[a, b]`, exactly the rows of the directly computed one. -/
theorem through_transform_eq_direct : through_transform_eq_direct_full := by
  intro T s a b hT hab hne c0 c1 c2 c3 f hc0 hc1 hc2 hc3 ha Y0 Y1 Y2 Z0 Z1 Z2 d0 d1 d2 hY hZ hY0 hZ0
  by_cases hle : a ≤ b
  · have has : a ∈ s := hab (left_mem_Icc.mpr hle)
    obtain ⟨y0, y1, y2, y3, z3, hret, hy, hz, hya, hza⟩ :=
      through_transform_eq_direct_partial hT has hne c0 c1 c2 c3 f ha Y0 Y1 Y2 Z0 Z1 Z2 d0 d1 d2 hY hZ hY0 hZ0
    rw [← hza] at hya
    simp only [List.cons.injEq, and_true] at hya
    have := linear_ivp_unique₃ hab (fun x => evalCoeff x c0) (fun x => evalCoeff x c1) (fun x => evalCoeff x c2)
      (fun x => evalCoeff x c3) f hc0 hc1 hc2 hc3 (fun x hx => ha x (hab hx)) y0 y1 y2 y3 Z0 Z1 Z2 z3 hy hz
      hya.1 hya.2.1 hya.2.2
    intro x hx
    obtain ⟨e0, e1, e2⟩ := this x hx
    rw [hret x, e0, e1, e2]
  · intro x hx
    exact absurd (hx.1.trans hx.2) hle

/-- Non-vacuity of `through_transform_eq_direct`: `g = exp`, `[a, b] = [0, 1]`, third-order ODE with right-hand side
`8e^{2x}` and leading coefficient 1, `y(0) = 1, y'(0) = 2, y''(0) = 4`; through the transform the integrator's exact
output is `r², 2r, 2`, directly it is `e^{2x}, 2e^{2x}, 4e^{2x}`; all hypotheses hold, hence the returned rows
coincide on `[0, 1]`. -/
example : ∀ x ∈ Icc (0 : ℝ) 1,
    returnedCallable expT 3 false (fun r => [r ^ 2, 2 * r, 2]) x
      = some [Real.exp (2 * x), 2 * Real.exp (2 * x), 4 * Real.exp (2 * x)] := by
  have hd : ∀ x : ℝ, HasDerivAt (fun t => Real.exp (2 * t)) (2 * Real.exp (2 * x)) x := fun x => by
    simpa [mul_comm] using ((hasDerivAt_id x).const_mul (2 : ℝ)).exp
  refine through_transform_eq_direct expT Set.univ 0 1 expT_admissible (Set.subset_univ _)
    (fun x _ => (Real.exp_pos x).ne') (.const 0) (.const 0) (.const 0) (.const 1) (fun x => 8 * Real.exp (2 * x))
    (by simp [evalCoeff]; exact continuousOn_const) (by simp [evalCoeff]; exact continuousOn_const)
    (by simp [evalCoeff]; exact continuousOn_const) (by simp [evalCoeff]; exact continuousOn_const)
    (fun x _ => by simp [evalCoeff])
    (fun r => r ^ 2) (fun r => 2 * r) (fun _ => 2)
    (fun x => Real.exp (2 * x)) (fun x => 2 * Real.exp (2 * x)) (fun x => 4 * Real.exp (2 * x)) 1 2 4 ?_ ?_ ?_ ?_
  · intro x _
    refine ⟨2 * expT.transform x, 2, 0, ?_, by simpa using hasDerivAt_pow 2 (expT.transform x),
      by simpa using (hasDerivAt_id (expT.transform x)).const_mul (2 : ℝ), hasDerivAt_const _ _⟩
    rw [odeFuncTransformed_3]
    have e2 : Real.exp (2 * x) = Real.exp x ^ 2 := by rw [← Real.exp_nat_mul]; norm_num
    have hpos := (Real.exp_pos x).ne'
    simp only [expT, Real.log_exp, evalCoeff, coeffB_3_0, coeffB_3_1, coeffB_3_2, coeffB_3_3, npow_eq_pow,
      Nat.cast_zero, Nat.cast_ofNat, e2, Option.some.injEq, List.cons.injEq, and_true, true_and]
    field_simp
    ring
  · intro x _
    refine ⟨2 * Real.exp (2 * x), 4 * Real.exp (2 * x), 8 * Real.exp (2 * x), ?_, hd x,
      ((hd x).const_mul 2).congr_deriv (by ring), ((hd x).const_mul 4).congr_deriv (by ring)⟩
    rw [odeFuncDirect_3]
    simp [evalCoeff]
  · obtain ⟨k00, k01, k10, k11⟩ := derivMatrixAt_2 expT 0
    simp only [ivpInitial, forwardSolve_two, k00, k10, k11]
    simp only [expT, Real.exp_zero]
    norm_num
  · simp

/-! ### orders 1 and 2 -/

/-- Direct branch, order 1. -/
theorem direct_contract_gives_solution₁ {s : Set ℝ} (c0 c1 : Coeff ℝ) (f : ℝ → ℝ)
    (ha : ∀ x ∈ s, evalCoeff x c1 ≠ 0) (Y0 : ℝ → ℝ)
    (hsol : ∀ x ∈ s, ∃ D0, odeFuncDirect [c0, c1] f x [Y0 x] = some [D0] ∧ HasDerivAt Y0 D0 x) :
    ∀ x ∈ s, ∃ y1, HasDerivAt Y0 y1 x ∧ evalCoeff x c0 * Y0 x + evalCoeff x c1 * y1 = f x := by
  intro x hx
  obtain ⟨D0, hD, h0⟩ := hsol x hx
  rw [odeFuncDirect_1] at hD
  simp only [Option.some.injEq, List.cons.injEq, and_true] at hD
  subst hD
  refine ⟨_, h0, ?_⟩
  have := ha x hx
  field_simp
  ring

/-- Direct branch, order 2. -/
theorem direct_contract_gives_solution₂ {s : Set ℝ} (c0 c1 c2 : Coeff ℝ) (f : ℝ → ℝ)
    (ha : ∀ x ∈ s, evalCoeff x c2 ≠ 0) (Y0 Y1 : ℝ → ℝ)
    (hsol : ∀ x ∈ s, ∃ D0 D1, odeFuncDirect [c0, c1, c2] f x [Y0 x, Y1 x] = some [D0, D1] ∧
      HasDerivAt Y0 D0 x ∧ HasDerivAt Y1 D1 x) :
    ∀ x ∈ s, HasDerivAt Y0 (Y1 x) x ∧ ∃ y2, HasDerivAt Y1 y2 x ∧
      evalCoeff x c0 * Y0 x + evalCoeff x c1 * Y1 x + evalCoeff x c2 * y2 = f x := by
  intro x hx
  obtain ⟨D0, D1, hD, h0, h1⟩ := hsol x hx
  rw [odeFuncDirect_2] at hD
  simp only [Option.some.injEq, List.cons.injEq, and_true] at hD
  obtain ⟨rfl, rfl⟩ := hD
  refine ⟨h0, _, h1, ?_⟩
  have := ha x hx
  field_simp
  ring

/-- Uniqueness, order 1. -/
theorem linear_ivp_unique₁ {s : Set ℝ} {a b : ℝ} (hab : Icc a b ⊆ s) (a0 a1 f : ℝ → ℝ)
    (hc0 : ContinuousOn a0 (Icc a b)) (hc1 : ContinuousOn a1 (Icc a b)) (hne : ∀ x ∈ Icc a b, a1 x ≠ 0)
    (y0 y1 z0 z1 : ℝ → ℝ)
    (hy : ∀ x ∈ s, HasDerivAt y0 (y1 x) x ∧ a0 x * y0 x + a1 x * y1 x = f x)
    (hz : ∀ x ∈ s, HasDerivAt z0 (z1 x) x ∧ a0 x * z0 x + a1 x * z1 x = f x)
    (h0 : y0 a = z0 a) : ∀ x ∈ Icc a b, y0 x = z0 x := by
  have hq : ContinuousOn (fun x => |a0 x| / |a1 x|) (Icc a b) :=
    hc0.abs.div hc1.abs (fun x hx => abs_ne_zero.mpr (hne x hx))
  obtain ⟨C, hC⟩ := isCompact_Icc.exists_bound_of_continuousOn hq
  have hD : ∀ x ∈ s, HasDerivAt (fun x => y0 x - z0 x) (y1 x - z1 x) x := fun x hx =>
    (hy x hx).1.sub (hz x hx).1
  have hcont : ContinuousOn (fun x => y0 x - z0 x) (Icc a b) :=
    fun x hx => (hD x (hab hx)).continuousAt.continuousWithinAt
  have bound : ∀ x ∈ Ico a b, ‖y1 x - z1 x‖ ≤ C * ‖y0 x - z0 x‖ := by
    intro x hx
    have hxI : x ∈ Icc a b := Ico_subset_Icc_self hx
    have ey := (hy x (hab hxI)).2
    have ez := (hz x (hab hxI)).2
    have hq0 : 0 ≤ |a0 x| / |a1 x| := by positivity
    have hCx : |a0 x| / |a1 x| ≤ C := by
      have := hC x hxI
      rwa [Real.norm_eq_abs, abs_of_nonneg hq0] at this
    have ha1 : 0 < |a1 x| := abs_pos.mpr (hne x hxI)
    have e1 : a1 x * (y1 x - z1 x) = -(a0 x * (y0 x - z0 x)) := by linarith
    have h1 : |a1 x| * |y1 x - z1 x| = |a0 x| * |y0 x - z0 x| := by
      rw [← abs_mul, e1, abs_neg, abs_mul]
    have h2 : |y1 x - z1 x| = |a0 x| / |a1 x| * |y0 x - z0 x| := by
      rw [div_mul_eq_mul_div, eq_div_iff ha1.ne']; linarith
    rw [Real.norm_eq_abs, Real.norm_eq_abs, h2]
    exact mul_le_mul_of_nonneg_right hCx (abs_nonneg _)
  have hzero := eq_zero_of_abs_deriv_le_mul_abs_self_of_eq_zero_right hcont
    (fun x hx => (hD x (hab (Ico_subset_Icc_self hx))).hasDerivWithinAt) (by simp [h0]) bound
  intro x hx
  exact sub_eq_zero.mp (hzero x hx)

/-- Uniqueness, order 2. -/
theorem linear_ivp_unique₂ {s : Set ℝ} {a b : ℝ} (hab : Icc a b ⊆ s) (a0 a1 a2 f : ℝ → ℝ)
    (hc0 : ContinuousOn a0 (Icc a b)) (hc1 : ContinuousOn a1 (Icc a b)) (hc2 : ContinuousOn a2 (Icc a b))
    (hne : ∀ x ∈ Icc a b, a2 x ≠ 0) (y0 y1 y2 z0 z1 z2 : ℝ → ℝ)
    (hy : ∀ x ∈ s, HasDerivAt y0 (y1 x) x ∧ HasDerivAt y1 (y2 x) x ∧
      a0 x * y0 x + a1 x * y1 x + a2 x * y2 x = f x)
    (hz : ∀ x ∈ s, HasDerivAt z0 (z1 x) x ∧ HasDerivAt z1 (z2 x) x ∧
      a0 x * z0 x + a1 x * z1 x + a2 x * z2 x = f x)
    (h0 : y0 a = z0 a) (h1 : y1 a = z1 a) : ∀ x ∈ Icc a b, y0 x = z0 x ∧ y1 x = z1 x := by
  -- pad to a third-order problem `0·y''' ... ` is not possible (leading coefficient); argue directly
  have hq : ContinuousOn (fun x => (|a0 x| + |a1 x|) / |a2 x|) (Icc a b) :=
    (hc0.abs.add hc1.abs).div hc2.abs (fun x hx => abs_ne_zero.mpr (hne x hx))
  obtain ⟨C, hC⟩ := isCompact_Icc.exists_bound_of_continuousOn hq
  let D : ℝ → ℝ × ℝ := fun x => (y0 x - z0 x, y1 x - z1 x)
  let D' : ℝ → ℝ × ℝ := fun x => (y1 x - z1 x, y2 x - z2 x)
  have hD : ∀ x ∈ s, HasDerivAt D (D' x) x := fun x hx => by
    obtain ⟨p0, p1, _⟩ := hy x hx
    obtain ⟨q0, q1, _⟩ := hz x hx
    exact (p0.sub q0).prodMk (p1.sub q1)
  have hcont : ContinuousOn D (Icc a b) := fun x hx => (hD x (hab hx)).continuousAt.continuousWithinAt
  have bound : ∀ x ∈ Ico a b, ‖D' x‖ ≤ (1 + C) * ‖D x‖ := by
    intro x hx
    have hxI : x ∈ Icc a b := Ico_subset_Icc_self hx
    obtain ⟨_, _, ey⟩ := hy x (hab hxI)
    obtain ⟨_, _, ez⟩ := hz x (hab hxI)
    have hq0 : 0 ≤ (|a0 x| + |a1 x|) / |a2 x| := by positivity
    have hCx : (|a0 x| + |a1 x|) / |a2 x| ≤ C := by
      have := hC x hxI
      rwa [Real.norm_eq_abs, abs_of_nonneg hq0] at this
    have hC0 : 0 ≤ C := hq0.trans hCx
    have n0 : |y0 x - z0 x| ≤ ‖D x‖ := by
      simp only [D, Prod.norm_def, Real.norm_eq_abs]; exact le_max_left _ _
    have n1 : |y1 x - z1 x| ≤ ‖D x‖ := by
      simp only [D, Prod.norm_def, Real.norm_eq_abs]; exact le_max_right _ _
    have hDn : 0 ≤ ‖D x‖ := norm_nonneg _
    have ha2 : 0 < |a2 x| := abs_pos.mpr (hne x hxI)
    have e2 : a2 x * (y2 x - z2 x) = -(a0 x * (y0 x - z0 x) + a1 x * (y1 x - z1 x)) := by linarith
    have n2 : |y2 x - z2 x| ≤ C * ‖D x‖ := by
      have h1 : |a2 x| * |y2 x - z2 x| ≤ (|a0 x| + |a1 x|) * ‖D x‖ := by
        rw [← abs_mul, e2, abs_neg]
        calc |a0 x * (y0 x - z0 x) + a1 x * (y1 x - z1 x)|
            ≤ |a0 x * (y0 x - z0 x)| + |a1 x * (y1 x - z1 x)| := abs_add_le _ _
          _ = |a0 x| * |y0 x - z0 x| + |a1 x| * |y1 x - z1 x| := by simp only [abs_mul]
          _ ≤ |a0 x| * ‖D x‖ + |a1 x| * ‖D x‖ := by gcongr
          _ = (|a0 x| + |a1 x|) * ‖D x‖ := by ring
      have h2 : |y2 x - z2 x| ≤ (|a0 x| + |a1 x|) / |a2 x| * ‖D x‖ := by
        rw [div_mul_eq_mul_div, le_div_iff₀ ha2]; linarith
      exact h2.trans (mul_le_mul_of_nonneg_right hCx hDn)
    have hK1 : ‖D x‖ ≤ (1 + C) * ‖D x‖ := by nlinarith
    have hK2 : C * ‖D x‖ ≤ (1 + C) * ‖D x‖ := by nlinarith
    simp only [D', Prod.norm_def, Real.norm_eq_abs]
    exact max_le (n1.trans hK1) (n2.trans hK2)
  have hzero := eq_zero_of_abs_deriv_le_mul_abs_self_of_eq_zero_right hcont
    (fun x hx => (hD x (hab (Ico_subset_Icc_self hx))).hasDerivWithinAt) (by simp [D, h0, h1]) bound
  intro x hx
  have := hzero x hx
  simp only [D, Prod.mk_eq_zero, sub_eq_zero] at this
  exact this

/-- **Through a transform = directly, order 1.** -/
theorem through_transform_eq_direct₁ {T : TransformFns ℝ} {s : Set ℝ} {a b : ℝ} (hT : Admissible T s)
    (hab : Icc a b ⊆ s) (hne : ∀ x ∈ s, T.deriv x ≠ 0) (c0 c1 : Coeff ℝ) (f : ℝ → ℝ)
    (hc0 : ContinuousOn (fun x => evalCoeff x c0) (Icc a b)) (hc1 : ContinuousOn (fun x => evalCoeff x c1) (Icc a b))
    (ha : ∀ x ∈ s, evalCoeff x c1 ≠ 0) (Y0 Z0 : ℝ → ℝ) (d0 : ℝ)
    (hY : ∀ x ∈ s, ∃ D0, odeFuncTransformed [c0, c1] T f (T.transform x) [Y0 (T.transform x)] = some [D0] ∧
      HasDerivAt Y0 D0 (T.transform x))
    (hZ : ∀ x ∈ s, ∃ D0, odeFuncDirect [c0, c1] f x [Z0 x] = some [D0] ∧ HasDerivAt Z0 D0 x)
    (hY0 : ivpInitial (derivMatrixAt T a 0) [d0] = some [Y0 (T.transform a)]) (hZ0 : Z0 a = d0) :
    ∀ x ∈ Icc a b, returnedCallable T 1 false (fun r => [Y0 r]) x = some [Z0 x] := by
  obtain ⟨y0, y1, hret, hy⟩ := transformed_contract_gives_solution₁ hT hne c0 c1 f ha Y0 hY
  have hdir := direct_contract_gives_solution₁ c0 c1 f ha Z0 hZ
  choose! z1 hz1 using hdir
  intro x hx
  have hle : a ≤ b := hx.1.trans hx.2
  have e0 : y0 a = Z0 a := by
    have h := hret a
    simp only [returnedCallable, Bool.false_eq_true, ↓reduceIte, Nat.sub_self] at h
    simp only [ivpInitial, forwardSolve_nil, Option.some.injEq, List.cons.injEq, and_true] at hY0
    rw [← hY0] at h
    simp only [backTransform, matVec_nil, Option.some.injEq, List.cons.injEq, and_true] at h
    rw [← h, hZ0]
  have := linear_ivp_unique₁ hab (fun x => evalCoeff x c0) (fun x => evalCoeff x c1) f hc0 hc1
    (fun x hx => ha x (hab hx)) y0 y1 Z0 z1 hy hz1 e0 x hx
  rw [hret x, this]

/-- **Through a transform = directly, order 2.** -/
theorem through_transform_eq_direct₂ {T : TransformFns ℝ} {s : Set ℝ} {a b : ℝ} (hT : Admissible T s)
    (hab : Icc a b ⊆ s) (hne : ∀ x ∈ s, T.deriv x ≠ 0) (c0 c1 c2 : Coeff ℝ) (f : ℝ → ℝ)
    (hc0 : ContinuousOn (fun x => evalCoeff x c0) (Icc a b)) (hc1 : ContinuousOn (fun x => evalCoeff x c1) (Icc a b))
    (hc2 : ContinuousOn (fun x => evalCoeff x c2) (Icc a b))
    (ha : ∀ x ∈ s, evalCoeff x c2 ≠ 0) (Y0 Y1 Z0 Z1 : ℝ → ℝ) (d0 d1 : ℝ)
    (hY : ∀ x ∈ s, ∃ D0 D1, odeFuncTransformed [c0, c1, c2] T f (T.transform x)
        [Y0 (T.transform x), Y1 (T.transform x)] = some [D0, D1] ∧
      HasDerivAt Y0 D0 (T.transform x) ∧ HasDerivAt Y1 D1 (T.transform x))
    (hZ : ∀ x ∈ s, ∃ D0 D1, odeFuncDirect [c0, c1, c2] f x [Z0 x, Z1 x] = some [D0, D1] ∧
      HasDerivAt Z0 D0 x ∧ HasDerivAt Z1 D1 x)
    (hY0 : ivpInitial (derivMatrixAt T a 1) [d0, d1] = some [Y0 (T.transform a), Y1 (T.transform a)])
    (hZ0 : [Z0 a, Z1 a] = [d0, d1]) :
    ∀ x ∈ Icc a b, returnedCallable T 2 false (fun r => [Y0 r, Y1 r]) x = some [Z0 x, Z1 x] := by
  obtain ⟨y0, y1, y2, hret, hy⟩ := transformed_contract_gives_solution₂ hT hne c0 c1 c2 f ha Y0 Y1 hY
  have hdir := direct_contract_gives_solution₂ c0 c1 c2 f ha Z0 Z1 hZ
  choose! z2 hz2 using fun x hx => (hdir x hx).2
  intro x hx
  have hle : a ≤ b := hx.1.trans hx.2
  have has : a ∈ s := hab (left_mem_Icc.mpr hle)
  have h2 := (ivp_initial_conditions T a a (hne a has) d0 d1 0).2.1 (fun r => [Y0 r, Y1 r])
    (T.transform a, T.transform a) [Y0 (T.transform a), Y1 (T.transform a)] (by simp [ivpSetup, hY0]) rfl
  have e := Option.some.inj ((hret a).symm.trans h2.2)
  rw [← hZ0] at e
  simp only [List.cons.injEq, and_true] at e
  have := linear_ivp_unique₂ hab (fun x => evalCoeff x c0) (fun x => evalCoeff x c1) (fun x => evalCoeff x c2) f
    hc0 hc1 hc2 (fun x hx => ha x (hab hx)) y0 y1 y2 Z0 Z1 z2 hy
    (fun x hx => ⟨(hdir x hx).1, hz2 x hx⟩) e.1 e.2 x hx
  rw [hret x, this.1, this.2]

end GridVerif.C15

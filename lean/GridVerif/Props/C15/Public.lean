/-
  C15, part 4 — the bodies of the public functions `solve_ode_ivp` / `solve_ode_bvp` (generated `solveOdeIvp`,
  `solveOdeBvp`): which callback, span / mesh and initial data SciPy receives, what is returned, what is rejected;
  and the end-to-end statement for the whole function under the integrator contract.
-/
import GridVerif.Props.C15.Solve

namespace GridVerif.C15
open GridVerif GridVerif.Ode GridVerif.Gen.Ode

/-! ## 10. What `solve_ode_ivp` hands to SciPy and what it returns -/

/-- **`solve_ode_ivp`, `transform=None`.** With as many initial values as the order and a converged integrator
(`status = 0`), SciPy receives the generated `func` (`ivpFunc … none …`), the span and the initial data unchanged, and
the integrator's dense output is returned as it is. -/
theorem solve_ode_ivp_direct (solve_ivp : (ℝ → List ℝ → Option (List ℝ)) → List ℝ → List ℝ → SolveResult ℝ)
    (solve : Mat ℝ → List ℝ → List ℝ) (isinf : ℝ → Bool) (span : List ℝ) (fx : ℝ → ℝ) (cs : List (Coeff ℝ))
    (y0 : List ℝ) (nod : Bool) (hlen : y0.length = cs.length - 1)
    (hstatus : (solve_ivp (ivpFunc cs none fx) span y0).status = 0) :
    solveOdeIvp solve_ivp solve isinf span fx cs y0 none nod
      = .ok (fun pt => some ((solve_ivp (ivpFunc cs none fx) span y0).sol pt)) := by
  simp [solveOdeIvp, hlen, hstatus, bind, Except.bind, pure, Except.pure]

/-- **`solve_ode_ivp` with a transform.** For orders ≤ 3, when the generated block `ivpTransformSetup` produces
`(span', init)` (see `ivpTransformSetup_eq`: the transformed span and the mapped data) and the integrator converges,
SciPy receives the generated `func` (`ivpFunc … (some T) …`), `span'` and `init`, and the returned callable is the
generated `transformSolutionToOriginalDomain` of the integrator's result, with `no_derivatives` and the order passed on. -/
theorem solve_ode_ivp_transformed (solve_ivp : (ℝ → List ℝ → Option (List ℝ)) → List ℝ → List ℝ → SolveResult ℝ)
    (solve : Mat ℝ → List ℝ → List ℝ) (isinf : ℝ → Bool) (span : List ℝ) (fx : ℝ → ℝ) (cs : List (Coeff ℝ))
    (y0 : List ℝ) (T : TransformFns ℝ) (nod : Bool) (hlen : y0.length = cs.length - 1) (hord : cs.length - 1 ≤ 3)
    (span' init : List ℝ) (hsetup : ivpTransformSetup solve isinf span y0 T (cs.length - 1) = .ok (span', init))
    (hstatus : (solve_ivp (ivpFunc cs (some T) fx) span' init).status = 0) :
    solveOdeIvp solve_ivp solve isinf span fx cs y0 (some T) nod
      = .ok (transformSolutionToOriginalDomain (solve_ivp (ivpFunc cs (some T) fx) span' init) T nod (cs.length - 1)) := by
  have h3 : ¬ 3 < cs.length - 1 := by omega
  simp [solveOdeIvp, hlen, hsetup, hstatus, h3, bind, Except.bind, pure, Except.pure]

/-- **Rejections of `solve_ode_ivp`**: a number of initial values different from the order (`ValueError`), an order
above 3 together with a transform (`NotImplementedError`), a non-converged integrator (`ValueError`). -/
theorem solve_ode_ivp_rejects (solve_ivp : (ℝ → List ℝ → Option (List ℝ)) → List ℝ → List ℝ → SolveResult ℝ)
    (solve : Mat ℝ → List ℝ → List ℝ) (isinf : ℝ → Bool) (span : List ℝ) (fx : ℝ → ℝ) (cs : List (Coeff ℝ))
    (y0 : List ℝ) (nod : Bool) :
    (y0.length ≠ cs.length - 1 → ∀ tf, solveOdeIvp solve_ivp solve isinf span fx cs y0 tf nod = .error .valueError) ∧
    (y0.length = cs.length - 1 → 3 < cs.length - 1 →
      ∀ T, solveOdeIvp solve_ivp solve isinf span fx cs y0 (some T) nod = .error .notImplementedError) ∧
    (y0.length = cs.length - 1 → (solve_ivp (ivpFunc cs none fx) span y0).status ≠ 0 →
      solveOdeIvp solve_ivp solve isinf span fx cs y0 none nod = .error .valueError) := by
  refine ⟨fun h tf => ?_, fun h h3 T => ?_, fun h hs => ?_⟩
  · simp [solveOdeIvp, h, bind, Except.bind, throw, throwThe, MonadExceptOf.throw]
  · simp [solveOdeIvp, h, h3, bind, Except.bind, throw, throwThe, MonadExceptOf.throw]
  · simp [solveOdeIvp, h, hs, bind, Except.bind, pure, Except.pure, throw, throwThe, MonadExceptOf.throw]

/-! ## 11. What `solve_ode_bvp` hands to SciPy and what it returns -/

/-- **`solve_ode_bvp`, `transform=None`**: the generated `func`, the generated `bc` and the mesh unchanged go to SciPy;
its dense output is returned as it is. -/
theorem solve_ode_bvp_direct
    (solve_bvp : (ℝ → List ℝ → Option (List ℝ)) → (List ℝ → List ℝ → Option (List ℝ)) → List ℝ → SolveResult ℝ)
    (x : List ℝ) (fx : ℝ → ℝ) (cs : List (Coeff ℝ)) (bd : List (ℕ × ℕ × ℝ)) (nod : Bool)
    (hlen : bd.length = cs.length - 1)
    (hstatus : (solve_bvp (bvpFunc cs none fx) (bvpBc bd) x).status = 0) :
    solveOdeBvp solve_bvp x fx cs bd none nod
      = .ok (fun pt => some ((solve_bvp (bvpFunc cs none fx) (bvpBc bd) x).sol pt)) := by
  simp [solveOdeBvp, hlen, hstatus, bind, Except.bind, pure, Except.pure]

/-- **`solve_ode_bvp` with a transform** (orders ≤ 3): SciPy receives the generated `func` (the same first-order
system as `solve_ode_ivp`'s, `bvpFunc_eq_ivpFunc`), the generated `bc` and the **transformed mesh** `g(x)`; the
returned callable is the generated `transformSolutionToOriginalDomain` of the result. -/
theorem solve_ode_bvp_transformed
    (solve_bvp : (ℝ → List ℝ → Option (List ℝ)) → (List ℝ → List ℝ → Option (List ℝ)) → List ℝ → SolveResult ℝ)
    (x : List ℝ) (fx : ℝ → ℝ) (cs : List (Coeff ℝ)) (bd : List (ℕ × ℕ × ℝ)) (T : TransformFns ℝ) (nod : Bool)
    (hlen : bd.length = cs.length - 1) (hord : cs.length - 1 ≤ 3)
    (hstatus : (solve_bvp (ivpFunc cs (some T) fx) (bvpBc bd) (x.map T.transform)).status = 0) :
    solveOdeBvp solve_bvp x fx cs bd (some T) nod
      = .ok (transformSolutionToOriginalDomain (solve_bvp (ivpFunc cs (some T) fx) (bvpBc bd) (x.map T.transform)) T nod
          (cs.length - 1)) := by
  have h3 : ¬ 3 < cs.length - 1 := by omega
  have hf : bvpFunc cs (some T) fx = ivpFunc cs (some T) fx := by
    funext r y; exact bvpFunc_eq_ivpFunc cs (some T) fx r y
  simp [solveOdeBvp, hlen, hf, hstatus, h3, bind, Except.bind, pure, Except.pure]

/-- **Rejections of `solve_ode_bvp`.** -/
theorem solve_ode_bvp_rejects
    (solve_bvp : (ℝ → List ℝ → Option (List ℝ)) → (List ℝ → List ℝ → Option (List ℝ)) → List ℝ → SolveResult ℝ)
    (x : List ℝ) (fx : ℝ → ℝ) (cs : List (Coeff ℝ)) (bd : List (ℕ × ℕ × ℝ)) (nod : Bool) :
    (bd.length ≠ cs.length - 1 → ∀ tf, solveOdeBvp solve_bvp x fx cs bd tf nod = .error .valueError) ∧
    (bd.length = cs.length - 1 → 3 < cs.length - 1 →
      ∀ T, solveOdeBvp solve_bvp x fx cs bd (some T) nod = .error .notImplementedError) := by
  refine ⟨fun h tf => ?_, fun h h3 T => ?_⟩
  · simp [solveOdeBvp, h, bind, Except.bind, throw, throwThe, MonadExceptOf.throw]
  · simp [solveOdeBvp, h, h3, bind, Except.bind, throw, throwThe, MonadExceptOf.throw]

/-! ## 12. End to end for the whole public functions (order 3), under the contracts of the SciPy primitives -/

/-- **`solve_ode_ivp` through a transform, third order, whole function.**  Let `scipy.linalg.solve` satisfy its
contract on the matrix at `x₀` (`hsolve`) and let `scipy.integrate.solve_ivp`, called with *whatever* callback, span and
initial data the generated body hands to it, converge (`status = 0`), start at the initial data it was given and
return functions `Y₀, Y₁, Y₂` that satisfy the first-order system it was given along `g(s)` (`hcontract`).  Then
`solve_ode_ivp` returns a callable whose rows `y₀, y₁, y₂` are a derivative chain **with respect to the original
variable**, `y₀` solves `a₀ y + a₁ y' + a₂ y'' + a₃ y⁽³⁾ = f` on `s`, and `y₀, y₁, y₂` take the prescribed values at
`x₀`.  (`hcontract` speaks only about the one call the generated body makes: callback `ivpFunc … (some T) …`, span
`(g(x₀), g(x₁))`, the initial data produced by `ivpTransformSetup`.)  Everything between the user's arguments and the result — guards, span transformation, initial-data mapping,
callback, back-transformation — is the generated text. -/
theorem solve_ode_ivp_correct₃ {T : TransformFns ℝ} {s : Set ℝ} (hT : Admissible T s) (hne : ∀ x ∈ s, T.deriv x ≠ 0)
    (x0 x1 : ℝ) (hd0 : T.domain.1 ≤ x0) (hd1 : T.domain.1 ≤ x1) (hd2 : x0 ≤ T.domain.2) (hd3 : x1 ≤ T.domain.2)
    (c0 c1 c2 c3 : Coeff ℝ) (f : ℝ → ℝ) (ha : ∀ x ∈ s, c3.at x ≠ 0) (d0 d1 d2 : ℝ)
    (solve_ivp : (ℝ → List ℝ → Option (List ℝ)) → List ℝ → List ℝ → SolveResult ℝ)
    (solve : Mat ℝ → List ℝ → List ℝ)
    (hsolve : matVec (derivMatrixAt T x0 2) (solve (derivMatrixAt T x0 2) [d1, d2]) = [d1, d2])
    (hcontract : ∀ init, ivpTransformSetup solve noInf [x0, x1] [d0, d1, d2] T 3
        = .ok ([T.transform x0, T.transform x1], init) →
      ∀ res, res = solve_ivp (ivpFunc [c0, c1, c2, c3] (some T) f) [T.transform x0, T.transform x1] init →
      res.status = 0 ∧ res.sol (T.transform x0) = init ∧
      ∃ Y0 Y1 Y2 : ℝ → ℝ, (∀ r, res.sol r = [Y0 r, Y1 r, Y2 r]) ∧
        ∀ x ∈ s, ∃ D0 D1 D2, ivpFunc [c0, c1, c2, c3] (some T) f (T.transform x)
            [Y0 (T.transform x), Y1 (T.transform x), Y2 (T.transform x)] = some [D0, D1, D2] ∧
          HasDerivAt Y0 D0 (T.transform x) ∧ HasDerivAt Y1 D1 (T.transform x) ∧ HasDerivAt Y2 D2 (T.transform x)) :
    ∃ (F : ℝ → Option (List ℝ)) (y0 y1 y2 y3 : ℝ → ℝ),
      solveOdeIvp solve_ivp solve noInf [x0, x1] f [c0, c1, c2, c3] [d0, d1, d2] (some T) false = .ok F ∧
      (∀ x, F x = some [y0 x, y1 x, y2 x]) ∧
      (∀ x ∈ s, HasDerivAt y0 (y1 x) x ∧ HasDerivAt y1 (y2 x) x ∧ HasDerivAt y2 (y3 x) x ∧
        c0.at x * y0 x + c1.at x * y1 x + c2.at x * y2 x + c3.at x * y3 x = f x) ∧
      [y0 x0, y1 x0, y2 x0] = [d0, d1, d2] := by
  obtain ⟨init, h1, h2⟩ := ivp_initial_conditions_of_contract solve T x0 x1 hd0 hd1 hd2 hd3 d0 [d1, d2] (by simp) hsolve
  have h1' : ivpTransformSetup solve noInf [x0, x1] [d0, d1, d2] T 3 = .ok ([T.transform x0, T.transform x1], init) := h1
  obtain ⟨hst, hstart, Y0, Y1, Y2, hshape, hY⟩ := hcontract init h1' _ rfl
  obtain ⟨y0, y1, y2, y3, hret, hode⟩ := transformed_contract_gives_solution₃ hT hne c0 c1 c2 c3 f ha Y0 Y1 Y2 hY
  have hF : ∀ x, transformSolutionToOriginalDomain
      (solve_ivp (ivpFunc [c0, c1, c2, c3] (some T) f) [T.transform x0, T.transform x1] init) T false 3 x
      = some [y0 x, y1 x, y2 x] := by
    intro x
    rw [bvp_bc_meaning T _ x _ _ _ (hshape (T.transform x)), ← hret x,
      bvp_bc_meaning T (okResult fun r => [Y0 r, Y1 r, Y2 r]) x _ _ _ rfl]
  refine ⟨_, y0, y1, y2, y3, solve_ode_ivp_transformed solve_ivp solve noInf [x0, x1] f [c0, c1, c2, c3] [d0, d1, d2] T
    false rfl (by simp) _ init h1' hst, hF, hode, ?_⟩
  have h3 : transformSolutionToOriginalDomain
      (solve_ivp (ivpFunc [c0, c1, c2, c3] (some T) f) [T.transform x0, T.transform x1] init) T false 3 x0
      = some [d0, d1, d2] := h2 _ hstart
  exact Option.some.inj ((hF x0).symm.trans h3)

/-- **`solve_ode_bvp` through a transform, third order, whole function.**  If `scipy.integrate.solve_bvp`, called with
the callbacks and the mesh the generated body hands to it, converges, returns functions that satisfy the first-order
system it was given along `g(s)`, and makes the residuals of the callback `bc` vanish at the two ends of the mesh it
was given, then `solve_ode_bvp` returns a callable whose rows are a derivative chain in the original variable, whose
first row solves the stated ODE on `s`, and which meets every boundary condition (value conditions on `y` itself;
derivative conditions with respect to the new coordinate, as documented). -/
theorem solve_ode_bvp_correct₃ {T : TransformFns ℝ} {s : Set ℝ} (hT : Admissible T s) (hne : ∀ x ∈ s, T.deriv x ≠ 0)
    (xa xb : ℝ) (mid : List ℝ) (c0 c1 c2 c3 : Coeff ℝ) (f : ℝ → ℝ) (ha : ∀ x ∈ s, c3.at x ≠ 0)
    (bd : List (ℕ × ℕ × ℝ)) (hbd : bd.length = 3) (hvalid : ∀ c ∈ bd, c.1 < 2 ∧ c.2.1 < 3)
    (solve_bvp : (ℝ → List ℝ → Option (List ℝ)) → (List ℝ → List ℝ → Option (List ℝ)) → List ℝ → SolveResult ℝ)
    (hcontract : ∀ res, res = solve_bvp (ivpFunc [c0, c1, c2, c3] (some T) f) (bvpBc bd)
        (T.transform xa :: (mid.map T.transform ++ [T.transform xb])) →
      res.status = 0 ∧
      (∃ resid, bvpBc bd (res.sol (T.transform xa)) (res.sol (T.transform xb)) = some resid ∧ ∀ e ∈ resid, e = 0) ∧
      ∃ Y0 Y1 Y2 : ℝ → ℝ, (∀ r, res.sol r = [Y0 r, Y1 r, Y2 r]) ∧
        ∀ x ∈ s, ∃ D0 D1 D2, ivpFunc [c0, c1, c2, c3] (some T) f (T.transform x)
            [Y0 (T.transform x), Y1 (T.transform x), Y2 (T.transform x)] = some [D0, D1, D2] ∧
          HasDerivAt Y0 D0 (T.transform x) ∧ HasDerivAt Y1 D1 (T.transform x) ∧ HasDerivAt Y2 D2 (T.transform x)) :
    ∃ (F : ℝ → Option (List ℝ)) (y0 y1 y2 y3 Y1 : ℝ → ℝ),
      solveOdeBvp solve_bvp (xa :: (mid ++ [xb])) f [c0, c1, c2, c3] bd (some T) false = .ok F ∧
      (∀ x, F x = some [y0 x, y1 x, y2 x]) ∧
      (∀ x ∈ s, HasDerivAt y0 (y1 x) x ∧ HasDerivAt y1 (y2 x) x ∧ HasDerivAt y2 (y3 x) x ∧
        c0.at x * y0 x + c1.at x * y1 x + c2.at x * y2 x + c3.at x * y3 x = f x) ∧
      ∀ c ∈ bd,
        (c.1 = 0 ∧ c.2.1 = 0 → y0 xa = c.2.2) ∧ (c.1 = 1 ∧ c.2.1 = 0 → y0 xb = c.2.2) ∧
        (c.1 = 0 ∧ c.2.1 = 1 → y1 xa = T.deriv xa * c.2.2) ∧ (c.1 = 1 ∧ c.2.1 = 1 → y1 xb = T.deriv xb * c.2.2) ∧
        (c.1 = 0 ∧ c.2.1 = 2 → y2 xa = T.deriv2 xa * Y1 (T.transform xa) + T.deriv xa ^ 2 * c.2.2) ∧
        (c.1 = 1 ∧ c.2.1 = 2 → y2 xb = T.deriv2 xb * Y1 (T.transform xb) + T.deriv xb ^ 2 * c.2.2) := by
  have hmesh : (xa :: (mid ++ [xb])).map T.transform = T.transform xa :: (mid.map T.transform ++ [T.transform xb]) := by
    simp
  obtain ⟨hst, ⟨resid, hres, hzero⟩, Y0, Y1, Y2, hshape, hY⟩ := hcontract _ rfl
  obtain ⟨y0, y1, y2, y3, hret, hode⟩ := transformed_contract_gives_solution₃ hT hne c0 c1 c2 c3 f ha Y0 Y1 Y2 hY
  have hF : ∀ x, transformSolutionToOriginalDomain (solve_bvp (ivpFunc [c0, c1, c2, c3] (some T) f) (bvpBc bd)
      (T.transform xa :: (mid.map T.transform ++ [T.transform xb]))) T false 3 x = some [y0 x, y1 x, y2 x] := by
    intro x
    rw [bvp_bc_meaning T _ x _ _ _ (hshape (T.transform x)), ← hret x,
      bvp_bc_meaning T (okResult fun r => [Y0 r, Y1 r, Y2 r]) x _ _ _ rfl]
  have hcall := solve_ode_bvp_transformed solve_bvp (xa :: (mid ++ [xb])) f [c0, c1, c2, c3] bd T false
    (by simp [hbd]) (by simp) (by rw [hmesh]; exact hst)
  rw [hmesh] at hcall
  obtain ⟨ya0, ya1, ya2, yb0, yb1, yb2, hA, hB, hall⟩ := bvp_boundary_conditions T xa xb _ _ _ _ _ _ _
    (hshape (T.transform xa)) (hshape (T.transform xb)) bd hvalid resid hres hzero
  have eA := Option.some.inj ((hF xa).symm.trans hA)
  have eB := Option.some.inj ((hF xb).symm.trans hB)
  simp only [List.cons.injEq, and_true] at eA eB
  obtain ⟨a0, a1, a2⟩ := eA
  obtain ⟨b0, b1, b2⟩ := eB
  refine ⟨_, y0, y1, y2, y3, Y1, hcall, hF, hode, ?_⟩
  intro c hc
  rw [a0, a1, a2, b0, b1, b2]
  exact hall c hc

/-- Non-vacuity of `solve_ode_ivp_correct₃`: `g = exp` (domain `(-1000, 1000)`), span `(0, 1)`, the ODE with
coefficients `0, 0, 0, 1` and right-hand side `8e^{2x}`, initial values `1, 2, 4`; `scipy.linalg.solve` = forward
substitution; the integrator returns `r², 2r, 2` (exact solution of the transformed system, starting at the mapped data
`1, 2, 2`): every hypothesis holds, so the whole function returns rows that solve the ODE and start at `1, 2, 4`. -/
example : ∃ (F : ℝ → Option (List ℝ)) (y0 y1 y2 y3 : ℝ → ℝ),
    solveOdeIvp (fun _ _ _ => okResult fun r => [r ^ 2, 2 * r, 2]) forwardSolve noInf [0, 1]
        (fun x => 8 * Real.exp (2 * x)) [.const 0, .const 0, .const 0, .const 1] [1, 2, 4] (some expT) false = .ok F ∧
      (∀ x, F x = some [y0 x, y1 x, y2 x]) ∧
      (∀ x ∈ (Set.univ : Set ℝ), HasDerivAt y0 (y1 x) x ∧ HasDerivAt y1 (y2 x) x ∧ HasDerivAt y2 (y3 x) x ∧
        (Coeff.const 0).at x * y0 x + (Coeff.const 0).at x * y1 x + (Coeff.const 0).at x * y2 x
          + (Coeff.const 1).at x * y3 x = 8 * Real.exp (2 * x)) ∧
      [y0 0, y1 0, y2 0] = [1, 2, 4] := by
  have hdm : expT.domain = (-1000, 1000) := rfl
  obtain ⟨k00, k01, k10, k11⟩ := derivMatrixAt_2 expT 0
  refine solve_ode_ivp_correct₃ expT_admissible (fun x _ => (Real.exp_pos x).ne') 0 1 (by rw [hdm]; norm_num)
    (by rw [hdm]; norm_num) (by rw [hdm]; norm_num) (by rw [hdm]; norm_num) (.const 0) (.const 0) (.const 0) (.const 1)
    (fun x => 8 * Real.exp (2 * x)) (fun x _ => by simp [Coeff.at]) 1 2 4 _ forwardSolve
    (forwardSolve_solves expT 0 (Real.exp_pos _).ne' 2 4 0).2.1 ?_
  intro init hinit res hres
  subst hres
  rw [ivpTransformSetup_eq forwardSolve expT 0 1 1 [2, 4] 3 (by omega) (by rw [hdm]; norm_num) (by rw [hdm]; norm_num)
    (by rw [hdm]; norm_num) (by rw [hdm]; norm_num)] at hinit
  simp only [Except.ok.injEq, Prod.mk.injEq, true_and, Nat.add_one_sub_one, forwardSolve_two, k00, k10, k11] at hinit
  refine ⟨rfl, ?_, fun r => r ^ 2, fun r => 2 * r, fun _ => 2, fun _ => rfl, ?_⟩
  · rw [← hinit]; simp only [okResult, expT, Real.exp_zero]; norm_num
  · intro x _
    refine ⟨2 * expT.transform x, 2, 0, ?_, by simpa using hasDerivAt_pow 2 (expT.transform x),
      by simpa using (hasDerivAt_id (expT.transform x)).const_mul (2 : ℝ), hasDerivAt_const _ _⟩
    rw [ivpFunc_transformed_3]
    have e2 : Real.exp (2 * x) = Real.exp x ^ 2 := by rw [← Real.exp_nat_mul]; norm_num
    have hpos := (Real.exp_pos x).ne'
    simp only [expT, Real.log_exp, Coeff.at, coeffB_3_0, coeffB_3_1, coeffB_3_2, coeffB_3_3, npow_eq_pow,
      Nat.cast_zero, Nat.cast_ofNat, e2, Option.some.injEq, List.cons.injEq, and_true, true_and]
    field_simp
    ring

/-- Non-vacuity of `solve_ode_bvp_correct₃`: the same ODE on the mesh `[0, 1]` with the conditions `Y(g(0)) = 1`,
`Y'(g(1)) = 2e`, `Y''(g(0)) = 2` (derivative conditions in the new coordinate) and the integrator output `r², 2r, 2`. -/
example : ∃ (F : ℝ → Option (List ℝ)) (y0 y1 y2 y3 _Y1 : ℝ → ℝ),
    solveOdeBvp (fun _ _ _ => okResult fun r => [r ^ 2, 2 * r, 2]) (0 :: ([] ++ [1]))
        (fun x => 8 * Real.exp (2 * x)) [.const 0, .const 0, .const 0, .const 1]
        [(0, 0, 1), (1, 1, 2 * Real.exp 1), (0, 2, 2)] (some expT) false = .ok F ∧
      (∀ x, F x = some [y0 x, y1 x, y2 x]) ∧
      (∀ x ∈ (Set.univ : Set ℝ), HasDerivAt y0 (y1 x) x ∧ HasDerivAt y1 (y2 x) x ∧ HasDerivAt y2 (y3 x) x ∧
        (Coeff.const 0).at x * y0 x + (Coeff.const 0).at x * y1 x + (Coeff.const 0).at x * y2 x
          + (Coeff.const 1).at x * y3 x = 8 * Real.exp (2 * x)) ∧
      y0 0 = 1 := by
  obtain ⟨F, y0, y1, y2, y3, Y1, h1, h2, h3, h4⟩ :=
    solve_ode_bvp_correct₃ expT_admissible (fun x _ => (Real.exp_pos x).ne') 0 1 [] (.const 0) (.const 0) (.const 0)
      (.const 1) (fun x => 8 * Real.exp (2 * x)) (fun x _ => by simp [Coeff.at])
      [(0, 0, 1), (1, 1, 2 * Real.exp 1), (0, 2, 2)] rfl (by simp)
      (fun _ _ _ => okResult fun r => [r ^ 2, 2 * r, 2]) (by
        intro res hres
        subst hres
        refine ⟨rfl, ⟨[0, 0, 0], by simp [bvpBc_eq, okResult, expT], by simp⟩, fun r => r ^ 2, fun r => 2 * r,
          fun _ => 2, fun _ => rfl, ?_⟩
        intro x _
        refine ⟨2 * expT.transform x, 2, 0, ?_, by simpa using hasDerivAt_pow 2 (expT.transform x),
          by simpa using (hasDerivAt_id (expT.transform x)).const_mul (2 : ℝ), hasDerivAt_const _ _⟩
        rw [ivpFunc_transformed_3]
        have e2 : Real.exp (2 * x) = Real.exp x ^ 2 := by rw [← Real.exp_nat_mul]; norm_num
        have hpos := (Real.exp_pos x).ne'
        simp only [expT, Real.log_exp, Coeff.at, coeffB_3_0, coeffB_3_1, coeffB_3_2, coeffB_3_3, npow_eq_pow,
          Nat.cast_zero, Nat.cast_ofNat, e2, Option.some.injEq, List.cons.injEq, and_true, true_and]
        field_simp
        ring)
  exact ⟨F, y0, y1, y2, y3, Y1, h1, h2, h3, (h4 (0, 0, 1) (by simp)).1 ⟨rfl, rfl⟩⟩

end GridVerif.C15

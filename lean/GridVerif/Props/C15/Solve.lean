/-
  C15, part 2 — explicit form, initial data / returned derivatives, boundary conditions, and the
  end-to-end statements under the integrator contract.  (Part 1: `Props/C15.lean`.)
-/
import GridVerif.Props.C15
import Mathlib.Tactic.Linarith

namespace GridVerif.C15
open GridVerif GridVerif.Ode GridVerif.Gen.Ode

/-! ## 4. Explicit form -/

/-- **`explicit_form`**, any order `K = as.length`: `_rearrange_to_explicit_ode` returns
`(f − Σ_{k<K} a_k y_k)/a_K`, and when `a_K ≠ 0` a value `y_K` equals it iff `Σ_{k≤K} a_k y_k = f`. -/
theorem explicit_form (as ys : List ℝ) (aK yK f : ℝ) (h : ys.length = as.length) (haK : aK ≠ 0) :
    rearrangeToExplicitOde ys (as ++ [aK]) f = some ((f - (List.zipWith (· * ·) as ys).sum) / aK) ∧
    (yK = (f - (List.zipWith (· * ·) as ys).sum) / aK ↔ (List.zipWith (· * ·) as ys).sum + aK * yK = f) := by
  refine ⟨rearrange_eq as ys aK f h, ?_⟩
  rw [eq_div_iff haK]
  constructor <;> intro h' <;> linarith

example : rearrangeToExplicitOde [1, 2, 3] ([4, 5, 6] ++ [(2 : ℝ)]) 40 = some 4 := by
  rw [(explicit_form [4, 5, 6] [1, 2, 3] 2 4 40 rfl (by norm_num)).1]; norm_num

/-! ## 5. The generated text of the initial-data mapping and of the returned callable -/

theorem matVec_length (m : Mat ℝ) (v : List ℝ) : (matVec m v).length = v.length := by simp [matVec]

/-- Over the reals nothing is infinite: `np.isinf` is constantly false. -/
abbrev noInf : ℝ → Bool := fun _ => false

/-- **Generated text of `_transform_solution_to_original_domain`, derivative branch** (any order with `order − 1 ≤ 3`):
at a point `x` of the original variable the callable evaluates the integrator's dense output at `g(x)`, keeps row 0
and multiplies rows `1:` by the matrix built **at the same point `x`** with size `order − 1`. -/
theorem transformSolution_eq (res : SolveResult ℝ) (T : TransformFns ℝ) (order : ℕ) (x h : ℝ) (t : List ℝ)
    (hsol : res.sol (T.transform x) = h :: t) (hlen : t.length = order - 1) (h3 : order - 1 ≤ 3) :
    transformSolutionToOriginalDomain res T false order x = some (h :: matVec (derivMatrixAt T x (order - 1)) t) := by
  have hr : derivMatrixRaises (order - 1) 3 = false := by simp [derivMatrixRaises]; omega
  simp [transformSolutionToOriginalDomain, hsol, colZeros, List.replicate_succ, setRow0, hr, matDot, hlen,
    setRowsFrom1, matVec_length]

/-- **`no_derivatives=True`**: only `y(x)` = row 0 of the dense output at `g(x)` is returned. -/
theorem transformSolution_noDerivs (res : SolveResult ℝ) (T : TransformFns ℝ) (order : ℕ) (x h : ℝ) (t : List ℝ)
    (hsol : res.sol (T.transform x) = h :: t) :
    transformSolutionToOriginalDomain res T true order x = some [h] := by
  simp [transformSolutionToOriginalDomain, hsol]

/-- **Generated text of the block `if transform:` of `solve_ode_ivp`** for a span `(x₀, x₁)` inside the domain of the
transform: SciPy receives the span `(g(x₀), g(x₁))` and the initial data `[y0[0]] ++ solve(M(x₀), y0[1:])`, `M(x₀)` the
derivative matrix of size `order − 1` at the **first** point of the span. -/
theorem ivpTransformSetup_eq (solve : Mat ℝ → List ℝ → List ℝ) (T : TransformFns ℝ) (x0 x1 h : ℝ) (t : List ℝ)
    (order : ℕ) (h3 : order - 1 ≤ 3)
    (hd0 : T.domain.1 ≤ x0) (hd1 : T.domain.1 ≤ x1) (hd2 : x0 ≤ T.domain.2) (hd3 : x1 ≤ T.domain.2) :
    ivpTransformSetup solve noInf [x0, x1] (h :: t) T order
      = .ok ([T.transform x0, T.transform x1], h :: solve (derivMatrixAt T x0 (order - 1)) t) := by
  have hr : derivMatrixRaises (order - 1) 3 = false := by simp [derivMatrixRaises]; omega
  have hmin : ¬ (if x1 < x0 then x1 else x0) < T.domain.1 := by split <;> linarith
  have hmax : ¬ T.domain.2 < (if x0 < x1 then x1 else x0) := by split <;> linarith
  simp [ivpTransformSetup, pyMin, pyMax, idxE, hr, hmin, hmax, bind, Except.bind, pure, Except.pure]

/-- A span outside the domain of the transform is rejected (`ValueError`). -/
theorem ivpTransformSetup_rejects (solve : Mat ℝ → List ℝ → List ℝ) (T : TransformFns ℝ) (x0 x1 : ℝ) (y0 : List ℝ)
    (order : ℕ) (hout : x0 < T.domain.1 ∨ x1 < T.domain.1 ∨ T.domain.2 < x0 ∨ T.domain.2 < x1) :
    ivpTransformSetup solve noInf [x0, x1] y0 T order = .error .valueError := by
  have : ((if x1 < x0 then x1 else x0) < T.domain.1) ∨ (T.domain.2 < (if x0 < x1 then x1 else x0)) := by
    rcases hout with h | h | h | h
    · left; split <;> linarith
    · left; split <;> linarith
    · right; split <;> linarith
    · right; split <;> linarith
  rcases this with h | h <;>
    simp [ivpTransformSetup, pyMin, pyMax, h, bind, Except.bind, throw, throwThe, MonadExceptOf.throw]

/-! ## 5b. Initial data and returned derivatives are mutually inverse -/

/-- **`deriv_matrix_spec` (round trip)**, ODE orders 1, 2, 3 (matrix sizes 0, 1, 2 = `order − 1`), over the generated
text: when `g'(x) ≠ 0` (and with forward substitution for `scipy.linalg.solve`),
* mapping user data (derivatives w.r.t. `x`) to the integrator's initial data (`ivpTransformSetup`) and evaluating
  the returned callable (`transformSolutionToOriginalDomain`) on a dense output that starts at that data gives the
  user data back, and
* conversely, mapping the rows the callable returns at `x` through the initial-data mapping gives the integrator's
  values back. -/
theorem initial_data_roundtrip (T : TransformFns ℝ) (x x1 : ℝ)
    (hd0 : T.domain.1 ≤ x) (hd1 : T.domain.1 ≤ x1) (hd2 : x ≤ T.domain.2) (hd3 : x1 ≤ T.domain.2)
    (hne : T.deriv x ≠ 0) (c0 c1 c2 : ℝ) :
    (∀ res : SolveResult ℝ,
      (∀ init, ivpTransformSetup forwardSolve noInf [x, x1] [c0] T 1 = .ok ([T.transform x, T.transform x1], init) →
        res.sol (T.transform x) = init → transformSolutionToOriginalDomain res T false 1 x = some [c0]) ∧
      (∀ init, ivpTransformSetup forwardSolve noInf [x, x1] [c0, c1] T 2 = .ok ([T.transform x, T.transform x1], init) →
        res.sol (T.transform x) = init → transformSolutionToOriginalDomain res T false 2 x = some [c0, c1]) ∧
      (∀ init, ivpTransformSetup forwardSolve noInf [x, x1] [c0, c1, c2] T 3
          = .ok ([T.transform x, T.transform x1], init) →
        res.sol (T.transform x) = init → transformSolutionToOriginalDomain res T false 3 x = some [c0, c1, c2])) ∧
    (∀ res : SolveResult ℝ,
      (res.sol (T.transform x) = [c0] → ∃ rows, transformSolutionToOriginalDomain res T false 1 x = some rows ∧
        ivpTransformSetup forwardSolve noInf [x, x1] rows T 1 = .ok ([T.transform x, T.transform x1], [c0])) ∧
      (res.sol (T.transform x) = [c0, c1] → ∃ rows, transformSolutionToOriginalDomain res T false 2 x = some rows ∧
        ivpTransformSetup forwardSolve noInf [x, x1] rows T 2 = .ok ([T.transform x, T.transform x1], [c0, c1])) ∧
      (res.sol (T.transform x) = [c0, c1, c2] → ∃ rows, transformSolutionToOriginalDomain res T false 3 x = some rows ∧
        ivpTransformSetup forwardSolve noInf [x, x1] rows T 3
          = .ok ([T.transform x, T.transform x1], [c0, c1, c2]))) := by
  obtain ⟨k00, k01, k10, k11⟩ := derivMatrixAt_2 T x
  have j00 := derivMatrixAt_1 T x
  refine ⟨fun res => ⟨?_, ?_, ?_⟩, fun res => ⟨?_, ?_, ?_⟩⟩
  · intro init h hs
    rw [ivpTransformSetup_eq _ T x x1 c0 [] 1 (by omega) hd0 hd1 hd2 hd3] at h
    simp only [Except.ok.injEq, Prod.mk.injEq, true_and] at h
    subst h
    rw [transformSolution_eq res T 1 x c0 _ hs (by simp [forwardSolve_nil]) (by omega)]
    simp [forwardSolve_nil, matVec_nil]
  · intro init h hs
    rw [ivpTransformSetup_eq _ T x x1 c0 [c1] 2 (by omega) hd0 hd1 hd2 hd3] at h
    simp only [Except.ok.injEq, Prod.mk.injEq, true_and] at h
    subst h
    rw [transformSolution_eq res T 2 x c0 _ hs (by simp [forwardSolve_one]) (by omega)]
    simp only [Nat.add_one_sub_one, forwardSolve_one, matVec_one, j00, Option.some.injEq, List.cons.injEq, and_true,
      true_and]
    field_simp
  · intro init h hs
    rw [ivpTransformSetup_eq _ T x x1 c0 [c1, c2] 3 (by omega) hd0 hd1 hd2 hd3] at h
    simp only [Except.ok.injEq, Prod.mk.injEq, true_and] at h
    subst h
    rw [transformSolution_eq res T 3 x c0 _ hs (by simp [forwardSolve_two]) (by omega)]
    simp only [Nat.add_one_sub_one, forwardSolve_two, matVec_two, k00, k01, k10, k11, Option.some.injEq,
      List.cons.injEq, and_true, true_and]
    constructor
    · field_simp; ring
    · field_simp; ring
  · intro hs
    refine ⟨_, transformSolution_eq res T 1 x c0 [] hs rfl (by omega), ?_⟩
    rw [matVec_nil, ivpTransformSetup_eq _ T x x1 c0 [] 1 (by omega) hd0 hd1 hd2 hd3, forwardSolve_nil]
  · intro hs
    refine ⟨_, transformSolution_eq res T 2 x c0 [c1] hs rfl (by omega), ?_⟩
    rw [ivpTransformSetup_eq _ T x x1 c0 _ 2 (by omega) hd0 hd1 hd2 hd3]
    simp only [Nat.add_one_sub_one, matVec_one, forwardSolve_one, j00, Except.ok.injEq, Prod.mk.injEq, true_and,
      List.cons.injEq, and_true]
    field_simp
  · intro hs
    refine ⟨_, transformSolution_eq res T 3 x c0 [c1, c2] hs rfl (by omega), ?_⟩
    rw [ivpTransformSetup_eq _ T x x1 c0 _ 3 (by omega) hd0 hd1 hd2 hd3]
    simp only [Nat.add_one_sub_one, matVec_two, forwardSolve_two, k00, k01, k10, k11, Except.ok.injEq,
      Prod.mk.injEq, true_and, List.cons.injEq, and_true]
    constructor
    · field_simp; ring
    · field_simp; ring

/-- **`deriv_matrix_spec`** (summary at one point `x`; the parts are `deriv_matrix_entries`,
`deriv_matrix_maps_derivatives`, `deriv_matrix_invertible_iff`, `initial_data_roundtrip`): the matrix built by
`_derivative_transformation_matrix([tf.deriv, tf.deriv2, tf.deriv3], x, 3)` is the lower-triangular Faà di Bruno
matrix; it is invertible iff `g'(x) ≠ 0`; and then the initial-data mapping of `solve_ode_ivp` and the
back-transformation of the returned callable (third-order problem, leading 2 × 2 block; generated text) undo each
other. -/
theorem deriv_matrix_spec (T : TransformFns ℝ) (x : ℝ) :
    matRows (derivMatrixAt T x 3) 3
      = [[T.deriv x, 0, 0], [T.deriv2 x, T.deriv x ^ 2, 0],
         [T.deriv3 x, 3 * T.deriv x * T.deriv2 x, T.deriv x ^ 3]] ∧
    ((∀ b1 b2 b3 : ℝ, ∃! v : ℝ × ℝ × ℝ, matVec (derivMatrixAt T x 3) [v.1, v.2.1, v.2.2] = [b1, b2, b3])
      ↔ T.deriv x ≠ 0) ∧
    (T.deriv x ≠ 0 → ∀ x1 : ℝ, T.domain.1 ≤ x → T.domain.1 ≤ x1 → x ≤ T.domain.2 → x1 ≤ T.domain.2 →
      ∀ (c0 c1 c2 : ℝ) (res : SolveResult ℝ),
      (∀ init, ivpTransformSetup forwardSolve noInf [x, x1] [c0, c1, c2] T 3
          = .ok ([T.transform x, T.transform x1], init) →
        res.sol (T.transform x) = init → transformSolutionToOriginalDomain res T false 3 x = some [c0, c1, c2]) ∧
      (res.sol (T.transform x) = [c0, c1, c2] → ∃ rows, transformSolutionToOriginalDomain res T false 3 x = some rows ∧
        ivpTransformSetup forwardSolve noInf [x, x1] rows T 3
          = .ok ([T.transform x, T.transform x1], [c0, c1, c2]))) := by
  refine ⟨?_, (deriv_matrix_invertible_iff T x).2.2, fun hne x1 hd0 hd1 hd2 hd3 c0 c1 c2 res =>
    ⟨((initial_data_roundtrip T x x1 hd0 hd1 hd2 hd3 hne c0 c1 c2).1 res).2.2,
     ((initial_data_roundtrip T x x1 hd0 hd1 hd2 hd3 hne c0 c1 c2).2 res).2.2⟩⟩
  obtain ⟨h00, h01, h02, h10, h11, h12, h20, h21, h22⟩ := derivMatrixAt_3 T x
  simp [matRows, List.range, List.range.loop, h00, h01, h02, h10, h11, h12, h20, h21, h22]

/-- The library contract of `scipy.linalg.solve` holds for the model's forward substitution on the matrices the
code builds: `M · solve(M, b) = b` (sizes 1, 2, 3) when `g' ≠ 0`. -/
theorem forwardSolve_solves (T : TransformFns ℝ) (x : ℝ) (hne : T.deriv x ≠ 0) (b1 b2 b3 : ℝ) :
    matVec (derivMatrixAt T x 1) (forwardSolve (derivMatrixAt T x 1) [b1]) = [b1] ∧
    matVec (derivMatrixAt T x 2) (forwardSolve (derivMatrixAt T x 2) [b1, b2]) = [b1, b2] ∧
    matVec (derivMatrixAt T x 3) (forwardSolve (derivMatrixAt T x 3) [b1, b2, b3]) = [b1, b2, b3] := by
  obtain ⟨h00, h01, h02, h10, h11, h12, h20, h21, h22⟩ := derivMatrixAt_3 T x
  obtain ⟨k00, k01, k10, k11⟩ := derivMatrixAt_2 T x
  have j00 := derivMatrixAt_1 T x
  refine ⟨?_, ?_, ?_⟩
  · simp only [forwardSolve_one, matVec_one, j00, List.cons.injEq, and_true]; field_simp
  · simp only [forwardSolve_two, matVec_two, k00, k01, k10, k11, List.cons.injEq, and_true]
    constructor
    · field_simp; ring
    · field_simp; ring
  · simp only [forwardSolve_three, matVec_three, h00, h01, h02, h10, h11, h12, h20, h21, h22, List.cons.injEq,
      and_true]
    refine ⟨?_, ?_, ?_⟩
    · field_simp; ring
    · field_simp; ring
    · field_simp; ring

/-! ## 6. Boundary conditions of `solve_ode_bvp` -/

/-- The generated callback `bc` (list comprehension form). -/
theorem bvpBc_eq (bd : List (ℕ × ℕ × ℝ)) (ya yb : List ℝ) :
    bvpBc bd ya yb = bd.mapM (fun c : ℕ × ℕ × ℝ =>
        [ya, yb][c.1]?.bind fun bond => bond[c.2.1]?.bind fun v => some (v - c.2.2)) := by
  simp [bvpBc]

/-- **`bvp_bc_spec`** (generated `bc`).  For a list of conditions `(i, j, C)` with valid indices the callback
`bc(ya, yb)` returns one residual per condition, and all residuals vanish iff every condition
`(ya if i = 0 else yb)[j] = C` holds. -/
theorem bvp_bc_spec (bd : List (Nat × Nat × ℝ)) (ya yb : List ℝ)
    (hvalid : ∀ c ∈ bd, c.1 < 2 ∧ c.2.1 < ya.length ∧ c.2.1 < yb.length) :
    ∃ res, bvpBc bd ya yb = some res ∧ res.length = bd.length ∧
      ((∀ e ∈ res, e = 0) ↔ ∀ c ∈ bd, (if c.1 = 0 then ya else yb)[c.2.1]? = some c.2.2) := by
  simp only [bvpBc_eq]
  induction bd with
  | nil => exact ⟨[], by simp⟩
  | cons c t ih =>
    obtain ⟨res, hres, hlen, hiff⟩ := ih (fun c hc => hvalid c (List.mem_cons_of_mem _ hc))
    obtain ⟨hi, hja, hjb⟩ := hvalid c List.mem_cons_self
    obtain ⟨i, j, C⟩ := c
    simp only at hi hja hjb
    have hi' : i = 0 ∨ i = 1 := by omega
    rcases hi' with rfl | rfl
    · refine ⟨(ya[j] - C) :: res, ?_, by simp [hlen], ?_⟩
      · simp [List.mapM_cons, hres, List.getElem?_eq_getElem hja]
      · simp only [List.mem_cons, forall_eq_or_imp, hiff, List.getElem?_eq_getElem hja, ↓reduceIte,
          Option.some.injEq, sub_eq_zero]
    · refine ⟨(yb[j] - C) :: res, ?_, by simp [hlen], ?_⟩
      · simp [List.mapM_cons, hres, List.getElem?_eq_getElem hjb]
      · simp only [List.mem_cons, forall_eq_or_imp, hiff, List.getElem?_eq_getElem hjb, one_ne_zero,
          ↓reduceIte, Option.some.injEq, sub_eq_zero]

example : ∃ res, bvpBc [(0, 0, (3 : ℝ)), (1, 1, 5)] [3, 7] [4, 5] = some res ∧ ∀ e ∈ res, e = 0 := by
  obtain ⟨res, h, _, hiff⟩ := bvp_bc_spec [(0, 0, (3 : ℝ)), (1, 1, 5)] [3, 7] [4, 5] (by simp)
  exact ⟨res, h, hiff.mpr (by simp)⟩

/-- What a boundary condition of the transformed problem means for the returned callable (order 3; generated
`transformSolutionToOriginalDomain` on a dense output with the values `[Y₀, Y₁, Y₂]` at `g(x)`): a condition on
row 0 is a condition on `y(x)` itself; a condition `Y₁ = C` (documented as "with respect to the new coordinate")
prescribes `y'(x) = g'(x)·C`; `Y₂ = C` prescribes `y''(x) = g''(x)·Y₁ + g'(x)²·C`. -/
theorem bvp_bc_meaning (T : TransformFns ℝ) (res : SolveResult ℝ) (x Y0 Y1 Y2 : ℝ)
    (hsol : res.sol (T.transform x) = [Y0, Y1, Y2]) :
    transformSolutionToOriginalDomain res T false 3 x
      = some [Y0, T.deriv x * Y1, T.deriv2 x * Y1 + T.deriv x ^ 2 * Y2] := by
  obtain ⟨k00, k01, k10, k11⟩ := derivMatrixAt_2 T x
  rw [transformSolution_eq res T 3 x Y0 [Y1, Y2] hsol rfl (by omega)]
  simp [matVec_two, k00, k01, k10, k11]

/-- Orders 2 and 1 alike. -/
theorem returned_rows₂ (T : TransformFns ℝ) (res : SolveResult ℝ) (x Y0 Y1 : ℝ)
    (hsol : res.sol (T.transform x) = [Y0, Y1]) :
    transformSolutionToOriginalDomain res T false 2 x = some [Y0, T.deriv x * Y1] := by
  rw [transformSolution_eq res T 2 x Y0 [Y1] hsol rfl (by omega)]
  simp [matVec_one, derivMatrixAt_1]

theorem returned_rows₁ (T : TransformFns ℝ) (res : SolveResult ℝ) (x Y0 : ℝ)
    (hsol : res.sol (T.transform x) = [Y0]) :
    transformSolutionToOriginalDomain res T false 1 x = some [Y0] := by
  rw [transformSolution_eq res T 1 x Y0 [] hsol rfl (by omega)]
  simp [matVec_nil]

/-! ## 7. End to end, under the integrator contract -/

/-- **Direct branch (`transform=None`), order 3.** If the integrator's output `Y₀, Y₁, Y₂` solves the first-order
system `func` the library hands to it (generated `ivpFunc … none …`), then `Y₀` solves the stated ODE with `Y₁ = Y₀'`,
`Y₂ = Y₀''`.  Hypothesis `ha`: non-vanishing leading coefficient. -/
theorem direct_contract_gives_solution₃ {s : Set ℝ} (c0 c1 c2 c3 : Coeff ℝ) (f : ℝ → ℝ)
    (ha : ∀ x ∈ s, c3.at x ≠ 0) (Y0 Y1 Y2 : ℝ → ℝ)
    (hsol : ∀ x ∈ s, ∃ D0 D1 D2, ivpFunc [c0, c1, c2, c3] none f x [Y0 x, Y1 x, Y2 x] = some [D0, D1, D2] ∧
      HasDerivAt Y0 D0 x ∧ HasDerivAt Y1 D1 x ∧ HasDerivAt Y2 D2 x) :
    ∀ x ∈ s, HasDerivAt Y0 (Y1 x) x ∧ HasDerivAt Y1 (Y2 x) x ∧ ∃ y3, HasDerivAt Y2 y3 x ∧
      c0.at x * Y0 x + c1.at x * Y1 x + c2.at x * Y2 x + c3.at x * y3 = f x := by
  intro x hx
  obtain ⟨D0, D1, D2, hD, h0, h1, h2⟩ := hsol x hx
  rw [ivpFunc_direct_3] at hD
  simp only [Option.some.injEq, List.cons.injEq, and_true] at hD
  obtain ⟨rfl, rfl, rfl⟩ := hD
  refine ⟨h0, h1, _, h2, ?_⟩
  have := ha x hx
  field_simp
  ring

/-- **Transform branch, order 1.** -/
theorem transformed_contract_gives_solution₁ {T : TransformFns ℝ} {s : Set ℝ} (hT : Admissible T s)
    (hne : ∀ x ∈ s, T.deriv x ≠ 0) (c0 c1 : Coeff ℝ) (f : ℝ → ℝ) (ha : ∀ x ∈ s, c1.at x ≠ 0)
    (Y0 : ℝ → ℝ)
    (hsol : ∀ x ∈ s, ∃ D0, ivpFunc [c0, c1] (some T) f (T.transform x) [Y0 (T.transform x)] = some [D0] ∧
      HasDerivAt Y0 D0 (T.transform x)) :
    ∃ y0 y1 : ℝ → ℝ,
      (∀ x, transformSolutionToOriginalDomain (okResult fun r => [Y0 r]) T false 1 x = some [y0 x]) ∧
      ∀ x ∈ s, HasDerivAt y0 (y1 x) x ∧ c0.at x * y0 x + c1.at x * y1 x = f x := by
  refine ⟨fun t => Y0 (T.transform t), fun t => T.deriv t *
    ((f t - coeffB_1_0 (c0.at t) (c1.at t) (T.deriv t) (T.deriv2 t) (T.deriv3 t) * Y0 (T.transform t))
      / coeffB_1_1 (c0.at t) (c1.at t) (T.deriv t) (T.deriv2 t) (T.deriv3 t)), ?_, ?_⟩
  · intro x; exact returned_rows₁ T _ x _ rfl
  · intro x hx
    obtain ⟨D0, hD, h0⟩ := hsol x hx
    rw [ivpFunc_transformed_1] at hD
    simp only [hT.left_inv x hx, Option.some.injEq, List.cons.injEq, and_true] at hD
    subst hD
    refine ⟨chain_1 (Y1 := fun _ => _) (hT.d1 x hx) h0, ?_⟩
    have hb : coeffB_1_1 (c0.at x) (c1.at x) (T.deriv x) (T.deriv2 x) (T.deriv3 x) ≠ 0 :=
      (transformed_leading_coeff (c0.at x) (c1.at x) 0 0 (T.deriv x) (T.deriv2 x) (T.deriv3 x)).2.1.mpr ⟨ha x hx, hne x hx⟩
    simp only
    rw [← transformed_ode_pointwise₁ _ _ _ (T.deriv2 x) (T.deriv3 x)]
    field_simp
    ring

/-- **Transform branch, order 2.** -/
theorem transformed_contract_gives_solution₂ {T : TransformFns ℝ} {s : Set ℝ} (hT : Admissible T s)
    (hne : ∀ x ∈ s, T.deriv x ≠ 0) (c0 c1 c2 : Coeff ℝ) (f : ℝ → ℝ) (ha : ∀ x ∈ s, c2.at x ≠ 0)
    (Y0 Y1 : ℝ → ℝ)
    (hsol : ∀ x ∈ s, ∃ D0 D1, ivpFunc [c0, c1, c2] (some T) f (T.transform x)
        [Y0 (T.transform x), Y1 (T.transform x)] = some [D0, D1] ∧
      HasDerivAt Y0 D0 (T.transform x) ∧ HasDerivAt Y1 D1 (T.transform x)) :
    ∃ y0 y1 y2 : ℝ → ℝ,
      (∀ x, transformSolutionToOriginalDomain (okResult fun r => [Y0 r, Y1 r]) T false 2 x = some [y0 x, y1 x]) ∧
      ∀ x ∈ s, HasDerivAt y0 (y1 x) x ∧ HasDerivAt y1 (y2 x) x ∧
        c0.at x * y0 x + c1.at x * y1 x + c2.at x * y2 x = f x := by
  refine ⟨fun t => Y0 (T.transform t), fun t => T.deriv t * Y1 (T.transform t),
    fun t => T.deriv2 t * Y1 (T.transform t) + T.deriv t ^ 2 *
      ((f t - (coeffB_2_0 (c0.at t) (c1.at t) (c2.at t) (T.deriv t) (T.deriv2 t) (T.deriv3 t)
          * Y0 (T.transform t)
        + coeffB_2_1 (c0.at t) (c1.at t) (c2.at t) (T.deriv t) (T.deriv2 t) (T.deriv3 t)
          * Y1 (T.transform t)))
      / coeffB_2_2 (c0.at t) (c1.at t) (c2.at t) (T.deriv t) (T.deriv2 t) (T.deriv3 t)), ?_, ?_⟩
  · intro x; exact returned_rows₂ T _ x _ _ rfl
  · intro x hx
    obtain ⟨D0, D1, hD, h0, h1⟩ := hsol x hx
    rw [ivpFunc_transformed_2] at hD
    simp only [hT.left_inv x hx, Option.some.injEq, List.cons.injEq, and_true] at hD
    obtain ⟨rfl, rfl⟩ := hD
    refine ⟨chain_1 (hT.d1 x hx) h0, ?_, ?_⟩
    · exact chain_2 (Y2 := fun _ => _) (hT.d1 x hx) (hT.d2 x hx) h1
    have hb : coeffB_2_2 (c0.at x) (c1.at x) (c2.at x) (T.deriv x) (T.deriv2 x) (T.deriv3 x)
        ≠ 0 := (transformed_leading_coeff (c0.at x) (c1.at x) (c2.at x) 0 (T.deriv x) (T.deriv2 x)
        (T.deriv3 x)).2.2.1.mpr ⟨ha x hx, hne x hx⟩
    simp only
    rw [← transformed_ode_pointwise₂ _ _ _ _ _ (T.deriv3 x)]
    field_simp
    ring

/-- **Transform branch, order 3** (both `solve_ode_ivp` and `solve_ode_bvp` use the same `func` and the same
returned callable).  If the integrator's output `Y₀, Y₁, Y₂` (functions of `r`) solves the first-order system
`func` handed to it (generated `ivpFunc … (some T) …`: coefficients from the generated `coeffB`, explicit form from the
generated `rearrangeToExplicitOde`, everything evaluated at `inverse r`), then the rows `y₀, y₁, y₂` of the
returned callable (generated `transformSolutionToOriginalDomain` = `M(x)`-back-transformation of the dense output at `g(x)`) satisfy
`y₁ = y₀'`, `y₂ = y₀''` **with respect to the original variable**, and `y₀` solves the stated ODE
`a₀y + a₁y' + a₂y'' + a₃y''' = f` on `s`.
Hypotheses: transform admissible on `s` with non-vanishing `g'`, leading coefficient `a₃ ≠ 0` on `s`. -/
theorem transformed_contract_gives_solution₃ {T : TransformFns ℝ} {s : Set ℝ} (hT : Admissible T s)
    (hne : ∀ x ∈ s, T.deriv x ≠ 0) (c0 c1 c2 c3 : Coeff ℝ) (f : ℝ → ℝ) (ha : ∀ x ∈ s, c3.at x ≠ 0)
    (Y0 Y1 Y2 : ℝ → ℝ)
    (hsol : ∀ x ∈ s, ∃ D0 D1 D2, ivpFunc [c0, c1, c2, c3] (some T) f (T.transform x)
        [Y0 (T.transform x), Y1 (T.transform x), Y2 (T.transform x)] = some [D0, D1, D2] ∧
      HasDerivAt Y0 D0 (T.transform x) ∧ HasDerivAt Y1 D1 (T.transform x) ∧ HasDerivAt Y2 D2 (T.transform x)) :
    ∃ y0 y1 y2 y3 : ℝ → ℝ,
      (∀ x, transformSolutionToOriginalDomain (okResult fun r => [Y0 r, Y1 r, Y2 r]) T false 3 x = some [y0 x, y1 x, y2 x]) ∧
      ∀ x ∈ s, HasDerivAt y0 (y1 x) x ∧ HasDerivAt y1 (y2 x) x ∧ HasDerivAt y2 (y3 x) x ∧
        c0.at x * y0 x + c1.at x * y1 x + c2.at x * y2 x + c3.at x * y3 x = f x := by
  refine ⟨fun t => Y0 (T.transform t), fun t => T.deriv t * Y1 (T.transform t),
    fun t => T.deriv2 t * Y1 (T.transform t) + T.deriv t ^ 2 * Y2 (T.transform t),
    fun t => T.deriv3 t * Y1 (T.transform t) + 3 * T.deriv t * T.deriv2 t * Y2 (T.transform t) + T.deriv t ^ 3 *
      ((f t - (coeffB_3_0 (c0.at t) (c1.at t) (c2.at t) (c3.at t) (T.deriv t)
            (T.deriv2 t) (T.deriv3 t) * Y0 (T.transform t)
        + (coeffB_3_1 (c0.at t) (c1.at t) (c2.at t) (c3.at t) (T.deriv t)
            (T.deriv2 t) (T.deriv3 t) * Y1 (T.transform t)
        + coeffB_3_2 (c0.at t) (c1.at t) (c2.at t) (c3.at t) (T.deriv t)
            (T.deriv2 t) (T.deriv3 t) * Y2 (T.transform t))))
      / coeffB_3_3 (c0.at t) (c1.at t) (c2.at t) (c3.at t) (T.deriv t)
            (T.deriv2 t) (T.deriv3 t)), ?_, ?_⟩
  · intro x
    exact bvp_bc_meaning T _ x _ _ _ rfl
  · intro x hx
    obtain ⟨D0, D1, D2, hD, h0, h1, h2⟩ := hsol x hx
    rw [ivpFunc_transformed_3] at hD
    simp only [hT.left_inv x hx, Option.some.injEq, List.cons.injEq, and_true] at hD
    obtain ⟨rfl, rfl, rfl⟩ := hD
    refine ⟨chain_1 (hT.d1 x hx) h0, chain_2 (hT.d1 x hx) (hT.d2 x hx) h1, ?_, ?_⟩
    · exact chain_3 (Y3 := fun _ => _) (hT.d1 x hx) (hT.d2 x hx) (hT.d3 x hx) h1 h2
    have hb : coeffB_3_3 (c0.at x) (c1.at x) (c2.at x) (c3.at x) (T.deriv x)
        (T.deriv2 x) (T.deriv3 x) ≠ 0 :=
      (transformed_leading_coeff (c0.at x) (c1.at x) (c2.at x) (c3.at x) (T.deriv x)
        (T.deriv2 x) (T.deriv3 x)).2.2.2.mpr ⟨ha x hx, hne x hx⟩
    simp only
    rw [← transformed_ode_pointwise₃]
    field_simp
    ring

/-! ## 8. Prescribed conditions -/

/-- **Initial conditions (`solve_ode_ivp`, transform branch), any order with `order − 1 ≤ 3`, under the contract of
`scipy.linalg.solve`** (`hsolve`: the returned vector solves `M(x₀)·v = y0[1:]`).  The generated block
`ivpTransformSetup` hands the integrator the span `(g(x₀), g(x₁))` and mapped data; if the integrator's output starts
at that data (contract of `solve_ivp`: `sol(t₀) = y0`), the generated callable reproduces the user's initial values
`h :: t` *with respect to the original variable* at `x₀`.  (Unmapped data, a matrix built at another point than `x₀`
on either side, or an untransformed span falsify this statement.) -/
theorem ivp_initial_conditions_of_contract (solve : Mat ℝ → List ℝ → List ℝ) (T : TransformFns ℝ) (x0 x1 : ℝ)
    (hd0 : T.domain.1 ≤ x0) (hd1 : T.domain.1 ≤ x1) (hd2 : x0 ≤ T.domain.2) (hd3 : x1 ≤ T.domain.2)
    (h : ℝ) (t : List ℝ) (ht : t.length ≤ 3)
    (hsolve : matVec (derivMatrixAt T x0 t.length) (solve (derivMatrixAt T x0 t.length) t) = t) :
    ∃ init, ivpTransformSetup solve noInf [x0, x1] (h :: t) T (t.length + 1)
        = .ok ([T.transform x0, T.transform x1], init) ∧
      ∀ res : SolveResult ℝ, res.sol (T.transform x0) = init →
        transformSolutionToOriginalDomain res T false (t.length + 1) x0 = some (h :: t) := by
  refine ⟨_, ivpTransformSetup_eq solve T x0 x1 h t (t.length + 1) (by simpa using ht) hd0 hd1 hd2 hd3, ?_⟩
  intro res hs
  have hl : (solve (derivMatrixAt T x0 t.length) t).length = t.length := by
    have := congrArg List.length hsolve
    rwa [matVec_length] at this
  rw [transformSolution_eq res T (t.length + 1) x0 h _ hs (by simpa using hl) (by simpa using ht)]
  simp only [Nat.add_one_sub_one, hsolve]

/-- **Initial conditions (`solve_ode_ivp`, transform branch), orders 1–3**, with forward substitution for
`scipy.linalg.solve` and `g'(x₀) ≠ 0`: the generated `ivpTransformSetup` hands the integrator the span
`(g(x₀), g(x₁))` and the mapped data; if the integrator's output starts at that data (contract: `sol(t₀) = y0`), the
returned callable reproduces the user's initial values *with respect to the original variable* at `x₀`. -/
theorem ivp_initial_conditions (T : TransformFns ℝ) (x0 x1 : ℝ)
    (hd0 : T.domain.1 ≤ x0) (hd1 : T.domain.1 ≤ x1) (hd2 : x0 ≤ T.domain.2) (hd3 : x1 ≤ T.domain.2)
    (hne : T.deriv x0 ≠ 0) (d0 d1 d2 : ℝ) :
    (∀ (res : SolveResult ℝ) span init, ivpTransformSetup forwardSolve noInf [x0, x1] [d0] T 1 = .ok (span, init) →
        res.sol (T.transform x0) = init →
        span = [T.transform x0, T.transform x1] ∧ transformSolutionToOriginalDomain res T false 1 x0 = some [d0]) ∧
    (∀ (res : SolveResult ℝ) span init, ivpTransformSetup forwardSolve noInf [x0, x1] [d0, d1] T 2 = .ok (span, init) →
        res.sol (T.transform x0) = init →
        span = [T.transform x0, T.transform x1] ∧ transformSolutionToOriginalDomain res T false 2 x0 = some [d0, d1]) ∧
    (∀ (res : SolveResult ℝ) span init, ivpTransformSetup forwardSolve noInf [x0, x1] [d0, d1, d2] T 3
          = .ok (span, init) → res.sol (T.transform x0) = init →
        span = [T.transform x0, T.transform x1] ∧
          transformSolutionToOriginalDomain res T false 3 x0 = some [d0, d1, d2]) := by
  obtain ⟨f1, f2, _⟩ := forwardSolve_solves T x0 hne d1 d2 0
  have key : ∀ (t : List ℝ), t.length ≤ 3 →
      matVec (derivMatrixAt T x0 t.length) (forwardSolve (derivMatrixAt T x0 t.length) t) = t →
      ∀ (res : SolveResult ℝ) span init,
        ivpTransformSetup forwardSolve noInf [x0, x1] (d0 :: t) T (t.length + 1) = .ok (span, init) →
        res.sol (T.transform x0) = init →
        span = [T.transform x0, T.transform x1] ∧
          transformSolutionToOriginalDomain res T false (t.length + 1) x0 = some (d0 :: t) := by
    intro t ht hs res span init hsetup hsol
    obtain ⟨init', h1, h2⟩ := ivp_initial_conditions_of_contract forwardSolve T x0 x1 hd0 hd1 hd2 hd3 d0 t ht hs
    rw [h1] at hsetup
    simp only [Except.ok.injEq, Prod.mk.injEq] at hsetup
    obtain ⟨rfl, rfl⟩ := hsetup
    exact ⟨rfl, h2 res hsol⟩
  exact ⟨key [] (by simp) (by simp [forwardSolve_nil, matVec_nil]), key [d1] (by simp) f1, key [d1, d2] (by simp) f2⟩

/-- **Boundary conditions (`solve_ode_bvp`, transform branch), order 3.** If the residuals of the generated callback
`bc` vanish at the integrator's end values `ya = sol(g(x_a))`, `yb = sol(g(x_b))` (contract of `solve_bvp`, within
`tol`), then every condition `(i, 0, C)` holds for the returned function value `y(x_i) = C`, every `(i, 1, C)`
gives `y'(x_i) = g'(x_i)·C`, and every `(i, 2, C)` gives `y''(x_i) = g''(x_i)·Y₁ + g'(x_i)²·C`
(derivative conditions are taken with respect to the new coordinate, as documented). -/
theorem bvp_boundary_conditions (T : TransformFns ℝ) (xa xb : ℝ) (sol : SolveResult ℝ)
    (Ya0 Ya1 Ya2 Yb0 Yb1 Yb2 : ℝ)
    (hya : sol.sol (T.transform xa) = [Ya0, Ya1, Ya2]) (hyb : sol.sol (T.transform xb) = [Yb0, Yb1, Yb2])
    (bd : List (Nat × Nat × ℝ)) (hvalid : ∀ c ∈ bd, c.1 < 2 ∧ c.2.1 < 3)
    (res : List ℝ) (hres : bvpBc bd (sol.sol (T.transform xa)) (sol.sol (T.transform xb)) = some res)
    (hzero : ∀ e ∈ res, e = 0) :
    ∃ ya0 ya1 ya2 yb0 yb1 yb2 : ℝ,
      transformSolutionToOriginalDomain sol T false 3 xa = some [ya0, ya1, ya2] ∧
      transformSolutionToOriginalDomain sol T false 3 xb = some [yb0, yb1, yb2] ∧
      ∀ c ∈ bd,
        (c.1 = 0 ∧ c.2.1 = 0 → ya0 = c.2.2) ∧ (c.1 = 1 ∧ c.2.1 = 0 → yb0 = c.2.2) ∧
        (c.1 = 0 ∧ c.2.1 = 1 → ya1 = T.deriv xa * c.2.2) ∧ (c.1 = 1 ∧ c.2.1 = 1 → yb1 = T.deriv xb * c.2.2) ∧
        (c.1 = 0 ∧ c.2.1 = 2 → ya2 = T.deriv2 xa * Ya1 + T.deriv xa ^ 2 * c.2.2) ∧
        (c.1 = 1 ∧ c.2.1 = 2 → yb2 = T.deriv2 xb * Yb1 + T.deriv xb ^ 2 * c.2.2) := by
  rw [hya, hyb] at hres
  obtain ⟨res', hres', _, hiff⟩ := bvp_bc_spec bd [Ya0, Ya1, Ya2] [Yb0, Yb1, Yb2]
    (fun c hc => ⟨(hvalid c hc).1, by simpa using (hvalid c hc).2, by simpa using (hvalid c hc).2⟩)
  rw [hres] at hres'
  obtain rfl := Option.some.inj hres'
  have hall := hiff.mp hzero
  refine ⟨Ya0, T.deriv xa * Ya1, T.deriv2 xa * Ya1 + T.deriv xa ^ 2 * Ya2, Yb0, T.deriv xb * Yb1,
    T.deriv2 xb * Yb1 + T.deriv xb ^ 2 * Yb2, bvp_bc_meaning T sol xa _ _ _ hya, bvp_bc_meaning T sol xb _ _ _ hyb, ?_⟩
  intro c hc
  have h := hall c hc
  obtain ⟨i, j, C⟩ := c
  refine ⟨?_, ?_, ?_, ?_, ?_, ?_⟩ <;> rintro ⟨rfl, rfl⟩ <;> simp at h <;> simp [h]

/-- Non-vacuity of `bvp_boundary_conditions`: `g = exp`, end points `0, 1`, integrator output `r², 2r, 2`,
conditions `Y(g(0)) = 1`, `Y'(g(1)) = 2e`, `Y''(g(0)) = 2`: the residuals vanish, and the returned rows at the end
points are `e^{2x}, 2e^{2x}, 4e^{2x}` evaluated there. -/
example : ∃ ya0 ya1 ya2 yb0 yb1 yb2 : ℝ,
    transformSolutionToOriginalDomain (okResult fun r => [r ^ 2, 2 * r, 2]) expT false 3 0 = some [ya0, ya1, ya2] ∧
    transformSolutionToOriginalDomain (okResult fun r => [r ^ 2, 2 * r, 2]) expT false 3 1 = some [yb0, yb1, yb2] ∧
    ya0 = 1 ∧ yb1 = expT.deriv 1 * (2 * Real.exp 1) := by
  obtain ⟨ya0, ya1, ya2, yb0, yb1, yb2, h1, h2, h3⟩ :=
    bvp_boundary_conditions expT 0 1 (okResult fun r => [r ^ 2, 2 * r, 2]) _ _ _ _ _ _ rfl rfl
      [(0, 0, 1), (1, 1, 2 * Real.exp 1), (0, 2, 2)] (by simp) [0, 0, 0]
      (by simp [bvpBc_eq, okResult, expT]) (by simp)
  refine ⟨ya0, ya1, ya2, yb0, yb1, yb2, h1, h2, ?_, ?_⟩
  · exact (h3 (0, 0, 1) (by simp)).1 ⟨rfl, rfl⟩
  · exact (h3 (1, 1, 2 * Real.exp 1) (by simp)).2.2.2.1 ⟨rfl, rfl⟩

/-- Non-vacuity of the initial-data theorems: `g = exp` (domain `(-1000, 1000)`), span `(0.3, 1)`, data `1, 2, 3`. -/
example : ∃ init, ivpTransformSetup forwardSolve noInf [0.3, 1] [1, 2, 3] expT 3
      = .ok ([expT.transform 0.3, expT.transform 1], init) ∧
    ∀ res : SolveResult ℝ, res.sol (expT.transform 0.3) = init →
      transformSolutionToOriginalDomain res expT false 3 0.3 = some [1, 2, 3] := by
  have hd : expT.domain = (-1000, 1000) := rfl
  refine ivp_initial_conditions_of_contract forwardSolve expT 0.3 1 (by rw [hd]; norm_num) (by rw [hd]; norm_num)
    (by rw [hd]; norm_num) (by rw [hd]; norm_num) 1 [2, 3] (by simp) ?_
  exact (forwardSolve_solves expT 0.3 (Real.exp_pos _).ne' 2 3 0).2.1

/-! ## 9. Through a transform = directly -/

/-- Full statement of the last clause (order 3; orders 1, 2 alike): on an interval `[a, b]` inside the domain, with
continuous coefficients, an exact integrator run through the transform and an exact integrator run directly return
the same rows at every point.  The data of the transformed run are the ones the generated `ivpTransformSetup` produces
(`scipy.linalg.solve` under its contract `hsolve`).  Proved in `Props/C15/Unique.lean`
(`through_transform_eq_direct`) from `through_transform_eq_direct_partial` below and the uniqueness of solutions of
linear initial-value problems (Grönwall, Mathlib). -/
def through_transform_eq_direct_full : Prop :=
  ∀ (T : TransformFns ℝ) (s : Set ℝ) (a b : ℝ), Admissible T s → Set.Icc a b ⊆ s → (∀ x ∈ s, T.deriv x ≠ 0) →
    T.domain.1 ≤ a → a ≤ b → b ≤ T.domain.2 →
  ∀ (c0 c1 c2 c3 : Coeff ℝ) (f : ℝ → ℝ),
    ContinuousOn (fun x => c0.at x) (Set.Icc a b) → ContinuousOn (fun x => c1.at x) (Set.Icc a b) →
    ContinuousOn (fun x => c2.at x) (Set.Icc a b) → ContinuousOn (fun x => c3.at x) (Set.Icc a b) →
    (∀ x ∈ s, c3.at x ≠ 0) →
  ∀ (solve : Mat ℝ → List ℝ → List ℝ) (Y0 Y1 Y2 Z0 Z1 Z2 : ℝ → ℝ) (d0 d1 d2 : ℝ),
    matVec (derivMatrixAt T a 2) (solve (derivMatrixAt T a 2) [d1, d2]) = [d1, d2] →
    (∀ x ∈ s, ∃ D0 D1 D2, ivpFunc [c0, c1, c2, c3] (some T) f (T.transform x)
        [Y0 (T.transform x), Y1 (T.transform x), Y2 (T.transform x)] = some [D0, D1, D2] ∧
      HasDerivAt Y0 D0 (T.transform x) ∧ HasDerivAt Y1 D1 (T.transform x) ∧ HasDerivAt Y2 D2 (T.transform x)) →
    (∀ x ∈ s, ∃ D0 D1 D2, ivpFunc [c0, c1, c2, c3] none f x [Z0 x, Z1 x, Z2 x] = some [D0, D1, D2] ∧
      HasDerivAt Z0 D0 x ∧ HasDerivAt Z1 D1 x ∧ HasDerivAt Z2 D2 x) →
    ivpTransformSetup solve noInf [a, b] [d0, d1, d2] T 3
      = .ok ([T.transform a, T.transform b], [Y0 (T.transform a), Y1 (T.transform a), Y2 (T.transform a)]) →
    [Z0 a, Z1 a, Z2 a] = [d0, d1, d2] →
    ∀ x ∈ Set.Icc a b,
      transformSolutionToOriginalDomain (okResult fun r => [Y0 r, Y1 r, Y2 r]) T false 3 x = some [Z0 x, Z1 x, Z2 x]

/-- Proved part of the last clause: under the integrator contract on both routes, the rows returned through the
transform and the rows returned directly are derivative chains **in the original variable** of solutions of the
**same** ODE with the **same** initial values at `a` — i.e. two solutions of one initial-value problem
(uniqueness of that solution is added in `Props/C15/Unique.lean`). -/
theorem through_transform_eq_direct_partial {T : TransformFns ℝ} {s : Set ℝ} {a b : ℝ} (hT : Admissible T s)
    (_has : a ∈ s) (hne : ∀ x ∈ s, T.deriv x ≠ 0)
    (hd0 : T.domain.1 ≤ a) (hd1 : T.domain.1 ≤ b) (hd2 : a ≤ T.domain.2) (hd3 : b ≤ T.domain.2)
    (c0 c1 c2 c3 : Coeff ℝ) (f : ℝ → ℝ)
    (ha : ∀ x ∈ s, c3.at x ≠ 0) (solve : Mat ℝ → List ℝ → List ℝ) (Y0 Y1 Y2 Z0 Z1 Z2 : ℝ → ℝ) (d0 d1 d2 : ℝ)
    (hsolve : matVec (derivMatrixAt T a 2) (solve (derivMatrixAt T a 2) [d1, d2]) = [d1, d2])
    (hY : ∀ x ∈ s, ∃ D0 D1 D2, ivpFunc [c0, c1, c2, c3] (some T) f (T.transform x)
        [Y0 (T.transform x), Y1 (T.transform x), Y2 (T.transform x)] = some [D0, D1, D2] ∧
      HasDerivAt Y0 D0 (T.transform x) ∧ HasDerivAt Y1 D1 (T.transform x) ∧ HasDerivAt Y2 D2 (T.transform x))
    (hZ : ∀ x ∈ s, ∃ D0 D1 D2, ivpFunc [c0, c1, c2, c3] none f x [Z0 x, Z1 x, Z2 x] = some [D0, D1, D2] ∧
      HasDerivAt Z0 D0 x ∧ HasDerivAt Z1 D1 x ∧ HasDerivAt Z2 D2 x)
    (hY0 : ivpTransformSetup solve noInf [a, b] [d0, d1, d2] T 3
      = .ok ([T.transform a, T.transform b], [Y0 (T.transform a), Y1 (T.transform a), Y2 (T.transform a)]))
    (hZ0 : [Z0 a, Z1 a, Z2 a] = [d0, d1, d2]) :
    ∃ y0 y1 y2 y3 z3 : ℝ → ℝ,
      (∀ x, transformSolutionToOriginalDomain (okResult fun r => [Y0 r, Y1 r, Y2 r]) T false 3 x
        = some [y0 x, y1 x, y2 x]) ∧
      (∀ x ∈ s, HasDerivAt y0 (y1 x) x ∧ HasDerivAt y1 (y2 x) x ∧ HasDerivAt y2 (y3 x) x ∧
        c0.at x * y0 x + c1.at x * y1 x + c2.at x * y2 x + c3.at x * y3 x = f x) ∧
      (∀ x ∈ s, HasDerivAt Z0 (Z1 x) x ∧ HasDerivAt Z1 (Z2 x) x ∧ HasDerivAt Z2 (z3 x) x ∧
        c0.at x * Z0 x + c1.at x * Z1 x + c2.at x * Z2 x + c3.at x * z3 x = f x) ∧
      [y0 a, y1 a, y2 a] = [d0, d1, d2] ∧ [Z0 a, Z1 a, Z2 a] = [d0, d1, d2] := by
  obtain ⟨y0, y1, y2, y3, hret, hode⟩ := transformed_contract_gives_solution₃ hT hne c0 c1 c2 c3 f ha Y0 Y1 Y2 hY
  have hdir := direct_contract_gives_solution₃ c0 c1 c2 c3 f ha Z0 Z1 Z2 hZ
  choose! z3 hz3 using fun x hx => (hdir x hx).2.2
  refine ⟨y0, y1, y2, y3, z3, hret, hode, fun x hx => ⟨(hdir x hx).1, (hdir x hx).2.1, hz3 x hx⟩, ?_, hZ0⟩
  obtain ⟨init, h1, h2⟩ := ivp_initial_conditions_of_contract solve T a b hd0 hd1 hd2 hd3 d0 [d1, d2] (by simp) hsolve
  have h1' : ivpTransformSetup solve noInf [a, b] [d0, d1, d2] T 3 = .ok ([T.transform a, T.transform b], init) := h1
  rw [h1'] at hY0
  simp only [Except.ok.injEq, Prod.mk.injEq, true_and] at hY0
  have h3 : transformSolutionToOriginalDomain (okResult fun r => [Y0 r, Y1 r, Y2 r]) T false 3 a = some [d0, d1, d2] :=
    h2 (okResult fun r => [Y0 r, Y1 r, Y2 r]) (by simp [okResult, hY0])
  have := (hret a).symm.trans h3
  exact Option.some.inj this

/-- Non-vacuity of the end-to-end statements: `g = exp` on ℝ, ODE `y''' = 8e^{2x}`; the integrator output
`Y₀ = r², Y₁ = 2r, Y₂ = 2` satisfies the contract, and the returned rows are `e^{2x}, 2e^{2x}, 4e^{2x}`. -/
example : ∃ y0 y1 y2 y3 : ℝ → ℝ,
    (∀ x, transformSolutionToOriginalDomain (okResult fun r => [r ^ 2, 2 * r, 2]) expT false 3 x = some [y0 x, y1 x, y2 x]) ∧
    ∀ x ∈ (Set.univ : Set ℝ), HasDerivAt y0 (y1 x) x ∧ HasDerivAt y1 (y2 x) x ∧ HasDerivAt y2 (y3 x) x ∧
      (Coeff.const 0).at x * y0 x + (Coeff.const 0).at x * y1 x + (Coeff.const 0).at x * y2 x
        + (Coeff.const 1).at x * y3 x = 8 * Real.exp (2 * x) := by
  refine transformed_contract_gives_solution₃ expT_admissible (fun x _ => (Real.exp_pos x).ne')
    (.const 0) (.const 0) (.const 0) (.const 1) (fun x => 8 * Real.exp (2 * x))
    (fun x _ => by simp [Coeff.at]) (fun r => r ^ 2) (fun r => 2 * r) (fun _ => 2) ?_
  intro x _
  refine ⟨2 * expT.transform x, 2, 0, ?_, by simpa using hasDerivAt_pow 2 (expT.transform x),
    by simpa using (hasDerivAt_id (expT.transform x)).const_mul (2 : ℝ), hasDerivAt_const _ _⟩
  rw [ivpFunc_transformed_3]
  have e2 : Real.exp (2 * x) = Real.exp x ^ 2 := by rw [← Real.exp_nat_mul]; norm_num
  have hpos := (Real.exp_pos x).ne'
  simp only [expT, Real.log_exp, Coeff.at, coeffB_3_0, coeffB_3_1, coeffB_3_2, coeffB_3_3, npow_eq_pow,
    Nat.cast_zero, Nat.cast_ofNat, e2, Option.some.injEq, List.cons.injEq, and_true, true_and]
  field_simp
  ring

end GridVerif.C15

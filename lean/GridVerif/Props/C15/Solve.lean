/-
  C15, part 2 — explicit form, initial data / returned derivatives, boundary conditions, and the
  end-to-end statements under the integrator contract.  (Part 1: `Props/C15.lean`.)
-/
import GridVerif.Props.C15
import Mathlib.Tactic.Linarith

namespace GridVerif.C15
open GridVerif GridVerif.Ode GridVerif.Gen.Ode

/-! ## 4. Explicit form -/

/-- **`explicit_form`**, any order `K = as.length`: `_rearrange_to_explicit_ode` returns
`(f − Σ_{k<K} a_k y_k)/a_K`, and when `a_K ≠ 0` a value `y_K` equals it iff `Σ_{k≤K} a_k y_k = f`. -/
theorem explicit_form (as ys : List ℝ) (aK yK f : ℝ) (h : ys.length = as.length) (haK : aK ≠ 0) :
    rearrangeToExplicitOde ys (as ++ [aK]) f = some ((f - (List.zipWith (· * ·) as ys).sum) / aK) ∧
    (yK = (f - (List.zipWith (· * ·) as ys).sum) / aK ↔ (List.zipWith (· * ·) as ys).sum + aK * yK = f) := by
  refine ⟨rearrange_eq as ys aK f h, ?_⟩
  rw [eq_div_iff haK]
  constructor <;> intro h' <;> linarith

example : rearrangeToExplicitOde [1, 2, 3] ([4, 5, 6] ++ [(2 : ℝ)]) 40 = some 4 := by
  rw [(explicit_form [4, 5, 6] [1, 2, 3] 2 4 40 rfl (by norm_num)).1]; norm_num

/-! ## 5. Initial data and returned derivatives are mutually inverse -/

/-- **`deriv_matrix_spec` (round trip)**, ODE orders 1, 2, 3 (matrix sizes 0, 1, 2 = `order − 1`): when `g'(x) ≠ 0`,
mapping user data `y0` (derivatives w.r.t. `x`) to the integrator's initial data (`solve(M, y0[1:])`) and mapping
integrator output back (`M.dot`) are inverse to each other, in both orders of composition. -/
theorem initial_data_roundtrip (T : TransformFns ℝ) (x : ℝ) (hne : T.deriv x ≠ 0) (c0 c1 c2 : ℝ) :
    ((ivpInitial (derivMatrixAt T x 0) [c0]).bind (backTransform (derivMatrixAt T x 0)) = some [c0] ∧
     (ivpInitial (derivMatrixAt T x 1) [c0, c1]).bind (backTransform (derivMatrixAt T x 1)) = some [c0, c1] ∧
     (ivpInitial (derivMatrixAt T x 2) [c0, c1, c2]).bind (backTransform (derivMatrixAt T x 2))
        = some [c0, c1, c2]) ∧
    ((backTransform (derivMatrixAt T x 0) [c0]).bind (ivpInitial (derivMatrixAt T x 0)) = some [c0] ∧
     (backTransform (derivMatrixAt T x 1) [c0, c1]).bind (ivpInitial (derivMatrixAt T x 1)) = some [c0, c1] ∧
     (backTransform (derivMatrixAt T x 2) [c0, c1, c2]).bind (ivpInitial (derivMatrixAt T x 2))
        = some [c0, c1, c2]) := by
  obtain ⟨k00, k01, k10, k11⟩ := derivMatrixAt_2 T x
  have j00 := derivMatrixAt_1 T x
  refine ⟨⟨?_, ?_, ?_⟩, ?_, ?_, ?_⟩
  · simp [ivpInitial, backTransform, forwardSolve_nil, matVec_nil]
  · simp only [ivpInitial, backTransform, forwardSolve_one, matVec_one, j00, Option.bind_some,
      Option.some.injEq, List.cons.injEq, and_true, true_and]
    field_simp
  · simp only [ivpInitial, backTransform, forwardSolve_two, matVec_two, k00, k01, k10, k11, Option.bind_some,
      Option.some.injEq, List.cons.injEq, and_true, true_and]
    constructor
    · field_simp; ring
    · field_simp; ring
  · simp [ivpInitial, backTransform, forwardSolve_nil, matVec_nil]
  · simp only [ivpInitial, backTransform, forwardSolve_one, matVec_one, j00, Option.bind_some,
      Option.some.injEq, List.cons.injEq, and_true, true_and]
    field_simp
  · simp only [ivpInitial, backTransform, forwardSolve_two, matVec_two, k00, k01, k10, k11, Option.bind_some,
      Option.some.injEq, List.cons.injEq, and_true, true_and]
    constructor
    · field_simp; ring
    · field_simp; ring

/-- **`deriv_matrix_spec`** (summary at one point `x`; the parts are `deriv_matrix_entries`,
`deriv_matrix_maps_derivatives`, `deriv_matrix_invertible_iff`, `initial_data_roundtrip`): the matrix built by
`_derivative_transformation_matrix([tf.deriv, tf.deriv2, tf.deriv3], x, 3)` is the lower-triangular Faà di Bruno
matrix; it is invertible iff `g'(x) ≠ 0`; and then the initial-data mapping of `solve_ode_ivp` and the
back-transformation of the returned callable (third-order problem, leading 2 × 2 block) undo each other. -/
theorem deriv_matrix_spec (T : TransformFns ℝ) (x : ℝ) :
    matRows (derivMatrixAt T x 3) 3
      = [[T.deriv x, 0, 0], [T.deriv2 x, T.deriv x ^ 2, 0],
         [T.deriv3 x, 3 * T.deriv x * T.deriv2 x, T.deriv x ^ 3]] ∧
    ((∀ b1 b2 b3 : ℝ, ∃! v : ℝ × ℝ × ℝ, matVec (derivMatrixAt T x 3) [v.1, v.2.1, v.2.2] = [b1, b2, b3])
      ↔ T.deriv x ≠ 0) ∧
    (T.deriv x ≠ 0 → ∀ c0 c1 c2 : ℝ,
      (ivpInitial (derivMatrixAt T x 2) [c0, c1, c2]).bind (backTransform (derivMatrixAt T x 2)) = some [c0, c1, c2] ∧
      (backTransform (derivMatrixAt T x 2) [c0, c1, c2]).bind (ivpInitial (derivMatrixAt T x 2)) = some [c0, c1, c2]) :=
  ⟨(deriv_matrix_entries (T.deriv x) (T.deriv2 x) (T.deriv3 x)).2.2, (deriv_matrix_invertible_iff T x).2.2,
    fun hne c0 c1 c2 => ⟨(initial_data_roundtrip T x hne c0 c1 c2).1.2.2, (initial_data_roundtrip T x hne c0 c1 c2).2.2.2⟩⟩

/-- The library contract of `scipy.linalg.solve` holds for the model's forward substitution on the matrices the
code builds: `M · solve(M, b) = b` (sizes 1, 2, 3) when `g' ≠ 0`. -/
theorem forwardSolve_solves (T : TransformFns ℝ) (x : ℝ) (hne : T.deriv x ≠ 0) (b1 b2 b3 : ℝ) :
    matVec (derivMatrixAt T x 1) (forwardSolve (derivMatrixAt T x 1) [b1]) = [b1] ∧
    matVec (derivMatrixAt T x 2) (forwardSolve (derivMatrixAt T x 2) [b1, b2]) = [b1, b2] ∧
    matVec (derivMatrixAt T x 3) (forwardSolve (derivMatrixAt T x 3) [b1, b2, b3]) = [b1, b2, b3] := by
  obtain ⟨h00, h01, h02, h10, h11, h12, h20, h21, h22⟩ := derivMatrixAt_3 T x
  obtain ⟨k00, k01, k10, k11⟩ := derivMatrixAt_2 T x
  have j00 := derivMatrixAt_1 T x
  refine ⟨?_, ?_, ?_⟩
  · simp only [forwardSolve_one, matVec_one, j00, List.cons.injEq, and_true]; field_simp
  · simp only [forwardSolve_two, matVec_two, k00, k01, k10, k11, List.cons.injEq, and_true]
    constructor
    · field_simp; ring
    · field_simp; ring
  · simp only [forwardSolve_three, matVec_three, h00, h01, h02, h10, h11, h12, h20, h21, h22, List.cons.injEq,
      and_true]
    refine ⟨?_, ?_, ?_⟩
    · field_simp; ring
    · field_simp; ring
    · field_simp; ring

/-! ## 6. Boundary conditions of `solve_ode_bvp` -/

/-- **`bvp_bc_spec`.** For a list of conditions `(i, j, C)` with valid indices the callback `bc(ya, yb)` returns
one residual per condition, and all residuals vanish iff every condition `(ya if i = 0 else yb)[j] = C` holds. -/
theorem bvp_bc_spec (bd : List (Nat × Nat × ℝ)) (ya yb : List ℝ)
    (hvalid : ∀ c ∈ bd, c.1 < 2 ∧ c.2.1 < ya.length ∧ c.2.1 < yb.length) :
    ∃ res, bcResiduals bd ya yb = some res ∧ res.length = bd.length ∧
      ((∀ e ∈ res, e = 0) ↔ ∀ c ∈ bd, (if c.1 = 0 then ya else yb)[c.2.1]? = some c.2.2) := by
  induction bd with
  | nil => exact ⟨[], by simp [bcResiduals]⟩
  | cons c t ih =>
    obtain ⟨res, hres, hlen, hiff⟩ := ih (fun c hc => hvalid c (List.mem_cons_of_mem _ hc))
    obtain ⟨hi, hja, hjb⟩ := hvalid c List.mem_cons_self
    obtain ⟨i, j, C⟩ := c
    simp only at hi hja hjb
    unfold bcResiduals at hres ⊢
    have hres' : List.mapM (fun c : ℕ × ℕ × ℝ =>
        [ya, yb][c.1]?.bind fun bond => bond[c.2.1]?.bind fun v => some (v - c.2.2)) t = some res := hres
    have hi' : i = 0 ∨ i = 1 := by omega
    rcases hi' with rfl | rfl
    · refine ⟨(ya[j] - C) :: res, ?_, by simp [hlen], ?_⟩
      · simp [List.mapM_cons, hres', List.getElem?_eq_getElem hja]
      · simp only [List.mem_cons, forall_eq_or_imp, hiff, List.getElem?_eq_getElem hja, ↓reduceIte,
          Option.some.injEq, sub_eq_zero]
    · refine ⟨(yb[j] - C) :: res, ?_, by simp [hlen], ?_⟩
      · simp [List.mapM_cons, hres', List.getElem?_eq_getElem hjb]
      · simp only [List.mem_cons, forall_eq_or_imp, hiff, List.getElem?_eq_getElem hjb, one_ne_zero,
          ↓reduceIte, Option.some.injEq, sub_eq_zero]

example : ∃ res, bcResiduals [(0, 0, (3 : ℝ)), (1, 1, 5)] [3, 7] [4, 5] = some res ∧ ∀ e ∈ res, e = 0 := by
  obtain ⟨res, h, _, hiff⟩ := bvp_bc_spec [(0, 0, (3 : ℝ)), (1, 1, 5)] [3, 7] [4, 5] (by simp)
  exact ⟨res, h, hiff.mpr (by simp)⟩

/-- What a boundary condition of the transformed problem means for the returned callable (order 3; the rows of
the callable at a point `x` are `backTransform M(x) [Y₀, Y₁, Y₂]`): a condition on row 0 is a condition on `y(x)`
itself; a condition `Y₁ = C` (documented as "with respect to the new coordinate") prescribes
`y'(x) = g'(x)·C`; `Y₂ = C` prescribes `y''(x) = g''(x)·Y₁ + g'(x)²·C`. -/
theorem bvp_bc_meaning (T : TransformFns ℝ) (x Y0 Y1 Y2 : ℝ) :
    backTransform (derivMatrixAt T x 2) [Y0, Y1, Y2]
      = some [Y0, T.deriv x * Y1, T.deriv2 x * Y1 + T.deriv x ^ 2 * Y2] := by
  obtain ⟨k00, k01, k10, k11⟩ := derivMatrixAt_2 T x
  simp [backTransform, matVec_two, k00, k01, k10, k11]

/-! ## 7. End to end, under the integrator contract -/

/-- **Direct branch (`transform=None`), order 3.** If the integrator's output `Y₀, Y₁, Y₂` solves the first-order
system `func` the library hands to it (`odeFuncDirect`), then `Y₀` solves the stated ODE with `Y₁ = Y₀'`,
`Y₂ = Y₀''`.  Hypothesis `ha`: non-vanishing leading coefficient. -/
theorem direct_contract_gives_solution₃ {s : Set ℝ} (c0 c1 c2 c3 : Coeff ℝ) (f : ℝ → ℝ)
    (ha : ∀ x ∈ s, evalCoeff x c3 ≠ 0) (Y0 Y1 Y2 : ℝ → ℝ)
    (hsol : ∀ x ∈ s, ∃ D0 D1 D2, odeFuncDirect [c0, c1, c2, c3] f x [Y0 x, Y1 x, Y2 x] = some [D0, D1, D2] ∧
      HasDerivAt Y0 D0 x ∧ HasDerivAt Y1 D1 x ∧ HasDerivAt Y2 D2 x) :
    ∀ x ∈ s, HasDerivAt Y0 (Y1 x) x ∧ HasDerivAt Y1 (Y2 x) x ∧ ∃ y3, HasDerivAt Y2 y3 x ∧
      evalCoeff x c0 * Y0 x + evalCoeff x c1 * Y1 x + evalCoeff x c2 * Y2 x + evalCoeff x c3 * y3 = f x := by
  intro x hx
  obtain ⟨D0, D1, D2, hD, h0, h1, h2⟩ := hsol x hx
  rw [odeFuncDirect_3] at hD
  simp only [Option.some.injEq, List.cons.injEq, and_true] at hD
  obtain ⟨rfl, rfl, rfl⟩ := hD
  refine ⟨h0, h1, _, h2, ?_⟩
  have := ha x hx
  field_simp
  ring

/-- **Transform branch, order 1.** -/
theorem transformed_contract_gives_solution₁ {T : TransformFns ℝ} {s : Set ℝ} (hT : Admissible T s)
    (hne : ∀ x ∈ s, T.deriv x ≠ 0) (c0 c1 : Coeff ℝ) (f : ℝ → ℝ) (ha : ∀ x ∈ s, evalCoeff x c1 ≠ 0)
    (Y0 : ℝ → ℝ)
    (hsol : ∀ x ∈ s, ∃ D0, odeFuncTransformed [c0, c1] T f (T.transform x) [Y0 (T.transform x)] = some [D0] ∧
      HasDerivAt Y0 D0 (T.transform x)) :
    ∃ y0 y1 : ℝ → ℝ,
      (∀ x, returnedCallable T 1 false (fun r => [Y0 r]) x = some [y0 x]) ∧
      ∀ x ∈ s, HasDerivAt y0 (y1 x) x ∧ evalCoeff x c0 * y0 x + evalCoeff x c1 * y1 x = f x := by
  refine ⟨fun t => Y0 (T.transform t), fun t => T.deriv t *
    ((f t - coeffB_1_0 (evalCoeff t c0) (evalCoeff t c1) (T.deriv t) (T.deriv2 t) (T.deriv3 t) * Y0 (T.transform t))
      / coeffB_1_1 (evalCoeff t c0) (evalCoeff t c1) (T.deriv t) (T.deriv2 t) (T.deriv3 t)), ?_, ?_⟩
  · intro x; simp [returnedCallable, backTransform, matVec_nil]
  · intro x hx
    obtain ⟨D0, hD, h0⟩ := hsol x hx
    rw [odeFuncTransformed_1] at hD
    simp only [hT.left_inv x hx, Option.some.injEq, List.cons.injEq, and_true] at hD
    subst hD
    refine ⟨chain_1 (Y1 := fun _ => _) (hT.d1 x hx) h0, ?_⟩
    have hb : coeffB_1_1 (evalCoeff x c0) (evalCoeff x c1) (T.deriv x) (T.deriv2 x) (T.deriv3 x) ≠ 0 :=
      (transformed_leading_coeff (evalCoeff x c0) (evalCoeff x c1) 0 0 (T.deriv x) (T.deriv2 x) (T.deriv3 x)).2.1.mpr ⟨ha x hx, hne x hx⟩
    simp only
    rw [← transformed_ode_pointwise₁ _ _ _ (T.deriv2 x) (T.deriv3 x)]
    field_simp
    ring

/-- **Transform branch, order 2.** -/
theorem transformed_contract_gives_solution₂ {T : TransformFns ℝ} {s : Set ℝ} (hT : Admissible T s)
    (hne : ∀ x ∈ s, T.deriv x ≠ 0) (c0 c1 c2 : Coeff ℝ) (f : ℝ → ℝ) (ha : ∀ x ∈ s, evalCoeff x c2 ≠ 0)
    (Y0 Y1 : ℝ → ℝ)
    (hsol : ∀ x ∈ s, ∃ D0 D1, odeFuncTransformed [c0, c1, c2] T f (T.transform x)
        [Y0 (T.transform x), Y1 (T.transform x)] = some [D0, D1] ∧
      HasDerivAt Y0 D0 (T.transform x) ∧ HasDerivAt Y1 D1 (T.transform x)) :
    ∃ y0 y1 y2 : ℝ → ℝ,
      (∀ x, returnedCallable T 2 false (fun r => [Y0 r, Y1 r]) x = some [y0 x, y1 x]) ∧
      ∀ x ∈ s, HasDerivAt y0 (y1 x) x ∧ HasDerivAt y1 (y2 x) x ∧
        evalCoeff x c0 * y0 x + evalCoeff x c1 * y1 x + evalCoeff x c2 * y2 x = f x := by
  refine ⟨fun t => Y0 (T.transform t), fun t => T.deriv t * Y1 (T.transform t),
    fun t => T.deriv2 t * Y1 (T.transform t) + T.deriv t ^ 2 *
      ((f t - (coeffB_2_0 (evalCoeff t c0) (evalCoeff t c1) (evalCoeff t c2) (T.deriv t) (T.deriv2 t) (T.deriv3 t)
          * Y0 (T.transform t)
        + coeffB_2_1 (evalCoeff t c0) (evalCoeff t c1) (evalCoeff t c2) (T.deriv t) (T.deriv2 t) (T.deriv3 t)
          * Y1 (T.transform t)))
      / coeffB_2_2 (evalCoeff t c0) (evalCoeff t c1) (evalCoeff t c2) (T.deriv t) (T.deriv2 t) (T.deriv3 t)), ?_, ?_⟩
  · intro x; simp [returnedCallable, backTransform, matVec_one, derivMatrixAt_1]
  · intro x hx
    obtain ⟨D0, D1, hD, h0, h1⟩ := hsol x hx
    rw [odeFuncTransformed_2] at hD
    simp only [hT.left_inv x hx, Option.some.injEq, List.cons.injEq, and_true] at hD
    obtain ⟨rfl, rfl⟩ := hD
    refine ⟨chain_1 (hT.d1 x hx) h0, ?_, ?_⟩
    · exact chain_2 (Y2 := fun _ => _) (hT.d1 x hx) (hT.d2 x hx) h1
    have hb : coeffB_2_2 (evalCoeff x c0) (evalCoeff x c1) (evalCoeff x c2) (T.deriv x) (T.deriv2 x) (T.deriv3 x)
        ≠ 0 := (transformed_leading_coeff (evalCoeff x c0) (evalCoeff x c1) (evalCoeff x c2) 0 (T.deriv x) (T.deriv2 x)
        (T.deriv3 x)).2.2.1.mpr ⟨ha x hx, hne x hx⟩
    simp only
    rw [← transformed_ode_pointwise₂ _ _ _ _ _ (T.deriv3 x)]
    field_simp
    ring

/-- **Transform branch, order 3** (both `solve_ode_ivp` and `solve_ode_bvp` use the same `func` and the same
returned callable).  If the integrator's output `Y₀, Y₁, Y₂` (functions of `r`) solves the first-order system
`func` handed to it (`odeFuncTransformed`: coefficients from the generated `coeffB`, explicit form from the
generated `rearrangeToExplicitOde`, everything evaluated at `inverse r`), then the rows `y₀, y₁, y₂` of the
returned callable (`returnedCallable` = `M(x)`-back-transformation of the dense output at `g(x)`) satisfy
`y₁ = y₀'`, `y₂ = y₀''` **with respect to the original variable**, and `y₀` solves the stated ODE
`a₀y + a₁y' + a₂y'' + a₃y''' = f` on `s`.
Hypotheses: transform admissible on `s` with non-vanishing `g'`, leading coefficient `a₃ ≠ 0` on `s`. -/
theorem transformed_contract_gives_solution₃ {T : TransformFns ℝ} {s : Set ℝ} (hT : Admissible T s)
    (hne : ∀ x ∈ s, T.deriv x ≠ 0) (c0 c1 c2 c3 : Coeff ℝ) (f : ℝ → ℝ) (ha : ∀ x ∈ s, evalCoeff x c3 ≠ 0)
    (Y0 Y1 Y2 : ℝ → ℝ)
    (hsol : ∀ x ∈ s, ∃ D0 D1 D2, odeFuncTransformed [c0, c1, c2, c3] T f (T.transform x)
        [Y0 (T.transform x), Y1 (T.transform x), Y2 (T.transform x)] = some [D0, D1, D2] ∧
      HasDerivAt Y0 D0 (T.transform x) ∧ HasDerivAt Y1 D1 (T.transform x) ∧ HasDerivAt Y2 D2 (T.transform x)) :
    ∃ y0 y1 y2 y3 : ℝ → ℝ,
      (∀ x, returnedCallable T 3 false (fun r => [Y0 r, Y1 r, Y2 r]) x = some [y0 x, y1 x, y2 x]) ∧
      ∀ x ∈ s, HasDerivAt y0 (y1 x) x ∧ HasDerivAt y1 (y2 x) x ∧ HasDerivAt y2 (y3 x) x ∧
        evalCoeff x c0 * y0 x + evalCoeff x c1 * y1 x + evalCoeff x c2 * y2 x + evalCoeff x c3 * y3 x = f x := by
  refine ⟨fun t => Y0 (T.transform t), fun t => T.deriv t * Y1 (T.transform t),
    fun t => T.deriv2 t * Y1 (T.transform t) + T.deriv t ^ 2 * Y2 (T.transform t),
    fun t => T.deriv3 t * Y1 (T.transform t) + 3 * T.deriv t * T.deriv2 t * Y2 (T.transform t) + T.deriv t ^ 3 *
      ((f t - (coeffB_3_0 (evalCoeff t c0) (evalCoeff t c1) (evalCoeff t c2) (evalCoeff t c3) (T.deriv t)
            (T.deriv2 t) (T.deriv3 t) * Y0 (T.transform t)
        + (coeffB_3_1 (evalCoeff t c0) (evalCoeff t c1) (evalCoeff t c2) (evalCoeff t c3) (T.deriv t)
            (T.deriv2 t) (T.deriv3 t) * Y1 (T.transform t)
        + coeffB_3_2 (evalCoeff t c0) (evalCoeff t c1) (evalCoeff t c2) (evalCoeff t c3) (T.deriv t)
            (T.deriv2 t) (T.deriv3 t) * Y2 (T.transform t))))
      / coeffB_3_3 (evalCoeff t c0) (evalCoeff t c1) (evalCoeff t c2) (evalCoeff t c3) (T.deriv t)
            (T.deriv2 t) (T.deriv3 t)), ?_, ?_⟩
  · intro x
    simp only [returnedCallable, Bool.false_eq_true, ↓reduceIte, Nat.add_one_sub_one]
    exact bvp_bc_meaning T x _ _ _
  · intro x hx
    obtain ⟨D0, D1, D2, hD, h0, h1, h2⟩ := hsol x hx
    rw [odeFuncTransformed_3] at hD
    simp only [hT.left_inv x hx, Option.some.injEq, List.cons.injEq, and_true] at hD
    obtain ⟨rfl, rfl, rfl⟩ := hD
    refine ⟨chain_1 (hT.d1 x hx) h0, chain_2 (hT.d1 x hx) (hT.d2 x hx) h1, ?_, ?_⟩
    · exact chain_3 (Y3 := fun _ => _) (hT.d1 x hx) (hT.d2 x hx) (hT.d3 x hx) h1 h2
    have hb : coeffB_3_3 (evalCoeff x c0) (evalCoeff x c1) (evalCoeff x c2) (evalCoeff x c3) (T.deriv x)
        (T.deriv2 x) (T.deriv3 x) ≠ 0 :=
      (transformed_leading_coeff (evalCoeff x c0) (evalCoeff x c1) (evalCoeff x c2) (evalCoeff x c3) (T.deriv x)
        (T.deriv2 x) (T.deriv3 x)).2.2.2.mpr ⟨ha x hx, hne x hx⟩
    simp only
    rw [← transformed_ode_pointwise₃]
    field_simp
    ring

/-! ## 8. Prescribed conditions -/

/-- **Initial conditions (`solve_ode_ivp`, transform branch), orders 1–3.** The library hands the integrator the
span `(g(x₀), g(x₁))` and the mapped data `ivpSetup`; if the integrator's output starts at that data
(contract: `sol(t₀) = y0`), the returned callable reproduces the user's initial values *with respect to the
original variable* at `x₀`. -/
theorem ivp_initial_conditions (T : TransformFns ℝ) (x0 x1 : ℝ) (hne : T.deriv x0 ≠ 0) (d0 d1 d2 : ℝ) :
    (∀ (sol : ℝ → List ℝ) span init, ivpSetup T x0 x1 [d0] = some (span, init) → sol span.1 = init →
        span = (T.transform x0, T.transform x1) ∧ returnedCallable T 1 false sol x0 = some [d0]) ∧
    (∀ (sol : ℝ → List ℝ) span init, ivpSetup T x0 x1 [d0, d1] = some (span, init) → sol span.1 = init →
        span = (T.transform x0, T.transform x1) ∧ returnedCallable T 2 false sol x0 = some [d0, d1]) ∧
    (∀ (sol : ℝ → List ℝ) span init, ivpSetup T x0 x1 [d0, d1, d2] = some (span, init) → sol span.1 = init →
        span = (T.transform x0, T.transform x1) ∧ returnedCallable T 3 false sol x0 = some [d0, d1, d2]) := by
  obtain ⟨⟨r1, r2, r3⟩, _⟩ := initial_data_roundtrip T x0 hne d0 d1 d2
  refine ⟨?_, ?_, ?_⟩
  · intro sol span init h hs
    simp only [ivpSetup, List.length_cons, List.length_nil, Nat.zero_add, Nat.sub_self] at h
    cases hi : ivpInitial (derivMatrixAt T x0 0) [d0] with
    | none => simp [hi] at h
    | some v =>
      simp only [hi, Option.bind_some, bind, pure, Option.some.injEq, Prod.mk.injEq] at h
      obtain ⟨rfl, rfl⟩ := h
      refine ⟨rfl, ?_⟩
      simp only [returnedCallable, Bool.false_eq_true, ↓reduceIte, Nat.sub_self, hs]
      simpa [hi] using r1
  · intro sol span init h hs
    simp only [ivpSetup, List.length_cons, List.length_nil, Nat.zero_add, Nat.add_one_sub_one] at h
    cases hi : ivpInitial (derivMatrixAt T x0 1) [d0, d1] with
    | none => simp [hi] at h
    | some v =>
      simp only [hi, Option.bind_some, bind, pure, Option.some.injEq, Prod.mk.injEq] at h
      obtain ⟨rfl, rfl⟩ := h
      refine ⟨rfl, ?_⟩
      simp only [returnedCallable, Bool.false_eq_true, ↓reduceIte, Nat.add_one_sub_one, hs]
      simpa [hi] using r2
  · intro sol span init h hs
    simp only [ivpSetup, List.length_cons, List.length_nil, Nat.zero_add, Nat.add_one_sub_one] at h
    cases hi : ivpInitial (derivMatrixAt T x0 2) [d0, d1, d2] with
    | none => simp [hi] at h
    | some v =>
      simp only [hi, Option.bind_some, bind, pure, Option.some.injEq, Prod.mk.injEq] at h
      obtain ⟨rfl, rfl⟩ := h
      refine ⟨rfl, ?_⟩
      simp only [returnedCallable, Bool.false_eq_true, ↓reduceIte, Nat.add_one_sub_one, hs]
      simpa [hi] using r3

/-- **Boundary conditions (`solve_ode_bvp`, transform branch), order 3.** If the residuals of the callback `bc`
vanish at the integrator's end values `ya = sol(g(x_a))`, `yb = sol(g(x_b))` (contract of `solve_bvp`, within
`tol`), then every condition `(i, 0, C)` holds for the returned function value `y(x_i) = C`, every `(i, 1, C)`
gives `y'(x_i) = g'(x_i)·C`, and every `(i, 2, C)` gives `y''(x_i) = g''(x_i)·Y₁ + g'(x_i)²·C`
(derivative conditions are taken with respect to the new coordinate, as documented). -/
theorem bvp_boundary_conditions (T : TransformFns ℝ) (xa xb : ℝ) (sol : ℝ → List ℝ)
    (Ya0 Ya1 Ya2 Yb0 Yb1 Yb2 : ℝ)
    (hya : sol (T.transform xa) = [Ya0, Ya1, Ya2]) (hyb : sol (T.transform xb) = [Yb0, Yb1, Yb2])
    (bd : List (Nat × Nat × ℝ)) (hvalid : ∀ c ∈ bd, c.1 < 2 ∧ c.2.1 < 3)
    (res : List ℝ) (hres : bcResiduals bd (sol (T.transform xa)) (sol (T.transform xb)) = some res)
    (hzero : ∀ e ∈ res, e = 0) :
    ∃ ya0 ya1 ya2 yb0 yb1 yb2 : ℝ,
      returnedCallable T 3 false sol xa = some [ya0, ya1, ya2] ∧
      returnedCallable T 3 false sol xb = some [yb0, yb1, yb2] ∧
      ∀ c ∈ bd,
        (c.1 = 0 ∧ c.2.1 = 0 → ya0 = c.2.2) ∧ (c.1 = 1 ∧ c.2.1 = 0 → yb0 = c.2.2) ∧
        (c.1 = 0 ∧ c.2.1 = 1 → ya1 = T.deriv xa * c.2.2) ∧ (c.1 = 1 ∧ c.2.1 = 1 → yb1 = T.deriv xb * c.2.2) ∧
        (c.1 = 0 ∧ c.2.1 = 2 → ya2 = T.deriv2 xa * Ya1 + T.deriv xa ^ 2 * c.2.2) ∧
        (c.1 = 1 ∧ c.2.1 = 2 → yb2 = T.deriv2 xb * Yb1 + T.deriv xb ^ 2 * c.2.2) := by
  rw [hya, hyb] at hres
  obtain ⟨res', hres', _, hiff⟩ := bvp_bc_spec bd [Ya0, Ya1, Ya2] [Yb0, Yb1, Yb2]
    (fun c hc => ⟨(hvalid c hc).1, by simpa using (hvalid c hc).2, by simpa using (hvalid c hc).2⟩)
  rw [hres] at hres'
  obtain rfl := Option.some.inj hres'
  have hall := hiff.mp hzero
  refine ⟨Ya0, T.deriv xa * Ya1, T.deriv2 xa * Ya1 + T.deriv xa ^ 2 * Ya2, Yb0, T.deriv xb * Yb1,
    T.deriv2 xb * Yb1 + T.deriv xb ^ 2 * Yb2, ?_, ?_, ?_⟩
  · simp only [returnedCallable, Bool.false_eq_true, ↓reduceIte, Nat.add_one_sub_one, hya]
    exact bvp_bc_meaning T xa _ _ _
  · simp only [returnedCallable, Bool.false_eq_true, ↓reduceIte, Nat.add_one_sub_one, hyb]
    exact bvp_bc_meaning T xb _ _ _
  · intro c hc
    have h := hall c hc
    obtain ⟨i, j, C⟩ := c
    refine ⟨?_, ?_, ?_, ?_, ?_, ?_⟩ <;> rintro ⟨rfl, rfl⟩ <;> simp at h <;> simp [h]

/-- Non-vacuity of `bvp_boundary_conditions`: `g = exp`, end points `0, 1`, integrator output `r², 2r, 2`,
conditions `Y(g(0)) = 1`, `Y'(g(1)) = 2e`, `Y''(g(0)) = 2`: the residuals vanish, and the returned rows at the end
points are `e^{2x}, 2e^{2x}, 4e^{2x}` evaluated there. -/
example : ∃ ya0 ya1 ya2 yb0 yb1 yb2 : ℝ,
    returnedCallable expT 3 false (fun r => [r ^ 2, 2 * r, 2]) 0 = some [ya0, ya1, ya2] ∧
    returnedCallable expT 3 false (fun r => [r ^ 2, 2 * r, 2]) 1 = some [yb0, yb1, yb2] ∧
    ya0 = 1 ∧ yb1 = expT.deriv 1 * (2 * Real.exp 1) := by
  obtain ⟨ya0, ya1, ya2, yb0, yb1, yb2, h1, h2, h3⟩ :=
    bvp_boundary_conditions expT 0 1 (fun r => [r ^ 2, 2 * r, 2]) _ _ _ _ _ _ rfl rfl
      [(0, 0, 1), (1, 1, 2 * Real.exp 1), (0, 2, 2)] (by simp) [0, 0, 0]
      (by simp [bcResiduals, expT]) (by simp)
  refine ⟨ya0, ya1, ya2, yb0, yb1, yb2, h1, h2, ?_, ?_⟩
  · exact (h3 (0, 0, 1) (by simp)).1 ⟨rfl, rfl⟩
  · exact (h3 (1, 1, 2 * Real.exp 1) (by simp)).2.2.2.1 ⟨rfl, rfl⟩

example : (ivpInitial (derivMatrixAt expT 0.3 2) [1, 2, 3]).bind (backTransform (derivMatrixAt expT 0.3 2))
    = some [1, 2, 3] :=
  (initial_data_roundtrip expT 0.3 (Real.exp_pos _).ne' 1 2 3).1.2.2

/-! ## 9. Through a transform = directly -/

/-- Full statement of the last clause (order 3; orders 1, 2 alike): on an interval `[a, b]` inside the domain, with
continuous coefficients, an exact integrator run through the transform and an exact integrator run directly return
the same rows at every point.  Proved in `Props/C15/Unique.lean` (`through_transform_eq_direct`) from
`through_transform_eq_direct_partial` below and the uniqueness of solutions of linear initial-value problems
(Grönwall, Mathlib). -/
def through_transform_eq_direct_full : Prop :=
  ∀ (T : TransformFns ℝ) (s : Set ℝ) (a b : ℝ), Admissible T s → Set.Icc a b ⊆ s → (∀ x ∈ s, T.deriv x ≠ 0) →
  ∀ (c0 c1 c2 c3 : Coeff ℝ) (f : ℝ → ℝ),
    ContinuousOn (fun x => evalCoeff x c0) (Set.Icc a b) → ContinuousOn (fun x => evalCoeff x c1) (Set.Icc a b) →
    ContinuousOn (fun x => evalCoeff x c2) (Set.Icc a b) → ContinuousOn (fun x => evalCoeff x c3) (Set.Icc a b) →
    (∀ x ∈ s, evalCoeff x c3 ≠ 0) →
  ∀ (Y0 Y1 Y2 Z0 Z1 Z2 : ℝ → ℝ) (d0 d1 d2 : ℝ),
    (∀ x ∈ s, ∃ D0 D1 D2, odeFuncTransformed [c0, c1, c2, c3] T f (T.transform x)
        [Y0 (T.transform x), Y1 (T.transform x), Y2 (T.transform x)] = some [D0, D1, D2] ∧
      HasDerivAt Y0 D0 (T.transform x) ∧ HasDerivAt Y1 D1 (T.transform x) ∧ HasDerivAt Y2 D2 (T.transform x)) →
    (∀ x ∈ s, ∃ D0 D1 D2, odeFuncDirect [c0, c1, c2, c3] f x [Z0 x, Z1 x, Z2 x] = some [D0, D1, D2] ∧
      HasDerivAt Z0 D0 x ∧ HasDerivAt Z1 D1 x ∧ HasDerivAt Z2 D2 x) →
    ivpInitial (derivMatrixAt T a 2) [d0, d1, d2]
      = some [Y0 (T.transform a), Y1 (T.transform a), Y2 (T.transform a)] →
    [Z0 a, Z1 a, Z2 a] = [d0, d1, d2] →
    ∀ x ∈ Set.Icc a b, returnedCallable T 3 false (fun r => [Y0 r, Y1 r, Y2 r]) x = some [Z0 x, Z1 x, Z2 x]

/-- Proved part of the last clause: under the integrator contract on both routes, the rows returned through the
transform and the rows returned directly are derivative chains **in the original variable** of solutions of the
**same** ODE with the **same** initial values at `a` — i.e. two solutions of one initial-value problem
(uniqueness of that solution is added in `Props/C15/Unique.lean`). -/
theorem through_transform_eq_direct_partial {T : TransformFns ℝ} {s : Set ℝ} {a : ℝ} (hT : Admissible T s)
    (has : a ∈ s) (hne : ∀ x ∈ s, T.deriv x ≠ 0) (c0 c1 c2 c3 : Coeff ℝ) (f : ℝ → ℝ)
    (ha : ∀ x ∈ s, evalCoeff x c3 ≠ 0) (Y0 Y1 Y2 Z0 Z1 Z2 : ℝ → ℝ) (d0 d1 d2 : ℝ)
    (hY : ∀ x ∈ s, ∃ D0 D1 D2, odeFuncTransformed [c0, c1, c2, c3] T f (T.transform x)
        [Y0 (T.transform x), Y1 (T.transform x), Y2 (T.transform x)] = some [D0, D1, D2] ∧
      HasDerivAt Y0 D0 (T.transform x) ∧ HasDerivAt Y1 D1 (T.transform x) ∧ HasDerivAt Y2 D2 (T.transform x))
    (hZ : ∀ x ∈ s, ∃ D0 D1 D2, odeFuncDirect [c0, c1, c2, c3] f x [Z0 x, Z1 x, Z2 x] = some [D0, D1, D2] ∧
      HasDerivAt Z0 D0 x ∧ HasDerivAt Z1 D1 x ∧ HasDerivAt Z2 D2 x)
    (hY0 : ivpInitial (derivMatrixAt T a 2) [d0, d1, d2]
      = some [Y0 (T.transform a), Y1 (T.transform a), Y2 (T.transform a)])
    (hZ0 : [Z0 a, Z1 a, Z2 a] = [d0, d1, d2]) :
    ∃ y0 y1 y2 y3 z3 : ℝ → ℝ,
      (∀ x, returnedCallable T 3 false (fun r => [Y0 r, Y1 r, Y2 r]) x = some [y0 x, y1 x, y2 x]) ∧
      (∀ x ∈ s, HasDerivAt y0 (y1 x) x ∧ HasDerivAt y1 (y2 x) x ∧ HasDerivAt y2 (y3 x) x ∧
        evalCoeff x c0 * y0 x + evalCoeff x c1 * y1 x + evalCoeff x c2 * y2 x + evalCoeff x c3 * y3 x = f x) ∧
      (∀ x ∈ s, HasDerivAt Z0 (Z1 x) x ∧ HasDerivAt Z1 (Z2 x) x ∧ HasDerivAt Z2 (z3 x) x ∧
        evalCoeff x c0 * Z0 x + evalCoeff x c1 * Z1 x + evalCoeff x c2 * Z2 x + evalCoeff x c3 * z3 x = f x) ∧
      [y0 a, y1 a, y2 a] = [d0, d1, d2] ∧ [Z0 a, Z1 a, Z2 a] = [d0, d1, d2] := by
  obtain ⟨y0, y1, y2, y3, hret, hode⟩ := transformed_contract_gives_solution₃ hT hne c0 c1 c2 c3 f ha Y0 Y1 Y2 hY
  have hdir := direct_contract_gives_solution₃ c0 c1 c2 c3 f ha Z0 Z1 Z2 hZ
  choose! z3 hz3 using fun x hx => (hdir x hx).2.2
  refine ⟨y0, y1, y2, y3, z3, hret, hode, fun x hx => ⟨(hdir x hx).1, (hdir x hx).2.1, hz3 x hx⟩, ?_, hZ0⟩
  have h3 := (ivp_initial_conditions T a a (hne a has) d0 d1 d2).2.2 (fun r => [Y0 r, Y1 r, Y2 r])
    (T.transform a, T.transform a) [Y0 (T.transform a), Y1 (T.transform a), Y2 (T.transform a)]
    (by simp [ivpSetup, hY0]) rfl
  have := (hret a).symm.trans h3.2
  exact Option.some.inj this

/-- Non-vacuity of the end-to-end statements: `g = exp` on ℝ, ODE `y''' = 8e^{2x}`; the integrator output
`Y₀ = r², Y₁ = 2r, Y₂ = 2` satisfies the contract, and the returned rows are `e^{2x}, 2e^{2x}, 4e^{2x}`. -/
example : ∃ y0 y1 y2 y3 : ℝ → ℝ,
    (∀ x, returnedCallable expT 3 false (fun r => [r ^ 2, 2 * r, 2]) x = some [y0 x, y1 x, y2 x]) ∧
    ∀ x ∈ (Set.univ : Set ℝ), HasDerivAt y0 (y1 x) x ∧ HasDerivAt y1 (y2 x) x ∧ HasDerivAt y2 (y3 x) x ∧
      evalCoeff x (.const 0) * y0 x + evalCoeff x (.const 0) * y1 x + evalCoeff x (.const 0) * y2 x
        + evalCoeff x (.const 1) * y3 x = 8 * Real.exp (2 * x) := by
  refine transformed_contract_gives_solution₃ expT_admissible (fun x _ => (Real.exp_pos x).ne')
    (.const 0) (.const 0) (.const 0) (.const 1) (fun x => 8 * Real.exp (2 * x))
    (fun x _ => by simp [evalCoeff]) (fun r => r ^ 2) (fun r => 2 * r) (fun _ => 2) ?_
  intro x _
  refine ⟨2 * expT.transform x, 2, 0, ?_, by simpa using hasDerivAt_pow 2 (expT.transform x),
    by simpa using (hasDerivAt_id (expT.transform x)).const_mul (2 : ℝ), hasDerivAt_const _ _⟩
  rw [odeFuncTransformed_3]
  have e2 : Real.exp (2 * x) = Real.exp x ^ 2 := by rw [← Real.exp_nat_mul]; norm_num
  have hpos := (Real.exp_pos x).ne'
  simp only [expT, Real.log_exp, evalCoeff, coeffB_3_0, coeffB_3_1, coeffB_3_2, coeffB_3_3, npow_eq_pow,
    Nat.cast_zero, Nat.cast_ofNat, e2, Option.some.injEq, List.cons.injEq, and_true, true_and]
  field_simp
  ring

end GridVerif.C15

/-
  C20 — parameters of nested functions that have a default value ("pinned" parameters):
  the refinement of the effects translator is sound under its syntactic condition.

  Model: `Model/EffectsCalls.lean` (call shapes, Python's argument binding, executions with
  explicit entries into nested functions); certificates: `Gen.Effects.pins`, regenerated from
  /repo on every run.

  What is proved here
  * `supplied_none_of_fits`   a run-time call that fits a call shape which cannot override the
                              parameter does not supply it (Python's binding rule)
  * `enter_pinned`            hence every entry binds a pinned parameter to its default: the entry
                              is a step of the statement `assign p ys cb` the translator emitted
  * `enter_conservative`      an entry that binds a parameter to an arbitrary object, or to any
                              default, is a step of the conservative statement `assign p [] true`
  * `runC_sound`              so `safe` protects the caller's data also for executions with
                              explicit function entries
  * `all_pins_ok`             the kernel re-decides the condition on the regenerated call shapes
                              and checks that the matching statements are in the programs
  * `library_never_writes_caller_data_with_calls`   the combination for the library

  What is NOT modelled (stays in the trusted extraction, stated precisely in the docstring of
  `FuncTranslator.pinned_defaults`): condition (E), that a nested function is called only from
  call expressions written in the text of the function it is written in — the function object is
  not returned, yielded, stored in an attribute / a caller's container / a global, not passed to
  any call except the adding methods of local containers and builtins that do not call it, and
  has no decorator — and the collection of the call shapes from the Python syntax tree.
-/
import GridVerif.Props.C20
import GridVerif.Model.EffectsCalls

namespace GridVerif.C20
open GridVerif.Effects

/-- **Python's binding rule under the syntactic condition.**  If the run-time call comes from a
call expression whose shape cannot override the parameter (no `*`/`**`, no keyword of its name,
not more positional arguments than its index), the call does not supply the parameter. -/
theorem supplied_none_of_fits {c : Call} {s : CallShape} {p : Param}
    (hf : c.fits s) (ho : overridable s p = false) : c.supplied p = none := by
  unfold overridable at ho
  simp only [Bool.or_eq_false_iff] at ho
  obtain ⟨⟨hstar, hkw⟩, hpos⟩ := ho
  rcases hf with h | ⟨hlen, hk⟩
  · rw [hstar] at h; cases h
  · unfold Call.supplied
    have h1 : p.pos.bind (fun i => c.pos[i]?) = none := by
      cases hp : p.pos with
      | none => rfl
      | some i =>
        rw [hp] at hpos
        have hi : ¬ i < s.npos := by simpa using hpos
        show c.pos[i]? = none
        exact List.getElem?_eq_none (by omega)
    rw [h1]
    have h2 : c.kw.find? (fun e => e.1 == p.name) = none := by
      rw [List.find?_eq_none]
      intro e he
      have hmem := hk e he
      intro heq
      have : e.1 = p.name := by simpa using heq
      rw [this] at hmem
      have : s.kws.contains p.name = true := by simpa using hmem
      rw [this] at hkw; cases hkw
    rw [h2]; rfl

example : (⟨[7, 8], []⟩ : Call).supplied ⟨3, some 2, 0, [], false⟩ = none ∧
    (⟨[7, 8, 9], []⟩ : Call).supplied ⟨3, some 2, 0, [], false⟩ = some 9 ∧
    (⟨[7], [(0, 5)]⟩ : Call).supplied ⟨3, some 2, 0, [], false⟩ = some 5 := by decide

/-- **A pinned parameter is always bound to its default.**  Every entry into the nested function
through a call that fits one of the recorded shapes is a step of the statement
`assign p.var p.ys p.cb`. -/
theorem enter_pinned {owned : Nat → Prop} {sites : List CallShape} {p : Param} {c : Call}
    {σ σ' : State} (hpin : pinned sites p = true) (hc : ∃ s ∈ sites, c.fits s)
    (h : Enter owned (p.ys, p.cb) p c σ σ') : Step owned (.assign p.var p.ys p.cb) σ σ' := by
  obtain ⟨s, hs, hf⟩ := hc
  have ho : overridable s p = false := by
    have := List.all_eq_true.mp hpin s hs
    simpa using this
  have hnone := supplied_none_of_fits hf ho
  cases h with
  | arg o h => rw [hnone] at h; cases h
  | default _ hs => exact hs

/-- Binding a variable to an arbitrary object is a step of the conservative statement. -/
theorem bind_any {owned : Nat → Prop} (x o : Nat) (σ : State) :
    Step owned (.assign x [] true) σ { σ with ref := fun v => if v = x then o else σ.ref v } := by
  by_cases ho : owned o
  · exact .fromCaller o ho
  · have h := @Step.fresh owned x [] true σ o ho (σ.heap o)
    have hheap : (fun a => if a = o then σ.heap o else σ.heap a) = σ.heap := by
      funext a; by_cases ha : a = o <;> simp [ha]
    rw [hheap] at h
    exact h

/-- **The conservative statement covers every entry**, whatever is supplied and whatever the
default expression is. -/
theorem enter_conservative {owned : Nat → Prop} {dflt : List Nat × Bool} {p : Param} {c : Call}
    {σ σ' : State} (h : Enter owned dflt p c σ σ') : Step owned (.assign p.var [] true) σ σ' := by
  obtain ⟨ys, cb⟩ := dflt
  cases h with
  | arg o _ => exact bind_any p.var o σ
  | default _ hs =>
    cases hs with
    | @aliasOf _ _ _ y _ _ => exact bind_any p.var (σ.ref y) σ
    | fromCaller o ho => exact .fromCaller o ho
    | fresh o ho c => exact .fresh o ho c

/-- Executions with explicit function entries are executions of the program, provided the
statement for every default-valued parameter is in the program. -/
theorem run_of_runC {owned : Nat → Prop} {stmts : List Stmt} {sites : List CallShape}
    {params : List Param} (hst : ∀ p ∈ params, paramStmt sites p ∈ stmts) {σ σ' : State}
    (h : RunC owned stmts sites params σ σ') : Run owned stmts σ σ' := by
  induction h with
  | nil => exact .nil
  | stmt hs h1 _ ih => exact .cons hs h1 ih
  | @enter p c dflt _ _ _ hp hc hd h1 _ ih =>
    have hmem := hst p hp
    unfold paramStmt at hmem
    by_cases hpin : pinned sites p = true
    · rw [if_pos hpin] at hmem
      have := hd hpin
      subst this
      exact .cons hmem (enter_pinned hpin hc h1) ih
    · rw [if_neg hpin] at hmem
      exact .cons hmem (enter_conservative h1) ih

/-- **Soundness with explicit calls.**  If `safe p`, the statements for the default-valued
parameters of its nested functions are the ones `paramStmt` prescribes (pinned under the recorded
call shapes: the default; otherwise: anything), then no execution — statements in any order,
entries into the nested functions through any call that fits a recorded shape, with any objects as
arguments — changes a caller-owned object. -/
theorem runC_sound (p : Prog) (h : safe p = true) (sites : List CallShape) (params : List Param)
    (hst : ∀ q ∈ params, paramStmt sites q ∈ p.stmts)
    (owned : Nat → Prop) (σ σ' : State) (hinit : ∀ v, v ∉ p.entry → ¬ owned (σ.ref v))
    (hrun : RunC owned p.stmts sites params σ σ') :
    ∀ o, owned o → σ'.heap o = σ.heap o :=
  analysis_sound p h owned σ σ' hinit (run_of_runC hst hrun)

/-- The hypotheses of `runC_sound` are satisfiable on a non-trivial execution: the call `f(o5)` (one
positional argument, shape `⟨1, [], false⟩`) enters the nested function, does not reach the pinned
parameter at index 1 (variable 2), which is therefore bound to its default (the object of variable 1). -/
example : ∃ σ σ' : State,
    RunC (fun o => o = 7) [.assign 2 [1] false] [⟨1, [], false⟩] [⟨2, some 1, 0, [1], false⟩] σ σ' ∧
    σ'.ref 2 = σ.ref 1 ∧ paramStmt [⟨1, [], false⟩] ⟨2, some 1, 0, [1], false⟩ ∈ [Stmt.assign 2 [1] false] := by
  refine ⟨⟨fun v => v + 10, fun _ => 0⟩, ⟨fun v => if v = 2 then 11 else v + 10, fun _ => 0⟩, ?_, by simp, by decide⟩
  refine .enter (p := ⟨2, some 1, 0, [1], false⟩) (c := ⟨[5], []⟩) (dflt := ([1], false)) (by simp)
    ⟨⟨1, [], false⟩, by simp, Or.inr ⟨rfl, by simp⟩⟩ (fun _ => rfl) ?_ .nil
  refine .default (by decide) ?_
  have := @Step.aliasOf (fun o => o = 7) 2 [1] false 1 ⟨fun v => v + 10, fun _ => 0⟩ (by simp)
  simpa using this

/-- The refinement matters: with the conservative statement the closure idiom
`fs.append(lambda x, func=f: func(x))` followed by an in-place update of the result of `func`
is rejected when `f` returns a fresh array, and it is accepted once `func` is pinned to `f`
(variables: 0 = parameter of the enclosing function, 1 = f's result (fresh), 2 = func, 3 = result). -/
example :
    safe { name := "conservative", nparams := 1, owned0 := [],
           stmts := [.assign 1 [] false, .assign 2 [] true, .assign 3 [2] false, .inplace 3], taint := [0, 2, 3] } = false ∧
    safe { name := "pinned", nparams := 1, owned0 := [],
           stmts := [.assign 1 [] false, .assign 2 [1] false, .assign 3 [2] false, .inplace 3], taint := [0] } = true ∧
    -- the condition: calls `f(x)` with one positional argument cannot reach index 1 …
    pinned [⟨1, [], false⟩] ⟨2, some 1, 0, [1], false⟩ = true ∧
    -- … but a call with two positional arguments, the keyword, or `*args` can
    pinned [⟨2, [], false⟩] ⟨2, some 1, 0, [1], false⟩ = false ∧
    pinned [⟨1, [0], false⟩] ⟨2, some 1, 0, [1], false⟩ = false ∧
    pinned [⟨0, [], true⟩] ⟨2, some 1, 0, [1], false⟩ = false := by decide

/-- **The certificates of the regenerated IR are consistent** (decided by the kernel): for every
nested function with default-valued parameters, each parameter that the translator bound to its
default is pinned under the recorded call shapes of the function it is written in, every other
one has the conservative statement, and the statements are in the program. -/
theorem all_pins_ok : Gen.Effects.pins.all pinRowOk = true := by
  decide +kernel

/-- The translator did pin something (the list is not empty, and some parameter is pinned). -/
example : Gen.Effects.pins.any (fun r => r.params.any (pinned r.sites)) = true := by decide +kernel

/-- C20 for the library with explicit calls of nested functions: for every certificate row whose
program is one of the library's, executions with entries into the nested function cannot change
caller-owned data. -/
theorem library_never_writes_caller_data_with_calls (r : PinRow) (hr : r ∈ Gen.Effects.pins)
    (hp : r.prog ∈ Gen.Effects.progs)
    (owned : Nat → Prop) (σ σ' : State) (hinit : ∀ v, v ∉ r.prog.entry → ¬ owned (σ.ref v))
    (hrun : RunC owned r.prog.stmts r.sites r.params σ σ') :
    ∀ o, owned o → σ'.heap o = σ.heap o := by
  have hok := List.all_eq_true.mp all_pins_ok r hr
  unfold pinRowOk at hok
  have hst : ∀ q ∈ r.params, paramStmt r.sites q ∈ r.prog.stmts := by
    intro q hq
    have := List.all_eq_true.mp hok q hq
    simp only [Bool.and_eq_true, List.contains_eq_mem, decide_eq_true_eq] at this
    exact this.2
  exact runC_sound r.prog (List.all_eq_true.mp all_functions_safe r.prog hp) r.sites r.params hst
    owned σ σ' hinit hrun

end GridVerif.C20

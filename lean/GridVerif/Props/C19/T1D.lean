/-
  C19, round 3 — `transform_1d_grid` and the other entry points of the b-scaled transforms: a call
  that ends in an exception leaves the remembered scale as it was.

  `Gen/AngularCache.lean` carries the order of the top-level statements of
  `BaseTransform.transform_1d_grid` (`t1dStatements`, regenerated): the guards (`raise`) and the calls
  of methods of the object (`self.transform`, `self.deriv`), which fix the scale of an object that has
  none.  A guard placed after such a call refuses the grid when its maximum is already remembered.
-/
import GridVerif.Props.C19.BReject

namespace GridVerif.C19
open GridVerif.Aliasing GridVerif.Gen.AngularCache

/-- **Order of guard and state in the source**: in `transform_1d_grid` every statement that can raise
(the type guard, the domain guard) precedes the first call of a method of the object. -/
theorem t1d_guards_precede_state : guardsFirst t1dStatements = true := by decide

/-- Non-vacuity of the order test: the order with the domain guard moved behind the calls (into the
`if new_domain is not None:` block) is refused. -/
example : guardsFirst [(false, true, "raise:TypeError"), (true, false, "call:transform"), (true, false, "call:deriv"),
    (false, false, "plain"), (true, true, "call+raise:transform:ValueError"), (false, false, "return")] = false := by decide

/-- `transform_1d_grid` of an admissible grid updates the scale exactly as the methods do. -/
theorem t1d_accepted_is_method_call {K : Type} (setB : Option K → K → Option K × Bool) (b : Option K) (mx : K) :
    t1dStep (guardsFirst t1dStatements) setB true b mx = setB b mx := by
  simp [t1dStep, t1d_guards_precede_state]

/-- **A refused or rejected `transform_1d_grid` leaves no trace** (regenerated order, all three classes):
whether the grid is refused by the guards or passes them and is rejected for its (nearly) zero
maximum, a call that raises leaves the remembered scale as it was. -/
theorem t1d_rejected_leaves_no_trace {K : Type} (t : K → Bool) (ok : Bool) (b : Option K) (mx : K) :
    ((t1dStep (guardsFirst t1dStatements) (setMaxBChecked_LinearInfiniteRTransform t) ok b mx).2 = true →
      (t1dStep (guardsFirst t1dStatements) (setMaxBChecked_LinearInfiniteRTransform t) ok b mx).1 = b) ∧
    ((t1dStep (guardsFirst t1dStatements) (setMaxBChecked_ExpRTransform t) ok b mx).2 = true →
      (t1dStep (guardsFirst t1dStatements) (setMaxBChecked_ExpRTransform t) ok b mx).1 = b) ∧
    ((t1dStep (guardsFirst t1dStatements) (setMaxBChecked_PowerRTransform t) ok b mx).2 = true →
      (t1dStep (guardsFirst t1dStatements) (setMaxBChecked_PowerRTransform t) ok b mx).1 = b) := by
  obtain ⟨h1, h2, h3⟩ := b_rejected_call_leaves_no_trace t b mx
  cases ok <;> simp [t1dStep, t1d_guards_precede_state] <;> exact ⟨h1, h2, h3⟩

/-- With the guard behind the calls the clause is false (the seeded change that escaped before this
round): a grid the guards refuse has already fixed the scale.  Witness: no scale, maximum 5, refused. -/
theorem t1d_guard_after_state_fails_at :
    t1dStep false (setMaxBChecked_ExpRTransform (fun x : Nat => x == 0)) false none 5 = (some 5, true) := by
  decide

private theorem first_accepted_gen {A K : Type} (rej : A → Bool) (val : A → K) (f : Option K → A → Option K)
    (hn : ∀ a, f none a = if rej a then none else some (val a)) (hs : ∀ v a, f (some v) a = some v) :
    ∀ (l : List A), l.foldl f none = (l.find? (fun a => !rej a)).map val := by
  have fixed : ∀ (l : List A) (v : K), l.foldl f (some v) = some v := by
    intro l
    induction l with
    | nil => intro v; rfl
    | cons a l ih => intro v; simp [List.foldl_cons, hs, ih]
  intro l
  induction l with
  | nil => rfl
  | cons a l ih =>
    cases h : rej a
    · simp [List.foldl_cons, hn, h, fixed, List.find?_cons]
    · simp [List.foldl_cons, hn, h, ih, List.find?_cons]

/-- **Order independence over all entry points, including the calls that raise**: a history of calls
`(ok, mx)` — a method (`transform`, `deriv`, …: `ok = true`) or `transform_1d_grid` on a grid the guards
accept (`ok = true`) or refuse (`ok = false`), seeing the maximum `mx` — on an object without a scale
leaves the maximum of the first call that did not raise; the calls that raised, wherever they occur,
change nothing. -/
theorem b_history_any_entry_point {K : Type} (t : K → Bool) (calls : List (Bool × K)) :
    calls.foldl (fun b c => (t1dStep (guardsFirst t1dStatements) (setMaxBChecked_LinearInfiniteRTransform t) c.1 b c.2).1) none
      = (calls.find? (fun c => !(!c.1 || t c.2))).map (·.2) ∧
    calls.foldl (fun b c => (t1dStep (guardsFirst t1dStatements) (setMaxBChecked_ExpRTransform t) c.1 b c.2).1) none
      = (calls.find? (fun c => !(!c.1 || t c.2))).map (·.2) ∧
    calls.foldl (fun b c => (t1dStep (guardsFirst t1dStatements) (setMaxBChecked_PowerRTransform t) c.1 b c.2).1) none
      = (calls.find? (fun c => !(!c.1 || t c.2))).map (·.2) := by
  refine ⟨?_, ?_, ?_⟩ <;>
  · refine first_accepted_gen (fun c => !c.1 || t c.2) (·.2) _ ?_ ?_ calls
    · rintro ⟨ok, mx⟩
      cases ok <;> cases h : t mx <;>
        simp [t1dStep, t1d_guards_precede_state, setMaxBChecked_LinearInfiniteRTransform, setMaxBChecked_ExpRTransform,
          setMaxBChecked_PowerRTransform, h]
    · rintro v ⟨ok, mx⟩
      cases ok <;>
        simp [t1dStep, t1d_guards_precede_state, setMaxBChecked_LinearInfiniteRTransform, setMaxBChecked_ExpRTransform,
          setMaxBChecked_PowerRTransform]

end GridVerif.C19

/-
  C19, round 6 — two clauses that only the input generators guarded before:

  * what `AtomGrid.get_shell_grid` hands out never aliases the arrays the atomic grid keeps (seeded
    change C19-g returned a slice of `self._points` for rotated grids);
  * a size / degree request is resolved through the tables on every path, whatever the cache holds
    (seeded change C19-f skipped the lookup when the unresolved degree was a key of the cache).

  Both are stated over regenerated text: `shellGridFlows`, `resolveUnconditional`, `resolveArgsPlain`,
  `sizeClearsDegree` in `Gen/AngularCache.lean`.
-/
import GridVerif.Lemmas.Aliasing
import GridVerif.Gen.AngularCache

namespace GridVerif.C19
open GridVerif.Aliasing GridVerif.Gen.AngularCache

/-! ### get_shell_grid -/

/-- **Freshness over the generated text**: on both branches of the rotation test (`rotate == 0`, `rotate != 0`) the
arrays stored into the returned grid — `points` and `weights` — are new arrays (a copy, arithmetic, a call), never an
attribute of the atomic grid or a slice of one; and exactly these four stores exist. -/
theorem shell_grid_arrays_fresh :
    (∀ f ∈ shellGridFlows, f.2.2.1 = true) ∧
    shellGridFlows.map (fun f => (f.1, f.2.1)) =
      [("rotate == 0", "points"), ("rotate == 0", "weights"), ("rotate != 0", "points"), ("rotate != 0", "weights")] := by
  decide

/-- **What the caller does with a shell grid never reaches the atomic grid**: for each of the four generated flows,
in any heap, after the array is handed out and the caller overwrites it, the parent's cell holds what it held. -/
theorem shell_grid_edit_leaves_parent :
    ∀ f ∈ shellGridFlows, ∀ (h : List Nat) (p : Nat), p < h.length → ∀ v : Nat,
      get ((handOutArray f.2.2.1 h p).1.set (handOutArray f.2.2.1 h p).2 v) p = get h p := by
  intro f hf h p hp v
  rw [shell_grid_arrays_fresh.1 f hf]
  simp only [handOutArray, ↓reduceIte]
  rw [get_set_ne _ _ _ _ (by omega), get_append_left _ _ _ hp]

/-- Non-vacuity, and the seeded change: with a view (not fresh) the caller's edit is the parent's content. -/
theorem shell_view_edit_changes_parent_at :
    get ((handOutArray false [5, 6, 7] 1).1.set (handOutArray false [5, 6, 7] 1).2 0) 1 = 0 ∧
    get ((handOutArray true [5, 6, 7] 1).1.set (handOutArray true [5, 6, 7] 1).2 0) 1 = 6 := by
  decide

/-! ### the degree / size request -/

/-- **Where the request is resolved, in the source**: `degree, size = self._get_degree_and_size(degree=degree,
size=size, method=method)` is a top-level statement of the constructor (no condition, in particular none on the
cache), called with exactly these arguments, after `if size is not None: … degree = None`. -/
theorem request_resolved_on_every_path :
    resolveUnconditional = true ∧ resolveArgsPlain = true ∧ sizeClearsDegree = true := by
  decide

/-- **A size request resolves through the table, independent of the cache contents** (and of the degree given with
it, also the default one): the key is `table none (some s)` for every cache. -/
theorem size_request_independent_of_cache (inCache : Option Nat → Bool) (table : Option Nat → Option Nat → Nat)
    (degree : Option Nat) (s : Nat) :
    resolvedKey resolveUnconditional sizeClearsDegree inCache table degree (some s) = table none (some s) := by
  simp [resolvedKey, request_resolved_on_every_path.1, request_resolved_on_every_path.2.2]

/-- **A degree request likewise**: `table degree none`, whatever is cached (so a cached *unsupported-looking* or
coinciding number never short-cuts the table). -/
theorem degree_request_independent_of_cache (inCache : Option Nat → Bool) (table : Option Nat → Option Nat → Nat)
    (degree : Option Nat) :
    resolvedKey resolveUnconditional sizeClearsDegree inCache table degree none = table degree none := by
  simp [resolvedKey, request_resolved_on_every_path.1]

/-- Non-vacuity, and the seeded change: if the lookup is skipped when the unresolved degree is a key of the cache
(and the degree is not dropped), `AngularGrid(degree=50, size=6)` — or `size=6` with the default degree — after
degree 50 was cached resolves to 50 instead of the degree of size 6 (here the table sends a size `s` to `s + 1000`). -/
theorem resolve_skipped_on_hit_fails_at :
    let table : Option Nat → Option Nat → Nat := fun d s => match s with | some s => s + 1000 | none => d.getD 0
    resolvedKey false false (fun d => d == some 50) table (some 50) (some 6) = 50 ∧
    resolvedKey true true (fun d => d == some 50) table (some 50) (some 6) = 1006 := by
  decide

end GridVerif.C19

/-
  C19, round 3 — the discipline over *everything* that outlives a call.

  `Gen/ModuleState.lean` is the enumeration, regenerated from the AST of every module of
  src/grid on every run: module-level bindings with a non-literal value and every use of them,
  function caches (decorators, imports), mutable default arguments, class-level objects,
  `global`/`nonlocal`, instance attributes assigned outside `__init__` (memos, remembered
  parameters, setters).  The theorems below are stated over those regenerated lists: a new
  cache, a new writer of a table, a table handed out, a new memo or a setter that forgets to
  reset one change the lists and break a statement here.
-/
import GridVerif.Lemmas.Aliasing
import GridVerif.Model.AliasingCfg
import GridVerif.Gen.AngularCache

namespace GridVerif.C19
open GridVerif.Aliasing GridVerif.Gen.ModuleState

/-! ### module-level objects -/

/-- The caches of the library, with exactly the uses they have in the pinned tree: each is written
by one statement of one function, never handed out itself, and its elements are read by that
function only (whose copy discipline is `Gen.AngularCache.discipline` / `coulombLoaderFresh`). -/
def registeredCaches : List ModObj := [
  ⟨"angular", "LEBEDEV_CACHE", "dict", [("AngularGrid.__init__", "setitem")], [], ["AngularGrid.__init__"]⟩,
  ⟨"angular", "SPHERICAL_CACHE", "dict", [("AngularGrid.__init__", "setitem")], [], ["AngularGrid.__init__"]⟩,
  ⟨"angular", "MAX_DET_CACHE", "dict", [("AngularGrid.__init__", "setitem")], [], ["AngularGrid.__init__"]⟩,
  ⟨"angular", "AHRENS_BEYLKIN_CACHE", "dict", [("AngularGrid.__init__", "setitem")], [], ["AngularGrid.__init__"]⟩,
  ⟨"coulomb", "_ATOMIC_GAUSS_PARAMS_CACHE", "constant", [("load_atomic_gaussian_params", "global-rebind")], [],
    ["load_atomic_gaussian_params"]⟩]

/-- **Discipline over the regenerated list**: every module-level object of every module is either
a constant table (no statement anywhere writes it, and the object itself never leaves a function:
not returned, not stored, not passed on, no view taken) or one of the five registered caches with
exactly its registered uses. -/
theorem module_objects_disciplined :
    ∀ o ∈ moduleObjects, o.isConstant = true ∨ o ∈ registeredCaches := by
  decide

/-- Every registered cache is still there (the registry does not list anything that is gone). -/
theorem registered_caches_present : ∀ r ∈ registeredCaches, r ∈ moduleObjects := by
  decide

/-- Qualified names are unique, so "the object called n" is well defined. -/
theorem module_object_names_unique : (moduleObjects.map ModObj.qual).Nodup := by
  decide

/-- No function cache anywhere: no decorator mentioning cache / lru / memo, no attribute stored on
a function, no import of functools, cachetools, joblib, weakref, …; no class-level mutable object;
no `nonlocal`; the only `global` statement is the Coulomb loader's; the only default argument that
is a mutable object is `AtomGrid.__init__(degrees=[50])` (read only: `AtomGrid` results with the
default are compared across calls by the oracle). -/
theorem no_other_process_state :
    functionCaches = [] ∧ cacheImports = [] ∧ classObjects = [] ∧ nonlocals = [] ∧
    globalRebinds = [("coulomb", "load_atomic_gaussian_params", "_ATOMIC_GAUSS_PARAMS_CACHE")] ∧
    mutableDefaults = [("atomgrid", "AtomGrid.__init__", "[50]")] := by
  decide

/-- **No mutable default argument is written or handed on**: for every default argument that is a mutable
object (regenerated list; in the pinned tree `AtomGrid.__init__(degrees=[50])`) no statement of the function,
nor of the functions of the module it passes the parameter to, assigns into the parameter, calls a mutating
method on it, or stores / returns the object itself.  So the default stays what the source says for every later
call, and a list the caller passes for that parameter (and may pass again to another request) stays the caller's.
Every enumerated mutable default is covered. -/
theorem mutable_defaults_never_written :
    (∀ d ∈ mutableDefaultUses, d.2.2.2.1 = [] ∧ d.2.2.2.2 = []) ∧
    mutableDefaultUses.map (fun d => (d.1, d.2.1)) = mutableDefaults.map (fun d => (d.1, d.2.1)) := by
  decide

open Gen.AngularCache in
/-- **The cache protocol the alias machine models is the one in the source**: the method name is
lower-cased before a cache is chosen; the four methods use four *different* module-level dictionaries,
each of them a registered cache (so the key `(method, degree)` of the machine is faithful: no two
methods share a dictionary); the key is the degree resolved by `_get_degree_and_size`; a miss stores
only under `if cache:`; the two methods of the unscaled branch are among the four. -/
theorem cache_protocol_as_modelled :
    cacheOfMethod.map (·.1) = ["lebedev", "spherical", "maxdet", "ahrens_beylkin"] ∧
    (cacheOfMethod.map (·.2)).Nodup ∧
    (∀ c ∈ cacheOfMethod, ∃ o ∈ registeredCaches, o.module = "angular" ∧ o.name = c.2) ∧
    methodNormalised = true ∧ keyResolvedBeforeLookup = true ∧ storeGuardedByCacheFlag = true ∧
    (∀ m ∈ plainMethods, m ∈ cacheOfMethod.map (·.1)) := by
  decide

/-- One step of the frame machine leaves an object alone that nobody writes and nobody hands out. -/
theorem gstep_frame (objs : List ModObj) (n : String)
    (hconst : ∀ o ∈ objs, o.qual = n → o.writers = [] ∧ o.escapes = [])
    (s : GState) (hn : n ∉ s.held) (op : GOp) :
    (gstep objs s op).content n = s.content n ∧ n ∉ (gstep objs s op).held := by
  cases op with
  | call f nc =>
    have hw : writes objs f n = false := by
      unfold writes
      rw [List.any_eq_false]
      intro o ho
      by_cases hq : o.qual = n
      · have := (hconst o ho hq).1
        simp [this]
      · simp [hq]
    refine ⟨by simp [gstep, hw], ?_⟩
    simp only [gstep, List.mem_append, List.mem_map, List.mem_filter, not_or]
    refine ⟨?_, hn⟩
    rintro ⟨o, ⟨ho, he⟩, hq⟩
    have := (hconst o ho hq).2
    simp [this] at he
  | edit m v =>
    by_cases hm : m ∈ s.held
    · have hne : n ≠ m := fun h => hn (h ▸ hm)
      simp [gstep, hm, hne, hn]
    · simp [gstep, hm, hn]

/-- **Frame theorem**: for every history of library calls (each writing whatever it writes to the
objects it is a writer of, and handing out the objects it lets escape) and in-place edits by the
caller of everything it holds, an object that nobody writes and nobody hands out keeps its content. -/
theorem grun_frame (objs : List ModObj) (n : String)
    (hconst : ∀ o ∈ objs, o.qual = n → o.writers = [] ∧ o.escapes = []) :
    ∀ (ops : List GOp) (s : GState), n ∉ s.held →
      (grun objs s ops).content n = s.content n ∧ n ∉ (grun objs s ops).held := by
  intro ops
  induction ops with
  | nil => intro s hn; exact ⟨rfl, hn⟩
  | cons op ops ih =>
    intro s hn
    obtain ⟨h1, h2⟩ := gstep_frame objs n hconst s hn op
    obtain ⟨h3, h4⟩ := ih (gstep objs s op) h2
    simp only [grun, List.foldl_cons] at h3 h4 ⊢
    exact ⟨h3.trans h1, h4⟩

/-- **The tables of the library never change**: for the regenerated list, every object that is not
a registered cache (the degree/size tables, the covalent radii, the default radial parameters, the
element tables, the default exponents, …) has the content it had at import after any history of
calls and caller edits. -/
theorem module_tables_never_change (o : ModObj) (ho : o ∈ moduleObjects) (hr : o ∉ registeredCaches)
    (ops : List GOp) (s : GState) (hn : o.qual ∉ s.held) :
    (grun moduleObjects s ops).content o.qual = s.content o.qual := by
  have key : ∀ o ∈ moduleObjects, o ∉ registeredCaches →
      ∀ o' ∈ moduleObjects, o'.qual = o.qual → o'.writers = [] ∧ o'.escapes = [] := by
    decide
  exact (grun_frame moduleObjects o.qual (key o ho hr) ops s hn).1

/-- Non-vacuity: a history in which `AngularGrid.__init__` writes "everything" and the caller tries to
edit a table: the Lebedev cache changes, the degree table does not. -/
example :
    let s0 : GState := ⟨fun _ => 1, []⟩
    let s := grun moduleObjects s0
      [.call "AngularGrid.__init__" (fun _ => 7), .edit "angular.LEBEDEV_DEGREES" 9, .edit "utils._bragg" 9]
    (s.content "angular.LEBEDEV_CACHE", s.content "angular.LEBEDEV_DEGREES", s.content "utils._bragg") = (7, 1, 1) := by
  decide

/-! ### memo attributes -/

/-- The instance attributes assigned outside `__init__` are exactly: the spherical-harmonics memo of
`AtomGrid`, the kd-trees of `Grid` / `PeriodicGrid` (reset by the `points` setter), the arrays the
setters replace, and the remembered scale of the three b-scaled transforms.  A new memo or remembered
parameter changes this list. -/
theorem late_attrs_registered :
    lateAttrs = [
      ("atomgrid", "AtomGrid", "_basis", [("radial_component_splines", "fill-if-None")]),
      ("basegrid", "Grid", "_kdtree", [("get_localgrid", "fill-if-None"), ("points", "reset-to-None")]),
      ("basegrid", "Grid", "_points", [("points", "setter")]),
      ("basegrid", "Grid", "_weights", [("weights", "setter")]),
      ("periodicgrid", "PeriodicGrid", "_frac_intvls", [("points", "setter")]),
      ("periodicgrid", "PeriodicGrid", "_kdtree", [("get_localgrid", "fill-if-None")]),
      ("rtransform", "ExpRTransform", "_b", [("set_maximum_parameter_b", "fill-if-None")]),
      ("rtransform", "LinearInfiniteRTransform", "_b", [("set_maximum_parameter_b", "fill-if-None")]),
      ("rtransform", "PowerRTransform", "_b", [("set_maximum_parameter_b", "fill-if-None")])] := by
  decide

/-- The memos are these six; the kd-trees are built from the points (`points` / `_points`) and are
handed out by no accessor; the scale `b` is computed from the argument only. -/
theorem memos_registered :
    memos.map (fun m => (m.cls, m.attr, m.handedOut, m.filledIn, m.reads)) = [
      ("AtomGrid", "_basis", [("basis", "itself")], ["radial_component_splines"], ["convert_cartesian_to_spherical", "l_max"]),
      ("Grid", "_kdtree", [], ["get_localgrid"], ["points", "size"]),
      ("PeriodicGrid", "_kdtree", [], ["get_localgrid"], ["_points", "size"]),
      ("ExpRTransform", "_b", [("b", "itself")], ["set_maximum_parameter_b"], []),
      ("LinearInfiniteRTransform", "_b", [("b", "itself")], ["set_maximum_parameter_b"], []),
      ("PowerRTransform", "_b", [("b", "itself")], ["set_maximum_parameter_b"], [])] := by
  decide

/-- Every method that assigns `_points` — `Grid.points` and, through `Grid.points.fset`,
`PeriodicGrid.points` — resets the kd-tree, and no accessor returns the tree. -/
theorem kdtree_cfg_safe : kdtreeCfg = ⟨true, true⟩ := by decide

/-- The memo is empty or current, and the caller does not hold it. -/
def MInv (f : Nat → Nat) (s : MState) : Prop :=
  (s.memo = none ∨ s.memo = some (f s.src)) ∧ s.held = false

theorem mstep_inv (cfg : MemoCfg) (h1 : cfg.resetOnSet = true) (h2 : cfg.handoutFresh = true)
    (f : Nat → Nat) (s : MState) (hs : MInv f s) (op : MOp) (hop : op.viaApi = true) :
    MInv f (mstep cfg f s op).1 ∧
    (op = .query → (mstep cfg f s op).2 = some (f s.src) ∧ (mstep cfg f s op).1.src = s.src) := by
  obtain ⟨hm, hh⟩ := hs
  cases op with
  | query =>
    rcases hm with hm | hm <;> simp [mstep, hm, MInv, hh]
  | setSrc v =>
    refine ⟨?_, by intro h; cases h⟩
    simp [mstep, h1, MInv, hh]
  | handout =>
    refine ⟨?_, by intro h; cases h⟩
    rcases hm with hm | hm <;> simp [mstep, hm, MInv, hh, h2]
  | editHeld v =>
    refine ⟨?_, by intro h; cases h⟩
    simpa [mstep, hh, MInv] using hm
  | editSrcInPlace v => simp [MOp.viaApi] at hop

/-- **Memo safety for every history**: when every setter of the source resets the memo and no
accessor hands the memo object out, every query in every history of queries, source re-assignments,
accessor calls and edits of what the accessors returned answers with the value computed from the
*current* source. -/
theorem memo_queries_current (cfg : MemoCfg) (h1 : cfg.resetOnSet = true) (h2 : cfg.handoutFresh = true)
    (f : Nat → Nat) :
    ∀ (ops : List MOp) (s : MState), MInv f s → (∀ op ∈ ops, MOp.viaApi op = true) →
      ∀ (i : Nat), ops[i]? = some MOp.query → ∃ v, (mrun cfg f s ops)[i]? = some (some (f v), v) := by
  intro ops
  induction ops with
  | nil => intro s _ _ i h; simp at h
  | cons op ops ih =>
    intro s hs hall i hi
    obtain ⟨hs', hq⟩ := mstep_inv cfg h1 h2 f s hs op (hall op (by simp))
    cases i with
    | zero =>
      simp only [List.getElem?_cons_zero, Option.some.injEq] at hi
      obtain ⟨e1, e2⟩ := hq hi
      refine ⟨s.src, ?_⟩
      simp [mrun, e1, e2]
    | succ i =>
      simp only [List.getElem?_cons_succ] at hi
      obtain ⟨v, hv⟩ := ih _ hs' (fun op' h => hall op' (by simp [h])) i hi
      exact ⟨v, by simpa [mrun] using hv⟩

/-- **The kd-trees of the library as it is**: from a fresh grid, for every history of
`get_localgrid` queries and `points = …` assignments, every query is answered from the tree of the
current points. -/
theorem kdtree_always_current (f : Nat → Nat) (v0 : Nat) (ops : List MOp)
    (hall : ∀ op ∈ ops, MOp.viaApi op = true) (i : Nat) (hi : ops[i]? = some MOp.query) :
    ∃ v, (mrun kdtreeCfg f (minit v0) ops)[i]? = some (some (f v), v) := by
  have h := kdtree_cfg_safe
  exact memo_queries_current kdtreeCfg (by rw [h]) (by rw [h]) f ops (minit v0) ⟨Or.inl rfl, rfl⟩ hall i hi

/-- Non-vacuity of `kdtree_always_current`: query, assign, query, assign, assign, query. -/
example :
    (mrun kdtreeCfg (fun x => x + 100) (minit 1) [.query, .setSrc 2, .query, .setSrc 3, .setSrc 4, .query]).map (·.1)
      = [some 101, none, some 102, none, none, some 104] := by
  decide

/-- Without the reset in the setter the memo goes stale (the library before repair 0120cd9):
`[get_localgrid, points = new, get_localgrid]` answers for the old points. -/
theorem memo_stale_without_reset :
    (mrun ⟨false, true⟩ (fun x => x + 100) (minit 1) [.query, .setSrc 2, .query])[2]? = some (some 101, 2) := by
  decide

/-- **Description of the code as it is — not a clause of C19** (judged outside the property, DESIGN 8.3:
the accessors return the stored arrays by convention).  `AtomGrid.basis` returns the memo array itself;
the regenerated configuration records that. -/
theorem basis_cfg_as_is : basisCfg = ⟨true, false⟩ := by decide

/-- **Description of the code as it is — not a clause of C19** (see `basis_cfg_as_is`): in the machine with
that configuration `[radial_component_splines, basis, edit of the returned array, radial_component_splines]`
computes from the edited array. -/
theorem basis_memo_corruptible_at :
    (mrun basisCfg (fun x => x + 100) (minit 1) [.query, .handout, .editHeld 0, .query])[3]? = some (some 0, 1) := by
  decide

/-- What holds for that memo: as long as the caller does not edit the array `basis` returned, every
query is current (there is no setter of its sources). -/
theorem basis_current_without_edits (f : Nat → Nat) :
    ∀ (ops : List MOp) (s : MState), (s.memo = none ∨ s.memo = some (f s.src)) →
      (∀ op ∈ ops, MOp.viaApi op = true ∧ ∀ v, op ≠ .editHeld v) →
      ∀ (i : Nat), ops[i]? = some MOp.query → ∃ v, (mrun basisCfg f s ops)[i]? = some (some (f v), v) := by
  intro ops
  induction ops with
  | nil => intro s _ _ i h; simp at h
  | cons op ops ih =>
    intro s hs hall i hi
    have hop := hall op (by simp)
    have step : ((mstep basisCfg f s op).1.memo = none ∨ (mstep basisCfg f s op).1.memo = some (f (mstep basisCfg f s op).1.src)) ∧
        (op = .query → (mstep basisCfg f s op).2 = some (f s.src) ∧ (mstep basisCfg f s op).1.src = s.src) := by
      rw [basis_cfg_as_is]
      cases op with
      | query => rcases hs with hm | hm <;> simp [mstep, hm]
      | setSrc v => simp [mstep]
      | handout => rcases hs with hm | hm <;> simp [mstep, hm]
      | editHeld v => exact absurd rfl (hop.2 v)
      | editSrcInPlace v => simp [MOp.viaApi] at hop
    cases i with
    | zero =>
      simp only [List.getElem?_cons_zero, Option.some.injEq] at hi
      obtain ⟨e1, e2⟩ := step.2 hi
      exact ⟨s.src, by simp [mrun, e1, e2]⟩
    | succ i =>
      simp only [List.getElem?_cons_succ] at hi
      obtain ⟨v, hv⟩ := ih _ step.1 (fun op' h => hall op' (by simp [h])) i hi
      exact ⟨v, by simpa [mrun] using hv⟩

/-- **Description of the code as it is — not a clause of C19** (judged outside the property, DESIGN 8.3: an
in-place edit of an array property of a grid without assignment is outside the clause).  cKDTree keeps the
array it was built from and an in-place edit of `grid.points` is not an assignment: with such edits in
the history `[get_localgrid, points[...] = new, get_localgrid]` is answered from the tree built for the
old content even under the safe configuration.  (`kdtree_always_current` is about histories of queries
and assignments, which is what the property quantifies over.) -/
theorem memo_stale_after_inplace_edit_at :
    (mrun kdtreeCfg (fun x => x + 100) (minit 1) [.query, .editSrcInPlace 2, .query])[2]? = some (some 101, 2) := by
  decide

end GridVerif.C19

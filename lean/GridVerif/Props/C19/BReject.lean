/-
  C19, round 3 — the remembered scale `b` and a *rejected* call.

  `set_maximum_parameter_b` raises `ValueError` when the maximum of the grid it sees is (nearly)
  zero.  `Gen/AngularCache.lean` carries the order of the assignment and the check
  (`setMaxBChecked_*`, regenerated).  Before repair 92a7e5b the scale was assigned first, so a
  rejected call left `b = 0` on the object and every later call used it; since the repair the
  check comes first and the theorems below state that a rejected call leaves no trace.  If the
  order is reverted the regenerated definitions change and these theorems no longer check.
-/
import GridVerif.Gen.AngularCache

namespace GridVerif.C19
open GridVerif.Gen.AngularCache

/-- For an accepted call the state component of the checked update is the update the set-once
theorems (`b_set_once`, …) are about. -/
theorem setMaxBChecked_state {K : Type} (t : K → Bool) (b : Option K) (mx : K) :
    ((setMaxBChecked_LinearInfiniteRTransform t b mx).2 = false →
      (setMaxBChecked_LinearInfiniteRTransform t b mx).1 = setMaxB_LinearInfiniteRTransform b mx) ∧
    ((setMaxBChecked_ExpRTransform t b mx).2 = false →
      (setMaxBChecked_ExpRTransform t b mx).1 = setMaxB_ExpRTransform b mx) ∧
    ((setMaxBChecked_PowerRTransform t b mx).2 = false →
      (setMaxBChecked_PowerRTransform t b mx).1 = setMaxB_PowerRTransform b mx) := by
  cases b <;> cases h : t mx <;>
    simp [setMaxBChecked_LinearInfiniteRTransform, setMaxBChecked_ExpRTransform, setMaxBChecked_PowerRTransform,
      setMaxB_LinearInfiniteRTransform, setMaxB_ExpRTransform, setMaxB_PowerRTransform, h]

/-- Once the scale is fixed (explicitly or by an accepted call) no call is rejected on account of
the grid it sees, whatever that grid is. -/
theorem b_fixed_never_rejects {K : Type} (t : K → Bool) (v mx : K) :
    (setMaxBChecked_LinearInfiniteRTransform t (some v) mx).2 = false ∧
    (setMaxBChecked_ExpRTransform t (some v) mx).2 = false ∧
    (setMaxBChecked_PowerRTransform t (some v) mx).2 = false := by
  simp [setMaxBChecked_LinearInfiniteRTransform, setMaxBChecked_ExpRTransform, setMaxBChecked_PowerRTransform]

/-- A call on an object without a scale is rejected exactly when the maximum it sees is too small. -/
theorem b_first_call_rejects_iff {K : Type} (t : K → Bool) (mx : K) :
    (setMaxBChecked_LinearInfiniteRTransform t none mx).2 = t mx ∧
    (setMaxBChecked_ExpRTransform t none mx).2 = t mx ∧
    (setMaxBChecked_PowerRTransform t none mx).2 = t mx := by
  cases h : t mx <;>
    simp [setMaxBChecked_LinearInfiniteRTransform, setMaxBChecked_ExpRTransform, setMaxBChecked_PowerRTransform, h]

/-- **A rejected call leaves no trace** (the clause at full strength, for the regenerated order of
check and assignment): a call that raises leaves the remembered scale as it was, so the next call
behaves as on an object that never saw the rejected grid. -/
theorem b_rejected_call_leaves_no_trace {K : Type} (t : K → Bool) (b : Option K) (mx : K) :
    ((setMaxBChecked_LinearInfiniteRTransform t b mx).2 = true → (setMaxBChecked_LinearInfiniteRTransform t b mx).1 = b) ∧
    ((setMaxBChecked_ExpRTransform t b mx).2 = true → (setMaxBChecked_ExpRTransform t b mx).1 = b) ∧
    ((setMaxBChecked_PowerRTransform t b mx).2 = true → (setMaxBChecked_PowerRTransform t b mx).1 = b) := by
  cases b <;> cases h : t mx <;>
    simp [setMaxBChecked_LinearInfiniteRTransform, setMaxBChecked_ExpRTransform, setMaxBChecked_PowerRTransform, h]

/-- An accepted first call fixes the scale to the maximum of the grid it sees and does not raise. -/
theorem b_partial_no_rejection {K : Type} (t : K → Bool) (mx : K) (h : t mx = false) :
    setMaxBChecked_ExpRTransform t none mx = (some mx, false) ∧
    setMaxBChecked_PowerRTransform t none mx = (some mx, false) ∧
    setMaxBChecked_LinearInfiniteRTransform t none mx = (some mx, false) := by
  simp [setMaxBChecked_LinearInfiniteRTransform, setMaxBChecked_ExpRTransform, setMaxBChecked_PowerRTransform, h]

/-- Generic form of the next theorem, for any update with the two defining equations. -/
private theorem first_accepted {K : Type} (t : K → Bool) (f : Option K → K → Option K × Bool)
    (hn : ∀ mx, f none mx = if t mx then (none, true) else (some mx, false))
    (hs : ∀ v mx, f (some v) mx = (some v, false)) :
    ∀ (mxs : List K), mxs.foldl (fun b mx => (f b mx).1) none = mxs.find? (fun mx => !t mx) := by
  have fixed : ∀ (mxs : List K) (v : K), mxs.foldl (fun b mx => (f b mx).1) (some v) = some v := by
    intro mxs
    induction mxs with
    | nil => intro v; rfl
    | cons mx mxs ih => intro v; simp [List.foldl_cons, hs, ih]
  intro mxs
  induction mxs with
  | nil => rfl
  | cons mx mxs ih =>
    cases h : t mx
    · simp [List.foldl_cons, hn, h, fixed, List.find?_cons]
    · simp [List.foldl_cons, hn, h, ih, List.find?_cons]

/-- **Order independence including rejected calls**: from an object without a scale, after *any*
history of calls the remembered scale is the maximum of the first grid that was not rejected
(none if all were) — the rejected calls, wherever they occur, change nothing. -/
theorem b_history_ignores_rejected_calls {K : Type} (t : K → Bool) (mxs : List K) :
    mxs.foldl (fun b mx => (setMaxBChecked_LinearInfiniteRTransform t b mx).1) none = mxs.find? (fun mx => !t mx) ∧
    mxs.foldl (fun b mx => (setMaxBChecked_ExpRTransform t b mx).1) none = mxs.find? (fun mx => !t mx) ∧
    mxs.foldl (fun b mx => (setMaxBChecked_PowerRTransform t b mx).1) none = mxs.find? (fun mx => !t mx) :=
  ⟨first_accepted t _ (fun _ => rfl) (fun _ _ => rfl) mxs,
   first_accepted t _ (fun _ => rfl) (fun _ _ => rfl) mxs,
   first_accepted t _ (fun _ => rfl) (fun _ _ => rfl) mxs⟩

/-- The history behind repair 92a7e5b, now harmless: `[transform(grid with maximum 0) → ValueError,
transform(grid with maximum 5)]` leaves the scale 5, as on a new object that only sees the second
grid (before the repair: 0). -/
theorem b_history_after_rejection_at :
    let t : Nat → Bool := fun x => x == 0
    let step := fun (b : Option Nat) mx => (setMaxBChecked_ExpRTransform t b mx).1
    (setMaxBChecked_ExpRTransform t none 0).2 = true ∧
    [0, 5].foldl step none = some 5 ∧ [5].foldl step none = some 5 := by
  decide

end GridVerif.C19

/-
  C14 — multipole moments equal direct quadrature of their defining integrands.

  Model: `Model/Moments.lean` (hand-written, tied by correspondence, harness/props/c14.py).
  This file: the order lists of `generate_orders_horton_order` (all orders `l`, all `L`)
  and the `(l, m) → row` arithmetic. The value theorems (`moments_entry`, `dipole_spec`)
  are in `Props/C14/Values.lean` (over ℝ).
-/
import GridVerif.Lemmas.Moments

namespace GridVerif.C14
open GridVerif.Moments

/-- **Cartesian orders** (every `l`, `dim = 1, 2, 3`): the rows returned for order `l` are
exactly the compositions of `l` into `dim` non-negative parts; consecutive (indeed any two)
rows are in Horton order, i.e. strictly descending lexicographically — so every composition
appears exactly once and the list is the unique Horton-ordered enumeration. -/
theorem cartesian_orders_spec (dim l : Nat) (hdim : dim = 1 ∨ dim = 2 ∨ dim = 3) :
    hortonOrders .cartesian dim l = .ok ((cartOrders dim l).map fun row => row.map Int.ofNat) ∧
    (∀ row : List Nat, row ∈ cartOrders dim l ↔ row.length = dim ∧ row.sum = l) ∧
    (cartOrders dim l).Pairwise HortonBefore ∧
    (cartOrders dim l).Nodup := by
  have hpw : (cartOrders dim l).Pairwise HortonBefore := by
    rcases hdim with rfl | rfl | rfl
    · simp [cartOrders]
    · simp only [cartOrders]
      rw [List.pairwise_map]
      exact (pairwise_gt_downFrom l).imp (fun h => Or.inl h)
    · simp only [cartOrders]
      rw [List.pairwise_flatMap]
      constructor
      · intro mx _
        rw [List.pairwise_map]
        exact (pairwise_gt_downFrom _).imp (fun h => Or.inr ⟨rfl, Or.inl h⟩)
      · refine (pairwise_gt_downFrom l).imp ?_
        intro a b h x hx y hy
        simp only [List.mem_map] at hx hy
        obtain ⟨_, _, rfl⟩ := hx
        obtain ⟨_, _, rfl⟩ := hy
        exact Or.inl h
  refine ⟨?_, ?_, hpw, ?_⟩
  · unfold hortonOrders hortonOrdersRaw
    rw [if_neg (by simp [hdim])]
  · intro row
    rcases hdim with rfl | rfl | rfl
    · simp only [cartOrders, List.mem_singleton]
      constructor
      · rintro rfl; simp
      · rintro ⟨hlen, hsum⟩
        match row, hlen with
        | [a], _ => simp at hsum; simp [hsum]
    · simp only [cartOrders, List.mem_map, mem_downFrom]
      constructor
      · rintro ⟨mx, hmx, rfl⟩; simp; omega
      · rintro ⟨hlen, hsum⟩
        match row, hlen with
        | [a, b], _ =>
          simp at hsum
          exact ⟨a, by omega, by simp; omega⟩
    · simp only [cartOrders, List.mem_flatMap, List.mem_map, mem_downFrom]
      constructor
      · rintro ⟨mx, hmx, my, hmy, rfl⟩; simp; omega
      · rintro ⟨hlen, hsum⟩
        match row, hlen with
        | [a, b, c], _ =>
          simp at hsum
          exact ⟨a, by omega, b, by omega, by simp; omega⟩
  · exact hpw.imp (fun {a b} h hab => by subst hab; exact hortonBefore_irrefl a h)

/-- Non-vacuity / the documented example: order 2 in three dimensions. -/
example : cartOrders 3 2 = [[2, 0, 0], [1, 1, 0], [1, 0, 1], [0, 2, 0], [0, 1, 1], [0, 0, 2]] ∧
    cartOrders 2 3 = [[3, 0], [2, 1], [1, 2], [0, 3]] ∧ cartOrders 1 4 = [[4]] ∧
    hortonOrders .cartesian 4 2 = .error .valueError := by decide

/-- **Pure orders**: order `l` has `2l+1` rows; the row of `(l, m)` sits at position
`2m−1` (`m > 0`) resp. `2|m|` (`m ≤ 0`), i.e. the rows are `(l,0),(l,1),(l,−1),…,(l,l),(l,−l)`
(these `2l+1` distinct positions fill the list, so every `(l, m)` appears exactly once);
stacked over `0..L` there are `(L+1)²` rows and `(l, m)` sits at `l² + position(m)`
— the Horton-2 layout of the solid-harmonics table. -/
theorem pure_orders_spec (l : Nat) :
    hortonOrders .pure 3 l = .ok (pureOrders l) ∧
    (pureOrders l).length = 2 * l + 1 ∧
    (∀ m : Int, m.natAbs ≤ l → (pureOrders l)[hidx m]? = some [(l : Int), m]) ∧
    (∀ row, row ∈ pureOrders l ↔ ∃ m : Int, m.natAbs ≤ l ∧ row = [(l : Int), m]) ∧
    (∀ L dim, (allOrdersRaw .pure L dim).length = (L + 1) * (L + 1)) ∧
    (∀ L dim, l ≤ L → ∀ m : Int, m.natAbs ≤ l →
      (allOrdersRaw .pure L dim)[l * l + hidx m]? = some [(l : Int), m]) := by
  have hlen : ∀ k, (pureOrders k).length = 2 * k + 1 := by
    intro k; rw [pureOrders_eq, List.length_map, length_hortonMs]
  have hget : ∀ k (m : Int), m.natAbs ≤ k → (pureOrders k)[hidx m]? = some [(k : Int), m] := by
    intro k m hm
    rw [pureOrders_eq, List.getElem?_map, hortonMs_get k m hm]; rfl
  have hblock := fun L => getElem?_flatMap_range pureOrders (fun k => k * k) rfl
    (by intro k; rw [hlen]; ring) (L + 1)
  refine ⟨rfl, hlen l, hget l, ?_, ?_, ?_⟩
  · intro row
    rw [pureOrders_eq]
    simp only [List.mem_map, mem_hortonMs]
    constructor
    · rintro ⟨m, hm, rfl⟩; exact ⟨m, hm, rfl⟩
    · rintro ⟨m, hm, rfl⟩; exact ⟨m, hm, rfl⟩
  · intro L dim
    exact (hblock L).1
  · intro L dim hl m hm
    have hlt : hidx m < (pureOrders l).length := by
      rw [hlen]; unfold hidx; split <;> omega
    have := (hblock L).2 l (hidx m) (by omega) hlt
    rw [hget l m hm] at this
    exact this

example : pureOrders 2 = [[2, 0], [2, 1], [2, -1], [2, 2], [2, -2]] := by decide

/-- **Pure-radial orders**: order `n` has `n²` rows `(n, l, m)`, `l = 0..n−1`, with `(l, m)`
in Horton-2 order: `(n, l, m)` sits at `l² + position(m)`; stacked over `n = 1..L` the block
of `n` starts at `1² + … + (n−1)²`, and there are `L(L+1)(2L+1)/6` rows. -/
theorem pure_radial_orders_spec (n : Nat) :
    hortonOrders .pureRadial 3 n = .ok (pureRadialOrders n) ∧
    (pureRadialOrders n).length = n * n ∧
    (∀ (l : Nat) (m : Int), l < n → m.natAbs ≤ l →
      (pureRadialOrders n)[l * l + hidx m]? = some [(n : Int), (l : Int), m]) ∧
    (∀ row, row ∈ pureRadialOrders n ↔
      ∃ (l : Nat) (m : Int), l < n ∧ m.natAbs ≤ l ∧ row = [(n : Int), (l : Int), m]) ∧
    (∀ L dim, (allOrdersRaw .pureRadial L dim).length = sqSum L ∧
      6 * sqSum L = L * (L + 1) * (2 * L + 1)) ∧
    (∀ L dim (l : Nat) (m : Int), 1 ≤ n → n ≤ L → l < n → m.natAbs ≤ l →
      (allOrdersRaw .pureRadial L dim)[sqSum (n - 1) + (l * l + hidx m)]?
        = some [(n : Int), (l : Int), m]) := by
  have hlen : ∀ k, (pureRadialOrders k).length = k * k := by
    intro k
    rw [pureRadialOrders_eq]
    exact (getElem?_flatMap_range (fun l => (hortonMs l).map fun m => [(k : Int), (l : Int), m])
      (fun j => j * j) rfl (by intro j; rw [List.length_map, length_hortonMs]; ring) k).1
  have hget : ∀ k (l : Nat) (m : Int), l < k → m.natAbs ≤ l →
      (pureRadialOrders k)[l * l + hidx m]? = some [(k : Int), (l : Int), m] := by
    intro k l m hl hm
    rw [pureRadialOrders_eq]
    have hlt : hidx m < ((hortonMs l).map fun m => [(k : Int), (l : Int), m]).length := by
      rw [List.length_map, length_hortonMs]; unfold hidx; split <;> omega
    have := (getElem?_flatMap_range (fun l => (hortonMs l).map fun m => [(k : Int), (l : Int), m])
      (fun j => j * j) rfl (by intro j; rw [List.length_map, length_hortonMs]; ring) k).2 l (hidx m) hl hlt
    rw [this, List.getElem?_map, hortonMs_get l m hm]; rfl
  have hall : ∀ L dim, allOrdersRaw .pureRadial L dim
      = (List.range L).flatMap fun i => pureRadialOrders (i + 1) := by
    intro L dim
    simp [allOrdersRaw, lRange, hortonOrdersRaw, List.flatMap_map]
  have hblock := fun L => getElem?_flatMap_range (fun i => pureRadialOrders (i + 1)) sqSum rfl
    (by intro k; rw [hlen]; rfl) L
  refine ⟨rfl, hlen n, hget n, ?_, ?_, ?_⟩
  · intro row
    rw [pureRadialOrders_eq]
    simp only [List.mem_flatMap, List.mem_range, List.mem_map, mem_hortonMs]
    constructor
    · rintro ⟨l, hl, m, hm, rfl⟩; exact ⟨l, m, hl, hm, rfl⟩
    · rintro ⟨l, m, hl, hm, rfl⟩; exact ⟨l, hl, m, hm, rfl⟩
  · intro L dim
    rw [hall]
    exact ⟨(hblock L).1, six_sqSum L⟩
  · intro L dim l m h1 hn hl hm
    rw [hall]
    have hlt : l * l + hidx m < (pureRadialOrders (n - 1 + 1)).length := by
      rw [hlen]
      have e : n - 1 + 1 = n := by omega
      rw [e]
      have : hidx m ≤ 2 * l := by unfold hidx; split <;> omega
      have : (l + 1) * (l + 1) ≤ n * n := Nat.mul_le_mul hl hl
      nlinarith
    have := (hblock L).2 (n - 1) (l * l + hidx m) (by omega) hlt
    rw [this]
    have e : n - 1 + 1 = n := by omega
    rw [e]
    exact hget n l m hl hm

example : pureRadialOrders 2 = [[2, 0, 0], [2, 1, 0], [2, 1, 1], [2, 1, -1]] ∧
    allOrdersRaw .pureRadial 2 3 = [[1, 0, 0], [2, 0, 0], [2, 1, 0], [2, 1, 1], [2, 1, -1]] := by decide

/-- **Row look-up of the pure-radial branch**: for every row `(n, l, m)` of the stacked
pure-radial order list for maximal order `L`, the index computed by the code
(`l² + 2m − 1` in the branch `m > 0`, `l² + 2|m|` in the branch `m ≤ 0`) is a valid row
number of the Horton-2 table for degree `L` — whose layout is the stacked pure order list
`(0,0),(1,0),(1,1),(1,−1),(2,0),…` — and that row is the row of `(l, m)`. -/
theorem row_lookup_correct (L dim : Nat) (o : List Int) (ho : o ∈ allOrdersRaw .pureRadial L dim) :
    ∃ n l m : Int, o = [n, l, m] ∧ 0 ≤ rowIndex l m ∧
      (0 < m → rowIndex l m = l * l + 2 * m - 1) ∧ (m ≤ 0 → rowIndex l m = l * l + 2 * |m|) ∧
      (allOrdersRaw .pure L 3)[(rowIndex l m).toNat]? = some [l, m] := by
  have hall : allOrdersRaw .pureRadial L dim
      = (List.range L).flatMap fun i => pureRadialOrders (i + 1) := by
    simp [allOrdersRaw, lRange, hortonOrdersRaw, List.flatMap_map]
  rw [hall, List.mem_flatMap] at ho
  obtain ⟨i, hi, hmem⟩ := ho
  rw [List.mem_range] at hi
  obtain ⟨l, m, hl, hm, rfl⟩ := ((pure_radial_orders_spec (i + 1)).2.2.2.1 o).mp hmem
  have hidx_eq : rowIndex (l : Int) m = ((l * l + hidx m : Nat) : Int) := by
    unfold rowIndex hidx
    split
    · rename_i hp; push_cast; omega
    · push_cast; omega
  refine ⟨((i + 1 : Nat) : Int), (l : Int), m, rfl, ?_, ?_, ?_, ?_⟩
  · rw [hidx_eq]; exact Int.natCast_nonneg _
  · intro hp; unfold rowIndex; rw [if_pos hp]; ring
  · intro hp; unfold rowIndex; rw [if_neg (by omega)]
    have : ((m.natAbs : Nat) : Int) = |m| := Int.natCast_natAbs m
    rw [this]
  · rw [hidx_eq, Int.toNat_natCast]
    exact (pure_orders_spec l).2.2.2.2.2 L 3 (by omega) m hm

/-- Both branches on an instance: `(l, m) = (2, 2)` is row 7, `(2, −1)` is row 6 of the
Horton-2 table `(0,0),(1,0),(1,1),(1,−1),(2,0),(2,1),(2,−1),(2,2),(2,−2)`. -/
example : rowIndex 2 2 = 7 ∧ rowIndex 2 (-1) = 6 ∧
    (allOrdersRaw .pure 2 3)[7]? = some [2, 2] ∧ (allOrdersRaw .pure 2 3)[6]? = some [2, -1] ∧
    [3, 2, -1] ∈ allOrdersRaw .pureRadial 3 3 := by decide

end GridVerif.C14

/-
  C17 — closed-form Coulomb potentials of Gaussian densities are exact everywhere.

  The property theorems are in `Props/C17/`:
  * `S.lean`     s-type: `s_solves_poisson`, `s_far`, `s_total_charge`, `s_origin`,
                 `s_switch_below_rounding`, `s_code_vs_closed_form`, `s_closed_form_is_coulomb_integral`,
                 `s_origin_is_coulomb_integral`, `s_unnormalised_factor`,
                 `s_unnormalised_solves_poisson`
  * `P.lean`     p-type: `p_correct`, `p_correct_far`, `p_correct_origin`,
                 `p_correct_is_coulomb_integral` (hand-written corrected formula);
                 `p_code_ne_correct`, `p_code_fails_poisson`, `p_code_minus_correct`,
                 `p_code_consistent` (the code as it is — known finding);
                 `p_unnormalised_factor`
  * `Multi.lean` `multi_centre_is_sum`
  * `Table.lean` `table_ok`, `alphas_positive`, `load_every_element`, `load_normalises`,
                 `load_unknown_rejected`
  Closed forms and table are regenerated from `/repo` (`Gen/Coulomb.lean`,
  `Gen/CoulombParams.lean`) on every run; `erf` is `realErf` (its integral).
-/
import GridVerif.Props.C17.S
import GridVerif.Props.C17.P
import GridVerif.Props.C17.Multi
import GridVerif.Props.C17.Table

/-
  C17 — closed-form Coulomb potentials of Gaussian densities are exact everywhere.

  The property theorems are in `Props/C17/`:
  * `S.lean`     s-type: `s_solves_poisson`, `s_far`, `s_total_charge`, `s_origin`,
                 `s_switch_below_rounding`, `s_code_vs_closed_form`, `s_closed_form_is_coulomb_integral`,
                 `s_origin_is_coulomb_integral`, `s_unnormalised_factor`,
                 `s_unnormalised_solves_poisson`
  * `P.lean`     p-type: `p_correct`, `p_correct_far`, `p_correct_origin`,
                 `p_correct_is_coulomb_integral` (hand-written corrected formula);
                 `p_code_ne_correct`, `p_code_fails_poisson`, `p_code_minus_correct`,
                 `p_code_consistent` (the code as it is — known finding);
                 `p_unnormalised_factor`
  * `Multi.lean` `multi_centre_is_sum` (hand model `Coulomb.coulombPotential`)
  * `MultiGen.lean` about the GENERATED `coulomb_potential`: `potential_gen_eq_model` (bridge),
                 `multi_centre_is_sum_gen`, `multi_centre_s_only`, `shape_guards_reject`,
                 `partial_p_rejected`, `multi_centre_total`, `multi_centre_never_unmodelled`
  * `Table.lean` `table_ok`, `alphas_positive` (+ `model_load_*` about the hand model `Coulomb.load`)
  * `Loader.lean` about the GENERATED `load_atomic_gaussian_params`: `loader_gen_eq_model` (bridge),
                 `load_every_element`, `load_normalises`, `load_unknown_rejected`, `load_type_error`,
                 `load_cache_independent`, `load_unreadable_file`
  * `Translate.lean` (round 3) about the GENERATED `coulomb_potential`: `dist3_translate`,
                 `potential_translation_invariant`, `potential_translation_invariant_arrays` (common shift of
                 points and centres), `potential_no_centres`, `potential_zero_coefficients`,
                 `potential_coincident_centres`, `potential_at_centre`
  * `Linear.lean` (round 6) about the GENERATED `coulomb_potential`: `potential_homogeneous`, `potential_additive_split`,
                 `potential_no_coefficient_skipped` (linear in the coefficients, no function dropped)
  Closed forms, multi-centre routine, loader and table are regenerated from `/repo`
  (`Gen/Coulomb.lean`, `Gen/CoulombPotential.lean`, `Gen/CoulombLoader.lean`,
  `Gen/CoulombParams.lean`) on every run; `erf` is `realErf` (its integral).
-/
import GridVerif.Props.C17.S
import GridVerif.Props.C17.P
import GridVerif.Props.C17.Multi
import GridVerif.Props.C17.MultiGen
import GridVerif.Props.C17.Table
import GridVerif.Props.C17.Loader
import GridVerif.Props.C17.Translate
import GridVerif.Props.C17.Linear

/-
  C04 — the domain clauses on **extended values**: rules on `(0, inf)`, images at `+inf` / `1e16`, the `nan` domain.

  `General.lean` states `domain_ordered_image` / `nodes_in_domain` over ℝ, hence for finite grid domains and finite
  images only.  Here the same model (`Model/Transform1D.lean`, element-wise expressions generated from
  `transform_1d_grid`) and the generated closed forms and declared intervals of the classes (`Gen/RTransform.lean`) are
  instantiated at `K = XReal` — exact reals extended by the IEEE values `±inf`, `nan` (`Lemmas/XReal.lean`) — so that
  the end of a half-infinite rule (`inf`), the value of a half-infinite map at its singular end (`inf`, or `1e16` after
  `_convert_inf`), `np.sort` of a pair containing `inf`, and the `nan` produced by `HyperbolicRTransform` at `inf`
  are *values the statements speak about*:

  * generic (any transform record): `domain_sorted_image_x`, `domain_ordered_image_x` (both images numbers ⇒ ordered
    pair), `domain_nan_of_image_nan` (⇒ `(r(lo), nan)`: not ordered, contains nothing), `nodes_in_domain_x` (monotone
    in either direction on a finite or half-infinite domain ⇒ every node inside, exactly);
  * `HyperbolicRTransform`: `hyperbolic_domain_nan` (every accepted rule on `(0, inf)` gets the domain `(0, nan)`),
    `hyperbolic_accepts_halfLine2` (a witness the code accepts), full statement `hyperbolic_domain_full`, refuted by
    `hyperbolic_domain_fails_at`, proved below the pole (`hyperbolic_domain_partial`);
  * rules on `(0, inf)`: `identity_halfline`, `linearInfinite_halfline` (new domain `(rmin, inf)`, contains the nodes);
  * images at `+inf` / `1e16`: `becke_domain` (`(rmin, inf)` untrimmed, `(rmin, 1e16)` trimmed),
    `becke_nodes_in_domain_untrimmed` (the node `x = 1 ↦ inf` included), `multiExp_domain` (decreasing map: the image
    `(inf, rmin)` is sorted to `(rmin, inf)` / `(rmin, 1e16)`).

  Only definitions of `Gen/RTransform.lean` are used, no theorem of C03.
-/
import GridVerif.Lemmas.XReal
import GridVerif.Model.Transform1D
import GridVerif.Gen.RTransform
import GridVerif.Lemmas.RTransform

namespace GridVerif.C04.Ext
open GridVerif GridVerif.XReal GridVerif.Transform1D GridVerif.Gen.Transform1D

theorem mem_zipWith_x {α β γ : Type} {f : α → β → γ} {xs : List α} {ys : List β} {c : γ}
    (h : c ∈ List.zipWith f xs ys) : ∃ x ∈ xs, ∃ y ∈ ys, c = f x y := by
  induction xs generalizing ys with
  | nil => simp at h
  | cons x xs ih => cases ys with
    | nil => simp at h
    | cons y ys =>
      simp only [List.zipWith_cons_cons, List.mem_cons] at h
      rcases h with rfl | h
      · exact ⟨x, by simp, y, by simp, rfl⟩
      · obtain ⟨a, ha, b, hb, rfl⟩ := ih h
        exact ⟨a, by simp [ha], b, by simp [hb], rfl⟩

/-! ### `np.sort` of two extended values -/

theorem sort2_of_le {a b : XReal} (h : a ≤ b) : sort2 a b = (a, b) := by
  have ha := isNum_of_le_left h
  have hb := isNum_of_le_right h
  have h1 : ¬ b < a := fun hlt => ((lt_iff_not_le hb ha).mp hlt) h
  unfold sort2
  simp [h1, le_refl_of_isNum ha]

theorem sort2_of_lt {a b : XReal} (h : b < a) : sort2 a b = (b, a) := by
  unfold sort2; simp [h]

/-- `np.sort` puts a `nan` last. -/
theorem sort2_nan_right (a : XReal) : sort2 a nan = (a, nan) := by
  unfold sort2
  by_cases h : a ≤ a
  · simp [h]
  · have : a = nan := by
      cases a with
      | nan => rfl
      | fin x => exact absurd (le_refl_of_isNum (x := fin x) trivial) h
      | posInf => exact absurd (le_refl_of_isNum (x := posInf) trivial) h
      | negInf => exact absurd (le_refl_of_isNum (x := negInf) trivial) h
    subst this; simp

theorem sort2_nan_left (b : XReal) : sort2 nan b = (b, nan) := by
  unfold sort2; simp

/-- For two numbers (finite or infinite, not `nan`) `np.sort` returns them in order. -/
theorem sort2_ordered {a b : XReal} (ha : a.IsNum) (hb : b.IsNum) :
    (sort2 a b).1 ≤ (sort2 a b).2 ∧ (sort2 a b = (a, b) ∨ sort2 a b = (b, a)) := by
  by_cases h : b < a
  · rw [sort2_of_lt h]; exact ⟨le_of_lt' h, Or.inr rfl⟩
  · have hab : a ≤ b := by
      rcases le_total' ha hb with h1 | h1
      · exact h1
      · by_contra h2
        exact h ((lt_iff_not_le hb ha).mpr h2)
    rw [sort2_of_le hab]; exact ⟨hab, Or.inl rfl⟩

/-! ### Inversion of the model on extended values -/

/-- What `transform1dGrid tf g = ok g'` says, for grids and transforms over `XReal` (ends and values may be `±inf`, `nan`). -/
theorem transform1dGrid_ok_x {tf : Tf XReal} {g g' : Grid1D XReal} (h : transform1dGrid tf g = .ok g') :
    ∃ lo hi, g.domain = some (lo, hi) ∧ ¬ domainMismatch tf lo hi ∧
      g'.pts = List.zipWith (newPoint tf) g.pts g.wts ∧
      g'.wts = List.zipWith (newWeight tf) g.pts g.wts ∧
      g'.domain = some (newDomain tf lo hi) ∧
      ¬ ((newDomain tf lo hi).1 > (newDomain tf lo hi).2) := by
  unfold transform1dGrid at h
  cases hd : g.domain with
  | none => simp [hd] at h
  | some d =>
    obtain ⟨lo, hi⟩ := d
    simp only [hd] at h
    split_ifs at h with h1 h2 h3 h4
    unfold oneDGridNew at h
    simp only at h
    by_cases h5 : (newDomain tf lo hi).1 > (newDomain tf lo hi).2
    · simp [h5] at h
    simp only [h5, ↓reduceIte] at h
    cases hmin : npMin (List.zipWith (newPoint tf) g.pts g.wts) with
    | none => simp [hmin] at h
    | some mn =>
      cases hmax : npMax (List.zipWith (newPoint tf) g.pts g.wts) with
      | none => simp [hmin, hmax] at h
      | some mx =>
        simp only [hmin, hmax] at h
        split_ifs at h
        simp only [Except.ok.injEq] at h
        subst h
        exact ⟨lo, hi, rfl, h1, rfl, rfl, rfl, h5⟩

/-- **(iii) on extended values** — the new domain is `np.sort` of the images of the two old ends, whatever they are. -/
theorem domain_sorted_image_x {tf : Tf XReal} {g g' : Grid1D XReal} {lo hi : XReal}
    (hok : transform1dGrid tf g = .ok g') (hd : g.domain = some (lo, hi)) :
    g'.domain = some (sort2 (tf.transform lo) (tf.transform hi)) := by
  obtain ⟨lo', hi', hd', -, -, -, hdom, -⟩ := transform1dGrid_ok_x hok
  rw [hd] at hd'
  simp only [Option.some.injEq, Prod.mk.injEq] at hd'
  obtain ⟨rfl, rfl⟩ := hd'
  rw [hdom]; rfl

/-- **(iii)** when both images are numbers — finite, `+inf` or `-inf`, e.g. the `inf` (or `1e16`) a half-infinite map
takes at its singular end — the new domain is an *ordered* pair made of the two images (`np.sort` of an array
containing `inf`). -/
theorem domain_ordered_image_x {tf : Tf XReal} {g g' : Grid1D XReal} {lo hi : XReal}
    (hok : transform1dGrid tf g = .ok g') (hd : g.domain = some (lo, hi))
    (h1 : (tf.transform lo).IsNum) (h2 : (tf.transform hi).IsNum) :
    ∃ a b, g'.domain = some (a, b) ∧ a ≤ b ∧
      ((a, b) = (tf.transform lo, tf.transform hi) ∨ (a, b) = (tf.transform hi, tf.transform lo)) := by
  have := domain_sorted_image_x hok hd
  obtain ⟨hle, hor⟩ := sort2_ordered h1 h2
  exact ⟨_, _, this, hle, hor⟩

/-- **(iii), the `nan` case** — if the image of the upper end is `nan` (and that of the lower end is a number), the
new domain is `(r(lo), nan)`: **not an ordered interval** and **containing no point at all** — and the constructor of
the new grid lets it through (every comparison with `nan` is false). -/
theorem domain_nan_of_image_nan {tf : Tf XReal} {g g' : Grid1D XReal} {lo hi : XReal}
    (hok : transform1dGrid tf g = .ok g') (hd : g.domain = some (lo, hi)) (hnan : tf.transform hi = nan) :
    g'.domain = some (tf.transform lo, nan) ∧ ¬ (tf.transform lo ≤ nan) ∧ ∀ p : XReal, ¬ (p ≤ nan) := by
  refine ⟨?_, not_le_nan _, not_le_nan⟩
  rw [domain_sorted_image_x hok hd, hnan, sort2_nan_right]

/-- Non-decreasing on the closed interval `[lo, hi]` of extended values (`nan` is in no interval). -/
def MonoOnX (f : XReal → XReal) (lo hi : XReal) : Prop := ∀ a b, lo ≤ a → a ≤ b → b ≤ hi → f a ≤ f b
/-- Non-increasing on `[lo, hi]`. -/
def AntiOnX (f : XReal → XReal) (lo hi : XReal) : Prop := ∀ a b, lo ≤ a → a ≤ b → b ≤ hi → f b ≤ f a

/-- **(iii) nodes in the new domain, on extended values** — for a rule on a finite *or half-infinite* domain
(`hi = +inf` allowed) and a map monotone on it in either direction whose values may be `±inf` (the end point of a
half-infinite map, the image of `inf`), every new node lies in the new domain, exactly. -/
theorem nodes_in_domain_x {tf : Tf XReal} {g g' : Grid1D XReal} {lo hi : XReal}
    (hok : transform1dGrid tf g = .ok g') (hd : g.domain = some (lo, hi)) (hlh : lo ≤ hi)
    (hin : ∀ x ∈ g.pts, lo ≤ x ∧ x ≤ hi)
    (hmono : MonoOnX tf.transform lo hi ∨ AntiOnX tf.transform lo hi) :
    ∃ a b, g'.domain = some (a, b) ∧ a ≤ b ∧ ∀ p ∈ g'.pts, a ≤ p ∧ p ≤ b := by
  have hlo : lo ≤ lo := le_refl_of_isNum (isNum_of_le_left hlh)
  have hhi : hi ≤ hi := le_refl_of_isNum (isNum_of_le_right hlh)
  obtain ⟨lo', hi', -, -, hp, -, -, -⟩ := transform1dGrid_ok_x hok
  have hdom := domain_sorted_image_x hok hd
  have key : ∀ a b : XReal, (sort2 (tf.transform lo) (tf.transform hi) = (a, b)) → a ≤ b →
      (∀ x, lo ≤ x → x ≤ hi → a ≤ tf.transform x ∧ tf.transform x ≤ b) →
      ∃ a b, g'.domain = some (a, b) ∧ a ≤ b ∧ ∀ p ∈ g'.pts, a ≤ p ∧ p ≤ b := by
    intro a b hs hab hall
    refine ⟨a, b, by rw [hdom, hs], hab, ?_⟩
    intro p hpm
    rw [hp] at hpm
    obtain ⟨x, hx, w, -, rfl⟩ := GridVerif.C04.Ext.mem_zipWith_x hpm
    exact hall x (hin x hx).1 (hin x hx).2
  rcases hmono with hm | hm
  · have hle : tf.transform lo ≤ tf.transform hi := hm lo hi hlo hlh hhi
    exact key _ _ (sort2_of_le hle) hle fun x h1 h2 => ⟨hm lo x hlo h1 h2, hm x hi h1 h2 hhi⟩
  · have hle : tf.transform hi ≤ tf.transform lo := hm lo hi hlo hlh hhi
    by_cases hlt : tf.transform hi < tf.transform lo
    · exact key _ _ (sort2_of_lt hlt) hle fun x h1 h2 => ⟨hm x hi h1 h2 hhi, hm lo x hlo h1 h2⟩
    · have hle' : tf.transform lo ≤ tf.transform hi := by
        by_contra h2
        exact hlt ((lt_iff_not_le (isNum_of_le_left hle) (isNum_of_le_right hle)).mpr h2)
      exact key _ _ (sort2_of_le hle') hle' fun x h1 h2 =>
        ⟨le_trans' hle' (hm x hi h1 h2 hhi), le_trans' (hm lo x hlo h1 h2) hle'⟩

/-! ### The library's classes on extended values (generated closed forms, generated intervals) -/

open GridVerif.Gen.RTransform (BaseTransform IdentityRTransform LinearInfiniteRTransform HyperbolicRTransform
  BeckeRTransform MultiExpRTransform)

/-- Lower / upper end of a declared interval as the guard of `transform_1d_grid` sees it (`none` = infinite). -/
def endLo : ExtVal XReal → Option XReal
  | .fin x => some x
  | .negInf => none
  | .posInf => some posInf
def endHi : ExtVal XReal → Option XReal
  | .fin x => some x
  | .posInf => none
  | .negInf => some negInf

/-- A generated transform object with its generated declared domain. -/
noncomputable def ofOps (f : BaseTransform XReal) (dom : ExtVal XReal × ExtVal XReal)
    (sizeRaises : Nat → Bool := fun _ => false) : Tf XReal :=
  { transform := f.transform, inverse := f.inverse, deriv := f.deriv, deriv2 := f.deriv2, deriv3 := f.deriv3,
    domLo := endLo dom.1, domHi := endHi dom.2, sizeRaises := sizeRaises }

/-! #### `HyperbolicRTransform`: the `(0, nan)` domain -/

noncomputable def hyperbolicX (a b : ℝ) : HyperbolicRTransform XReal := { a := fin a, b := fin b }

/-- `HyperbolicRTransform(a, b)` as `transform_1d_grid` sees it: generated formulas, generated domain `(0, inf)`,
generated size guard `b·(n-1) ≥ 1`. -/
noncomputable def hyperbolicTf (a b : ℝ) : Tf XReal :=
  ofOps (hyperbolicX a b).ops (hyperbolicX a b).domainExt
    (fun n => decide (HyperbolicRTransform.transform_raises (hyperbolicX a b) ((n : ℕ) : XReal) (fin 0)))

/-- The generated formula at the declared upper end of the domain: `a·inf / (1 - b·inf) = inf / -inf = nan`
(`0 < a`, `0 < b`: what the constructor enforces). -/
theorem hyperbolic_transform_posInf {a b : ℝ} (ha : 0 < a) (hb : 0 < b) :
    (hyperbolicTf a b).transform posInf = nan := by
  show HyperbolicRTransform.transform (hyperbolicX a b) posInf = nan
  simp [HyperbolicRTransform.transform, hyperbolicX, fin_mul_posInf_of_pos ha, fin_mul_posInf_of_pos hb]

theorem hyperbolic_transform_zero (a b : ℝ) : (hyperbolicTf a b).transform (fin 0) = fin 0 := by
  show HyperbolicRTransform.transform (hyperbolicX a b) (fin 0) = fin 0
  simp [HyperbolicRTransform.transform, hyperbolicX, fin_div_fin]

/-- **The `(0, nan)` finding as a statement.** Every rule on the half line `(0, inf)` that
`HyperbolicRTransform(a, b).transform_1d_grid` accepts comes back with the domain `(0, nan)`, which is not an ordered
interval and contains none of the new nodes. -/
theorem hyperbolic_domain_nan {a b : ℝ} (ha : 0 < a) (hb : 0 < b) {g g' : Grid1D XReal}
    (hd : g.domain = some (fin 0, posInf)) (hok : transform1dGrid (hyperbolicTf a b) g = .ok g') :
    g'.domain = some (fin 0, nan) ∧ ¬ ((fin 0 : XReal) ≤ nan) ∧ ∀ p ∈ g'.pts, ¬ (p ≤ nan) := by
  obtain ⟨h1, h2, h3⟩ := domain_nan_of_image_nan hok hd (hyperbolic_transform_posInf ha hb)
  rw [hyperbolic_transform_zero] at h1
  exact ⟨h1, not_le_nan _, fun p _ => h3 p⟩

/-- The two-node rule `(0, 1; 1, 1)` on `(0, inf)` (the first two nodes of `UniformInteger`). -/
noncomputable def halfLine2 : Grid1D XReal :=
  { pts := [fin 0, fin 1], wts := [fin 1, fin 1], domain := some (fin 0, posInf) }

/-- The code accepts the witness: `HyperbolicRTransform(1, 1/20)` on `halfLine2` returns a grid (so the statement above
is not vacuous) — with the domain `(0, nan)`. -/
theorem hyperbolic_accepts_halfLine2 :
    ∃ g', transform1dGrid (hyperbolicTf 1 (1/20)) halfLine2 = .ok g' ∧ g'.domain = some (fin 0, nan) := by
  have hdom : newDomain (hyperbolicTf 1 (1/20)) (fin 0) posInf = (fin 0, nan) := by
    unfold newDomain domainImage
    rw [hyperbolic_transform_zero, hyperbolic_transform_posInf (by norm_num) (by norm_num), sort2_nan_right]
  have hp0 : (hyperbolicTf 1 (1/20)).transform (fin 0) = fin 0 := hyperbolic_transform_zero _ _
  have hp1 : (hyperbolicTf 1 (1/20)).transform (fin 1) = fin (20/19) := by
    show HyperbolicRTransform.transform (hyperbolicX 1 (1/20)) (fin 1) = _
    have h : (1:ℝ) - 1/20 * 1 ≠ 0 := by norm_num
    simp only [HyperbolicRTransform.transform, hyperbolicX, natCast_eq, fin_mul_fin, fin_sub_fin, Nat.cast_one,
      fin_div_fin h]
    norm_num
  have hs : ∀ n : ℕ, n ≤ 2 → (hyperbolicTf 1 (1/20)).sizeRaises n = false := by
    intro n hn
    show decide (HyperbolicRTransform.transform_raises (hyperbolicX 1 (1/20)) ((n : ℕ) : XReal) (fin 0)) = false
    simp only [HyperbolicRTransform.transform_raises, hyperbolicX, natCast_eq, fin_sub_fin, fin_mul_fin, ge_iff_le,
      fin_le_fin, decide_eq_false_iff_not, not_le]
    have : (n : ℝ) ≤ 2 := by exact_mod_cast hn
    norm_num
    linarith
  refine ⟨{ pts := [fin 0, fin (20/19)], wts := List.zipWith (newWeight (hyperbolicTf 1 (1/20))) [fin 0, fin 1] [fin 1, fin 1],
            domain := some (fin 0, nan) }, ?_, rfl⟩
  unfold transform1dGrid halfLine2
  have hguard : ¬ domainMismatch (hyperbolicTf 1 (1/20)) (fin 0) posInf := by
    unfold domainMismatch hyperbolicTf ofOps HyperbolicRTransform.domainExt endLo endHi ltLo gtHi
    simp
  simp only [hguard, ↓reduceIte, List.length_cons, List.length_nil, hs 2 (le_refl _), Bool.false_eq_true]
  have hany : ([fin 0, fin 1] : List XReal).any (hyperbolicTf 1 (1/20)).derivRaises = false := by
    simp [hyperbolicTf, ofOps]
  have hpts : List.zipWith (newPoint (hyperbolicTf 1 (1/20))) [fin 0, fin 1] [fin 1, fin 1] = [fin 0, fin (20/19)] := by
    simp only [List.zipWith_cons_cons, List.zipWith_nil_right, newPoint, hp0, hp1]
  simp only [hany, Bool.false_eq_true, ↓reduceIte, hdom, hpts]
  unfold oneDGridNew
  simp [npMin, npMax, minStep, maxStep, slack, fin_div_fin]
  rw [if_neg (by norm_num)]
  simp only [fin_lt_fin, not_lt]
  norm_num

/-- **(iii), full statement for the class**: every rule `HyperbolicRTransform(a, b).transform_1d_grid` accepts comes back
with a domain that is an ordered interval containing every new node. -/
def hyperbolic_domain_full (a b : ℝ) : Prop :=
  ∀ g g' : Grid1D XReal, transform1dGrid (hyperbolicTf a b) g = .ok g' →
    ∀ lo hi, g'.domain = some (lo, hi) → lo ≤ hi ∧ ∀ p ∈ g'.pts, lo ≤ p ∧ p ≤ hi

/-- **(iii) fails for the code as it is** on `HyperbolicRTransform(1, 1/20)` and the two-node rule on `(0, inf)`:
the returned domain is `(0, nan)`. (Recorded in `KNOWN_FINDINGS.txt`, key `…HyperbolicRTransform:domain-nan`.) -/
theorem hyperbolic_domain_fails_at : ¬ hyperbolic_domain_full 1 (1/20) := by
  intro h
  obtain ⟨g', hok, hdom⟩ := hyperbolic_accepts_halfLine2
  exact not_le_nan _ (h _ _ hok _ _ hdom).1

theorem hyperbolic_transform_fin (a b : ℝ) {v : ℝ} (hv : b * v < 1) :
    (hyperbolicTf a b).transform (fin v) = fin (a * v / (1 - b * v)) := by
  show HyperbolicRTransform.transform (hyperbolicX a b) (fin v) = _
  have h : (1:ℝ) - b * v ≠ 0 := by linarith
  simp [HyperbolicRTransform.transform, hyperbolicX, fin_div_fin h]

/-- **(iii), proved part**: for a rule on a *finite* interval `[0, c]` below the pole (`b·c < 1`, the domain of use of
C03) the new domain is ordered and contains every new node. Missing for the full statement: the image of the
declared upper end `inf`. -/
theorem hyperbolic_domain_partial {a b c : ℝ} (ha : 0 < a) (hb : 0 < b) (hc0 : 0 ≤ c) (hc : b * c < 1)
    {g g' : Grid1D XReal} (hd : g.domain = some (fin 0, fin c))
    (hin : ∀ x ∈ g.pts, fin 0 ≤ x ∧ x ≤ fin c) (hok : transform1dGrid (hyperbolicTf a b) g = .ok g') :
    ∃ lo hi, g'.domain = some (lo, hi) ∧ lo ≤ hi ∧ ∀ p ∈ g'.pts, lo ≤ p ∧ p ≤ hi := by
  refine nodes_in_domain_x hok hd hc0 hin (Or.inl ?_)
  intro x y hx hxy hy
  cases x with
  | fin u =>
    cases y with
    | fin v =>
      have hu0 : 0 ≤ u := hx
      have huv : u ≤ v := hxy
      have hvc : v ≤ c := hy
      have hbv : b * v < 1 := lt_of_le_of_lt (mul_le_mul_of_nonneg_left hvc hb.le) hc
      have hbu : b * u < 1 := lt_of_le_of_lt (mul_le_mul_of_nonneg_left huv hb.le) hbv
      rw [hyperbolic_transform_fin a b hbu, hyperbolic_transform_fin a b hbv]
      show a * u / (1 - b * u) ≤ a * v / (1 - b * v)
      rw [div_le_div_iff₀ (by linarith) (by linarith)]
      nlinarith [mul_nonneg ha.le (sub_nonneg.mpr huv)]
    | posInf => exact False.elim hy
    | negInf => exact False.elim hxy
    | nan => exact False.elim hy
  | posInf => exact False.elim (by cases y <;> first | exact hxy | exact hy)
  | negInf => exact False.elim hx
  | nan => exact False.elim hx

/-! #### Rules on `(0, inf)`: `IdentityRTransform`, `LinearInfiniteRTransform` -/

noncomputable def identityTf : Tf XReal :=
  ofOps (⟨⟩ : IdentityRTransform XReal).ops (⟨⟩ : IdentityRTransform XReal).domainExt

/-- A rule on the half line through `IdentityRTransform`: the image of the domain `(0, inf)` is `(0, inf)` — an ordered
pair with an infinite end — and contains every node. -/
theorem identity_halfline {g g' : Grid1D XReal} (hd : g.domain = some (fin 0, posInf))
    (hin : ∀ x ∈ g.pts, fin 0 ≤ x ∧ x ≤ posInf) (hok : transform1dGrid identityTf g = .ok g') :
    g'.domain = some (fin 0, posInf) ∧ ∀ p ∈ g'.pts, fin 0 ≤ p ∧ p ≤ posInf := by
  have hdom := domain_sorted_image_x hok hd
  have e : ∀ x, identityTf.transform x = x := fun _ => rfl
  rw [e, e, sort2_of_le (fin_le_posInf 0)] at hdom
  refine ⟨hdom, ?_⟩
  obtain ⟨_, _, -, -, hp, -⟩ := transform1dGrid_ok_x hok
  intro p hpm
  rw [hp] at hpm
  obtain ⟨x, hx, w, -, hpe⟩ := mem_zipWith_x hpm
  have : p = x := hpe
  rw [this]
  exact hin x hx

noncomputable def linInfX (t : LinearInfiniteRTransform ℝ) : LinearInfiniteRTransform XReal :=
  { rmin := fin t.rmin, rmax := fin t.rmax, b := fin t.b }

noncomputable def linearInfiniteTf (t : LinearInfiniteRTransform ℝ) : Tf XReal :=
  ofOps (linInfX t).ops (linInfX t).domainExt

theorem linearInfinite_transform_fin (t : LinearInfiniteRTransform ℝ) (hb : t.b ≠ 0) (v : ℝ) :
    (linearInfiniteTf t).transform (fin v) = fin ((t.rmax - t.rmin) / t.b * v + t.rmin) := by
  show LinearInfiniteRTransform.transform (linInfX t) (fin v) = _
  simp [LinearInfiniteRTransform.transform, linInfX, fin_div_fin hb]

/-- The image of `inf` under the linear map with positive slope is `inf`. -/
theorem linearInfinite_transform_posInf (t : LinearInfiniteRTransform ℝ) (hlt : t.rmin < t.rmax) (hb : 0 < t.b) :
    (linearInfiniteTf t).transform posInf = posInf := by
  show LinearInfiniteRTransform.transform (linInfX t) posInf = _
  have ha : 0 < (t.rmax - t.rmin) / t.b := div_pos (by linarith) hb
  simp [LinearInfiniteRTransform.transform, linInfX, fin_div_fin hb.ne', fin_mul_posInf_of_pos ha]

/-- A rule on the half line `(0, inf)` through `LinearInfiniteRTransform(rmin, rmax, b)` (`rmin < rmax`: constructor;
`0 < b`): the new domain is `(rmin, inf)` — the image of the declared domain, *not* the declared codomain
`(rmin, rmax)` — it is ordered and contains every new node. -/
theorem linearInfinite_halfline (t : LinearInfiniteRTransform ℝ) (hlt : t.rmin < t.rmax) (hb : 0 < t.b)
    {g g' : Grid1D XReal} (hd : g.domain = some (fin 0, posInf))
    (hin : ∀ x ∈ g.pts, fin 0 ≤ x ∧ x ≤ posInf) (hok : transform1dGrid (linearInfiniteTf t) g = .ok g') :
    g'.domain = some (fin t.rmin, posInf) ∧ ∀ p ∈ g'.pts, fin t.rmin ≤ p ∧ p ≤ posInf := by
  have ha : 0 < (t.rmax - t.rmin) / t.b := div_pos (by linarith) hb
  have hdom := domain_sorted_image_x hok hd
  rw [linearInfinite_transform_fin t hb.ne', linearInfinite_transform_posInf t hlt hb,
    sort2_of_le (fin_le_posInf _)] at hdom
  simp only [mul_zero, zero_add] at hdom
  refine ⟨hdom, ?_⟩
  obtain ⟨_, _, -, -, hp, -⟩ := transform1dGrid_ok_x hok
  intro p hpm
  rw [hp] at hpm
  obtain ⟨x, hx, w, -, rfl⟩ := mem_zipWith_x hpm
  unfold newPoint
  obtain ⟨h0, -⟩ := hin x hx
  cases x with
  | fin v =>
    rw [linearInfinite_transform_fin t hb.ne']
    have hv : 0 ≤ v := h0
    refine ⟨?_, fin_le_posInf _⟩
    show t.rmin ≤ (t.rmax - t.rmin) / t.b * v + t.rmin
    have := mul_nonneg ha.le hv
    linarith
  | posInf => rw [linearInfinite_transform_posInf t hlt hb]; exact ⟨fin_le_posInf _, posInf_le_posInf⟩
  | negInf => exact False.elim h0
  | nan => exact False.elim h0

/-! #### Images at `+inf` / `1e16`: `BeckeRTransform`, `MultiExpRTransform` on a rule on `[-1, 1]` -/

/-- The literal `1e16`. -/
noncomputable def big : XReal := fin 10000000000000000

noncomputable def beckeX (t : BeckeRTransform ℝ) : BeckeRTransform XReal :=
  { rmin := fin t.rmin, R := fin t.R, trim_inf := t.trim_inf }
noncomputable def beckeTf (t : BeckeRTransform ℝ) : Tf XReal := ofOps (beckeX t).ops (beckeX t).domainExt

theorem becke_transform_fin (t : BeckeRTransform ℝ) {x : ℝ} (hx : x ≠ 1) :
    (beckeTf t).transform (fin x) = fin (t.R * (1 + x) / (1 - x) + t.rmin) := by
  show BeckeRTransform.transform (beckeX t) (fin x) = _
  have h1 : (1:ℝ) - x ≠ 0 := sub_ne_zero.mpr (Ne.symm hx)
  cases h : t.trim_inf <;>
  simp [BeckeRTransform.transform, beckeX, fin_div_fin h1, BaseTransform.convert_inf, h]

theorem becke_transform_one (t : BeckeRTransform ℝ) (hR : 0 < t.R) :
    (beckeTf t).transform (fin 1) = if t.trim_inf then big else posInf := by
  show BeckeRTransform.transform (beckeX t) (fin 1) = _
  have h2 : (0:ℝ) < t.R * (1 + 1) := by positivity
  cases h : t.trim_inf <;>
  simp [BeckeRTransform.transform, beckeX, fin_div_zero_of_pos h2, h, BaseTransform.convert_inf, big]

/-- **Image at `+inf` / `1e16`.** A rule on `[-1, 1]` through `BeckeRTransform(rmin, R)` (`0 < R`, `rmin ≤ 1e16`): the
new domain is `(rmin, inf)` without trimming and `(rmin, 1e16)` with trimming — an ordered pair in both cases. -/
theorem becke_domain (t : BeckeRTransform ℝ) (hR : 0 < t.R) (hmin : t.rmin ≤ 10000000000000000)
    {g g' : Grid1D XReal} (hd : g.domain = some (fin (-1), fin 1)) (hok : transform1dGrid (beckeTf t) g = .ok g') :
    g'.domain = some (fin t.rmin, if t.trim_inf then big else posInf) ∧
    (fin t.rmin : XReal) ≤ (if t.trim_inf then big else posInf) := by
  have hdom := domain_sorted_image_x hok hd
  have hle : (fin t.rmin : XReal) ≤ (if t.trim_inf then big else posInf) := by
    cases t.trim_inf
    · exact fin_le_posInf _
    · exact hmin
  rw [becke_transform_fin t (by norm_num : (-1:ℝ) ≠ 1), becke_transform_one t hR] at hdom
  simp only [add_neg_cancel, mul_zero, zero_div, zero_add] at hdom
  rw [sort2_of_le hle] at hdom
  exact ⟨hdom, hle⟩

/-- Without trimming every new node — the node `x = 1` included, whose image is `inf` — lies in the new domain
`[rmin, inf]`. -/
theorem becke_nodes_in_domain_untrimmed (t : BeckeRTransform ℝ) (hR : 0 < t.R) (htrim : t.trim_inf = false)
    {g g' : Grid1D XReal} (hin : ∀ x ∈ g.pts, ∃ v : ℝ, x = fin v ∧ -1 ≤ v ∧ v ≤ 1)
    (hok : transform1dGrid (beckeTf t) g = .ok g') :
    ∀ p ∈ g'.pts, fin t.rmin ≤ p ∧ p ≤ posInf := by
  obtain ⟨_, _, -, -, hp, -⟩ := transform1dGrid_ok_x hok
  intro p hpm
  rw [hp] at hpm
  obtain ⟨x, hx, w, -, rfl⟩ := mem_zipWith_x hpm
  obtain ⟨v, rfl, hv1, hv2⟩ := hin x hx
  unfold newPoint
  rcases eq_or_lt_of_le hv2 with rfl | hlt
  · rw [becke_transform_one t hR, htrim]; exact ⟨fin_le_posInf _, posInf_le_posInf⟩
  · rw [becke_transform_fin t hlt.ne]
    refine ⟨?_, fin_le_posInf _⟩
    show t.rmin ≤ t.R * (1 + v) / (1 - v) + t.rmin
    have : 0 ≤ t.R * (1 + v) / (1 - v) := div_nonneg (mul_nonneg hR.le (by linarith)) (by linarith)
    linarith

/-- With trimming the new domain ends at `1e16`; every new node whose (exact) image does not exceed `1e16` — the node
`x = 1 ↦ 1e16` included — lies in it. (A node so close to `1`, or a scale `R` so large, that the finite image exceeds
`1e16` falls outside: `OneDGrid` then rejects the grid with `ValueError`; observed with `R = 1e10`, `x = 1 - 1e-7`.) -/
theorem becke_nodes_in_domain_trimmed (t : BeckeRTransform ℝ) (hR : 0 < t.R) (htrim : t.trim_inf = true)
    {g g' : Grid1D XReal} (hin : ∀ x ∈ g.pts, ∃ v : ℝ, x = fin v ∧ -1 ≤ v ∧ v ≤ 1)
    (hsmall : ∀ v : ℝ, fin v ∈ g.pts → v < 1 → t.R * (1 + v) / (1 - v) + t.rmin ≤ 10000000000000000)
    (hmin : t.rmin ≤ 10000000000000000)
    (hok : transform1dGrid (beckeTf t) g = .ok g') :
    ∀ p ∈ g'.pts, fin t.rmin ≤ p ∧ p ≤ big := by
  obtain ⟨_, _, -, -, hp, -⟩ := transform1dGrid_ok_x hok
  intro p hpm
  rw [hp] at hpm
  obtain ⟨x, hx, w, -, rfl⟩ := mem_zipWith_x hpm
  obtain ⟨v, rfl, hv1, hv2⟩ := hin x hx
  unfold newPoint
  rcases eq_or_lt_of_le hv2 with rfl | hlt
  · rw [becke_transform_one t hR, htrim]
    exact ⟨hmin, le_refl_of_isNum (x := big) trivial⟩
  · rw [becke_transform_fin t hlt.ne]
    refine ⟨?_, hsmall v hx hlt⟩
    show t.rmin ≤ t.R * (1 + v) / (1 - v) + t.rmin
    have : 0 ≤ t.R * (1 + v) / (1 - v) := div_nonneg (mul_nonneg hR.le (by linarith)) (by linarith)
    linarith

/-- `InverseRTransform(BeckeRTransform(rmin, R))` as `transform_1d_grid` sees it: generated wrapper, generated swap of the
declared intervals (its domain is the codomain `(rmin, inf)` of the Becke map). -/
noncomputable def inverseBeckeTf (t : BeckeRTransform ℝ) : Tf XReal :=
  ofOps (GridVerif.Gen.RTransform.wrapInverseRTransform (beckeX t).ops)
    (GridVerif.Gen.RTransform.InverseRTransform.domainExt (beckeX t).domainExt (beckeX t).codomainExt)

/-- The Becke inverse at the declared upper end of its domain: `(inf - rmin - R)/(inf - rmin + R) = inf/inf = nan`. -/
theorem inverse_becke_transform_posInf (t : BeckeRTransform ℝ) : (inverseBeckeTf t).transform posInf = nan := by
  show BeckeRTransform.inverse (beckeX t) posInf = nan
  simp [BeckeRTransform.inverse, beckeX]

theorem inverse_becke_transform_rmin (t : BeckeRTransform ℝ) (hR : t.R ≠ 0) :
    (inverseBeckeTf t).transform (fin t.rmin) = fin (-1) := by
  show BeckeRTransform.inverse (beckeX t) (fin t.rmin) = fin (-1)
  have h : t.rmin - t.rmin + t.R ≠ 0 := by simpa using hR
  simp only [BeckeRTransform.inverse, beckeX, fin_sub_fin, fin_add_fin, fin_div_fin h]
  congr 1
  rw [sub_self, zero_sub, zero_add, neg_div, div_self hR]

/-- **The round trip of a half-infinite domain gives `(-1, nan)`** (listed finding `…InverseRTransform:domain-nan`):
every grid on `(rmin, inf)` — e.g. the one `BeckeRTransform(rmin, R, trim_inf=False)` produced from a rule on `[-1, 1]` —
that `InverseRTransform(BeckeRTransform(rmin, R))` accepts comes back with the domain `(-1, nan)` instead of `(-1, 1)`:
not an ordered interval, containing no node. -/
theorem inverse_becke_domain_nan (t : BeckeRTransform ℝ) (hR : t.R ≠ 0) {g g' : Grid1D XReal}
    (hd : g.domain = some (fin t.rmin, posInf)) (hok : transform1dGrid (inverseBeckeTf t) g = .ok g') :
    g'.domain = some (fin (-1), nan) ∧ ¬ ((fin (-1) : XReal) ≤ nan) ∧ ∀ p ∈ g'.pts, ¬ (p ≤ nan) := by
  obtain ⟨h1, -, h3⟩ := domain_nan_of_image_nan hok hd (inverse_becke_transform_posInf t)
  rw [inverse_becke_transform_rmin t hR] at h1
  exact ⟨h1, not_le_nan _, fun p _ => h3 p⟩

noncomputable def multiExpX (t : MultiExpRTransform ℝ) : MultiExpRTransform XReal :=
  { rmin := fin t.rmin, R := fin t.R, trim_inf := t.trim_inf }
noncomputable def multiExpTf (t : MultiExpRTransform ℝ) : Tf XReal := ofOps (multiExpX t).ops (multiExpX t).domainExt

/-- **`np.sort` of an image containing `inf`, decreasing map.** A rule on `[-1, 1]` through `MultiExpRTransform(rmin, R)`
(`0 < R`, `rmin ≤ 1e16`): the images of the ends are `(inf or 1e16, rmin)` in this order — the map decreases — and the
new domain is the sorted pair `(rmin, inf)` / `(rmin, 1e16)`. -/
theorem multiExp_domain (t : MultiExpRTransform ℝ) (hR : 0 < t.R) (hmin : t.rmin ≤ 10000000000000000)
    {g g' : Grid1D XReal} (hd : g.domain = some (fin (-1), fin 1)) (hok : transform1dGrid (multiExpTf t) g = .ok g') :
    (multiExpTf t).transform (fin (-1)) = (if t.trim_inf then big else posInf) ∧
    (multiExpTf t).transform (fin 1) = fin t.rmin ∧
    g'.domain = some (fin t.rmin, if t.trim_inf then big else posInf) := by
  have h2 : -t.R < 0 := by linarith
  have h0 : (fin 0 / fin 2 : XReal) = fin 0 := by rw [fin_div_fin (by norm_num)]; simp
  have e1 : (multiExpTf t).transform (fin (-1)) = (if t.trim_inf then big else posInf) := by
    show MultiExpRTransform.transform (multiExpX t) (fin (-1)) = _
    cases h : t.trim_inf <;>
    simp [MultiExpRTransform.transform, multiExpX, h0, elem_log_zero, fin_mul_negInf_of_neg h2, h,
      BaseTransform.convert_inf, big]
  have e2 : (multiExpTf t).transform (fin 1) = fin t.rmin := by
    show MultiExpRTransform.transform (multiExpX t) (fin 1) = _
    have h1 : (fin (1 + 1) / fin 2 : XReal) = fin 1 := by rw [fin_div_fin (by norm_num)]; norm_num
    cases h : t.trim_inf <;>
    simp [MultiExpRTransform.transform, multiExpX, h1, elem_log_fin_of_pos, h, BaseTransform.convert_inf]
  refine ⟨e1, e2, ?_⟩
  have hdom := domain_sorted_image_x hok hd
  rw [e1, e2] at hdom
  rw [hdom]
  cases h : t.trim_inf
  · simp only [Bool.false_eq_true, ↓reduceIte]
    rw [sort2_of_lt (fin_lt_posInf _)]
  · simp only [↓reduceIte]
    rcases eq_or_lt_of_le hmin with heq | hlt
    · have : (fin t.rmin : XReal) = big := by rw [heq]; rfl
      rw [this, sort2_of_le (le_refl_of_isNum (x := big) trivial)]
    · rw [sort2_of_lt (show (fin t.rmin : XReal) < big from hlt)]

/-- Non-vacuity of the hypotheses on the infinite-end classes (`0 < R`, `rmin ≤ 1e16`, `rmin < rmax`, `0 < b`). -/
example : ∃ t : BeckeRTransform ℝ, 0 < t.R ∧ t.rmin ≤ 10000000000000000 := ⟨⟨1 / 10, 3 / 2, true⟩, by norm_num, by norm_num⟩
example : ∃ t : LinearInfiniteRTransform ℝ, t.rmin < t.rmax ∧ 0 < t.b := ⟨⟨1 / 2, 2, 4⟩, by norm_num, by norm_num⟩
end GridVerif.C04.Ext

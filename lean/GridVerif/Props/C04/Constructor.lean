/-
  C04 (round 3) — the constructor `OneDGrid.__init__` (basegrid.py) that `transform_1d_grid` ends in,
  **generated statement by statement** (`Gen/OneDGridInit.lean`), and its `1e-7` window seen through a
  transform.

  * `init_eq_model`, `transform1dGridGen_eq`: for every carrier `K` (`Float` of the driver included) the
    generated constructor with `points.ndim = 1` is the hand model `oneDGridNew`, and `transform_1d_grid`
    ending in the generated constructor is the model `transform1dGrid` all other C04 theorems speak about.
    A changed literal / comparison / order of statements in the source regenerates a different text and
    these two equalities (or the window theorems below) no longer hold.
  * `init_ndim`: anything but a 1-D array of points is a `ValueError`, before the domain is looked at.
  * `init_accepts_iff`: the acceptance window, with the regenerated constant: a non-empty array with as
    many weights and a domain `(lo, hi)` is accepted **iff** `lo ≤ hi` and every node lies in
    `[lo - 1/10⁷, hi + 1/10⁷]`; `init_window_below`, `init_window_above`: one node `δ` outside.
  * `transform_accepts_iff`: the same window *after* the map: a grid (non-empty, passing the domain guard,
    nothing raising inside the transform) is accepted iff every **image** lies within `1/10⁷` of the
    ordered image of the old ends — where the old node itself was is irrelevant;
    `linear_slack_above`, `linear_slack_below`: under `LinearFiniteRTransform(rmin, rmax)` a node `δ`
    outside `[-1, 1]` (which the constructor of the *old* grid tolerated up to `δ ≤ 1/10⁷`) is accepted
    iff `δ · (rmax - rmin)/2 ≤ 1/10⁷`: a slope above one turns a tolerated node into a rejected grid.
-/
import GridVerif.Props.C04.Concrete
import GridVerif.Model.Transform1DGen

namespace GridVerif.C04.Ctor
open GridVerif.Transform1D GridVerif.Gen.Transform1D GridVerif.Gen GridVerif.C04
open GridVerif.Gen.RTransform (LinearFiniteRTransform)

set_option linter.unusedSectionVars false

section generic
variable {K : Type} [Add K] [Sub K] [Mul K] [Div K] [Neg K] [NatCast K] [Elem K]
  [LT K] [LE K] [DecidableLT K] [DecidableLE K]

/-- **Generated = model**: `OneDGrid.__init__` as regenerated from the source, called with a 1-D array of
points, is the hand-written constructor of `Model/Transform1D.lean` — for every carrier. -/
theorem init_eq_model (pts wts : List K) (dom : Option (K × K)) :
    OneDGridInit.init 1 pts wts dom = oneDGridNew pts wts dom := by
  unfold OneDGridInit.init oneDGridNew gridInit slack
  cases dom with
  | none => simp only [ne_eq, not_true_eq_false, ↓reduceIte]; split_ifs <;> rfl
  | some d =>
    obtain ⟨lo, hi⟩ := d
    simp only [ne_eq, not_true_eq_false, ↓reduceIte, false_or]
    cases hmin : npMin pts <;> cases hmax : npMax pts <;> simp only [] <;> split_ifs <;> rfl

/-- `if points.ndim != 1: raise ValueError` comes first. -/
theorem init_ndim {ndim : Nat} (h : ndim ≠ 1) (pts wts : List K) (dom : Option (K × K)) :
    OneDGridInit.init ndim pts wts dom = .error .valueError := by
  unfold OneDGridInit.init
  simp [h]

/-- `transform_1d_grid` ending in the generated constructor is the model of the other theorems. -/
theorem transform1dGridGen_eq (tf : Tf K) (g : Grid1D K) :
    transform1dGridGen tf g = transform1dGrid tf g := by
  unfold transform1dGridGen transform1dGrid
  cases g.domain with
  | none => rfl
  | some d => obtain ⟨lo, hi⟩ := d; simp only [init_eq_model]

end generic

/-! ### The window of the constructor (regenerated constant) -/

/-- **The acceptance window of `OneDGrid(points, weights, (lo, hi))`**, constant as regenerated. -/
theorem init_accepts_iff (pts wts : List ℝ) (lo hi : ℝ) :
    (∃ g, OneDGridInit.init 1 pts wts (some (lo, hi)) = .ok g) ↔
      lo ≤ hi ∧ pts ≠ [] ∧ pts.length = wts.length ∧
        ∀ p ∈ pts, lo - 1 / 10000000 ≤ p ∧ p ≤ hi + 1 / 10000000 := by
  rw [init_eq_model]
  constructor
  · rintro ⟨g, hg⟩
    obtain ⟨-, h1, h2, h3, h4⟩ := oneDGridNew_ok hg
    rw [slack_real] at h4
    exact ⟨h1, h2, h3, h4⟩
  · rintro ⟨h1, h2, h3, h4⟩
    rw [← slack_real] at h4
    exact ⟨_, oneDGridNew_accepts h1 h2 h3 h4⟩

/-- The accepted grid is the data handed in (nothing is sorted, clipped or copied differently). -/
theorem init_ok_eq {pts wts : List ℝ} {dom : Option (ℝ × ℝ)} {g : Grid1D ℝ}
    (h : OneDGridInit.init 1 pts wts dom = .ok g) : g = { pts := pts, wts := wts, domain := dom } := by
  unfold OneDGridInit.init gridInit at h
  cases dom with
  | none =>
    simp only [ne_eq, not_true_eq_false, ↓reduceIte] at h
    split_ifs at h
    simp only [Except.ok.injEq] at h
    exact h.symm
  | some d =>
    obtain ⟨lo, hi⟩ := d
    simp only [ne_eq, not_true_eq_false, ↓reduceIte, false_or] at h
    split at h
    · exact absurd h (by simp)
    · split at h
      · exact absurd h (by simp)
      · split at h
        · exact absurd h (by simp)
        · split at h
          · exact absurd h (by simp)
          · split at h
            · exact absurd h (by simp)
            · split_ifs at h
              simp only [Except.ok.injEq] at h
              exact h.symm

/-- One node `δ ≥ 0` below the lower end: accepted iff `δ ≤ 1/10⁷`. -/
theorem init_window_below {lo hi δ w : ℝ} (hlh : lo ≤ hi) (hδ : 0 ≤ δ) :
    (∃ g, OneDGridInit.init 1 [lo - δ] [w] (some (lo, hi)) = .ok g) ↔ δ ≤ 1 / 10000000 := by
  rw [init_accepts_iff]
  constructor
  · rintro ⟨-, -, -, h⟩
    have := (h (lo - δ) (by simp)).1
    linarith
  · intro h
    refine ⟨hlh, by simp, rfl, ?_⟩
    intro p hp
    simp only [List.mem_singleton] at hp
    subst hp
    constructor <;> linarith

/-- One node `δ ≥ 0` above the upper end: accepted iff `δ ≤ 1/10⁷`. -/
theorem init_window_above {lo hi δ w : ℝ} (hlh : lo ≤ hi) (hδ : 0 ≤ δ) :
    (∃ g, OneDGridInit.init 1 [hi + δ] [w] (some (lo, hi)) = .ok g) ↔ δ ≤ 1 / 10000000 := by
  rw [init_accepts_iff]
  constructor
  · rintro ⟨-, -, -, h⟩
    have := (h (hi + δ) (by simp)).2
    linarith
  · intro h
    refine ⟨hlh, by simp, rfl, ?_⟩
    intro p hp
    simp only [List.mem_singleton] at hp
    subst hp
    constructor <;> linarith

/-- Both sides of the constant at the factor 1.01 (the samples of the correspondence):
`δ = 1e-7/1.01` is accepted, `δ = 1.01e-7` is rejected. -/
example : (∃ g, OneDGridInit.init 1 [(-1 : ℝ) - 1 / 10100000] [1] (some (-1, 1)) = .ok g) ∧
    ¬ (∃ g, OneDGridInit.init 1 [(1 : ℝ) + 101 / 1000000000] [1] (some (-1, 1)) = .ok g) := by
  constructor
  · exact (init_window_below (by norm_num) (by norm_num)).mpr (by norm_num)
  · rw [init_window_above (by norm_num) (by norm_num)]
    norm_num

/-! ### The same window seen through `transform_1d_grid` -/

theorem zipWith_fst_eq_map {α β γ : Type} (f : α → γ) (xs : List α) (ws : List β)
    (h : xs.length = ws.length) : List.zipWith (fun x _ => f x) xs ws = xs.map f := by
  induction xs generalizing ws with
  | nil => simp
  | cons x xs ih => cases ws with
    | nil => simp at h
    | cons w ws =>
      simp only [List.zipWith_cons_cons, List.map_cons, List.cons.injEq, true_and]
      exact ih ws (by simpa using h)

theorem newPoints_eq_map (tf : Tf ℝ) (g : Grid1D ℝ) (hlen : g.pts.length = g.wts.length) :
    List.zipWith (newPoint tf) g.pts g.wts = g.pts.map tf.transform := by
  have : newPoint tf = fun x _ => tf.transform x := by
    funext x w
    unfold newPoint
    rfl
  rw [this, zipWith_fst_eq_map _ _ _ hlen]

theorem newDomain_real (tf : Tf ℝ) (lo hi : ℝ) :
    newDomain tf lo hi = (min (tf.transform lo) (tf.transform hi), max (tf.transform lo) (tf.transform hi)) := by
  unfold newDomain domainImage
  rw [sort2_real]

/-- **The `1e-7` window seen through a transform.** A non-empty grid that passes the domain guard, under a
transform whose methods raise nothing, is accepted **iff** every image `r(x)` lies within `1/10⁷` of the
ordered image `[min(r(lo), r(hi)), max(r(lo), r(hi))]` of the old ends. -/
theorem transform_accepts_iff {tf : Tf ℝ} {g : Grid1D ℝ} {lo hi : ℝ}
    (hd : g.domain = some (lo, hi)) (hguard : ¬ domainMismatch tf lo hi)
    (hsz : ∀ n, tf.sizeRaises n = false) (hdr : ∀ x, tf.derivRaises x = false)
    (hne : g.pts ≠ []) (hlen : g.pts.length = g.wts.length) :
    (∃ g', transform1dGridGen tf g = .ok g') ↔
      ∀ x ∈ g.pts, min (tf.transform lo) (tf.transform hi) - 1 / 10000000 ≤ tf.transform x ∧
        tf.transform x ≤ max (tf.transform lo) (tf.transform hi) + 1 / 10000000 := by
  rw [transform1dGridGen_eq]
  constructor
  · rintro ⟨g', hok⟩ x hx
    obtain ⟨lo', hi', hd', -, hp, -, -, -, -, hin⟩ := transform1dGrid_ok hok
    rw [hd] at hd'
    simp only [Option.some.injEq, Prod.mk.injEq] at hd'
    obtain ⟨rfl, rfl⟩ := hd'
    rw [hp, newPoints_eq_map tf g hlen, newDomain_real, slack_real] at hin
    exact hin (tf.transform x) (List.mem_map.mpr ⟨x, hx, rfl⟩)
  · intro h
    refine ⟨_, transform1dGrid_accepts hd hguard hsz hdr hne hlen ?_ ?_⟩
    · rw [newDomain_real]; exact min_le_max
    · intro p hp
      rw [newPoints_eq_map tf g hlen] at hp
      obtain ⟨x, hx, rfl⟩ := List.mem_map.mp hp
      rw [newDomain_real, slack_real]
      exact h x hx

theorem linearFinite_transform (t : LinearFiniteRTransform ℝ) (x : ℝ) :
    (linearFiniteTf t).transform x = (1 + x) * (t.rmax - t.rmin) / 2 + t.rmin := by
  show LinearFiniteRTransform.transform t x = _
  unfold LinearFiniteRTransform.transform
  simp only [Nat.cast_one, Nat.cast_ofNat]

theorem linearFinite_guard (t : LinearFiniteRTransform ℝ) : ¬ domainMismatch (linearFiniteTf t) (-1) 1 := by
  unfold domainMismatch ltLo gtHi linearFiniteTf ofBase LinearFiniteRTransform.domain_lo
    LinearFiniteRTransform.domain_hi
  simp only [Nat.cast_one]
  norm_num

/-- **Slack magnified by the map, upper end.** The one-node grid `(1 + δ; w)` on `[-1, 1]` (`δ ≥ 0`; the
constructor of that grid tolerated `δ ≤ 1/10⁷`) through the generated increasing
`LinearFiniteRTransform(rmin, rmax)` is accepted iff `δ·(rmax - rmin)/2 ≤ 1/10⁷`. -/
theorem linear_slack_above (t : LinearFiniteRTransform ℝ) (hlt : t.rmin < t.rmax) {δ w : ℝ} (hδ : 0 ≤ δ) :
    (∃ g', transform1dGridGen (linearFiniteTf t) { pts := [1 + δ], wts := [w], domain := some (-1, 1) } = .ok g')
      ↔ δ * ((t.rmax - t.rmin) / 2) ≤ 1 / 10000000 := by
  rw [transform_accepts_iff (lo := -1) (hi := 1) rfl (linearFinite_guard t) (fun _ => rfl) (fun _ => rfl)
    (by simp) rfl]
  simp only [List.mem_singleton, forall_eq, linearFinite_transform]
  have hlo : (1 + (-1 : ℝ)) * (t.rmax - t.rmin) / 2 + t.rmin = t.rmin := by ring
  have hhi : (1 + (1 : ℝ)) * (t.rmax - t.rmin) / 2 + t.rmin = t.rmax := by ring
  rw [hlo, hhi, min_eq_left hlt.le, max_eq_right hlt.le]
  have hpos : 0 ≤ δ * ((t.rmax - t.rmin) / 2) := mul_nonneg hδ (by linarith)
  constructor
  · rintro ⟨-, h⟩
    nlinarith [h]
  · intro h
    constructor <;> nlinarith [h]

/-- **Slack magnified by the map, lower end** (node `-1 - δ`). -/
theorem linear_slack_below (t : LinearFiniteRTransform ℝ) (hlt : t.rmin < t.rmax) {δ w : ℝ} (hδ : 0 ≤ δ) :
    (∃ g', transform1dGridGen (linearFiniteTf t) { pts := [-1 - δ], wts := [w], domain := some (-1, 1) } = .ok g')
      ↔ δ * ((t.rmax - t.rmin) / 2) ≤ 1 / 10000000 := by
  rw [transform_accepts_iff (lo := -1) (hi := 1) rfl (linearFinite_guard t) (fun _ => rfl) (fun _ => rfl)
    (by simp) rfl]
  simp only [List.mem_singleton, forall_eq, linearFinite_transform]
  have hlo : (1 + (-1 : ℝ)) * (t.rmax - t.rmin) / 2 + t.rmin = t.rmin := by ring
  have hhi : (1 + (1 : ℝ)) * (t.rmax - t.rmin) / 2 + t.rmin = t.rmax := by ring
  rw [hlo, hhi, min_eq_left hlt.le, max_eq_right hlt.le]
  have hpos : 0 ≤ δ * ((t.rmax - t.rmin) / 2) := mul_nonneg hδ (by linarith)
  constructor
  · rintro ⟨h, -⟩
    nlinarith [h]
  · intro h
    constructor <;> nlinarith [h]

/-- Both sides at one tolerated node `δ = 1/10⁷`: slope `1/2` (`[0, 1]`) keeps it, slope `2` (`[0, 4]`)
turns it into a rejected grid. -/
example :
    (∃ g', transform1dGridGen (linearFiniteTf { rmin := 0, rmax := 1 })
      { pts := [1 + 1 / 10000000], wts := [1], domain := some (-1, 1) } = .ok g') ∧
    ¬ (∃ g', transform1dGridGen (linearFiniteTf { rmin := 0, rmax := 4 })
      { pts := [1 + 1 / 10000000], wts := [1], domain := some (-1, 1) } = .ok g') := by
  constructor
  · exact (linear_slack_above _ (by norm_num) (by norm_num)).mpr (by norm_num)
  · rw [linear_slack_above _ (by norm_num) (by norm_num)]
    norm_num

end GridVerif.C04.Ctor

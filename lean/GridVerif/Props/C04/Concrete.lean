/-
  C04 — the clauses that name a concrete transform class, on the *generated* closed forms of
  `Gen/RTransform.lean` (only the definitions; no theorem of C03 is used):

  * `MultiExpRTransform` (the library's decreasing map): every positive weight becomes negative,
    integrals of positive functions come out negative, the full statement (i) fails on it;
  * `LinearFiniteRTransform`: exactness is transported — a rule exact for polynomials of degree
    ≤ 2n-1 on `[-1, 1]` (contract of Gauss–Legendre, a hypothesis) becomes exact for the same
    degrees on `[rmin, rmax]`.
-/
import GridVerif.Props.C04.General
import GridVerif.Gen.RTransform
import GridVerif.Lemmas.RTransform
import Mathlib.Algebra.Polynomial.Degree.Lemmas
import Mathlib.Algebra.Polynomial.Degree.SmallDegree
import Mathlib.Algebra.Polynomial.Eval.Defs
import Mathlib.Analysis.SpecialFunctions.Integrals.Basic
import Mathlib.Analysis.SpecialFunctions.Log.Basic
import Mathlib.Tactic.FieldSimp
import Mathlib.Tactic.Positivity

namespace GridVerif.C04
open GridVerif.Transform1D GridVerif.Gen.Transform1D
open GridVerif.Gen.RTransform (BaseTransform MultiExpRTransform LinearFiniteRTransform)

/-- A transform object of `Gen/RTransform.lean` with its declared domain, as seen by
`transform_1d_grid` (nothing raises). -/
noncomputable def ofBase (f : BaseTransform ℝ) (lo hi : Option ℝ) : Tf ℝ :=
  { transform := f.transform, inverse := f.inverse, deriv := f.deriv, deriv2 := f.deriv2,
    deriv3 := f.deriv3, domLo := lo, domHi := hi }

/-! ### MultiExpRTransform: the decreasing map of the library -/

/-- `MultiExpRTransform(rmin, R)` with its generated domain `(-1, 1)`. -/
noncomputable def multiExpTf (t : MultiExpRTransform ℝ) : Tf ℝ := ofBase t.ops (some t.domain_lo) (some t.domain_hi)

theorem multiexp_deriv_neg (t : MultiExpRTransform ℝ) (hR : 0 < t.R) {x : ℝ} (hx : -1 < x) :
    (multiExpTf t).deriv x < 0 := by
  show MultiExpRTransform.deriv t x < 0
  unfold MultiExpRTransform.deriv
  simp only [Nat.cast_one]
  have : 0 < 1 + x := by linarith
  exact div_neg_of_neg_of_pos (by linarith) this

/-- **(ii) as the code is, on the library's decreasing map**: for `MultiExpRTransform` with
`R > 0`, every rule with positive weights and nodes in `(-1, 1]` gets *negative* weights
(observed: Gauss–Legendre 40 ∘ MultiExp(0, 1.5) gives `∫₀^∞ e^{-r} dr = -1`). -/
theorem multiexp_negative_weights (t : MultiExpRTransform ℝ) (hR : 0 < t.R) {g g' : Grid1D ℝ}
    (hok : transform1dGrid (multiExpTf t) g = .ok g') (hx : ∀ x ∈ g.pts, -1 < x)
    (hw : ∀ w ∈ g.wts, 0 < w) : ∀ w' ∈ g'.wts, w' < 0 :=
  weights_neg_of_decreasing hok (fun x h => multiexp_deriv_neg t hR (hx x h)) hw

/-- … and the integral of every positive function over the new grid is *negative*. -/
theorem multiexp_integral_neg (t : MultiExpRTransform ℝ) (hR : 0 < t.R) {g g' : Grid1D ℝ}
    (hok : transform1dGrid (multiExpTf t) g = .ok g') (hx : ∀ x ∈ g.pts, -1 < x)
    (hw : ∀ w ∈ g.wts, 0 < w) (f : ℝ → ℝ) (hf : ∀ p ∈ g'.pts, 0 < f p) : integrate g' f < 0 := by
  have hneg := multiexp_negative_weights t hR hok hx hw
  obtain ⟨lo, hi, -, -, -, -, -, -, hne, -⟩ := transform1dGrid_ok hok
  have hlen : g'.pts.length = g'.wts.length := by
    obtain ⟨_, _, -, -, hp, hwt, -⟩ := transform1dGrid_ok hok
    rw [hp, hwt]; simp
  unfold integrate
  rw [sumK_eq_sum]
  apply neg_pos.mp
  rw [← sum_zipWith_neg]
  apply List.sum_pos
  · intro s hs
    obtain ⟨p, hp, w, hwm, rfl⟩ := mem_zipWith hs
    have := mul_neg_of_pos_of_neg (hf p hp) (hneg w hwm)
    linarith
  · intro h0
    have h1 := congrArg List.length h0
    simp only [List.length_zipWith, List.length_nil] at h1
    have : 0 < g'.pts.length := List.length_pos_iff.mpr hne
    omega

/-- `MultiExpRTransform(rmin = 0, R = 1, trim_inf = False)`. -/
noncomputable def multiExp01 : MultiExpRTransform ℝ := { rmin := 0, R := 1, trim_inf := false }

/-- One-node rule on the sub-interval `[-1/2, 1/2]` of the transform's domain: node `0`, weight `1`. -/
noncomputable def midpointHalf : Grid1D ℝ := { pts := [0], wts := [1], domain := some (-1/2, 1/2) }

theorem multiExp01_antitone : AntitoneOn (multiExpTf multiExp01).transform (Set.Icc (-1/2) (1/2)) := by
  intro a ha b hb hab
  show MultiExpRTransform.transform multiExp01 b ≤ MultiExpRTransform.transform multiExp01 a
  unfold MultiExpRTransform.transform multiExp01
  simp only [Nat.cast_one, Nat.cast_ofNat, C03.elem_log, Bool.false_eq_true, ↓reduceIte]
  have h1 : (0:ℝ) < (a + 1) / 2 := by have := ha.1; linarith
  have h2 : (a + 1) / 2 ≤ (b + 1) / 2 := by linarith
  have := Real.log_le_log h1 h2
  linarith

theorem multiExp01_accepts : ∃ g', transform1dGrid (multiExpTf multiExp01) midpointHalf = .ok g' :=
  transform_accepts_of_monotone (lo := -1/2) (hi := 1/2) rfl
    (by
      unfold domainMismatch ltLo gtHi multiExpTf ofBase MultiExpRTransform.domain_lo
        MultiExpRTransform.domain_hi
      simp only [Nat.cast_one]
      norm_num)
    (fun _ => rfl) (fun _ => rfl) (by simp [midpointHalf]) rfl
    (by intro x hx; simp [midpointHalf] at hx; subst hx; constructor <;> norm_num)
    (Or.inr multiExp01_antitone)

/-- **(i) fails on the library's own decreasing class** (`multiexp_negative_weights` in
DESIGN): for `MultiExpRTransform(0, 1)` and the one-node rule `(0; 1)` on `[-1/2, 1/2]` the
code accepts the grid, and the constant `1` sums to `r'(0)·1 = -1` while the change of
variables gives `|r'(0)|·1 = 1`. -/
theorem integrate_transformed_fails_at_multiexp :
    ∃ g', transform1dGrid (multiExpTf multiExp01) midpointHalf = .ok g' ∧
      integrate g' (fun _ => 1) = -1 ∧
      ruleSum midpointHalf (fun x => (fun _ => (1:ℝ)) ((multiExpTf multiExp01).transform x)
        * |(multiExpTf multiExp01).deriv x|) = 1 := by
  obtain ⟨g', hok⟩ := multiExp01_accepts
  refine ⟨g', hok, ?_, ?_⟩
  · rw [integrate_transformed_signed hok]
    unfold ruleSum midpointHalf
    show (List.zipWith (fun x w => w * (1 * MultiExpRTransform.deriv multiExp01 x)) [0] [1]).sum = -1
    unfold MultiExpRTransform.deriv multiExp01
    simp
  · unfold ruleSum midpointHalf
    show (List.zipWith (fun x w => w * (1 * |MultiExpRTransform.deriv multiExp01 x|)) [0] [1]).sum = 1
    unfold MultiExpRTransform.deriv multiExp01
    simp

/-! ### (iv) exactness is transported by LinearFiniteRTransform -/

/-- `LinearFiniteRTransform(rmin, rmax)` with its generated domain `(-1, 1)`. -/
noncomputable def linearFiniteTf (t : LinearFiniteRTransform ℝ) : Tf ℝ :=
  ofBase t.ops (some t.domain_lo) (some t.domain_hi)

theorem ruleSum_mul_const (g : Grid1D ℝ) (φ : ℝ → ℝ) (c : ℝ) :
    ruleSum g (fun x => φ x * c) = c * ruleSum g φ := by
  unfold ruleSum
  generalize g.pts = xs
  generalize g.wts = ws
  induction xs generalizing ws with
  | nil => simp
  | cons x xs ih => cases ws with
    | nil => simp
    | cons w ws => simp only [List.zipWith_cons_cons, List.sum_cons, ih]; ring

/-- **(iv) `gl_linear_exact`.** If the rule `g` integrates every polynomial of degree
`≤ 2n-1` over `[-1, 1]` exactly (the contract of `GaussLegendre(n)`; a hypothesis), then its
image under the generated `LinearFiniteRTransform(rmin, rmax)` integrates every polynomial of
degree `≤ 2n-1` over `[rmin, rmax]` exactly. (For `rmin ≤ rmax` this is the integral over the
interval; for `rmin > rmax`, which the constructor admits, the map decreases and the value is
the oriented integral `∫_{rmin}^{rmax} = -∫_{[rmax, rmin]}` — the sign defect of clause (i).) -/
theorem gl_linear_exact (n : ℕ) (t : LinearFiniteRTransform ℝ) {g g' : Grid1D ℝ}
    (hex : ∀ p : Polynomial ℝ, p.natDegree ≤ 2 * n - 1 →
      ruleSum g (fun x => p.eval x) = ∫ x in (-1:ℝ)..1, p.eval x)
    (hok : transform1dGrid (linearFiniteTf t) g = .ok g') :
    ∀ p : Polynomial ℝ, p.natDegree ≤ 2 * n - 1 →
      integrate g' (fun r => p.eval r) = ∫ r in t.rmin..t.rmax, p.eval r := by
  intro p hp
  rw [integrate_transformed_signed hok]
  set c : ℝ := (t.rmax - t.rmin) / 2 with hc
  set d : ℝ := (t.rmax + t.rmin) / 2 with hd
  have hr : ∀ x, (linearFiniteTf t).transform x = c * x + d := by
    intro x
    show LinearFiniteRTransform.transform t x = _
    unfold LinearFiniteRTransform.transform
    simp only [Nat.cast_one, Nat.cast_ofNat]
    rw [hc, hd]; ring
  have hr' : ∀ x, (linearFiniteTf t).deriv x = c := by
    intro x
    show LinearFiniteRTransform.deriv t x = _
    unfold LinearFiniteRTransform.deriv
    simp only [Nat.cast_one, Nat.cast_ofNat]
    rw [hc]; ring
  let q : Polynomial ℝ := p.comp (Polynomial.C c * Polynomial.X + Polynomial.C d)
  have hq : ∀ x, q.eval x = p.eval (c * x + d) := by
    intro x; simp [q, Polynomial.eval_comp]
  have hqdeg : q.natDegree ≤ 2 * n - 1 := by
    calc q.natDegree ≤ p.natDegree * (Polynomial.C c * Polynomial.X + Polynomial.C d).natDegree :=
          Polynomial.natDegree_comp_le
      _ ≤ p.natDegree * 1 := Nat.mul_le_mul_left _ Polynomial.natDegree_linear_le
      _ ≤ 2 * n - 1 := by simpa using hp
  have h1 : ruleSum g (fun x => p.eval ((linearFiniteTf t).transform x) * (linearFiniteTf t).deriv x)
      = c * ruleSum g (fun x => q.eval x) := by
    rw [← ruleSum_mul_const]
    congr 1
    funext x
    rw [hr, hr', hq]
  rw [h1, hex q hqdeg]
  simp only [hq]
  have := intervalIntegral.smul_integral_comp_mul_add (fun r => p.eval r) (a := -1) (b := 1) c d
  rw [smul_eq_mul] at this
  rw [this]
  congr 1 <;> rw [hc, hd] <;> ring

/-- The image of a rule on `[-1, 1]` with nodes in `[-1, 1]` under `LinearFiniteRTransform` is
never rejected (either orientation of `rmin, rmax`). -/
theorem linearFinite_accepts (t : LinearFiniteRTransform ℝ) {g : Grid1D ℝ}
    (hd : g.domain = some (-1, 1)) (hne : g.pts ≠ []) (hlen : g.pts.length = g.wts.length)
    (hin : ∀ x ∈ g.pts, x ∈ Set.Icc (-1:ℝ) 1) :
    ∃ g', transform1dGrid (linearFiniteTf t) g = .ok g' := by
  apply transform_accepts_of_monotone hd _ (fun _ => rfl) (fun _ => rfl) hne hlen hin
  · have key : ∀ a b : ℝ, a ≤ b →
        (linearFiniteTf t).transform b - (linearFiniteTf t).transform a = (b - a) * ((t.rmax - t.rmin) / 2) := by
      intro a b _
      show LinearFiniteRTransform.transform t b - LinearFiniteRTransform.transform t a = _
      unfold LinearFiniteRTransform.transform
      simp only [Nat.cast_one, Nat.cast_ofNat]
      ring
    by_cases hs : t.rmin ≤ t.rmax
    · left
      intro a _ b _ hab
      have := key a b hab
      have h2 : 0 ≤ (b - a) * ((t.rmax - t.rmin) / 2) := mul_nonneg (by linarith) (by linarith)
      linarith
    · right
      intro a _ b _ hab
      have := key a b hab
      have h2 : (b - a) * ((t.rmax - t.rmin) / 2) ≤ 0 :=
        mul_nonpos_of_nonneg_of_nonpos (by linarith) (by linarith [not_le.mp hs])
      linarith
  · unfold domainMismatch ltLo gtHi linearFiniteTf ofBase LinearFiniteRTransform.domain_lo
      LinearFiniteRTransform.domain_hi
    simp only [Nat.cast_one]
    norm_num

/-- Non-vacuity of `gl_linear_exact`: the one-node Gauss–Legendre rule (node `0`, weight `2`)
is exact for degree `≤ 1 = 2·1-1` on `[-1, 1]`, is accepted by `LinearFiniteRTransform(2, 5)`,
hence its image integrates every polynomial of degree ≤ 1 over `[2, 5]` exactly. -/
example : ∃ g', transform1dGrid (linearFiniteTf { rmin := 2, rmax := 5 }) midpoint1 = .ok g' ∧
    ∀ p : Polynomial ℝ, p.natDegree ≤ 2 * 1 - 1 →
      integrate g' (fun r => p.eval r) = ∫ r in (2:ℝ)..5, p.eval r := by
  obtain ⟨g', hok⟩ := linearFinite_accepts { rmin := 2, rmax := 5 } (g := midpoint1) rfl
    (by simp [midpoint1]) rfl (by intro x hx; simp [midpoint1] at hx; subst hx; constructor <;> norm_num)
  refine ⟨g', hok, gl_linear_exact 1 _ ?_ hok⟩
  intro p hp
  obtain ⟨a, b, rfl⟩ := Polynomial.exists_eq_X_add_C_of_natDegree_le_one (by simpa using hp)
  unfold ruleSum midpoint1
  simp only [Polynomial.eval_add, Polynomial.eval_mul, Polynomial.eval_C, Polynomial.eval_X,
    List.zipWith_cons_cons, List.zipWith_nil_right, List.sum_cons, List.sum_nil]
  have h1 : IntervalIntegrable (fun x : ℝ => a * x) MeasureTheory.volume (-1) 1 :=
    (by fun_prop : Continuous fun x : ℝ => a * x).intervalIntegrable _ _
  have h2 : IntervalIntegrable (fun _ : ℝ => b) MeasureTheory.volume (-1) 1 := intervalIntegrable_const
  rw [intervalIntegral.integral_add h1 h2, intervalIntegral.integral_const_mul, integral_id,
    intervalIntegral.integral_const]
  norm_num [smul_eq_mul]

end GridVerif.C04

/-
  C04 — transforming a 1-D grid is a faithful change of variables.

  Theorems over ℝ about the model `Model/Transform1D.lean` (whose element-wise expressions are
  the generated text `Gen/Transform1D.lean`), for an **abstract** transform record `tf`
  (functions `tf.transform = r`, `tf.deriv = r'`; no closed form of C03 is used here).

  The source multiplies the weights by the *signed* derivative. Clauses that need `|r'|`
  are kept at full strength as `def …_full : Prop`, refuted at a concrete witness
  (`…_fails_at`), and proved for non-decreasing maps (`…_partial`).
-/
import GridVerif.Lemmas.Transform1D
import Mathlib.Algebra.Order.BigOperators.Group.List
import Mathlib.Order.Monotone.Defs
import Mathlib.Tactic.NormNum

namespace GridVerif.C04
open GridVerif.Transform1D GridVerif.Gen.Transform1D

/-! ### List plumbing -/

theorem zipWith_zipWith {α β γ δ ε : Type} (h : γ → δ → ε) (a : α → β → γ) (b : α → β → δ)
    (xs : List α) (ys : List β) :
    List.zipWith h (List.zipWith a xs ys) (List.zipWith b xs ys)
      = List.zipWith (fun x y => h (a x y) (b x y)) xs ys := by
  induction xs generalizing ys with
  | nil => simp
  | cons x xs ih => cases ys with
    | nil => simp
    | cons y ys => simp [ih]

theorem zipWith_congr_mem {α β γ : Type} (f f' : α → β → γ) (xs : List α) (ys : List β)
    (h : ∀ x ∈ xs, ∀ y ∈ ys, f x y = f' x y) : List.zipWith f xs ys = List.zipWith f' xs ys := by
  induction xs generalizing ys with
  | nil => simp
  | cons x xs ih => cases ys with
    | nil => simp
    | cons y ys =>
      simp only [List.zipWith_cons_cons, List.cons.injEq]
      exact ⟨h x (by simp) y (by simp), ih ys fun a ha b hb => h a (by simp [ha]) b (by simp [hb])⟩

theorem mem_zipWith {α β γ : Type} {f : α → β → γ} {xs : List α} {ys : List β} {c : γ}
    (h : c ∈ List.zipWith f xs ys) : ∃ x ∈ xs, ∃ y ∈ ys, c = f x y := by
  induction xs generalizing ys with
  | nil => simp at h
  | cons x xs ih => cases ys with
    | nil => simp at h
    | cons y ys =>
      simp only [List.zipWith_cons_cons, List.mem_cons] at h
      rcases h with rfl | h
      · exact ⟨x, by simp, y, by simp, rfl⟩
      · obtain ⟨a, ha, b, hb, rfl⟩ := ih h
        exact ⟨a, by simp [ha], b, by simp [hb], rfl⟩

theorem sum_zipWith_neg {α β : Type} (h : α → β → ℝ) (xs : List α) (ys : List β) :
    (List.zipWith (fun x y => - h x y) xs ys).sum = - (List.zipWith h xs ys).sum := by
  induction xs generalizing ys with
  | nil => simp
  | cons x xs ih => cases ys with
    | nil => simp
    | cons y ys => simp only [List.zipWith_cons_cons, List.sum_cons, ih]; ring

/-- The original rule applied to `φ`: `Σᵢ wᵢ · φ(xᵢ)`. -/
def ruleSum (g : Grid1D ℝ) (φ : ℝ → ℝ) : ℝ :=
  (List.zipWith (fun x w => w * φ x) g.pts g.wts).sum

/-! ### (i) the sum over the new grid is the old rule applied to `g(r(x))·J(x)` -/

/-- **(i), as the code is** — for every transform record, every accepted grid and every
integrand: summing `f` over the new grid equals the original rule applied to
`f(r(x))·r'(x)`, with the **signed** derivative. Unconditional. -/
theorem integrate_transformed_signed {tf : Tf ℝ} {g g' : Grid1D ℝ}
    (hok : transform1dGrid tf g = .ok g') (f : ℝ → ℝ) :
    integrate g' f = ruleSum g (fun x => f (tf.transform x) * tf.deriv x) := by
  obtain ⟨lo, hi, -, -, hp, hw, -⟩ := transform1dGrid_ok hok
  unfold integrate ruleSum
  rw [sumK_eq_sum, hp, hw, zipWith_zipWith]
  congr 1
  apply zipWith_congr_mem
  intro x _ w _
  unfold newPoint newWeight
  ring

/-- **(i), full statement of the property**: the Jacobian factor is the *magnitude* `|r'|`. -/
def integrate_transformed_full : Prop :=
  ∀ (tf : Tf ℝ) (g g' : Grid1D ℝ), transform1dGrid tf g = .ok g' → ∀ f : ℝ → ℝ,
    integrate g' f = ruleSum g (fun x => f (tf.transform x) * |tf.deriv x|)

/-- **(i), proved part**: the full statement for maps that do not decrease at the nodes
(`0 ≤ r'(xᵢ)`). Missing for the full statement: the absolute value in the source. -/
theorem integrate_transformed_partial {tf : Tf ℝ} {g g' : Grid1D ℝ}
    (hok : transform1dGrid tf g = .ok g') (hmono : ∀ x ∈ g.pts, 0 ≤ tf.deriv x) (f : ℝ → ℝ) :
    integrate g' f = ruleSum g (fun x => f (tf.transform x) * |tf.deriv x|) := by
  rw [integrate_transformed_signed hok]
  unfold ruleSum
  congr 1
  apply zipWith_congr_mem
  intro x hx w _
  simp only [abs_of_nonneg (hmono x hx)]

/-- **(i), what happens instead for a decreasing map** (`r'(xᵢ) ≤ 0` at the nodes): the sum
over the new grid is *minus* the change-of-variables value. -/
theorem integrate_transformed_decreasing {tf : Tf ℝ} {g g' : Grid1D ℝ}
    (hok : transform1dGrid tf g = .ok g') (hanti : ∀ x ∈ g.pts, tf.deriv x ≤ 0) (f : ℝ → ℝ) :
    integrate g' f = - ruleSum g (fun x => f (tf.transform x) * |tf.deriv x|) := by
  rw [integrate_transformed_signed hok]
  unfold ruleSum
  rw [← sum_zipWith_neg]
  congr 1
  apply zipWith_congr_mem
  intro x hx w _
  simp only [abs_of_nonpos (hanti x hx)]
  ring

/-- The reflection `r(x) = -x` on `[-1, 1]` as a transform record (a decreasing map). -/
def reflection : Tf ℝ :=
  { transform := fun x => -x, inverse := fun r => -r, deriv := fun _ => -1, deriv2 := fun _ => 0,
    deriv3 := fun _ => 0, domLo := some (-1), domHi := some 1 }

/-- The one-node midpoint rule on `[-1, 1]` (= Gauss–Legendre with one node): node `0`, weight `2`. -/
def midpoint1 : Grid1D ℝ := { pts := [0], wts := [2], domain := some (-1, 1) }

/-- The code accepts the witness and returns node `0`, weight `-2`, domain `(-1, 1)`. -/
theorem reflection_midpoint1 :
    transform1dGrid reflection midpoint1 = .ok { pts := [-0], wts := [-1 * 2], domain := some (-1, 1) } := by
  have h := transform1dGrid_accepts (tf := reflection) (g := midpoint1) (lo := -1) (hi := 1) rfl
    (by unfold domainMismatch ltLo gtHi reflection; simp) (fun _ => rfl) (fun _ => rfl)
    (by simp [midpoint1]) (by simp [midpoint1])
    (by unfold newDomain domainImage reflection; rw [sort2_real]; simp)
    (by
      unfold newDomain domainImage newPoint reflection midpoint1
      rw [sort2_real, slack_real]
      intro p hp
      simp only [List.zipWith_cons_cons, List.zipWith_nil_right, List.mem_singleton] at hp
      subst hp
      norm_num)
  rw [h]
  unfold newDomain domainImage newPoint newWeight reflection midpoint1
  rw [sort2_real]
  simp

/-- **(i) fails for the code as it is**: for the decreasing map `r(x) = -x` and the one-node
rule `(0; 2)` on `[-1, 1]`, the integrand `1` sums to `-2` over the new grid while the
change-of-variables value is `2·|−1| = 2`. -/
theorem integrate_transformed_fails_at : ¬ integrate_transformed_full := by
  intro hfull
  have h := hfull reflection midpoint1 _ reflection_midpoint1 (fun _ => 1)
  unfold integrate ruleSum reflection midpoint1 at h
  simp [sumK] at h
  norm_num at h

/-! ### (ii) sign of the weights, positivity of integrals -/

/-- **(ii), full statement**: non-negative weights stay non-negative under every transform. -/
def weights_nonneg_full : Prop :=
  ∀ (tf : Tf ℝ) (g g' : Grid1D ℝ), transform1dGrid tf g = .ok g' → (∀ w ∈ g.wts, 0 ≤ w) →
    ∀ w' ∈ g'.wts, 0 ≤ w'

/-- **(ii), proved part**: for maps with `0 ≤ r'` at the nodes. -/
theorem weights_nonneg_partial {tf : Tf ℝ} {g g' : Grid1D ℝ}
    (hok : transform1dGrid tf g = .ok g') (hmono : ∀ x ∈ g.pts, 0 ≤ tf.deriv x)
    (hw : ∀ w ∈ g.wts, 0 ≤ w) : ∀ w' ∈ g'.wts, 0 ≤ w' := by
  obtain ⟨lo, hi, -, -, -, hwts, -⟩ := transform1dGrid_ok hok
  intro w' hw'
  rw [hwts] at hw'
  obtain ⟨x, hx, w, hwm, rfl⟩ := mem_zipWith hw'
  unfold newWeight
  exact mul_nonneg (hmono x hx) (hw w hwm)

/-- **(ii) fails for the code as it is**: the witness of (i) has the new weight `-2`. -/
theorem weights_nonneg_fails_at : ¬ weights_nonneg_full := by
  intro hfull
  have h := hfull reflection midpoint1 _ reflection_midpoint1 (by simp [midpoint1]) (-1 * 2) (by simp)
  norm_num at h

/-- Under a decreasing map with `r' < 0` at the nodes every positive weight becomes negative
(what the code does today). -/
theorem weights_neg_of_decreasing {tf : Tf ℝ} {g g' : Grid1D ℝ}
    (hok : transform1dGrid tf g = .ok g') (hanti : ∀ x ∈ g.pts, tf.deriv x < 0)
    (hw : ∀ w ∈ g.wts, 0 < w) : ∀ w' ∈ g'.wts, w' < 0 := by
  obtain ⟨lo, hi, -, -, -, hwts, -⟩ := transform1dGrid_ok hok
  intro w' hw'
  rw [hwts] at hw'
  obtain ⟨x, hx, w, hwm, rfl⟩ := mem_zipWith hw'
  unfold newWeight
  exact mul_neg_of_neg_of_pos (hanti x hx) (hw w hwm)

/-- **(ii), full statement**: the integral of a positive function over the new grid is positive
also when the map is decreasing — for every map with `r'(xᵢ) ≠ 0` at the nodes, whatever the sign. -/
def integral_pos_full : Prop :=
  ∀ (tf : Tf ℝ) (g g' : Grid1D ℝ), transform1dGrid tf g = .ok g' → g.pts.length = g.wts.length →
    (∀ w ∈ g.wts, 0 < w) → (∀ x ∈ g.pts, tf.deriv x ≠ 0) →
    ∀ f : ℝ → ℝ, (∀ p ∈ g'.pts, 0 < f p) → 0 < integrate g' f

/-- **(ii), proved part**: for increasing maps (`0 < r'` at the nodes). -/
theorem integral_pos_partial {tf : Tf ℝ} {g g' : Grid1D ℝ}
    (hok : transform1dGrid tf g = .ok g') (hlen : g.pts.length = g.wts.length)
    (hw : ∀ w ∈ g.wts, 0 < w) (hmono : ∀ x ∈ g.pts, 0 < tf.deriv x)
    (f : ℝ → ℝ) (hf : ∀ p ∈ g'.pts, 0 < f p) : 0 < integrate g' f := by
  obtain ⟨lo, hi, -, -, hp, hwts, -, -, hne, -⟩ := transform1dGrid_ok hok
  unfold integrate
  rw [sumK_eq_sum]
  apply List.sum_pos
  · intro t ht
    obtain ⟨p, hpm, w', hw', rfl⟩ := mem_zipWith ht
    rw [hwts] at hw'
    obtain ⟨x, hx, w, hwm, rfl⟩ := mem_zipWith hw'
    unfold newWeight
    exact mul_pos (hf p hpm) (mul_pos (hmono x hx) (hw w hwm))
  · intro h0
    have h1 := congrArg List.length h0
    rw [hp, hwts] at h1
    simp only [List.length_zipWith, List.length_nil] at h1
    have : 0 < (List.zipWith (newPoint tf) g.pts g.wts).length := by
      rw [← hp]; exact List.length_pos_iff.mpr hne
    simp only [List.length_zipWith] at this
    omega

/-- **(ii), non-negative version**: `0 ≤ r'`, `0 ≤ wᵢ`, `0 ≤ f` ⇒ the sum is non-negative. -/
theorem integral_nonneg_partial {tf : Tf ℝ} {g g' : Grid1D ℝ}
    (hok : transform1dGrid tf g = .ok g') (hw : ∀ w ∈ g.wts, 0 ≤ w)
    (hmono : ∀ x ∈ g.pts, 0 ≤ tf.deriv x)
    (f : ℝ → ℝ) (hf : ∀ p ∈ g'.pts, 0 ≤ f p) : 0 ≤ integrate g' f := by
  have hw' := weights_nonneg_partial hok hmono hw
  unfold integrate
  rw [sumK_eq_sum]
  apply List.sum_nonneg
  intro t ht
  obtain ⟨p, hpm, w', hwm, rfl⟩ := mem_zipWith ht
  exact mul_nonneg (hf p hpm) (hw' w' hwm)

/-- **(ii) fails for the code as it is**: the constant `1` integrates to `-2` on the witness. -/
theorem integral_pos_fails_at : ¬ integral_pos_full := by
  intro hfull
  have h := hfull reflection midpoint1 _ reflection_midpoint1 rfl (by simp [midpoint1])
    (by simp [reflection, midpoint1]) (fun _ => 1) (by simp)
  unfold integrate at h
  simp [sumK] at h
  norm_num at h

/-! ### (iii) the new domain -/

/-- **(iii)** the grid is only accepted when its domain lies inside the domain of the transform
(`none` = the infinite end), and a grid whose domain sticks out is rejected with `ValueError`. -/
theorem domain_guard {tf : Tf ℝ} {g : Grid1D ℝ} {lo hi : ℝ} (hd : g.domain = some (lo, hi)) :
    ((∃ d, tf.domLo = some d ∧ lo < d) ∨ (∃ d, tf.domHi = some d ∧ d < hi) →
        transform1dGrid tf g = .error .valueError) ∧
    (∀ g', transform1dGrid tf g = .ok g' →
        (∀ d, tf.domLo = some d → d ≤ lo) ∧ (∀ d, tf.domHi = some d → hi ≤ d)) := by
  constructor
  · intro h
    have hm : domainMismatch tf lo hi := by
      unfold domainMismatch
      rcases h with ⟨d, hd', hlt⟩ | ⟨d, hd', hlt⟩
      · left; rw [hd']; exact hlt
      · right; rw [hd']; exact hlt
    unfold transform1dGrid
    simp [hd, hm]
  · intro g' hok
    obtain ⟨lo', hi', hd', hnm, -⟩ := transform1dGrid_ok hok
    rw [hd] at hd'
    simp only [Option.some.injEq, Prod.mk.injEq] at hd'
    obtain ⟨rfl, rfl⟩ := hd'
    unfold domainMismatch at hnm
    have hnm := not_or.mp hnm
    constructor
    · intro d hdd
      have := hnm.1
      rw [hdd] at this
      exact not_lt.mp this
    · intro d hdd
      have := hnm.2
      rw [hdd] at this
      exact not_lt.mp this

/-- **(iii)** the new domain is the *ordered* image of the old one: `(min, max)` of the images
of the two ends — whatever the map. -/
theorem domain_ordered_image {tf : Tf ℝ} {g g' : Grid1D ℝ} {lo hi : ℝ}
    (hok : transform1dGrid tf g = .ok g') (hd : g.domain = some (lo, hi)) :
    g'.domain = some (min (tf.transform lo) (tf.transform hi), max (tf.transform lo) (tf.transform hi)) ∧
    min (tf.transform lo) (tf.transform hi) ≤ max (tf.transform lo) (tf.transform hi) := by
  obtain ⟨lo', hi', hd', -, -, -, hdom, -⟩ := transform1dGrid_ok hok
  rw [hd] at hd'
  simp only [Option.some.injEq, Prod.mk.injEq] at hd'
  obtain ⟨rfl, rfl⟩ := hd'
  refine ⟨?_, min_le_max⟩
  rw [hdom]
  unfold newDomain domainImage
  rw [sort2_real]

/-- **(iii)** for a map monotone on the old domain — non-decreasing *or* non-increasing — every
node of the new grid lies in the new domain (exactly, without the `1e-7` slack of the
constructor), provided the old nodes lie in the old domain. -/
theorem nodes_in_domain {tf : Tf ℝ} {g g' : Grid1D ℝ} {lo hi : ℝ}
    (hok : transform1dGrid tf g = .ok g') (hd : g.domain = some (lo, hi))
    (hin : ∀ x ∈ g.pts, x ∈ Set.Icc lo hi)
    (hmono : MonotoneOn tf.transform (Set.Icc lo hi) ∨ AntitoneOn tf.transform (Set.Icc lo hi)) :
    ∃ a b, g'.domain = some (a, b) ∧ a ≤ b ∧ ∀ p ∈ g'.pts, a ≤ p ∧ p ≤ b := by
  obtain ⟨hdom, hle⟩ := domain_ordered_image hok hd
  obtain ⟨lo', hi', -, -, hp, -⟩ := transform1dGrid_ok hok
  refine ⟨_, _, hdom, hle, ?_⟩
  intro p hpm
  rw [hp] at hpm
  obtain ⟨x, hx, w, -, rfl⟩ := mem_zipWith hpm
  unfold newPoint
  have hxI := hin x hx
  have hlo : lo ∈ Set.Icc lo hi := ⟨le_refl _, hxI.1.trans hxI.2⟩
  have hhi : hi ∈ Set.Icc lo hi := ⟨hxI.1.trans hxI.2, le_refl _⟩
  rcases hmono with hm | hm
  · exact ⟨(min_le_left _ _).trans (hm hlo hxI hxI.1), (hm hxI hhi hxI.2).trans (le_max_right _ _)⟩
  · exact ⟨(min_le_right _ _).trans (hm hxI hhi hxI.2), (hm hlo hxI hxI.1).trans (le_max_left _ _)⟩

/-- **(iii), acceptance**: a non-empty rule whose nodes lie in its domain, whose domain lies in
the domain of the transform, mapped by a transform monotone on that domain and raising nothing,
is *not rejected* by the domain check of the new grid (the sort makes this true for decreasing
maps as well). -/
theorem transform_accepts_of_monotone {tf : Tf ℝ} {g : Grid1D ℝ} {lo hi : ℝ}
    (hd : g.domain = some (lo, hi)) (hguard : ¬ domainMismatch tf lo hi)
    (hsz : ∀ n, tf.sizeRaises n = false) (hdr : ∀ x, tf.derivRaises x = false)
    (hne : g.pts ≠ []) (hlen : g.pts.length = g.wts.length)
    (hin : ∀ x ∈ g.pts, x ∈ Set.Icc lo hi)
    (hmono : MonotoneOn tf.transform (Set.Icc lo hi) ∨ AntitoneOn tf.transform (Set.Icc lo hi)) :
    ∃ g', transform1dGrid tf g = .ok g' := by
  refine ⟨_, transform1dGrid_accepts hd hguard hsz hdr hne hlen ?_ ?_⟩
  · unfold newDomain domainImage; rw [sort2_real]; exact min_le_max
  · intro p hpm
    obtain ⟨x, hx, w, -, rfl⟩ := mem_zipWith hpm
    unfold newDomain domainImage newPoint
    rw [sort2_real, slack_real]
    have hxI := hin x hx
    have hlo : lo ∈ Set.Icc lo hi := ⟨le_refl _, hxI.1.trans hxI.2⟩
    have hhi : hi ∈ Set.Icc lo hi := ⟨hxI.1.trans hxI.2, le_refl _⟩
    simp only
    rcases hmono with hm | hm
    · have h1 := (min_le_left (tf.transform lo) (tf.transform hi)).trans (hm hlo hxI hxI.1)
      have h2 := (hm hxI hhi hxI.2).trans (le_max_right (tf.transform lo) (tf.transform hi))
      constructor <;> linarith
    · have h1 := (min_le_right (tf.transform lo) (tf.transform hi)).trans (hm hxI hhi hxI.2)
      have h2 := (hm hlo hxI hxI.1).trans (le_max_left (tf.transform lo) (tf.transform hi))
      constructor <;> linarith

/-! ### Non-vacuity -/

/-- The shift `r(x) = x + 3` on `[-1, 1]`: an increasing map. -/
def shift3 : Tf ℝ :=
  { transform := fun x => x + 3, inverse := fun r => r - 3, deriv := fun _ => 1, deriv2 := fun _ => 0,
    deriv3 := fun _ => 0, domLo := some (-1), domHi := some 1 }

/-- Two-node rule on `[-1, 1]` (trapezoid). -/
def trap2 : Grid1D ℝ := { pts := [-1, 1], wts := [1, 1], domain := some (-1, 1) }

/-- The hypotheses of the `…_partial`, domain and acceptance theorems hold on a concrete
non-trivial instance (increasing map, two nodes), and for the decreasing witness. -/
example : ∃ g', transform1dGrid shift3 trap2 = .ok g' ∧ (∀ x ∈ trap2.pts, 0 < shift3.deriv x) ∧
    (∀ w ∈ trap2.wts, 0 < w) := by
  obtain ⟨g', h⟩ := transform_accepts_of_monotone (tf := shift3) (g := trap2) (lo := -1) (hi := 1) rfl
    (by unfold domainMismatch ltLo gtHi shift3; simp) (fun _ => rfl) (fun _ => rfl)
    (by simp [trap2]) rfl
    (by intro x hx; simp [trap2] at hx; rcases hx with rfl | rfl <;> simp)
    (Or.inl (by intro a _ b _ hab; simp only [shift3]; linarith))
  exact ⟨g', h, by simp [shift3], by simp [trap2]⟩

example : ∃ g', transform1dGrid reflection midpoint1 = .ok g' ∧
    AntitoneOn reflection.transform (Set.Icc (-1) 1) ∧ (∀ x ∈ midpoint1.pts, reflection.deriv x < 0) :=
  ⟨_, reflection_midpoint1, by intro a _ b _ hab; simp only [reflection]; linarith,
    by simp [reflection]⟩

end GridVerif.C04

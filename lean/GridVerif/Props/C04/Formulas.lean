/-
  C04 (round 6) — "the nodes of the new grid are the mapped nodes": the generated half-line maps are the
  documented formula for **every** argument, also beyond the parameter point `b` (where `r(b) = rmax`).

  Over ℝ, about the text regenerated from `rtransform.py` (`Gen/RTransform.lean`):
  * `linearInfinite_transform_formula`, `exp_transform_formula`, `power_transform_formula`: the closed forms, for all `x`;
  * `linearInfinite_beyond_b`: past `b` the map keeps growing (`r(b + s) = rmax + s·(rmax - rmin)/b`) — it is not clamped to `rmax`;
  * `linearInfinite_deriv_is_slope`, `linearInfinite_transform_deriv_consistent`: `deriv` is the slope of `transform` between any two arguments;
  * `linearInfinite_grid_nodes`, `linearInfinite_grid_weights`: through `transform_1d_grid`, every accepted grid gets the points
    `rmin + x·(rmax - rmin)/b` and the weights `w·(rmax - rmin)/b`, node by node, wherever the nodes lie relative to `b`.

  A rewrite of `transform` through `np.interp` (seeded change C04-g) is carried by the translator as the clamped primitive
  `HasInterp.interp2` (`Model/Interp.lean`): the regenerated definition is then no longer the formula and these proofs fail.
-/
import GridVerif.Props.C04.Constructor
import GridVerif.Model.Interp

/-- `np.interp` through two points over ℝ (clamped outside `[x0, x1]`): only a source that calls it reaches this instance. -/
noncomputable instance : GridVerif.HasInterp ℝ where
  interp2 x x0 x1 y0 y1 := if x ≤ x0 then y0 else if x1 ≤ x then y1 else y0 + (x - x0) * (y1 - y0) / (x1 - x0)

namespace GridVerif.C04.Formulas
open GridVerif.Transform1D GridVerif.Gen.Transform1D GridVerif.C04
open GridVerif.Gen.RTransform (LinearInfiniteRTransform ExpRTransform PowerRTransform)

/-- **LinearInfiniteRTransform**: `r(x) = (rmax - rmin)/b · x + rmin` for every `x`. -/
theorem linearInfinite_transform_formula (t : LinearInfiniteRTransform ℝ) (x : ℝ) :
    LinearInfiniteRTransform.transform t x = (t.rmax - t.rmin) / t.b * x + t.rmin := by
  unfold LinearInfiniteRTransform.transform
  rfl

/-- Past the parameter point the map keeps its slope: `r(b + s) = rmax + s (rmax - rmin)/b` (no clamping to `rmax`). -/
theorem linearInfinite_beyond_b (t : LinearInfiniteRTransform ℝ) (hb : t.b ≠ 0) (s : ℝ) :
    LinearInfiniteRTransform.transform t (t.b + s) = t.rmax + s * ((t.rmax - t.rmin) / t.b) := by
  rw [linearInfinite_transform_formula]
  field_simp
  ring

/-- `deriv` is the constant slope. -/
theorem linearInfinite_deriv_is_slope (t : LinearInfiniteRTransform ℝ) (x : ℝ) :
    LinearInfiniteRTransform.deriv t x = (t.rmax - t.rmin) / t.b := by
  unfold LinearInfiniteRTransform.deriv
  simp

/-- `transform` and `deriv` agree everywhere: the increment of the map between any two arguments is `deriv` times the step. -/
theorem linearInfinite_transform_deriv_consistent (t : LinearInfiniteRTransform ℝ) (x y : ℝ) :
    LinearInfiniteRTransform.transform t y - LinearInfiniteRTransform.transform t x
      = LinearInfiniteRTransform.deriv t x * (y - x) := by
  rw [linearInfinite_transform_formula, linearInfinite_transform_formula, linearInfinite_deriv_is_slope]
  ring

/-- **ExpRTransform**: `r(x) = rmin · exp(x · log(rmax/rmin)/b)` for every `x`. -/
theorem exp_transform_formula (t : ExpRTransform ℝ) (x : ℝ) :
    ExpRTransform.transform t x = t.rmin * Real.exp (x * (Real.log (t.rmax / t.rmin) / t.b)) := by
  unfold ExpRTransform.transform
  rfl

/-- **PowerRTransform**: `r(x) = rmin · (x + 1)^((log rmax - log rmin)/log(b + 1))` for every `x`. -/
theorem power_transform_formula (t : PowerRTransform ℝ) (x : ℝ) :
    PowerRTransform.transform t x
      = t.rmin * (x + 1) ^ ((Real.log t.rmax - Real.log t.rmin) / Real.log (t.b + 1)) := by
  unfold PowerRTransform.transform
  simp only [Nat.cast_one]
  rfl

/-- `LinearInfiniteRTransform(rmin, rmax, b)` as seen by `transform_1d_grid` (declared domain `(0, ∞)`). -/
noncomputable def linearInfiniteTf (t : LinearInfiniteRTransform ℝ) : Tf ℝ :=
  ofBase t.ops (some 0) none

/-- **The nodes of the new grid are the mapped nodes**, wherever they lie relative to `b`. -/
theorem linearInfinite_grid_nodes (t : LinearInfiniteRTransform ℝ) {g g' : Grid1D ℝ}
    (hok : transform1dGrid (linearInfiniteTf t) g = .ok g') (hlen : g.pts.length = g.wts.length) :
    g'.pts = g.pts.map (fun x => (t.rmax - t.rmin) / t.b * x + t.rmin) := by
  obtain ⟨lo, hi, -, -, hp, -, -⟩ := transform1dGrid_ok hok
  rw [hp, Ctor.newPoints_eq_map _ _ hlen]
  apply List.map_congr_left
  intro x _
  show LinearInfiniteRTransform.transform t x = _
  exact linearInfinite_transform_formula t x

/-- **The weights of the new grid are the old weights times the slope**, node by node. -/
theorem linearInfinite_grid_weights (t : LinearInfiniteRTransform ℝ) {g g' : Grid1D ℝ}
    (hok : transform1dGrid (linearInfiniteTf t) g = .ok g') :
    g'.wts = List.zipWith (fun _ w => (t.rmax - t.rmin) / t.b * w) g.pts g.wts := by
  obtain ⟨lo, hi, -, -, -, hw, -⟩ := transform1dGrid_ok hok
  rw [hw]
  apply zipWith_congr_mem
  intro x _ w _
  unfold newWeight
  show LinearInfiniteRTransform.deriv t x * w = _
  rw [linearInfinite_deriv_is_slope]

/-- A node beyond `b`: `LinearInfiniteRTransform(1, 3, b = 2)` sends `x = 4 = 2b` to `5 > rmax`, and `x = 1 < b` to `2`. -/
example : LinearInfiniteRTransform.transform ({ rmin := 1, rmax := 3, b := 2 } : LinearInfiniteRTransform ℝ) 4 = 5 ∧
    LinearInfiniteRTransform.transform ({ rmin := 1, rmax := 3, b := 2 } : LinearInfiniteRTransform ℝ) 1 = 2 := by
  constructor <;> rw [linearInfinite_transform_formula] <;> norm_num

/-- The hypotheses of `linearInfinite_grid_nodes` are met by a grid with nodes on both sides of `b`: nodes `1, 4` on `[0, 5]`
through `LinearInfiniteRTransform(1, 3, 2)` are accepted and become `2, 5`. -/
example : ∃ g', transform1dGrid (linearInfiniteTf { rmin := 1, rmax := 3, b := 2 })
      { pts := [1, 4], wts := [1, 1], domain := some (0, 5) } = .ok g' ∧ g'.pts = [2, 5] := by
  have hmono : MonotoneOn (linearInfiniteTf { rmin := 1, rmax := 3, b := 2 }).transform (Set.Icc 0 5) := by
    intro a _ b _ hab
    show LinearInfiniteRTransform.transform _ a ≤ LinearInfiniteRTransform.transform _ b
    rw [linearInfinite_transform_formula, linearInfinite_transform_formula]
    norm_num
    linarith
  obtain ⟨g', hok⟩ := transform_accepts_of_monotone (tf := linearInfiniteTf { rmin := 1, rmax := 3, b := 2 })
    (g := { pts := [1, 4], wts := [1, 1], domain := some (0, 5) }) (lo := 0) (hi := 5) rfl
    (by unfold domainMismatch ltLo gtHi linearInfiniteTf ofBase; norm_num) (fun _ => rfl) (fun _ => rfl) (by simp) rfl
    (by intro x hx; simp at hx; rcases hx with rfl | rfl <;> constructor <;> norm_num) (Or.inl hmono)
  refine ⟨g', hok, ?_⟩
  rw [linearInfinite_grid_nodes _ hok rfl]
  norm_num

end GridVerif.C04.Formulas

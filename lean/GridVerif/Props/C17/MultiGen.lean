/-
  C17 — the multi-centre routine, about the GENERATED `coulomb_potential`
  (`Gen/CoulombPotential.lean`: AST → Lean, statement by statement, regenerated on every run).

  * `potential_gen_eq_model`   on well-shaped arrays the generated function is the hand model
                                `Coulomb.coulombPotential` (bridge; generic in the number type)
  * `multi_centre_is_sum_gen`  … hence rejected iff some exponent ≤ 0, else the
                                coefficient-weighted sum of the generated closed forms
  * `multi_centre_s_only`      p arguments `None`: the s sum alone
  * `shape_guards_reject`      every malformed shape class is rejected with `ValueError`
  * `partial_p_rejected`       some but not all p arguments `None`: `ValueError`
  * `multi_centre_total`       total characterisation on arrays whose data fit their shape
                                (in particular `Err.unmodelled` is never produced)
  The lemmas here unfold the generated text: which closed form is called in which loop, with
  which `normalized`, the order of the `zip` variables, `V +=`, the guards and their order.
-/
import GridVerif.Lemmas.CoulombPy
import GridVerif.Gen.CoulombPotential
import GridVerif.Props.C17.Multi

set_option linter.unusedSectionVars false
set_option linter.unusedSimpArgs false
set_option linter.unusedVariables false

namespace GridVerif.C17
open GridVerif GridVerif.Gen.Coulomb GridVerif.Coulomb GridVerif.Coulomb.NdArg GridVerif.Gen.CoulombPotential

section generic
variable {K : Type} [Add K] [Sub K] [Mul K] [Div K] [Neg K] [NatCast K] [Elem K]
  [LT K] [LE K] [DecidableLT K] [DecidableLE K]

/-- One pass of an accumulation loop `r = norm(points - center); V += c * f(r, alpha, normalized)`
written with the primitives, is the step of the loop lemma. -/
theorem step_spec (f : K → K → Bool → K) (rej : K → K → Bool) (n : Bool) (pts : List (P3 K)) :
    StepSpec f rej n pts (fun V x => do
      let d ← npSub (ofMat3 pts) x.2.2
      let r ← npNormLastAxis d
      let t ← callArr f rej r x.2.1 n
      let u ← npMul x.1 t
      npIAdd V u) := by
  intro v g hv
  simp only [npSub_row, ok_bind, npNorm_diff, callArr_vec]
  by_cases hr : rejectsArr rej (pts.map fun p => dist3 p g.center) g.alpha = true
  · simp only [hr, if_true, error_bind]
  · simp only [hr, Bool.false_eq_true, if_false, ok_bind, npMul_scalar_vec]
    rw [npIAdd_vec _ _ (by simp [hv])]
    simp only [List.map_map, List.zipWith_map_right]
    rfl

/-- **Bridge: generated = hand model** on well-shaped arguments (points `(N, 3)`, the three
arrays of a list of s Gaussians, the three arrays of a list of p Gaussians or three `None`),
for any number type: `ValueError` where the hand model rejects, else its list of values as an
array of shape `(N,)`. -/
theorem potential_gen_eq_model (normalized : Bool) (points : List (P3 K)) (ss : List (Gauss K))
    (ps : Option (List (Gauss K))) :
    coulomb_potential (ofMat3 points) (centersOf ss) (coeffsOf ss) (alphasOf ss)
        (ps.map centersOf) (ps.map coeffsOf) (ps.map alphasOf) normalized
      = match coulombPotential normalized points ss (ps.getD []) with
        | none => .error Err.valueError
        | some v => .ok (ofVec v) := by
  have hS := foldlM_steps coulombGaussianS coulombGaussianSRejects normalized points _
    (step_spec coulombGaussianS coulombGaussianSRejects normalized points) ss
  have hP := foldlM_steps coulombGaussianP coulombGaussianPRejects normalized points _
    (step_spec coulombGaussianP coulombGaussianPRejects normalized points)
  unfold coulomb_potential
  cases ps with
  | none =>
    simp only [Option.map_none, Option.getD_none, npAsarrayFloat, centersOf, coeffsOf, alphasOf, ndim_ofMat3,
      ndim_ofVec, shapeAt_ofMat3_one, shapeAt_ofMat3_zero, shapeAt_ofVec_zero, ok_bind, error_bind, throw_eq, pure_eq,
      List.length_map, iter_ofVec, iter_ofMat3, ne_eq, not_true_eq_false, decide_false, pyOr_false,
      Bool.false_eq_true, if_false, List.any_cons, List.all_cons, List.any_nil, List.all_nil, Option.isNone_none,
      Option.isSome_none, Bool.or_false, Bool.and_true, Bool.not_true, Bool.and_false, Bool.or_self, Bool.and_self,
      zip_of, npZeros1_eq]
    rw [hS _ (by simp)]
    unfold coulombPotential
    by_cases hr : (ss.any fun g => rejectsArr coulombGaussianSRejects (points.map fun p => dist3 p g.center) g.alpha) = true
    · simp only [hr, if_true, error_bind, Bool.true_or]
    · simp only [hr, Bool.false_eq_true, if_false, ok_bind, List.any_nil, Bool.or_false]
      rw [zipWith_replicate_left]
      rfl
  | some ps =>
    simp only [Option.map_some, Option.getD_some, npAsarrayFloat, npAsarrayFloatObj, pyArr, centersOf, coeffsOf,
      alphasOf, ndim_ofMat3, ndim_ofVec, shapeAt_ofMat3_one, shapeAt_ofMat3_zero, shapeAt_ofVec_zero, ok_bind,
      error_bind, throw_eq, pure_eq, List.length_map, iter_ofVec, iter_ofMat3, ne_eq, not_true_eq_false, decide_false,
      pyOr_false, Bool.false_eq_true, if_false, if_true, List.any_cons, List.all_cons, List.any_nil, List.all_nil,
      Option.isNone_some, Option.isSome_some, Bool.or_false, Bool.and_true, Bool.not_true, Bool.and_false,
      Bool.or_self, Bool.and_self, Bool.false_and, zip_of, npZeros1_eq]
    rw [hS _ (by simp)]
    unfold coulombPotential
    by_cases hr : (ss.any fun g => rejectsArr coulombGaussianSRejects (points.map fun p => dist3 p g.center) g.alpha) = true
    · simp only [hr, if_true, error_bind, Bool.true_or]
    · simp only [hr, Bool.false_eq_true, if_false, ok_bind, Bool.false_or]
      rw [zipWith_replicate_left, hP ps _ (by simp)]
      by_cases hq : (ps.any fun g => rejectsArr coulombGaussianPRejects (points.map fun p => dist3 p g.center) g.alpha) = true
      · simp only [hq, if_true]
      · simp only [hq, Bool.false_eq_true, if_false]
        rw [zipWith_map_self]
        rfl

end generic

/-! ### rejection of malformed shapes (any number type; nothing but the shapes is looked at) -/

section guards
variable {K : Type} [Add K] [Sub K] [Mul K] [Div K] [Neg K] [NatCast K] [Elem K]
  [LT K] [LE K] [DecidableLT K] [DecidableLE K]

/-- shape `(n, 3)` for some `n`. -/
def isMat3 : List Nat → Bool
  | [_, 3] => true
  | _ => false

theorem isMat3_iff (sh : List Nat) : isMat3 sh = true ↔ ∃ n, sh = [n, 3] := by
  constructor
  · intro h
    match sh, h with
    | [n, 3], _ => exact ⟨n, rfl⟩
  · rintro ⟨n, rfl⟩; rfl

theorem isMat3_false (sh : List Nat) (h : ¬ ∃ n, sh = [n, 3]) : isMat3 sh = false := by
  rw [Bool.eq_false_iff]; exact fun h' => h ((isMat3_iff sh).mp h')

/-- the guard `a.ndim != 2 or a.shape[1] != 3` fires iff the shape is not `(n, 3)`. -/
theorem guard_mat3 (a : NdArg K) :
    (pyOr (decide (a.ndim ≠ 2)) (do pure (decide ((← a.shapeAt 1) ≠ 3))))
      = .ok (!isMat3 a.shape) := by
  obtain ⟨sh, d⟩ := a
  match sh with
  | [] => rfl
  | [_] => rfl
  | [n, m] =>
    by_cases hm : m = 3
    · subst hm; rfl
    · have : isMat3 [n, m] = false := by
        unfold isMat3; split
        · rename_i h; simp at h; exact absurd h.2 hm
        · rfl
      simp [pyOr, ndim, shapeAt, pure, Except.pure, bind, Except.bind, hm, this]
  | _ :: _ :: _ :: _ => simp [pyOr, ndim, isMat3, pure_eq]

/-- the guard `a.ndim != 1 or a.shape[0] != c.shape[0]` behind a centre array of shape `(k, 3)`
fires iff the shape is not `(k,)`. -/
theorem guard_vec (a c : NdArg K) (k : Nat) (hc : c.shape = [k, 3]) :
    (pyOr (decide (a.ndim ≠ 1)) (do pure (decide ((← a.shapeAt 0) ≠ (← c.shapeAt 0)))))
      = .ok (decide (a.shape ≠ [k])) := by
  obtain ⟨sh, d⟩ := a
  obtain ⟨shc, dc⟩ := c
  simp only at hc
  subst hc
  match sh with
  | [] => simp [pyOr, ndim, pure_eq]
  | [n] => simp [pyOr, ndim, shapeAt, pure, Except.pure, bind, Except.bind]
  | _ :: _ :: _ => simp [pyOr, ndim, pure_eq]

/-- What the shape guards of `coulomb_potential` let through. -/
def ShapesOk (points centers_s coeffs_s alphas_s : NdArg K) (centers_p coeffs_p alphas_p : Option (NdArg K)) : Prop :=
  (∃ n, points.shape = [n, 3]) ∧
  (∃ k, centers_s.shape = [k, 3] ∧ coeffs_s.shape = [k] ∧ alphas_s.shape = [k]) ∧
  ((centers_p = none ∧ coeffs_p = none ∧ alphas_p = none) ∨
    ∃ cp kp ap k, centers_p = some cp ∧ coeffs_p = some kp ∧ alphas_p = some ap ∧
      cp.shape = [k, 3] ∧ kp.shape = [k] ∧ ap.shape = [k])

/-- **Some but not all of the p arguments `None`** → `ValueError` (whatever the other arguments
are, provided the s arguments pass their guards — otherwise it is `ValueError` as well, see
`shape_guards_reject`). -/
theorem partial_p_rejected (points centers_s coeffs_s alphas_s : NdArg K) (centers_p coeffs_p alphas_p : Option (NdArg K))
    (normalized : Bool)
    (hsome : centers_p.isSome ∨ coeffs_p.isSome ∨ alphas_p.isSome)
    (hnone : centers_p.isNone ∨ coeffs_p.isNone ∨ alphas_p.isNone) :
    coulomb_potential points centers_s coeffs_s alphas_s centers_p coeffs_p alphas_p normalized
      = .error Err.valueError := by
  unfold coulomb_potential
  dsimp only [npAsarrayFloat]
  simp only [guard_mat3]
  simp only [ok_bind, throw_eq, error_bind]
  by_cases h1 : ∃ n, points.shape = [n, 3]
  swap
  · simp [isMat3_false _ h1]
  have h1' := (isMat3_iff _).mpr h1
  by_cases h2 : ∃ k, centers_s.shape = [k, 3]
  swap
  · simp [h1', isMat3_false _ h2]
  have h2' := (isMat3_iff _).mpr h2
  obtain ⟨k, hk⟩ := h2
  simp only [guard_vec _ _ k hk]
  simp only [ok_bind]
  by_cases h3 : coeffs_s.shape = [k]
  swap
  · simp [h1', h2', h3]
  by_cases h4 : alphas_s.shape = [k]
  swap
  · simp [h1', h2', h3, h4]
  have hg : ((([coeffs_p, alphas_p, centers_p].any fun a => a.isNone)
      && !([coeffs_p, alphas_p, centers_p].all fun a => a.isNone)) = true) := by
    cases centers_p <;> cases coeffs_p <;> cases alphas_p <;> simp_all
  simp only [h1', h2', h3, h4, hg]
  simp

/-- **Every malformed shape class is rejected**: if the shapes are not
`points (N, 3)`, `centers_s (Ks, 3)`, `coeffs_s (Ks,)`, `alphas_s (Ks,)` and the p arguments
either all `None` or `(Kp, 3)`, `(Kp,)`, `(Kp,)`, the call raises `ValueError` — for every content
of the arrays (the data need not even fit the shapes). -/
theorem shape_guards_reject (points centers_s coeffs_s alphas_s : NdArg K) (centers_p coeffs_p alphas_p : Option (NdArg K))
    (normalized : Bool) (h : ¬ ShapesOk points centers_s coeffs_s alphas_s centers_p coeffs_p alphas_p) :
    coulomb_potential points centers_s coeffs_s alphas_s centers_p coeffs_p alphas_p normalized
      = .error Err.valueError := by
  -- partial p arguments are `partial_p_rejected`
  by_cases hpart : (centers_p.isSome ∨ coeffs_p.isSome ∨ alphas_p.isSome) ∧ (centers_p.isNone ∨ coeffs_p.isNone ∨ alphas_p.isNone)
  · exact partial_p_rejected _ _ _ _ _ _ _ _ hpart.1 hpart.2
  unfold coulomb_potential
  dsimp only [npAsarrayFloat]
  simp only [guard_mat3]
  simp only [ok_bind, throw_eq, error_bind]
  by_cases h1 : ∃ n, points.shape = [n, 3]
  swap
  · simp [isMat3_false _ h1]
  have h1' := (isMat3_iff _).mpr h1
  by_cases h2 : ∃ k, centers_s.shape = [k, 3]
  swap
  · simp [h1', isMat3_false _ h2]
  have h2' := (isMat3_iff _).mpr h2
  obtain ⟨k, hk⟩ := h2
  simp only [guard_vec _ _ k hk]
  simp only [ok_bind]
  by_cases h3 : coeffs_s.shape = [k]
  swap
  · simp [h1', h2', h3]
  by_cases h4 : alphas_s.shape = [k]
  swap
  · simp [h1', h2', h3, h4]
  -- the s arguments are fine: the p arguments are all there (all `None` would be `ShapesOk`)
  match centers_p, coeffs_p, alphas_p, h, hpart with
  | none, none, none, h, _ => exact absurd ⟨h1, ⟨k, hk, h3, h4⟩, Or.inl ⟨rfl, rfl, rfl⟩⟩ h
  | some cp, some kp, some ap, h, _ =>
    have hg : ((([some kp, some ap, some cp].any fun (a : Option (NdArg K)) => a.isNone)
        && !([some kp, some ap, some cp].all fun (a : Option (NdArg K)) => a.isNone)) = true) = False := by simp
    simp only [h1', h2', h3, h4, hg, not_true_eq_false, decide_false, Bool.not_true, Bool.false_eq_true,
      if_false, Option.isSome_some, if_true, npAsarrayFloatObj_some, ok_bind]
    by_cases h5 : ∃ k', cp.shape = [k', 3]
    swap
    · simp [isMat3_false _ h5, error_bind]
    have h5' := (isMat3_iff _).mpr h5
    obtain ⟨k', hk'⟩ := h5
    simp only [guard_vec _ _ k' hk']
    simp only [ok_bind]
    by_cases h6 : kp.shape = [k']
    swap
    · simp [h5', h6, error_bind]
    by_cases h7 : ap.shape = [k']
    swap
    · simp [h5', h6, h7, error_bind]
    exact absurd ⟨h1, ⟨k, hk, h3, h4⟩, Or.inr ⟨cp, kp, ap, k', rfl, rfl, rfl, hk', h6, h7⟩⟩ h
  | none, some _, _, _, hp | none, none, some _, _, hp | some _, none, _, _, hp | some _, some _, none, _, hp =>
    exact absurd (by simp) hp

end guards

/-! ### the property clause over the reals -/

/-- **Multi-centre routine, generated code** (clause "the coefficient-weighted sum of these over
all s and p functions").  For every `(N, 3)` array of points, every set of s Gaussians given as
arrays `(Ks, 3)`, `(Ks,)`, `(Ks,)` and p Gaussians given as arrays `(Kp, 3)`, `(Kp,)`, `(Kp,)` or as
three `None`, and both values of `normalized`: the generated `coulomb_potential` raises
`ValueError` iff some exponent is `≤ 0`; otherwise it returns the array of shape `(N,)` whose entry
`i` is `Σ_k c_k·V_s(|x_i − R_k|, α_k, normalized) + Σ_k d_k·V_p(|x_i − R'_k|, β_k, normalized)`
with the generated closed forms `V_s = coulombGaussianS`, `V_p = coulombGaussianP`. -/
theorem multi_centre_is_sum_gen (normalized : Bool) (points : List (P3 ℝ)) (ss : List (Gauss ℝ))
    (ps : Option (List (Gauss ℝ))) :
    coulomb_potential (ofMat3 points) (centersOf ss) (coeffsOf ss) (alphasOf ss)
        (ps.map centersOf) (ps.map coeffsOf) (ps.map alphasOf) normalized
      = if (∃ g ∈ ss ++ ps.getD [], g.alpha ≤ 0) then .error Err.valueError
        else .ok (ofVec (points.map fun x =>
          (ss.map fun (g : Gauss ℝ) => g.coeff * coulombGaussianS (dist3 x g.center) g.alpha normalized).sum
          + ((ps.getD []).map fun (g : Gauss ℝ) => g.coeff * coulombGaussianP (dist3 x g.center) g.alpha normalized).sum)) := by
  rw [potential_gen_eq_model, multi_centre_is_sum]
  by_cases h : ∃ g ∈ ss ++ ps.getD [], g.alpha ≤ 0
  · simp only [h, if_true]
  · simp only [h, if_false]

/-- **p arguments `None`: the s sum alone.** -/
theorem multi_centre_s_only (normalized : Bool) (points : List (P3 ℝ)) (ss : List (Gauss ℝ)) :
    coulomb_potential (ofMat3 points) (centersOf ss) (coeffsOf ss) (alphasOf ss) none none none normalized
      = if (∃ g ∈ ss, g.alpha ≤ 0) then .error Err.valueError
        else .ok (ofVec (points.map fun x =>
          (ss.map fun (g : Gauss ℝ) => g.coeff * coulombGaussianS (dist3 x g.center) g.alpha normalized).sum)) := by
  have := multi_centre_is_sum_gen normalized points ss none
  simpa using this

/-- **Total characterisation** on arrays whose data fit their shapes: either the shapes are
malformed and the call raises `ValueError`, or the arguments are the arrays of lists of points
and Gaussians and the call is described by `multi_centre_is_sum_gen`.  In particular the model's
`Err.unmodelled` (a NumPy behaviour outside the modelled vocabulary) is never produced. -/
theorem multi_centre_total (points centers_s coeffs_s alphas_s : NdArg ℝ) (centers_p coeffs_p alphas_p : Option (NdArg ℝ))
    (normalized : Bool)
    (w1 : points.WF) (w2 : centers_s.WF) (w3 : coeffs_s.WF) (w4 : alphas_s.WF)
    (w5 : ∀ a, centers_p = some a → a.WF) (w6 : ∀ a, coeffs_p = some a → a.WF) (w7 : ∀ a, alphas_p = some a → a.WF) :
    (¬ ShapesOk points centers_s coeffs_s alphas_s centers_p coeffs_p alphas_p ∧
      coulomb_potential points centers_s coeffs_s alphas_s centers_p coeffs_p alphas_p normalized = .error Err.valueError)
    ∨ ∃ (pts : List (P3 ℝ)) (ss : List (Gauss ℝ)) (ps : Option (List (Gauss ℝ))),
        points = ofMat3 pts ∧ centers_s = centersOf ss ∧ coeffs_s = coeffsOf ss ∧ alphas_s = alphasOf ss ∧
        centers_p = ps.map centersOf ∧ coeffs_p = ps.map coeffsOf ∧ alphas_p = ps.map alphasOf := by
  by_cases h : ShapesOk points centers_s coeffs_s alphas_s centers_p coeffs_p alphas_p
  · right
    obtain ⟨⟨n, hn⟩, ⟨k, hk1, hk2, hk3⟩, hp⟩ := h
    obtain ⟨pts, hpts, _⟩ := repr_mat3 points n hn w1
    obtain ⟨ss, hs1, hs2, hs3⟩ := repr_gauss centers_s coeffs_s alphas_s k hk1 hk2 hk3 w2 w3 w4
    rcases hp with ⟨h1, h2, h3⟩ | ⟨cp, kp, ap, k', h1, h2, h3, hc, hk, ha⟩
    · exact ⟨pts, ss, none, hpts, hs1, hs2, hs3, by simp [h1], by simp [h2], by simp [h3]⟩
    · obtain ⟨ps, hp1, hp2, hp3⟩ := repr_gauss cp kp ap k' hc hk ha (w5 cp h1) (w6 kp h2) (w7 ap h3)
      exact ⟨pts, ss, some ps, hpts, hs1, hs2, hs3, by simp [h1, hp1], by simp [h2, hp2], by simp [h3, hp3]⟩
  · exact Or.inl ⟨h, shape_guards_reject _ _ _ _ _ _ _ _ h⟩

/-- …so no outcome other than `ValueError` or an array, on arguments whose data fit. -/
theorem multi_centre_never_unmodelled (points centers_s coeffs_s alphas_s : NdArg ℝ)
    (centers_p coeffs_p alphas_p : Option (NdArg ℝ)) (normalized : Bool)
    (w1 : points.WF) (w2 : centers_s.WF) (w3 : coeffs_s.WF) (w4 : alphas_s.WF)
    (w5 : ∀ a, centers_p = some a → a.WF) (w6 : ∀ a, coeffs_p = some a → a.WF) (w7 : ∀ a, alphas_p = some a → a.WF) :
    coulomb_potential points centers_s coeffs_s alphas_s centers_p coeffs_p alphas_p normalized = .error Err.valueError
    ∨ ∃ v, coulomb_potential points centers_s coeffs_s alphas_s centers_p coeffs_p alphas_p normalized = .ok v := by
  rcases multi_centre_total points centers_s coeffs_s alphas_s centers_p coeffs_p alphas_p normalized w1 w2 w3 w4 w5 w6 w7 with
    ⟨_, h⟩ | ⟨pts, ss, ps, rfl, rfl, rfl, rfl, rfl, rfl, rfl⟩
  · exact Or.inl h
  · rw [multi_centre_is_sum_gen]
    by_cases h : ∃ g ∈ ss ++ ps.getD [], g.alpha ≤ 0
    · left; simp only [h, if_true]
    · right; simp only [h, if_false]; exact ⟨_, rfl⟩

/-! ### non-vacuity -/

/-- two s functions and one p function at two points: accepted, shapes as the guards demand. -/
example :
    ShapesOk (ofMat3 [((0:ℝ), 0, 0), (1, 2, 3)])
      (centersOf [⟨(0, 0, 0), 1 / 2, 3 / 2⟩, ⟨(1, 1, 1), 2, 4 / 5⟩]) (coeffsOf [⟨(0, 0, 0), 1 / 2, 3 / 2⟩, ⟨(1, 1, 1), 2, 4 / 5⟩])
      (alphasOf [⟨(0, 0, 0), 1 / 2, 3 / 2⟩, ⟨(1, 1, 1), 2, 4 / 5⟩])
      (some (centersOf [⟨(0, 0, 1), -1, 3⟩])) (some (coeffsOf [⟨(0, 0, 1), -1, 3⟩])) (some (alphasOf [⟨(0, 0, 1), -1, 3⟩])) :=
  ⟨⟨2, rfl⟩, ⟨2, rfl, rfl, rfl⟩, Or.inr ⟨_, _, _, 1, rfl, rfl, rfl, rfl, rfl, rfl⟩⟩

example : ¬ ∃ g ∈ ([⟨(0, 0, 0), 1 / 2, 3 / 2⟩, ⟨(1, 1, 1), 2, 4 / 5⟩] : List (Gauss ℝ)) ++ (some [⟨(0, 0, 1), -1, 3⟩]).getD [],
    g.alpha ≤ 0 := by
  simp

/-- a non-positive exponent among the p functions is rejected by the generated code. -/
example : coulomb_potential (ofMat3 [((0:ℝ), 0, 0)]) (centersOf [⟨(0, 0, 0), 1, 1⟩]) (coeffsOf [⟨(0, 0, 0), 1, 1⟩])
    (alphasOf [⟨(0, 0, 0), 1, 1⟩]) (some (centersOf [⟨(0, 0, 1), 1, 0⟩])) (some (coeffsOf [⟨(0, 0, 1), 1, 0⟩]))
    (some (alphasOf [⟨(0, 0, 1), 1, 0⟩])) true = .error Err.valueError := by
  have := multi_centre_is_sum_gen true [((0:ℝ), 0, 0)] [⟨(0, 0, 0), 1, 1⟩] (some [⟨(0, 0, 1), 1, 0⟩])
  simpa using this

/-- the malformed classes of the correspondence stream: points `(2, 2)`, points 1-D, centres
`(1, 2)`, two coefficients for one centre, two exponents for one centre, a lone `coeffs_p`,
`coeffs_p` missing, p coefficients / exponents of the wrong length, p centres `(1, 4)`. -/
example :
    let P : NdArg ℝ := ⟨[2, 3], [0, 0, 0, 0, 0, 0]⟩
    let S : NdArg ℝ := ⟨[1, 3], [0, 0, 0]⟩
    let one : NdArg ℝ := ⟨[1], [1]⟩
    let two : NdArg ℝ := ⟨[2], [1, 2]⟩
    coulomb_potential ⟨[2, 2], [0, 0, 0, 0]⟩ S one one none none none true = .error Err.valueError ∧
    coulomb_potential ⟨[3], [0, 0, 0]⟩ S one one none none none true = .error Err.valueError ∧
    coulomb_potential P ⟨[1, 2], [0, 0]⟩ one one none none none true = .error Err.valueError ∧
    coulomb_potential P S two one none none none true = .error Err.valueError ∧
    coulomb_potential P S one two none none none true = .error Err.valueError ∧
    coulomb_potential P S one one none (some one) none true = .error Err.valueError ∧
    coulomb_potential P S one one (some S) none (some one) true = .error Err.valueError ∧
    coulomb_potential P S one one (some S) (some two) (some one) true = .error Err.valueError ∧
    coulomb_potential P S one one (some S) (some one) (some two) true = .error Err.valueError ∧
    coulomb_potential P S one one (some ⟨[1, 4], [0, 0, 0, 0]⟩) (some one) (some one) true = .error Err.valueError := by
  intro P S one two
  have bad : ∀ {a b c d : NdArg ℝ} {e f g : Option (NdArg ℝ)}, ¬ ShapesOk a b c d e f g →
      coulomb_potential a b c d e f g true = .error Err.valueError := fun h => shape_guards_reject _ _ _ _ _ _ _ _ h
  refine ⟨bad ?_, bad ?_, bad ?_, bad ?_, bad ?_, partial_p_rejected _ _ _ _ _ _ _ _ (by simp) (by simp),
    partial_p_rejected _ _ _ _ _ _ _ _ (by simp) (by simp), bad ?_, bad ?_, bad ?_⟩ <;>
  · unfold ShapesOk; simp [P, S, one, two]

end GridVerif.C17

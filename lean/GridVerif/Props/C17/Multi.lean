/-
  C17 — the multi-centre routine is the coefficient-weighted sum of the closed forms over all
  s and p functions, for the hand-written reference model `Coulomb.coulombPotential`; the
  GENERATED `coulomb_potential` is proved equal to it in `MultiGen.lean`
  (`potential_gen_eq_model`), which transports `multi_centre_is_sum` to the generated code
  (`multi_centre_is_sum_gen`).
-/
import GridVerif.Props.C17.Basic

namespace GridVerif.C17
open GridVerif GridVerif.Gen.Coulomb GridVerif.Coulomb

/-- the guards of the generated functions are exactly `α ≤ 0 ∨ r < 0`. -/
theorem rejects_iff (r α : ℝ) :
    (coulombGaussianSRejects r α = true ↔ (α ≤ 0 ∨ r < 0)) ∧
    (coulombGaussianPRejects r α = true ↔ (α ≤ 0 ∨ r < 0)) := by
  simp [coulombGaussianSRejects, coulombGaussianPRejects]

theorem accumulate_eq (f : ℝ → ℝ → Bool → ℝ) (n : Bool) (p : P3 ℝ) (gs : List (Gauss ℝ)) (v0 : ℝ) :
    accumulate f n p gs v0 = v0 + (gs.map fun (g : Gauss ℝ) => g.coeff * f (dist3 p g.center) g.alpha n).sum := by
  unfold accumulate
  induction gs generalizing v0 with
  | nil => simp
  | cons g gs ih => simp only [List.foldl_cons, List.map_cons, List.sum_cons]; rw [ih]; ring

/-- the modelled distance is the Euclidean one and is never negative. -/
theorem dist_eq (p c : P3 ℝ) :
    dist3 p c = Real.sqrt ((p.1 - c.1) ^ 2 + (p.2.1 - c.2.1) ^ 2 + (p.2.2 - c.2.2) ^ 2) ∧ 0 ≤ dist3 p c := by
  have : dist3 p c = Real.sqrt ((p.1 - c.1) ^ 2 + (p.2.1 - c.2.1) ^ 2 + (p.2.2 - c.2.2) ^ 2) := by
    simp only [dist3, Elem.sqrt]; congr 1; ring
  exact ⟨this, this ▸ Real.sqrt_nonneg _⟩

theorem rejectsArr_iff (rs : List ℝ) (hrs : ∀ r ∈ rs, 0 ≤ r) (α : ℝ) :
    (rejectsArr coulombGaussianSRejects rs α = true ↔ α ≤ 0) ∧
    (rejectsArr coulombGaussianPRejects rs α = true ↔ α ≤ 0) := by
  have h1 := fun r => (rejects_iff r α).1
  have h2 := fun r => (rejects_iff r α).2
  constructor
  · simp only [rejectsArr, Bool.or_eq_true, List.any_eq_true, h1]
    constructor
    · rintro (h | ⟨r, hr, h⟩)
      · rcases h with h | h
        · exact h
        · norm_num at h
      · rcases h with h | h
        · exact h
        · exact absurd h (not_lt.mpr (hrs r hr))
    · intro h; exact Or.inl (Or.inl h)
  · simp only [rejectsArr, Bool.or_eq_true, List.any_eq_true, h2]
    constructor
    · rintro (h | ⟨r, hr, h⟩)
      · rcases h with h | h
        · exact h
        · norm_num at h
      · rcases h with h | h
        · exact h
        · exact absurd h (not_lt.mpr (hrs r hr))
    · intro h; exact Or.inl (Or.inl h)

/-- **Multi-centre routine** (clause "the coefficient-weighted sum of these over all s and p
functions"), for every list of evaluation points, every set of centres/coefficients/exponents
and both normalisation modes: the call is rejected iff some exponent is not positive;
otherwise entry `i` of the result is
`Σ_k c_k·V_s(|x_i − R_k|, α_k) + Σ_k d_k·V_p(|x_i − R'_k|, β_k)`. -/
theorem multi_centre_is_sum (normalized : Bool) (points : List (P3 ℝ)) (ss ps : List (Gauss ℝ)) :
    coulombPotential normalized points ss ps =
      if (∃ g ∈ ss ++ ps, g.alpha ≤ 0) then none
      else some (points.map fun x =>
        (ss.map fun (g : Gauss ℝ) => g.coeff * coulombGaussianS (dist3 x g.center) g.alpha normalized).sum
        + (ps.map fun (g : Gauss ℝ) => g.coeff * coulombGaussianP (dist3 x g.center) g.alpha normalized).sum) := by
  have hd : ∀ (g : Gauss ℝ), ∀ r ∈ points.map (dist3 · g.center), 0 ≤ r := by
    intro g r hr
    obtain ⟨x, _, rfl⟩ := List.mem_map.mp hr
    exact (dist_eq x g.center).2
  have hcond : (ss.any (fun g => rejectsArr coulombGaussianSRejects (points.map (dist3 · g.center)) g.alpha)
      || ps.any (fun g => rejectsArr coulombGaussianPRejects (points.map (dist3 · g.center)) g.alpha)) = true
      ↔ ∃ g ∈ ss ++ ps, g.alpha ≤ 0 := by
    simp only [Bool.or_eq_true, List.any_eq_true, List.mem_append]
    constructor
    · rintro (⟨g, hg, h⟩ | ⟨g, hg, h⟩)
      · exact ⟨g, Or.inl hg, ((rejectsArr_iff _ (hd g) _).1).mp h⟩
      · exact ⟨g, Or.inr hg, ((rejectsArr_iff _ (hd g) _).2).mp h⟩
    · rintro ⟨g, hg | hg, h⟩
      · exact Or.inl ⟨g, hg, ((rejectsArr_iff _ (hd g) _).1).mpr h⟩
      · exact Or.inr ⟨g, hg, ((rejectsArr_iff _ (hd g) _).2).mpr h⟩
  unfold coulombPotential
  by_cases hc : ∃ g ∈ ss ++ ps, g.alpha ≤ 0
  · rw [if_pos (hcond.mpr hc), if_pos hc]
  · rw [if_neg (fun h => hc (hcond.mp h)), if_neg hc]
    congr 1
    apply List.map_congr_left
    intro x _
    simp only [potentialAt, accumulate_eq, Nat.cast_zero, zero_add]

/-- Non-vacuity: two s functions and one p function, two points, are accepted. -/
example : ¬ ∃ g ∈ ([⟨(0, 0, 0), 1 / 2, 3 / 2⟩, ⟨(1, 1, 1), 2, 4 / 5⟩] : List (Gauss ℝ)) ++ [⟨(0, 0, 1), -1, 3⟩],
    g.alpha ≤ 0 := by
  simp

end GridVerif.C17

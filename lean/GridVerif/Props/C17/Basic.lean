/-
  C17 — closed-form Coulomb potentials of Gaussian densities: shared definitions.

  * the *documented* densities (from the docstrings of `coulomb_gaussian_s/p`; they are
    the specification, hand-written here),
  * the constants shared by the s and p files.
  The generated closed forms `Gen.Coulomb.coulombGaussianS/P` are unfolded branch by branch in
  `S.lean` / `P.lean` (`s_lower`, `s_upper`, `p_lower`, `p_upper`: these break when a
  constant/sign/branch of `coulomb.py` changes), the guards in `Multi.lean`.
-/
import GridVerif.Lemmas.Coulomb
import GridVerif.Gen.Coulomb
import GridVerif.Model.Coulomb

namespace GridVerif.C17
open GridVerif GridVerif.Gen.Coulomb GridVerif.Coulomb Real

/-- `_R_ZERO_THRESHOLD` as a real number. -/
noncomputable abbrev thr : ℝ := (rZeroThreshold : ℝ)

theorem thr_pos : 0 < thr := by
  simp only [thr, rZeroThreshold, Nat.cast_ofNat, Nat.cast_one]; norm_num

/-- documented normalised s density `(α/π)^{3/2} e^{-αr²}`. -/
noncomputable def rhoS (α r : ℝ) : ℝ := (α / π) ^ ((3:ℝ) / 2) * Real.exp (-α * r ^ 2)
/-- documented unnormalised s density `e^{-αr²}`. -/
noncomputable def rhoSUnnorm (α r : ℝ) : ℝ := Real.exp (-α * r ^ 2)
/-- documented normalised p density `(2/3) α^{5/2} π^{-3/2} r² e^{-αr²}`. -/
noncomputable def rhoP (α r : ℝ) : ℝ :=
  2 / 3 * (α ^ ((5:ℝ) / 2) / π ^ ((3:ℝ) / 2)) * r ^ 2 * Real.exp (-α * r ^ 2)
/-- documented unnormalised p density `r² e^{-αr²}`. -/
noncomputable def rhoPUnnorm (α r : ℝ) : ℝ := r ^ 2 * Real.exp (-α * r ^ 2)

/-- `4π·(α/π)^{3/2} = 4·α√α/√π`. -/
theorem four_pi_rhoS_coeff {α : ℝ} (hα : 0 < α) :
    4 * π * (α / π) ^ ((3:ℝ) / 2) = 4 * α * Real.sqrt α / Real.sqrt π := by
  rw [rpow_three_halves (div_pos hα Real.pi_pos), Real.sqrt_div hα.le]
  have hp := sqrt_pi_pos
  have : π = Real.sqrt π * Real.sqrt π := (Real.mul_self_sqrt Real.pi_pos.le).symm
  field_simp

/-- `4π·(2/3)·α^{5/2}/π^{3/2} = (8/3)·α²√α/√π`. -/
theorem four_pi_rhoP_coeff {α : ℝ} (hα : 0 < α) :
    4 * π * (2 / 3 * (α ^ ((5:ℝ) / 2) / π ^ ((3:ℝ) / 2))) = 8 / 3 * α ^ 2 * Real.sqrt α / Real.sqrt π := by
  rw [rpow_three_halves Real.pi_pos, rpow_five_halves hα]
  have hp := sqrt_pi_pos
  have := Real.pi_pos
  field_simp
  norm_num

end GridVerif.C17

/-
  C17 — the shipped per-element parameter table (`data/atomic_gauss_params.json`, regenerated
  into `Gen/CoulombParams.lean` with exact decimals): `table_ok`, `alphas_positive`; and the
  hand-written reference loader `Coulomb.load` (`model_load_*`; the theorems about the GENERATED
  loader, which is proved equal to it, are in `Loader.lean`).  Finite facts: kernel-decided.
-/
import GridVerif.Model.Coulomb
import GridVerif.Gen.CoulombParams
import Mathlib.Analysis.SpecialFunctions.Pow.Real

namespace GridVerif.C17
open GridVerif.Coulomb GridVerif.Gen.CoulombParams

/-- one JSON entry: `coeffs_s` and `alphas_s` equally long, not empty, every exponent's
decimal mantissa positive. -/
def EntryOk (e : String × List (Int × Int) × List (Int × Int)) : Prop :=
  e.2.1.length = e.2.2.length ∧ 0 < e.2.2.length ∧ ∀ a ∈ e.2.2, 0 < a.1

instance (e) : Decidable (EntryOk e) := by unfold EntryOk; infer_instance

/-- the real number a decimal `(m, e)` of the file denotes. -/
noncomputable def decVal (p : Int × Int) : ℝ := (p.1 : ℝ) * (10 : ℝ) ^ p.2

/-- **Every shipped parameter set** has matching arrays and positive exponents; every key of
the file is an element symbol, no key twice. Decided by the kernel on the regenerated table. -/
theorem table_ok :
    table ≠ [] ∧ (∀ e ∈ table, EntryOk e) ∧
    (∀ e ∈ table, e.1 ∈ elements.map (·.2)) ∧ (table.map (·.1)).Nodup ∧
    (elements.map (·.1)).Nodup ∧ (elements.map (·.2)).Nodup := by
  decide +kernel

/-- … as real numbers: every exponent is `> 0`. -/
theorem alphas_positive : ∀ e ∈ table, ∀ a ∈ e.2.2, 0 < decVal a := by
  intro e he a ha
  have := (table_ok.2.1 e he).2.2 a ha
  unfold decVal
  have h10 : (0:ℝ) < (10:ℝ) ^ a.2 := zpow_pos (by norm_num) _
  exact mul_pos (by exact_mod_cast this) h10

/-- **Loading by symbol and by atomic number**, for every element of the periodic table
(`grid.utils.num2sym`): if the file has an entry for it, both calls return that entry's two
arrays (the same ones); if not, both are rejected. -/
theorem model_load_every_element :
    ∀ el ∈ elements,
      load elements table (.sym el.2.toList) = load elements table (.num el.1) ∧
      load elements table (.num el.1) = (table.find? (fun r => r.1 == el.2)).map (·.2) ∧
      ((load elements table (.num el.1)).isSome = true ↔ el.2 ∈ table.map (·.1)) := by
  decide +kernel

/-- Symbols are case-insensitive and may be padded: `" cl "`, `"CL"`, `"Cl"` load the same entry
as atomic number 17; `"h"` as 1. -/
theorem model_load_normalises :
    load elements table (.sym " cl ".toList) = load elements table (.num 17) ∧
    load elements table (.sym "CL".toList) = load elements table (.num 17) ∧
    load elements table (.sym "\th\n".toList) = load elements table (.num 1) ∧
    (load elements table (.num 17)).isSome = true := by
  decide +kernel

/-- **Unknown symbols and numbers are rejected** (for any table). -/
theorem model_load_unknown_rejected {α : Type} (els : List (Nat × String)) (tbl : List (String × α)) :
    (∀ s, String.ofList (title (strip s)) ∉ els.map (·.2) → load els tbl (.sym s) = none) ∧
    (∀ n : Int, (n < 0 ∨ n.toNat ∉ els.map (·.1)) → load els tbl (.num n) = none) ∧
    (∀ e, (∀ s, jsonSymbol els e = some s → s ∉ tbl.map (·.1)) → load els tbl e = none) := by
  refine ⟨?_, ?_, ?_⟩
  · intro s hs
    have : (els.any fun e => e.2 == String.ofList (title (strip s))) = false := by
      rw [Bool.eq_false_iff]
      intro h
      obtain ⟨e, he, heq⟩ := List.any_eq_true.mp h
      exact hs (List.mem_map.mpr ⟨e, he, by simpa using heq⟩)
    simp [load, jsonSymbol, this]
  · intro n hn
    rcases hn with hn | hn
    · simp [load, jsonSymbol, hn]
    · have : els.find? (fun e => e.1 == n.toNat) = none := by
        rw [List.find?_eq_none]
        intro e he heq
        exact hn (List.mem_map.mpr ⟨e, he, by simpa using heq⟩)
      simp [load, jsonSymbol, this]
  · intro e he
    unfold load
    cases hj : jsonSymbol els e with
    | none => rfl
    | some s =>
      have : tbl.find? (fun r => r.1 == s) = none := by
        rw [List.find?_eq_none]
        intro r hr heq
        exact he s hj (List.mem_map.mpr ⟨r, hr, by simpa using heq⟩)
      simp [this]

/-- Non-vacuity / concrete instances: `"Xe"`, `"Qq"`, `0`, `119`, `-3` are rejected;
hydrogen loads 17 coefficients and 17 exponents. -/
example :
    load elements table (.sym "Xe".toList) = none ∧ load elements table (.sym "Qq".toList) = none ∧
    load elements table (.num 0) = none ∧ load elements table (.num 119) = none ∧
    load elements table (.num (-3)) = none ∧
    (load elements table (.num 1)).map (fun r => (r.1.length, r.2.length)) = some (17, 17) := by
  decide +kernel

end GridVerif.C17

/-
  C17 — `load_atomic_gaussian_params`, about the GENERATED loader
  (`Gen/CoulombLoader.lean`: AST → Lean, statement by statement, regenerated on every run; the
  module-level `_ATOMIC_GAUSS_PARAMS_CACHE` is the state of the `LoadM` computations).

  * `loader_gen_eq_model`    bridge: for every argument object and both states of the cache the
                             generated loader is the hand model `Coulomb.load` (+ what it does to
                             the cache), for any element table and any file content
  * `load_every_element`     every symbol / atomic number of `grid.utils` loads its table entry or
                             is rejected (kernel-decided on the regenerated data)
  * `load_normalises`        case-insensitive, padded symbols; `True` is hydrogen
  * `load_unknown_rejected`  unknown symbols / numbers / elements without parameters: `ValueError`
  * `load_type_error`        neither `str` nor `int`/`np.integer`: `TypeError`, cache untouched
  * `load_cache_independent` the answer does not depend on whether the cache was filled before;
                             after every call that got past the argument checks the cache is the
                             file; it is never anything else ("lazy parameter cache")
  * `load_unreadable_file`   a resource that cannot be opened/parsed: `ValueError`
  The lemmas here unfold the generated text: the `isinstance` tuples, `.strip().title()`, which
  dictionary is consulted with which key, the exception classes, the `try/except KeyError`, which
  JSON key goes to which component of the returned pair and their order.
-/
import GridVerif.Lemmas.CoulombPy
import GridVerif.Gen.CoulombLoader
import GridVerif.Props.C17.Table

set_option linter.unusedSimpArgs false
set_option linter.unusedVariables false

namespace GridVerif.C17
open GridVerif.Coulomb GridVerif.Gen.CoulombParams GridVerif.Gen.CoulombLoader

/-- The environment of the loader for an element table `els` (`num2sym`; `sym2num` its inverse)
and a parsed parameter file `file` (`none`: the resource cannot be opened or parsed). -/
def mkEnv (els : List (Nat × String)) (file : Option JsonTable) : LoaderEnv where
  sym2num := els.map fun e => (e.2, e.1)
  num2sym := els
  readJson := fun pkg name =>
    if pkg == "grid.data" && name == "atomic_gauss_params.json" then file else none

/-- the generated environment is the one of the regenerated data. -/
theorem env_eq : Gen.CoulombLoader.env = mkEnv elements (some json) := rfl

/-- The argument object as the hand model's `Element`; `none` = neither string nor integer. -/
def toElement : PyObj → Option Element
  | .str s => some (.sym s.toList)
  | .int n => some (.num n)
  | .npInt n => some (.num n)
  | .bool b => some (.num (if b then 1 else 0))
  | .other => none

/-- The two arrays of one entry of the file, in the order the loader returns them
(`coeffs_s`, then `alphas_s`); `KeyError` if the entry lacks one of the keys. -/
def entryPair (e : JsonEntry) : Except Err (List Dec × List Dec) :=
  match pyGetItem e (some "coeffs_s"), pyGetItem e (some "alphas_s") with
  | .ok c, .ok a => .ok (c, a)
  | .error x, _ => .error x
  | .ok _, .error x => .error x

/-- Hand-written reference for one call (result, cache afterwards) from a cache that is empty
or holds the file. -/
def loadSpec (els : List (Nat × String)) (file : Option JsonTable) (e : PyObj) (c : Cache) :
    Except Err (List Dec × List Dec) × Cache :=
  match toElement e with
  | none => (.error Err.typeError, c)
  | some el =>
    match jsonSymbol els el with
    | none => (.error Err.valueError, c)
    | some s =>
      match (if c.isNone then file else c) with
      | none => (.error Err.valueError, c)
      | some tbl =>
        (match tbl.find? fun r => r.1 == s with
          | none => .error Err.valueError
          | some r => entryPair r.2, some tbl)

section bridge

private theorem any_swap (els : List (Nat × String)) (t : String) :
    ((els.map fun e => (e.2, e.1)).any fun e => e.1 == t) = els.any fun e => e.2 == t := by
  induction els with
  | nil => rfl
  | cons x xs ih => simp [ih]

private theorem res_eq : ("grid.data" == "grid.data" && "atomic_gauss_params.json" == "atomic_gauss_params.json") = true := by
  decide

/-- result of the argument checks: the JSON key (`Option String`: `num2sym.get` may give `None`,
but then the call has already raised), cache untouched. -/
def firstSpec (els : List (Nat × String)) (e : PyObj) (c : Cache) : Except Err (Option String) × Cache :=
  match toElement e with
  | none => (.error Err.typeError, c)
  | some el =>
    match jsonSymbol els el with
    | none => (.error Err.valueError, c)
    | some s => (.ok (some s), c)

/-- the part after the argument checks: fill the cache if it is empty, look the key up, take
the two arrays. -/
def tailSpec (file : Option JsonTable) (js : Option String) (c : Cache) : Except Err (List Dec × List Dec) × Cache :=
  match (if c.isNone then file else c) with
  | none => (.error Err.valueError, c)
  | some tbl =>
    (match js with
      | none => .error Err.valueError
      | some s =>
        match tbl.find? fun r => r.1 == s with
        | none => .error Err.valueError
        | some r => entryPair r.2, some tbl)

private theorem guard_none (x : Option String) (c : Cache) :
    (if x.isNone = true then (do let r ← (throw Err.valueError : LoadM Unit); pure x) else pure x : LoadM (Option String)).run c
      = match x with
        | none => (.error Err.valueError, c)
        | some s => (.ok (some s), c) := by
  cases x <;> rfl

/-- **Bridge: generated = hand model**, for every argument object, every state of the cache,
every element table and every content (or absence) of the file. -/
theorem loader_gen_eq_model (els : List (Nat × String)) (file : Option JsonTable) (e : PyObj) (c : Cache) :
    (load_atomic_gaussian_params (mkEnv els file) e).run c = loadSpec els file e c := by
  unfold load_atomic_gaussian_params
  refine (split_bind _ _ c (firstSpec els e c) (tailSpec file) ?h1 ?h2).trans ?_
  case h1 =>
    cases e with
    | other =>
      simp [firstSpec, toElement, pyIsInstance, pyIsInstance1, LoadM.throw_apply]
    | str s =>
      simp only [firstSpec, toElement, pyIsInstance, pyIsInstance1, List.any_cons, List.any_nil, Bool.or_false, if_true,
        jsonSymbol, pyStr_str, pyTitle, pyStrip, String.toList_ofList, pyIn, mkEnv, any_swap, LoadM.bind_apply,
        LoadM.lift_apply, LoadM.ite_apply, LoadM.throw_apply, LoadM.pure_apply]
      by_cases h : (els.any fun e => e.2 == String.ofList (title (strip s.toList))) = true
      · simp [h]
      · simp [h]
    | int n =>
      simp only [firstSpec, toElement, pyIsInstance, pyIsInstance1, List.any_cons, List.any_nil, Bool.or_false,
        Bool.false_eq_true, if_false, Bool.true_or, if_true, jsonSymbol, pyIntOf_int, pyDictGetInt, mkEnv,
        LoadM.bind_apply, LoadM.lift_apply, LoadM.ite_apply, LoadM.throw_apply, LoadM.pure_apply]
      exact guard_none _ c
    | npInt n =>
      simp only [firstSpec, toElement, pyIsInstance, pyIsInstance1, List.any_cons, List.any_nil, Bool.or_false,
        Bool.false_eq_true, if_false, Bool.or_true, if_true, jsonSymbol, pyIntOf_npInt, pyDictGetInt, mkEnv,
        LoadM.bind_apply, LoadM.lift_apply, LoadM.ite_apply, LoadM.throw_apply, LoadM.pure_apply]
      exact guard_none _ c
    | bool b =>
      simp only [firstSpec, toElement, pyIsInstance, pyIsInstance1, List.any_cons, List.any_nil, Bool.or_false,
        Bool.false_eq_true, if_false, Bool.true_or, if_true, jsonSymbol, pyIntOf_bool, pyDictGetInt, mkEnv,
        LoadM.bind_apply, LoadM.lift_apply, LoadM.ite_apply, LoadM.throw_apply, LoadM.pure_apply]
      exact guard_none _ c
  case h2 =>
    intro js c'
    have key : ∀ (tbl : JsonTable) (c0 : Cache),
        (do
          let data ← pyTry (do let c1 ← getCache; liftM (pyCacheGetItem c1 js)) ExcClass.keyError (throw Err.valueError)
          let x ← liftM (pyGetItem data (some "coeffs_s"))
          let y ← liftM (pyGetItem data (some "alphas_s"))
          (pure (npAsarrayFloatList x, npAsarrayFloatList y) : LoadM (List Dec × List Dec))).run (some tbl)
        = (match js with
            | none => .error Err.valueError
            | some s =>
              match tbl.find? fun r => r.1 == s with
              | none => .error Err.valueError
              | some r => entryPair r.2, some tbl) := by
      intro tbl _
      simp only [LoadM.bind_apply, pyTry_apply, getCache_apply, LoadM.lift_apply, pyCacheGetItem, LoadM.pure_apply,
        LoadM.throw_apply, npAsarrayFloatList]
      cases js with
      | none => simp [pyGetItem, throw, throwThe, MonadExceptOf.throw, Err.isInstance]
      | some s =>
        simp only [pyGetItem]
        cases hf : tbl.find? fun r => r.1 == s with
        | none => simp [throw, throwThe, MonadExceptOf.throw, Err.isInstance]
        | some r =>
          simp only [entryPair, pyGetItem, pure, Except.pure]
          cases h1 : List.find? (fun e => e.1 == "coeffs_s") r.2 <;>
            cases h2 : List.find? (fun e => e.1 == "alphas_s") r.2 <;>
            simp [throw, throwThe, MonadExceptOf.throw]
    cases c' with
    | some tbl =>
      simp only [LoadM.bind_apply, getCache_apply, Option.isNone_some, Bool.false_eq_true, if_false, tailSpec]
      exact key tbl none
    | none =>
      cases file with
      | none =>
        simp [LoadM.bind_apply, getCache_apply, pyTry_apply, pyOpen_apply, mkEnv, pyFiles, ResPath.joinpath, res_eq,
          Err.isInstance, LoadM.throw_apply, tailSpec]
      | some tbl =>
        simp only [LoadM.bind_apply, getCache_apply, Option.isNone_none, if_true, pyTry_apply, pyOpen_apply, mkEnv,
          pyFiles, ResPath.joinpath, res_eq, jsonLoad_apply, setCache_apply, LoadM.pure_apply, tailSpec]
        exact key tbl none
  -- the two halves put together
  cases h1 : toElement e with
  | none => simp only [loadSpec, firstSpec, bindSpec, h1]
  | some el =>
    cases h2 : jsonSymbol els el with
    | none => simp only [loadSpec, firstSpec, bindSpec, h1, h2]
    | some s => simp only [loadSpec, firstSpec, bindSpec, tailSpec, h1, h2]

end bridge

/-! ### the property clauses, about the generated loader -/

/-- One call of the generated loader in the generated environment (the regenerated element table
and parameter file), started with the cache in state `c`: (outcome, cache afterwards). -/
def genLoad (e : PyObj) (c : Cache) : Except Err (List Dec × List Dec) × Cache :=
  (load_atomic_gaussian_params Gen.CoulombLoader.env e).run c

theorem genLoad_eq (e : PyObj) (c : Cache) : genLoad e c = loadSpec elements (some json) e c := by
  unfold genLoad
  rw [env_eq, loader_gen_eq_model]

/-- **Loading by symbol and by atomic number**, for every element of the periodic table
(`grid.utils.num2sym`), from an empty cache: if the file has an entry for it, both calls return
that entry's `(coeffs_s, alphas_s)` — in this order —; if not, both raise `ValueError`.
Kernel-decided on the generated loader and the regenerated data. -/
theorem load_every_element :
    ∀ el ∈ elements,
      (genLoad (.str el.2) none).1 = (genLoad (.int el.1) none).1 ∧
      (genLoad (.int el.1) none).1 =
        (match table.find? (fun r => r.1 == el.2) with
          | some r => .ok r.2
          | none => .error Err.valueError) ∧
      ((genLoad (.int el.1) none).1.toOption.isSome = true ↔ el.2 ∈ table.map (·.1)) := by
  decide +kernel

/-- Symbols are case-insensitive and may be padded: `" cl "`, `"CL"`, `"Cl"` load the same entry as
atomic number 17 (Python `int` or NumPy integer); `"\th\n"` as 1; `True` is an `int` in Python
and loads hydrogen. -/
theorem load_normalises :
    (genLoad (.str " cl ") none).1 = (genLoad (.int 17) none).1 ∧
    (genLoad (.str "CL") none).1 = (genLoad (.int 17) none).1 ∧
    (genLoad (.str "Cl") none).1 = (genLoad (.npInt 17) none).1 ∧
    (genLoad (.str "\th\n") none).1 = (genLoad (.int 1) none).1 ∧
    (genLoad (.bool true) none).1 = (genLoad (.int 1) none).1 ∧
    (genLoad (.int 17) none).1.toOption.isSome = true ∧ (genLoad (.int 1) none).1.toOption.isSome = true := by
  decide +kernel

/-- **Unknown symbols and numbers are rejected** with `ValueError` — for any element table, any
parameter file and any state of the cache (which is left as it was); an element that the table
knows but the file has no entry for is rejected after the cache has been filled. -/
theorem load_unknown_rejected (els : List (Nat × String)) (file : Option JsonTable) (c : Cache) :
    (∀ s : String, String.ofList (title (strip s.toList)) ∉ els.map (·.2) →
      (load_atomic_gaussian_params (mkEnv els file) (.str s)).run c = (.error Err.valueError, c)) ∧
    (∀ n : Int, (n < 0 ∨ n.toNat ∉ els.map (·.1)) →
      (load_atomic_gaussian_params (mkEnv els file) (.int n)).run c = (.error Err.valueError, c) ∧
      (load_atomic_gaussian_params (mkEnv els file) (.npInt n)).run c = (.error Err.valueError, c)) ∧
    (∀ e el s tbl, toElement e = some el → jsonSymbol els el = some s → (if c.isNone then file else c) = some tbl →
      s ∉ tbl.map (·.1) →
      (load_atomic_gaussian_params (mkEnv els file) e).run c = (.error Err.valueError, some tbl)) := by
  refine ⟨?_, ?_, ?_⟩
  · intro s hs
    have hany : (els.any fun e => e.2 == String.ofList (title (strip s.toList))) = false := by
      rw [Bool.eq_false_iff]
      intro h
      obtain ⟨e, he, heq⟩ := List.any_eq_true.mp h
      exact hs (List.mem_map.mpr ⟨e, he, by simpa using heq⟩)
    have : jsonSymbol els (.sym s.toList) = none := by simp [jsonSymbol, hany]
    rw [loader_gen_eq_model]
    simp only [loadSpec, toElement, this]
  · intro n hn
    have : jsonSymbol els (.num n) = none := by
      unfold jsonSymbol
      rcases hn with hn | hn
      · simp [hn]
      · have : els.find? (fun e => e.1 == n.toNat) = none := by
          rw [List.find?_eq_none]
          intro e he heq
          exact hn (List.mem_map.mpr ⟨e, he, by simpa using heq⟩)
        simp [this]
    constructor <;>
    · rw [loader_gen_eq_model]
      simp only [loadSpec, toElement, this]
  · intro e el s tbl h1 h2 h3 h4
    rw [loader_gen_eq_model]
    have : tbl.find? (fun r => r.1 == s) = none := by
      rw [List.find?_eq_none]
      intro r hr heq
      exact h4 (List.mem_map.mpr ⟨r, hr, by simpa using heq⟩)
    simp only [loadSpec, h1, h2, h3, this]

/-- **Type errors**: an `element` that is neither a `str` nor an `int` / `np.integer` (a float
such as `2.0`, `None`, a list, `bytes`, …) raises `TypeError`, whatever the environment, and the
cache is not touched. -/
theorem load_type_error (env : LoaderEnv) (c : Cache) :
    (load_atomic_gaussian_params env PyObj.other).run c = (.error Err.typeError, c) := rfl

/-- **Lazy parameter cache.**  For every argument object, element table and (readable) file:
the outcome of a call does not depend on whether the cache was filled before; a call leaves the
cache either as it was or holding the file; it holds the file after every call that got past the
argument checks (in particular after every successful one), and a filled cache stays as it is. -/
theorem load_cache_independent (els : List (Nat × String)) (tbl : JsonTable) (e : PyObj) :
    let cold := (load_atomic_gaussian_params (mkEnv els (some tbl)) e).run none
    let warm := (load_atomic_gaussian_params (mkEnv els (some tbl)) e).run (some tbl)
    cold.1 = warm.1 ∧ (cold.2 = none ∨ cold.2 = some tbl) ∧ warm.2 = some tbl ∧
    (cold.2 = some tbl ↔ ∃ el s, toElement e = some el ∧ jsonSymbol els el = some s) ∧
    (∀ v, cold.1 = .ok v → cold.2 = some tbl) := by
  simp only [loader_gen_eq_model]
  unfold loadSpec
  cases h1 : toElement e with
  | none => simp
  | some el =>
    cases h2 : jsonSymbol els el with
    | none => simp [h2]
    | some s => simp [h2]

/-- A resource that cannot be opened or parsed: every call that gets past the argument checks
raises `ValueError` and the cache stays empty. -/
theorem load_unreadable_file (els : List (Nat × String)) (e : PyObj) (el : Element) (s : String)
    (h1 : toElement e = some el) (h2 : jsonSymbol els el = some s) :
    (load_atomic_gaussian_params (mkEnv els none) e).run none = (.error Err.valueError, none) := by
  rw [loader_gen_eq_model]
  simp only [loadSpec, h1, h2, Option.isNone_none, if_true]

/-- Non-vacuity / concrete instances on the generated loader and data: `"Xe"` (an element
without parameters), `"Qq"`, `0`, `119`, `-3`, `False` (atomic number 0) are rejected with
`ValueError`, a float with `TypeError`; hydrogen loads 17 coefficients and 17 exponents; the
cache is filled by the `"Xe"` call (it fails after the file was read) but not by the `"Qq"` call. -/
example :
    genLoad (.str "Xe") none = (.error Err.valueError, some json) ∧
    genLoad (.str "Qq") none = (.error Err.valueError, none) ∧
    (genLoad (.int 0) none).1 = .error Err.valueError ∧ (genLoad (.int 119) none).1 = .error Err.valueError ∧
    (genLoad (.npInt (-3)) none).1 = .error Err.valueError ∧ (genLoad (.bool false) none).1 = .error Err.valueError ∧
    genLoad .other (some json) = (.error Err.typeError, some json) ∧
    (genLoad (.int 1) none).1.toOption.map (fun r => (r.1.length, r.2.length)) = some (17, 17) ∧
    (genLoad (.int 1) none).2 = some json := by
  decide +kernel

/-- Non-vacuity of the hypotheses of `load_unknown_rejected` (third clause: xenon is an element
without an entry in the shipped file) and `load_unreadable_file` (hydrogen passes the argument
checks), and of the `TypeError` class (`toElement` of a non-string, non-integer object). -/
example :
    (toElement (.str " xe ")).bind (jsonSymbol elements) = some "Xe" ∧ "Xe" ∉ json.map (·.1) ∧
    (toElement (.int 1)).bind (jsonSymbol elements) = some "H" ∧
    (toElement (.bool true)).bind (jsonSymbol elements) = some "H" ∧
    (toElement (.npInt 17)).bind (jsonSymbol elements) = some "Cl" ∧ (toElement .other).isNone = true := by
  decide +kernel

end GridVerif.C17

/-
  C17 — round 3: the GENERATED `coulomb_potential` (`Gen/CoulombPotential.lean`) under a common
  translation of the evaluation points and of all centres, and at the special inputs of the
  multi-centre clause (no centres at all, zero coefficients, coincident centres, a point on a
  centre in a frame whose origin is elsewhere).  Over the reals.

  * `dist3_translate`                    the distance the generated loop computes (`norm(points - center)`)
                                         does not see a common shift
  * `potential_translation_invariant`    outcome (array or `ValueError`) of the generated routine is the
                                         same for `(x_i + t, R_k + t, R'_k + t)` as for `(x_i, R_k, R'_k)`
  * `potential_translation_invariant_arrays`  the same for arbitrary argument arrays whose data fit their
                                         shapes (malformed shapes included: both sides raise)
  * `potential_no_centres`               `Ks = 0` and p arguments `None` or `Kp = 0`: zeros of shape `(N,)`
  * `potential_zero_coefficients`        all coefficients zero (exponents positive): zeros
  * `potential_coincident_centres`       the same Gaussian listed `m` times is `m` times its contribution
  * `potential_at_centre`                an evaluation point *on* the centre of an s function, wherever the
                                         centre is: `c · 2√α/√π` (the `r → 0` branch value, `s_origin`)
  A cancellation-prone distance formula (`|p|² + |c|² − 2 p·c`) is translation invariant over the
  reals as well: what these theorems pin is that the *generated text* is a function of `points - center`
  (a changed distance expression no longer matches the primitives `npSub`/`npNormLastAxis` of the
  bridge `potential_gen_eq_model`); the floating-point side of the same statement is sampled by the
  oracle (`harness/props/c17.py`, centres at `2^6 … 2^20` with exactly representable offsets).
-/
import GridVerif.Props.C17.MultiGen
import GridVerif.Props.C17.S

set_option linter.unusedSectionVars false
set_option linter.unusedSimpArgs false
set_option linter.unusedVariables false

namespace GridVerif.C17
open GridVerif GridVerif.Gen.Coulomb GridVerif.Coulomb GridVerif.Coulomb.NdArg GridVerif.Gen.CoulombPotential

/-- `p + t` in ℝ³. -/
def shift3 (t p : P3 ℝ) : P3 ℝ := (p.1 + t.1, p.2.1 + t.2.1, p.2.2 + t.2.2)

/-- a Gaussian moved by `t` (same coefficient, same exponent). -/
def shiftG (t : P3 ℝ) (g : Gauss ℝ) : Gauss ℝ := ⟨shift3 t g.center, g.coeff, g.alpha⟩

@[simp] theorem shiftG_coeff (t : P3 ℝ) (g : Gauss ℝ) : (shiftG t g).coeff = g.coeff := rfl
@[simp] theorem shiftG_alpha (t : P3 ℝ) (g : Gauss ℝ) : (shiftG t g).alpha = g.alpha := rfl
@[simp] theorem shiftG_center (t : P3 ℝ) (g : Gauss ℝ) : (shiftG t g).center = shift3 t g.center := rfl

/-- **The distance of the accumulation loops does not see a common shift.** -/
theorem dist3_translate (t p c : P3 ℝ) : dist3 (shift3 t p) (shift3 t c) = dist3 p c := by
  simp only [dist3, shift3]
  congr 1
  ring

theorem coeffsOf_shift (t : P3 ℝ) (gs : List (Gauss ℝ)) : coeffsOf (gs.map (shiftG t)) = coeffsOf gs := by
  simp [coeffsOf, List.map_map, Function.comp_def]

theorem alphasOf_shift (t : P3 ℝ) (gs : List (Gauss ℝ)) : alphasOf (gs.map (shiftG t)) = alphasOf gs := by
  simp [alphasOf, List.map_map, Function.comp_def]

theorem centersOf_shift (t : P3 ℝ) (gs : List (Gauss ℝ)) :
    centersOf (gs.map (shiftG t)) = ofMat3 ((gs.map (·.center)).map (shift3 t)) := by
  simp [centersOf, List.map_map, Function.comp_def]

theorem exists_nonpos_shift (t : P3 ℝ) (ss : List (Gauss ℝ)) (ps : Option (List (Gauss ℝ))) :
    (∃ g ∈ ss.map (shiftG t) ++ (ps.map (List.map (shiftG t))).getD [], g.alpha ≤ 0)
      ↔ ∃ g ∈ ss ++ ps.getD [], g.alpha ≤ 0 := by
  have key : ∀ l : List (Gauss ℝ), (∃ g ∈ l.map (shiftG t), g.alpha ≤ 0) ↔ ∃ g ∈ l, g.alpha ≤ 0 := by
    intro l
    constructor
    · rintro ⟨g, hg, h⟩
      obtain ⟨g', hg', rfl⟩ := List.mem_map.mp hg
      exact ⟨g', hg', h⟩
    · rintro ⟨g, hg, h⟩
      exact ⟨shiftG t g, List.mem_map.mpr ⟨g, hg, rfl⟩, h⟩
  have hl : ss.map (shiftG t) ++ (ps.map (List.map (shiftG t))).getD [] = (ss ++ ps.getD []).map (shiftG t) := by
    cases ps <;> simp
  rw [hl]
  exact key _

/-- **Translation invariance of the generated `coulomb_potential`** (round-3 task): for every list of
evaluation points, every set of s Gaussians, p Gaussians given or `None`, both values of
`normalized` and every vector `t`, the call with all points and all centres moved by `t` has the
same outcome — the same array of shape `(N,)`, or `ValueError` for the same reason (an exponent
`≤ 0`) — as the call with the original arguments.  About the generated text (through the bridge
`potential_gen_eq_model`, which unfolds the loops `r = np.linalg.norm(points - center, axis=-1)`). -/
theorem potential_translation_invariant (normalized : Bool) (t : P3 ℝ) (points : List (P3 ℝ))
    (ss : List (Gauss ℝ)) (ps : Option (List (Gauss ℝ))) :
    coulomb_potential (ofMat3 (points.map (shift3 t))) (centersOf (ss.map (shiftG t))) (coeffsOf (ss.map (shiftG t)))
        (alphasOf (ss.map (shiftG t))) ((ps.map (List.map (shiftG t))).map centersOf)
        ((ps.map (List.map (shiftG t))).map coeffsOf) ((ps.map (List.map (shiftG t))).map alphasOf) normalized
      = coulomb_potential (ofMat3 points) (centersOf ss) (coeffsOf ss) (alphasOf ss)
          (ps.map centersOf) (ps.map coeffsOf) (ps.map alphasOf) normalized := by
  rw [multi_centre_is_sum_gen, multi_centre_is_sum_gen]
  have hc := exists_nonpos_shift t ss ps
  by_cases h : ∃ g ∈ ss ++ ps.getD [], g.alpha ≤ 0
  · rw [if_pos (hc.mpr h), if_pos h]
  · rw [if_neg (fun h' => h (hc.mp h')), if_neg h]
    have hp : (ps.map (List.map (shiftG t))).getD [] = (ps.getD []).map (shiftG t) := by cases ps <;> simp
    rw [hp]
    simp only [List.map_map, Function.comp_def, shiftG_coeff, shiftG_alpha, shiftG_center, dist3_translate]

/-- `a + t` row by row for an `(n, 3)` array given by shape and data. -/
noncomputable def shiftRows (t : P3 ℝ) (a : NdArg ℝ) : NdArg ℝ :=
  ⟨a.shape, (chunks 3 (a.data.length / 3) a.data).flatMap fun row =>
    List.zipWith (fun x y => x + y) row (row3 t)⟩

theorem shiftRows_ofMat3 (t : P3 ℝ) (ps : List (P3 ℝ)) : shiftRows t (ofMat3 ps) = ofMat3 (ps.map (shift3 t)) := by
  unfold shiftRows ofMat3
  have hlen : (ps.flatMap row3).length / 3 = ps.length := by
    have : (ps.flatMap row3).length = ps.length * 3 := by
      induction ps with
      | nil => rfl
      | cons p ps ih => simp [List.flatMap_cons, row3, ih]; omega
    rw [this]; simp
  simp only [hlen, List.length_map]
  rw [chunks_flatMap row3 3 ps (by intro x _; rfl)]
  congr 1
  simp only [List.flatMap_map]
  congr 1

/-- **Translation invariance on argument arrays** (shape + data, as the driver hands them to the
generated function): for all arrays whose data fit their shapes, moving the rows of `points`,
`centers_s` and `centers_p` by `t` does not change the outcome.  Well-shaped arguments: the same
array or `ValueError` for an exponent `≤ 0`; malformed shapes: `shiftRows` keeps every shape, so
both calls raise `ValueError` from the same guard (there the data are not looked at). -/
theorem potential_translation_invariant_arrays (normalized : Bool) (t : P3 ℝ)
    (points centers_s coeffs_s alphas_s : NdArg ℝ) (centers_p coeffs_p alphas_p : Option (NdArg ℝ))
    (w1 : points.WF) (w2 : centers_s.WF) (w3 : coeffs_s.WF) (w4 : alphas_s.WF)
    (w5 : ∀ a, centers_p = some a → a.WF) (w6 : ∀ a, coeffs_p = some a → a.WF) (w7 : ∀ a, alphas_p = some a → a.WF) :
    coulomb_potential (shiftRows t points) (shiftRows t centers_s) coeffs_s alphas_s
        (centers_p.map (shiftRows t)) coeffs_p alphas_p normalized
      = coulomb_potential points centers_s coeffs_s alphas_s centers_p coeffs_p alphas_p normalized := by
  rcases multi_centre_total points centers_s coeffs_s alphas_s centers_p coeffs_p alphas_p normalized w1 w2 w3 w4 w5 w6 w7 with
    ⟨hbad, herr⟩ | ⟨pts, ss, ps, rfl, rfl, rfl, rfl, rfl, rfl, rfl⟩
  · -- malformed shapes: the shift keeps every shape, so the shifted call is malformed too
    rw [herr]
    apply shape_guards_reject
    intro hok
    apply hbad
    obtain ⟨h1, h2, h3⟩ := hok
    refine ⟨h1, h2, ?_⟩
    rcases h3 with ⟨h31, h32, h33⟩ | ⟨cp, kp, ap, k, h31, h32, h33, hc, hk, ha⟩
    · left
      refine ⟨?_, h32, h33⟩
      cases centers_p with
      | none => rfl
      | some a => simp at h31
    · right
      cases centers_p with
      | none => simp at h31
      | some a =>
        simp only [Option.map_some, Option.some.injEq] at h31
        subst h31
        exact ⟨a, kp, ap, k, rfl, h32, h33, hc, hk, ha⟩
  · have hs : shiftRows t (centersOf ss) = centersOf (ss.map (shiftG t)) := by
      rw [centersOf_shift]; exact shiftRows_ofMat3 t _
    have hp : (ps.map centersOf).map (shiftRows t) = (ps.map (List.map (shiftG t))).map centersOf := by
      cases ps with
      | none => rfl
      | some l =>
        simp only [Option.map_some]
        rw [centersOf_shift]; exact congrArg some (shiftRows_ofMat3 t _)
    have hk : ps.map coeffsOf = (ps.map (List.map (shiftG t))).map coeffsOf := by
      cases ps <;> simp [coeffsOf_shift]
    have ha : ps.map alphasOf = (ps.map (List.map (shiftG t))).map alphasOf := by
      cases ps <;> simp [alphasOf_shift]
    rw [shiftRows_ofMat3, hs, hp]
    conv_lhs => rw [← coeffsOf_shift t ss, ← alphasOf_shift t ss, hk, ha]
    exact potential_translation_invariant normalized t pts ss ps

/-! ### special inputs of the multi-centre clause (class 12) -/

/-- **No centres at all** (`Ks = 0`; p arguments `None` or `Kp = 0`): an array of `N` zeros. -/
theorem potential_no_centres (normalized : Bool) (points : List (P3 ℝ)) (ps : Option (List (Gauss ℝ)))
    (hps : ps.getD [] = []) :
    coulomb_potential (ofMat3 points) (centersOf []) (coeffsOf []) (alphasOf [])
        (ps.map centersOf) (ps.map coeffsOf) (ps.map alphasOf) normalized
      = .ok (ofVec (List.replicate points.length (0 : ℝ))) := by
  rw [multi_centre_is_sum_gen, hps]
  simp only [List.append_nil, List.not_mem_nil, false_and, exists_false, if_false, List.map_nil, List.sum_nil, add_zero]
  congr 2
  exact List.map_const' ..

/-- **All coefficients zero** (positive exponents): an array of `N` zeros, wherever the centres are. -/
theorem potential_zero_coefficients (normalized : Bool) (points : List (P3 ℝ)) (ss : List (Gauss ℝ))
    (ps : Option (List (Gauss ℝ))) (hα : ∀ g ∈ ss ++ ps.getD [], 0 < g.alpha) (hc : ∀ g ∈ ss ++ ps.getD [], g.coeff = 0) :
    coulomb_potential (ofMat3 points) (centersOf ss) (coeffsOf ss) (alphasOf ss)
        (ps.map centersOf) (ps.map coeffsOf) (ps.map alphasOf) normalized
      = .ok (ofVec (List.replicate points.length (0 : ℝ))) := by
  rw [multi_centre_is_sum_gen]
  have hno : ¬ ∃ g ∈ ss ++ ps.getD [], g.alpha ≤ 0 := by
    rintro ⟨g, hg, h⟩; exact absurd (hα g hg) (not_lt.mpr h)
  rw [if_neg hno]
  have hz : ∀ (f : ℝ → ℝ → Bool → ℝ) (x : P3 ℝ) (l : List (Gauss ℝ)), (∀ g ∈ l, g.coeff = 0) →
      (l.map fun (g : Gauss ℝ) => g.coeff * f (dist3 x g.center) g.alpha normalized).sum = 0 := by
    intro f x l hl
    apply List.sum_eq_zero
    intro y hy
    obtain ⟨g, hg, rfl⟩ := List.mem_map.mp hy
    rw [hl g hg, zero_mul]
  congr 2
  rw [List.eq_replicate_iff]
  refine ⟨by simp, ?_⟩
  intro y hy
  obtain ⟨x, _, rfl⟩ := List.mem_map.mp hy
  rw [hz _ x ss (fun g hg => hc g (List.mem_append_left _ hg)),
    hz _ x (ps.getD []) (fun g hg => hc g (List.mem_append_right _ hg)), add_zero]

/-- **Coincident centres**: the same s Gaussian listed `m` times (same centre, coefficient and
exponent) contributes `m` times its single contribution — nothing is merged or dropped. -/
theorem potential_coincident_centres (normalized : Bool) (points : List (P3 ℝ)) (g : Gauss ℝ) (m : Nat)
    (hα : 0 < g.alpha) :
    coulomb_potential (ofMat3 points) (centersOf (List.replicate m g)) (coeffsOf (List.replicate m g))
        (alphasOf (List.replicate m g)) none none none normalized
      = .ok (ofVec (points.map fun x => (m : ℝ) * (g.coeff * coulombGaussianS (dist3 x g.center) g.alpha normalized))) := by
  rw [multi_centre_s_only]
  have hno : ¬ ∃ g' ∈ List.replicate m g, g'.alpha ≤ 0 := by
    rintro ⟨g', hg', h⟩
    rw [(List.mem_replicate.mp hg').2] at h
    exact absurd hα (not_lt.mpr h)
  rw [if_neg hno]
  simp only [List.map_replicate, List.sum_replicate, nsmul_eq_mul]

/-- **A point on the centre of an s function, in any frame**: with one normalised s Gaussian at
`R` (anywhere) the value at `x = R` is `c · 2√α/√π` — the `r → 0` branch of the generated closed
form (equal to the limit of `erf(√α r)/r`, `s_origin`). -/
theorem potential_at_centre (R : P3 ℝ) (c α : ℝ) (hα : 0 < α) :
    coulomb_potential (ofMat3 [R]) (centersOf [⟨R, c, α⟩]) (coeffsOf [⟨R, c, α⟩]) (alphasOf [⟨R, c, α⟩])
        none none none true
      = .ok (ofVec [c * (2 * Real.sqrt α / Real.sqrt Real.pi)]) := by
  rw [multi_centre_s_only]
  have hno : ¬ ∃ g ∈ [(⟨R, c, α⟩ : Gauss ℝ)], g.alpha ≤ 0 := by
    rintro ⟨g, hg, h⟩
    rw [List.mem_singleton.mp hg] at h
    exact absurd hα (not_lt.mpr h)
  rw [if_neg hno]
  have hd : dist3 R R = 0 := by
    simp [dist3, Elem.sqrt]
  have hv : coulombGaussianS (0 : ℝ) α true = 2 * Real.sqrt α / Real.sqrt Real.pi := by
    have hthr : (0 : ℝ) < (rZeroThreshold : ℝ) := thr_pos
    have hnle : ¬ (rZeroThreshold : ℝ) ≤ 0 := not_le.mpr hthr
    simp only [coulombGaussianS, hnle, hthr, if_false, if_true, Elem.sqrt, Elem.pi, Nat.cast_ofNat]
  simp only [List.map_cons, List.map_nil, List.sum_cons, List.sum_nil, add_zero, hd, hv]

/-! ### non-vacuity -/

/-- a molecule moved from the origin to `(2^20, −2^10, 64)`: the hypotheses-free statement applies
to two s and one p function at two points, one of them on a centre. -/
example :
    let t : P3 ℝ := (1048576, -1024, 64)
    let pts : List (P3 ℝ) := [(0, 0, 0), (1 / 1024, 0, 1 / 4)]
    let ss : List (Gauss ℝ) := [⟨(0, 0, 0), 1 / 2, 1000000000000⟩, ⟨(1, 1, 1), 2, 4 / 5⟩]
    let ps : Option (List (Gauss ℝ)) := some [⟨(0, 0, 1), -1, 3⟩]
    coulomb_potential (ofMat3 (pts.map (shift3 t))) (centersOf (ss.map (shiftG t))) (coeffsOf (ss.map (shiftG t)))
        (alphasOf (ss.map (shiftG t))) ((ps.map (List.map (shiftG t))).map centersOf)
        ((ps.map (List.map (shiftG t))).map coeffsOf) ((ps.map (List.map (shiftG t))).map alphasOf) false
      = coulomb_potential (ofMat3 pts) (centersOf ss) (coeffsOf ss) (alphasOf ss)
          (ps.map centersOf) (ps.map coeffsOf) (ps.map alphasOf) false := by
  intro t pts ss ps
  exact potential_translation_invariant false t pts ss ps

example : shift3 (64, 64, 64) ((1 : ℝ) / 1024, 0, 0) = (64 + 1 / 1024, 64, 64) := by
  simp [shift3]; norm_num

end GridVerif.C17

/-
  C17 — p-type Gaussian.

  FINDING (unchanged tree): the shipped `coulomb_gaussian_p` is **not** the potential of the
  density it documents.  For `ρ_p = (2/3) α^{5/2} π^{-3/2} r² e^{-αr²}` the potential is
      V(r) = erf(√α r)/r − (2/3)·√(α/π)·e^{-αr²},      V(0) = (4/3)·√(α/π),
  the code has `+ 4/3` and `10/3` (ratio 2.5 at the nucleus, → 1 at large r).
  * `p_correct…` : theorems about the hand-written corrected formula
    `Coulomb.coulombGaussianPCorrected` (Model/Coulomb.lean; *not* generated from the code);
  * `p_code_…`   : what is true and what fails for the generated code as it is.
-/
import GridVerif.Props.C17.Basic

namespace GridVerif.C17
open GridVerif GridVerif.Gen.Coulomb GridVerif.Coulomb Real Filter Topology MeasureTheory

/-! #### the generated function (and the corrected one) at `ℝ`, branch by branch -/

theorem p_lower {r α : ℝ} (hr : r < thr) :
    coulombGaussianP r α true = 10 / 3 * (Real.sqrt α / Real.sqrt π) := by
  simp only [coulombGaussianP, Elem.sqrt, Elem.erf, Elem.pi, Elem.exp,
    Nat.cast_ofNat, Nat.cast_zero, npow_eq_pow, if_true]
  rw [if_pos hr]

theorem p_upper {r α : ℝ} (hr : thr ≤ r) :
    coulombGaussianP r α true
      = realErf (Real.sqrt α * r) / r + 4 / 3 * (Real.sqrt α / Real.sqrt π) * Real.exp (-α * r ^ 2) := by
  simp only [coulombGaussianP, Elem.sqrt, Elem.erf, Elem.pi, Elem.exp,
    Nat.cast_ofNat, Nat.cast_zero, npow_eq_pow, if_true]
  rw [if_neg (not_lt.mpr hr), if_pos hr]

theorem pc_lower {r α : ℝ} (hr : r < thr) :
    coulombGaussianPCorrected r α true = 4 / 3 * (Real.sqrt α / Real.sqrt π) := by
  simp only [coulombGaussianPCorrected, Elem.sqrt, Elem.erf, Elem.pi, Elem.exp,
    Nat.cast_ofNat, npow_eq_pow, if_true]
  rw [if_pos hr]

theorem pc_upper {r α : ℝ} (hr : thr ≤ r) :
    coulombGaussianPCorrected r α true
      = realErf (Real.sqrt α * r) / r - 2 / 3 * (Real.sqrt α / Real.sqrt π) * Real.exp (-α * r ^ 2) := by
  simp only [coulombGaussianPCorrected, Elem.sqrt, Elem.erf, Elem.pi, Elem.exp,
    Nat.cast_ofNat, npow_eq_pow, if_true]
  rw [if_neg (not_lt.mpr hr)]

/-- coefficient of the Gaussian term of the corrected potential: `−(2/3)·√α/√π`. -/
noncomputable def cCorrect (α : ℝ) : ℝ := -(2 / 3 * (Real.sqrt α / Real.sqrt π))
/-- coefficient of the Gaussian term in the code: `+(4/3)·√α/√π`. -/
noncomputable def cCode (α : ℝ) : ℝ := 4 / 3 * (Real.sqrt α / Real.sqrt π)

/-- with the corrected coefficient `u'' = −4π r ρ_p`. -/
theorem pU2_correct {α : ℝ} (hα : 0 < α) (r : ℝ) : pU2 (cCorrect α) α r = -(4 * π * r * rhoP α r) := by
  unfold pU2 rhoP cCorrect
  have := four_pi_rhoP_coeff hα
  calc _ = -(8 / 3 * α ^ 2 * Real.sqrt α / Real.sqrt π) * r ^ 3 * Real.exp (-α * r ^ 2) := by ring
    _ = -(4 * π * (2 / 3 * (α ^ ((5:ℝ) / 2) / π ^ ((3:ℝ) / 2)))) * r ^ 3 * Real.exp (-α * r ^ 2) := by
        rw [this]
    _ = _ := by ring

theorem pc_mul_eventuallyEq {α r : ℝ} (hr : thr < r) :
    (fun x => x * coulombGaussianPCorrected x α true) =ᶠ[𝓝 r] pU (cCorrect α) α := by
  filter_upwards [lt_mem_nhds hr] with x hx
  have hx0 : x ≠ 0 := (thr_pos.trans hx).ne'
  rw [pc_upper hx.le]
  unfold pU cCorrect
  field_simp
  ring

theorem p_mul_eventuallyEq {α r : ℝ} (hr : thr < r) :
    (fun x => x * coulombGaussianP x α true) =ᶠ[𝓝 r] pU (cCode α) α := by
  filter_upwards [lt_mem_nhds hr] with x hx
  have hx0 : x ≠ 0 := (thr_pos.trans hx).ne'
  rw [p_upper hx.le]
  unfold pU cCode
  field_simp

/-- **`p_correct`, radial Poisson equation**: the corrected formula solves
`(r·V)'' = −4π r ρ_p(r)` for the documented p density, for every `α > 0` and every radius
above the switch. -/
theorem p_correct (α r : ℝ) (hα : 0 < α) (hr : thr < r) :
    HasDerivAt (fun x => x * coulombGaussianPCorrected x α true) (pU1 (cCorrect α) α r) r ∧
    HasDerivAt (pU1 (cCorrect α) α) (-4 * π * r * rhoP α r) r := by
  constructor
  · exact (hasDerivAt_pU hα.le _ r).congr_of_eventuallyEq (pc_mul_eventuallyEq hr)
  · refine (hasDerivAt_pU1 _ α r).congr_deriv ?_
    rw [pU2_correct hα]; ring

/-- `p_correct`, large `r`: `r·V(r) → 1`, and `1` is the total charge of `ρ_p`. -/
theorem p_correct_far (α : ℝ) (hα : 0 < α) :
    Tendsto (fun r => r * coulombGaussianPCorrected r α true) atTop (𝓝 1) ∧
    Tendsto (fun R => ∫ s in (0:ℝ)..R, 4 * π * s ^ 2 * rhoP α s) atTop (𝓝 1) := by
  constructor
  · refine (tendsto_pU hα (cCorrect α)).congr' ?_
    filter_upwards [eventually_gt_atTop thr] with x hx
    have hx0 : x ≠ 0 := (thr_pos.trans hx).ne'
    rw [pc_upper hx.le]
    unfold pU cCorrect
    field_simp
    ring
  · have h : ∀ R, ∫ s in (0:ℝ)..R, 4 * π * s ^ 2 * rhoP α s
        = pU (cCorrect α) α R - R * pU1 (cCorrect α) α R := by
      intro R
      rw [← enclosed_charge_of_poisson (u := pU (cCorrect α) α) (u1 := pU1 (cCorrect α) α)
        (w := fun s => 4 * π * s * rhoP α s)
        (hasDerivAt_pU hα.le _) ?_ (by unfold rhoP; fun_prop) (by simp [pU]) R]
      · congr 1; funext s; ring
      · intro x
        refine (hasDerivAt_pU1 _ α x).congr_deriv ?_
        rw [pU2_correct hα]
    have := (tendsto_pU hα (cCorrect α)).sub (tendsto_mul_pU1 hα (cCorrect α))
    simp only [sub_zero] at this
    exact this.congr (fun R => (h R).symm)

/-- `p_correct`, small `r`: the branch value `(4/3)·√α/√π` is the limit of the closed form as
`r ↓ 0`; the jump across the switch is at most `(4/(3√π))·α^{3/2}·r'²`. -/
theorem p_correct_origin (α : ℝ) (hα : 0 < α) :
    (∀ r, r < thr → coulombGaussianPCorrected r α true = 4 / 3 * (Real.sqrt α / Real.sqrt π)) ∧
    Tendsto (fun r => realErf (Real.sqrt α * r) / r - 2 / 3 * (Real.sqrt α / Real.sqrt π) * Real.exp (-α * r ^ 2))
      (𝓝[>] 0) (𝓝 (4 / 3 * (Real.sqrt α / Real.sqrt π))) ∧
    (∀ r r', r < thr → thr ≤ r' →
      |coulombGaussianPCorrected r' α true - coulombGaussianPCorrected r α true|
        ≤ 4 / (3 * Real.sqrt π) * (α * Real.sqrt α) * r' ^ 2) := by
  refine ⟨fun r hr => pc_lower hr, ?_, ?_⟩
  · have := tendsto_pUpper hα.le (cCorrect α)
    have e : 2 * Real.sqrt α / Real.sqrt π + cCorrect α = 4 / 3 * (Real.sqrt α / Real.sqrt π) := by
      unfold cCorrect; ring
    rw [e] at this
    refine this.congr (fun r => ?_)
    unfold cCorrect; ring
  · intro r r' hr hr'
    have hr0 : 0 < r' := thr_pos.trans_le hr'
    rw [pc_lower hr, pc_upper hr']
    obtain ⟨h1, h2⟩ := erf_scaled_div_bounds hα.le hr0
    have hs := Real.sqrt_nonneg α
    have hp := sqrt_pi_pos
    have hk : 0 ≤ Real.sqrt α / Real.sqrt π := by positivity
    -- 0 ≤ 1 − e^{-x} ≤ x
    have he1 : Real.exp (-α * r' ^ 2) ≤ 1 := Real.exp_le_one_iff.mpr (by nlinarith [sq_nonneg r'])
    have he2 : 1 - α * r' ^ 2 ≤ Real.exp (-α * r' ^ 2) := by
      have := Real.add_one_le_exp (-α * r' ^ 2); linarith
    have hA : 2 / 3 * (Real.sqrt α / Real.sqrt π) * (1 - Real.exp (-α * r' ^ 2))
        ≤ 2 / (3 * Real.sqrt π) * (α * Real.sqrt α) * r' ^ 2 := by
      calc 2 / 3 * (Real.sqrt α / Real.sqrt π) * (1 - Real.exp (-α * r' ^ 2))
          ≤ 2 / 3 * (Real.sqrt α / Real.sqrt π) * (α * r' ^ 2) := by
            apply mul_le_mul_of_nonneg_left _ (by positivity); linarith
        _ = _ := by field_simp
    have hB : 0 ≤ 2 / 3 * (Real.sqrt α / Real.sqrt π) * (1 - Real.exp (-α * r' ^ 2)) :=
      mul_nonneg (by positivity) (by linarith)
    have key : realErf (Real.sqrt α * r') / r' - 2 / 3 * (Real.sqrt α / Real.sqrt π) * Real.exp (-α * r' ^ 2)
          - 4 / 3 * (Real.sqrt α / Real.sqrt π)
        = -(2 * Real.sqrt α / Real.sqrt π - realErf (Real.sqrt α * r') / r')
          + 2 / 3 * (Real.sqrt α / Real.sqrt π) * (1 - Real.exp (-α * r' ^ 2)) := by ring
    have hsplit : 4 / (3 * Real.sqrt π) * (α * Real.sqrt α) * r' ^ 2
        = 2 * (2 / (3 * Real.sqrt π) * (α * Real.sqrt α) * r' ^ 2) := by ring
    rw [key, hsplit]
    generalize 2 * Real.sqrt α / Real.sqrt π - realErf (Real.sqrt α * r') / r' = a at h1 h2 ⊢
    generalize 2 / 3 * (Real.sqrt α / Real.sqrt π) * (1 - Real.exp (-α * r' ^ 2)) = b at hA hB ⊢
    generalize 2 / (3 * Real.sqrt π) * (α * Real.sqrt α) * r' ^ 2 = B at h2 hA ⊢
    rw [abs_le]
    constructor <;> linarith

/-- **`p_correct`, Coulomb integral**: for every `r > 0` the corrected closed form *is*
`(1/r)·∫₀^r 4π s² ρ_p ds + ∫_r^∞ 4π s ρ_p ds`, and its branch value is `∫₀^∞ 4π s ρ_p ds`. -/
theorem p_correct_is_coulomb_integral (α : ℝ) (hα : 0 < α) :
    (∀ r, 0 < r →
      realErf (Real.sqrt α * r) / r - 2 / 3 * (Real.sqrt α / Real.sqrt π) * Real.exp (-α * r ^ 2)
        = (1 / r) * (∫ s in (0:ℝ)..r, 4 * π * s ^ 2 * rhoP α s) + ∫ s in Set.Ioi r, 4 * π * s * rhoP α s) ∧
    coulombGaussianPCorrected 0 α true = ∫ s in Set.Ioi (0:ℝ), 4 * π * s * rhoP α s := by
  have hd2 : ∀ x, HasDerivAt (pU1 (cCorrect α) α) (-(fun s => 4 * π * s * rhoP α s) x) x := fun x => by
    refine (hasDerivAt_pU1 _ α x).congr_deriv ?_
    rw [pU2_correct hα]
  have hpos : ∀ x, 0 ≤ x → 0 ≤ (fun s => 4 * π * s * rhoP α s) x := fun x hx => by
    unfold rhoP; positivity
  constructor
  · intro r hr
    have h := coulomb_integral_of_poisson (u := pU (cCorrect α) α) (u1 := pU1 (cCorrect α) α)
      (w := fun s => 4 * π * s * rhoP α s)
      (hasDerivAt_pU hα.le _) hd2 (by unfold rhoP; fun_prop) hpos
      (by simp [pU]) (tendsto_pU1 hα _) hr
    have e : pU (cCorrect α) α r / r
        = realErf (Real.sqrt α * r) / r - 2 / 3 * (Real.sqrt α / Real.sqrt π) * Real.exp (-α * r ^ 2) := by
      unfold pU cCorrect; field_simp; ring
    rw [← e, h]
    congr 2
    congr 1; funext s; ring
  · rw [pc_lower thr_pos, origin_integral_of_poisson hd2 hpos (tendsto_pU1 hα _)]
    simp [pU1, cCorrect]; ring

/-! ### the code as it is -/

/-- The code's p function: what *does* hold — internal consistency (its branch value is the
limit of its own closed form) and the large-`r` behaviour. -/
theorem p_code_consistent (α : ℝ) (hα : 0 < α) :
    Tendsto (fun r => realErf (Real.sqrt α * r) / r + 4 / 3 * (Real.sqrt α / Real.sqrt π) * Real.exp (-α * r ^ 2))
      (𝓝[>] 0) (𝓝 (10 / 3 * (Real.sqrt α / Real.sqrt π))) ∧
    Tendsto (fun r => r * coulombGaussianP r α true) atTop (𝓝 1) := by
  constructor
  · have := tendsto_pUpper hα.le (cCode α)
    have e : 2 * Real.sqrt α / Real.sqrt π + cCode α = 10 / 3 * (Real.sqrt α / Real.sqrt π) := by
      unfold cCode; ring
    rw [e] at this
    exact this
  · refine (tendsto_pU hα (cCode α)).congr' ?_
    filter_upwards [eventually_gt_atTop thr] with x hx
    have hx0 : x ≠ 0 := (thr_pos.trans hx).ne'
    rw [p_upper hx.le]
    unfold pU cCode
    field_simp

/-- The difference between the code and the potential of the documented density, everywhere:
`2·√α/√π·e^{-αr²}` at and above the switch, `2·√α/√π` below it. -/
theorem p_code_minus_correct (α r : ℝ) :
    coulombGaussianP r α true - coulombGaussianPCorrected r α true
      = if r < thr then 2 * (Real.sqrt α / Real.sqrt π)
        else 2 * (Real.sqrt α / Real.sqrt π) * Real.exp (-α * r ^ 2) := by
  by_cases h : r < thr
  · rw [if_pos h, p_lower h, pc_lower h]; ring
  · rw [if_neg h, p_upper (not_lt.mp h), pc_upper (not_lt.mp h)]; ring

theorem one_gt_thr : thr < 1 := by
  simp only [thr, rZeroThreshold, Nat.cast_ofNat, Nat.cast_one]; norm_num

/-- **`p_code_ne_correct`** (the property fails for the code as it is; witnesses `α = 1`,
`r = 0` and `r = 1`): the value returned by `coulomb_gaussian_p` differs from the Coulomb
integral of the documented p density — at the nucleus `10/(3√π)` instead of
`∫₀^∞ 4π s ρ_p ds = 4/(3√π)` (ratio 2.5), at `r = 1` by `2e⁻¹/√π`. -/
theorem p_code_ne_correct :
    coulombGaussianP 0 1 true ≠ ∫ s in Set.Ioi (0:ℝ), 4 * π * s * rhoP 1 s ∧
    coulombGaussianP 0 1 true = 5 / 2 * ∫ s in Set.Ioi (0:ℝ), 4 * π * s * rhoP 1 s ∧
    coulombGaussianP 1 1 true ≠
      (1 / 1) * (∫ s in (0:ℝ)..1, 4 * π * s ^ 2 * rhoP 1 s) + ∫ s in Set.Ioi (1:ℝ), 4 * π * s * rhoP 1 s := by
  have hI := (p_correct_is_coulomb_integral 1 one_pos)
  have hp := sqrt_pi_pos
  rw [← hI.2, ← hI.1 1 one_pos, pc_lower thr_pos, p_lower thr_pos, p_upper one_gt_thr.le]
  simp only [Real.sqrt_one]
  refine ⟨?_, by ring, ?_⟩
  · intro h
    have hq : 0 < 1 / Real.sqrt π := by positivity
    nlinarith
  · intro h
    have he := Real.exp_pos (-1 * 1 ^ 2)
    have : 4 / 3 * (1 / Real.sqrt π) * Real.exp (-1 * 1 ^ 2) = -(2 / 3 * (1 / Real.sqrt π) * Real.exp (-1 * 1 ^ 2)) := by
      linarith
    have hpos : 0 < 1 / Real.sqrt π * Real.exp (-1 * 1 ^ 2) := by positivity
    nlinarith

/-- **The code does not solve the radial Poisson equation of the documented p density**
(witness `α = 1`, `r = 1`): there is no derivative function `u'` of `r·V_code` near 1 whose
derivative at 1 is `−4π·1·ρ_p(1)`.  (The actual value is `−(20/3)·e⁻¹/√π`, the required one
`−(8/3)·e⁻¹/√π`.) -/
theorem p_code_fails_poisson :
    ¬ ∃ u' : ℝ → ℝ, (∀ᶠ x in 𝓝 (1:ℝ), HasDerivAt (fun x => x * coulombGaussianP x 1 true) (u' x) x) ∧
      HasDerivAt u' (-4 * π * 1 * rhoP 1 1) 1 := by
  rintro ⟨u', h1, h2⟩
  -- near 1, r·V_code = pU cCode, so u' = pU1 cCode near 1
  have hev : u' =ᶠ[𝓝 1] pU1 (cCode 1) 1 := by
    have hnear : ∀ᶠ x in 𝓝 (1:ℝ), thr < x := lt_mem_nhds one_gt_thr
    filter_upwards [h1, hnear] with x hx hxt
    have := (hasDerivAt_pU (zero_le_one) (cCode 1) x).congr_of_eventuallyEq (p_mul_eventuallyEq hxt)
    exact hx.unique this
  have h3 := h2.congr_of_eventuallyEq hev.symm
  have h4 := h3.unique (hasDerivAt_pU1 (cCode 1) 1 1)
  have hc := pU2_correct one_pos 1
  -- pU2 is affine in c: pU2 cCode − pU2 cCorrect = (−6α + 4α² r²)(cCode − cCorrect) r e^{-αr²}
  have hdiff : pU2 (cCode 1) 1 1 - pU2 (cCorrect 1) 1 1
      = -2 * (cCode 1 - cCorrect 1) * Real.exp (-1 * 1 ^ 2) := by
    unfold pU2; ring
  have hcc : cCode 1 - cCorrect 1 = 2 * (1 / Real.sqrt π) := by
    unfold cCode cCorrect; simp only [Real.sqrt_one]; ring
  have hp := sqrt_pi_pos
  have hpos : 0 < (1 / Real.sqrt π) * Real.exp (-1 * 1 ^ 2) := by positivity
  rw [hcc] at hdiff
  nlinarith

/-- **Unnormalised variants** (clause "differing by the documented constant factor"): code and
documented density both carry the factor `(3/2)·π^{3/2}/α^{5/2}`. -/
theorem p_unnormalised_factor (α r : ℝ) (hα : 0 < α) :
    coulombGaussianP r α false
      = 3 / 2 * π ^ ((3:ℝ) / 2) / α ^ ((5:ℝ) / 2) * coulombGaussianP r α true ∧
    coulombGaussianPCorrected r α false
      = 3 / 2 * π ^ ((3:ℝ) / 2) / α ^ ((5:ℝ) / 2) * coulombGaussianPCorrected r α true ∧
    rhoPUnnorm α r = 3 / 2 * π ^ ((3:ℝ) / 2) / α ^ ((5:ℝ) / 2) * rhoP α r := by
  refine ⟨?_, ?_, ?_⟩
  · simp only [coulombGaussianP, Elem.sqrt, Elem.erf, Elem.pi, Elem.exp, Elem.rpow,
      Nat.cast_ofNat, Nat.cast_zero, npow_eq_pow, if_true, Bool.false_eq_true, if_false]
  · simp only [coulombGaussianPCorrected, Elem.sqrt, Elem.erf, Elem.pi, Elem.exp, Elem.rpow,
      Nat.cast_ofNat, npow_eq_pow, if_true, Bool.false_eq_true, if_false]
  · unfold rhoPUnnorm rhoP
    have h1 : (0:ℝ) < π ^ ((3:ℝ) / 2) := Real.rpow_pos_of_pos Real.pi_pos _
    have h2 : (0:ℝ) < α ^ ((5:ℝ) / 2) := Real.rpow_pos_of_pos hα _
    field_simp

/-- Non-vacuity: `α = 1`, `r = 1` satisfy the hypotheses of `p_correct`. -/
example : HasDerivAt (pU1 (cCorrect 1) 1) (-4 * π * 1 * rhoP 1 1) 1 :=
  (p_correct 1 1 one_pos one_gt_thr).2

end GridVerif.C17

/-
  C17 — s-type Gaussian: the generated `coulomb_gaussian_s` is the electrostatic potential
  of the documented density, for every exponent `α > 0` and every radius.
-/
import GridVerif.Props.C17.Basic

namespace GridVerif.C17
open GridVerif GridVerif.Gen.Coulomb GridVerif.Coulomb Real Filter Topology MeasureTheory

/-! #### the generated function at `ℝ`, branch by branch -/

theorem s_lower {r α : ℝ} (hr : r < thr) :
    coulombGaussianS r α true = 2 * Real.sqrt α / Real.sqrt π := by
  simp only [coulombGaussianS, uninit, Elem.sqrt, Elem.erf, Elem.pi,
    Nat.cast_ofNat, Nat.cast_zero, if_true]
  rw [if_pos hr]

theorem s_upper {r α : ℝ} (hr : thr ≤ r) :
    coulombGaussianS r α true = realErf (Real.sqrt α * r) / r := by
  simp only [coulombGaussianS, uninit, Elem.sqrt, Elem.erf, Elem.pi,
    Nat.cast_ofNat, Nat.cast_zero, if_true]
  rw [if_neg (not_lt.mpr hr), if_pos hr]

/-- first derivative of `r·V_s(r) = erf(√α r)`. -/
noncomputable def sU1 (α x : ℝ) : ℝ := 2 * Real.sqrt α / Real.sqrt π * Real.exp (-α * x ^ 2)

theorem sU1_eq (α : ℝ) : sU1 α = pU1 0 α := by
  funext x; simp [sU1, pU1]

theorem pU_zero (α x : ℝ) : pU 0 α x = realErf (Real.sqrt α * x) := by simp [pU]

theorem pU2_zero {α : ℝ} (hα : 0 < α) (r : ℝ) : pU2 0 α r = -(4 * π * r * rhoS α r) := by
  unfold pU2 rhoS
  have := four_pi_rhoS_coeff hα
  calc _ = -(4 * α * Real.sqrt α / Real.sqrt π) * r * Real.exp (-α * r ^ 2) := by ring
    _ = -(4 * π * (α / π) ^ ((3:ℝ) / 2)) * r * Real.exp (-α * r ^ 2) := by rw [this]
    _ = _ := by ring

/-- `r·V_s(r)` is `erf(√α r)` near every `r` above the switch. -/
theorem s_mul_eventuallyEq {α r : ℝ} (hr : thr < r) :
    (fun x => x * coulombGaussianS x α true) =ᶠ[𝓝 r] pU 0 α := by
  filter_upwards [lt_mem_nhds hr] with x hx
  have hx0 : x ≠ 0 := (thr_pos.trans hx).ne'
  rw [s_upper hx.le, pU_zero]
  field_simp

/-- **Radial Poisson equation** (clause "return the electrostatic potential of exactly the
density they document"): for every `α > 0` and every radius above the small-`r` switch,
`(r·V_s)' = u'` and `(u')' = −4π r ρ_s(r)` with `ρ_s = (α/π)^{3/2} e^{-αr²}`.
(`r` ranges over all radii above the switch, so the first part says that `sU1 α` *is* the
derivative of `r·V_s` there.) -/
theorem s_solves_poisson (α r : ℝ) (hα : 0 < α) (hr : thr < r) :
    HasDerivAt (fun x => x * coulombGaussianS x α true) (sU1 α r) r ∧
    HasDerivAt (sU1 α) (-4 * π * r * rhoS α r) r := by
  have hev : (fun x => x * coulombGaussianS x α true) =ᶠ[𝓝 r] pU 0 α := by
    filter_upwards [lt_mem_nhds hr] with x hx
    have hx0 : x ≠ 0 := (thr_pos.trans hx).ne'
    -- directly from the generated text
    simp only [coulombGaussianS, uninit, Elem.sqrt, Elem.erf, Elem.pi,
      Nat.cast_ofNat, Nat.cast_zero, if_true]
    rw [if_neg (not_lt.mpr hx.le), if_pos hx.le, pU_zero]
    field_simp
  constructor
  · rw [sU1_eq]
    exact (hasDerivAt_pU hα.le 0 r).congr_of_eventuallyEq hev
  · rw [sU1_eq]
    refine (hasDerivAt_pU1 0 α r).congr_deriv ?_
    rw [pU2_zero hα]; ring

example : HasDerivAt (sU1 2) (-4 * π * 1 * rhoS 2 1) 1 :=
  (s_solves_poisson 2 1 (by norm_num) (by
    simp only [thr, rZeroThreshold, Nat.cast_ofNat, Nat.cast_one]; norm_num)).2

/-- **Large `r`** (clause "tend to total charge over r"): `r·V_s(r) → 1`. -/
theorem s_far (α : ℝ) (hα : 0 < α) :
    Tendsto (fun r => r * coulombGaussianS r α true) atTop (𝓝 1) := by
  refine (tendsto_pU hα 0).congr' ?_
  filter_upwards [eventually_gt_atTop thr] with x hx
  have hx0 : x ≠ 0 := (thr_pos.trans hx).ne'
  rw [s_upper hx.le, pU_zero]
  field_simp

/-- … and `1` is the total charge of the documented density:
`∫₀^R 4π s² ρ_s(s) ds → 1`. -/
theorem s_total_charge (α : ℝ) (hα : 0 < α) :
    Tendsto (fun R => ∫ s in (0:ℝ)..R, 4 * π * s ^ 2 * rhoS α s) atTop (𝓝 1) := by
  have h : ∀ R, ∫ s in (0:ℝ)..R, 4 * π * s ^ 2 * rhoS α s = pU 0 α R - R * pU1 0 α R := by
    intro R
    rw [← enclosed_charge_of_poisson (u := pU 0 α) (u1 := pU1 0 α) (w := fun s => 4 * π * s * rhoS α s)
      (hasDerivAt_pU hα.le 0) ?_ (by unfold rhoS; fun_prop) (by simp [pU]) R]
    · congr 1; funext s; ring
    · intro x
      refine (hasDerivAt_pU1 0 α x).congr_deriv ?_
      rw [pU2_zero hα]
  have := (tendsto_pU hα 0).sub (tendsto_mul_pU1 hα 0)
  simp only [sub_zero] at this
  exact this.congr (fun R => (h R).symm)

/-- **Small `r`** (clause "continuous across the small-r switch"), for every `α > 0`:
1. below the switch the code returns the constant `2√α/√π`;
2. that constant is the limit of the closed form `erf(√α r)/r` as `r ↓ 0`;
3. quantitatively, the closed form is within `(2/(3√π))·α^{3/2}·r²` of it, for every `r > 0`;
4. hence the jump of `V_s` between any radius below the switch and any radius `r'` at or
   above it is at most `(2/(3√π))·α^{3/2}·r'²` (`≈ 4·10⁻²⁵ α^{3/2}` at the switch). -/
theorem s_origin (α : ℝ) (hα : 0 < α) :
    (∀ r, r < thr → coulombGaussianS r α true = 2 * Real.sqrt α / Real.sqrt π) ∧
    Tendsto (fun r => realErf (Real.sqrt α * r) / r) (𝓝[>] 0) (𝓝 (2 * Real.sqrt α / Real.sqrt π)) ∧
    (∀ r, 0 < r → |realErf (Real.sqrt α * r) / r - 2 * Real.sqrt α / Real.sqrt π|
        ≤ 2 / (3 * Real.sqrt π) * (α * Real.sqrt α) * r ^ 2) ∧
    (∀ r r', r < thr → thr ≤ r' →
      |coulombGaussianS r' α true - coulombGaussianS r α true|
        ≤ 2 / (3 * Real.sqrt π) * (α * Real.sqrt α) * r' ^ 2) := by
  have h3 : ∀ r, 0 < r → |realErf (Real.sqrt α * r) / r - 2 * Real.sqrt α / Real.sqrt π|
        ≤ 2 / (3 * Real.sqrt π) * (α * Real.sqrt α) * r ^ 2 := by
    intro r hr
    obtain ⟨h1, h2⟩ := erf_scaled_div_bounds hα.le hr
    rw [abs_sub_comm, abs_of_nonneg h1]
    exact h2
  refine ⟨fun r hr => ?_, tendsto_erf_scaled_div hα.le, h3, ?_⟩
  · -- directly from the generated text
    simp only [coulombGaussianS, uninit, Elem.sqrt, Elem.erf, Elem.pi,
      Nat.cast_ofNat, Nat.cast_zero, if_true]
    rw [if_pos hr]
  intro r r' hr hr'
  rw [s_lower hr, s_upper hr']
  exact h3 r' (thr_pos.trans_le hr')

/-- **The switch is below double-precision rounding** for every exponent up to `10⁸`: the jump of
`V_s` at the threshold is at most `2⁻⁵³` (half an ulp) relative to the value at the nucleus.
(This pins the generated threshold constant: it fails for a threshold above `≈ 1.8·10⁻¹²`.) -/
theorem s_switch_below_rounding (α : ℝ) (hα : 0 < α) (hα' : α ≤ 10 ^ 8) :
    |coulombGaussianS thr α true - coulombGaussianS 0 α true|
      ≤ (2:ℝ)⁻¹ ^ 53 * coulombGaussianS 0 α true := by
  have h := (s_origin α hα).2.2.2 0 thr thr_pos le_rfl
  refine h.trans ?_
  rw [s_lower thr_pos]
  have hp := sqrt_pi_pos
  have hs := Real.sqrt_nonneg α
  have e : 2 / (3 * Real.sqrt π) * (α * Real.sqrt α) * thr ^ 2
      = (α * thr ^ 2 / 3) * (2 * Real.sqrt α / Real.sqrt π) := by field_simp
  rw [e]
  apply mul_le_mul_of_nonneg_right _ (by positivity)
  have ht : thr ^ 2 ≤ (1.8e-12 : ℝ) ^ 2 := by
    apply pow_le_pow_left₀ thr_pos.le
    simp only [thr, rZeroThreshold, Nat.cast_ofNat, Nat.cast_one]; norm_num
  have : α * thr ^ 2 ≤ 10 ^ 8 * (1.8e-12 : ℝ) ^ 2 := mul_le_mul hα' ht (by positivity) (by positivity)
  refine (div_le_div_of_nonneg_right this (by norm_num)).trans ?_
  norm_num

/-- The code is the closed form `erf(√α r)/r` for every radius at or above the switch, and
within `(2/(3√π))·α^{3/2}·r²` of it for `0 < r` below the switch (there the closed form would
lose all digits to `0/0`-type cancellation; this is the rounding-level price of the switch). -/
theorem s_code_vs_closed_form (α : ℝ) (hα : 0 < α) (r : ℝ) (hr : 0 < r) :
    |coulombGaussianS r α true - realErf (Real.sqrt α * r) / r|
      ≤ if r < thr then 2 / (3 * Real.sqrt π) * (α * Real.sqrt α) * r ^ 2 else 0 := by
  by_cases h : r < thr
  · rw [if_pos h, s_lower h, abs_sub_comm]
    exact (s_origin α hα).2.2.1 r hr
  · rw [if_neg h, s_upper (not_lt.mp h)]; simp

/-- **The closed form is the Coulomb integral of the documented density**: for every `r > 0`
`erf(√α r)/r = (1/r)·∫₀^r 4π s² ρ_s(s) ds + ∫_r^∞ 4π s ρ_s(s) ds`
(charge inside the sphere seen from its centre plus the shells outside). -/
theorem s_closed_form_is_coulomb_integral (α : ℝ) (hα : 0 < α) (r : ℝ) (hr : 0 < r) :
    realErf (Real.sqrt α * r) / r
      = (1 / r) * (∫ s in (0:ℝ)..r, 4 * π * s ^ 2 * rhoS α s) + ∫ s in Set.Ioi r, 4 * π * s * rhoS α s := by
  have h := coulomb_integral_of_poisson (u := pU 0 α) (u1 := pU1 0 α) (w := fun s => 4 * π * s * rhoS α s)
    (hasDerivAt_pU hα.le 0)
    (fun x => by
      refine (hasDerivAt_pU1 0 α x).congr_deriv ?_
      rw [pU2_zero hα])
    (by unfold rhoS; fun_prop)
    (fun x hx => by unfold rhoS; positivity)
    (by simp [pU]) (tendsto_pU1 hα 0) hr
  rw [pU_zero] at h
  rw [h]
  congr 2
  congr 1; funext s; ring

/-- The value returned at the nucleus is the Coulomb integral at `r = 0`:
`V_s(0) = ∫₀^∞ 4π s ρ_s(s) ds`. -/
theorem s_origin_is_coulomb_integral (α : ℝ) (hα : 0 < α) :
    coulombGaussianS 0 α true = ∫ s in Set.Ioi (0:ℝ), 4 * π * s * rhoS α s := by
  rw [s_lower thr_pos]
  rw [origin_integral_of_poisson (u1 := pU1 0 α) (w := fun s => 4 * π * s * rhoS α s)
    (fun x => by
      refine (hasDerivAt_pU1 0 α x).congr_deriv ?_
      rw [pU2_zero hα])
    (fun x hx => by unfold rhoS; positivity) (tendsto_pU1 hα 0)]
  simp [pU1]

/-- **Unnormalised variant** (clause "differing by the documented constant factor"): the
potential and the density are both `(π/α)^{3/2}` times the normalised ones, so by linearity
every statement above carries over. -/
theorem s_unnormalised_factor (α r : ℝ) (hα : 0 < α) :
    coulombGaussianS r α false = (π / α) ^ ((3:ℝ) / 2) * coulombGaussianS r α true ∧
    rhoSUnnorm α r = (π / α) ^ ((3:ℝ) / 2) * rhoS α r := by
  constructor
  · simp only [coulombGaussianS, uninit, Elem.sqrt, Elem.erf, Elem.pi, Elem.rpow,
      Nat.cast_ofNat, Nat.cast_zero, if_true, Bool.false_eq_true, if_false]
  · unfold rhoSUnnorm rhoS
    rw [← mul_assoc, ← Real.mul_rpow (div_pos Real.pi_pos hα).le (div_pos hα Real.pi_pos).le]
    have : π / α * (α / π) = 1 := by
      have := Real.pi_pos.ne'; have := hα.ne'; field_simp
    rw [this, Real.one_rpow, one_mul]

/-- the unnormalised potential solves the radial Poisson equation of the unnormalised density. -/
theorem s_unnormalised_solves_poisson (α r : ℝ) (hα : 0 < α) (hr : thr < r) :
    HasDerivAt (fun x => x * coulombGaussianS x α false) ((π / α) ^ ((3:ℝ) / 2) * sU1 α r) r ∧
    HasDerivAt (fun x => (π / α) ^ ((3:ℝ) / 2) * sU1 α x) (-4 * π * r * rhoSUnnorm α r) r := by
  obtain ⟨h1, h2⟩ := s_solves_poisson α r hα hr
  constructor
  · have := h1.const_mul ((π / α) ^ ((3:ℝ) / 2))
    refine this.congr_of_eventuallyEq (Eventually.of_forall fun x => ?_)
    simp only [(s_unnormalised_factor α x hα).1]; ring
  · have := h2.const_mul ((π / α) ^ ((3:ℝ) / 2))
    refine this.congr_deriv ?_
    rw [(s_unnormalised_factor α r hα).2]; ring

/-- Non-vacuity of the hypotheses (`α = 2`, `r = 1`, `r' = 1`, `r = 0`). -/
example : (0:ℝ) < 2 ∧ thr < 1 ∧ (0:ℝ) < thr := by
  refine ⟨by norm_num, ?_, thr_pos⟩
  simp only [thr, rZeroThreshold, Nat.cast_ofNat, Nat.cast_one]; norm_num

end GridVerif.C17

/-
  C17 — round 6: the GENERATED `coulomb_potential` is linear in the coefficients and additive over the
  list of functions: *every* function contributes `c_k · V_k`, however small `c_k` is.  (Stored seeded
  change C17-i: `if np.isclose(c, 0.0): continue` drops every function with `|c| ≤ 1e-8` — the
  regenerated loop body is no longer the accumulation step `step_spec` describes, the bridge
  `potential_gen_eq_model` and with it these clauses stop being provable.)

  * `potential_homogeneous`          all coefficients multiplied by `k` (any real, e.g. `1e-300`): the outcome is the
                                     original one with every value multiplied by `k` (same `ValueError` otherwise)
  * `potential_additive_split`       the s functions split into two lists: the value at every point is the sum of the
                                     values of the two parts
  * `potential_no_coefficient_skipped`  one s function with coefficient `c ≠ 0` (however small), seen from its own
                                     centre: the value is `c · 2√α/√π ≠ 0`
-/
import GridVerif.Props.C17.Translate

set_option linter.unusedSectionVars false
set_option linter.unusedSimpArgs false
set_option linter.unusedVariables false

namespace GridVerif.C17
open GridVerif GridVerif.Gen.Coulomb GridVerif.Coulomb GridVerif.Coulomb.NdArg GridVerif.Gen.CoulombPotential

/-- the same Gaussian with its coefficient multiplied by `k`. -/
def scaleG (k : ℝ) (g : Gauss ℝ) : Gauss ℝ := ⟨g.center, k * g.coeff, g.alpha⟩

/-- every value of an array multiplied by `k` (shape kept). -/
def scaleNd (k : ℝ) (v : NdArg ℝ) : NdArg ℝ := ⟨v.shape, v.data.map fun y => k * y⟩

theorem centersOf_scale (k : ℝ) (gs : List (Gauss ℝ)) : centersOf (gs.map (scaleG k)) = centersOf gs := by
  simp [centersOf, List.map_map, Function.comp_def, scaleG]

theorem alphasOf_scale (k : ℝ) (gs : List (Gauss ℝ)) : alphasOf (gs.map (scaleG k)) = alphasOf gs := by
  simp [alphasOf, List.map_map, Function.comp_def, scaleG]

theorem sum_map_mul_left (k : ℝ) (l : List (Gauss ℝ)) (f : Gauss ℝ → ℝ) :
    (l.map fun g => k * g.coeff * f g).sum = k * (l.map fun g => g.coeff * f g).sum := by
  induction l with
  | nil => simp
  | cons a l ih => simp only [List.map_cons, List.sum_cons, ih]; ring

/-- **Linear in the coefficients** (clause "the coefficient-weighted sum … over all s and p functions"): multiplying
every s and p coefficient by the same real `k` — `10⁻³⁰⁰` as well as `10³⁰⁰` — multiplies every value of the result
by `k`; the call is rejected for the same sets (an exponent `≤ 0`).  No function is dropped because its coefficient is
small. -/
theorem potential_homogeneous (normalized : Bool) (k : ℝ) (points : List (P3 ℝ)) (ss : List (Gauss ℝ))
    (ps : Option (List (Gauss ℝ))) :
    coulomb_potential (ofMat3 points) (centersOf (ss.map (scaleG k))) (coeffsOf (ss.map (scaleG k)))
        (alphasOf (ss.map (scaleG k))) ((ps.map (List.map (scaleG k))).map centersOf)
        ((ps.map (List.map (scaleG k))).map coeffsOf) ((ps.map (List.map (scaleG k))).map alphasOf) normalized
      = (coulomb_potential (ofMat3 points) (centersOf ss) (coeffsOf ss) (alphasOf ss)
          (ps.map centersOf) (ps.map coeffsOf) (ps.map alphasOf) normalized).map (scaleNd k) := by
  rw [multi_centre_is_sum_gen, multi_centre_is_sum_gen]
  have hp : (ps.map (List.map (scaleG k))).getD [] = (ps.getD []).map (scaleG k) := by cases ps <;> simp
  have hc : (∃ g ∈ ss.map (scaleG k) ++ (ps.map (List.map (scaleG k))).getD [], g.alpha ≤ 0)
      ↔ ∃ g ∈ ss ++ ps.getD [], g.alpha ≤ 0 := by
    rw [hp, ← List.map_append]
    constructor
    · rintro ⟨g, hg, h⟩
      obtain ⟨g', hg', rfl⟩ := List.mem_map.mp hg
      exact ⟨g', hg', h⟩
    · rintro ⟨g, hg, h⟩
      exact ⟨scaleG k g, List.mem_map.mpr ⟨g, hg, rfl⟩, h⟩
  by_cases h : ∃ g ∈ ss ++ ps.getD [], g.alpha ≤ 0
  · rw [if_pos (hc.mpr h), if_pos h]; rfl
  · rw [if_neg (fun h' => h (hc.mp h')), if_neg h, hp]
    simp only [Except.map, scaleNd, ofVec, List.map_map, Function.comp_def, List.length_map, scaleG]
    congr 2
    apply List.map_congr_left
    intro x _
    rw [sum_map_mul_left k ss (fun g => coulombGaussianS (dist3 x g.center) g.alpha normalized),
      sum_map_mul_left k (ps.getD []) (fun g => coulombGaussianP (dist3 x g.center) g.alpha normalized)]
    ring

/-- contribution of a list of s functions at one point. -/
noncomputable def sContribution (normalized : Bool) (ss : List (Gauss ℝ)) (x : P3 ℝ) : ℝ :=
  (ss.map fun (g : Gauss ℝ) => g.coeff * coulombGaussianS (dist3 x g.center) g.alpha normalized).sum

/-- **Additive over a split of the functions**: with the s functions given as two lists one after the other (positive
exponents), the value at every point is the sum of what the two parts give on their own — each function is counted
once, none is lost, whatever its coefficient, and the accumulation does not carry anything from one function to the next. -/
theorem potential_additive_split (normalized : Bool) (points : List (P3 ℝ)) (ss₁ ss₂ : List (Gauss ℝ))
    (hα : ∀ g ∈ ss₁ ++ ss₂, 0 < g.alpha) :
    coulomb_potential (ofMat3 points) (centersOf ss₁) (coeffsOf ss₁) (alphasOf ss₁) none none none normalized
      = .ok (ofVec (points.map (sContribution normalized ss₁))) ∧
    coulomb_potential (ofMat3 points) (centersOf ss₂) (coeffsOf ss₂) (alphasOf ss₂) none none none normalized
      = .ok (ofVec (points.map (sContribution normalized ss₂))) ∧
    coulomb_potential (ofMat3 points) (centersOf (ss₁ ++ ss₂)) (coeffsOf (ss₁ ++ ss₂)) (alphasOf (ss₁ ++ ss₂))
        none none none normalized
      = .ok (ofVec (points.map fun x => sContribution normalized ss₁ x + sContribution normalized ss₂ x)) := by
  have no : ∀ l : List (Gauss ℝ), (∀ g ∈ l, g ∈ ss₁ ++ ss₂) → ¬ ∃ g ∈ l, g.alpha ≤ 0 := by
    rintro l hl ⟨g, hg, h⟩
    exact absurd (hα g (hl g hg)) (not_lt.mpr h)
  refine ⟨?_, ?_, ?_⟩
  · rw [multi_centre_s_only, if_neg (no ss₁ fun g hg => List.mem_append_left _ hg)]; rfl
  · rw [multi_centre_s_only, if_neg (no ss₂ fun g hg => List.mem_append_right _ hg)]; rfl
  · rw [multi_centre_s_only, if_neg (no (ss₁ ++ ss₂) fun g hg => hg)]
    simp only [sContribution, List.map_append, List.sum_append]

/-- **No coefficient is skipped**: one normalised s function with a coefficient `c ≠ 0` — `10⁻⁹`, `10⁻³⁰⁰` — seen from
its own centre `R` (anywhere) gives `c · 2√α/√π`, which is not zero. -/
theorem potential_no_coefficient_skipped (R : P3 ℝ) (c α : ℝ) (hα : 0 < α) (hc : c ≠ 0) :
    ∃ v : ℝ, v ≠ 0 ∧ v = c * (2 * Real.sqrt α / Real.sqrt Real.pi) ∧
      coulomb_potential (ofMat3 [R]) (centersOf [⟨R, c, α⟩]) (coeffsOf [⟨R, c, α⟩]) (alphasOf [⟨R, c, α⟩])
        none none none true = .ok (ofVec [v]) := by
  refine ⟨c * (2 * Real.sqrt α / Real.sqrt Real.pi), ?_, rfl, potential_at_centre R c α hα⟩
  have h1 : 0 < Real.sqrt α := Real.sqrt_pos.mpr hα
  have h2 : 0 < Real.sqrt Real.pi := Real.sqrt_pos.mpr Real.pi_pos
  exact mul_ne_zero hc (div_ne_zero (mul_ne_zero two_ne_zero h1.ne') h2.ne')

/-! ### non-vacuity -/

/-- a coefficient set scaled by `10⁻³⁰⁰`: two s functions and one p function at two points. -/
example :
    let pts : List (P3 ℝ) := [(0, 0, 0), (1 / 4, 0, 1)]
    let ss : List (Gauss ℝ) := [⟨(0, 0, 0), 1 / 2, 3⟩, ⟨(1, 1, 1), 2, 4 / 5⟩]
    let ps : Option (List (Gauss ℝ)) := some [⟨(0, 0, 1), -1, 3⟩]
    let k : ℝ := 1 / 10 ^ 300
    coulomb_potential (ofMat3 pts) (centersOf (ss.map (scaleG k))) (coeffsOf (ss.map (scaleG k)))
        (alphasOf (ss.map (scaleG k))) ((ps.map (List.map (scaleG k))).map centersOf)
        ((ps.map (List.map (scaleG k))).map coeffsOf) ((ps.map (List.map (scaleG k))).map alphasOf) true
      = (coulomb_potential (ofMat3 pts) (centersOf ss) (coeffsOf ss) (alphasOf ss)
          (ps.map centersOf) (ps.map coeffsOf) (ps.map alphasOf) true).map (scaleNd k) := by
  intro pts ss ps k
  exact potential_homogeneous true k pts ss ps

/-- a function with coefficient `10⁻⁹` (below the `1e-8` of `np.isclose`) next to one with coefficient 1: the
hypotheses of the split theorem hold. -/
example : ∀ g ∈ ([⟨(0, 0, 0), 1, 3⟩] : List (Gauss ℝ)) ++ [⟨(1, 0, 0), 1 / 10 ^ 9, 2⟩], 0 < g.alpha := by
  intro g hg
  simp at hg
  rcases hg with rfl | rfl <;> norm_num

example : ((1 : ℝ) / 10 ^ 9) ≠ 0 := by norm_num

end GridVerif.C17

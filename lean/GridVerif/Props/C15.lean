/-
  C15 — ODE solvers return the solution of the stated problem under any coordinate transformation.

  Objects:
  * `Gen/Ode.lean` (regenerated from `/repo/src/grid/ode.py` on every run): `coeffB_<K>_<j>` (the rows of
    `coeff_b` computed by `_transform_ode_from_derivs`), `derivMatrix` / `derivativeTransformationMatrix` (loop nest of
    `_derivative_transformation_matrix`), `rearrangeToExplicitOde`, `transformAndRearrange`,
    `evaluateCoeffsOnPoints`, and — since round 2 — the bodies of the public functions and their callbacks:
    `ivpFunc`, `bvpFunc`, `bvpBc`, `ivpTransformSetup`, `solveOdeIvp`, `solveOdeBvp`,
    `transformSolutionToOriginalDomain` (SciPy's `solve_ivp`, `solve_bvp`, `linalg.solve` are named parameters);
  * `Model/Ode.lean` (hand-written, tied by correspondence): SymPy's `bell`, NumPy plumbing, the argument types.

  The transform is abstract: a record `T : TransformFns ℝ` of the five functions the code reads
  (`transform = g`, `inverse`, `deriv = g'`, `deriv2 = g''`, `deriv3 = g'''`) with `HasDerivAt` hypotheses on
  an open set `s` of the original variable (`Admissible`).  Nothing of C03 is imported.

  The SciPy integrators are a parameter: functions `Y₀ … Y_{K-1}` of the new variable `r` with the
  contract "solves the first-order system `func` it was given".  Their accuracy is not a theorem
  (exploration, `harness/props/c15.py`).

  Direction of the transformation as the code has it: the user's ODE is in `x`; `r = g(x)`;
  `derivs = (g', g'', g''')` are derivatives of `g` itself (not of its inverse) evaluated at
  `x = inverse(r)`; SciPy integrates in `r`.
-/
import GridVerif.Lemmas.Ode

namespace GridVerif.C15
open GridVerif GridVerif.Ode GridVerif.Gen.Ode

/-- What the code assumes of a transform on an open set `s` of the original variable:
`deriv`, `deriv2`, `deriv3` are the derivatives of `transform`, and `inverse` undoes `transform`. -/
structure Admissible (T : TransformFns ℝ) (s : Set ℝ) : Prop where
  isOpen : IsOpen s
  d1 : ∀ x ∈ s, HasDerivAt T.transform (T.deriv x) x
  d2 : ∀ x ∈ s, HasDerivAt T.deriv (T.deriv2 x) x
  d3 : ∀ x ∈ s, HasDerivAt T.deriv2 (T.deriv3 x) x
  left_inv : ∀ x ∈ s, T.inverse (T.transform x) = x

/-- The running example: `r = g(x) = eˣ` on the whole line (all of `g', g'', g'''` non-zero, nothing
cancels). -/
noncomputable def expT : TransformFns ℝ := ⟨Real.exp, Real.log, Real.exp, Real.exp, Real.exp, (-1000, 1000)⟩

theorem expT_admissible : Admissible expT Set.univ :=
  ⟨isOpen_univ, fun x _ => Real.hasDerivAt_exp x, fun x _ => Real.hasDerivAt_exp x,
    fun x _ => Real.hasDerivAt_exp x, fun x _ => Real.log_exp x⟩

/-! ## 1. Faà di Bruno up to order 3 -/

/-- **`faa_di_bruno_3`.** For `y = Y ∘ g`: the functions
`y₁ = g'·Y₁∘g`, `y₂ = g''·Y₁∘g + g'²·Y₂∘g`, `y₃ = g'''·Y₁∘g + 3g'g''·Y₂∘g + g'³·Y₃∘g`
are the successive derivatives of `y` on `s` (`Y₁, Y₂, Y₃` the successive derivatives of `Y` on `g(s)`). -/
theorem faa_di_bruno_3 {T : TransformFns ℝ} {s : Set ℝ} (hT : Admissible T s) {Y Y1 Y2 Y3 : ℝ → ℝ}
    (hY : ∀ x ∈ s, HasDerivAt Y (Y1 (T.transform x)) (T.transform x))
    (hY1 : ∀ x ∈ s, HasDerivAt Y1 (Y2 (T.transform x)) (T.transform x))
    (hY2 : ∀ x ∈ s, HasDerivAt Y2 (Y3 (T.transform x)) (T.transform x)) :
    ∀ x ∈ s,
      HasDerivAt (fun t => Y (T.transform t)) (T.deriv x * Y1 (T.transform x)) x ∧
      HasDerivAt (fun t => T.deriv t * Y1 (T.transform t))
        (T.deriv2 x * Y1 (T.transform x) + T.deriv x ^ 2 * Y2 (T.transform x)) x ∧
      HasDerivAt (fun t => T.deriv2 t * Y1 (T.transform t) + T.deriv t ^ 2 * Y2 (T.transform t))
        (T.deriv3 x * Y1 (T.transform x) + 3 * T.deriv x * T.deriv2 x * Y2 (T.transform x)
          + T.deriv x ^ 3 * Y3 (T.transform x)) x := by
  intro x hx
  exact ⟨chain_1 (hT.d1 x hx) (hY x hx), chain_2 (hT.d1 x hx) (hT.d2 x hx) (hY1 x hx),
    chain_3 (hT.d1 x hx) (hT.d2 x hx) (hT.d3 x hx) (hY1 x hx) (hY2 x hx)⟩

example : ∀ x ∈ (Set.univ : Set ℝ),
    HasDerivAt (fun t => (expT.transform t) ^ 2) (expT.deriv x * (2 * expT.transform x)) x := by
  intro x hx
  have h := (faa_di_bruno_3 expT_admissible (Y := fun r => r ^ 2) (Y1 := fun r => 2 * r) (Y2 := fun _ => 2)
    (Y3 := fun _ => 0)
    (fun x _ => by simpa using hasDerivAt_pow 2 (expT.transform x))
    (fun x _ => by simpa using (hasDerivAt_id (expT.transform x)).const_mul (2 : ℝ))
    (fun x _ => hasDerivAt_const _ _) x hx).1
  exact h

/-- If `y = Y ∘ g` on `s` and `y₁, y₂, y₃` are the successive derivatives of `y` on `s`, they are given by
the Faà di Bruno expressions (uniqueness of derivatives on an open set). -/
theorem derivs_of_comp {T : TransformFns ℝ} {s : Set ℝ} (hT : Admissible T s) {Y Y1 Y2 Y3 y y1 y2 y3 : ℝ → ℝ}
    (hY : ∀ x ∈ s, HasDerivAt Y (Y1 (T.transform x)) (T.transform x))
    (hY1 : ∀ x ∈ s, HasDerivAt Y1 (Y2 (T.transform x)) (T.transform x))
    (hY2 : ∀ x ∈ s, HasDerivAt Y2 (Y3 (T.transform x)) (T.transform x))
    (hy : ∀ x ∈ s, HasDerivAt y (y1 x) x) (hy1 : ∀ x ∈ s, HasDerivAt y1 (y2 x) x)
    (hy2 : ∀ x ∈ s, HasDerivAt y2 (y3 x) x) (hyY : ∀ x ∈ s, y x = Y (T.transform x)) :
    ∀ x ∈ s, y1 x = T.deriv x * Y1 (T.transform x) ∧
      y2 x = T.deriv2 x * Y1 (T.transform x) + T.deriv x ^ 2 * Y2 (T.transform x) ∧
      y3 x = T.deriv3 x * Y1 (T.transform x) + 3 * T.deriv x * T.deriv2 x * Y2 (T.transform x)
          + T.deriv x ^ 3 * Y3 (T.transform x) := by
  have F := faa_di_bruno_3 hT hY hY1 hY2
  have e1 : ∀ x ∈ s, y1 x = T.deriv x * Y1 (T.transform x) := fun x hx =>
    deriv_eq_of_eqOn hT.isOpen hx hyY (hy x hx) (F x hx).1
  have e2 : ∀ x ∈ s, y2 x = T.deriv2 x * Y1 (T.transform x) + T.deriv x ^ 2 * Y2 (T.transform x) :=
    fun x hx => deriv_eq_of_eqOn hT.isOpen hx e1 (hy1 x hx) (F x hx).2.1
  exact fun x hx => ⟨e1 x hx, e2 x hx, deriv_eq_of_eqOn hT.isOpen hx e2 (hy2 x hx) (F x hx).2.2⟩

/-! ## 2. The transformed ODE is equivalent to the original one (orders 1, 2, 3) -/

/-- Pointwise identity, order 1: with the code's (generated) `b_j`, the left-hand side of the transformed
ODE at `(Y₀, Y₁)` equals the left-hand side of the original ODE at the chain-rule values. -/
theorem transformed_ode_pointwise₁ (a0 a1 g1 g2 g3 Y0 Y1 : ℝ) :
    coeffB_1_0 a0 a1 g1 g2 g3 * Y0 + coeffB_1_1 a0 a1 g1 g2 g3 * Y1 = a0 * Y0 + a1 * (g1 * Y1) := by
  simp only [coeffB_1_0, coeffB_1_1, Nat.cast_zero]; ring

/-- Pointwise identity, order 2. -/
theorem transformed_ode_pointwise₂ (a0 a1 a2 g1 g2 g3 Y0 Y1 Y2 : ℝ) :
    coeffB_2_0 a0 a1 a2 g1 g2 g3 * Y0 + coeffB_2_1 a0 a1 a2 g1 g2 g3 * Y1 + coeffB_2_2 a0 a1 a2 g1 g2 g3 * Y2
      = a0 * Y0 + a1 * (g1 * Y1) + a2 * (g2 * Y1 + g1 ^ 2 * Y2) := by
  simp only [coeffB_2_0, coeffB_2_1, coeffB_2_2, npow_eq_pow, Nat.cast_zero]; ring

/-- Pointwise identity, order 3. -/
theorem transformed_ode_pointwise₃ (a0 a1 a2 a3 g1 g2 g3 Y0 Y1 Y2 Y3 : ℝ) :
    coeffB_3_0 a0 a1 a2 a3 g1 g2 g3 * Y0 + coeffB_3_1 a0 a1 a2 a3 g1 g2 g3 * Y1
        + coeffB_3_2 a0 a1 a2 a3 g1 g2 g3 * Y2 + coeffB_3_3 a0 a1 a2 a3 g1 g2 g3 * Y3
      = a0 * Y0 + a1 * (g1 * Y1) + a2 * (g2 * Y1 + g1 ^ 2 * Y2)
        + a3 * (g3 * Y1 + 3 * g1 * g2 * Y2 + g1 ^ 3 * Y3) := by
  simp only [coeffB_3_0, coeffB_3_1, coeffB_3_2, coeffB_3_3, npow_eq_pow, Nat.cast_zero, Nat.cast_ofNat]; ring

/-- The leading coefficient of the transformed ODE is `a_K · g'^K`: it does not vanish iff neither the
original leading coefficient nor `g'` does. -/
theorem transformed_leading_coeff (a0 a1 a2 a3 g1 g2 g3 : ℝ) :
    (coeffB_1_1 a0 a1 g1 g2 g3 = a1 * g1 ∧ coeffB_2_2 a0 a1 a2 g1 g2 g3 = a2 * g1 ^ 2
      ∧ coeffB_3_3 a0 a1 a2 a3 g1 g2 g3 = a3 * g1 ^ 3) ∧
    (coeffB_1_1 a0 a1 g1 g2 g3 ≠ 0 ↔ a1 ≠ 0 ∧ g1 ≠ 0) ∧
    (coeffB_2_2 a0 a1 a2 g1 g2 g3 ≠ 0 ↔ a2 ≠ 0 ∧ g1 ≠ 0) ∧
    (coeffB_3_3 a0 a1 a2 a3 g1 g2 g3 ≠ 0 ↔ a3 ≠ 0 ∧ g1 ≠ 0) := by
  have e1 : coeffB_1_1 a0 a1 g1 g2 g3 = a1 * g1 := by
    simp only [coeffB_1_1, Nat.cast_zero]; ring
  have e2 : coeffB_2_2 a0 a1 a2 g1 g2 g3 = a2 * g1 ^ 2 := by
    simp only [coeffB_2_2, npow_eq_pow, Nat.cast_zero]; ring
  have e3 : coeffB_3_3 a0 a1 a2 a3 g1 g2 g3 = a3 * g1 ^ 3 := by
    simp only [coeffB_3_3, npow_eq_pow, Nat.cast_zero]; ring
  refine ⟨⟨e1, e2, e3⟩, ?_, ?_, ?_⟩
  · rw [e1]; exact mul_ne_zero_iff
  · rw [e2]; simp
  · rw [e3]; simp

/-- **`transformed_ode_equiv`, order 1.** `Y` solves `b₀Y + b₁Y' = f∘g⁻¹` on `g(s)` with the code's `b_j`
(coefficients and transform derivatives evaluated at `inverse r`) iff `y = Y∘g` solves `a₀y + a₁y' = f` on `s`.
Arbitrary coefficient functions. -/
theorem transformed_ode_equiv₁ {T : TransformFns ℝ} {s : Set ℝ} (hT : Admissible T s)
    (a0 a1 f : ℝ → ℝ) {Y Y1 y y1 : ℝ → ℝ}
    (hY : ∀ x ∈ s, HasDerivAt Y (Y1 (T.transform x)) (T.transform x))
    (hy : ∀ x ∈ s, HasDerivAt y (y1 x) x) (hyY : ∀ x ∈ s, y x = Y (T.transform x)) :
    (∀ r ∈ T.transform '' s,
        coeffB_1_0 (a0 (T.inverse r)) (a1 (T.inverse r)) (T.deriv (T.inverse r)) (T.deriv2 (T.inverse r))
            (T.deriv3 (T.inverse r)) * Y r
          + coeffB_1_1 (a0 (T.inverse r)) (a1 (T.inverse r)) (T.deriv (T.inverse r)) (T.deriv2 (T.inverse r))
            (T.deriv3 (T.inverse r)) * Y1 r = f (T.inverse r))
      ↔ (∀ x ∈ s, a0 x * y x + a1 x * y1 x = f x) := by
  have e1 : ∀ x ∈ s, y1 x = T.deriv x * Y1 (T.transform x) := fun x hx =>
    deriv_eq_of_eqOn hT.isOpen hx hyY (hy x hx) (chain_1 (hT.d1 x hx) (hY x hx))
  rw [Set.forall_mem_image]
  refine forall₂_congr fun x hx => ?_
  rw [hT.left_inv x hx, transformed_ode_pointwise₁, e1 x hx, hyY x hx]

/-- **`transformed_ode_equiv`, order 2.** -/
theorem transformed_ode_equiv₂ {T : TransformFns ℝ} {s : Set ℝ} (hT : Admissible T s)
    (a0 a1 a2 f : ℝ → ℝ) {Y Y1 Y2 y y1 y2 : ℝ → ℝ}
    (hY : ∀ x ∈ s, HasDerivAt Y (Y1 (T.transform x)) (T.transform x))
    (hY1 : ∀ x ∈ s, HasDerivAt Y1 (Y2 (T.transform x)) (T.transform x))
    (hy : ∀ x ∈ s, HasDerivAt y (y1 x) x) (hy1 : ∀ x ∈ s, HasDerivAt y1 (y2 x) x)
    (hyY : ∀ x ∈ s, y x = Y (T.transform x)) :
    (∀ r ∈ T.transform '' s,
        coeffB_2_0 (a0 (T.inverse r)) (a1 (T.inverse r)) (a2 (T.inverse r)) (T.deriv (T.inverse r))
            (T.deriv2 (T.inverse r)) (T.deriv3 (T.inverse r)) * Y r
          + coeffB_2_1 (a0 (T.inverse r)) (a1 (T.inverse r)) (a2 (T.inverse r)) (T.deriv (T.inverse r))
            (T.deriv2 (T.inverse r)) (T.deriv3 (T.inverse r)) * Y1 r
          + coeffB_2_2 (a0 (T.inverse r)) (a1 (T.inverse r)) (a2 (T.inverse r)) (T.deriv (T.inverse r))
            (T.deriv2 (T.inverse r)) (T.deriv3 (T.inverse r)) * Y2 r = f (T.inverse r))
      ↔ (∀ x ∈ s, a0 x * y x + a1 x * y1 x + a2 x * y2 x = f x) := by
  have e1 : ∀ x ∈ s, y1 x = T.deriv x * Y1 (T.transform x) := fun x hx =>
    deriv_eq_of_eqOn hT.isOpen hx hyY (hy x hx) (chain_1 (hT.d1 x hx) (hY x hx))
  have e2 : ∀ x ∈ s, y2 x = T.deriv2 x * Y1 (T.transform x) + T.deriv x ^ 2 * Y2 (T.transform x) :=
    fun x hx => deriv_eq_of_eqOn hT.isOpen hx e1 (hy1 x hx) (chain_2 (hT.d1 x hx) (hT.d2 x hx) (hY1 x hx))
  rw [Set.forall_mem_image]
  refine forall₂_congr fun x hx => ?_
  rw [hT.left_inv x hx, transformed_ode_pointwise₂, e1 x hx, e2 x hx, hyY x hx]

/-- **`transformed_ode_equiv`, order 3** (the statement of DESIGN Appendix A). -/
theorem transformed_ode_equiv₃ {T : TransformFns ℝ} {s : Set ℝ} (hT : Admissible T s)
    (a0 a1 a2 a3 f : ℝ → ℝ) {Y Y1 Y2 Y3 y y1 y2 y3 : ℝ → ℝ}
    (hY : ∀ x ∈ s, HasDerivAt Y (Y1 (T.transform x)) (T.transform x))
    (hY1 : ∀ x ∈ s, HasDerivAt Y1 (Y2 (T.transform x)) (T.transform x))
    (hY2 : ∀ x ∈ s, HasDerivAt Y2 (Y3 (T.transform x)) (T.transform x))
    (hy : ∀ x ∈ s, HasDerivAt y (y1 x) x) (hy1 : ∀ x ∈ s, HasDerivAt y1 (y2 x) x)
    (hy2 : ∀ x ∈ s, HasDerivAt y2 (y3 x) x) (hyY : ∀ x ∈ s, y x = Y (T.transform x)) :
    (∀ r ∈ T.transform '' s,
        coeffB_3_0 (a0 (T.inverse r)) (a1 (T.inverse r)) (a2 (T.inverse r)) (a3 (T.inverse r))
            (T.deriv (T.inverse r)) (T.deriv2 (T.inverse r)) (T.deriv3 (T.inverse r)) * Y r
          + coeffB_3_1 (a0 (T.inverse r)) (a1 (T.inverse r)) (a2 (T.inverse r)) (a3 (T.inverse r))
            (T.deriv (T.inverse r)) (T.deriv2 (T.inverse r)) (T.deriv3 (T.inverse r)) * Y1 r
          + coeffB_3_2 (a0 (T.inverse r)) (a1 (T.inverse r)) (a2 (T.inverse r)) (a3 (T.inverse r))
            (T.deriv (T.inverse r)) (T.deriv2 (T.inverse r)) (T.deriv3 (T.inverse r)) * Y2 r
          + coeffB_3_3 (a0 (T.inverse r)) (a1 (T.inverse r)) (a2 (T.inverse r)) (a3 (T.inverse r))
            (T.deriv (T.inverse r)) (T.deriv2 (T.inverse r)) (T.deriv3 (T.inverse r)) * Y3 r = f (T.inverse r))
      ↔ (∀ x ∈ s, a0 x * y x + a1 x * y1 x + a2 x * y2 x + a3 x * y3 x = f x) := by
  have e := derivs_of_comp hT hY hY1 hY2 hy hy1 hy2 hyY
  rw [Set.forall_mem_image]
  refine forall₂_congr fun x hx => ?_
  rw [hT.left_inv x hx, transformed_ode_pointwise₃, (e x hx).1, (e x hx).2.1, (e x hx).2.2, hyY x hx]

/-- Non-vacuity of `transformed_ode_equiv₃`: `g = exp`, `Y(r) = r²` (so `y = e^{2x}`), the ODE
`x·y + 2y' − y'' + y''' = (x + 8)·e^{2x}` holds, hence so does the transformed one on `g(ℝ)`. -/
example : ∀ r ∈ expT.transform '' Set.univ,
    coeffB_3_0 (expT.inverse r) 2 (-1) 1 (expT.deriv (expT.inverse r)) (expT.deriv2 (expT.inverse r))
        (expT.deriv3 (expT.inverse r)) * r ^ 2
      + coeffB_3_1 (expT.inverse r) 2 (-1) 1 (expT.deriv (expT.inverse r)) (expT.deriv2 (expT.inverse r))
        (expT.deriv3 (expT.inverse r)) * (2 * r)
      + coeffB_3_2 (expT.inverse r) 2 (-1) 1 (expT.deriv (expT.inverse r)) (expT.deriv2 (expT.inverse r))
        (expT.deriv3 (expT.inverse r)) * 2
      + coeffB_3_3 (expT.inverse r) 2 (-1) 1 (expT.deriv (expT.inverse r)) (expT.deriv2 (expT.inverse r))
        (expT.deriv3 (expT.inverse r)) * 0
      = (expT.inverse r + 8) * Real.exp (2 * expT.inverse r) := by
  have hd : ∀ x : ℝ, HasDerivAt (fun t => Real.exp (2 * t)) (2 * Real.exp (2 * x)) x := fun x => by
    simpa [mul_comm] using ((hasDerivAt_id x).const_mul (2 : ℝ)).exp
  refine (transformed_ode_equiv₃ expT_admissible (fun x => x) (fun _ => 2) (fun _ => -1) (fun _ => 1)
    (fun x => (x + 8) * Real.exp (2 * x))
    (Y := fun r => r ^ 2) (Y1 := fun r => 2 * r) (Y2 := fun _ => 2) (Y3 := fun _ => 0)
    (y := fun x => Real.exp (2 * x)) (y1 := fun x => 2 * Real.exp (2 * x))
    (y2 := fun x => 4 * Real.exp (2 * x)) (y3 := fun x => 8 * Real.exp (2 * x))
    (fun x _ => by simpa using hasDerivAt_pow 2 (expT.transform x))
    (fun x _ => by simpa using (hasDerivAt_id (expT.transform x)).const_mul (2 : ℝ))
    (fun x _ => hasDerivAt_const _ _)
    (fun x _ => hd x)
    (fun x _ => ((hd x).const_mul 2).congr_deriv (by ring))
    (fun x _ => ((hd x).const_mul 4).congr_deriv (by ring))
    (fun x _ => by simp only [expT]; rw [← Real.exp_nat_mul]; norm_num)).mpr ?_
  intro x _; ring

/-! ## 3. The derivative-transformation matrix -/

/-- **`deriv_matrix_spec` (entries).** The generated loop nest with SymPy's Bell polynomials gives, for
`n = 1, 2, 3`, the lower-triangular matrix of the Faà di Bruno coefficients
`[[g', 0, 0], [g'', g'², 0], [g''', 3g'g'', g'³]]` (leading `n × n` block). -/
theorem deriv_matrix_entries (g1 g2 g3 : ℝ) :
    matRows (derivMatrix (bell (seq3 g1 g2 g3)) 1) 1 = [[g1]] ∧
    matRows (derivMatrix (bell (seq3 g1 g2 g3)) 2) 2 = [[g1, 0], [g2, g1 ^ 2]] ∧
    matRows (derivMatrix (bell (seq3 g1 g2 g3)) 3) 3 = [[g1, 0, 0], [g2, g1 ^ 2, 0], [g3, 3 * g1 * g2, g1 ^ 3]] := by
  rw [derivMatrix_rows_1, derivMatrix_rows_2, derivMatrix_rows_3]
  simp only [bell_1_1, bell_2_1, bell_2_2, bell_3_1, bell_3_2, bell_3_3, seq3, and_self]

/-- **`deriv_matrix_spec` (meaning).** `M(x)` maps the derivatives of `Y` with respect to `r` (at `g(x)`) to the
derivatives of `y = Y ∘ g` with respect to `x` (at `x`): the three functions `x ↦ (M(x)·[Y₁,Y₂,Y₃](g x))ᵢ` are
the successive derivatives of `y` on `s`. -/
theorem deriv_matrix_maps_derivatives {T : TransformFns ℝ} {s : Set ℝ} (hT : Admissible T s)
    {Y Y1 Y2 Y3 : ℝ → ℝ}
    (hY : ∀ x ∈ s, HasDerivAt Y (Y1 (T.transform x)) (T.transform x))
    (hY1 : ∀ x ∈ s, HasDerivAt Y1 (Y2 (T.transform x)) (T.transform x))
    (hY2 : ∀ x ∈ s, HasDerivAt Y2 (Y3 (T.transform x)) (T.transform x)) :
    ∃ y1 y2 y3 : ℝ → ℝ,
      (∀ x, matVec (derivMatrixAt T x 3) [Y1 (T.transform x), Y2 (T.transform x), Y3 (T.transform x)]
        = [y1 x, y2 x, y3 x]) ∧
      ∀ x ∈ s, HasDerivAt (fun t => Y (T.transform t)) (y1 x) x ∧ HasDerivAt y1 (y2 x) x ∧
        HasDerivAt y2 (y3 x) x := by
  refine ⟨fun t => T.deriv t * Y1 (T.transform t),
    fun t => T.deriv2 t * Y1 (T.transform t) + T.deriv t ^ 2 * Y2 (T.transform t),
    fun t => T.deriv3 t * Y1 (T.transform t) + 3 * T.deriv t * T.deriv2 t * Y2 (T.transform t)
      + T.deriv t ^ 3 * Y3 (T.transform t), ?_, faa_di_bruno_3 hT hY hY1 hY2⟩
  intro x
  obtain ⟨h00, h01, h02, h10, h11, h12, h20, h21, h22⟩ := derivMatrixAt_3 T x
  rw [matVec_three, h00, h01, h02, h10, h11, h12, h20, h21, h22]
  simp

/-- **`deriv_matrix_spec` (invertibility).** The matrices the code builds (`n = 1, 2, 3`) are invertible —
every right-hand side has exactly one pre-image — iff `g' ≠ 0`. -/
theorem deriv_matrix_invertible_iff (T : TransformFns ℝ) (x : ℝ) :
    ((∀ b1 : ℝ, ∃! v1 : ℝ, matVec (derivMatrixAt T x 1) [v1] = [b1]) ↔ T.deriv x ≠ 0) ∧
    ((∀ b1 b2 : ℝ, ∃! v : ℝ × ℝ, matVec (derivMatrixAt T x 2) [v.1, v.2] = [b1, b2]) ↔ T.deriv x ≠ 0) ∧
    ((∀ b1 b2 b3 : ℝ, ∃! v : ℝ × ℝ × ℝ, matVec (derivMatrixAt T x 3) [v.1, v.2.1, v.2.2] = [b1, b2, b3])
      ↔ T.deriv x ≠ 0) := by
  obtain ⟨h00, h01, h02, h10, h11, h12, h20, h21, h22⟩ := derivMatrixAt_3 T x
  obtain ⟨k00, k01, k10, k11⟩ := derivMatrixAt_2 T x
  have j00 := derivMatrixAt_1 T x
  refine ⟨⟨fun h hz => ?_, fun hne b1 => ?_⟩, ⟨fun h hz => ?_, fun hne b1 b2 => ?_⟩,
    ⟨fun h hz => ?_, fun hne b1 b2 b3 => ?_⟩⟩
  · obtain ⟨v, _, hu⟩ := h 0
    have h0 := hu 0 (by simp only [matVec_one, j00, hz]; simp)
    have h1 := hu 1 (by simp only [matVec_one, j00, hz]; simp)
    rw [← h0] at h1; exact one_ne_zero h1
  · refine ⟨b1 / T.deriv x, ?_, ?_⟩
    · simp only [matVec_one, j00]; congr 1; field_simp
    · intro v hv
      simp only [matVec_one, j00, List.cons.injEq, and_true] at hv
      rw [eq_div_iff hne]; linarith
  · obtain ⟨v, _, hu⟩ := h 0 0
    have h0 := hu (0, 0) (by simp only [matVec_two, k00, k01, k10, k11, hz]; simp)
    have h1 := hu (0, 1) (by simp only [matVec_two, k00, k01, k10, k11, hz]; simp)
    rw [← h0] at h1; simp at h1
  · refine ⟨(b1 / T.deriv x, (b2 - T.deriv2 x * (b1 / T.deriv x)) / T.deriv x ^ 2), ?_, ?_⟩
    · simp only [matVec_two, k00, k01, k10, k11]
      congr 1
      · (field_simp; ring)
      · congr 1; (field_simp; ring)
    · rintro ⟨v1, v2⟩ hv
      simp only [matVec_two, k00, k01, k10, k11, List.cons.injEq, and_true] at hv
      obtain ⟨e1, e2⟩ := hv
      have hv1 : v1 = b1 / T.deriv x := by rw [eq_div_iff hne]; linarith
      subst hv1
      have hv2 : v2 = (b2 - T.deriv2 x * (b1 / T.deriv x)) / T.deriv x ^ 2 := by
        rw [eq_div_iff (pow_ne_zero 2 hne)]; linarith
      rw [hv2]
  · obtain ⟨v, _, hu⟩ := h 0 0 0
    have h0 := hu (0, 0, 0) (by simp only [matVec_three, h00, h01, h02, h10, h11, h12, h20, h21, h22, hz]; simp)
    have h1 := hu (0, 0, 1) (by simp only [matVec_three, h00, h01, h02, h10, h11, h12, h20, h21, h22, hz]; simp)
    rw [← h0] at h1; simp at h1
  · refine ⟨(b1 / T.deriv x, (b2 - T.deriv2 x * (b1 / T.deriv x)) / T.deriv x ^ 2,
      (b3 - T.deriv3 x * (b1 / T.deriv x)
        - 3 * T.deriv x * T.deriv2 x * ((b2 - T.deriv2 x * (b1 / T.deriv x)) / T.deriv x ^ 2)) / T.deriv x ^ 3),
      ?_, ?_⟩
    · simp only [matVec_three, h00, h01, h02, h10, h11, h12, h20, h21, h22]
      congr 1
      · field_simp; ring
      · congr 1
        · field_simp; ring
        · congr 1; field_simp; ring
    · rintro ⟨v1, v2, v3⟩ hv
      simp only [matVec_three, h00, h01, h02, h10, h11, h12, h20, h21, h22, List.cons.injEq, and_true] at hv
      obtain ⟨e1, e2, e3⟩ := hv
      have hv1 : v1 = b1 / T.deriv x := by rw [eq_div_iff hne]; linarith
      subst hv1
      have hv2 : v2 = (b2 - T.deriv2 x * (b1 / T.deriv x)) / T.deriv x ^ 2 := by
        rw [eq_div_iff (pow_ne_zero 2 hne)]; linarith
      subst hv2
      have hv3 : v3 = (b3 - T.deriv3 x * (b1 / T.deriv x)
          - 3 * T.deriv x * T.deriv2 x * ((b2 - T.deriv2 x * (b1 / T.deriv x)) / T.deriv x ^ 2)) / T.deriv x ^ 3 := by
        rw [eq_div_iff (pow_ne_zero 3 hne)]; linarith
      rw [hv3]

/-! ## 3b. Plumbing facts read off the regenerated text -/

/-- `_transform_ode_from_rtransform` hands `tf.deriv, tf.deriv2, tf.deriv3` — in this order — to
`_transform_ode_from_derivs` (so `derivs[i]` is the `(i+1)`-th derivative of the transform itself). -/
theorem rtransform_passes_derivs_in_order : rtransformDerivMethods = ["deriv", "deriv2", "deriv3"] := by
  decide

/-- The Bell-polynomial loop of `_transform_ode_from_derivs` that the translator does not carry is guarded by
`total > n` with `n ≥ 4`: it cannot run for ODE orders ≤ 3 (`total ≤ 4`). -/
theorem bell_loop_not_reached_up_to_order_3 : ∀ n, bellLoopGuard = some n → 4 ≤ n := by
  decide

/-- With the three derivative functions the library passes, the `order > numb_derivs` guard of
`_derivative_transformation_matrix` does not fire for the sizes `order − 1 ≤ 2` used by the solvers (nor for 3),
and fires for every larger size. -/
theorem deriv_matrix_guard (n : Nat) : derivMatrixRaises n 3 = true ↔ 3 < n := by
  simp [derivMatrixRaises]

end GridVerif.C15

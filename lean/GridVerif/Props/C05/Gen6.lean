/-
  C05, part 4 (round 6) — clauses that so far only the input generators watched, stated over the
  regenerated `_generate_atomic_grid` / `__init__` (`Gen/AtomGrid.lean`).

  * `gen_shell_independent`: **shell `i` of the regenerated `_generate_atomic_grid` depends only on its
    own requested degree, its own radial node and weight, and the seed `rotate + i`** — not on the
    other shells, their degrees or their order (stored change C05-h: a cumulative rotation inside a
    run of equal degrees; any loop-carried slip in the shell loop).
  * `gen_shell_unaffected_by_other_shells`: the two-input form: two calls that agree at position `i`
    produce the same shell `i`, whatever the rest of the radial grid and of the degree list is.
  * `gen_get_shell_grid_reads_only`: the per-shell grid on request is a function of the stored degrees, the seed and
    the radial grid only — not of the stored arrays or the centre (stored changes C05-d / the sliced-and-divided shell grid).
  * `gen_init_sizes_route`: **`sizes=` is honoured through the method's own size table on the
    constructor route**: the constructor with `sizes` is the constructor with the degrees
    `convert_angular_sizes_to_degrees(sizes, method)` of *that* method (stored change C05-g as seen
    from the constructor: the conversion is the one of `env`, the per-method environment).
-/
import GridVerif.Props.C05.Gen3

set_option linter.unusedSectionVars false
set_option linter.unusedVariables false
set_option linter.unusedSimpArgs false

namespace GridVerif.C05
open GridVerif.AtomGrid GridVerif.Bisect GridVerif.Gen.Presets

section
variable {K : Type} [Add K] [Sub K] [Mul K] [Div K] [NatCast K]

/-- (1, over the regenerated loop) **Independence of the shells.** If the regenerated
`_generate_atomic_grid` returns `(points, weights, indices, degrees)` for an `int` seed, then for every
position `i` the index table delimits a slice `[a, b)` whose points are exactly
`loopShell env rot i (r_i, w_i) (AngularGrid(degrees[i]))` — a function of the seed `rot + i`, the
radial node / weight of *that* position and the angular grid of *that* requested degree only — the
recorded degree is the resolved one of that request, and (when the angular grids have one weight per
point) the weights of the slice are that shell's `ω · w_i · r_i²`. -/
theorem gen_shell_independent (env : Env K) (rg : RGrid K) (degs : List Nat) (rot : Nat)
    (hlen : rg.points.length = rg.weights.length) (hne : degs ≠ [])
    (hseed : (rot : Int) + degs.length ≤ 4294967296)
    (P : List (V3 K)) (W : List K) (I D : List Nat)
    (h : Gen.AtomGrid.generate_atomic_grid env rg degs (.int rot) = .ok (P, W, I, D))
    (i : Nat) (hi : i < degs.length) :
    ∃ (hn : i < rg.nodes.length) (a b deg : Nat) (p : List (V3 K)) (wt : List K),
      angular env degs[i] = .ok (deg, p, wt) ∧ I[i]? = some a ∧ I[i + 1]? = some b ∧ D[i]? = some deg ∧
      pySlice P a b = (loopShell env rot i rg.nodes[i] p wt).points ∧
      ((∀ d dg q w, angular env d = .ok (dg, q, w) → w.length = q.length) →
        pySlice W a b = (loopShell env rot i rg.nodes[i] p wt).weights) := by
  have hn := nodes_length rg hlen
  rw [gen_generate_atomic_grid_eq_model env rg degs (.int rot) ⟨(0 : Nat), (0 : Nat), (0 : Nat)⟩ hlen hne
    (fun _ => ⟨by simp [RotArg.val], by simpa [RotArg.val] using hseed⟩)] at h
  unfold generateAtomicGrid at h
  simp only [V3.ofList?, RotArg.isInt, ↓reduceIte] at h
  have hneg : ¬ ((RotArg.int (rot : Int)).val < 0) := by simp [RotArg.val]
  rw [if_neg hneg] at h
  have hv : (RotArg.int (rot : Int)).val.toNat = rot := by simp [RotArg.val]
  rw [hv] at h
  unfold generate at h
  split at h
  · cases h
  · rename_i hl
    split at h
    · cases h
    · rename_i as has
      simp only [Except.map, Except.ok.injEq, Prod.mk.injEq] at h
      obtain ⟨hP, hW, hI, hD⟩ := h
      obtain ⟨hal, haget⟩ := loadAll_spec env degs as has
      have hl' : degs.length = rg.nodes.length := by simpa using hl
      have hasl : as.length = rg.nodes.length := by omega
      have hin : i < rg.nodes.length := by omega
      have hia : i < as.length := by omega
      have hsl := assemble_length env.rotation rot 0 rg.nodes as hasl
      have his : i < (assemble env.rotation rot 0 rg.nodes as).length := by omega
      have hshell := assemble_getElem env.rotation rot 0 rg.nodes as hasl i hin
      simp only [Nat.zero_add] at hshell
      refine ⟨hin, offset (assemble env.rotation rot 0 rg.nodes as) i,
        offset (assemble env.rotation rot 0 rg.nodes as) (i + 1), as[i].1, as[i].2.1, as[i].2.2, haget i hi hia, ?_, ?_, ?_, ?_, ?_⟩
      · rw [← hI]; exact indices_getElem? _ _ (Nat.le_of_lt his)
      · rw [← hI]; exact indices_getElem? _ _ his
      · rw [← hD]; simp [List.getElem?_eq_getElem hia]
      · rw [← hP, slice_rawPoints _ i his, hshell]; rfl
      · intro hwfa
        have hwf : WF (assemble env.rotation rot 0 rg.nodes as) := by
          intro s hs
          obtain ⟨j, hj, rfl⟩ := List.getElem_of_mem hs
          have hj' : j < rg.nodes.length := by omega
          rw [assemble_getElem env.rotation rot 0 rg.nodes as hasl j hj']
          exact hwfa degs[j] as[j].1 as[j].2.1 as[j].2.2 (haget j (by omega) (by omega))
        rw [← hW, slice_weights _ hwf i his, hshell]; rfl

/-- (1', two-input form) **A shell is not affected by the other shells.** Two calls of the regenerated
`_generate_atomic_grid` with the same seed whose radial grids and degree lists agree at position `i`
(same node, same weight, same requested degree) — and differ arbitrarily elsewhere, in length too —
return the same points for shell `i` and record the same degree for it. In particular a run of equal
degrees before position `i` cannot leak into it. -/
theorem gen_shell_unaffected_by_other_shells (env : Env K) (rg rg' : RGrid K) (degs degs' : List Nat) (rot : Nat)
    (hlen : rg.points.length = rg.weights.length) (hlen' : rg'.points.length = rg'.weights.length)
    (hseed : (rot : Int) + degs.length ≤ 4294967296) (hseed' : (rot : Int) + degs'.length ≤ 4294967296)
    (P P' : List (V3 K)) (W W' : List K) (I I' D D' : List Nat)
    (h : Gen.AtomGrid.generate_atomic_grid env rg degs (.int rot) = .ok (P, W, I, D))
    (h' : Gen.AtomGrid.generate_atomic_grid env rg' degs' (.int rot) = .ok (P', W', I', D'))
    (i : Nat) (hi : i < degs.length) (hi' : i < degs'.length) (hd : degs[i] = degs'[i])
    (hnode : rg.nodes[i]? = rg'.nodes[i]?) :
    ∃ a b a' b', I[i]? = some a ∧ I[i + 1]? = some b ∧ I'[i]? = some a' ∧ I'[i + 1]? = some b' ∧
      pySlice P a b = pySlice P' a' b' ∧ D[i]? = D'[i]? := by
  have hne : degs ≠ [] := by intro h0; rw [h0] at hi; simp at hi
  have hne' : degs' ≠ [] := by intro h0; rw [h0] at hi'; simp at hi'
  obtain ⟨hn, a, b, deg, p, wt, hang, ha, hb, hD, hs, _⟩ := gen_shell_independent env rg degs rot hlen hne hseed P W I D h i hi
  obtain ⟨hn', a', b', deg', p', wt', hang', ha', hb', hD', hs', _⟩ :=
    gen_shell_independent env rg' degs' rot hlen' hne' hseed' P' W' I' D' h' i hi'
  rw [hd, hang'] at hang
  have e := Except.ok.inj hang
  simp only [Prod.mk.injEq] at e
  obtain ⟨e1, e2, e3⟩ := e
  subst e1 e2 e3
  have hnd : rg.nodes[i] = rg'.nodes[i] := by
    rw [List.getElem?_eq_getElem hn, List.getElem?_eq_getElem hn'] at hnode
    exact Option.some.inj hnode
  refine ⟨a, b, a', b', ha, hb, ha', hb', ?_, by rw [hD, hD']⟩
  rw [hs, hs', hnd]

/-- non-vacuity: the concrete construction of `Gen3` (nodes 2, 3; requested degrees 3, 4; seed 1) and
a second one that shares only position 1 with it (other first node, other first degree): shell 1 is
the same, shell 0 is not -/
example :
    Gen.AtomGrid.generate_atomic_grid exEnv ⟨true, none, [2, 3], [5, 7]⟩ [3, 4] (.int 1) =
      .ok ([⟨0, 2, 0⟩, ⟨0, 0, 2⟩, ⟨0, 3, 0⟩, ⟨0, 0, 3⟩], [20, 40, 63, 126], [0, 2, 4], [3, 5]) ∧
    Gen.AtomGrid.generate_atomic_grid exEnv ⟨true, none, [9, 3], [1, 7]⟩ [5, 4] (.int 1) =
      .ok ([⟨0, 9, 0⟩, ⟨0, 0, 9⟩, ⟨0, 3, 0⟩, ⟨0, 0, 3⟩], [81, 162, 63, 126], [0, 2, 4], [5, 5]) := by
  set_option synthInstance.maxSize 1024 in
  decide +kernel

/-! ### what `get_shell_grid` reads -/

/-- (4, independence) **The shell grid returned on request is a function of the stored degrees, the
seed and the radial grid only** (and of `index`, `r_sq`): the regenerated `get_shell_grid` gives the
same answer on two grid objects that agree in these three attributes, whatever their stored points,
weights, index table and centre are. So its points are relative to the centre by construction (they
cannot pick up the centre or its rounding), they are rebuilt from the unit grid and not cut out of
the stored arrays (stored changes that slice `self.points` / `self.weights`, or divide stored weights
by `r²`), and nothing the owner did to the arrays of the atomic grid can reach a later request. -/
theorem gen_get_shell_grid_reads_only (env : Env K) (g g' : Grid K) (index : Int) (rSq : Bool)
    (hd : g.degrees = g'.degrees) (hr : g.rotate = g'.rotate) (hg : g.rgrid = g'.rgrid) :
    Gen.AtomGrid.get_shell_grid env g index rSq = Gen.AtomGrid.get_shell_grid env g' index rSq := by
  unfold Gen.AtomGrid.get_shell_grid
  rw [hd, hr, hg]

/-- non-vacuity: two grid objects with the same degrees / seed / radial grid but other stored arrays and centre -/
example :
    (Gen.AtomGrid.get_shell_grid exEnv ⟨⟨0, 0, 0⟩, 1, [(2, 5), (3, 7)], [], [], [], [0, 2, 4], [3, 5]⟩ 1 true).map (fun s => (s.points, s.weights)) =
      (Gen.AtomGrid.get_shell_grid exEnv ⟨⟨9, 9, 9⟩, 1, [(2, 5), (3, 7)], [], [⟨1, 1, 1⟩], [4], [0, 1], [3, 5]⟩ 1 true).map (fun s => (s.points, s.weights)) := by
  set_option synthInstance.maxSize 1024 in
  decide +kernel

/-! ### `sizes=` on the constructor route -/

/-- (route) **`sizes=` is `degrees=` of the method's own conversion.** Whatever `degrees` says, the
regenerated constructor called with a list / array of sizes that the method supports is the
regenerated constructor called with `degrees = convert_angular_sizes_to_degrees(sizes, method)` — the
conversion through the size table of *that* method (`env.npointsTbl`), for every radial grid, centre
and seed kind. -/
theorem gen_init_sizes_route [LT K] [LE K] [DecidableLT K] [DecidableLE K] (env : Env K) (rg : RGrid K)
    (degrees : SeqArg) (ss ds : List Nat) (center : Option (List K)) (rotate : RotArg)
    (hconv : convertSizes env.npointsTbl ss = some ds) :
    Gen.AtomGrid.init env rg degrees (.seq ss) center rotate =
      Gen.AtomGrid.init env rg (.seq ds) .none center rotate := by
  rw [gen_init_eq_model, gen_init_eq_model]
  unfold initArgs
  cases degrees <;> simp only [requestOf, effectiveDegrees, hconv]

example : convertSizes [(6, 3), (14, 5)] [5, 14, 1] = some [3, 5, 3] := by decide +kernel

end

end GridVerif.C05

/-
  C05, part 2 — the theorems about the definitions regenerated from `atomgrid.py` by
  `harness/translate/atomgrid.py` (`Gen/AtomGrid.lean`): `_find_degrees_for_radial_points`,
  `_generate_degree_from_radius`, `_input_type_check`, the constructor's handling of
  `degrees` / `sizes` / `rotate` / `center`, and `from_pruned`.

  Each generated definition is proved equal to the hand model of `Model/AtomGrid.lean` (so the
  theorems of `Props/C05.lean` are about the code as it is now), and `sector_degree` and the sector
  clause of `preset_builds` are restated over the generated definitions.  A source change inside the
  translator's vocabulary changes the generated text and breaks one of the `gen_*_eq_model` proofs;
  a change outside it makes the translator raise.
-/
import GridVerif.Props.C05
import GridVerif.Gen.AtomGrid

set_option linter.unusedSectionVars false

namespace GridVerif.C05
open GridVerif.AtomGrid GridVerif.Bisect GridVerif.Gen.Presets

/-! ### helper facts about the primitives -/

theorem mapM_map_except {α β γ ε : Type} (f : α → β) (g : β → Except ε γ) (l : List α) :
    (l.map f).mapM g = l.mapM fun a => g (f a) := by
  induction l with
  | nil => rfl
  | cons a l ih => simp only [List.map_cons, List.mapM_cons, ih]

/-! ### `_find_degrees_for_radial_points` -/

/-- **The regenerated sector lookup is the hand model**: the broadcast comparison
`radial_points[:, None] > r_sectors[None, :]` summed along axis 1, then `d_sectors[position]`,
as translated from the current source, is `findDegreesForRadialPoints` — for every radial array
(any order, repeated values) and every sector array. -/
theorem gen_find_degrees_eq_model {K : Type} [LT K] [LE K] [DecidableLT K] [DecidableLE K]
    (rp bounds : List K) (ds : List Nat) :
    Gen.AtomGrid.find_degrees_for_radial_points rp bounds ds =
      findDegreesForRadialPoints rp bounds ds := by
  unfold Gen.AtomGrid.find_degrees_for_radial_points findDegreesForRadialPoints npTake npCountAxis1
    sectorPosition
  simp only [mapM_map_except, sectorBelow]
  congr 1
  funext r
  cases ds[List.countP (fun y => decide (r > y)) bounds]? <;> rfl

example : Gen.AtomGrid.find_degrees_for_radial_points ([5, 0, 2, 1, 3] : List Nat) [1, 2, 4] [3, 5, 7, 9] =
    .ok [9, 3, 5, 3, 7] := by decide

section
variable {K : Type} [Add K] [Sub K] [Mul K] [Div K] [NatCast K]

/-! ### `_generate_degree_from_radius` -/

theorem getDegreeAndSize0_eq (env : Env K) (d : Nat) :
    getDegreeAndSize0 env (some d) none =
      (match getDegreeAndSize env.degreesTbl env.npointsTbl (some d) none with
        | .ok deg _ => Except.ok deg
        | .valueError => .error Err.valueError
        | .indexError => .error Err.indexError) := by
  unfold getDegreeAndSize0
  cases getDegreeAndSize env.degreesTbl env.npointsTbl (some d) none <;> rfl

/-- **The regenerated `_generate_degree_from_radius` is the hand model** (sector bounds scaled by
the radius, the `len(d_sectors) - len(r_sectors) != 1` guard, every sector degree matched to a
supported one (C12), sector lookup); with `d_sectors = None` it ends in `TypeError`
(`len()` of a 0-d array). -/
theorem gen_generate_degree_eq_model [LT K] [LE K] [DecidableLT K] [DecidableLE K]
    (env : Env K) (rg : RGrid K) (radius : K) (rs : List K) :
    (∀ ds, Gen.AtomGrid.generate_degree_from_radius env rg radius rs (some ds) =
      generateDegreeFromRadius env.degreesTbl env.npointsTbl rg.points radius rs (.degrees ds)) ∧
    Gen.AtomGrid.generate_degree_from_radius env rg radius rs none = .error .typeError := by
  refine ⟨fun ds => ?_, rfl⟩
  unfold Gen.AtomGrid.generate_degree_from_radius generateDegreeFromRadius
  simp only [npArrayOpt, NpArr.len, NpArr.iter, npMulScalar, bind, Except.bind,
    List.length_map, gen_find_degrees_eq_model, getDegreeAndSize0_eq]
  by_cases hl : ds.length = rs.length + 1
  · have h1 : ¬ ((ds.length : Int) - (rs.length : Int) ≠ 1) := by omega
    have h2 : ¬ (ds.length ≠ rs.length + 1) := by omega
    rw [if_neg (by simpa using h1), if_neg h2]
    cases List.mapM (fun d => match getDegreeAndSize env.degreesTbl env.npointsTbl (some d) none with
      | .ok deg _ => Except.ok deg
      | .valueError => .error Err.valueError
      | .indexError => .error Err.indexError) ds
    · rfl
    · simp only
      cases findDegreesForRadialPoints rg.points (List.map (fun x => x * radius) rs) _ <;> rfl
  · have h1 : (ds.length : Int) - (rs.length : Int) ≠ 1 := by omega
    have h2 : ds.length ≠ rs.length + 1 := hl
    rw [if_pos (decide_eq_true h1), if_pos h2]
    rfl

example : Gen.AtomGrid.generate_degree_from_radius (K := Nat)
    ⟨[(3, 6), (5, 14), (7, 26)], [(6, 3), (14, 5), (26, 7)], fun _ => none, fun _ => ⟨⟨1, 0, 0⟩, ⟨0, 1, 0⟩, ⟨0, 0, 1⟩⟩⟩
    ⟨true, none, [9, 0, 3, 2], [1, 1, 1, 1]⟩ 2 [1, 2] (some [2, 4, 6]) = .ok [7, 3, 5, 3] := by decide +kernel

end

/-! ### `_input_type_check` -/

theorem foldl_min_spec {K : Type} [LinearOrder K] (xs : List K) (m0 : K) :
    (xs.foldl (fun m y => if y < m then y else m) m0 = m0 ∨
      xs.foldl (fun m y => if y < m then y else m) m0 ∈ xs) ∧
    xs.foldl (fun m y => if y < m then y else m) m0 ≤ m0 ∧
    ∀ y ∈ xs, xs.foldl (fun m y => if y < m then y else m) m0 ≤ y := by
  induction xs generalizing m0 with
  | nil => simp
  | cons x xs ih =>
    by_cases hx : x < m0
    · simp only [List.foldl_cons, if_pos hx]
      obtain ⟨h1, h2, h3⟩ := ih x
      refine ⟨?_, le_trans h2 (le_of_lt hx), ?_⟩
      · right
        rcases h1 with h | h
        · rw [h]; simp
        · simp [h]
      · intro y hy
        rcases List.mem_cons.mp hy with rfl | hy
        · exact h2
        · exact h3 y hy
    · simp only [List.foldl_cons, if_neg hx]
      obtain ⟨h1, h2, h3⟩ := ih m0
      refine ⟨?_, h2, ?_⟩
      · rcases h1 with h | h
        · left; exact h
        · right; simp [h]
      · intro y hy
        rcases List.mem_cons.mp hy with rfl | hy
        · exact le_trans h2 (not_lt.mp hx)
        · exact h3 y hy

theorem npMin_spec {K : Type} [LinearOrder K] (l : List K) :
    (l = [] → npMin l = .error .valueError) ∧
    (l ≠ [] → ∃ m, npMin l = .ok m ∧ m ∈ l ∧ ∀ y ∈ l, m ≤ y) := by
  cases l with
  | nil => exact ⟨fun _ => rfl, fun h => absurd rfl h⟩
  | cons x xs =>
    obtain ⟨h1, h2, h3⟩ := foldl_min_spec xs x
    refine ⟨fun h => (List.cons_ne_nil _ _ h).elim, fun _ => ⟨_, rfl, ?_, ?_⟩⟩
    · rcases h1 with h | h
      · rw [h]; simp
      · simp [h]
    · intro y hy
      rcases List.mem_cons.mp hy with rfl | hy
      · exact h2
      · exact h3 y hy

set_option hygiene false in
macro "itc_rest" : tactic => `(tactic|
  (by_cases hne : rg.points = []
   · rw [hmin0 hne]
     constructor
     · intro h; cases h
     · intro h; exact absurd hne h.2.1
   · obtain ⟨m, hm, hmem, hle⟩ := hmin1 hne
     rw [hm]
     simp only
     by_cases hneg : m < ((0 : Nat) : K)
     · rw [if_pos (decide_eq_true hneg)]
       constructor
       · intro h; cases h
       · intro h; exact absurd hneg (not_lt.mpr (h.2.2.1 m hmem))
     · rw [if_neg (by simpa using hneg)]
       by_cases hc : c.length = 3
       · rw [if_neg (by simpa using hc)]
         exact ⟨fun _ => ⟨hdom', hne, fun r hr => le_trans (not_lt.mp hneg) (hle r hr), hc⟩, fun _ => rfl⟩
       · rw [if_pos (by simpa using hc)]
         constructor
         · intro h; cases h
         · intro h; exact absurd h.2.2.2 hc))

/-- **What the regenerated `_input_type_check` accepts** (ordered number type): a `OneDGrid` whose
domain, if it has one, does not start below 0, with at least one node, all nodes `≥ 0`, and a
centre of shape `(3,)` — nothing else. In particular *negative radial nodes are rejected*
(the assumption of `point_radius` / `integral_factorises`). -/
theorem gen_input_type_check_spec {K : Type} [LinearOrder K] [NatCast K] (rg : RGrid K) (c : List K) :
    Gen.AtomGrid.input_type_check rg c = .ok () ↔
      rg.isOneDGrid = true ∧ (∀ d, rg.domain = some d → ¬ d.1 < ((0 : Nat) : K)) ∧ rg.points ≠ [] ∧
      (∀ r ∈ rg.points, ((0 : Nat) : K) ≤ r) ∧ c.length = 3 := by
  unfold Gen.AtomGrid.input_type_check
  obtain ⟨hmin0, hmin1⟩ := npMin_spec rg.points
  cases h1 : rg.isOneDGrid with
  | false => simp [bind, Except.bind]
  | true =>
    simp only [Bool.not_true, Bool.false_eq_true, ↓reduceIte, bind, Except.bind, pure, Except.pure, true_and]
    cases hdm : rg.domain with
    | none =>
      simp only [Bool.false_eq_true, ↓reduceIte]
      have hdom' : ∀ d : K × K, (none : Option (K × K)) = some d → ¬ d.1 < ((0 : Nat) : K) := fun d h => by cases h
      itc_rest
    | some d =>
      simp only
      by_cases hd2 : d.1 < ((0 : Nat) : K)
      · rw [if_pos (decide_eq_true hd2)]
        constructor
        · intro h; cases h
        · intro h; exact absurd hd2 (h.1 d rfl)
      · rw [if_neg (by simpa using hd2)]
        have hdom' : ∀ d' : K × K, some d = some d' → ¬ d'.1 < ((0 : Nat) : K) := fun d' h => by cases h; exact hd2
        itc_rest

section
variable {K : Type} [Add K] [Sub K] [Mul K] [Div K] [NatCast K]

/-! ### `__init__` -/

macro "init_eval" : tactic => `(tactic|
  simp only [bind, Except.bind, requestOf, SeqArg.isNotNone, SeqArg.isSeq, SeqArg.asList,
    Bool.not_true, Bool.not_false, Bool.and_false,
    Bool.and_true, Bool.true_and, Bool.false_and, Bool.false_eq_true, ↓reduceIte, not_true_eq_false, not_false_eq_true,
    effectiveDegrees, convertAngularSizesToDegrees])

/-- **The regenerated constructor prelude is the hand model `initArgs`**, for every argument
kind: centre default `np.zeros(3)`, `_input_type_check`, `TypeError` for a `rotate` that is neither
`int` nor NumPy integer, `ValueError` outside `0 ≤ rotate < 2**32 - len(rgrid.points)` (skipped for
`False`), `sizes` taking precedence over `degrees`, `TypeError` unless list / array, conversion of
sizes through C12 (`ValueError`), the `len(degrees) == 1` broadcast, then the assembly loop. -/
theorem gen_init_eq_model [LT K] [LE K] [DecidableLT K] [DecidableLE K] (env : Env K) (rg : RGrid K)
    (degrees sizes : SeqArg) (center : Option (List K)) (rotate : RotArg) :
    Gen.AtomGrid.init env rg degrees sizes center rotate =
      initArgs Gen.AtomGrid.input_type_check env rg degrees sizes center rotate := by
  unfold Gen.AtomGrid.init initArgs rotateCheck
  cases center <;> simp only <;>
  · generalize hcc : Gen.AtomGrid.input_type_check rg _ = chk
    cases chk with
    | error e => init_eval
    | ok u =>
      cases h1 : rotate.isIntOrNpInteger <;> cases h3 : rotate.isNotFalse <;>
      cases h2 : decide ((0 : Int) ≤ rotate.val ∧ rotate.val < (2 : Int) ^ 32 - (rg.points.length : Int)) <;>
      · rcases sizes with _ | ss | _
        · rcases degrees with _ | ds | _
          · init_eval; try rfl
          · init_eval
            first | rfl | (match ds with
              | [] => rfl
              | [d] => rfl
              | d :: e :: r => simp)
          · init_eval; try rfl
        · init_eval
          first | rfl | (cases convertSizes env.npointsTbl ss with
            | none => rfl
            | some ds =>
              match ds with
              | [] => rfl
              | [d] => rfl
              | d :: e :: r => simp)
        · init_eval; try rfl

theorem nodes_length (rg : RGrid K) (hlen : rg.points.length = rg.weights.length) :
    rg.nodes.length = rg.points.length := by
  unfold RGrid.nodes; rw [List.length_zip, ← hlen, Nat.min_self]

theorem generateAtomicGrid_int (env : Env K) (rg : RGrid K) (degs : List Nat) (rot : Nat) (c : V3 K) :
    generateAtomicGrid env rg degs (.int rot) [c.x, c.y, c.z] = generate env rg.nodes degs rot c := by
  have h : ¬ ((rot : Int) < 0) := by omega
  simp only [generateAtomicGrid, V3.ofList?, RotArg.isInt, RotArg.val, ↓reduceIte, h, Int.toNat_natCast]

macro "init_eval_int" : tactic => `(tactic|
  simp only [bind, Except.bind, requestOf, SeqArg.isNotNone, SeqArg.isSeq, SeqArg.asList,
    RotArg.isIntOrNpInteger, RotArg.isNotFalse, Bool.not_true, Bool.not_false, Bool.and_false,
    Bool.and_true, Bool.true_and, Bool.false_eq_true, ↓reduceIte, not_true_eq_false, not_false_eq_true,
    effectiveDegrees, generateAtomicGrid_int, convertAngularSizesToDegrees])

/-- **For an `int` seed and an accepted radial grid / centre the regenerated constructor is the
model constructor `AtomGrid.init`** that all theorems of `Props/C05.lean` are about (`init_spec`,
`slice_shell`, `shell_grid_spec`, …): the seed range check first, then the request. -/
theorem gen_init_int_eq_model [LT K] [LE K] [DecidableLT K] [DecidableLE K] (env : Env K) (rg : RGrid K) (degrees sizes : SeqArg) (c : V3 K) (rot : Nat)
    (hchk : Gen.AtomGrid.input_type_check rg [c.x, c.y, c.z] = .ok ()) (hlen : rg.points.length = rg.weights.length) :
    Gen.AtomGrid.init env rg degrees sizes (some [c.x, c.y, c.z]) (.int rot) =
      if ¬ rot < 2 ^ 32 - rg.points.length then .error .valueError else
      match requestOf degrees sizes with
      | .error e => .error e
      | .ok req => AtomGrid.init env rg.nodes req c rot := by
  have hn := nodes_length rg hlen
  unfold Gen.AtomGrid.init AtomGrid.init
  rw [hn]
  by_cases hr : rot < 2 ^ 32 - rg.points.length
  · have hb := rotateGuard_true (.int rot) rot rg.points.length rfl hr
    rw [if_neg (not_not.mpr hr)]
    cases sizes with
    | none =>
      cases degrees with
      | none => init_eval_int; simp only [hchk, hb]; rfl
      | other => init_eval_int; simp only [hchk, hb]; rfl
      | seq ds =>
        init_eval_int; simp only [hchk, hb, Bool.not_true, Bool.false_eq_true, ↓reduceIte]
        rw [if_neg (not_not.mpr hr)]
        match ds with
        | [] => rfl
        | [d] => rfl
        | d :: e :: r => simp
    | other =>
      cases degrees <;> (init_eval_int; simp only [hchk, hb]; rfl)
    | seq ss =>
      cases degrees <;>
      · init_eval_int; simp only [hchk, hb, Bool.not_true, Bool.false_eq_true, ↓reduceIte]
        rw [if_neg (not_not.mpr hr)]
        cases hcs : convertSizes env.npointsTbl ss with
        | none => rfl
        | some ds =>
          match ds with
          | [] => rfl
          | [d] => rfl
          | d :: e :: r => simp
  · have hb := rotateGuard_false (.int rot) rot rg.points.length rfl hr
    rw [if_pos hr]
    init_eval_int; simp only [hchk, hb]; rfl

theorem generateAtomicGrid_npInt (env : Env K) (rg : RGrid K) (degs : List Nat) (n : Int) (cl : List K)
    (hne : rg.nodes ≠ []) (g : Grid K) : generateAtomicGrid env rg degs (.npInt n) cl ≠ .ok g := by
  unfold generateAtomicGrid
  cases V3.ofList? cl with
  | none => simp
  | some c =>
    simp only [RotArg.isInt, Bool.false_eq_true, ↓reduceIte]
    by_cases hl : degs.length = rg.nodes.length
    · rw [if_neg (not_not.mpr hl)]
      cases degs with
      | nil =>
        exfalso; apply hne
        exact List.eq_nil_of_length_eq_zero (by simpa using hl.symm)
      | cons d ds =>
        simp only
        cases angular env d <;> simp
    · rw [if_pos hl]; simp


end

/-! ### `rotate` given as `bool` / NumPy integer -/
section
variable {K : Type} [Add K] [Sub K] [Mul K] [Div K] [NatCast K]

/-- **`rotate=True` / `rotate=False`** (the docstrings of `MolGrid` advertise "bool or int"): the
constructor treats `True` as the seed 1 and `False` as the seed 0 (no rotation) — same grid, same
exception (for fewer than 2³² radial points, so that the seed 0 passes the range test). -/
theorem gen_init_bool [LT K] [LE K] [DecidableLT K] [DecidableLE K] (env : Env K) (rg : RGrid K)
    (degrees sizes : SeqArg) (center : Option (List K)) (b : Bool) (hn : rg.points.length < 2 ^ 32) :
    Gen.AtomGrid.init env rg degrees sizes center (.bool b) =
      Gen.AtomGrid.init env rg degrees sizes center (.int (if b then 1 else 0)) := by
  rw [gen_init_eq_model, gen_init_eq_model]
  cases b with
  | true => rfl
  | false =>
    have hb := rotateGuard_true (.int 0) 0 rg.points.length rfl (by omega)
    unfold initArgs rotateCheck
    simp only [RotArg.isNotFalse, RotArg.isIntOrNpInteger, Bool.false_and, Bool.false_eq_true, ↓reduceIte, Bool.not_true,
      Bool.true_and]
    rw [hb]
    simp only [Bool.not_true, Bool.false_eq_true, ↓reduceIte]
    rfl

/-- **A NumPy-integer seed never yields a grid** (code as it is): the constructor's own check
accepts `np.integer`, but the shell loop of `_generate_atomic_grid` insists on `isinstance(rotate,
int)` and raises `ValueError`. Rejected consistently, for every radial grid with at least one node. -/
theorem gen_init_npInt_rejected [LT K] [LE K] [DecidableLT K] [DecidableLE K] (env : Env K) (rg : RGrid K)
    (degrees sizes : SeqArg) (center : Option (List K)) (n : Int) (hne : rg.nodes ≠ []) (g : Grid K) :
    Gen.AtomGrid.init env rg degrees sizes center (.npInt n) ≠ .ok g := by
  rw [gen_init_eq_model]
  unfold initArgs
  intro h
  simp only at h
  split at h
  · cases h
  · split at h
    · cases h
    · split at h
      · cases h
      · split at h
        · cases h
        · exact generateAtomicGrid_npInt env rg _ n _ hne g h
end

/-! ### `from_pruned` -/
section
variable {K : Type} [Add K] [Sub K] [Mul K] [Div K] [NatCast K]

/-- which sector request `from_pruned` works on: `s_sectors` wins when given; neither given ends
in `TypeError` (`len()` of `np.array(None)`) -/
def sectorRequest : Option (List Nat) → Option (List Nat) → Except Err Request
  | _, some ss => .ok (.sizes ss)
  | some ds, none => .ok (.degrees ds)
  | none, none => .error .typeError

theorem init_eq_of_rot_checked (env : Env K) (rg : List (K × K)) (req : Request) (c : V3 K) (rot : Nat) (n : Nat)
    (hn : rg.length = n) :
    (if ¬ rot < 2 ^ 32 - n then (.error .valueError : Except Err (Grid K)) else AtomGrid.init env rg req c rot) =
      AtomGrid.init env rg req c rot := by
  by_cases hr : rot < 2 ^ 32 - n
  · rw [if_neg (not_not.mpr hr)]
  · rw [if_pos hr]
    unfold AtomGrid.init
    rw [hn, if_pos hr]

/-- **The regenerated `from_pruned` is the hand model**: `s_sectors` (converted through C12) before
`d_sectors`, `_input_type_check`, `_generate_degree_from_radius`, then the constructor with
`degrees=` — i.e. `AtomGrid.init` on the degree list the sector lookup produced. -/
theorem gen_from_pruned_eq_model [LT K] [LE K] [DecidableLT K] [DecidableLE K] (env : Env K) (rg : RGrid K)
    (radius : K) (rs : List K) (d s : Option (List Nat)) (c : V3 K) (rot : Nat)
    (hchk : Gen.AtomGrid.input_type_check rg [c.x, c.y, c.z] = .ok ())
    (hlen : rg.points.length = rg.weights.length) :
    Gen.AtomGrid.from_pruned env rg radius rs d s (some [c.x, c.y, c.z]) (.int rot) =
      match sectorRequest d s with
      | .error e => .error e
      | .ok sect =>
        match generateDegreeFromRadius env.degreesTbl env.npointsTbl rg.points radius rs sect with
        | .error e => .error e
        | .ok degs => AtomGrid.init env rg.nodes (.degrees degs) c rot := by
  have hgd := gen_generate_degree_eq_model env rg radius rs
  have hn := nodes_length rg hlen
  have hinit : ∀ degs : List Nat,
      Gen.AtomGrid.init env rg (SeqArg.seq degs) SeqArg.none (some [c.x, c.y, c.z]) (.int rot) =
        AtomGrid.init env rg.nodes (.degrees degs) c rot := by
    intro degs
    rw [gen_init_int_eq_model env rg _ _ c rot hchk hlen]
    exact init_eq_of_rot_checked env rg.nodes _ c rot _ hn
  unfold Gen.AtomGrid.from_pruned
  cases s with
  | none =>
    cases d with
    | none =>
      simp only [Option.isSome, Bool.false_eq_true, ↓reduceIte, bind, Except.bind, hchk, hgd.2, sectorRequest]
    | some ds =>
      simp only [Option.isSome, Bool.false_eq_true, ↓reduceIte, bind, Except.bind, hchk, hgd.1, sectorRequest, hinit]
      cases generateDegreeFromRadius env.degreesTbl env.npointsTbl rg.points radius rs (.degrees ds) <;> rfl
  | some ss =>
    simp only [Option.isSome, ↓reduceIte, bind, Except.bind, pyNotNone, convertAngularSizesToDegrees, sectorRequest]
    have hsz : generateDegreeFromRadius env.degreesTbl env.npointsTbl rg.points radius rs (.sizes ss) =
        match convertSizes env.npointsTbl ss with
        | some ds => generateDegreeFromRadius env.degreesTbl env.npointsTbl rg.points radius rs (.degrees ds)
        | none => .error .valueError := by
      simp only [generateDegreeFromRadius]
      cases convertSizes env.npointsTbl ss <;> simp only
    rw [hsz]
    cases convertSizes env.npointsTbl ss with
    | none => rfl
    | some ds =>
      simp only [hchk, hgd.1, hinit]
      cases generateDegreeFromRadius env.degreesTbl env.npointsTbl rg.points radius rs (.degrees ds) <;> rfl
end

/-! ### the sector theorems over the regenerated code -/

/-- (5a, over the regenerated lookup) **Pruned sectors.** With ascending sector bounds and one more
degree than bounds, the code's `_find_degrees_for_radial_points` gives a radius in sector `k` the
degree `d_k`; it never indexes out of range; and — whatever the order of the radial array (ascending,
reversed, two rules back to back, repeated nodes) — the degree it returns at position `i` is the one
of the sector in which the radius `rpoints[i]` *itself* lies (not of its position). -/
theorem sector_degree_gen {K : Type} [LinearOrder K] (bounds : List K) (hs : bounds.Pairwise (· < ·))
    (ds : List Nat) (hl : ds.length = bounds.length + 1) (r : K) (k : Nat) (hk : k ≤ bounds.length)
    (hlo : ∀ h : 0 < k, bounds[k - 1]'(by omega) < r)
    (hhi : ∀ h : k < bounds.length, r ≤ bounds[k]) :
    Gen.AtomGrid.find_degrees_for_radial_points [r] bounds ds = .ok [ds[k]'(by omega)] ∧
    (∀ rpoints : List K, ∃ out, Gen.AtomGrid.find_degrees_for_radial_points rpoints bounds ds = .ok out ∧
      out.length = rpoints.length ∧
      ∀ i (h : i < rpoints.length) (h' : i < out.length),
        ds[sectorPosition bounds rpoints[i]]? = some out[i]) := by
  obtain ⟨_, h2, _⟩ := sector_degree bounds hs ds hl r k hk hlo hhi
  refine ⟨by rw [gen_find_degrees_eq_model]; exact h2, fun rp => ?_⟩
  rw [gen_find_degrees_eq_model]
  exact findDegrees_ok rp bounds ds hl

example : Gen.AtomGrid.find_degrees_for_radial_points ([5, 3, 2, 1, 0] : List Nat) [1, 2, 4] [3, 5, 7, 9] = .ok [9, 7, 5, 3, 3] ∧
    Gen.AtomGrid.find_degrees_for_radial_points ([0, 1, 2, 3, 5] : List Nat) [1, 2, 4] [3, 5, 7, 9] = .ok [3, 3, 5, 7, 9] := by
  decide

/-- (6', over the regenerated lookup) on the sector branch the table reader of `from_preset` is the
conversion of the tabulated sizes (C12) followed by the code's `_find_degrees_for_radial_points`
on the stored sector radii. -/
theorem preset_request_sector_gen {K : Type} [LinearOrder K] (toK : Nat × Nat → K) (np : List (Nat × Nat))
    (e : Entry) (hb : takesShellCountBranch e.preset e.atnum = false) (rp : List K) :
    presetRequest toK np e rp =
      match convertSizes np e.npt with
      | none => .error .valueError
      | some degs =>
        match Gen.AtomGrid.find_degrees_for_radial_points rp (e.radSectors.map toK) degs with
        | .error err => .error err
        | .ok ds => .ok (.degrees ds) := by
  unfold presetRequest
  simp only [hb, Bool.false_eq_true, ↓reduceIte, gen_find_degrees_eq_model]
  cases convertSizes np e.npt with
  | none => rfl
  | some degs =>
    simp only
    cases findDegreesForRadialPoints rp (e.radSectors.map toK) degs <;> rfl

section
variable {K : Type} [Add K] [Sub K] [Mul K] [Div K] [NatCast K]

theorem mapM_getDegree_ok (env : Env K) (files fp fs : List (Nat × Nat))
    (hok : C12.MethodOk env.degreesTbl env.npointsTbl files fp fs)
    (ds : List Nat) (hmax : ∀ d ∈ ds, d ≤ maxKey (keys env.degreesTbl)) :
    ∃ matched, ds.mapM (fun d => getDegreeAndSize0 env (some d) none) = .ok matched ∧
      matched.length = ds.length ∧
      ∀ j (hj : j < ds.length) (hj' : j < matched.length), ds[j] ≤ matched[j] ∧
        matched[j] ∈ keys env.degreesTbl ∧ ∀ d' ∈ keys env.degreesTbl, ds[j] ≤ d' → matched[j] ≤ d' := by
  induction ds with
  | nil => exact ⟨[], rfl, rfl, fun j hj => absurd hj (Nat.not_lt_zero _)⟩
  | cons d ds ih =>
    obtain ⟨m, hm, hml, hmg⟩ := ih (fun x hx => hmax x (by simp [hx]))
    obtain ⟨d', s', hr, hmem, _, _, hge, hleast⟩ :=
      C12.degree_request env.degreesTbl env.npointsTbl files fp fs hok d (hmax d (by simp))
    refine ⟨d' :: m, ?_, by simp [hml], ?_⟩
    · have h0 : getDegreeAndSize0 env (some d) none = .ok d' := by simp only [getDegreeAndSize0, hr]
      simp only [List.mapM_cons, h0, hm]; rfl
    · intro j hj hj'
      cases j with
      | zero => exact ⟨hge, List.mem_map.mpr ⟨(d', s'), hmem, rfl⟩, hleast⟩
      | succ j => simpa using hmg j (by simpa using hj) (by simpa using hj')

end

/-- (5, flagship for `from_pruned`, over the regenerated code) **`AtomGrid.from_pruned` builds a
product grid whose shell at radius `r` has the least supported degree not below the degree requested
for the sector `r` lies in** — for every accepted radial grid (any node order), radius, sector bounds,
one more sector degree than bounds (each within the method's range), centre and admissible seed, for
each angular method whose tables are in order (C12 `tables_ok`) and whose data files load. The grid
is the one of `init_spec` (via `gen_from_pruned_eq_model`), so all structure theorems apply to it;
which sector a radius lies in is `sector_degree_gen`. -/
theorem pruned_builds (env : Env ℝ) (files fp fs : List (Nat × Nat))
    (hok : C12.MethodOk env.degreesTbl env.npointsTbl files fp fs) (hload : LoadOk env)
    (rg : RGrid ℝ) (c : V3 ℝ) (hchk : Gen.AtomGrid.input_type_check rg [c.x, c.y, c.z] = .ok ())
    (hlen : rg.points.length = rg.weights.length) (radius : ℝ) (rs : List ℝ) (ds : List Nat)
    (hl : ds.length = rs.length + 1) (hmax : ∀ d ∈ ds, d ≤ maxKey (keys env.degreesTbl))
    (rot : Nat) (hrot : rot < 2 ^ 32 - rg.points.length) :
    ∃ g, Gen.AtomGrid.from_pruned env rg radius rs (some ds) none (some [c.x, c.y, c.z]) (.int rot) = .ok g ∧
      g.degrees.length = rg.points.length ∧
      ∀ i (hi : i < rg.points.length), ∃ d deg,
        ds[sectorPosition (rs.map fun b => b * radius) rg.points[i]]? = some d ∧
        g.degrees[i]? = some deg ∧ d ≤ deg ∧ deg ∈ keys env.degreesTbl ∧
        ∀ d' ∈ keys env.degreesTbl, d ≤ d' → deg ≤ d' := by
  have hn := nodes_length rg hlen
  obtain ⟨m, hm, hml, hmg⟩ := mapM_getDegree_ok env files fp fs hok ds hmax
  obtain ⟨out, hout, houtl, houtg⟩ := findDegrees_ok rg.points (rs.map fun b => b * radius) m
    (by rw [hml, hl, List.length_map])
  have hgd : generateDegreeFromRadius env.degreesTbl env.npointsTbl rg.points radius rs (.degrees ds) = .ok out := by
    rw [← (gen_generate_degree_eq_model env rg radius rs).1 ds]
    unfold Gen.AtomGrid.generate_degree_from_radius
    simp only [npArrayOpt, NpArr.len, NpArr.iter, npMulScalar, bind, Except.bind, List.length_map, hm,
      gen_find_degrees_eq_model]
    have h1 : ¬ ((ds.length : Int) - (rs.length : Int) ≠ 1) := by omega
    rw [if_neg (by simpa using h1)]
    rw [hout]; rfl
  have houtn : out.length = rg.nodes.length := by rw [houtl, hn]
  have hdegs := effectiveDegrees_degrees env.npointsTbl rg.nodes.length out houtn
  -- every entry of `out` is a matched (= supported) degree
  have hkey : ∀ i (hi : i < out.length), ∃ k, ∃ hk : k < ds.length, ∃ hk' : k < m.length,
      sectorPosition (rs.map fun b => b * radius) (rg.points[i]'(by omega)) = k ∧ out[i] = m[k] := by
    intro i hi
    have h1 := houtg i (by omega) hi
    have hp : sectorPosition (rs.map fun b => b * radius) (rg.points[i]'(by omega)) < m.length := by
      have := sectorPosition_le (rs.map fun b => b * radius) (rg.points[i]'(by omega))
      rw [List.length_map] at this; omega
    rw [List.getElem?_eq_getElem hp] at h1
    exact ⟨_, by omega, hp, rfl, (Option.some.inj h1).symm⟩
  obtain ⟨g, hg⟩ := init_succeeds env files fp fs hok hload rg.nodes (.degrees out) c rot (by rw [hn]; exact hrot)
    out hdegs houtn (by
      intro d hd
      obtain ⟨i, hi, rfl⟩ := List.getElem_of_mem hd
      obtain ⟨k, hk, hk', _, he⟩ := hkey i hi
      rw [he]; exact le_maxKey (hmg k hk hk').2.1)
  refine ⟨g, ?_, ?_, ?_⟩
  · rw [gen_from_pruned_eq_model env rg radius rs (some ds) none c rot hchk hlen]
    simp only [sectorRequest, hgd]
    exact hg
  · have := (init_spec env rg.nodes (.degrees out) c rot g hg).2.2.2.2.2.2.2.2.1
    rw [this, hn]
  · intro i hi
    obtain ⟨degs, hdegs2, hall⟩ := built_degree_not_below_request env files fp fs hok rg.nodes (.degrees out) c rot g hg
    rw [hdegs] at hdegs2
    have hdd : degs = out := (Except.ok.inj hdegs2).symm
    obtain ⟨d0, deg, hd0, hdeg, hle, hmem, hleast⟩ := hall i (by rw [hn]; exact hi)
    have hi' : i < out.length := by omega
    obtain ⟨k, hk, hk', hpos, he⟩ := hkey i hi'
    have hd0' : d0 = m[k] := by
      rw [hdd, List.getElem?_eq_getElem hi'] at hd0
      rw [← he]; exact (Option.some.inj hd0).symm
    obtain ⟨h1, h2, h3⟩ := hmg k hk hk'
    have hdegeq : deg = m[k] := by
      apply Nat.le_antisymm
      · exact hleast m[k] h2 (by rw [hd0'])
      · rw [← hd0']; exact hle
    refine ⟨ds[k], deg, ?_, hdeg, ?_, hmem, ?_⟩
    · rw [hpos]; exact List.getElem?_eq_getElem hk
    · rw [hdegeq]; exact h1
    · intro d' hd' hle'; rw [hdegeq]; exact h3 d' hd' hle'

/-! ### non-vacuity of the hypotheses used above -/

/-- `_input_type_check`: an accepted grid (with an `r = 0` node, unsorted), a negative node, a
negative domain start, an empty grid, a centre of the wrong shape. -/
example :
    Gen.AtomGrid.input_type_check (K := Int) ⟨true, some (0, 100), [2, 0, 1], [1, 1, 1]⟩ [0, 0, 0] = .ok () ∧
    Gen.AtomGrid.input_type_check (K := Int) ⟨true, none, [1, -2], [1, 1]⟩ [0, 0, 0] = .error .typeError ∧
    Gen.AtomGrid.input_type_check (K := Int) ⟨true, some (-1, 1), [1, 2], [1, 1]⟩ [0, 0, 0] = .error .typeError ∧
    Gen.AtomGrid.input_type_check (K := Int) ⟨true, none, [], []⟩ [0, 0, 0] = .error .valueError ∧
    Gen.AtomGrid.input_type_check (K := Int) ⟨false, none, [1], [1]⟩ [0, 0, 0] = .error .typeError ∧
    Gen.AtomGrid.input_type_check (K := Int) ⟨true, none, [1], [1]⟩ [0, 0] = .error .valueError := by
  decide

/-- the radial grid used below: nodes `2, 1` (descending), weights `1, 1`, no domain -/
def exampleRGrid : RGrid ℝ := ⟨true, none, [2, 1], [1, 1]⟩

theorem exampleRGrid_accepted : Gen.AtomGrid.input_type_check exampleRGrid [0, 0, 0] = .ok () := by
  rw [gen_input_type_check_spec]
  refine ⟨rfl, ?_, ?_, ?_, rfl⟩
  · intro d h; simp [exampleRGrid] at h
  · simp [exampleRGrid]
  · intro r hr
    simp only [exampleRGrid, List.mem_cons, List.not_mem_nil, or_false] at hr
    rcases hr with rfl | rfl <;> norm_num

open GridVerif.Gen.Angular in
/-- non-vacuity of `gen_init_int_eq_model`, `gen_from_pruned_eq_model`, `pruned_builds`,
`gen_init_npInt_rejected`: the shipped Lebedev tables, a loader returning arrays of the tabulated
lengths, the accepted descending radial grid above, two sectors with degrees 3 and 5 (supported). -/
example : ∃ env : Env ℝ,
    C12.MethodOk env.degreesTbl env.npointsTbl lebedevFiles lebedevFilePoints lebedevFileShape ∧
    LoadOk env ∧ Gen.AtomGrid.input_type_check exampleRGrid [(0 : ℝ), 0, 0] = .ok () ∧
    exampleRGrid.points.length = exampleRGrid.weights.length ∧ exampleRGrid.nodes ≠ [] ∧
    ([3, 5] : List Nat).length = ([3 / 2] : List ℝ).length + 1 ∧
    (∀ d ∈ ([3, 5] : List Nat), d ≤ maxKey (keys env.degreesTbl)) ∧ 7 < 2 ^ 32 - exampleRGrid.points.length := by
  refine ⟨⟨lebedevDegrees, lebedevNPoints,
    fun d => (lookup lebedevDegrees d).map fun s => (List.replicate s ⟨1, 0, 0⟩, List.replicate s 1),
    fun _ => M3.one⟩, C12.tables_ok.1, ?_, exampleRGrid_accepted, rfl, by simp [exampleRGrid, RGrid.nodes], rfl, ?_, ?_⟩
  · intro d s h
    refine ⟨List.replicate s ⟨1, 0, 0⟩, List.replicate s 1, ?_, by simp, by simp⟩
    simp only [C12.lookup_of_mem C12.tables_ok.1.1 h, Option.map_some]
  · have : ∀ d ∈ ([3, 5] : List Nat), d ≤ maxKey (keys lebedevDegrees) := by decide +kernel
    exact this
  · simp [exampleRGrid]

end GridVerif.C05

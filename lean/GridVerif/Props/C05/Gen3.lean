/-
  C05, part 3 (round 3) — theorems about the further definitions regenerated from `atomgrid.py`
  (`Gen/AtomGrid.lean`): `get_shell_grid`, `_generate_atomic_grid` (the shell loop included),
  `from_preset`, and the default values of the parameters.

  As in part 2, every generated definition is proved equal to the hand model the structure theorems
  of `Props/C05.lean` are about, so that those theorems are statements about the code as it is now:
  a source change inside the translator's vocabulary changes the generated text and breaks a proof
  here; a change outside it makes the translator raise.
-/
import GridVerif.Props.C05.Gen

set_option linter.unusedSectionVars false
set_option linter.unusedVariables false
set_option linter.unusedSimpArgs false

namespace GridVerif.C05
open GridVerif.AtomGrid GridVerif.Bisect GridVerif.Gen.Presets

/-! ### helper facts about the round-3 primitives -/

theorem pyItem_natCast {α : Type} (l : List α) (i : Nat) (h : i < l.length) :
    pyItem l (i : Int) = .ok l[i] := by
  unfold pyItem
  have h1 : ¬ ((i : Int) < 0) := by omega
  simp only [h1, ↓reduceIte, Int.toNat_natCast, List.getElem?_eq_getElem h]

theorem pyItem_natCast_none {α : Type} (l : List α) (i : Nat) (h : l.length ≤ i) :
    pyItem l (i : Int) = .error .indexError := by
  unfold pyItem
  have h1 : ¬ ((i : Int) < 0) := by omega
  simp only [h1, ↓reduceIte, Int.toNat_natCast, List.getElem?_eq_none h]

section
variable {K : Type} [Add K] [Sub K] [Mul K] [Div K] [NatCast K]

theorem rRandomMatrix_ok (env : Env K) (s : Nat) (h : s < 4294967296) :
    rRandomMatrix env (s : Int) = .ok (env.rotation s) := by
  unfold rRandomMatrix
  show (match (Int.ofNat s) with
    | .ofNat n => if n < 4294967296 then Except.ok (env.rotation n) else Except.error Err.valueError
    | .negSucc _ => Except.error Err.valueError) = _
  simp only [h, ↓reduceIte]

/-! ### `get_shell_grid` -/

/-- **The regenerated `get_shell_grid` is the hand model `getShellGrid`** (the one `shell_grid_spec`
and `shell_grid_rejects` are about): the index guard `0 <= index < len(self.degrees)` (negative
indices are rejected, not wrapped), `AngularGrid(degree=self.degrees[index])`, the rotation by the
matrix of seed `self.rotate + index` applied as `pts.dot(rot_mt)` when `self.rotate != 0`, the
scaling by the radial node, the weights times the radial weight and — when `r_sq is True` — times
`r**2`, and the two setters. Hypotheses: the grid object has one degree per radial node and its
seeds are below `2**32` (both hold for every grid the constructor builds: `init_spec`). -/
theorem gen_get_shell_grid_eq_model (env : Env K) (g : Grid K) (index : Int) (rSq : Bool)
    (hl : g.degrees.length = g.rgrid.length) (hrot : g.rotate + g.rgrid.length ≤ 4294967296) :
    (Gen.AtomGrid.get_shell_grid env g index rSq).map (fun a => (a.points, a.weights)) =
      getShellGrid env g index rSq := by
  unfold Gen.AtomGrid.get_shell_grid getShellGrid
  by_cases hc : 0 ≤ index ∧ index < (g.degrees.length : Int)
  · rw [if_neg (not_not.mpr hc)]
    obtain ⟨i, rfl⟩ := Int.eq_ofNat_of_zero_le hc.1
    have hi : i < g.degrees.length := by omega
    have hi' : i < g.rgrid.length := by omega
    have hdec : decide ((0 : Int) ≤ (i : Int) ∧ (i : Int) < (g.degrees.length : Int)) = true := decide_eq_true hc
    have h3 : ((g.rotate : Int) + (i : Int)) = ((g.rotate + i : Nat) : Int) := by omega
    have hR := rRandomMatrix_ok env (g.rotate + i) (by omega)
    rcases hang : angular env g.degrees[i] with e | ⟨deg, p, wt⟩
    · simp only [hdec, Bool.not_true, Bool.false_eq_true, ↓reduceIte, Int.toNat_natCast,
        List.getElem?_eq_getElem hi, List.getElem?_eq_getElem hi', pyItem_natCast _ _ hi, pyItem_natCast _ _ hi',
        bind, Except.bind, pure, Except.pure, angularGrid, hang]
      rfl
    · by_cases hr : g.rotate = 0
      · have h1 : decide (g.rotate ≠ 0) = false := by simp [hr]
        have h2 : shellGridRotates g.rotate = false := by simp [shellGridRotates, hr]
        cases rSq <;>
        · simp only [hdec, Bool.not_true, Bool.false_eq_true, ↓reduceIte, Int.toNat_natCast,
            List.getElem?_eq_getElem hi, List.getElem?_eq_getElem hi', pyItem_natCast _ _ hi, pyItem_natCast _ _ hi',
            bind, Except.bind, pure, Except.pure, angularGrid, hang, h1, h2]
          simp [Except.map, npMulRows, npMulScalar, V3.scaleSG, shellGridScale, shellGridWeight, shellGridWeightRsq,
            Function.comp_def]
      · have h1 : decide (g.rotate ≠ 0) = true := by simp [hr]
        have h2 : shellGridRotates g.rotate = true := by simp [shellGridRotates, hr]
        cases rSq <;>
        · simp only [hdec, Bool.not_true, Bool.false_eq_true, ↓reduceIte, Int.toNat_natCast,
            List.getElem?_eq_getElem hi, List.getElem?_eq_getElem hi', pyItem_natCast _ _ hi, pyItem_natCast _ _ hi',
            bind, Except.bind, pure, Except.pure, angularGrid, hang, h1, h2, h3, hR]
          simp [Except.map, npMulRows, npMulScalar, npMatMul, V3.scaleSG, shellGridScale, shellGridWeight,
            shellGridWeightRsq, shellGridSeed, Function.comp_def]
  · rw [if_pos hc]
    have hdec : decide ((0 : Int) ≤ index ∧ index < (g.degrees.length : Int)) = false := decide_eq_false hc
    simp only [hdec, Bool.not_false, ↓reduceIte, bind, Except.bind]
    rfl


/-! ### `_generate_atomic_grid`: the loop body, the loop, the function -/

theorem angularGrid_ok (env : Env K) (d deg : Nat) (p : List (V3 K)) (wt : List K)
    (h : angular env d = .ok (deg, p, wt)) : angularGrid env d = .ok ⟨deg, p, wt⟩ := by
  simp only [angularGrid, h]

theorem angularGrid_error (env : Env K) (d : Nat) (e : Err) (h : angular env d = .error e) :
    angularGrid env d = .error e := by
  simp only [angularGrid, h]

/-- the shell the loop assembles from the radial node `rw`, the angular grid `(p, wt)` and seed `rot + i` -/
def loopShell (env : Env K) (rot i : Nat) (rw : K × K) (p : List (V3 K)) (wt : List K) : Shell K :=
  ⟨rw.1, rw.2, p, wt, if rotates rot then some (env.rotation (shellSeed rot i)) else none⟩

/-- **One iteration of the regenerated shell loop**, for an `int` (or `bool`) seed: when
`AngularGrid(degree=deg_i)` succeeds, the iteration appends the shell's scaled (and, for a non-zero
seed, rotated by the matrix of seed `rotate + i` applied as `points @ rot_mt`) points and its weights
`ω · w_i · r_i**2`, writes `indices[i + 1] = indices[i] + len(points)` and records the resolved degree. -/
theorem loop_body_ok (env : Env K) (rg : RGrid K) (rotate : RotArg) (rot : Nat)
    (hint : rotate.isInt = true) (hval : rotate.val = (rot : Int))
    (ap : List (List (V3 K))) (aw : List (List K)) (idx ad : List Nat) (i d : Nat)
    (deg : Nat) (p : List (V3 K)) (wt : List K) (hang : angular env d = .ok (deg, p, wt))
    (rw : K × K) (hrw : rg.nodes[i]? = some rw) (a : Nat) (ha : idx[i]? = some a) (hi1 : i + 1 < idx.length)
    (hs : rot + i < 4294967296) :
    Gen.AtomGrid.generate_atomic_grid_loop env rg rotate ap aw idx ad i d =
      .ok (ap ++ [(loopShell env rot i rw p wt).points], aw ++ [(loopShell env rot i rw p wt).weights],
           idx.set (i + 1) (a + p.length), ad ++ [deg]) := by
  have hil : i < rg.nodes.length := by
    rcases Nat.lt_or_ge i rg.nodes.length with h | h
    · exact h
    · rw [List.getElem?_eq_none h] at hrw; cases hrw
  have hnode : pyItem rg.nodes (i : Int) = .ok rw := by
    rw [pyItem_natCast _ _ hil]
    rw [List.getElem?_eq_getElem hil] at hrw
    exact congrArg Except.ok (Option.some.inj hrw)
  have hget : npGetItem idx i = .ok a := by simp only [npGetItem, ha]
  have hset : ∀ v, npSetItem idx (i + 1) v = .ok (idx.set (i + 1) v) := by
    intro v; simp only [npSetItem, hi1, ↓reduceIte]
  have hA := angularGrid_ok env d deg p wt hang
  have h3 : ((rot : Int) + (i : Int)) = ((rot + i : Nat) : Int) := by omega
  have hR := rRandomMatrix_ok env (rot + i) hs
  unfold Gen.AtomGrid.generate_atomic_grid_loop
  by_cases hr : rot = 0
  · have h1 : decide ((rot : Int) ≠ (0 : Int)) = false := by simp [hr]
    simp only [hA, hint, hval, h1, hnode, hget, hset, bind, Except.bind, pure, Except.pure, Bool.not_true,
      Bool.false_eq_true, ↓reduceIte]
    simp [loopShell, rotates, hr, Shell.points, Shell.weights, applyRot, V3.scale, scalePoint, shellWeight, npMulRows,
      npMulScalar, Function.comp_def]
  · have h1 : decide ((rot : Int) ≠ (0 : Int)) = true := by
      apply decide_eq_true; omega
    simp only [hA, hint, hval, h1, h3, hR, hnode, hget, hset, bind, Except.bind, pure, Except.pure, Bool.not_true,
      Bool.false_eq_true, ↓reduceIte]
    simp [loopShell, rotates, hr, shellSeed, Shell.points, Shell.weights, applyRot, V3.scale, scalePoint, shellWeight,
      npMulRows, npMatMul, npMulScalar, Function.comp_def]

theorem loop_body_error (env : Env K) (rg : RGrid K) (rotate : RotArg)
    (ap : List (List (V3 K))) (aw : List (List K)) (idx ad : List Nat) (i d : Nat) (e : Err)
    (hang : angular env d = .error e) :
    Gen.AtomGrid.generate_atomic_grid_loop env rg rotate ap aw idx ad i d = .error e := by
  unfold Gen.AtomGrid.generate_atomic_grid_loop
  simp only [angularGrid_error env d e hang, bind, Except.bind]

/-- for a seed that is neither `int` nor `bool` the first iteration raises `ValueError` right after
`AngularGrid(degree=deg_i)` -/
theorem loop_body_nonint (env : Env K) (rg : RGrid K) (rotate : RotArg) (hint : rotate.isInt = false)
    (ap : List (List (V3 K))) (aw : List (List K)) (idx ad : List Nat) (i d : Nat) (a : Nat × List (V3 K) × List K)
    (hang : angular env d = .ok a) :
    Gen.AtomGrid.generate_atomic_grid_loop env rg rotate ap aw idx ad i d = .error .valueError := by
  obtain ⟨deg, p, wt⟩ := a
  unfold Gen.AtomGrid.generate_atomic_grid_loop
  simp only [angularGrid_ok env d deg p wt hang, hint, bind, Except.bind, Bool.not_false, ↓reduceIte]
  rfl

theorem set_after_prefix (pre : List Nat) (a v : Nat) (rest : List Nat) :
    (pre ++ a :: 0 :: rest).set (pre.length + 1) v = (pre ++ [a]) ++ v :: rest := by
  induction pre with
  | nil => rfl
  | cons x xs ih =>
    simp only [List.cons_append, List.length_cons, List.set_cons_succ, List.append_assoc] at ih ⊢
    rw [ih]

theorem loadAll_cons (env : Env K) (d : Nat) (ds : List Nat) :
    loadAll env (d :: ds) =
      (match angular env d with
        | .error e => .error e
        | .ok a =>
          match loadAll env ds with
          | .error e => .error e
          | .ok rest => .ok (a :: rest)) := rfl

/-- **The regenerated shell loop is the hand model's assembly** (`loadAll` + `assemble`), started at
shell `i` with `indices[i] = a`: it raises what the first failing `AngularGrid(degree=…)` raises;
otherwise the lists of per-shell points / weights are extended by the shells in order, the index
table is continued by the prefix sums, and the resolved degrees are recorded. -/
theorem loop_spec (env : Env K) (rg : RGrid K) (rotate : RotArg) (rot : Nat)
    (hint : rotate.isInt = true) (hval : rotate.val = (rot : Int)) :
    ∀ (ds : List Nat) (i : Nat) (ap : List (List (V3 K))) (aw : List (List K)) (pre : List Nat) (a : Nat) (ad : List Nat),
      pre.length = i → i + ds.length ≤ rg.nodes.length → rot + i + ds.length ≤ 4294967296 →
      (∀ e, loadAll env ds = .error e →
        pyForEnumerateFrom (fun st i deg_i => Gen.AtomGrid.generate_atomic_grid_loop env rg rotate st.1 st.2.1 st.2.2.1 st.2.2.2 i deg_i)
          i ds (ap, aw, pre ++ a :: List.replicate ds.length 0, ad) = .error e) ∧
      (∀ as, loadAll env ds = .ok as →
        pyForEnumerateFrom (fun st i deg_i => Gen.AtomGrid.generate_atomic_grid_loop env rg rotate st.1 st.2.1 st.2.2.1 st.2.2.2 i deg_i)
          i ds (ap, aw, pre ++ a :: List.replicate ds.length 0, ad) =
        .ok (ap ++ (assemble env.rotation rot i (rg.nodes.drop i) as).map Shell.points,
             aw ++ (assemble env.rotation rot i (rg.nodes.drop i) as).map Shell.weights,
             pre ++ indicesFrom a ((assemble env.rotation rot i (rg.nodes.drop i) as).map fun s => s.points.length),
             ad ++ as.map Prod.fst)) := by
  intro ds
  induction ds with
  | nil =>
    intro i ap aw pre a ad _ _ _
    refine ⟨fun e h => (by cases h), fun as h => ?_⟩
    have : as = [] := by
      have h' : (Except.ok [] : Except Err _) = .ok as := h
      exact (Except.ok.inj h').symm
    subst this
    simp [pyForEnumerateFrom, assemble, indicesFrom]
  | cons d ds ih =>
    intro i ap aw pre a ad hpre hlen hseed
    simp only [List.length_cons] at hlen hseed ⊢
    have hil : i < rg.nodes.length := by omega
    have hdrop : rg.nodes.drop i = rg.nodes[i] :: rg.nodes.drop (i + 1) := (List.drop_eq_getElem_cons hil)
    rw [loadAll_cons]
    rcases hang : angular env d with e | ⟨deg, p, wt⟩
    · refine ⟨fun e' h => ?_, fun as h => (by cases h)⟩
      have : e = e' := by simpa using h
      subst this
      simp only [pyForEnumerateFrom, loop_body_error env rg rotate _ _ _ _ i d e hang]
    · have hbody := loop_body_ok env rg rotate rot hint hval ap aw
        (pre ++ a :: List.replicate (ds.length + 1) 0) ad i d deg p wt hang rg.nodes[i]
        (List.getElem?_eq_getElem hil) a
        (by rw [List.getElem?_append_right (by omega)]; simp [hpre])
        (by simp; omega) (by omega)
      have hset : (pre ++ a :: List.replicate (ds.length + 1) 0).set (i + 1) (a + p.length) =
          (pre ++ [a]) ++ (a + p.length) :: List.replicate ds.length 0 := by
        rw [← hpre, List.replicate_succ]; exact set_after_prefix pre a _ _
      rw [hset] at hbody
      obtain ⟨ih1, ih2⟩ := ih (i + 1) (ap ++ [(loopShell env rot i rg.nodes[i] p wt).points])
        (aw ++ [(loopShell env rot i rg.nodes[i] p wt).weights]) (pre ++ [a]) (a + p.length) (ad ++ [deg])
        (by simp [hpre]) (by omega) (by omega)
      rcases hrest : loadAll env ds with e | as'
      · refine ⟨fun e' h => ?_, fun as h => (by cases h)⟩
        have : e = e' := by simpa using h
        subst this
        simp only [pyForEnumerateFrom, hbody]
        exact ih1 e hrest
      · refine ⟨fun e' h => (by cases h), fun as h => ?_⟩
        have : as = (deg, p, wt) :: as' := by
          have h' : (Except.ok ((deg, p, wt) :: as') : Except Err _) = .ok as := h
          exact (Except.ok.inj h').symm
        subst this
        simp only [pyForEnumerateFrom, hbody]
        rw [ih2 as' hrest, hdrop]
        simp [assemble, loopShell, indicesFrom, indicesStep, Shell.points, List.append_assoc]

/-- **The regenerated `_generate_atomic_grid` is the hand model of the assembly** (the component
`generateAtomicGrid` the regenerated constructor calls, hence — through `gen_init_eq_model` and
`init_spec` — the object of every structure theorem): the length guard, the loop of `loop_spec`
started with empty lists and `indices = zeros(n + 1)`, `np.vstack` / `np.hstack`, and the returned
tuple `(points, weights, indices, actual_degrees)`. For an `int` / `bool` seed in the range the
constructor admits; for any other seed (a NumPy integer, a float) the first shell raises `ValueError`
after its `AngularGrid` was built — in both cases exactly what `generateAtomicGrid` says. -/
theorem gen_generate_atomic_grid_eq_model (env : Env K) (rg : RGrid K) (degs : List Nat) (rotate : RotArg) (c : V3 K)
    (hlen : rg.points.length = rg.weights.length) (hne : degs ≠ [])
    (hrot : rotate.isInt = true → 0 ≤ rotate.val ∧ rotate.val + degs.length ≤ 4294967296) :
    Gen.AtomGrid.generate_atomic_grid env rg degs rotate =
      (generateAtomicGrid env rg degs rotate [c.x, c.y, c.z]).map
        fun g => (g.rawPoints, g.weights, g.indices, g.degrees) := by
  have hn := nodes_length rg hlen
  unfold Gen.AtomGrid.generate_atomic_grid generateAtomicGrid
  simp only [V3.ofList?]
  have hsz : rg.size = rg.points.length := rfl
  by_cases hl : degs.length = rg.points.length
  · have hd : decide (degs.length ≠ rg.size) = false := by simp [hl, hsz]
    have hl2 : ¬ (degs.length ≠ rg.nodes.length) := by omega
    simp only [hd, Bool.false_eq_true, ↓reduceIte, bind, Except.bind, pure, Except.pure, pyForEnumerate]
    cases hint : rotate.isInt
    · -- a seed that is not an `int`
      simp only [Bool.false_eq_true, ↓reduceIte]
      rw [if_neg hl2]
      match degs, hne with
      | d :: ds, _ =>
        simp only [pyForEnumerateFrom]
        rcases hang : angular env d with e | a
        · simp only [loop_body_error env rg rotate _ _ _ _ 0 d e hang]; rfl
        · simp only [loop_body_nonint env rg rotate hint _ _ _ _ 0 d a hang]; rfl
    · obtain ⟨h0, hs⟩ := hrot hint
      obtain ⟨rot, hval⟩ := Int.eq_ofNat_of_zero_le h0
      have hneg : ¬ (rotate.val < 0) := by omega
      simp only [↓reduceIte]
      rw [if_neg hneg]
      unfold generate
      rw [if_neg hl2]
      simp only [hval, Int.toNat_natCast]
      obtain ⟨l1, l2⟩ := loop_spec env rg rotate rot hint hval degs 0 [] [] [] 0 [] rfl (by omega) (by omega)
      have hz : npZerosInt (degs.length + 1) = [] ++ 0 :: List.replicate degs.length 0 := by
        simp [npZerosInt, List.replicate_succ]
      rw [hz]
      rcases hall : loadAll env degs with e | as
      · rw [l1 e hall]; rfl
      · rw [l2 as hall]
        -- at least one shell: `np.vstack` / `np.hstack` do not see an empty list
        match degs, hne, as, hall with
        | d :: ds, _, [], hall =>
          rw [loadAll_cons] at hall
          rcases h1 : angular env d with e | a <;> rw [h1] at hall
          · cases hall
          · rcases h2 : loadAll env ds with e | r <;> rw [h2] at hall <;> cases hall
        | d :: ds, _, a :: as', hall =>
          have hnl : rg.nodes ≠ [] := by
            intro h
            have h' := congrArg List.length h
            simp only [List.length_nil, List.length_cons] at h' hl
            omega
          obtain ⟨rw0, rest, hnodes⟩ := List.exists_cons_of_ne_nil hnl
          simp only [List.drop_zero, hnodes, assemble, List.map_cons, List.nil_append, npVstack, npHstack, Except.map,
            rawPoints, weights, indices]
  · have hd : decide (degs.length ≠ rg.size) = true := by simp [hl, hsz]
    have hl2 : degs.length ≠ rg.nodes.length := by omega
    simp only [hd, ↓reduceIte, bind, Except.bind]
    cases hint : rotate.isInt
    · simp only [Bool.false_eq_true, ↓reduceIte]
      rw [if_pos hl2]; rfl
    · have hneg : ¬ (rotate.val < 0) := by have := (hrot hint).1; omega
      simp only [↓reduceIte]
      rw [if_neg hneg]
      unfold generate
      rw [if_pos hl2]
      rfl

/-! ### `from_preset` -/

theorem mapM_const_ok {α : Type} (l : List α) (s : Nat) :
    l.mapM (fun _ => (Except.ok s : Except Err Nat)) = .ok (List.replicate l.length s) := by
  induction l with
  | nil => rfl
  | cons x xs ih => simp only [List.mapM_cons, ih, List.length_cons, List.replicate_succ]; rfl

theorem mapM_const_error {α : Type} (l : List α) (e : Err) (h : l ≠ []) :
    l.mapM (fun _ => (Except.error e : Except Err Nat)) = .error e := by
  cases l with
  | nil => exact absurd rfl h
  | cons x xs => simp only [List.mapM_cons]; rfl

theorem expandGo_cons (npt : List Nat) (idx c : Nat) (cs : List Nat) :
    expandGo npt idx (c :: cs) =
      if c = 0 then expandGo npt (idx + 1) cs else
      match npt[idx]? with
      | none => .error .indexError
      | some s =>
        match expandGo npt (idx + 1) cs with
        | .ok rest => .ok (List.replicate c s ++ rest)
        | .error e => .error e := by
  rw [expandGo]
  by_cases h : c = 0
  · simp only [h, ↓reduceIte]
  · simp only [h, ↓reduceIte]
    cases npt[idx]? with
    | none => rfl
    | some s => simp only; cases expandGo npt (idx + 1) cs <;> rfl

/-- **The shell-count comprehension**
`[npt[idx] for idx in range(len(rad)) for _ in range(rad[idx])]`, as regenerated (`pyFlatMapM` over
`range(len(rad))` with inner iteration `range(rad[idx])` and element `npt[idx]`), is the hand model
`expandGo` of `Model/AtomGrid.lean` (started at any index), for an integer `rad`. -/
theorem flatMap_expand (rad : RadArr K) (npt : List Nat) (hint : rad.isInt = true)
    (hlen : rad.counts.length = rad.len) :
    ∀ (cs : List Nat) (idx : Nat), rad.counts.drop idx = cs →
      pyFlatMapM (List.range' idx cs.length) (fun i => pyRangeOfItem rad i) (fun i _ => npGetItem npt i) =
        expandGo npt idx cs := by
  intro cs
  induction cs with
  | nil => intro idx _; rfl
  | cons c cs ih =>
    intro idx hdrop
    have hidx : idx < rad.counts.length := by
      rcases Nat.lt_or_ge idx rad.counts.length with h | h
      · exact h
      · rw [List.drop_eq_nil_of_le h] at hdrop; cases hdrop
    have hc : rad.counts[idx]? = some c := by
      rw [List.drop_eq_getElem_cons hidx] at hdrop
      rw [List.getElem?_eq_getElem hidx]
      exact congrArg some (List.cons.inj hdrop).1
    have hrest : rad.counts.drop (idx + 1) = cs := by
      rw [List.drop_eq_getElem_cons hidx] at hdrop
      exact (List.cons.inj hdrop).2
    have hrange : pyRangeOfItem rad idx = .ok (List.range c) := by
      unfold pyRangeOfItem
      have h1 : ¬ (rad.len ≤ idx) := by omega
      simp only [h1, ↓reduceIte, hint, Bool.not_true, Bool.false_eq_true, hc]
    have ih' := ih (idx + 1) hrest
    simp only [List.length_cons, List.range'_succ, pyFlatMapM, hrange, ih']
    rw [expandGo_cons]
    generalize expandGo npt (idx + 1) cs = r
    by_cases h0 : c = 0
    · subst h0
      simp only [List.range_zero, List.mapM_nil, ↓reduceIte, pure, Except.pure, List.nil_append]
      cases r <;> rfl
    · rw [if_neg h0]
      cases hn : npt[idx]? with
      | none =>
        have : npGetItem npt idx = .error .indexError := by simp only [npGetItem, hn]
        simp only [this]
        rw [mapM_const_error _ _ (by simp [h0])]
      | some s =>
        have : npGetItem npt idx = .ok s := by simp only [npGetItem, hn]
        simp only [this]
        rw [mapM_const_ok, List.length_range]
        cases r <;> rfl

theorem pyDictContains_eq {β : Type} (d : List (Nat × β)) (k : Nat) :
    pyDictContains d k = (d.find? fun kv => kv.1 == k).isSome := by
  induction d with
  | nil => rfl
  | cons x xs ih =>
    simp only [pyDictContains, List.any_cons, List.find?_cons] at ih ⊢
    cases x.1 == k <;> simp [ih]

/-- shape facts about every stored table the comprehension relies on: an integer `rad` has as many
counts as entries, a float `rad` is not empty (decided in the kernel over the regenerated tables) -/
def radWellFormed (e : Entry) : Bool :=
  if e.radIsInt then e.radCounts.length == e.radSectors.length else !e.radSectors.isEmpty

theorem entries_rad_wellformed : ∀ e ∈ entries, radWellFormed e = true := by
  decide +kernel

/-- the default radial grid of `from_preset(rgrid=None)`: `ValueError` unless the element is a key of
`_DEFAULT_POWER_RTRANSFORM_PARAMS`; else `PowerRTransform(rmin·Å/a₀, rmax·Å/a₀)` of `UniformInteger(npt)`,
the conversion factor being the quotient `angstrom / (atomic unit of length)` computed first -/
def defaultRadialGrid (world : PresetWorld K) (atnum : Nat) : Except Err (RGrid K) :=
  match world.defaultParams.find? (fun kv => kv.1 == atnum) with
  | none => .error .valueError
  | some kv =>
    .ok (world.powerTransformGrid (kv.2.1 * (world.angstrom / world.atomicUnitOfLength))
      (kv.2.2.1 * (world.angstrom / world.atomicUnitOfLength)) ⟨kv.2.2.2⟩)

/-- **Hand model of `AtomGrid.from_preset` on Python-level arguments** (what `Gen.AtomGrid.from_preset`
is proved equal to): the radial grid (given, or the element's default one), the centre default,
`_input_type_check`, `KeyError` for an element the preset does not tabulate, the table reader
`presetRequest` of `Model/AtomGrid.lean` (the one `preset_request_ok` / `preset_builds` are about), then
the regenerated constructor with `sizes=` (shell-count form) or `degrees=` (sector form). -/
def fromPresetArgs [LT K] [LE K] [DecidableLT K] [DecidableLE K] (env : Env K) (world : PresetWorld K)
    (atnum : Nat) (preset : Preset) (rgrid : Option (RGrid K)) (center : Option (List K)) (rotate : RotArg) :
    Except Err (Grid K) :=
  let rg? : Except Err (RGrid K) := match rgrid with
    | some rg => .ok rg
    | none => defaultRadialGrid world atnum
  match rg? with
  | .error e => .error e
  | .ok rg =>
    let c : List K := match center with
      | none => npZeros 3
      | some v => v
    match Gen.AtomGrid.input_type_check rg c with
    | .error e => .error e
    | .ok _ =>
      match (npLoadPruneGrid preset).find? (fun e => e.atnum == atnum) with
      | none => .error .keyError
      | some e =>
        match presetRequest world.toK env.npointsTbl e rg.points with
        | .error err => .error err
        | .ok (.sizes ss) => Gen.AtomGrid.init env rg .none (.seq ss) (some c) rotate
        | .ok (.degrees ds) => Gen.AtomGrid.init env rg (.seq ds) .none (some c) rotate

theorem npLoadPruneGrid_find (preset : Preset) (atnum : Nat) (e : Entry)
    (h : (npLoadPruneGrid preset).find? (fun e => e.atnum == atnum) = some e) :
    e ∈ entries ∧ e.preset = preset ∧ e.atnum = atnum := by
  have hm := List.mem_of_find?_eq_some h
  have hp := List.find?_some h
  unfold npLoadPruneGrid at hm
  rw [List.mem_filter] at hm
  exact ⟨hm.1, by simpa using hm.2, by simpa using hp⟩

/-- the shell-count reading as regenerated = the hand model's, for a well-formed stored table -/
theorem shellCount_gen_eq (toK : Nat × Nat → K) (e : Entry) (hwf : radWellFormed e = true) :
    pyFlatMapM (List.range (RadArr.len (⟨e.radIsInt, e.radCounts, e.radSectors.map toK⟩ : RadArr K)))
        (fun idx => pyRangeOfItem ⟨e.radIsInt, e.radCounts, e.radSectors.map toK⟩ idx) (fun idx _ => npGetItem e.npt idx) =
      (if ¬ e.radIsInt then .error .typeError else expandShellCounts e.radCounts e.npt) := by
  unfold radWellFormed at hwf
  cases hi : e.radIsInt with
  | true =>
    rw [hi] at hwf
    simp only [↓reduceIte, beq_iff_eq] at hwf
    have hlen : e.radCounts.length = RadArr.len (⟨true, e.radCounts, e.radSectors.map toK⟩ : RadArr K) := by
      simp [RadArr.len, hwf]
    have := flatMap_expand (K := K) ⟨true, e.radCounts, e.radSectors.map toK⟩ e.npt rfl hlen e.radCounts 0 rfl
    rw [List.range_eq_range', ← hlen, this]
    simp [expandShellCounts]
  | false =>
    rw [hi] at hwf
    simp only [Bool.false_eq_true, ↓reduceIte, Bool.not_eq_true', List.isEmpty_eq_false_iff] at hwf
    obtain ⟨s, ss, hs⟩ := List.exists_cons_of_ne_nil hwf
    simp [RadArr.len, hs, List.range_succ_eq_map, pyFlatMapM, pyRangeOfItem]

/-- **The regenerated `from_preset` is the hand model `fromPresetArgs`**, for every argument kind:
`rgrid=None` builds the element's default radial grid (`ValueError` for an element without default
parameters; the angstrom → bohr factor is `angstrom / atomic unit of length`, applied to `rmin` and
`rmax`), the centre default, `_input_type_check`, the two table reads (`KeyError`), and the
`if / elif / else` chain: for the presets the chain names (and `sg_1` above Z = 18) the shell-count
comprehension handed over as `sizes=`, otherwise the C12 conversion of the tabulated sizes and the
sector lookup handed over as `degrees=` — i.e. `presetRequest` followed by the constructor. -/
theorem gen_from_preset_eq_model [LT K] [LE K] [DecidableLT K] [DecidableLE K] (env : Env K) (world : PresetWorld K)
    (atnum : Nat) (preset : Preset) (rgrid : Option (RGrid K)) (center : Option (List K)) (rotate : RotArg) :
    Gen.AtomGrid.from_preset env world atnum preset rgrid center rotate =
      fromPresetArgs env world atnum preset rgrid center rotate := by
  -- the part after the radial grid is known
  have tail : ∀ rg : RGrid K,
      (do
        let center := (match center with | none => npZeros 3 | some v => v)
        Gen.AtomGrid.input_type_check rg center
        let data := npLoadPruneGrid preset
        let rad ← pruneRad world.toK data atnum
        let npt ← pruneNpt data atnum
        if [Preset.sg_0, Preset.sg_2, Preset.sg_3, Preset.g1, Preset.g2, Preset.g3, Preset.g4, Preset.g5, Preset.g6, Preset.g7].contains preset then
          let sector_sizes ← pyFlatMapM (List.range rad.len) (fun idx => pyRangeOfItem rad idx) (fun idx _ => npGetItem npt idx)
          Gen.AtomGrid.init env rg SeqArg.none (SeqArg.seq sector_sizes) (some center) rotate
        else
          if (preset == Preset.sg_1) && (decide (atnum > (18 : Nat))) then
            let sector_sizes ← pyFlatMapM (List.range rad.len) (fun idx => pyRangeOfItem rad idx) (fun idx _ => npGetItem npt idx)
            Gen.AtomGrid.init env rg SeqArg.none (SeqArg.seq sector_sizes) (some center) rotate
          else
            let degs ← convertAngularSizesToDegrees env npt
            let rad_degs ← Gen.AtomGrid.find_degrees_for_radial_points rg.points rad.values degs
            Gen.AtomGrid.init env rg (SeqArg.seq rad_degs) SeqArg.none (some center) rotate) =
      fromPresetArgs env world atnum preset (some rg) center rotate := by
    intro rg
    unfold fromPresetArgs
    simp only
    generalize (match center with | none => npZeros 3 | some v => v) = c
    rcases hchk : Gen.AtomGrid.input_type_check rg c with e | u
    · simp only [bind, Except.bind]
    · rcases hfind : (npLoadPruneGrid preset).find? (fun e => e.atnum == atnum) with _ | e
      · simp only [bind, Except.bind, pruneRad, pruneNpt, pruneEntry, hfind]
      · obtain ⟨hmem, hpre, hat⟩ := npLoadPruneGrid_find preset atnum e hfind
        have hwf := entries_rad_wellformed e hmem
        have hsc := shellCount_gen_eq world.toK e hwf
        have hbranch : takesShellCountBranch e.preset e.atnum =
            ([Preset.sg_0, Preset.sg_2, Preset.sg_3, Preset.g1, Preset.g2, Preset.g3, Preset.g4, Preset.g5, Preset.g6, Preset.g7].contains preset
              || ((preset == Preset.sg_1) && (decide (atnum > (18 : Nat))))) := by
          rw [hpre, hat]; unfold takesShellCountBranch
          cases ([Preset.sg_0, Preset.sg_2, Preset.sg_3, Preset.g1, Preset.g2, Preset.g3, Preset.g4, Preset.g5, Preset.g6, Preset.g7].contains preset) <;>
            cases ((preset == Preset.sg_1) && (decide (atnum > 18))) <;> rfl
        simp only [hfind]
        unfold presetRequest
        rw [hbranch]
        simp only [bind, Except.bind, pruneRad, pruneNpt, pruneEntry, hfind]
        cases hA : [Preset.sg_0, Preset.sg_2, Preset.sg_3, Preset.g1, Preset.g2, Preset.g3, Preset.g4, Preset.g5, Preset.g6, Preset.g7].contains preset
        · cases hB : ((preset == Preset.sg_1) && (decide (atnum > (18 : Nat))))
          · -- sector form
            simp only [Bool.false_eq_true, ↓reduceIte, Bool.or_self, convertAngularSizesToDegrees, gen_find_degrees_eq_model]
            cases convertSizes env.npointsTbl e.npt with
            | none => rfl
            | some degs =>
              simp only
              cases findDegreesForRadialPoints rg.points (List.map world.toK e.radSectors) degs <;> rfl
          · simp only [Bool.false_eq_true, ↓reduceIte, Bool.or_true, hsc]
            cases e.radIsInt
            · rfl
            · simp only [Bool.not_true, not_true_eq_false, ↓reduceIte, Bool.false_eq_true, not_false_eq_true]
              cases expandShellCounts e.radCounts e.npt <;> rfl
        · simp only [↓reduceIte, Bool.true_or, hsc]
          cases e.radIsInt
          · rfl
          · simp only [Bool.not_true, not_true_eq_false, ↓reduceIte, Bool.false_eq_true, not_false_eq_true]
            cases expandShellCounts e.radCounts e.npt <;> rfl
  cases rgrid with
  | some rg => exact tail rg
  | none =>
    have hcont := pyDictContains_eq world.defaultParams atnum
    rcases hf : world.defaultParams.find? (fun kv => kv.1 == atnum) with _ | kv
    · rw [hf] at hcont
      unfold Gen.AtomGrid.from_preset fromPresetArgs defaultRadialGrid
      simp only [hf, hcont, Option.isNone_none, Option.isSome_none, ↓reduceIte, Bool.false_eq_true, bind, Except.bind]
      rfl
    · rw [hf] at hcont
      have hget : pyDictGet world.defaultParams atnum = .ok kv.2 := by simp only [pyDictGet, hf]
      have ht := tail (world.powerTransformGrid (kv.2.1 * (world.angstrom / world.atomicUnitOfLength))
        (kv.2.2.1 * (world.angstrom / world.atomicUnitOfLength)) ⟨kv.2.2.2⟩)
      have hm : fromPresetArgs env world atnum preset none center rotate =
          fromPresetArgs env world atnum preset (some (world.powerTransformGrid (kv.2.1 * (world.angstrom / world.atomicUnitOfLength))
            (kv.2.2.1 * (world.angstrom / world.atomicUnitOfLength)) ⟨kv.2.2.2⟩)) center rotate := by
        unfold fromPresetArgs defaultRadialGrid
        simp only [hf]
      rw [hm, ← ht]
      unfold Gen.AtomGrid.from_preset
      simp only [hcont, hget, Option.isNone_none, Option.isSome_some, ↓reduceIte, bind, Except.bind, pyNotNone]
      rfl

end

/-! ### the property clauses over the regenerated code -/

theorem nodes_map_fst {K : Type} (rg : RGrid K) (hlen : rg.points.length = rg.weights.length) :
    rg.nodes.map Prod.fst = rg.points := by
  unfold RGrid.nodes
  exact List.map_fst_zip (by omega)

theorem nodes_getElem_fst {K : Type} (rg : RGrid K) (i : Nat) (h1 : i < rg.nodes.length) (h2 : i < rg.points.length) :
    rg.nodes[i].1 = rg.points[i] := by
  simp only [RGrid.nodes, List.getElem_zip]

/-- (6, flagship, over the regenerated code) **`AtomGrid.from_preset`, as translated from the current
source, builds a product grid for every shipped preset and every element it tabulates, with no shell
coarser than tabulated** — for the entry `e` that the code's own table read `data[f"{atnum}_rad"]` finds (so: every
tabulated pair), all pairs except (`sg_3`, 14); every accepted radial grid (of the
prescribed size `Σ rad` where the table is read in shell-count form; of any size and node order in
sector form), every centre, every admissible seed, each angular method whose tables are in order (C12)
and whose data files load. The grid is the one of `init_spec` / `preset_builds`. -/
theorem preset_builds_gen (env : Env ℝ) (world : PresetWorld ℝ) (files fp fs : List (Nat × Nat))
    (hok : C12.MethodOk env.degreesTbl env.npointsTbl files fp fs) (hload : LoadOk env)
    (preset : Preset) (atnum : Nat) (e : Entry)
    (hfind : (npLoadPruneGrid preset).find? (fun x => x.atnum == atnum) = some e)
    (hnd : ¬ (preset = .sg_3 ∧ atnum = 14)) (hsz : ∀ s ∈ e.npt, s ≤ maxKey (keys env.npointsTbl))
    (rg : RGrid ℝ) (c : V3 ℝ) (hchk : Gen.AtomGrid.input_type_check rg [c.x, c.y, c.z] = .ok ())
    (hlen : rg.points.length = rg.weights.length) (rot : Nat) (hrot : rot < 2 ^ 32 - rg.points.length) :
    (takesShellCountBranch e.preset e.atnum = true → rg.points.length = e.radSum →
      ∃ ss g, expandShellCounts e.radCounts e.npt = .ok ss ∧
        Gen.AtomGrid.from_preset env world atnum preset (some rg) (some [c.x, c.y, c.z]) (.int rot) = .ok g ∧
        AtomGrid.init env rg.nodes (.sizes ss) c rot = .ok g ∧ ss.length = rg.points.length ∧
        ∀ i (_ : i < rg.points.length) (hi' : i < ss.length), ∃ sh, g.shells[i]? = some sh ∧
          ss[i] ≤ sh.pts.length ∧ sh.wts.length = sh.pts.length) ∧
    (takesShellCountBranch e.preset e.atnum = false →
      ∃ ds g, Gen.AtomGrid.from_preset env world atnum preset (some rg) (some [c.x, c.y, c.z]) (.int rot) = .ok g ∧
        AtomGrid.init env rg.nodes (.degrees ds) c rot = .ok g ∧
        ∀ i (hi : i < rg.points.length), ∃ sh t, g.shells[i]? = some sh ∧
          e.npt[sectorPosition (e.radSectors.map world.toK) rg.points[i]]? = some t ∧
          t ≤ sh.pts.length ∧ sh.wts.length = sh.pts.length) := by
  have hn := nodes_length rg hlen
  have hfst := nodes_map_fst rg hlen
  obtain ⟨he, hpre, hat⟩ := npLoadPruneGrid_find preset atnum e hfind
  obtain ⟨hA, hB⟩ := preset_builds env files fp fs hok hload world.toK e he (by rw [hpre, hat]; exact hnd) hsz rg.nodes c rot
    (by rw [hn]; exact hrot)
  rw [hfst] at hA hB
  rw [hn] at hA
  have hgen : ∀ req : Request, presetRequest world.toK env.npointsTbl e rg.points = .ok req →
      Gen.AtomGrid.from_preset env world atnum preset (some rg) (some [c.x, c.y, c.z]) (.int rot) =
        AtomGrid.init env rg.nodes req c rot := by
    intro req hreq
    rw [gen_from_preset_eq_model]
    unfold fromPresetArgs
    simp only [hchk, hfind, hreq]
    cases req with
    | sizes ss =>
      simp only
      rw [gen_init_int_eq_model env rg _ _ c rot hchk hlen, if_neg (not_not.mpr hrot)]
      rfl
    | degrees ds =>
      simp only
      rw [gen_init_int_eq_model env rg _ _ c rot hchk hlen, if_neg (not_not.mpr hrot)]
      rfl
  constructor
  · intro hb hsize
    obtain ⟨ss, g, hreq, hg, hl, _, hall⟩ := hA hb hsize
    refine ⟨ss, g, ?_, by rw [hgen _ hreq]; exact hg, hg, hl, hall⟩
    -- the sizes handed over are the shell-count reading of the table
    unfold presetRequest at hreq
    rw [if_pos hb] at hreq
    split at hreq
    · cases hreq
    · split at hreq
      · cases hreq
      · rename_i ss' hss
        have : ss' = ss := by
          have h := Except.ok.inj hreq
          exact Request.sizes.inj h
        rw [← this]; exact hss
  · intro hb
    obtain ⟨ds, g, hreq, hg, hall⟩ := hB hb
    refine ⟨ds, g, by rw [hgen _ hreq]; exact hg, hg, fun i hi => ?_⟩
    obtain ⟨sh, t, h1, h2, h3, h4⟩ := hall i (by omega)
    rw [nodes_getElem_fst rg i (by omega) hi] at h2
    exact ⟨sh, t, h1, h2, h3, h4⟩

section
variable {K : Type} [Add K] [Sub K] [Mul K] [Div K] [NatCast K]

/-- (4, over the regenerated code, with the *default* `r_sq`) **The per-shell grid returned on
request**: for a grid the constructor built and an index in range, the regenerated
`get_shell_grid(i)` — `r_sq` left at the default value the source declares — returns exactly the slice
`indices[i]:indices[i+1]` of the stored (centre-free) points and of the weights. -/
theorem shell_grid_default_is_slice (env : Env K) (rg : List (K × K)) (req : Request) (c : V3 K) (rot : Nat)
    (g : Grid K) (h : init env rg req c rot = .ok g) (hwf : WF g.shells) (i : Nat) (hi : i < rg.length) :
    ∃ a b, g.indices[i]? = some a ∧ g.indices[i + 1]? = some b ∧
      (Gen.AtomGrid.get_shell_grid env g (i : Int) Gen.AtomGrid.get_shell_grid_default_r_sq).map
          (fun s => (s.points, s.weights)) =
        .ok (pySlice g.rawPoints a b, pySlice g.weights a b) := by
  obtain ⟨_, hr, hrg, hrot, _, _, _, _, hdl, _⟩ := init_spec env rg req c rot g h
  obtain ⟨s, a, b, _, ha, hb, hsg, _, hw⟩ := shell_grid_spec env rg req c rot g h i hi true
  refine ⟨a, b, ha, hb, ?_⟩
  have h32 : (2 : Nat) ^ 32 = 4294967296 := by decide
  rw [gen_get_shell_grid_eq_model env g (i : Int) _ (by rw [hdl, hrg]) (by rw [hr, hrg]; omega)]
  show getShellGrid env g (i : Int) true = _
  rw [hsg, hw hwf]
  rfl

/-- (4b, over the regenerated code) the regenerated `get_shell_grid` rejects every index outside
`0 ≤ index < number of shells` with `ValueError` — negative indices are not wrapped around. -/
theorem shell_grid_gen_rejects (env : Env K) (g : Grid K) (index : Int) (rSq : Bool)
    (h : ¬ (0 ≤ index ∧ index < g.degrees.length)) :
    ∀ s, Gen.AtomGrid.get_shell_grid env g index rSq ≠ .ok s := by
  intro s hs
  unfold Gen.AtomGrid.get_shell_grid at hs
  have hdec : decide ((0 : Int) ≤ index ∧ index < (g.degrees.length : Int)) = false := decide_eq_false h
  simp only [hdec, Bool.not_false, ↓reduceIte, bind, Except.bind] at hs
  cases hs

/-- **The declared default values** of the parameters of the translated functions, as regenerated:
one degree for all shells (its value, `[50]` today, is not part of the property), `sizes=None`, no rotation
(`rotate=0`, for which neither `_generate_atomic_grid` nor `get_shell_grid` rotates), `r_sq=True` (the
documented default: the shell grid carries the shell's weights), Lebedev grids (documented). -/
theorem default_arguments :
    (∃ d, Gen.AtomGrid.init_default_degrees = .seq [d]) ∧ Gen.AtomGrid.init_default_sizes = .none ∧
    Gen.AtomGrid.init_default_rotate = .int 0 ∧ Gen.AtomGrid.from_pruned_default_rotate = .int 0 ∧
    Gen.AtomGrid.from_preset_default_rotate = .int 0 ∧ Gen.AtomGrid.generate_atomic_grid_default_rotate = .int 0 ∧
    rotates (RotArg.val Gen.AtomGrid.init_default_rotate).toNat = false ∧
    shellGridRotates (RotArg.val Gen.AtomGrid.init_default_rotate).toNat = false ∧
    Gen.AtomGrid.get_shell_grid_default_r_sq = true ∧
    Gen.AtomGrid.from_pruned_default_d_sectors = none ∧ Gen.AtomGrid.from_pruned_default_s_sectors = none ∧
    Gen.AtomGrid.init_default_method = "lebedev" ∧ Gen.AtomGrid.from_pruned_default_method = "lebedev" ∧
    Gen.AtomGrid.from_preset_default_method = "lebedev" ∧ Gen.AtomGrid.generate_atomic_grid_default_method = "lebedev" := by
  refine ⟨⟨_, rfl⟩, ?_⟩
  decide

end

/-! ### concrete instances (non-vacuity; the generated definitions evaluated in the kernel) -/

/-- a toy world: two supported degrees, every angular grid has the two points `e_x, e_y` with weights
`1, 2`, every seed gives the cyclic permutation matrix -/
def exEnv : Env Int :=
  ⟨[(3, 6), (5, 14)], [(6, 3), (14, 5)], fun _ => some ([⟨1, 0, 0⟩, ⟨0, 1, 0⟩], [1, 2]),
   fun _ => ⟨⟨0, 1, 0⟩, ⟨0, 0, 1⟩, ⟨1, 0, 0⟩⟩⟩

set_option synthInstance.maxSize 1024 in
/-- the regenerated `_generate_atomic_grid` on radial nodes `2, 3` (weights `5, 7`), requested degrees
`3, 4` and seed 1: rotated and scaled points, weights `ω w r²`, index table, resolved degrees; and the
rejections: a length mismatch, a NumPy-integer seed, a degree beyond the table -/
example :
    Gen.AtomGrid.generate_atomic_grid exEnv ⟨true, none, [2, 3], [5, 7]⟩ [3, 4] (.int 1) =
      .ok ([⟨0, 2, 0⟩, ⟨0, 0, 2⟩, ⟨0, 3, 0⟩, ⟨0, 0, 3⟩], [20, 40, 63, 126], [0, 2, 4], [3, 5]) ∧
    Gen.AtomGrid.generate_atomic_grid exEnv ⟨true, none, [2, 3], [5, 7]⟩ [3, 4] Gen.AtomGrid.generate_atomic_grid_default_rotate =
      .ok ([⟨2, 0, 0⟩, ⟨0, 2, 0⟩, ⟨3, 0, 0⟩, ⟨0, 3, 0⟩], [20, 40, 63, 126], [0, 2, 4], [3, 5]) ∧
    Gen.AtomGrid.generate_atomic_grid exEnv ⟨true, none, [2, 3], [5, 7]⟩ [3] (.int 1) = .error .valueError ∧
    Gen.AtomGrid.generate_atomic_grid exEnv ⟨true, none, [2, 3], [5, 7]⟩ [3, 4] (.npInt 1) = .error .valueError ∧
    Gen.AtomGrid.generate_atomic_grid exEnv ⟨true, none, [2, 3], [5, 7]⟩ [3, 6] (.int 1) = .error .valueError := by
  decide +kernel

set_option synthInstance.maxSize 1024 in
/-- the regenerated `get_shell_grid` on the grid object of that construction: shell 1 with and without
`r**2`, and the rejected indices `-1` and `2` -/
example :
    let g : Grid Int := ⟨⟨0, 0, 0⟩, 1, [(2, 5), (3, 7)], [], [], [], [0, 2, 4], [3, 5]⟩
    (Gen.AtomGrid.get_shell_grid exEnv g 1 Gen.AtomGrid.get_shell_grid_default_r_sq).map (fun s => (s.points, s.weights)) =
      .ok ([⟨0, 3, 0⟩, ⟨0, 0, 3⟩], [63, 126]) ∧
    (Gen.AtomGrid.get_shell_grid exEnv g 1 false).map (fun s => (s.points, s.weights)) =
      .ok ([⟨0, 3, 0⟩, ⟨0, 0, 3⟩], [7, 14]) ∧
    (Gen.AtomGrid.get_shell_grid exEnv g (-1) true).map (fun s => (s.points, s.weights)) = .error .valueError ∧
    (Gen.AtomGrid.get_shell_grid exEnv g 2 true).map (fun s => (s.points, s.weights)) = .error .valueError := by
  decide +kernel

/-- hypotheses of `preset_builds_gen` / `gen_from_preset_eq_model` on shipped tables: the table reads of
`('coarse', Z = 1)` (sector form) and `('sg_1', Z = 19)` (shell-count form) find an entry, `('sg_1', 85)`
is not tabulated (`KeyError`) -/
example :
    (∃ e, (npLoadPruneGrid .coarse).find? (fun x => x.atnum == 1) = some e ∧ takesShellCountBranch e.preset e.atnum = false) ∧
    (∃ e, (npLoadPruneGrid .sg_1).find? (fun x => x.atnum == 19) = some e ∧ takesShellCountBranch e.preset e.atnum = true ∧
      (expandShellCounts e.radCounts e.npt).toOption.map List.length = some e.radSum) ∧
    (npLoadPruneGrid .sg_1).find? (fun x => x.atnum == 85) = none := by
  decide +kernel


end GridVerif.C05

/-
  C09 — harmonic decomposition / interpolation on atomic grids is exact when band-limited.

  Model: `Model/AtomInterp.lean` (hand-written, tied by correspondence, `harness/props/c09.py`).
  Helper lemmas: `Lemmas/AtomInterp.lean`.

  The theorems are about the library's algebra and are CONDITIONAL on named hypotheses that are not
  proved here:
  * **H1** `ShellOrthonormal`: on shell `i` the quadrature `ω_ik` integrates the products `Y_a Y_b` of the
    rows concerned exactly, `Σ_k ω_ik Y_a(u_ik) Y_b(u_ik) = δ_ab`.  This is property C02 (exactness of the
    shipped angular grids up to their degree) together with the closure of the harmonics of degree `≤ l`
    under products (`l + l' ≤ d_i`) and rotations; Mathlib has no spherical-harmonic theory.
  * **H2** `SplineContract`: SciPy's `CubicSpline(x, y)` interpolates its data and `spline(x, ν+1)` is the
    derivative of `spline(x, ν)` (everywhere for `ν ≤ 1`, off the knots for higher orders).
  * **H3**: the rows handed over as `∂θY`, `∂φY` are the derivatives of the rows `Y` (property C08),
    `Y_00 = 1/√(4π)`.
  * grid structure (property C05): `ProductWeightsOn` (`weights[j] = ω_ik w_i r_i²`), `indices` monotone
    from 0, the geometric fact that a grid point of shell `i` has spherical coordinates `(r_i, u_j)`.
-/
import GridVerif.Lemmas.AtomInterp
import Mathlib.Analysis.Calculus.Deriv.Mul
import Mathlib.Analysis.Calculus.Deriv.Add
import Mathlib.Analysis.Calculus.Deriv.Prod
import Mathlib.Analysis.Calculus.Deriv.Polynomial
import Mathlib.LinearAlgebra.Lagrange
import Mathlib.Analysis.SpecialFunctions.Trigonometric.Deriv
import Mathlib.Analysis.Calculus.Deriv.Comp
import Mathlib.Tactic.LinearCombination

namespace GridVerif.C09
open GridVerif.AtomInterp Finset

/-! ## hypotheses -/

/-- **H1** on shell `i`, rows `a < na` against rows `b < nb`. -/
def ShellOrthonormal (g : AGrid ℝ) (Y : ℕ → ℝ → ℝ → ℝ) (i na nb : ℕ) : Prop :=
  ∀ a < na, ∀ b < nb,
    ∑ k ∈ range (g.size i), g.regenW i k * (basis g Y a (g.idx i + k) * basis g Y b (g.idx i + k))
      = if a = b then 1 else 0

/-- the function values handed to the routines are those of `Σ_{b < (Lf+1)²} G_b(r) Y_b` on the grid
(on a shell with `r_i = 0` at the canonical angles of `convert_cartesian_to_spherical`). -/
def BandLimitedOn (g : AGrid ℝ) (Y : ℕ → ℝ → ℝ → ℝ) (Lf : ℕ) (G : ℕ → ℝ → ℝ) (f : ℕ → ℝ) : Prop :=
  ∀ i < g.nShells, ∀ k < g.size i,
    f (g.idx i + k) = ∑ b ∈ range (nRows Lf), G b (g.r i) * basis g Y b (g.idx i + k)

/-- **H2**, the contract of `scipy.interpolate.CubicSpline` used here. -/
structure SplineContract (interp : List ℝ → List ℝ → ℝ → ℕ → ℝ) : Prop where
  interpolates : ∀ (xs ys : List ℝ), xs.length = ys.length → 2 ≤ xs.length → xs.Pairwise (· < ·) →
    ∀ (i : ℕ) (hx : i < xs.length) (hy : i < ys.length), interp xs ys xs[i] 0 = ys[i]
  deriv : ∀ (xs ys : List ℝ) (ν : ℕ) (x : ℝ), (ν ≤ 1 ∨ x ∉ xs) →
    HasDerivAt (fun t => interp xs ys t ν) (interp xs ys x (ν + 1)) x

/-- what the code needs of the radial grid to build and use its splines. -/
structure RadialOk (g : AGrid ℝ) : Prop where
  two : 2 ≤ g.nShells
  increasing : ∀ i j, i < j → j < g.nShells → g.r i < g.r j

/-! ## (1) re-weighting: pure index algebra -/

/-- **Clause "re-weighted by r_i² w_i sums to the full grid integral"**: `Σ_i r_i² w_i · A_i =
grid.integrate(f)` for *every* function (no band limit, no H1).  Shells with `r_i ≥ 1e-8`: the division by
`r_i² w_i` is undone (needs `w_i ≠ 0`, otherwise the code returns nan/inf).  Shells with `r_i < 1e-8`: the
code returns the quadrature with the rebuilt angular weights, which matches iff the grid weights have the
product structure there; at `r_i = 0` both sides of that shell are `0`. -/
theorem reweighted_sum_is_integral (g : AGrid ℝ) (f : ℕ → ℝ)
    (h0 : g.idx 0 = 0) (hmono : ∀ i < g.nShells, g.idx i ≤ g.idx (i + 1))
    (hw : ∀ i < g.nShells, ¬ g.r i < tiny8 → g.w i ≠ 0)
    (hsmall : ∀ i < g.nShells, g.r i < tiny8 → ProductWeightsOn g i) :
    reweightedSum g (integrateAngular g f) = gridIntegral g f := by
  unfold reweightedSum gridIntegral AGrid.npts
  rw [sumTo_eq_sum, sumTo_eq_sum]
  have hs := (sum_shells g.idx (fun j => f j * g.wts j) g.nShells hmono).2
  rw [h0, ← Finset.range_eq_Ico] at hs
  rw [← hs]
  refine Finset.sum_congr rfl fun i hi => ?_
  have hi' : i < g.nShells := by simpa using hi
  rw [Finset.sum_Ico_eq_sum_range]
  unfold integrateAngular
  split_ifs with hsm
  · rw [sumTo_eq_sum, Finset.mul_sum]
    refine Finset.sum_congr rfl fun k hk => ?_
    rw [hsmall i hi' hsm k (by simpa [AGrid.size] using hk)]; ring
  · have hr : g.r i ≠ 0 := by
      intro hz; apply hsm; rw [hz]; exact tiny8_pos
    have hwi := hw i hi' hsm
    unfold shellSum
    rw [sumIco_eq_sum]
    field_simp

/-! ## (2), (3) exact angular integral and recovery of the radial components under H1 -/

/-- **Clause "integrating out the angles gives at each shell √(4π) g_00(r_i)"**, under H1 for the row
`a = 0` against the rows of the function, `Y_00 = 1/√(4π)`. -/
theorem angular_integral_exact (g : AGrid ℝ) (Y : ℕ → ℝ → ℝ → ℝ) (Lf : ℕ) (G : ℕ → ℝ → ℝ) (f : ℕ → ℝ)
    (hf : BandLimitedOn g Y Lf G f) (hY0 : ∀ θ φ, Y 0 θ φ = 1 / Real.sqrt (4 * Real.pi))
    (i : ℕ) (hi : i < g.nShells)
    (hW : ProductWeightsOn g i) (hw : ¬ g.r i < tiny8 → g.w i ≠ 0)
    (H1 : ShellOrthonormal g Y i 1 (nRows Lf)) :
    integrateAngular g f i = Real.sqrt (4 * Real.pi) * G 0 (g.r i) := by
  have hpos : 0 < Real.sqrt (4 * Real.pi) := Real.sqrt_pos.mpr (by positivity)
  rw [integrateAngular_eq g f i hW hw]
  have step : ∀ k ∈ range (g.size i), g.regenW i k * f (g.idx i + k)
      = ∑ b ∈ range (nRows Lf), Real.sqrt (4 * Real.pi) * G b (g.r i) *
          (g.regenW i k * (basis g Y 0 (g.idx i + k) * basis g Y b (g.idx i + k))) := by
    intro k hk
    rw [hf i hi k (by simpa using hk), Finset.mul_sum]
    refine Finset.sum_congr rfl fun b _ => ?_
    have : basis g Y 0 (g.idx i + k) = 1 / Real.sqrt (4 * Real.pi) := hY0 _ _
    rw [this]; field_simp
  rw [Finset.sum_congr rfl step, Finset.sum_comm]
  have inner : ∀ b ∈ range (nRows Lf),
      ∑ k ∈ range (g.size i), Real.sqrt (4 * Real.pi) * G b (g.r i) *
          (g.regenW i k * (basis g Y 0 (g.idx i + k) * basis g Y b (g.idx i + k)))
        = Real.sqrt (4 * Real.pi) * G b (g.r i) * (if 0 = b then 1 else 0) := by
    intro b hb
    rw [← Finset.mul_sum, H1 0 (by omega) b (by simpa using hb)]
  rw [Finset.sum_congr rfl inner]
  have hmem : 0 ∈ range (nRows Lf) := by simp [nRows]
  simp [Finset.sum_ite_eq, hmem]

/-- **Clause "the radial components are g_lm(r_i) at every shell, with the d_i//2 cut"**: for every row of
the component array (`row < (l_max//2 + 1)²`) and every shell, after the zeroing rule, the component is
`g_row(r_i)` (`0` for rows above the band limit), provided `Lf ≤ d_i // 2` and H1 holds on shell `i` for
the rows `a < (d_i//2 + 1)²` kept there against the rows of the function. -/
theorem components_recovered (g : AGrid ℝ) (Y : ℕ → ℝ → ℝ → ℝ) (Lf : ℕ) (G : ℕ → ℝ → ℝ) (f : ℕ → ℝ)
    (hf : BandLimitedOn g Y Lf G f) (i : ℕ) (hi : i < g.nShells) (hL : Lf ≤ g.deg i / 2)
    (hW : ProductWeightsOn g i) (hw : ¬ g.r i < tiny8 → g.w i ≠ 0)
    (H1 : ShellOrthonormal g Y i (nRows (g.deg i / 2)) (nRows Lf))
    (row : ℕ) (hrow : row < nRows (g.lMax / 2)) :
    radialComponents g (basis g Y) f row i = if row < nRows Lf then G row (g.r i) else 0 := by
  unfold radialComponents
  split_ifs with hz hlt hlt
  · exfalso
    have := nRows_mono hL
    omega
  · exact Nat.cast_zero
  all_goals
    have hrow' : row < nRows (g.deg i / 2) := by
      by_cases hd : g.deg i = g.lMax
      · rw [hd]; exact hrow
      · by_contra hcon
        exact hz ⟨hd, by omega⟩
    rw [integrateAngular_eq g _ i hW hw]
    have step : ∀ k ∈ range (g.size i),
        g.regenW i k * (basis g Y row (g.idx i + k) * f (g.idx i + k))
          = ∑ b ∈ range (nRows Lf), G b (g.r i) *
              (g.regenW i k * (basis g Y row (g.idx i + k) * basis g Y b (g.idx i + k))) := by
      intro k hk
      rw [hf i hi k (by simpa using hk), Finset.mul_sum, Finset.mul_sum]
      refine Finset.sum_congr rfl fun b _ => ?_
      ring
    rw [Finset.sum_congr rfl step, Finset.sum_comm]
    have inner : ∀ b ∈ range (nRows Lf),
        ∑ k ∈ range (g.size i), G b (g.r i) *
            (g.regenW i k * (basis g Y row (g.idx i + k) * basis g Y b (g.idx i + k)))
          = G b (g.r i) * (if row = b then 1 else 0) := by
      intro b hb
      rw [← Finset.mul_sum, H1 row hrow' b (by simpa using hb)]
    rw [Finset.sum_congr rfl inner]
    simp [Finset.sum_ite_eq, hlt]

/-! ## (4) the interpolant at arbitrary points -/

/-- the interpolant in spherical coordinates: `Σ_{row < (L+1)²} S_row(r) · Y_row(θ, φ)`. -/
noncomputable def interpolantSph (S : ℕ → ℝ → ℕ → ℝ) (Y : ℕ → ℝ → ℝ → ℝ) (L : ℕ) (r θ φ : ℝ) : ℝ :=
  ∑ row ∈ range (nRows L), S row r 0 * Y row θ φ

/-- **Clause "at arbitrary points the interpolant equals the sum of spline values times harmonics"**:
for every list of points (the centre and the polar axis included) and whatever the two flags, the call
with `deriv = 0` returns an array of shape `(M,)` whose entry for the point `p` with
`(r, θ, φ) = convert_cartesian_to_spherical(p)` is `Σ_lm spline_lm(r) Y_lm(θ, φ)`. -/
theorem interpolant_is_sum (S : ℕ → ℝ → ℕ → ℝ) (Y dYt dYp : ℕ → ℝ → ℝ → ℝ) (L : ℕ) (c : Vec3 ℝ)
    (points : List (Vec3 ℝ)) (ds orad : Bool) :
    interpolateLow S Y dYt dYp L c points 0 ds orad =
      .ok ([points.length], points.map fun p =>
        interpolantSph S Y L (cartToSph c p).r (cartToSph c p).theta (cartToSph c p).phi) := by
  unfold interpolateLow assemble
  simp only [show ((0 : ℕ) == 1) = false from rfl, show ((0 : ℕ) != 0) = false from rfl,
    Bool.and_false, Bool.false_eq_true, ↓reduceIte, List.length_map, List.map_map]
  congr 2
  refine List.map_congr_left fun p _ => ?_
  simp only [Function.comp, ptData, contract_eq_sum, interpolantSph]

/-- the interpolant value `interpolantAt` of the model is `interpolantSph`. -/
theorem interpolantAt_eq (S : ℕ → ℝ → ℕ → ℝ) (Y : ℕ → ℝ → ℝ → ℝ) (L : ℕ) (q : Sph ℝ) :
    interpolantAt S Y L q = interpolantSph S Y L q.r q.theta q.phi := by
  unfold interpolantAt interpolantSph; rw [contract_eq_sum]

theorem nodes_length (g : AGrid ℝ) : (nodes g).length = g.nShells := by simp [nodes]

theorem nodes_pairwise (g : AGrid ℝ) (hr : RadialOk g) : (nodes g).Pairwise (· < ·) := by
  unfold nodes
  rw [List.pairwise_map]
  have h := List.pairwise_lt_range (n := g.nShells)
  refine h.imp_of_mem ?_
  intro a b _ hb hab
  exact hr.increasing a b hab (by simpa using hb)

/-- under H2 the spline of a component row passes through the component values at the radial nodes. -/
theorem componentSpline_at_node (interp : List ℝ → List ℝ → ℝ → ℕ → ℝ) (H2 : SplineContract interp)
    (g : AGrid ℝ) (hr : RadialOk g) (comps : ℕ → ℕ → ℝ) (row i : ℕ) (hi : i < g.nShells) :
    componentSpline interp g comps row (g.r i) 0 = comps row i := by
  unfold componentSpline
  have hx : i < (nodes g).length := by rw [nodes_length]; exact hi
  have hy : i < ((List.range g.nShells).map (comps row)).length := by simpa using hi
  have h := H2.interpolates (nodes g) ((List.range g.nShells).map (comps row))
    (by simp [nodes]) (by rw [nodes_length]; exact hr.two) (nodes_pairwise g hr) i hx hy
  have e1 : (nodes g)[i] = g.r i := by simp [nodes]
  have e2 : ((List.range g.nShells).map (comps row))[i] = comps row i := by simp
  rw [e1, e2] at h
  exact h

/-- **Clause "the radial-component splines pass through g_lm(r_i) at every shell"** (H1 on every shell,
H2). -/
theorem splines_through_components (interp : List ℝ → List ℝ → ℝ → ℕ → ℝ) (H2 : SplineContract interp)
    (g : AGrid ℝ) (hr : RadialOk g) (Y : ℕ → ℝ → ℝ → ℝ) (Lf : ℕ) (G : ℕ → ℝ → ℝ) (f : ℕ → ℝ)
    (hf : BandLimitedOn g Y Lf G f) (i : ℕ) (hi : i < g.nShells) (hL : Lf ≤ g.deg i / 2)
    (hW : ProductWeightsOn g i) (hw : ¬ g.r i < tiny8 → g.w i ≠ 0)
    (H1 : ShellOrthonormal g Y i (nRows (g.deg i / 2)) (nRows Lf))
    (row : ℕ) (hrow : row < nRows (g.lMax / 2)) :
    radialComponentSplines interp g Y f row (g.r i) 0 = if row < nRows Lf then G row (g.r i) else 0 := by
  unfold radialComponentSplines
  rw [componentSpline_at_node interp H2 g hr _ row i hi]
  exact components_recovered g Y Lf G f hf i hi hL hW hw H1 row hrow

/-- value of the interpolant at any point whose radius is the node `r_i`: the band-limited sum with the
harmonics at that point's angles. -/
theorem interpolant_on_shell (interp : List ℝ → List ℝ → ℝ → ℕ → ℝ) (H2 : SplineContract interp)
    (g : AGrid ℝ) (hr : RadialOk g) (Y : ℕ → ℝ → ℝ → ℝ) (Lf : ℕ) (G : ℕ → ℝ → ℝ) (f : ℕ → ℝ)
    (hf : BandLimitedOn g Y Lf G f) (i : ℕ) (hi : i < g.nShells) (hL : Lf ≤ g.deg i / 2)
    (hW : ProductWeightsOn g i) (hw : ¬ g.r i < tiny8 → g.w i ≠ 0)
    (H1 : ShellOrthonormal g Y i (nRows (g.deg i / 2)) (nRows Lf)) (θ φ : ℝ) :
    interpolantSph (radialComponentSplines interp g Y f) Y (g.lMax / 2) (g.r i) θ φ
      = ∑ b ∈ range (nRows Lf), G b (g.r i) * Y b θ φ := by
  unfold interpolantSph
  have hsub : nRows Lf ≤ nRows (g.lMax / 2) :=
    nRows_mono (le_trans hL (Nat.div_le_div_right (deg_le_lMax g hi)))
  have : ∀ row ∈ range (nRows (g.lMax / 2)),
      radialComponentSplines interp g Y f row (g.r i) 0 * Y row θ φ
        = if row < nRows Lf then G row (g.r i) * Y row θ φ else 0 := by
    intro row hrow
    rw [splines_through_components interp H2 g hr Y Lf G f hf i hi hL hW hw H1 row (by simpa using hrow)]
    split_ifs <;> simp
  rw [Finset.sum_congr rfl this, ← Finset.sum_filter]
  congr 1
  ext row
  simp only [mem_filter, mem_range]
  omega

/-- **Clause "the interpolant reproduces the function values at every grid point"**: for the grid point
`j = indices[i] + k` of a shell with its spherical coordinates `(r_i, u_j)` about the centre (the geometric
fact of C05; for `r_i = 0` see `interpolant_at_centre_shell`), under H1 on that shell and H2. -/
theorem interpolant_reproduces_grid_values (interp : List ℝ → List ℝ → ℝ → ℕ → ℝ)
    (H2 : SplineContract interp) (g : AGrid ℝ) (hr : RadialOk g) (Y dYt dYp : ℕ → ℝ → ℝ → ℝ)
    (Lf : ℕ) (G : ℕ → ℝ → ℝ) (f : ℕ → ℝ)
    (hf : BandLimitedOn g Y Lf G f) (i : ℕ) (hi : i < g.nShells) (hL : Lf ≤ g.deg i / 2)
    (hW : ProductWeightsOn g i) (hw : ¬ g.r i < tiny8 → g.w i ≠ 0)
    (H1 : ShellOrthonormal g Y i (nRows (g.deg i / 2)) (nRows Lf))
    (k : ℕ) (hk : k < g.size i)
    (hgeom : cartToSph g.center (g.pts (g.idx i + k))
      = ⟨g.r i, (gridAngles g (g.idx i + k)).1, (gridAngles g (g.idx i + k)).2⟩) (ds orad : Bool) :
    interpolate interp g Y dYt dYp f [g.pts (g.idx i + k)] 0 ds orad = .ok ([1], [f (g.idx i + k)]) := by
  unfold interpolate
  rw [interpolant_is_sum]
  simp only [List.length_cons, List.length_nil, List.map_cons, List.map_nil, hgeom]
  rw [interpolant_on_shell interp H2 g hr Y Lf G f hf i hi hL hW hw H1, hf i hi k hk]
  rfl

/-- **The shell at `r_i = 0`**: all its points are the centre, where `convert_cart_to_sph` gives
`(0, 0, 0)`.  If the function is single-valued there (`g_lm(0) = 0` for every row but the first, as for
any function of space) the interpolant at the centre is the function value `g_00(0) Y_00`. -/
theorem interpolant_at_centre_shell (interp : List ℝ → List ℝ → ℝ → ℕ → ℝ)
    (H2 : SplineContract interp) (g : AGrid ℝ) (hr : RadialOk g) (Y dYt dYp : ℕ → ℝ → ℝ → ℝ)
    (Lf : ℕ) (G : ℕ → ℝ → ℝ) (f : ℕ → ℝ)
    (hf : BandLimitedOn g Y Lf G f) (hY0 : ∀ θ φ, Y 0 θ φ = 1 / Real.sqrt (4 * Real.pi))
    (i : ℕ) (hi : i < g.nShells) (hL : Lf ≤ g.deg i / 2) (hr0 : g.r i = 0)
    (hG0 : ∀ b, 0 < b → b < nRows Lf → G b 0 = 0)
    (hW : ProductWeightsOn g i)
    (H1 : ShellOrthonormal g Y i (nRows (g.deg i / 2)) (nRows Lf))
    (k : ℕ) (hk : k < g.size i) (ds orad : Bool) :
    cartToSph g.center g.center = ⟨0, 0, 0⟩ ∧
    interpolate interp g Y dYt dYp f [g.center] 0 ds orad = .ok ([1], [f (g.idx i + k)]) := by
  have hc : cartToSph g.center g.center = ⟨0, 0, 0⟩ := by
    unfold cartToSph nonzero
    simp only [sub_self, mul_zero, add_zero, Elem.sqrt, Real.sqrt_zero, Elem.arctan2, Nat.cast_zero,
      lt_self_iff_false, or_self, ↓reduceIte]
    congr 1
    exact Complex.arg_zero
  refine ⟨hc, ?_⟩
  have hw : ¬ g.r i < tiny8 → g.w i ≠ 0 := by
    intro h; exfalso; apply h; rw [hr0]; exact tiny8_pos
  have collapse : ∀ θ φ : ℝ, ∑ b ∈ range (nRows Lf), G b (g.r i) * Y b θ φ
      = G 0 0 * (1 / Real.sqrt (4 * Real.pi)) := by
    intro θ φ
    have hmem : 0 ∈ range (nRows Lf) := by simp [nRows]
    rw [hr0, Finset.sum_eq_single_of_mem 0 hmem, hY0]
    intro b hb hb0
    rw [hG0 b (Nat.pos_of_ne_zero hb0) (by simpa using hb), zero_mul]
  unfold interpolate
  rw [interpolant_is_sum]
  simp only [List.length_cons, List.length_nil, List.map_cons, List.map_nil, hc]
  have h1 := interpolant_on_shell interp H2 g hr Y Lf G f hf i hi hL hW hw H1 0 0
  rw [hr0] at h1
  rw [h1, hf i hi k hk]
  unfold basis
  rw [← hr0, collapse, collapse]

/-! ## (5) reported derivatives -/

/-- **Clause "the reported radial-only derivative is the derivative of that same interpolant"**, any order:
(a) with `only_radial_deriv` the call of order `ν` returns `Σ_lm spline_lm^{(ν)}(r) Y_lm(θ, φ)` per point,
whatever `deriv_spherical`; (b) if `spline(·, ν+1)` is the derivative of `spline(·, ν)` at `r` (H2), the
order-`ν+1` report is the `r`-derivative of the order-`ν` report at fixed angles — for `ν = 0` the
`r`-derivative of the interpolant. -/
theorem derivs_consistent_radial (S : ℕ → ℝ → ℕ → ℝ) (Y dYt dYp : ℕ → ℝ → ℝ → ℝ) (L : ℕ) (c : Vec3 ℝ) :
    (∀ (points : List (Vec3 ℝ)) (ν : ℕ) (ds : Bool),
      interpolateLow S Y dYt dYp L c points ν ds true =
        .ok ([points.length], points.map fun p =>
          ∑ row ∈ range (nRows L), S row (cartToSph c p).r ν * Y row (cartToSph c p).theta (cartToSph c p).phi)) ∧
    (∀ (ν : ℕ) (r θ φ : ℝ),
      (∀ row < nRows L, HasDerivAt (fun t => S row t ν) (S row r (ν + 1)) r) →
      HasDerivAt (fun t => ∑ row ∈ range (nRows L), S row t ν * Y row θ φ)
        (∑ row ∈ range (nRows L), S row r (ν + 1) * Y row θ φ) r) := by
  constructor
  · intro points ν ds
    unfold interpolateLow assemble
    simp only [Bool.not_true, Bool.false_and, Bool.false_eq_true, ↓reduceIte, List.length_map,
      List.map_map]
    congr 2
    refine List.map_congr_left fun p _ => ?_
    simp only [Function.comp, ptData, contract_eq_sum]
  · intro ν r θ φ hS
    exact HasDerivAt.fun_sum fun row hrow => (hS row (by simpa using hrow)).mul_const _

/-- **Clause "the spherical-coordinate derivative rows are (Σ s'Y, Σ s ∂θY, Σ s ∂φY) and are the derivatives
of the interpolant"**: (a) what the code returns for `deriv = 1, deriv_spherical = True`: one flat array of
length `3M` — all `Σ s'Y`, then all `Σ s ∂θY`, then all `Σ s ∂φY` (`np.hstack` of three 1-D arrays);
(b) under H2 (first derivative of the splines) and H3 (the rows `∂θY`, `∂φY` are the θ- and φ-derivatives of
the rows `Y` at the point) these three numbers are the partial derivatives of
`(r, θ, φ) ↦ Σ_lm spline_lm(r) Y_lm(θ, φ)` at the point.
H3 is a hypothesis on the rows the code hands over: on the polar axis (`|tan φ| < 1e-10`) the routine
`generate_derivative_real_spherical_harmonics` sets the term `|m| cot φ · Y_l|m|` of `∂φY` to zero by
documented convention, which is not the derivative for `|m| = 1`; there H3 fails for the code's rows and the
reported `∂φ` is not the derivative of the interpolant (replayed by the oracle, key
`atomgrid.interpolate:deriv-spherical:z-axis`). -/
theorem derivs_consistent_spherical (S : ℕ → ℝ → ℕ → ℝ) (Y dYt dYp : ℕ → ℝ → ℝ → ℝ) (L : ℕ) (c : Vec3 ℝ) :
    (∀ (points : List (Vec3 ℝ)),
      interpolateLow S Y dYt dYp L c points 1 true false =
        .ok ([3 * points.length],
          (points.map fun p => ∑ row ∈ range (nRows L),
            S row (cartToSph c p).r 1 * Y row (cartToSph c p).theta (cartToSph c p).phi) ++
          (points.map fun p => ∑ row ∈ range (nRows L),
            S row (cartToSph c p).r 0 * dYt row (cartToSph c p).theta (cartToSph c p).phi) ++
          (points.map fun p => ∑ row ∈ range (nRows L),
            S row (cartToSph c p).r 0 * dYp row (cartToSph c p).theta (cartToSph c p).phi))) ∧
    (∀ (r θ φ : ℝ),
      (∀ row < nRows L, HasDerivAt (fun t => S row t 0) (S row r 1) r) →
      (∀ row < nRows L, HasDerivAt (fun t => Y row t φ) (dYt row θ φ) θ) →
      (∀ row < nRows L, HasDerivAt (fun t => Y row θ t) (dYp row θ φ) φ) →
      HasDerivAt (fun t => interpolantSph S Y L t θ φ) (∑ row ∈ range (nRows L), S row r 1 * Y row θ φ) r ∧
      HasDerivAt (fun t => interpolantSph S Y L r t φ) (∑ row ∈ range (nRows L), S row r 0 * dYt row θ φ) θ ∧
      HasDerivAt (fun t => interpolantSph S Y L r θ t) (∑ row ∈ range (nRows L), S row r 0 * dYp row θ φ) φ) := by
  constructor
  · intro points
    unfold interpolateLow assemble
    simp only [Bool.not_false, show ((1 : ℕ) == 1) = true from rfl, Bool.and_self, ↓reduceIte,
      List.length_map, List.map_map]
    congr 2
    congr 1
    · congr 1 <;> refine List.map_congr_left fun p _ => ?_ <;>
        simp only [Function.comp, ptData, contract_eq_sum]
    · refine List.map_congr_left fun p _ => ?_
      simp only [Function.comp, ptData, contract_eq_sum]
  · intro r θ φ hS hYt hYp
    unfold interpolantSph
    refine ⟨?_, ?_, ?_⟩
    · exact HasDerivAt.fun_sum fun row hrow => (hS row (by simpa using hrow)).mul_const _
    · exact HasDerivAt.fun_sum fun row hrow => (hYt row (by simpa using hrow)).const_mul _
    · exact HasDerivAt.fun_sum fun row hrow => (hYp row (by simpa using hrow)).const_mul _

/-- the spherical partial derivatives that the chain rule assigns to a function of the Cartesian
coordinates with gradient `(Fx, Fy, Fz)` at the point `c + r (sinφ cosθ, sinφ sinθ, cosφ)`:
`∂r = ∇F·∂σ/∂r`, `∂θ = ∇F·∂σ/∂θ`, `∂φ = ∇F·∂σ/∂φ`. -/
noncomputable def chainR (Fx Fy Fz _r θ φ : ℝ) : ℝ :=
  Fx * (Real.sin φ * Real.cos θ) + Fy * (Real.sin φ * Real.sin θ) + Fz * Real.cos φ
noncomputable def chainT (Fx Fy _Fz r θ φ : ℝ) : ℝ :=
  Fx * (-(r * Real.sin φ * Real.sin θ)) + Fy * (r * Real.sin φ * Real.cos θ)
noncomputable def chainP (Fx Fy Fz r θ φ : ℝ) : ℝ :=
  Fx * (r * Real.cos φ * Real.cos θ) + Fy * (r * Real.cos φ * Real.sin θ) + Fz * (-(r * Real.sin φ))

/-- **The matrix of `convert_derivative_from_spherical_to_cartesian` is the inverse transposed Jacobian of
the spherical parametrisation** wherever the code does not zero a column (`|r| ≥ 1e-10`, `|φ| ≥ 1e-10`) and
`sin φ ≠ 0`: applied to the spherical partials of a function with Cartesian gradient `(Fx, Fy, Fz)` it
returns that gradient. -/
theorem jacobian_inverse_transpose (Fx Fy Fz r θ φ : ℝ)
    (hr : ¬ |r| < tiny10) (hφ : ¬ |φ| < tiny10) (hs : Real.sin φ ≠ 0) :
    sphToCartDeriv (chainR Fx Fy Fz r θ φ) (chainT Fx Fy Fz r θ φ) (chainP Fx Fy Fz r θ φ) r θ φ
      = ⟨Fx, Fy, Fz⟩ := by
  have hr0 : r ≠ 0 := by
    intro h; apply hr; rw [h, abs_zero]; exact tiny10_pos
  have e1 := Real.sin_sq_add_cos_sq θ
  have e2 := Real.sin_sq_add_cos_sq φ
  unfold sphToCartDeriv chainR chainT chainP
  simp only [Elem.abs, Elem.sin, Elem.cos, hr, hφ, or_self, ↓reduceIte, Nat.cast_zero, zero_mul, add_zero]
  congr 1
  · field_simp
    linear_combination (Fx * Real.cos θ ^ 2 + Fy * Real.cos θ * Real.sin θ) * e2 + Fx * e1
  · field_simp
    linear_combination (Fy * Real.sin θ ^ 2 + Fx * Real.cos θ * Real.sin θ) * e2 + Fy * e1
  · field_simp
    linear_combination Fz * e2

/-- The full clause for the Cartesian report: at *every* point (spherical coordinates as the code computes
them) the matrix maps the spherical partials of a differentiable function to its gradient.  False for the
code as it is, see `cart_deriv_fails_on_pos_z_axis`, `cart_deriv_fails_at_centre`. -/
def derivs_consistent_cartesian_full : Prop :=
  ∀ Fx Fy Fz r θ φ : ℝ, 0 ≤ r →
    sphToCartDeriv (chainR Fx Fy Fz r θ φ) (chainT Fx Fy Fz r θ φ) (chainP Fx Fy Fz r θ φ) r θ φ
      = ⟨Fx, Fy, Fz⟩

/-- **Clause "the Cartesian derivative is the derivative of that same interpolant"**, the part that holds:
(a) the code returns an `(M, 3)` array whose row for a point is
`convert_derivative_from_spherical_to_cartesian(Σ s'Y, Σ s ∂θY, Σ s ∂φY, r, θ, φ)`;
(b) let `F` be the interpolant as a function of the position relative to the centre, differentiable at
`P = r (sinφ cosθ, sinφ sinθ, cosφ)` with Fréchet derivative `F'`, and equal to `Σ spline·Y` in spherical
coordinates around `(r, θ, φ)`.  Under H2/H3 at the point, `|r| ≥ 1e-10`, `|φ| ≥ 1e-10`, `sin φ ≠ 0`, the
reported row is the gradient `(F' e_x, F' e_y, F' e_z)`.
Missing for the full clause: the points with `|φ| < 1e-10` or `sin φ = 0` (polar axis) and `|r| < 1e-10`
(centre), where the code zeroes columns of the matrix. -/
theorem derivs_consistent_cartesian_partial (S : ℕ → ℝ → ℕ → ℝ) (Y dYt dYp : ℕ → ℝ → ℝ → ℝ) (L : ℕ)
    (c : Vec3 ℝ) :
    (∀ (points : List (Vec3 ℝ)),
      interpolateLow S Y dYt dYp L c points 1 false false =
        .ok ([points.length, 3], points.flatMap fun p =>
          let q := cartToSph c p
          let v := sphToCartDeriv
            (∑ row ∈ range (nRows L), S row q.r 1 * Y row q.theta q.phi)
            (∑ row ∈ range (nRows L), S row q.r 0 * dYt row q.theta q.phi)
            (∑ row ∈ range (nRows L), S row q.r 0 * dYp row q.theta q.phi) q.r q.theta q.phi
          [v.x, v.y, v.z])) ∧
    (∀ (F : ℝ × ℝ × ℝ → ℝ) (F' : ℝ × ℝ × ℝ →L[ℝ] ℝ) (r θ φ : ℝ),
      HasFDerivAt F F' (r * (Real.sin φ * Real.cos θ), r * (Real.sin φ * Real.sin θ), r * Real.cos φ) →
      (∀ r' θ' φ', interpolantSph S Y L r' θ' φ'
        = F (r' * (Real.sin φ' * Real.cos θ'), r' * (Real.sin φ' * Real.sin θ'), r' * Real.cos φ')) →
      (∀ row < nRows L, HasDerivAt (fun t => S row t 0) (S row r 1) r) →
      (∀ row < nRows L, HasDerivAt (fun t => Y row t φ) (dYt row θ φ) θ) →
      (∀ row < nRows L, HasDerivAt (fun t => Y row θ t) (dYp row θ φ) φ) →
      ¬ |r| < tiny10 → ¬ |φ| < tiny10 → Real.sin φ ≠ 0 →
      sphToCartDeriv
        (∑ row ∈ range (nRows L), S row r 1 * Y row θ φ)
        (∑ row ∈ range (nRows L), S row r 0 * dYt row θ φ)
        (∑ row ∈ range (nRows L), S row r 0 * dYp row θ φ) r θ φ
        = ⟨F' (1, 0, 0), F' (0, 1, 0), F' (0, 0, 1)⟩) := by
  constructor
  · intro points
    unfold interpolateLow assemble
    simp only [Bool.not_false, show ((1 : ℕ) == 1) = true from rfl, Bool.and_self, ↓reduceIte,
      Bool.false_eq_true, List.length_map, List.flatMap_map]
    congr 2
    refine List.flatMap_congr fun p _ => ?_
    simp only [ptData, contract_eq_sum]
  · intro F F' r θ φ hF hrep hS hYt hYp hr hφ hs
    obtain ⟨dR, dT, dP⟩ := (derivs_consistent_spherical S Y dYt dYp L c).2 r θ φ hS hYt hYp
    -- the chain rule along the three coordinate lines
    have lin : ∀ a b d : ℝ, F' (a, b, d) = F' (1, 0, 0) * a + F' (0, 1, 0) * b + F' (0, 0, 1) * d := by
      intro a b d
      have : ((a, b, d) : ℝ × ℝ × ℝ) = a • (1, 0, 0) + b • (0, 1, 0) + d • (0, 0, 1) := by
        simp
      rw [this, map_add, map_add, map_smul, map_smul, map_smul]
      simp [mul_comm]
    have cR : HasDerivAt (fun t : ℝ => (t * (Real.sin φ * Real.cos θ), t * (Real.sin φ * Real.sin θ),
        t * Real.cos φ)) (Real.sin φ * Real.cos θ, Real.sin φ * Real.sin θ, Real.cos φ) r := by
      refine HasDerivAt.prodMk ?_ (HasDerivAt.prodMk ?_ ?_)
      · simpa using (hasDerivAt_id r).mul_const (Real.sin φ * Real.cos θ)
      · simpa using (hasDerivAt_id r).mul_const (Real.sin φ * Real.sin θ)
      · simpa using (hasDerivAt_id r).mul_const (Real.cos φ)
    have cT : HasDerivAt (fun t : ℝ => (r * (Real.sin φ * Real.cos t), r * (Real.sin φ * Real.sin t),
        r * Real.cos φ)) (r * (Real.sin φ * -Real.sin θ), r * (Real.sin φ * Real.cos θ), 0) θ := by
      refine HasDerivAt.prodMk ?_ (HasDerivAt.prodMk ?_ ?_)
      · exact ((Real.hasDerivAt_cos θ).const_mul _).const_mul _
      · exact ((Real.hasDerivAt_sin θ).const_mul _).const_mul _
      · exact hasDerivAt_const _ _
    have cP : HasDerivAt (fun t : ℝ => (r * (Real.sin t * Real.cos θ), r * (Real.sin t * Real.sin θ),
        r * Real.cos t)) (r * (Real.cos φ * Real.cos θ), r * (Real.cos φ * Real.sin θ), r * -Real.sin φ) φ := by
      refine HasDerivAt.prodMk ?_ (HasDerivAt.prodMk ?_ ?_)
      · exact ((Real.hasDerivAt_sin φ).mul_const _).const_mul _
      · exact ((Real.hasDerivAt_sin φ).mul_const _).const_mul _
      · exact (Real.hasDerivAt_cos φ).const_mul _
    have gR := HasFDerivAt.comp_hasDerivAt r hF cR
    have gT := HasFDerivAt.comp_hasDerivAt θ hF cT
    have gP := HasFDerivAt.comp_hasDerivAt φ hF cP
    have eR : (fun t => interpolantSph S Y L t θ φ) = F ∘ fun t : ℝ =>
        (t * (Real.sin φ * Real.cos θ), t * (Real.sin φ * Real.sin θ), t * Real.cos φ) := by
      funext t; exact hrep t θ φ
    have eT : (fun t => interpolantSph S Y L r t φ) = F ∘ fun t : ℝ =>
        (r * (Real.sin φ * Real.cos t), r * (Real.sin φ * Real.sin t), r * Real.cos φ) := by
      funext t; exact hrep r t φ
    have eP : (fun t => interpolantSph S Y L r θ t) = F ∘ fun t : ℝ =>
        (r * (Real.sin t * Real.cos θ), r * (Real.sin t * Real.sin θ), r * Real.cos t) := by
      funext t; exact hrep r θ t
    rw [eR] at dR; rw [eT] at dT; rw [eP] at dP
    have uR := dR.unique gR
    have uT := dT.unique gT
    have uP := dP.unique gP
    rw [lin] at uR uT uP
    have key := jacobian_inverse_transpose (F' (1, 0, 0)) (F' (0, 1, 0)) (F' (0, 0, 1)) r θ φ hr hφ hs
    rw [← key, uR, uT, uP]
    unfold chainR chainT chainP
    congr 1 <;> ring

/-- **The code as it is violates the Cartesian clause on the positive polar axis**: there
`convert_cart_to_sph` gives `θ = arctan2(0, 0) = 0`, `φ = 0`; the θ-column is zeroed and `sin θ = 0`, so the
reported `y`-entry is `0` for every input — but `F(x, y, z) = y` has gradient `(0, 1, 0)` (witness:
`Fx, Fy, Fz = 0, 1, 0` at `r = 1`). -/
theorem cart_deriv_fails_on_pos_z_axis :
    (∀ dr dt dp r : ℝ, (sphToCartDeriv dr dt dp r 0 0).y = 0) ∧
    sphToCartDeriv (chainR 0 1 0 1 0 0) (chainT 0 1 0 1 0 0) (chainP 0 1 0 1 0 0) 1 0 0 = ⟨0, 0, 0⟩ ∧
    ¬ derivs_consistent_cartesian_full := by
  have hy : ∀ dr dt dp r : ℝ, (sphToCartDeriv dr dt dp r 0 0).y = 0 := by
    intro dr dt dp r
    unfold sphToCartDeriv
    simp [Elem.abs, Elem.sin, Elem.cos, tiny10_pos]
  have hv : sphToCartDeriv (chainR 0 1 0 1 0 0) (chainT 0 1 0 1 0 0) (chainP 0 1 0 1 0 0) 1 0 0
      = (⟨0, 0, 0⟩ : Vec3 ℝ) := by
    unfold sphToCartDeriv chainR chainT chainP
    simp [Elem.abs, Elem.sin, Elem.cos, tiny10_pos]
  refine ⟨hy, hv, fun h => ?_⟩
  have := h 0 1 0 1 0 0 (by norm_num)
  rw [hv] at this
  have := congrArg Vec3.y this
  norm_num at this

/-- **… and at the centre**: there `(r, θ, φ) = (0, 0, 0)`, the θ- and φ-columns are zeroed and the report
is `(0, 0, dr)` for every input — but `F(x, y, z) = x` has gradient `(1, 0, 0)`. -/
theorem cart_deriv_fails_at_centre :
    (∀ dr dt dp : ℝ, sphToCartDeriv dr dt dp 0 0 0 = ⟨0, 0, dr⟩) ∧
    sphToCartDeriv (chainR 1 0 0 0 0 0) (chainT 1 0 0 0 0 0) (chainP 1 0 0 0 0 0) 0 0 0 ≠ ⟨1, 0, 0⟩ := by
  have h0 : ∀ dr dt dp : ℝ, sphToCartDeriv dr dt dp 0 0 0 = ⟨0, 0, dr⟩ := by
    intro dr dt dp
    unfold sphToCartDeriv
    simp [Elem.abs, Elem.sin, Elem.cos, tiny10_pos]
  refine ⟨h0, ?_⟩
  rw [h0]
  intro h
  have := congrArg Vec3.x h
  norm_num at this

/-- First derivatives with respect to θ, φ or Cartesian coordinates only: without `only_radial_deriv` a
request `deriv ∉ {0, 1}` raises `ValueError`. -/
theorem higher_deriv_rejected (S : ℕ → ℝ → ℕ → ℝ) (Y dYt dYp : ℕ → ℝ → ℝ → ℝ) (L : ℕ) (c : Vec3 ℝ)
    (points : List (Vec3 ℝ)) (ν : ℕ) (hν : 2 ≤ ν) (ds : Bool) :
    interpolateLow S Y dYt dYp L c points ν ds false = .error .valueError := by
  unfold interpolateLow assemble
  have h1 : (ν == 1) = false := by simp; omega
  have h0 : (ν != 0) = true := by simp; omega
  simp [h1, h0]

/-! ## (6) spherical average, (7) molecular sum -/

/-- **Clause "the spherical average integrates back to the total"**: the radial quadrature of
`4π r² f_avg(r)` with the spline returned by `spherical_average` equals `grid.integrate(f)`, for *every*
function, under H2 and the grid-structure hypotheses of `reweighted_sum_is_integral`. -/
theorem average_integrates_back (interp : List ℝ → List ℝ → ℝ → ℕ → ℝ) (H2 : SplineContract interp)
    (g : AGrid ℝ) (hr : RadialOk g) (f : ℕ → ℝ)
    (h0 : g.idx 0 = 0) (hmono : ∀ i < g.nShells, g.idx i ≤ g.idx (i + 1))
    (hw : ∀ i < g.nShells, ¬ g.r i < tiny8 → g.w i ≠ 0)
    (hsmall : ∀ i < g.nShells, g.r i < tiny8 → ProductWeightsOn g i) :
    radialIntegral4pi g (fun x => sphericalAverage interp g f x 0) = gridIntegral g f := by
  rw [← reweighted_sum_is_integral g f h0 hmono hw hsmall]
  unfold radialIntegral4pi reweightedSum
  rw [sumTo_eq_sum, sumTo_eq_sum]
  refine Finset.sum_congr rfl fun i hi => ?_
  have hi' : i < g.nShells := by simpa using hi
  have hnode : sphericalAverage interp g f (g.r i) 0 = averageValues g f i :=
    componentSpline_at_node interp H2 g hr (fun _ => averageValues g f) 0 i hi'
  simp only [hnode]
  unfold averageValues
  have hpi : (4 : ℝ) * Real.pi ≠ 0 := by positivity
  simp only [Elem.pi, Nat.cast_ofNat]
  field_simp

/-- the summation loop of `MolGrid.interpolate`: if every atomic interpolant returns an array of the
same shape with entries `v A k`, the result has that shape and entries `Σ_A v A k`. -/
theorem molCombine_sum (n len : ℕ) (shape : List ℕ) (v : ℕ → ℕ → ℝ) :
    molCombine (n + 1) (fun A => .ok (shape, (List.range len).map (v A)))
      = .ok (shape, (List.range len).map fun k => ∑ A ∈ range (n + 1), v A k) := by
  unfold molCombine
  simp only [Nat.add_sub_cancel]
  induction n with
  | zero => simp
  | succ n ih =>
    rw [List.range_succ, List.foldl_append, ih]
    simp only [List.foldl_cons, List.foldl_nil, bind, Except.bind, pure, Except.pure, addOut]
    congr 2
    rw [List.zipWith_map_left, List.zipWith_map_right, List.zipWith_self]
    refine List.map_congr_left fun k _ => ?_
    rw [Finset.sum_range_succ _ (n + 1)]

/-- **Clause "molecular interpolation is the sum of the atomic interpolants of w_A f"**: the value returned
by `MolGrid.interpolate(f)` at the points is, point by point, the sum over the atoms of the atomic
interpolants built from `(f · aim_weights)[indices[A]:indices[A+1]]` on the stored atomic grids. -/
theorem mol_interp_is_sum (interp : List ℝ → List ℝ → ℝ → ℕ → ℝ) (m : MGrid ℝ) (n : ℕ)
    (hn : m.nAtoms = n + 1) (Y dYt dYp : ℕ → ℝ → ℝ → ℝ) (f : ℕ → ℝ) (points : List (Vec3 ℝ))
    (ds orad : Bool) :
    molInterpolate interp m Y dYt dYp f points 0 ds orad =
      .ok ([points.length], points.map fun p => ∑ A ∈ range (n + 1),
        interpolantAt (radialComponentSplines interp (m.atom A) Y (atomFuncVals m f A)) Y
          ((m.atom A).lMax / 2) (cartToSph (m.atom A).center p)) := by
  unfold molInterpolate
  rw [hn]
  have hat : ∀ A, interpolate interp (m.atom A) Y dYt dYp (atomFuncVals m f A) points 0 ds orad
      = .ok ([points.length], (List.range points.length).map fun k =>
          interpolantAt (radialComponentSplines interp (m.atom A) Y (atomFuncVals m f A)) Y
            ((m.atom A).lMax / 2) (cartToSph (m.atom A).center (points.getD k ⟨0, 0, 0⟩))) := by
    intro A
    unfold interpolate
    rw [interpolant_is_sum]
    congr 2
    apply List.ext_getElem
    · simp
    · intro k h1 h2
      have hk : k < points.length := by simpa using h1
      simp [interpolantAt_eq, List.getD_eq_getElem?_getD, List.getElem?_eq_getElem hk]
  rw [funext hat, molCombine_sum]
  congr 2
  apply List.ext_getElem
  · simp
  · intro k h1 h2
    have hk : k < points.length := by simpa using h2
    simp [List.getD_eq_getElem?_getD, List.getElem?_eq_getElem hk]

/-! ## H2 is satisfiable -/

/-- a model of the contract: the Lagrange interpolation polynomial through the data and its derivatives. -/
noncomputable def lagrangeInterp (xs ys : List ℝ) (x : ℝ) (ν : ℕ) : ℝ :=
  (Polynomial.derivative^[ν] (Lagrange.interpolate (Finset.univ : Finset (Fin xs.length))
    (fun i => xs[i]) (fun i => ys.getD i 0))).eval x

/-- **H2 is not vacuous**: polynomial interpolation satisfies the spline contract (with the derivative
clause even at the knots). -/
theorem spline_contract_satisfiable : SplineContract lagrangeInterp where
  interpolates := by
    intro xs ys _ _ hp i hx hy
    unfold lagrangeInterp
    simp only [Function.iterate_zero, id_eq]
    have hinj : Set.InjOn (fun i : Fin xs.length => xs[i]) (Finset.univ : Finset (Fin xs.length)) := by
      intro a _ b _ hab
      have hnd : xs.Nodup := hp.imp (fun h => ne_of_lt h)
      exact Fin.ext ((List.Nodup.getElem_inj_iff hnd).mp hab)
    have := Lagrange.eval_interpolate_at_node (r := fun i : Fin xs.length => ys.getD i 0) hinj
      (Finset.mem_univ (⟨i, hx⟩ : Fin xs.length))
    simp only [Fin.getElem_fin] at this
    refine Eq.trans this ?_
    simp [List.getD_eq_getElem?_getD, List.getElem?_eq_getElem hy]
  deriv := by
    intro xs ys ν x _
    unfold lagrangeInterp
    rw [Function.iterate_succ_apply']
    exact Polynomial.hasDerivAt _ x

end GridVerif.C09

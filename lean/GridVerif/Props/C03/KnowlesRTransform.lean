/-
  C03 — `KnowlesRTransform(rmin, R, k, trim_inf)`:
      r(x) = -R log(1 - ((x+1)/2)^k) + rmin,  (-1, 1) → (rmin, ∞),  real `k > 0`.

  Definitions: `Gen/RTransform.lean` (regenerated from rtransform.py on every run).
  The constructor rejects `k ≤ 0` (`Admissible`).  `R ≠ 0` / `0 < R` is *not* checked by the code; the
  theorems that need it carry it as an explicit hypothesis (derivative identities hold for every `R`).
-/
import GridVerif.Lemmas.RTransform

namespace GridVerif.C03.KnowlesRTransform
open GridVerif.Gen.RTransform GridVerif.C03 Filter Topology

/-- Interior of the declared domain `(-1, 1)`. -/
def Interior (t : KnowlesRTransform ℝ) (x : ℝ) : Prop := t.domain_lo < x ∧ x < t.domain_hi

theorem interior_iff (t : KnowlesRTransform ℝ) (x : ℝ) : Interior t x ↔ -1 < x ∧ x < 1 := by
  simp [Interior, KnowlesRTransform.domain_lo, KnowlesRTransform.domain_hi]

/-- The constructor guard `not (k <= 0)` says `0 < k`. -/
theorem k_pos (t : KnowlesRTransform ℝ) (ht : t.Admissible) : 0 < t.k := by
  simpa [KnowlesRTransform.Admissible] using ht

theorem transform_eq (t : KnowlesRTransform ℝ) :
    t.transform = fun y => -t.R * Real.log (1 - ((1 + y) / 2) ^ t.k) + t.rmin := by
  funext y; simp only [KnowlesRTransform.transform]; rt_norm; rw [add_comm y 1]

/-- For `1 + y ≥ 0` the code's `((y+1)/2)^k` is `2^(-k) (1+y)^k` (the form the derivative methods use). -/
theorem transform_apply (t : KnowlesRTransform ℝ) (y : ℝ) (hy : 0 ≤ 1 + y) :
    t.transform y = -t.R * Real.log (1 - (2 : ℝ) ^ (-t.k) * (1 + y) ^ t.k) + t.rmin := by
  rw [transform_eq]
  simp only
  rw [Real.div_rpow hy (by norm_num), Real.rpow_neg (by norm_num), div_eq_inv_mul]

theorem deriv_eq (t : KnowlesRTransform ℝ) :
    t.deriv = fun y => t.R * t.k * (1 + y) ^ (t.k - 1) / ((2 : ℝ) ^ t.k - (1 + y) ^ t.k) := by
  funext y; simp only [KnowlesRTransform.deriv]; rt_norm

theorem deriv2_eq (t : KnowlesRTransform ℝ) :
    t.deriv2 = fun y => t.R * t.k * (1 + y) ^ (t.k - 2) * ((2 : ℝ) ^ t.k * (t.k - 1) + (1 + y) ^ t.k)
      / ((2 : ℝ) ^ t.k - (1 + y) ^ t.k) ^ 2 := by
  funext y; simp only [KnowlesRTransform.deriv2]; rt_norm

theorem deriv3_eq (t : KnowlesRTransform ℝ) :
    t.deriv3 = fun y => t.R * t.k * (1 + y) ^ (t.k - 3) *
      ((4 : ℝ) ^ t.k * (t.k - 2) * (t.k - 1) + (2 : ℝ) ^ t.k * (t.k - 1) * (t.k + 4) * (1 + y) ^ t.k
        + 2 * (1 + y) ^ (2 * t.k))
      / ((2 : ℝ) ^ t.k - (1 + y) ^ t.k) ^ 3 := by
  funext y; simp only [KnowlesRTransform.deriv3]; rt_norm

theorem inverse_eq (t : KnowlesRTransform ℝ) :
    t.inverse = fun r => -1 + 2 * (1 - Real.exp ((t.rmin - r) / t.R)) ^ (1 / t.k) := by
  funext y; simp only [KnowlesRTransform.inverse]; rt_norm

/-- On the interior, `0 < (1+x)^k < 2^k`. -/
theorem q_bounds (t : KnowlesRTransform ℝ) (ht : t.Admissible) (x : ℝ) (hx : -1 < x ∧ x < 1) :
    0 < (1 + x) ^ t.k ∧ (1 + x) ^ t.k < (2 : ℝ) ^ t.k := by
  have ha : 0 < 1 + x := by linarith [hx.1]
  exact ⟨Real.rpow_pos_of_pos ha _, Real.rpow_lt_rpow ha.le (by linarith [hx.2]) (k_pos t ht)⟩

/-- (1a) `deriv` is the derivative of `transform` on the interior of the domain. -/
theorem hasDerivAt_transform (t : KnowlesRTransform ℝ) (ht : t.Admissible) (x : ℝ) (hx : Interior t x) :
    HasDerivAt t.transform (t.deriv x) x := by
  rw [interior_iff] at hx
  have ha : 0 < 1 + x := by linarith [hx.1]
  obtain ⟨hq, hqT⟩ := q_bounds t ht x hx
  have hT : 0 < (2 : ℝ) ^ t.k := Real.rpow_pos_of_pos (by norm_num) _
  have hne : 1 - (2 : ℝ) ^ (-t.k) * (1 + x) ^ t.k ≠ 0 := by
    rw [Real.rpow_neg (by norm_num)]
    have : ((2 : ℝ) ^ t.k)⁻¹ * (1 + x) ^ t.k < 1 := by
      rw [inv_mul_lt_iff₀ hT]; linarith
    linarith
  have hev : t.transform =ᶠ[𝓝 x]
      fun y => -t.R * Real.log (1 - (2 : ℝ) ^ (-t.k) * (1 + y) ^ t.k) + t.rmin := by
    filter_upwards [Ioi_mem_nhds hx.1] with y hy
    exact transform_apply t y (by simp only [Set.mem_Ioi] at hy; linarith)
  refine HasDerivAt.congr_of_eventuallyEq ?_ hev
  rw [deriv_eq]
  have h := (((((hasDerivAt_one_add_rpow x t.k ha).const_mul ((2 : ℝ) ^ (-t.k))).const_sub 1).log hne).const_mul
    (-t.R)).add_const t.rmin
  refine h.congr_deriv ?_
  simp only [rpow_sub_one' ha, Real.rpow_neg (show (0 : ℝ) ≤ 2 by norm_num)] at hne ⊢
  generalize (1 + x) ^ t.k = q at *
  generalize (2 : ℝ) ^ t.k = T at *
  have h1 : T - q ≠ 0 := by linarith
  have h2 : 1 + x ≠ 0 := ha.ne'
  have h3 : T ≠ 0 := hT.ne'
  field_simp

/-- (1b) `deriv2` is the derivative of `deriv`. -/
theorem hasDerivAt_deriv (t : KnowlesRTransform ℝ) (ht : t.Admissible) (x : ℝ) (hx : Interior t x) :
    HasDerivAt t.deriv (t.deriv2 x) x := by
  rw [interior_iff] at hx
  have ha : 0 < 1 + x := by linarith [hx.1]
  obtain ⟨hq, hqT⟩ := q_bounds t ht x hx
  have hne : (2 : ℝ) ^ t.k - (1 + x) ^ t.k ≠ 0 := by linarith
  rw [deriv_eq, deriv2_eq]
  have h := ((hasDerivAt_one_add_rpow x (t.k - 1) ha).const_mul (t.R * t.k)).div
    ((hasDerivAt_one_add_rpow x t.k ha).const_sub ((2 : ℝ) ^ t.k)) hne
  refine h.congr_deriv ?_
  simp only [rpow_sub_one' ha, rpow_sub_two' ha]
  generalize (1 + x) ^ t.k = q at *
  generalize (2 : ℝ) ^ t.k = T at *
  have h2 : 1 + x ≠ 0 := ha.ne'
  field_simp
  ring

/-- (1c) `deriv3` is the derivative of `deriv2`. -/
theorem hasDerivAt_deriv2 (t : KnowlesRTransform ℝ) (ht : t.Admissible) (x : ℝ) (hx : Interior t x) :
    HasDerivAt t.deriv2 (t.deriv3 x) x := by
  rw [interior_iff] at hx
  have ha : 0 < 1 + x := by linarith [hx.1]
  obtain ⟨hq, hqT⟩ := q_bounds t ht x hx
  have hne : (2 : ℝ) ^ t.k - (1 + x) ^ t.k ≠ 0 := by linarith
  rw [deriv2_eq, deriv3_eq]
  have h := (((hasDerivAt_one_add_rpow x (t.k - 2) ha).const_mul (t.R * t.k)).mul
    ((hasDerivAt_one_add_rpow x t.k ha).const_add ((2 : ℝ) ^ t.k * (t.k - 1)))).div
    (((hasDerivAt_one_add_rpow x t.k ha).const_sub ((2 : ℝ) ^ t.k)).pow 2) (pow_ne_zero 2 hne)
  refine h.congr_deriv ?_
  simp only [Pi.pow_apply, Pi.mul_apply, rpow_sub_one' ha, rpow_sub_two' ha, rpow_sub_three' ha, rpow_two_mul' ha.le, four_rpow]
  generalize (1 + x) ^ t.k = q at *
  generalize (2 : ℝ) ^ t.k = T at *
  have h2 : 1 + x ≠ 0 := ha.ne'
  field_simp
  ring

example : ∃ t : KnowlesRTransform ℝ, t.Admissible ∧ Interior t (1 / 2) :=
  ⟨⟨1 / 10, 3 / 2, 5 / 2, true⟩, by simp [KnowlesRTransform.Admissible],
    by rw [interior_iff]; norm_num⟩

/-- (2a) The inverse undoes the forward map on the interior of the domain.
Extra hypothesis `R ≠ 0` (not checked by the constructor; for `R = 0` the map is constant). -/
theorem inverse_transform (t : KnowlesRTransform ℝ) (ht : t.Admissible) (hR : t.R ≠ 0) (x : ℝ) (hx : Interior t x) :
    t.inverse (t.transform x) = x := by
  rw [interior_iff] at hx
  have hk := k_pos t ht
  have ha : 0 < 1 + x := by linarith [hx.1]
  obtain ⟨hq, hqT⟩ := q_bounds t ht x hx
  have hT : 0 < (2 : ℝ) ^ t.k := Real.rpow_pos_of_pos (by norm_num) _
  have hpos : 0 < 1 - (2 : ℝ) ^ (-t.k) * (1 + x) ^ t.k := by
    rw [Real.rpow_neg (by norm_num)]
    have : ((2 : ℝ) ^ t.k)⁻¹ * (1 + x) ^ t.k < 1 := by
      rw [inv_mul_lt_iff₀ hT]; linarith
    linarith
  rw [transform_apply t x ha.le, inverse_eq]
  have e1 : (t.rmin - (-t.R * Real.log (1 - (2 : ℝ) ^ (-t.k) * (1 + x) ^ t.k) + t.rmin)) / t.R
      = Real.log (1 - (2 : ℝ) ^ (-t.k) * (1 + x) ^ t.k) := by
    field_simp; ring
  have e2 : (2 : ℝ) ^ (-t.k) * (1 + x) ^ t.k = ((1 + x) / 2) ^ t.k := by
    rw [Real.div_rpow ha.le (by norm_num), Real.rpow_neg (by norm_num)]; ring
  have e3 : (((1 + x) / 2) ^ t.k) ^ (1 / t.k) = (1 + x) / 2 := by
    rw [← Real.rpow_mul (by linarith), mul_one_div_cancel hk.ne', Real.rpow_one]
  beta_reduce
  rw [e1, Real.exp_log hpos, sub_sub_cancel, e2, e3]
  ring

/-- Interior of the codomain `(rmin, ∞)`. -/
def CoInterior (t : KnowlesRTransform ℝ) (r : ℝ) : Prop := t.codomain_lo < r

/-- On the interior of the codomain (`0 < R`), `0 < exp((rmin - r)/R) < 1`. -/
theorem exp_bounds (t : KnowlesRTransform ℝ) (hR : 0 < t.R) (r : ℝ) (hr : t.rmin < r) :
    0 < Real.exp ((t.rmin - r) / t.R) ∧ Real.exp ((t.rmin - r) / t.R) < 1 := by
  refine ⟨Real.exp_pos _, ?_⟩
  rw [Real.exp_lt_one_iff]
  exact div_neg_of_neg_of_pos (by linarith) hR

/-- (2b) The forward map undoes the inverse on the interior of the codomain (`0 < R`, not checked by the code). -/
theorem transform_inverse (t : KnowlesRTransform ℝ) (ht : t.Admissible) (hR : 0 < t.R) (r : ℝ) (hr : CoInterior t r) :
    t.transform (t.inverse r) = r := by
  simp only [CoInterior, KnowlesRTransform.codomain_lo] at hr
  have hk := k_pos t ht
  obtain ⟨he0, he1⟩ := exp_bounds t hR r hr
  have hu : 0 ≤ 1 - Real.exp ((t.rmin - r) / t.R) := by linarith
  have e1 : 1 + (-1 + 2 * (1 - Real.exp ((t.rmin - r) / t.R)) ^ (1 / t.k))
      = 2 * (1 - Real.exp ((t.rmin - r) / t.R)) ^ (1 / t.k) := by ring
  have hinv : t.inverse r = -1 + 2 * (1 - Real.exp ((t.rmin - r) / t.R)) ^ (1 / t.k) := by rw [inverse_eq]
  have h0 : 0 ≤ 1 + (-1 + 2 * (1 - Real.exp ((t.rmin - r) / t.R)) ^ (1 / t.k)) := by
    rw [e1]; exact mul_nonneg (by norm_num) (Real.rpow_nonneg hu _)
  rw [hinv, transform_apply t _ h0]
  have e2 : ((1 - Real.exp ((t.rmin - r) / t.R)) ^ (1 / t.k)) ^ t.k = 1 - Real.exp ((t.rmin - r) / t.R) := by
    rw [← Real.rpow_mul hu, one_div_mul_cancel hk.ne', Real.rpow_one]
  have hT : (2 : ℝ) ^ t.k ≠ 0 := (Real.rpow_pos_of_pos (by norm_num) _).ne'
  have e3 : (2 : ℝ) ^ (-t.k) * (2 * (1 - Real.exp ((t.rmin - r) / t.R)) ^ (1 / t.k)) ^ t.k
      = 1 - Real.exp ((t.rmin - r) / t.R) := by
    rw [Real.mul_rpow (by norm_num) (Real.rpow_nonneg hu _), e2, Real.rpow_neg (by norm_num)]
    field_simp
  simp only [e1, e3, sub_sub_cancel, Real.log_exp]
  field_simp
  ring

/-- The inverse maps the interior of the codomain into the interior of the domain. -/
theorem inverse_mem (t : KnowlesRTransform ℝ) (ht : t.Admissible) (hR : 0 < t.R) (r : ℝ) (hr : CoInterior t r) :
    Interior t (t.inverse r) := by
  simp only [CoInterior, KnowlesRTransform.codomain_lo] at hr
  have hk := k_pos t ht
  obtain ⟨he0, he1⟩ := exp_bounds t hR r hr
  rw [interior_iff, inverse_eq]
  have hk' : 0 < 1 / t.k := by positivity
  have h0 : 0 < (1 - Real.exp ((t.rmin - r) / t.R)) ^ (1 / t.k) := Real.rpow_pos_of_pos (by linarith) _
  have h1 : (1 - Real.exp ((t.rmin - r) / t.R)) ^ (1 / t.k) < 1 :=
    Real.rpow_lt_one (by linarith) (by linarith) hk'
  constructor <;> linarith

/-- (4a) The derivative is positive on the interior (`0 < R`). -/
theorem deriv_pos (t : KnowlesRTransform ℝ) (ht : t.Admissible) (hR : 0 < t.R) (x : ℝ) (hx : Interior t x) :
    0 < t.deriv x := by
  rw [interior_iff] at hx
  have hk := k_pos t ht
  have ha : 0 < 1 + x := by linarith [hx.1]
  obtain ⟨hq, hqT⟩ := q_bounds t ht x hx
  rw [deriv_eq]
  have h1 : 0 < (2 : ℝ) ^ t.k - (1 + x) ^ t.k := by linarith
  have h2 : 0 < (1 + x) ^ (t.k - 1) := Real.rpow_pos_of_pos ha _
  positivity

/-- (4b) The forward map is strictly increasing on the interior of its domain (`0 < R`). -/
theorem strictMonoOn_transform (t : KnowlesRTransform ℝ) (ht : t.Admissible) (hR : 0 < t.R) :
    StrictMonoOn t.transform (Set.Ioo t.domain_lo t.domain_hi) :=
  strictMonoOn_of_hasDerivAt_pos (convex_Ioo _ _) (fun x hx => hasDerivAt_transform t ht x hx)
    (fun x hx => deriv_pos t ht hR x hx)

/-- (4c) End point: the lower end of the domain goes to the lower end of the codomain (every `R`;
`0 ^ k = 0` because the constructor guarantees `k ≠ 0`). -/
theorem transform_domain_lo (t : KnowlesRTransform ℝ) (ht : t.Admissible) :
    t.transform t.domain_lo = t.codomain_lo := by
  have hk := k_pos t ht
  rw [transform_eq]
  simp [KnowlesRTransform.domain_lo, KnowlesRTransform.codomain_lo, Real.zero_rpow hk.ne']

/-- (4d) End point: towards the upper end of the domain the map grows beyond every bound (`0 < R`);
the code represents the value at `x = 1` by `1e16` (trim on) or `inf`, see the correspondence. -/
theorem tendsto_transform_domain_hi (t : KnowlesRTransform ℝ) (ht : t.Admissible) (hR : 0 < t.R) :
    Tendsto t.transform (𝓝[<] t.domain_hi) atTop := by
  have hk := k_pos t ht
  simp only [KnowlesRTransform.domain_hi, Nat.cast_one]
  suffices hold : Tendsto (fun y : ℝ => -t.R * Real.log (1 - (2 : ℝ) ^ (-t.k) * (1 + y) ^ t.k) + t.rmin)
      (𝓝[<] 1) atTop by
    refine hold.congr' ?_
    filter_upwards [Ioo_mem_nhdsLT (show (-1 : ℝ) < 1 by norm_num)] with y hy
    exact (transform_apply t y (by linarith [hy.1])).symm
  apply tendsto_atTop_add_const_right
  have hT : 0 < (2 : ℝ) ^ t.k := Real.rpow_pos_of_pos (by norm_num) _
  have h1 : Tendsto (fun y : ℝ => 1 - (2 : ℝ) ^ (-t.k) * (1 + y) ^ t.k) (𝓝[<] 1) (𝓝[>] 0) := by
    rw [tendsto_nhdsWithin_iff]
    constructor
    · have hc : ContinuousAt (fun y : ℝ => 1 - (2 : ℝ) ^ (-t.k) * (1 + y) ^ t.k) 1 :=
        continuousAt_const.sub (continuousAt_const.mul
          ((continuousAt_const.add continuousAt_id).rpow_const (Or.inr hk.le)))
      have h0 : 1 - (2 : ℝ) ^ (-t.k) * (1 + 1) ^ t.k = 0 := by
        rw [Real.rpow_neg (by norm_num), one_add_one_eq_two]; field_simp; ring
      have := hc.tendsto
      rw [h0] at this
      exact this.mono_left nhdsWithin_le_nhds
    · filter_upwards [Ioo_mem_nhdsLT (show (-1 : ℝ) < 1 by norm_num)] with y hy
      obtain ⟨hq, hqT⟩ := q_bounds t ht y hy
      simp only [Set.mem_Ioi]
      rw [Real.rpow_neg (by norm_num)]
      have : ((2 : ℝ) ^ t.k)⁻¹ * (1 + y) ^ t.k < 1 := by
        rw [inv_mul_lt_iff₀ hT]; linarith
      linarith
  have h2 := Real.tendsto_log_nhdsGT_zero.comp h1
  exact h2.const_mul_atBot_of_neg (show -t.R < 0 by linarith)

/-- (3) The inverse-derivative package applies at every interior point of the codomain (`0 < R`). -/
theorem localInverseAt (t : KnowlesRTransform ℝ) (ht : t.Admissible) (hR : 0 < t.R) (r : ℝ) (hr : CoInterior t r) :
    LocalInverseAt t.ops r := by
  have hx := inverse_mem t ht hR r hr
  have hr' := hr
  simp only [CoInterior, KnowlesRTransform.codomain_lo] at hr'
  have hk := k_pos t ht
  refine ⟨hasDerivAt_transform t ht _ hx, hasDerivAt_deriv t ht _ hx, hasDerivAt_deriv2 t ht _ hx,
    (deriv_pos t ht hR _ hx).ne', ?_, ?_⟩
  · show ContinuousAt t.inverse r
    rw [inverse_eq]
    have hk' : 0 ≤ 1 / t.k := by positivity
    have hc : ContinuousAt (fun r : ℝ => 1 - Real.exp ((t.rmin - r) / t.R)) r := by fun_prop
    exact continuousAt_const.add (continuousAt_const.mul (hc.rpow_const (Or.inr hk')))
  · show ∀ᶠ y in 𝓝 r, t.transform (t.inverse y) = y
    filter_upwards [Ioi_mem_nhds hr'] with y hy
    exact transform_inverse t ht hR y hy

/-- (3) `deriv_inverse`, `deriv2_inverse`, `deriv3_inverse` (inherited from `BaseTransform`; the same
expressions are `InverseRTransform(t).deriv/deriv2/deriv3`) are the first three derivatives of `inverse`
on the interior of the codomain. -/
theorem inverse_derivs (t : KnowlesRTransform ℝ) (ht : t.Admissible) (hR : 0 < t.R) (r : ℝ) (hr : CoInterior t r) :
    HasDerivAt t.inverse (BaseTransform.deriv_inverse t.ops r) r ∧
    HasDerivAt (BaseTransform.deriv_inverse t.ops) (BaseTransform.deriv2_inverse t.ops r) r ∧
    HasDerivAt (BaseTransform.deriv2_inverse t.ops) (BaseTransform.deriv3_inverse t.ops r) r :=
  deriv_inverse_package t.ops r (localInverseAt t ht hR r hr)

example : ∃ t : KnowlesRTransform ℝ, t.Admissible ∧ 0 < t.R ∧ CoInterior t 2 :=
  ⟨⟨1 / 10, 3 / 2, 5 / 2, true⟩, by simp [KnowlesRTransform.Admissible], by norm_num,
    by simp [CoInterior, KnowlesRTransform.codomain_lo]; norm_num⟩

end GridVerif.C03.KnowlesRTransform

/-
  C03 — `InverseRTransform(tfm)`: the transform object whose forward map is `tfm.inverse`.

  Definitions: `Gen/RTransform.lean` (regenerated from rtransform.py on every run): `wrapInverseRTransform F`
  is `InverseRTransform(F)` as a record of its five methods.  The theorems are generic in the wrapped
  transform object `F`; what they need from `F` at a point is `LocalInverseAt F r` (Lemmas/RTransform.lean),
  which every class file establishes on the interior of its codomain (`<Class>.localInverseAt`).
  `ZeroDivisionError` (`*_raises`) is the case `F.deriv (F.inverse r) = 0`, excluded by `LocalInverseAt.ne`.
-/
import GridVerif.Lemmas.RTransform

namespace GridVerif.C03.InverseRTransform
open GridVerif.Gen.RTransform GridVerif.C03 Filter Topology

/-- The five methods of `InverseRTransform(F)` in terms of `F`: forward map = `F.inverse`, inverse = `F.transform`,
and `deriv`, `deriv2`, `deriv3` are literally the inherited `deriv_inverse`, `deriv2_inverse`, `deriv3_inverse` of `F`. -/
theorem methods (F : BaseTransform ℝ) :
    (wrapInverseRTransform F).transform = F.inverse ∧
    (wrapInverseRTransform F).inverse = F.transform ∧
    (wrapInverseRTransform F).deriv = BaseTransform.deriv_inverse F ∧
    (wrapInverseRTransform F).deriv2 = BaseTransform.deriv2_inverse F ∧
    (wrapInverseRTransform F).deriv3 = BaseTransform.deriv3_inverse F :=
  inverseRTransform_methods F

/-- The method raises exactly when the first derivative of the wrapped transform vanishes at the preimage. -/
theorem deriv_raises_iff (F : BaseTransform ℝ) (r : ℝ) :
    InverseRTransform.deriv_raises { tfm := F } r ↔ F.deriv (F.inverse r) = 0 := by
  simp [InverseRTransform.deriv_raises, InverseRTransform.d1_raises]

/-- (1a) `deriv` is the derivative of `transform`. -/
theorem hasDerivAt_transform (F : BaseTransform ℝ) (r : ℝ) (h : LocalInverseAt F r) :
    HasDerivAt (wrapInverseRTransform F).transform ((wrapInverseRTransform F).deriv r) r :=
  (deriv_inverse_package F r h).1

/-- (1b) `deriv2` is the derivative of `deriv`. -/
theorem hasDerivAt_deriv (F : BaseTransform ℝ) (r : ℝ) (h : LocalInverseAt F r) :
    HasDerivAt (wrapInverseRTransform F).deriv ((wrapInverseRTransform F).deriv2 r) r :=
  (deriv_inverse_package F r h).2.1

/-- (1c) `deriv3` is the derivative of `deriv2`. -/
theorem hasDerivAt_deriv2 (F : BaseTransform ℝ) (r : ℝ) (h : LocalInverseAt F r) :
    HasDerivAt (wrapInverseRTransform F).deriv2 ((wrapInverseRTransform F).deriv3 r) r :=
  (deriv_inverse_package F r h).2.2

/-- (2a) Round trip of the wrapper = the other round trip of the wrapped transform. -/
theorem inverse_transform (F : BaseTransform ℝ) (r : ℝ) (h : F.transform (F.inverse r) = r) :
    (wrapInverseRTransform F).inverse ((wrapInverseRTransform F).transform r) = r := h

/-- (2b) Round trip of the wrapper = the other round trip of the wrapped transform. -/
theorem transform_inverse (F : BaseTransform ℝ) (x : ℝ) (h : F.inverse (F.transform x) = x) :
    (wrapInverseRTransform F).transform ((wrapInverseRTransform F).inverse x) = x := h

/-- (3) The inverse-derivative methods of the wrapper give back the derivative methods of the wrapped
transform: at `x` with `F.inverse (F.transform x) = x` and `F.deriv x ≠ 0`,
`1/g' = d₁`, `-g''/g'³ = d₂`, `(3g''² - g' g''')/g'⁵ = d₃` for `g' = 1/d₁`, `g'' = -d₂/d₁³`, `g''' = (3d₂² - d₁d₃)/d₁⁵`. -/
theorem inverse_derivs_of_wrapper (F : BaseTransform ℝ) (x : ℝ) (hrt : F.inverse (F.transform x) = x)
    (hne : F.deriv x ≠ 0) :
    BaseTransform.deriv_inverse (wrapInverseRTransform F) x = F.deriv x ∧
    BaseTransform.deriv2_inverse (wrapInverseRTransform F) x = F.deriv2 x ∧
    BaseTransform.deriv3_inverse (wrapInverseRTransform F) x = F.deriv3 x := by
  have e : (wrapInverseRTransform F).inverse x = F.transform x := rfl
  refine ⟨?_, ?_, ?_⟩
  · rw [deriv_inverse_fun]
    show 1 / (BaseTransform.deriv_inverse F (F.transform x)) = F.deriv x
    rw [deriv_inverse_fun]; simp only [hrt]; field_simp
  · rw [deriv2_inverse_fun]
    show -(BaseTransform.deriv2_inverse F (F.transform x)) / (BaseTransform.deriv_inverse F (F.transform x)) ^ 3
      = F.deriv2 x
    rw [deriv_inverse_fun, deriv2_inverse_fun]; simp only [hrt]; field_simp
  · rw [deriv3_inverse_val]
    show (3 * (BaseTransform.deriv2_inverse F (F.transform x)) ^ 2
        - BaseTransform.deriv_inverse F (F.transform x) * BaseTransform.deriv3_inverse F (F.transform x))
        / (BaseTransform.deriv_inverse F (F.transform x)) ^ 5 = F.deriv3 x
    rw [deriv_inverse_fun, deriv2_inverse_fun, deriv3_inverse_val]; simp only [hrt]; field_simp; ring

/-- (4) The inverse of a map that is strictly increasing on `U` is strictly increasing on every set `V`
that it maps into `U` and on which the round trip holds. -/
theorem strictMonoOn_transform (F : BaseTransform ℝ) (U V : Set ℝ) (hmono : StrictMonoOn F.transform U)
    (hmaps : ∀ r ∈ V, F.inverse r ∈ U) (hrt : ∀ r ∈ V, F.transform (F.inverse r) = r) :
    StrictMonoOn (wrapInverseRTransform F).transform V := by
  intro r₁ h₁ r₂ h₂ hlt
  show F.inverse r₁ < F.inverse r₂
  by_contra hge
  have hge' : F.inverse r₂ ≤ F.inverse r₁ := not_lt.mp hge
  have := hmono.monotoneOn (hmaps r₂ h₂) (hmaps r₁ h₁) hge'
  rw [hrt r₁ h₁, hrt r₂ h₂] at this
  linarith

/-- (4) Same for a strictly decreasing map (`MultiExpRTransform`). -/
theorem strictAntiOn_transform (F : BaseTransform ℝ) (U V : Set ℝ) (hanti : StrictAntiOn F.transform U)
    (hmaps : ∀ r ∈ V, F.inverse r ∈ U) (hrt : ∀ r ∈ V, F.transform (F.inverse r) = r) :
    StrictAntiOn (wrapInverseRTransform F).transform V := by
  intro r₁ h₁ r₂ h₂ hlt
  show F.inverse r₂ < F.inverse r₁
  by_contra hge
  have hge' : F.inverse r₁ ≤ F.inverse r₂ := not_lt.mp hge
  have := hanti.antitoneOn (hmaps r₁ h₁) (hmaps r₂ h₂) hge'
  rw [hrt r₁ h₁, hrt r₂ h₂] at this
  linarith

/-- Non-vacuity: a transform object (`x ↦ x² + 1` on `x > 0`, inverse `√(r - 1)`) satisfying `LocalInverseAt` at `r = 5`. -/
example : ∃ F : BaseTransform ℝ, LocalInverseAt F 5 ∧ F.inverse 5 = 2 := by
  refine ⟨⟨fun x => x ^ 2 + 1, fun r => Real.sqrt (r - 1), fun x => 2 * x, fun _ => 2, fun _ => 0⟩, ?_, ?_⟩
  · have h2 : Real.sqrt (5 - 1) = 2 := by
      rw [show (5 : ℝ) - 1 = 2 ^ 2 by norm_num]; exact Real.sqrt_sq (by norm_num)
    refine ⟨?_, ?_, ?_, ?_, ?_, ?_⟩
    · show HasDerivAt (fun x : ℝ => x ^ 2 + 1) (2 * Real.sqrt (5 - 1)) (Real.sqrt (5 - 1))
      have h := ((hasDerivAt_id (Real.sqrt (5 - 1))).pow 2).add_const 1
      refine h.congr_deriv ?_
      simp
    · show HasDerivAt (fun x : ℝ => 2 * x) 2 (Real.sqrt (5 - 1))
      simpa using (hasDerivAt_id (Real.sqrt (5 - 1))).const_mul 2
    · exact hasDerivAt_const _ _
    · show 2 * Real.sqrt (5 - 1) ≠ 0
      rw [h2]; norm_num
    · show ContinuousAt (fun r : ℝ => Real.sqrt (r - 1)) 5
      fun_prop
    · show ∀ᶠ y in 𝓝 (5 : ℝ), Real.sqrt (y - 1) ^ 2 + 1 = y
      filter_upwards [Ioi_mem_nhds (show (1 : ℝ) < 5 by norm_num)] with y hy
      rw [Real.sq_sqrt (by simp only [Set.mem_Ioi] at hy; linarith)]; ring
  · show Real.sqrt (5 - 1) = 2
    rw [show (5 : ℝ) - 1 = 2 ^ 2 by norm_num]; exact Real.sqrt_sq (by norm_num)

end GridVerif.C03.InverseRTransform

/-
  C03 — `IdentityRTransform()`:  r(x) = x,  (0, ∞) → (0, ∞).
  Definitions: `Gen/RTransform.lean` (regenerated from rtransform.py on every run). No parameters.
-/
import GridVerif.Lemmas.RTransform

namespace GridVerif.C03.IdentityRTransform
open GridVerif.Gen.RTransform GridVerif.C03 Filter Topology

/-- Interior of the declared domain `(0, ∞)`. -/
def Interior (t : IdentityRTransform ℝ) (x : ℝ) : Prop := t.domain_lo < x

/-- Interior of the codomain `(0, ∞)`. -/
def CoInterior (t : IdentityRTransform ℝ) (r : ℝ) : Prop := t.codomain_lo < r

theorem transform_eq (t : IdentityRTransform ℝ) : t.transform = fun y => y := rfl
theorem inverse_eq (t : IdentityRTransform ℝ) : t.inverse = fun y => y := rfl
theorem deriv_eq (t : IdentityRTransform ℝ) : t.deriv = fun _ => 1 := by
  funext y; simp only [IdentityRTransform.deriv]; rt_norm
theorem deriv2_eq (t : IdentityRTransform ℝ) : t.deriv2 = fun _ => 0 := by
  funext y; simp only [IdentityRTransform.deriv2]; rt_norm
theorem deriv3_eq (t : IdentityRTransform ℝ) : t.deriv3 = fun _ => 0 := by
  funext y; simp only [IdentityRTransform.deriv3]; rt_norm

/-- (1a) `deriv` is the derivative of `transform`. -/
theorem hasDerivAt_transform (t : IdentityRTransform ℝ) (_ht : t.Admissible) (x : ℝ) (_hx : Interior t x) :
    HasDerivAt t.transform (t.deriv x) x := by
  rw [transform_eq, deriv_eq]; exact hasDerivAt_id x

/-- (1b) `deriv2` is the derivative of `deriv`. -/
theorem hasDerivAt_deriv (t : IdentityRTransform ℝ) (_ht : t.Admissible) (x : ℝ) (_hx : Interior t x) :
    HasDerivAt t.deriv (t.deriv2 x) x := by
  rw [deriv_eq, deriv2_eq]; exact hasDerivAt_const x _

/-- (1c) `deriv3` is the derivative of `deriv2`. -/
theorem hasDerivAt_deriv2 (t : IdentityRTransform ℝ) (_ht : t.Admissible) (x : ℝ) (_hx : Interior t x) :
    HasDerivAt t.deriv2 (t.deriv3 x) x := by
  rw [deriv2_eq, deriv3_eq]; exact hasDerivAt_const x _

/-- The `isinstance(x, Number)` branches compute the same values as the array branches. -/
theorem scalar_branch_eq (t : IdentityRTransform ℝ) (x : ℝ) :
    t.deriv_scalar x = t.deriv x ∧ t.deriv2_scalar x = t.deriv2 x ∧ t.deriv3_scalar x = t.deriv3 x :=
  ⟨rfl, rfl, rfl⟩

example : ∃ t : IdentityRTransform ℝ, t.Admissible ∧ Interior t 3 ∧ CoInterior t 3 :=
  ⟨⟨⟩, trivial, by simp [Interior, IdentityRTransform.domain_lo],
    by simp [CoInterior, IdentityRTransform.codomain_lo]⟩

/-- (2a) The inverse undoes the forward map. -/
theorem inverse_transform (t : IdentityRTransform ℝ) (_ht : t.Admissible) (x : ℝ) (_hx : Interior t x) :
    t.inverse (t.transform x) = x := rfl

/-- (2b) The forward map undoes the inverse. -/
theorem transform_inverse (t : IdentityRTransform ℝ) (_ht : t.Admissible) (r : ℝ) (_hr : CoInterior t r) :
    t.transform (t.inverse r) = r := rfl

/-- (4a) The derivative is positive. -/
theorem deriv_pos (t : IdentityRTransform ℝ) (x : ℝ) : 0 < t.deriv x := by
  rw [deriv_eq]; exact one_pos

/-- (4b) Strictly increasing on the interior of the domain. -/
theorem strictMonoOn_transform (t : IdentityRTransform ℝ) (ht : t.Admissible) :
    StrictMonoOn t.transform (Set.Ioi t.domain_lo) :=
  strictMonoOn_of_hasDerivAt_pos (convex_Ioi _) (fun x hx => hasDerivAt_transform t ht x hx)
    (fun x _ => deriv_pos t x)

/-- (4c) End point: `0 ↦ 0`. -/
theorem transform_domain_lo (t : IdentityRTransform ℝ) : t.transform t.domain_lo = t.codomain_lo := rfl

/-- (4d) End point: unbounded towards the upper end `∞` of the domain. -/
theorem tendsto_transform_domain_hi (t : IdentityRTransform ℝ) : Tendsto t.transform atTop atTop := by
  rw [transform_eq]; exact tendsto_id

/-- (3) The inverse-derivative package applies at every point of the codomain. -/
theorem localInverseAt (t : IdentityRTransform ℝ) (ht : t.Admissible) (r : ℝ) (hr : CoInterior t r) :
    LocalInverseAt t.ops r := by
  have hx : Interior t (t.inverse r) := hr
  refine ⟨hasDerivAt_transform t ht _ hx, hasDerivAt_deriv t ht _ hx, hasDerivAt_deriv2 t ht _ hx,
    (deriv_pos t (t.inverse r)).ne', ?_, ?_⟩
  · show ContinuousAt t.inverse r
    rw [inverse_eq]; exact continuousAt_id
  · exact Eventually.of_forall fun y => rfl

/-- (3) `deriv_inverse`, `deriv2_inverse`, `deriv3_inverse` are the first three derivatives of `inverse`. -/
theorem inverse_derivs (t : IdentityRTransform ℝ) (ht : t.Admissible) (r : ℝ) (hr : CoInterior t r) :
    HasDerivAt t.inverse (BaseTransform.deriv_inverse t.ops r) r ∧
    HasDerivAt (BaseTransform.deriv_inverse t.ops) (BaseTransform.deriv2_inverse t.ops r) r ∧
    HasDerivAt (BaseTransform.deriv2_inverse t.ops) (BaseTransform.deriv3_inverse t.ops r) r :=
  deriv_inverse_package t.ops r (localInverseAt t ht r hr)

end GridVerif.C03.IdentityRTransform

/-
  C03 — `ExpRTransform(rmin, rmax, b)`:  r(x) = rmin · exp(x · log(rmax/rmin)/b),  reference points 0 ↦ rmin, b ↦ rmax.

  Definitions: `Gen/RTransform.lean` (regenerated from rtransform.py on every run); `b` is the scale
  parameter once it is set.  The constructor rejects `rmin < 0`, `rmax < 0`, `rmin ≥ rmax`; it ACCEPTS
  `rmin = 0`, for which `log(rmax/rmin)` is infinite and every method returns nan/inf/0.  The theorems carry
  the extra hypotheses `0 < rmin` and `b ≠ 0` (`0 < b` for monotonicity); the oracle runs the code at the
  excluded parameters and reports what it sees as information.
-/
import GridVerif.Lemmas.RTransform

namespace GridVerif.C03.ExpRTransform
open GridVerif.Gen.RTransform GridVerif.C03 Filter Topology

/-- Interior of the declared domain `(0, ∞)`. -/
def Interior (t : ExpRTransform ℝ) (x : ℝ) : Prop := t.domain_lo < x

/-- Positive radii (the codomain of interest is `(rmin, rmax)`; the round trip holds for every `r > 0`). -/
def CoInterior (_t : ExpRTransform ℝ) (r : ℝ) : Prop := 0 < r

theorem admissible_iff (t : ExpRTransform ℝ) : t.Admissible ↔ (0 ≤ t.rmin ∧ 0 ≤ t.rmax) ∧ t.rmin < t.rmax := by
  simp [ExpRTransform.Admissible]

/-- The rate `alpha = log(rmax/rmin)/b` of the code. -/
noncomputable def alpha (t : ExpRTransform ℝ) : ℝ := Real.log (t.rmax / t.rmin) / t.b

theorem log_ratio_pos (t : ExpRTransform ℝ) (ht : t.Admissible) (hmin : 0 < t.rmin) :
    0 < Real.log (t.rmax / t.rmin) := by
  rw [admissible_iff] at ht
  apply Real.log_pos
  rw [one_lt_div hmin]; exact ht.2

theorem transform_eq (t : ExpRTransform ℝ) : t.transform = fun y => t.rmin * Real.exp (y * alpha t) := by
  funext y; simp only [ExpRTransform.transform, alpha]; rt_norm

theorem deriv_eq (t : ExpRTransform ℝ) : t.deriv = fun y => t.rmin * Real.exp (y * alpha t) * alpha t := by
  funext y; simp only [ExpRTransform.deriv, transform_eq, alpha]; rt_norm

theorem deriv2_eq (t : ExpRTransform ℝ) :
    t.deriv2 = fun y => t.rmin * Real.exp (y * alpha t) * alpha t * alpha t := by
  funext y; simp only [ExpRTransform.deriv2, deriv_eq, alpha]; rt_norm

theorem deriv3_eq (t : ExpRTransform ℝ) :
    t.deriv3 = fun y => t.rmin * Real.exp (y * alpha t) * alpha t * alpha t * alpha t := by
  funext y; simp only [ExpRTransform.deriv3, deriv2_eq, alpha]; rt_norm

theorem inverse_eq (t : ExpRTransform ℝ) : t.inverse = fun r => Real.log (r / t.rmin) / alpha t := by
  funext y; simp only [ExpRTransform.inverse, alpha]; rt_norm

theorem hasDerivAt_exp_mul (c a x : ℝ) :
    HasDerivAt (fun y : ℝ => c * Real.exp (y * a)) (c * Real.exp (x * a) * a) x := by
  have h := (((hasDerivAt_id x).mul_const a).exp).const_mul c
  refine h.congr_deriv ?_
  simp only [id]; ring

/-- (1a) `deriv` is the derivative of `transform` (`0 < rmin`, `b ≠ 0` so that the rate is a number). -/
theorem hasDerivAt_transform (t : ExpRTransform ℝ) (_ht : t.Admissible) (_hmin : 0 < t.rmin) (_hb : t.b ≠ 0)
    (x : ℝ) (_hx : Interior t x) : HasDerivAt t.transform (t.deriv x) x := by
  rw [transform_eq, deriv_eq]; exact hasDerivAt_exp_mul _ _ _

/-- (1b) `deriv2` is the derivative of `deriv`. -/
theorem hasDerivAt_deriv (t : ExpRTransform ℝ) (_ht : t.Admissible) (_hmin : 0 < t.rmin) (_hb : t.b ≠ 0)
    (x : ℝ) (_hx : Interior t x) : HasDerivAt t.deriv (t.deriv2 x) x := by
  rw [deriv_eq, deriv2_eq]; exact (hasDerivAt_exp_mul _ _ _).mul_const _

/-- (1c) `deriv3` is the derivative of `deriv2`. -/
theorem hasDerivAt_deriv2 (t : ExpRTransform ℝ) (_ht : t.Admissible) (_hmin : 0 < t.rmin) (_hb : t.b ≠ 0)
    (x : ℝ) (_hx : Interior t x) : HasDerivAt t.deriv2 (t.deriv3 x) x := by
  rw [deriv2_eq, deriv3_eq]; exact ((hasDerivAt_exp_mul _ _ _).mul_const _).mul_const _

example : ∃ t : ExpRTransform ℝ, t.Admissible ∧ 0 < t.rmin ∧ 0 < t.b ∧ Interior t (7 / 2) ∧ CoInterior t 2 :=
  ⟨⟨1 / 10, 5, 3⟩, by rw [admissible_iff]; norm_num, by norm_num, by norm_num,
    by simp [Interior, ExpRTransform.domain_lo], by simp [CoInterior]⟩

theorem alpha_ne_zero (t : ExpRTransform ℝ) (ht : t.Admissible) (hmin : 0 < t.rmin) (hb : t.b ≠ 0) :
    alpha t ≠ 0 := div_ne_zero (log_ratio_pos t ht hmin).ne' hb

/-- (2a) The inverse undoes the forward map (`0 < rmin`, `b ≠ 0`). -/
theorem inverse_transform (t : ExpRTransform ℝ) (ht : t.Admissible) (hmin : 0 < t.rmin) (hb : t.b ≠ 0) (x : ℝ)
    (_hx : Interior t x) : t.inverse (t.transform x) = x := by
  have ha := alpha_ne_zero t ht hmin hb
  rw [transform_eq, inverse_eq]
  simp only
  rw [mul_div_cancel_left₀ _ hmin.ne', Real.log_exp]
  field_simp

/-- (2b) The forward map undoes the inverse at every `r > 0` (`0 < rmin`, `b ≠ 0`). -/
theorem transform_inverse (t : ExpRTransform ℝ) (ht : t.Admissible) (hmin : 0 < t.rmin) (hb : t.b ≠ 0) (r : ℝ)
    (hr : CoInterior t r) : t.transform (t.inverse r) = r := by
  have ha := alpha_ne_zero t ht hmin hb
  simp only [CoInterior] at hr
  rw [transform_eq, inverse_eq]
  simp only
  rw [div_mul_cancel₀ _ ha, Real.exp_log (div_pos hr hmin)]
  field_simp

/-- (4a) The derivative is positive (`0 < rmin`, `0 < b`). -/
theorem deriv_pos (t : ExpRTransform ℝ) (ht : t.Admissible) (hmin : 0 < t.rmin) (hb : 0 < t.b) (x : ℝ) :
    0 < t.deriv x := by
  rw [deriv_eq]
  have ha : 0 < alpha t := div_pos (log_ratio_pos t ht hmin) hb
  have := Real.exp_pos (x * alpha t)
  positivity

/-- (4b) Strictly increasing on the interior of the domain (`0 < rmin`, `0 < b`). -/
theorem strictMonoOn_transform (t : ExpRTransform ℝ) (ht : t.Admissible) (hmin : 0 < t.rmin) (hb : 0 < t.b) :
    StrictMonoOn t.transform (Set.Ioi t.domain_lo) :=
  strictMonoOn_of_hasDerivAt_pos (convex_Ioi _) (fun x hx => hasDerivAt_transform t ht hmin hb.ne' x hx)
    (fun x _ => deriv_pos t ht hmin hb x)

/-- (4c) Reference point `0 ↦ rmin`. -/
theorem transform_domain_lo (t : ExpRTransform ℝ) : t.transform t.domain_lo = t.codomain_lo := by
  rw [transform_eq]; simp [ExpRTransform.domain_lo, ExpRTransform.codomain_lo]

/-- (4c) Reference point `b ↦ rmax` (`0 < rmin`, `b ≠ 0`). -/
theorem transform_b (t : ExpRTransform ℝ) (ht : t.Admissible) (hmin : 0 < t.rmin) (hb : t.b ≠ 0) :
    t.transform t.b = t.codomain_hi := by
  have hmax : 0 < t.rmax := by rw [admissible_iff] at ht; linarith [ht.2]
  rw [transform_eq]; simp only [ExpRTransform.codomain_hi, alpha]
  rw [mul_div_cancel₀ _ hb, Real.exp_log (div_pos hmax hmin)]
  field_simp

/-- (3) The inverse-derivative package applies at every `r > 0` whose preimage is in the domain. -/
theorem localInverseAt (t : ExpRTransform ℝ) (ht : t.Admissible) (hmin : 0 < t.rmin) (hb : 0 < t.b) (r : ℝ)
    (hr : CoInterior t r) (hx : Interior t (t.inverse r)) : LocalInverseAt t.ops r := by
  have hr' : 0 < r := hr
  refine ⟨hasDerivAt_transform t ht hmin hb.ne' _ hx, hasDerivAt_deriv t ht hmin hb.ne' _ hx,
    hasDerivAt_deriv2 t ht hmin hb.ne' _ hx, (deriv_pos t ht hmin hb (t.inverse r)).ne', ?_, ?_⟩
  · show ContinuousAt t.inverse r
    rw [inverse_eq]
    have h1 : r / t.rmin ≠ 0 := (div_pos hr' hmin).ne'
    exact ((continuousAt_id.div_const _).log h1).div_const _
  · show ∀ᶠ y in 𝓝 r, t.transform (t.inverse y) = y
    filter_upwards [Ioi_mem_nhds hr'] with y hy
    exact transform_inverse t ht hmin hb.ne' y hy

/-- (3) `deriv_inverse`, `deriv2_inverse`, `deriv3_inverse` are the first three derivatives of `inverse`. -/
theorem inverse_derivs (t : ExpRTransform ℝ) (ht : t.Admissible) (hmin : 0 < t.rmin) (hb : 0 < t.b) (r : ℝ)
    (hr : CoInterior t r) (hx : Interior t (t.inverse r)) :
    HasDerivAt t.inverse (BaseTransform.deriv_inverse t.ops r) r ∧
    HasDerivAt (BaseTransform.deriv_inverse t.ops) (BaseTransform.deriv2_inverse t.ops r) r ∧
    HasDerivAt (BaseTransform.deriv2_inverse t.ops) (BaseTransform.deriv3_inverse t.ops r) r :=
  deriv_inverse_package t.ops r (localInverseAt t ht hmin hb r hr hx)

end GridVerif.C03.ExpRTransform

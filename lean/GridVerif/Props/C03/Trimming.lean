/-
  C03 — trimming of infinities inside the methods (`if self.trim_inf: v = self._convert_inf(v)`), on the
  generated definitions of `Gen/RTransform.lean`.

  Part 1, for EVERY carrier `K` with infinity tests (`Float` included) and every one of the 11 call sites of
  `_convert_inf` (Becke transform/deriv, MultiExp transform, Knowles transform/deriv, Handy transform/deriv/
  deriv2/deriv3, HandyMod transform/deriv): the method with trimming on returns
    * the *untrimmed* value itself whenever that value is neither `+inf` nor `-inf` — whatever its magnitude
      (a change that caps finite values, e.g. `np.clip(array, -1e16, 1e16)`, cannot satisfy `…_of_not_inf`:
      the translator rejects it, and any translatable variant changes the text these proofs unfold);
    * `1e16` when the untrimmed value is `+inf`, `-1e16` when it is `-inf`.
  The "untrimmed value" is the same generated method at `trim_inf := false`.

  Part 2, on `XReal` (exact reals + IEEE `±inf`, `nan`; `Lemmas/XReal.lean`): `_convert_inf` maps every finite
  value of every magnitude to itself, `±inf ↦ ±1e16`, `nan ↦ nan`, both branches agree; the value of the forward
  map *at* the singular end of the domain is `inf`, trimmed to `1e16` (Becke, MultiExp, Knowles, Handy — the
  property's "infinity represented by a large finite number when trimming is on"); Becke: interior points give the
  real value untouched by the trimming, and the Jacobian at the singular end is `inf` / `1e16`.
-/
import GridVerif.Lemmas.XReal
import GridVerif.Lemmas.RTransform

set_option linter.unusedSectionVars false
set_option linter.unusedVariables false

namespace GridVerif.C03.Trim
open GridVerif.Gen.RTransform GridVerif.C03 GridVerif.XReal

/-! ### Part 1 — every carrier, every call site -/

section generic
variable {K : Type} [Add K] [Sub K] [Mul K] [Div K] [Neg K] [NatCast K] [Elem K] [HasInf K] [LT K] [LE K] [BEq K]

/-- `BeckeRTransform.transform`: a value that is not `±inf` passes the trimming unchanged (any magnitude). -/
theorem becke_transform_of_not_inf (t : BeckeRTransform K) (x : K)
    (hp : HasInf.eqPosInf (BeckeRTransform.transform { t with trim_inf := false } x) = false) (hn : HasInf.eqNegInf (BeckeRTransform.transform { t with trim_inf := false } x) = false) :
    t.transform x = BeckeRTransform.transform { t with trim_inf := false } x := by
  cases h : t.trim_inf <;> simp_all [BeckeRTransform.transform, BaseTransform.convert_inf]

/-- `BeckeRTransform.transform` with trimming on: `+inf ↦ 1e16`. -/
theorem becke_transform_of_posInf (t : BeckeRTransform K) (x : K) (htr : t.trim_inf = true)
    (hp : HasInf.eqPosInf (BeckeRTransform.transform { t with trim_inf := false } x) = true) (hr : HasInf.eqNegInf ((10000000000000000 : Nat) : K) = false) :
    t.transform x = ((10000000000000000 : Nat) : K) := by
  simp_all [BeckeRTransform.transform, BaseTransform.convert_inf]

/-- `BeckeRTransform.transform` with trimming on: `-inf ↦ -1e16`. -/
theorem becke_transform_of_negInf (t : BeckeRTransform K) (x : K) (htr : t.trim_inf = true)
    (hp : HasInf.eqPosInf (BeckeRTransform.transform { t with trim_inf := false } x) = false) (hn : HasInf.eqNegInf (BeckeRTransform.transform { t with trim_inf := false } x) = true) :
    t.transform x = -((10000000000000000 : Nat) : K) := by
  simp_all [BeckeRTransform.transform, BaseTransform.convert_inf]

/-- `BeckeRTransform.deriv`: a value that is not `±inf` passes the trimming unchanged (any magnitude). -/
theorem becke_deriv_of_not_inf (t : BeckeRTransform K) (x : K)
    (hp : HasInf.eqPosInf (BeckeRTransform.deriv { t with trim_inf := false } x) = false) (hn : HasInf.eqNegInf (BeckeRTransform.deriv { t with trim_inf := false } x) = false) :
    t.deriv x = BeckeRTransform.deriv { t with trim_inf := false } x := by
  cases h : t.trim_inf <;> simp_all [BeckeRTransform.deriv, BaseTransform.convert_inf]

/-- `BeckeRTransform.deriv` with trimming on: `+inf ↦ 1e16`. -/
theorem becke_deriv_of_posInf (t : BeckeRTransform K) (x : K) (htr : t.trim_inf = true)
    (hp : HasInf.eqPosInf (BeckeRTransform.deriv { t with trim_inf := false } x) = true) (hr : HasInf.eqNegInf ((10000000000000000 : Nat) : K) = false) :
    t.deriv x = ((10000000000000000 : Nat) : K) := by
  simp_all [BeckeRTransform.deriv, BaseTransform.convert_inf]

/-- `BeckeRTransform.deriv` with trimming on: `-inf ↦ -1e16`. -/
theorem becke_deriv_of_negInf (t : BeckeRTransform K) (x : K) (htr : t.trim_inf = true)
    (hp : HasInf.eqPosInf (BeckeRTransform.deriv { t with trim_inf := false } x) = false) (hn : HasInf.eqNegInf (BeckeRTransform.deriv { t with trim_inf := false } x) = true) :
    t.deriv x = -((10000000000000000 : Nat) : K) := by
  simp_all [BeckeRTransform.deriv, BaseTransform.convert_inf]

/-- `MultiExpRTransform.transform`: a value that is not `±inf` passes the trimming unchanged (any magnitude). -/
theorem multiExp_transform_of_not_inf (t : MultiExpRTransform K) (x : K)
    (hp : HasInf.eqPosInf (MultiExpRTransform.transform { t with trim_inf := false } x) = false) (hn : HasInf.eqNegInf (MultiExpRTransform.transform { t with trim_inf := false } x) = false) :
    t.transform x = MultiExpRTransform.transform { t with trim_inf := false } x := by
  cases h : t.trim_inf <;> simp_all [MultiExpRTransform.transform, BaseTransform.convert_inf]

/-- `MultiExpRTransform.transform` with trimming on: `+inf ↦ 1e16`. -/
theorem multiExp_transform_of_posInf (t : MultiExpRTransform K) (x : K) (htr : t.trim_inf = true)
    (hp : HasInf.eqPosInf (MultiExpRTransform.transform { t with trim_inf := false } x) = true) (hr : HasInf.eqNegInf ((10000000000000000 : Nat) : K) = false) :
    t.transform x = ((10000000000000000 : Nat) : K) := by
  simp_all [MultiExpRTransform.transform, BaseTransform.convert_inf]

/-- `MultiExpRTransform.transform` with trimming on: `-inf ↦ -1e16`. -/
theorem multiExp_transform_of_negInf (t : MultiExpRTransform K) (x : K) (htr : t.trim_inf = true)
    (hp : HasInf.eqPosInf (MultiExpRTransform.transform { t with trim_inf := false } x) = false) (hn : HasInf.eqNegInf (MultiExpRTransform.transform { t with trim_inf := false } x) = true) :
    t.transform x = -((10000000000000000 : Nat) : K) := by
  simp_all [MultiExpRTransform.transform, BaseTransform.convert_inf]

/-- `KnowlesRTransform.transform`: a value that is not `±inf` passes the trimming unchanged (any magnitude). -/
theorem knowles_transform_of_not_inf (t : KnowlesRTransform K) (x : K)
    (hp : HasInf.eqPosInf (KnowlesRTransform.transform { t with trim_inf := false } x) = false) (hn : HasInf.eqNegInf (KnowlesRTransform.transform { t with trim_inf := false } x) = false) :
    t.transform x = KnowlesRTransform.transform { t with trim_inf := false } x := by
  cases h : t.trim_inf <;> simp_all [KnowlesRTransform.transform, BaseTransform.convert_inf]

/-- `KnowlesRTransform.transform` with trimming on: `+inf ↦ 1e16`. -/
theorem knowles_transform_of_posInf (t : KnowlesRTransform K) (x : K) (htr : t.trim_inf = true)
    (hp : HasInf.eqPosInf (KnowlesRTransform.transform { t with trim_inf := false } x) = true) (hr : HasInf.eqNegInf ((10000000000000000 : Nat) : K) = false) :
    t.transform x = ((10000000000000000 : Nat) : K) := by
  simp_all [KnowlesRTransform.transform, BaseTransform.convert_inf]

/-- `KnowlesRTransform.transform` with trimming on: `-inf ↦ -1e16`. -/
theorem knowles_transform_of_negInf (t : KnowlesRTransform K) (x : K) (htr : t.trim_inf = true)
    (hp : HasInf.eqPosInf (KnowlesRTransform.transform { t with trim_inf := false } x) = false) (hn : HasInf.eqNegInf (KnowlesRTransform.transform { t with trim_inf := false } x) = true) :
    t.transform x = -((10000000000000000 : Nat) : K) := by
  simp_all [KnowlesRTransform.transform, BaseTransform.convert_inf]

/-- `KnowlesRTransform.deriv`: a value that is not `±inf` passes the trimming unchanged (any magnitude). -/
theorem knowles_deriv_of_not_inf (t : KnowlesRTransform K) (x : K)
    (hp : HasInf.eqPosInf (KnowlesRTransform.deriv { t with trim_inf := false } x) = false) (hn : HasInf.eqNegInf (KnowlesRTransform.deriv { t with trim_inf := false } x) = false) :
    t.deriv x = KnowlesRTransform.deriv { t with trim_inf := false } x := by
  cases h : t.trim_inf <;> simp_all [KnowlesRTransform.deriv, BaseTransform.convert_inf]

/-- `KnowlesRTransform.deriv` with trimming on: `+inf ↦ 1e16`. -/
theorem knowles_deriv_of_posInf (t : KnowlesRTransform K) (x : K) (htr : t.trim_inf = true)
    (hp : HasInf.eqPosInf (KnowlesRTransform.deriv { t with trim_inf := false } x) = true) (hr : HasInf.eqNegInf ((10000000000000000 : Nat) : K) = false) :
    t.deriv x = ((10000000000000000 : Nat) : K) := by
  simp_all [KnowlesRTransform.deriv, BaseTransform.convert_inf]

/-- `KnowlesRTransform.deriv` with trimming on: `-inf ↦ -1e16`. -/
theorem knowles_deriv_of_negInf (t : KnowlesRTransform K) (x : K) (htr : t.trim_inf = true)
    (hp : HasInf.eqPosInf (KnowlesRTransform.deriv { t with trim_inf := false } x) = false) (hn : HasInf.eqNegInf (KnowlesRTransform.deriv { t with trim_inf := false } x) = true) :
    t.deriv x = -((10000000000000000 : Nat) : K) := by
  simp_all [KnowlesRTransform.deriv, BaseTransform.convert_inf]

/-- `HandyRTransform.transform`: a value that is not `±inf` passes the trimming unchanged (any magnitude). -/
theorem handy_transform_of_not_inf (t : HandyRTransform K) (x : K)
    (hp : HasInf.eqPosInf (HandyRTransform.transform { t with trim_inf := false } x) = false) (hn : HasInf.eqNegInf (HandyRTransform.transform { t with trim_inf := false } x) = false) :
    t.transform x = HandyRTransform.transform { t with trim_inf := false } x := by
  cases h : t.trim_inf <;> simp_all [HandyRTransform.transform, BaseTransform.convert_inf]

/-- `HandyRTransform.transform` with trimming on: `+inf ↦ 1e16`. -/
theorem handy_transform_of_posInf (t : HandyRTransform K) (x : K) (htr : t.trim_inf = true)
    (hp : HasInf.eqPosInf (HandyRTransform.transform { t with trim_inf := false } x) = true) (hr : HasInf.eqNegInf ((10000000000000000 : Nat) : K) = false) :
    t.transform x = ((10000000000000000 : Nat) : K) := by
  simp_all [HandyRTransform.transform, BaseTransform.convert_inf]

/-- `HandyRTransform.transform` with trimming on: `-inf ↦ -1e16`. -/
theorem handy_transform_of_negInf (t : HandyRTransform K) (x : K) (htr : t.trim_inf = true)
    (hp : HasInf.eqPosInf (HandyRTransform.transform { t with trim_inf := false } x) = false) (hn : HasInf.eqNegInf (HandyRTransform.transform { t with trim_inf := false } x) = true) :
    t.transform x = -((10000000000000000 : Nat) : K) := by
  simp_all [HandyRTransform.transform, BaseTransform.convert_inf]

/-- `HandyRTransform.deriv`: a value that is not `±inf` passes the trimming unchanged (any magnitude). -/
theorem handy_deriv_of_not_inf (t : HandyRTransform K) (x : K)
    (hp : HasInf.eqPosInf (HandyRTransform.deriv { t with trim_inf := false } x) = false) (hn : HasInf.eqNegInf (HandyRTransform.deriv { t with trim_inf := false } x) = false) :
    t.deriv x = HandyRTransform.deriv { t with trim_inf := false } x := by
  cases h : t.trim_inf <;> simp_all [HandyRTransform.deriv, BaseTransform.convert_inf]

/-- `HandyRTransform.deriv` with trimming on: `+inf ↦ 1e16`. -/
theorem handy_deriv_of_posInf (t : HandyRTransform K) (x : K) (htr : t.trim_inf = true)
    (hp : HasInf.eqPosInf (HandyRTransform.deriv { t with trim_inf := false } x) = true) (hr : HasInf.eqNegInf ((10000000000000000 : Nat) : K) = false) :
    t.deriv x = ((10000000000000000 : Nat) : K) := by
  simp_all [HandyRTransform.deriv, BaseTransform.convert_inf]

/-- `HandyRTransform.deriv` with trimming on: `-inf ↦ -1e16`. -/
theorem handy_deriv_of_negInf (t : HandyRTransform K) (x : K) (htr : t.trim_inf = true)
    (hp : HasInf.eqPosInf (HandyRTransform.deriv { t with trim_inf := false } x) = false) (hn : HasInf.eqNegInf (HandyRTransform.deriv { t with trim_inf := false } x) = true) :
    t.deriv x = -((10000000000000000 : Nat) : K) := by
  simp_all [HandyRTransform.deriv, BaseTransform.convert_inf]

/-- `HandyRTransform.deriv2`: a value that is not `±inf` passes the trimming unchanged (any magnitude). -/
theorem handy_deriv2_of_not_inf (t : HandyRTransform K) (x : K)
    (hp : HasInf.eqPosInf (HandyRTransform.deriv2 { t with trim_inf := false } x) = false) (hn : HasInf.eqNegInf (HandyRTransform.deriv2 { t with trim_inf := false } x) = false) :
    t.deriv2 x = HandyRTransform.deriv2 { t with trim_inf := false } x := by
  cases h : t.trim_inf <;> simp_all [HandyRTransform.deriv2, BaseTransform.convert_inf]

/-- `HandyRTransform.deriv2` with trimming on: `+inf ↦ 1e16`. -/
theorem handy_deriv2_of_posInf (t : HandyRTransform K) (x : K) (htr : t.trim_inf = true)
    (hp : HasInf.eqPosInf (HandyRTransform.deriv2 { t with trim_inf := false } x) = true) (hr : HasInf.eqNegInf ((10000000000000000 : Nat) : K) = false) :
    t.deriv2 x = ((10000000000000000 : Nat) : K) := by
  simp_all [HandyRTransform.deriv2, BaseTransform.convert_inf]

/-- `HandyRTransform.deriv2` with trimming on: `-inf ↦ -1e16`. -/
theorem handy_deriv2_of_negInf (t : HandyRTransform K) (x : K) (htr : t.trim_inf = true)
    (hp : HasInf.eqPosInf (HandyRTransform.deriv2 { t with trim_inf := false } x) = false) (hn : HasInf.eqNegInf (HandyRTransform.deriv2 { t with trim_inf := false } x) = true) :
    t.deriv2 x = -((10000000000000000 : Nat) : K) := by
  simp_all [HandyRTransform.deriv2, BaseTransform.convert_inf]

/-- `HandyRTransform.deriv3`: a value that is not `±inf` passes the trimming unchanged (any magnitude). -/
theorem handy_deriv3_of_not_inf (t : HandyRTransform K) (x : K)
    (hp : HasInf.eqPosInf (HandyRTransform.deriv3 { t with trim_inf := false } x) = false) (hn : HasInf.eqNegInf (HandyRTransform.deriv3 { t with trim_inf := false } x) = false) :
    t.deriv3 x = HandyRTransform.deriv3 { t with trim_inf := false } x := by
  cases h : t.trim_inf <;> simp_all [HandyRTransform.deriv3, BaseTransform.convert_inf]

/-- `HandyRTransform.deriv3` with trimming on: `+inf ↦ 1e16`. -/
theorem handy_deriv3_of_posInf (t : HandyRTransform K) (x : K) (htr : t.trim_inf = true)
    (hp : HasInf.eqPosInf (HandyRTransform.deriv3 { t with trim_inf := false } x) = true) (hr : HasInf.eqNegInf ((10000000000000000 : Nat) : K) = false) :
    t.deriv3 x = ((10000000000000000 : Nat) : K) := by
  simp_all [HandyRTransform.deriv3, BaseTransform.convert_inf]

/-- `HandyRTransform.deriv3` with trimming on: `-inf ↦ -1e16`. -/
theorem handy_deriv3_of_negInf (t : HandyRTransform K) (x : K) (htr : t.trim_inf = true)
    (hp : HasInf.eqPosInf (HandyRTransform.deriv3 { t with trim_inf := false } x) = false) (hn : HasInf.eqNegInf (HandyRTransform.deriv3 { t with trim_inf := false } x) = true) :
    t.deriv3 x = -((10000000000000000 : Nat) : K) := by
  simp_all [HandyRTransform.deriv3, BaseTransform.convert_inf]

/-- `HandyModRTransform.transform`: a value that is not `±inf` passes the trimming unchanged (any magnitude). -/
theorem handyMod_transform_of_not_inf (t : HandyModRTransform K) (x : K)
    (hp : HasInf.eqPosInf (HandyModRTransform.transform { t with trim_inf := false } x) = false) (hn : HasInf.eqNegInf (HandyModRTransform.transform { t with trim_inf := false } x) = false) :
    t.transform x = HandyModRTransform.transform { t with trim_inf := false } x := by
  cases h : t.trim_inf <;> simp_all [HandyModRTransform.transform, BaseTransform.convert_inf]

/-- `HandyModRTransform.transform` with trimming on: `+inf ↦ 1e16`. -/
theorem handyMod_transform_of_posInf (t : HandyModRTransform K) (x : K) (htr : t.trim_inf = true)
    (hp : HasInf.eqPosInf (HandyModRTransform.transform { t with trim_inf := false } x) = true) (hr : HasInf.eqNegInf ((10000000000000000 : Nat) : K) = false) :
    t.transform x = ((10000000000000000 : Nat) : K) := by
  simp_all [HandyModRTransform.transform, BaseTransform.convert_inf]

/-- `HandyModRTransform.transform` with trimming on: `-inf ↦ -1e16`. -/
theorem handyMod_transform_of_negInf (t : HandyModRTransform K) (x : K) (htr : t.trim_inf = true)
    (hp : HasInf.eqPosInf (HandyModRTransform.transform { t with trim_inf := false } x) = false) (hn : HasInf.eqNegInf (HandyModRTransform.transform { t with trim_inf := false } x) = true) :
    t.transform x = -((10000000000000000 : Nat) : K) := by
  simp_all [HandyModRTransform.transform, BaseTransform.convert_inf]

/-- `HandyModRTransform.deriv`: a value that is not `±inf` passes the trimming unchanged (any magnitude). -/
theorem handyMod_deriv_of_not_inf (t : HandyModRTransform K) (x : K)
    (hp : HasInf.eqPosInf (HandyModRTransform.deriv { t with trim_inf := false } x) = false) (hn : HasInf.eqNegInf (HandyModRTransform.deriv { t with trim_inf := false } x) = false) :
    t.deriv x = HandyModRTransform.deriv { t with trim_inf := false } x := by
  cases h : t.trim_inf <;> simp_all [HandyModRTransform.deriv, BaseTransform.convert_inf]

/-- `HandyModRTransform.deriv` with trimming on: `+inf ↦ 1e16`. -/
theorem handyMod_deriv_of_posInf (t : HandyModRTransform K) (x : K) (htr : t.trim_inf = true)
    (hp : HasInf.eqPosInf (HandyModRTransform.deriv { t with trim_inf := false } x) = true) (hr : HasInf.eqNegInf ((10000000000000000 : Nat) : K) = false) :
    t.deriv x = ((10000000000000000 : Nat) : K) := by
  simp_all [HandyModRTransform.deriv, BaseTransform.convert_inf]

/-- `HandyModRTransform.deriv` with trimming on: `-inf ↦ -1e16`. -/
theorem handyMod_deriv_of_negInf (t : HandyModRTransform K) (x : K) (htr : t.trim_inf = true)
    (hp : HasInf.eqPosInf (HandyModRTransform.deriv { t with trim_inf := false } x) = false) (hn : HasInf.eqNegInf (HandyModRTransform.deriv { t with trim_inf := false } x) = true) :
    t.deriv x = -((10000000000000000 : Nat) : K) := by
  simp_all [HandyModRTransform.deriv, BaseTransform.convert_inf]

end generic

/-! ### Part 2 — `XReal`: exact reals with `±inf` and `nan` -/

/-- The literal `1e16` of the source as an extended real. -/
noncomputable def big : XReal := fin 10000000000000000

/-- (5) Array branch: **every finite value, of every magnitude, passes unchanged** (any replacement). -/
theorem convert_inf_fin (x : ℝ) (r : XReal) : BaseTransform.convert_inf (fin x) r = fin x := by
  simp [BaseTransform.convert_inf]

/-- (5) Scalar branch: every finite value passes unchanged. -/
theorem convert_inf_scalar_fin (x : ℝ) (r : XReal) : BaseTransform.convert_inf_scalar (fin x) r = fin x := by
  simp [BaseTransform.convert_inf_scalar]

/-- (5) `+inf ↦ replace_inf`, `-inf ↦ -replace_inf`, `nan ↦ nan`, in both branches. -/
theorem convert_inf_special (b : ℝ) :
    BaseTransform.convert_inf posInf (fin b) = fin b ∧ BaseTransform.convert_inf negInf (fin b) = fin (-b) ∧
    BaseTransform.convert_inf nan (fin b) = nan ∧
    BaseTransform.convert_inf_scalar posInf (fin b) = fin b ∧ BaseTransform.convert_inf_scalar negInf (fin b) = fin (-b) ∧
    BaseTransform.convert_inf_scalar nan (fin b) = nan := by
  refine ⟨?_, ?_, ?_, ?_, ?_, ?_⟩ <;> simp [BaseTransform.convert_inf, BaseTransform.convert_inf_scalar]

/-- (5) With the default replacement: `+inf ↦ 1e16`, `-inf ↦ -1e16`. -/
theorem convert_inf_default_special :
    BaseTransform.convert_inf (posInf : XReal) = big ∧ BaseTransform.convert_inf (negInf : XReal) = -big := by
  constructor <;> simp [BaseTransform.convert_inf, big]

/-- (5) The array branch and the `isinstance(array, Number)` branch compute the same function. -/
theorem convert_inf_scalar_eq_array (v : XReal) (b : ℝ) :
    BaseTransform.convert_inf_scalar v (fin b) = BaseTransform.convert_inf v (fin b) := by
  cases v <;> simp [BaseTransform.convert_inf, BaseTransform.convert_inf_scalar]

/-- A value capped at `1e16` — what `np.clip(array, -1e16, 1e16)` would do — is **not** what the generated
`_convert_inf` does: `1e17` stays `1e17`. -/
theorem convert_inf_does_not_cap : BaseTransform.convert_inf (fin 100000000000000000 : XReal) ≠ big := by
  rw [convert_inf_fin]
  intro h
  have : (100000000000000000 : ℝ) = 10000000000000000 := by
    simpa [big] using (XReal.fin.injEq _ _).mp h
  norm_num at this

/-! #### The classes with an infinite end, parameters embedded into `XReal` -/

noncomputable def beckeX (t : BeckeRTransform ℝ) : BeckeRTransform XReal :=
  { rmin := fin t.rmin, R := fin t.R, trim_inf := t.trim_inf }
noncomputable def multiExpX (t : MultiExpRTransform ℝ) : MultiExpRTransform XReal :=
  { rmin := fin t.rmin, R := fin t.R, trim_inf := t.trim_inf }
noncomputable def knowlesX (t : KnowlesRTransform ℝ) : KnowlesRTransform XReal :=
  { rmin := fin t.rmin, R := fin t.R, k := fin t.k, trim_inf := t.trim_inf }
noncomputable def handyX (t : HandyRTransform ℝ) : HandyRTransform XReal :=
  { rmin := fin t.rmin, R := fin t.R, m := fin t.m, trim_inf := t.trim_inf }

/-- Becke, interior and lower end (`x ≠ 1`): the value is the real value — finite, hence untouched by the
trimming whatever its size. -/
theorem becke_transform_fin (t : BeckeRTransform ℝ) {x : ℝ} (hx : x ≠ 1) :
    (beckeX t).transform (fin x) = fin (t.transform x) := by
  have h1 : (1:ℝ) - x ≠ 0 := sub_ne_zero.mpr (Ne.symm hx)
  cases h : t.trim_inf <;>
  simp [BeckeRTransform.transform, beckeX, fin_div_fin h1, convert_inf_fin, h, convert_inf_real]

/-- Becke `deriv`, `x ≠ 1`: the real value, untouched by the trimming. -/
theorem becke_deriv_fin (t : BeckeRTransform ℝ) {x : ℝ} (hx : x ≠ 1) :
    (beckeX t).deriv (fin x) = fin (t.deriv x) := by
  have h1 : ((1:ℝ) - x) ^ 2 ≠ 0 := pow_ne_zero 2 (sub_ne_zero.mpr (Ne.symm hx))
  cases h : t.trim_inf <;>
  simp [BeckeRTransform.deriv, beckeX, npow_fin, fin_div_fin h1, convert_inf_fin, h, convert_inf_real, npow_eq_pow]

/-- (4) Becke at the singular end `x = 1` (`0 < R`): `R·2/0 = inf`, represented by `1e16` when trimming is on. -/
theorem becke_transform_domain_hi (t : BeckeRTransform ℝ) (hR : 0 < t.R) :
    (beckeX t).transform (fin 1) = if t.trim_inf then big else posInf := by
  have h2 : (0:ℝ) < t.R * (1 + 1) := by positivity
  cases h : t.trim_inf <;>
  simp [BeckeRTransform.transform, beckeX, fin_div_zero_of_pos h2, h, BaseTransform.convert_inf, big]

/-- (4) The Becke Jacobian at the singular end: `2R/0² = inf`, `1e16` when trimming is on. -/
theorem becke_deriv_domain_hi (t : BeckeRTransform ℝ) (hR : 0 < t.R) :
    (beckeX t).deriv (fin 1) = if t.trim_inf then big else posInf := by
  have h2 : (0:ℝ) < 2 * t.R := by positivity
  cases h : t.trim_inf <;>
  simp [BeckeRTransform.deriv, beckeX, npow_fin, fin_div_zero_of_pos h2, h, BaseTransform.convert_inf, big]

/-- (4) MultiExp at its singular end `x = -1` (`0 < R`): `-R·log 0 = inf`, `1e16` when trimming is on. -/
theorem multiExp_transform_domain_lo (t : MultiExpRTransform ℝ) (hR : 0 < t.R) :
    (multiExpX t).transform (fin (-1)) = if t.trim_inf then big else posInf := by
  have h2 : -t.R < 0 := by linarith
  have h0 : (fin 0 / fin 2 : XReal) = fin 0 := by rw [fin_div_fin (by norm_num)]; simp
  cases h : t.trim_inf <;>
  simp [MultiExpRTransform.transform, multiExpX, h0, elem_log_zero, fin_mul_negInf_of_neg h2, h,
    BaseTransform.convert_inf, big]

/-- (4) Knowles at the singular end `x = 1` (`0 < R`, any exponent): `-R·log(1 - 1^k) = inf`, `1e16` when trimming. -/
theorem knowles_transform_domain_hi (t : KnowlesRTransform ℝ) (hR : 0 < t.R) :
    (knowlesX t).transform (fin 1) = if t.trim_inf then big else posInf := by
  have h2 : -t.R < 0 := by linarith
  have h0 : (fin (1 + 1) / fin 2 : XReal) = fin 1 := by rw [fin_div_fin (by norm_num)]; norm_num
  have h1 : (Elem.rpow (fin 1) (fin t.k) : XReal) = fin 1 := by
    rw [elem_rpow_fin_of_pos one_pos]; simp
  cases h : t.trim_inf <;>
  simp [KnowlesRTransform.transform, knowlesX, h0, h1, elem_log_zero, fin_mul_negInf_of_neg h2, h,
    BaseTransform.convert_inf, big]

/-- (4) Handy at the singular end `x = 1` (`0 < R`, `0 < m`): `R·(2/0)^m = inf`, `1e16` when trimming. -/
theorem handy_transform_domain_hi (t : HandyRTransform ℝ) (hR : 0 < t.R) (hm : 0 < t.m) :
    (handyX t).transform (fin 1) = if t.trim_inf then big else posInf := by
  have h2 : (0:ℝ) < 1 + 1 := by norm_num
  cases h : t.trim_inf <;>
  simp [HandyRTransform.transform, handyX, fin_div_zero_of_pos h2, elem_rpow_posInf_of_pos hm,
    fin_mul_posInf_of_pos hR, h, BaseTransform.convert_inf, big]

example : ∃ t : BeckeRTransform ℝ, 0 < t.R ∧ t.trim_inf = true ∧ (beckeX t).transform (fin 1) = big :=
  ⟨⟨1 / 10, 3 / 2, true⟩, by norm_num, rfl, by rw [becke_transform_domain_hi _ (by norm_num)]; rfl⟩

end GridVerif.C03.Trim

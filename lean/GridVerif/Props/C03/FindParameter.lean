/-
  C03 — the static helper `BeckeRTransform.find_parameter(array, rmin, radius)`, on the definition that is
  regenerated from rtransform.py on every run (`Gen/RTransform.lean`: Python indexing `pyIndex`, `//` and `%`
  as `Int.fdiv` / `Int.fmod`, `none` = `IndexError`).

  Docstring of the helper: "Compute R such that half of the points in [rmin, ∞) are within radius".
  * `find_parameter_eq`: the value is `(radius - rmin)(1 - mid)/(1 + mid)` at the middle value of the array
    (central element / mean of the two central elements);
  * guards: `ValueError` iff `rmin > radius`; `IndexError` iff the array is empty;
  * `find_parameter_maps_mid_to_radius`: with the returned `R` the (generated) Becke map sends the middle value
    to `radius`;
  * `find_parameter_half_within`: for an ascending array in `(-1, 1)` the lower half of the points goes to
    radii `≤ radius`, the upper half to radii `≥ radius` (uses `BeckeRTransform.strictMonoOn_transform`).
-/
import GridVerif.Lemmas.RTransform
import GridVerif.Props.C03.BeckeRTransform
import Mathlib.Tactic.Ring
import Mathlib.Tactic.Linarith
namespace GridVerif.C03.FindParameter
open GridVerif.Gen.RTransform GridVerif.C03 GridVerif

/-- Python indexing with a non-negative in-range index. -/
theorem pyIndex_natCast {K : Type} (a : List K) (i : ℕ) : pyIndex a (i : Int) = a[i]? := by
  simp [pyIndex]

/-- The middle value the code takes: the central element for an odd number of points, the mean of the two central
elements for an even number; nothing for the empty array. -/
noncomputable def midValue (a : List ℝ) : Option ℝ :=
  if a.length % 2 = 1 then a[a.length / 2]?
  else match a[a.length / 2 - 1]?, a[a.length / 2]? with
    | some u, some v => if a.length = 0 then none else some ((u + v) / 2)
    | _, _ => none

/-- The generated `find_parameter` is `(radius - rmin)(1 - mid)/(1 + mid)` at the middle value of the array;
`IndexError` exactly for the empty array. -/
theorem find_parameter_eq (a : List ℝ) (rmin radius : ℝ) :
    BeckeRTransform.find_parameter a rmin radius
      = (midValue a).map fun mid => (radius - rmin) * (1 - mid) / (1 + mid) := by
  unfold BeckeRTransform.find_parameter midValue
  have hmod : Int.fmod (a.length : Int) 2 = ((a.length % 2 : ℕ) : Int) := by
    rw [Int.fmod_eq_emod_of_nonneg _ (by norm_num)]; norm_cast
  have hdiv : Int.fdiv (a.length : Int) 2 = ((a.length / 2 : ℕ) : Int) := by
    rw [Int.fdiv_eq_ediv_of_nonneg _ (by norm_num)]; norm_cast
  simp only [hmod, hdiv]
  rcases Nat.mod_two_eq_zero_or_one a.length with h | h
  · -- even
    simp only [h, Nat.cast_zero, ne_eq, not_true_eq_false, ↓reduceIte, zero_ne_one]
    by_cases h0 : a.length = 0
    · have : a = [] := List.length_eq_zero_iff.mp h0
      subst this
      simp [pyIndex]
    · have hpos : 1 ≤ a.length / 2 := by omega
      have hsub : ((a.length / 2 : ℕ) : Int) - 1 = ((a.length / 2 - 1 : ℕ) : Int) := by omega
      rw [hsub, pyIndex_natCast, pyIndex_natCast]
      cases a[a.length / 2 - 1]? <;> cases a[a.length / 2]? <;> simp [h0]
  · simp only [h, Nat.cast_one, ne_eq, one_ne_zero, not_false_eq_true, ↓reduceIte]
    rw [pyIndex_natCast]
    cases a[a.length / 2]? <;> simp

/-- Guard: the helper raises `ValueError` exactly when `rmin > radius` (checked first). -/
theorem find_parameter_raises_iff (a : List ℝ) (rmin radius : ℝ) :
    BeckeRTransform.find_parameter_raises a rmin radius ↔ radius < rmin := Iff.rfl

theorem midValue_isSome_iff (a : List ℝ) : (midValue a).isSome ↔ a ≠ [] := by
  unfold midValue
  rcases Nat.mod_two_eq_zero_or_one a.length with h | h
  · simp only [h, zero_ne_one, ↓reduceIte]
    by_cases h0 : a.length = 0
    · have : a = [] := List.length_eq_zero_iff.mp h0
      subst this; simp
    · have hne : a ≠ [] := fun e => h0 (by simp [e])
      have h1 : a.length / 2 - 1 < a.length := by omega
      have h2 : a.length / 2 < a.length := by omega
      simp [List.getElem?_eq_getElem h1, List.getElem?_eq_getElem h2, h0, hne]
  · have hne : a ≠ [] := fun e => by simp [e] at h
    have h2 : a.length / 2 < a.length := by omega
    simp [h, List.getElem?_eq_getElem h2, hne]

/-- Guard: `IndexError` (no value) exactly for the empty array; every non-empty array gives a parameter. -/
theorem find_parameter_isSome_iff (a : List ℝ) (rmin radius : ℝ) :
    (BeckeRTransform.find_parameter a rmin radius).isSome ↔ a ≠ [] := by
  rw [find_parameter_eq, Option.isSome_map, midValue_isSome_iff]

/-- **What the helper promises**: with the returned `R`, the Becke map sends the middle value of the array to the
requested radius (`mid ≠ ±1`: at `mid = -1` the code divides by zero, at `mid = 1` the map has its pole). -/
theorem find_parameter_maps_mid_to_radius (a : List ℝ) (rmin radius R mid : ℝ) (trim : Bool)
    (hR : BeckeRTransform.find_parameter a rmin radius = some R) (hmid : midValue a = some mid)
    (h1 : mid ≠ -1) (h2 : mid ≠ 1) :
    BeckeRTransform.transform { rmin := rmin, R := R, trim_inf := trim } mid = radius := by
  rw [find_parameter_eq, hmid] at hR
  simp only [Option.map_some, Option.some.injEq] at hR
  rw [BeckeRTransform.transform_eq]
  subst hR
  have e1 : (1:ℝ) + mid ≠ 0 := fun h => h1 (by linarith)
  have e2 : (1:ℝ) - mid ≠ 0 := fun h => h2 (by linarith)
  simp only
  field_simp
  ring

/-- The returned scale is positive when `rmin < radius` and the middle value is interior — the hypothesis `0 < R`
of the Becke theorems. -/
theorem find_parameter_pos (a : List ℝ) (rmin radius R mid : ℝ)
    (hR : BeckeRTransform.find_parameter a rmin radius = some R) (hmid : midValue a = some mid)
    (hr : rmin < radius) (h1 : -1 < mid) (h2 : mid < 1) : 0 < R := by
  rw [find_parameter_eq, hmid] at hR
  simp only [Option.map_some, Option.some.injEq] at hR
  subst hR
  have : 0 < radius - rmin := by linarith
  have : 0 < 1 - mid := by linarith
  have : 0 < 1 + mid := by linarith
  positivity

theorem le_of_pairwise {a : List ℝ} (hs : a.Pairwise (· ≤ ·)) {i j : ℕ} (hi : i < a.length) (hj : j < a.length)
    (hij : i ≤ j) : a[i] ≤ a[j] := by
  rcases Nat.lt_or_eq_of_le hij with h | h
  · exact (List.pairwise_iff_getElem.mp hs) i j hi hj h
  · subst h; exact le_refl _

/-- In an ascending array the lower half of the points (indices `i` with `2i < n`) lies at or below the middle
value and the upper half (`2i + 1 ≥ n`) at or above it. -/
theorem midValue_splits {a : List ℝ} {mid : ℝ} (hs : a.Pairwise (· ≤ ·)) (hmid : midValue a = some mid)
    (i : ℕ) (hi : i < a.length) :
    (2 * i < a.length → a[i] ≤ mid) ∧ (a.length ≤ 2 * i + 1 → mid ≤ a[i]) := by
  unfold midValue at hmid
  rcases Nat.mod_two_eq_zero_or_one a.length with h | h
  · simp only [h, zero_ne_one, ↓reduceIte] at hmid
    have h0 : a.length ≠ 0 := by omega
    have h1 : a.length / 2 - 1 < a.length := by omega
    have h2 : a.length / 2 < a.length := by omega
    simp only [List.getElem?_eq_getElem h1, List.getElem?_eq_getElem h2, h0, ↓reduceIte, Option.some.injEq] at hmid
    have hle : a[a.length / 2 - 1] ≤ a[a.length / 2] := le_of_pairwise hs h1 h2 (by omega)
    constructor
    · intro hlt
      have := le_of_pairwise hs hi h1 (by omega)
      linarith
    · intro hge
      have := le_of_pairwise hs h2 hi (by omega)
      linarith
  · have h2 : a.length / 2 < a.length := by omega
    simp only [h, ↓reduceIte, List.getElem?_eq_getElem h2, Option.some.injEq] at hmid
    subst hmid
    exact ⟨fun hlt => le_of_pairwise hs hi h2 (by omega), fun hge => le_of_pairwise hs h2 hi (by omega)⟩

/-- **"half of the points are within radius"**: for an ascending array of points of `(-1, 1)` and `rmin < radius`,
the Becke map with the returned `R` sends the lower half of the points (indices with `2i < n`: at least `n/2` of them)
to radii `≤ radius` and the upper half (`2i + 1 ≥ n`) to radii `≥ radius`. -/
theorem find_parameter_half_within (a : List ℝ) (rmin radius R : ℝ) (trim : Bool)
    (hR : BeckeRTransform.find_parameter a rmin radius = some R) (hr : rmin < radius)
    (hs : a.Pairwise (· ≤ ·)) (hin : ∀ x ∈ a, -1 < x ∧ x < 1) (i : ℕ) (hi : i < a.length) :
    (2 * i < a.length → BeckeRTransform.transform { rmin := rmin, R := R, trim_inf := trim } a[i] ≤ radius) ∧
    (a.length ≤ 2 * i + 1 → radius ≤ BeckeRTransform.transform { rmin := rmin, R := R, trim_inf := trim } a[i]) := by
  have hne : a ≠ [] := fun e => by simp [e] at hi
  obtain ⟨mid, hmid⟩ := Option.isSome_iff_exists.mp ((midValue_isSome_iff a).mpr hne)
  -- the middle value is interior
  have hmem : ∀ j (hj : j < a.length), -1 < a[j] ∧ a[j] < 1 := fun j hj => hin _ (List.getElem_mem hj)
  have hlo := (midValue_splits hs hmid 0 (by omega)).1
  have hmidI : -1 < mid ∧ mid < 1 := by
    have hfirst := midValue_splits hs hmid 0 (List.length_pos_iff.mpr hne)
    have hlast := midValue_splits hs hmid (a.length - 1) (by omega)
    have hpos : 0 < a.length := List.length_pos_iff.mpr hne
    constructor
    · have := hfirst.1 (by omega); have := (hmem 0 hpos).1; linarith
    · have := hlast.2 (by omega); have := (hmem (a.length - 1) (by omega)).2; linarith
  have hRpos := find_parameter_pos a rmin radius R mid hR hmid hr hmidI.1 hmidI.2
  set t : BeckeRTransform ℝ := { rmin := rmin, R := R, trim_inf := trim } with ht
  have hmap : t.transform mid = radius :=
    find_parameter_maps_mid_to_radius a rmin radius R mid trim hR hmid (by linarith [hmidI.1]) (by linarith [hmidI.2])
  have hmono := (BeckeRTransform.strictMonoOn_transform t trivial hRpos).monotoneOn
  have hI : ∀ x, -1 < x ∧ x < 1 → x ∈ Set.Ioo t.domain_lo t.domain_hi := by
    intro x hx
    simp only [BeckeRTransform.domain_lo, BeckeRTransform.domain_hi, Nat.cast_one, Set.mem_Ioo]
    exact hx
  have hsplit := midValue_splits hs hmid i hi
  constructor
  · intro hlt
    rw [← hmap]
    exact hmono (hI _ (hmem i hi)) (hI _ hmidI) (hsplit.1 hlt)
  · intro hge
    rw [← hmap]
    exact hmono (hI _ hmidI) (hI _ (hmem i hi)) (hsplit.2 hge)

/-- Non-vacuity: `find_parameter([-1/2, 0, 1/2], rmin = 1/10, radius = 6/5) = 11/10` (the middle value is `0`). -/
example : BeckeRTransform.find_parameter ([-1/2, 0, 1/2] : List ℝ) (1/10) (6/5) = some (11/10) := by
  rw [find_parameter_eq]
  simp [midValue]
  norm_num

/-- Non-vacuity, even length: the middle value of `[-1/2, 0, 1/2, 3/4]` is `1/4`. -/
example : midValue ([-1/2, 0, 1/2, 3/4] : List ℝ) = some (1/4) := by
  simp [midValue]; norm_num
end GridVerif.C03.FindParameter

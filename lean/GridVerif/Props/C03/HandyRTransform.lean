/-
  C03 — `HandyRTransform(rmin, R, m, trim_inf)`:  r(x) = R ((1+x)/(1-x))^m + rmin,  (-1, 1) → (rmin, ∞).

  Definitions: `Gen/RTransform.lean` (regenerated from rtransform.py on every run).
  The constructor rejects `m ≤ 0` (`Admissible`); `m` is any positive real.  `0 < R` is *not* checked by
  the code; the theorems that need it carry it as an explicit hypothesis (derivative identities hold
  for every `R`).
-/
import GridVerif.Lemmas.RTransform

namespace GridVerif.C03.HandyRTransform
open GridVerif.Gen.RTransform GridVerif.C03 Filter Topology

/-- Interior of the declared domain `(-1, 1)`. -/
def Interior (t : HandyRTransform ℝ) (x : ℝ) : Prop := t.domain_lo < x ∧ x < t.domain_hi

theorem interior_iff (t : HandyRTransform ℝ) (x : ℝ) : Interior t x ↔ -1 < x ∧ x < 1 := by
  simp [Interior, HandyRTransform.domain_lo, HandyRTransform.domain_hi]

/-- The constructor guard `not (m <= 0)` at `K = ℝ`. -/
theorem m_pos (t : HandyRTransform ℝ) (ht : t.Admissible) : 0 < t.m := by
  simpa [HandyRTransform.Admissible] using ht

theorem transform_eq (t : HandyRTransform ℝ) :
    t.transform = fun y => t.R * ((1 + y) / (1 - y)) ^ t.m + t.rmin := by
  funext y; simp only [HandyRTransform.transform]; rt_norm

theorem deriv_eq (t : HandyRTransform ℝ) :
    t.deriv = fun y => 2 * t.m * t.R * (1 + y) ^ (t.m - 1) / (1 - y) ^ (t.m + 1) := by
  funext y; simp only [HandyRTransform.deriv]; rt_norm

theorem deriv2_eq (t : HandyRTransform ℝ) :
    t.deriv2 = fun y => 4 * t.m * t.R * (t.m + y) * (1 + y) ^ (t.m - 2) / (1 - y) ^ (t.m + 2) := by
  funext y; simp only [HandyRTransform.deriv2]; rt_norm

theorem deriv3_eq (t : HandyRTransform ℝ) :
    t.deriv3 = fun y => 4 * t.m * t.R * (1 + 6 * t.m * y + 2 * t.m ^ 2 + 3 * y ^ 2) * (1 + y) ^ (t.m - 3)
      / (1 - y) ^ (t.m + 3) := by
  funext y; simp only [HandyRTransform.deriv3]; rt_norm

theorem inverse_eq (t : HandyRTransform ℝ) :
    t.inverse = fun r => ((r - t.rmin) ^ (1 / t.m) - t.R ^ (1 / t.m)) /
      ((r - t.rmin) ^ (1 / t.m) + t.R ^ (1 / t.m)) := by
  funext y; simp only [HandyRTransform.inverse]; rt_norm

/-- Closing step for the rational identities in the atoms `A = (1+x)^m`, `B = (1-x)^m`: the goal has
already been rewritten so that `m` occurs in exponents only as `(1 + x) ^ t.m` and `(1 - x) ^ t.m`. -/
macro "handy_finish" x:ident m:term : tactic =>
  `(tactic| (
    have hA : 0 < (1 + $x) ^ $m := Real.rpow_pos_of_pos (by assumption) _
    have hB : 0 < (1 - $x) ^ $m := Real.rpow_pos_of_pos (by assumption) _
    generalize (1 + $x) ^ $m = A at hA ⊢
    generalize (1 - $x) ^ $m = B at hB ⊢
    have hA0 : A ≠ 0 := hA.ne'
    have hB0 : B ≠ 0 := hB.ne'
    field_simp
    try ring))

/-- (1a) `deriv` is the derivative of `transform` on the interior of the domain. -/
theorem hasDerivAt_transform (t : HandyRTransform ℝ) (_ht : t.Admissible) (x : ℝ) (hx : Interior t x) :
    HasDerivAt t.transform (t.deriv x) x := by
  rw [interior_iff] at hx
  have hp : 0 < 1 + x := by linarith [hx.1]
  have hq : 0 < 1 - x := by linarith [hx.2]
  have h0 : 1 + x ≠ 0 := hp.ne'
  have h1 : 1 - x ≠ 0 := hq.ne'
  rw [transform_eq, deriv_eq]
  have hu := (hasDerivAt_one_add x).fun_div (hasDerivAt_one_sub x) h1
  have hupos : 0 < (1 + x) / (1 - x) := div_pos hp hq
  have h := ((hu.rpow_const (p := t.m) (Or.inl hupos.ne')).const_mul t.R).add_const t.rmin
  refine h.congr_deriv ?_
  beta_reduce
  rw [Real.div_rpow hp.le hq.le, rpow_sub_one' hp, rpow_sub_one' hq, rpow_add_one' hq]
  handy_finish x t.m

/-- (1b) `deriv2` is the derivative of `deriv`. -/
theorem hasDerivAt_deriv (t : HandyRTransform ℝ) (_ht : t.Admissible) (x : ℝ) (hx : Interior t x) :
    HasDerivAt t.deriv (t.deriv2 x) x := by
  rw [interior_iff] at hx
  have hp : 0 < 1 + x := by linarith [hx.1]
  have hq : 0 < 1 - x := by linarith [hx.2]
  have h0 : 1 + x ≠ 0 := hp.ne'
  have h1 : 1 - x ≠ 0 := hq.ne'
  rw [deriv_eq, deriv2_eq]
  have h := ((hasDerivAt_one_add_rpow x (t.m - 1) hp).const_mul (2 * t.m * t.R)).fun_div
    (hasDerivAt_one_sub_rpow x (t.m + 1) hq) (Real.rpow_pos_of_pos hq _).ne'
  refine h.congr_deriv ?_
  beta_reduce
  simp only [rpow_sub_one' hp, rpow_sub_two' hp, rpow_sub_one' hq, rpow_add_one' hq, rpow_add_two' hq]
  handy_finish x t.m

/-- (1c) `deriv3` is the derivative of `deriv2`. -/
theorem hasDerivAt_deriv2 (t : HandyRTransform ℝ) (_ht : t.Admissible) (x : ℝ) (hx : Interior t x) :
    HasDerivAt t.deriv2 (t.deriv3 x) x := by
  rw [interior_iff] at hx
  have hp : 0 < 1 + x := by linarith [hx.1]
  have hq : 0 < 1 - x := by linarith [hx.2]
  have h0 : 1 + x ≠ 0 := hp.ne'
  have h1 : 1 - x ≠ 0 := hq.ne'
  rw [deriv2_eq, deriv3_eq]
  have h := ((((hasDerivAt_id' x).const_add t.m).const_mul (4 * t.m * t.R)).fun_mul
    (hasDerivAt_one_add_rpow x (t.m - 2) hp)).fun_div
    (hasDerivAt_one_sub_rpow x (t.m + 2) hq) (Real.rpow_pos_of_pos hq _).ne'
  refine h.congr_deriv ?_
  beta_reduce
  simp only [rpow_sub_one' hp, rpow_sub_two' hp, rpow_sub_three' hp, rpow_sub_one' hq, rpow_add_two' hq,
    rpow_add_three' hq]
  handy_finish x t.m

example : ∃ t : HandyRTransform ℝ, t.Admissible ∧ Interior t (1 / 2) :=
  ⟨⟨1 / 10, 3 / 2, 5 / 2, true⟩, by simp [HandyRTransform.Admissible],
    by rw [interior_iff]; norm_num⟩

/-- `(w^m)^(1/m) = w` for `w ≥ 0`, `m ≠ 0`. -/
theorem rpow_rpow_one_div {w : ℝ} (hw : 0 ≤ w) {m : ℝ} (hm : m ≠ 0) : (w ^ m) ^ (1 / m) = w := by
  rw [← Real.rpow_mul hw, mul_one_div_cancel hm, Real.rpow_one]

/-- `(w^(1/m))^m = w` for `w ≥ 0`, `m ≠ 0`. -/
theorem rpow_one_div_rpow {w : ℝ} (hw : 0 ≤ w) {m : ℝ} (hm : m ≠ 0) : (w ^ (1 / m)) ^ m = w := by
  rw [← Real.rpow_mul hw, one_div_mul_cancel hm, Real.rpow_one]

/-- (2a) The inverse undoes the forward map on the interior of the domain.
Extra hypothesis `0 < R` (not checked by the constructor; `R^(1/m)` needs it). -/
theorem inverse_transform (t : HandyRTransform ℝ) (ht : t.Admissible) (hR : 0 < t.R) (x : ℝ) (hx : Interior t x) :
    t.inverse (t.transform x) = x := by
  have hm := m_pos t ht
  rw [interior_iff] at hx
  have hp : 0 < 1 + x := by linarith [hx.1]
  have hq : 0 < 1 - x := by linarith [hx.2]
  have h1 : 1 - x ≠ 0 := hq.ne'
  have hu : 0 < (1 + x) / (1 - x) := div_pos hp hq
  rw [transform_eq, inverse_eq]
  beta_reduce
  have e : t.R * ((1 + x) / (1 - x)) ^ t.m + t.rmin - t.rmin = t.R * ((1 + x) / (1 - x)) ^ t.m := by ring
  rw [e, Real.mul_rpow hR.le (Real.rpow_nonneg hu.le _), rpow_rpow_one_div hu.le hm.ne']
  have hc : 0 < t.R ^ (1 / t.m) := Real.rpow_pos_of_pos hR _
  generalize t.R ^ (1 / t.m) = c at hc ⊢
  have hc0 : c ≠ 0 := hc.ne'
  have hd : c * ((1 + x) / (1 - x)) + c ≠ 0 := by positivity
  field_simp
  ring

/-- Interior of the codomain `(rmin, ∞)`. -/
def CoInterior (t : HandyRTransform ℝ) (r : ℝ) : Prop := t.codomain_lo < r

/-- (2b) The forward map undoes the inverse on the interior of the codomain (`0 < R`, not checked by the code). -/
theorem transform_inverse (t : HandyRTransform ℝ) (ht : t.Admissible) (hR : 0 < t.R) (r : ℝ) (hr : CoInterior t r) :
    t.transform (t.inverse r) = r := by
  have hm := m_pos t ht
  simp only [CoInterior, HandyRTransform.codomain_lo] at hr
  have hw : 0 < r - t.rmin := by linarith
  rw [transform_eq, inverse_eq]
  beta_reduce
  have ha : 0 < (r - t.rmin) ^ (1 / t.m) := Real.rpow_pos_of_pos hw _
  have hc : 0 < t.R ^ (1 / t.m) := Real.rpow_pos_of_pos hR _
  have ea : ((r - t.rmin) ^ (1 / t.m)) ^ t.m = r - t.rmin := rpow_one_div_rpow hw.le hm.ne'
  have ec : (t.R ^ (1 / t.m)) ^ t.m = t.R := rpow_one_div_rpow hR.le hm.ne'
  generalize (r - t.rmin) ^ (1 / t.m) = a at ha ea ⊢
  generalize t.R ^ (1 / t.m) = c at hc ec ⊢
  have hac : a + c ≠ 0 := by positivity
  have hc0 : c ≠ 0 := hc.ne'
  have e1 : 1 + (a - c) / (a + c) = 2 * a / (a + c) := by field_simp; ring
  have e2 : 1 - (a - c) / (a + c) = 2 * c / (a + c) := by field_simp; ring
  have e : (1 + (a - c) / (a + c)) / (1 - (a - c) / (a + c)) = a / c := by
    rw [e1, e2]; field_simp
  rw [e, Real.div_rpow ha.le hc.le, ea, ec]
  field_simp
  ring

/-- The inverse maps the interior of the codomain into the interior of the domain. -/
theorem inverse_mem (t : HandyRTransform ℝ) (hR : 0 < t.R) (r : ℝ) (hr : CoInterior t r) :
    Interior t (t.inverse r) := by
  simp only [CoInterior, HandyRTransform.codomain_lo] at hr
  have hw : 0 < r - t.rmin := by linarith
  rw [interior_iff, inverse_eq]
  beta_reduce
  have ha : 0 < (r - t.rmin) ^ (1 / t.m) := Real.rpow_pos_of_pos hw _
  have hc : 0 < t.R ^ (1 / t.m) := Real.rpow_pos_of_pos hR _
  generalize (r - t.rmin) ^ (1 / t.m) = a at ha ⊢
  generalize t.R ^ (1 / t.m) = c at hc ⊢
  have h1 : 0 < a + c := by linarith
  constructor
  · rw [lt_div_iff₀ h1]; linarith
  · rw [div_lt_one h1]; linarith

/-- (4a) The derivative is positive on the interior (`0 < R`; `m > 0` is the constructor guard). -/
theorem deriv_pos (t : HandyRTransform ℝ) (ht : t.Admissible) (hR : 0 < t.R) (x : ℝ) (hx : Interior t x) :
    0 < t.deriv x := by
  have hm := m_pos t ht
  rw [interior_iff] at hx
  rw [deriv_eq]
  have hp : 0 < 1 + x := by linarith [hx.1]
  have hq : 0 < 1 - x := by linarith [hx.2]
  have hA : 0 < (1 + x) ^ (t.m - 1) := Real.rpow_pos_of_pos hp _
  have hB : 0 < (1 - x) ^ (t.m + 1) := Real.rpow_pos_of_pos hq _
  beta_reduce
  positivity

/-- (4b) The forward map is strictly increasing on the interior of its domain (`0 < R`). -/
theorem strictMonoOn_transform (t : HandyRTransform ℝ) (ht : t.Admissible) (hR : 0 < t.R) :
    StrictMonoOn t.transform (Set.Ioo t.domain_lo t.domain_hi) :=
  strictMonoOn_of_hasDerivAt_pos (convex_Ioo _ _) (fun x hx => hasDerivAt_transform t ht x hx)
    (fun x hx => deriv_pos t ht hR x hx)

/-- (4c) End point: the lower end of the domain goes to the lower end of the codomain (every `R`;
`0 ^ m = 0` needs the constructor guard `m > 0`). -/
theorem transform_domain_lo (t : HandyRTransform ℝ) (ht : t.Admissible) :
    t.transform t.domain_lo = t.codomain_lo := by
  have hm := m_pos t ht
  rw [transform_eq]
  simp [HandyRTransform.domain_lo, HandyRTransform.codomain_lo, Real.zero_rpow hm.ne']

/-- (4d) End point: towards the upper end of the domain the map grows beyond every bound (`0 < R`, `m > 0`);
the code represents the value at `x = 1` by `1e16` (trim on) or `inf`, see the correspondence. -/
theorem tendsto_transform_domain_hi (t : HandyRTransform ℝ) (ht : t.Admissible) (hR : 0 < t.R) :
    Tendsto t.transform (𝓝[<] t.domain_hi) atTop := by
  have hm := m_pos t ht
  rw [transform_eq]
  simp only [HandyRTransform.domain_hi, Nat.cast_one]
  apply tendsto_atTop_add_const_right
  have h1 := tendsto_one_sub_nhdsLT
  have h2 : Tendsto (fun y : ℝ => 1 + y) (𝓝[<] 1) (𝓝 (1 + 1)) :=
    ((continuous_const.add continuous_id).tendsto 1).mono_left nhdsWithin_le_nhds
  have h3 : (0 : ℝ) < 1 + 1 := by positivity
  have h4 : Tendsto (fun y : ℝ => (1 + y) / (1 - y)) (𝓝[<] 1) atTop := by
    refine (h2.pos_mul_atTop h3 (h1.inv_tendsto_nhdsGT_zero)).congr ?_
    intro y; simp [div_eq_mul_inv]
  exact ((tendsto_rpow_atTop hm).comp h4).const_mul_atTop hR

/-- (3) The inverse-derivative package applies at every interior point of the codomain (`0 < R`). -/
theorem localInverseAt (t : HandyRTransform ℝ) (ht : t.Admissible) (hR : 0 < t.R) (r : ℝ) (hr : CoInterior t r) :
    LocalInverseAt t.ops r := by
  have hx := inverse_mem t hR r hr
  have hr' := hr
  simp only [CoInterior, HandyRTransform.codomain_lo] at hr'
  refine ⟨hasDerivAt_transform t ht _ hx, hasDerivAt_deriv t ht _ hx, hasDerivAt_deriv2 t ht _ hx,
    (deriv_pos t ht hR _ hx).ne', ?_, ?_⟩
  · show ContinuousAt t.inverse r
    rw [inverse_eq]
    have hw : r - t.rmin ≠ 0 := by linarith
    have ha : 0 < (r - t.rmin) ^ (1 / t.m) := Real.rpow_pos_of_pos (by linarith) _
    have hc : 0 < t.R ^ (1 / t.m) := Real.rpow_pos_of_pos hR _
    have hca : ContinuousAt (fun y : ℝ => (y - t.rmin) ^ (1 / t.m)) r :=
      ContinuousAt.rpow_const (by fun_prop) (Or.inl hw)
    exact ContinuousAt.div (hca.sub continuousAt_const) (hca.add continuousAt_const) (by positivity)
  · show ∀ᶠ y in 𝓝 r, t.transform (t.inverse y) = y
    filter_upwards [Ioi_mem_nhds hr'] with y hy
    exact transform_inverse t ht hR y hy

/-- (3) `deriv_inverse`, `deriv2_inverse`, `deriv3_inverse` (inherited from `BaseTransform`; the same
expressions are `InverseRTransform(t).deriv/deriv2/deriv3`) are the first three derivatives of `inverse`
on the interior of the codomain. -/
theorem inverse_derivs (t : HandyRTransform ℝ) (ht : t.Admissible) (hR : 0 < t.R) (r : ℝ) (hr : CoInterior t r) :
    HasDerivAt t.inverse (BaseTransform.deriv_inverse t.ops r) r ∧
    HasDerivAt (BaseTransform.deriv_inverse t.ops) (BaseTransform.deriv2_inverse t.ops r) r ∧
    HasDerivAt (BaseTransform.deriv2_inverse t.ops) (BaseTransform.deriv3_inverse t.ops r) r :=
  deriv_inverse_package t.ops r (localInverseAt t ht hR r hr)

example : ∃ t : HandyRTransform ℝ, t.Admissible ∧ 0 < t.R ∧ CoInterior t 2 :=
  ⟨⟨1 / 10, 3 / 2, 5 / 2, true⟩, by simp [HandyRTransform.Admissible], by norm_num,
    by simp [CoInterior, HandyRTransform.codomain_lo]; norm_num⟩

end GridVerif.C03.HandyRTransform

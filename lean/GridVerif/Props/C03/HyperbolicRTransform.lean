/-
  C03 — `HyperbolicRTransform(a, b)`:  r(x) = a x / (1 - b x).

  Definitions: `Gen/RTransform.lean` (regenerated from rtransform.py on every run).
  The constructor checks `0 < a`, `0 < b`.  The class declares the domain `(0, ∞)`, but every method
  rejects an argument with `b (np.size(x) - 1) ≥ 1` (`*_raises` in the Gen file): the map is used on the points
  `0, 1, …, size-1`, all below `1/b`.  On `[0, 1/b)` it is an increasing bijection onto `[0, ∞)`; beyond the
  pole `1/b` it is negative.  The theorems are stated on the *domain of use* `0 < x < 1/b`
  (reading of "domain of use" in the property, DESIGN C03); the end point theorems are for `0` and `x → 1/b`.
-/
import GridVerif.Lemmas.RTransform

namespace GridVerif.C03.HyperbolicRTransform
open GridVerif.Gen.RTransform GridVerif.C03 Filter Topology

/-- Interior of the domain of use: above the declared lower end `0`, below the pole `1/b`. -/
def Interior (t : HyperbolicRTransform ℝ) (x : ℝ) : Prop := t.domain_lo < x ∧ t.b * x < 1

/-- Interior of the codomain `(0, ∞)`. -/
def CoInterior (t : HyperbolicRTransform ℝ) (r : ℝ) : Prop := t.codomain_lo < r

theorem interior_iff (t : HyperbolicRTransform ℝ) (x : ℝ) : Interior t x ↔ 0 < x ∧ t.b * x < 1 := by
  simp [Interior, HyperbolicRTransform.domain_lo]

theorem admissible_iff (t : HyperbolicRTransform ℝ) : t.Admissible ↔ 0 < t.a ∧ 0 < t.b := by
  simp [HyperbolicRTransform.Admissible]

/-- The points `0 … size-1` of an accepted array lie below the pole: if the size guard does not raise,
every `x ≤ size - 1` satisfies `b x < 1`. -/
theorem below_pole_of_not_raises (t : HyperbolicRTransform ℝ) (ht : t.Admissible) (size x : ℝ)
    (h : ¬ t.transform_raises size x) (hx : x ≤ size - 1) : t.b * x < 1 := by
  rw [admissible_iff] at ht
  simp only [HyperbolicRTransform.transform_raises, Nat.cast_one, ge_iff_le, not_le] at h
  nlinarith [ht.2]

/-- A scalar argument (`np.size(x) = 1`) never trips the size guard of any of the five methods. -/
theorem scalar_not_raises (t : HyperbolicRTransform ℝ) (x : ℝ) :
    ¬ t.transform_raises 1 x ∧ ¬ t.inverse_raises 1 x ∧ ¬ t.deriv_raises 1 x ∧ ¬ t.deriv2_raises 1 x ∧
      ¬ t.deriv3_raises 1 x := by
  simp [HyperbolicRTransform.transform_raises, HyperbolicRTransform.inverse_raises, HyperbolicRTransform.deriv_raises,
    HyperbolicRTransform.deriv2_raises, HyperbolicRTransform.deriv3_raises]

theorem transform_eq (t : HyperbolicRTransform ℝ) : t.transform = fun y => t.a * y / (1 - t.b * y) := by
  funext y; simp only [HyperbolicRTransform.transform]; rt_norm

theorem deriv_eq (t : HyperbolicRTransform ℝ) : t.deriv = fun y => t.a / (1 - t.b * y) ^ 2 := by
  funext y; simp only [HyperbolicRTransform.deriv]; rt_norm
  by_cases h : 1 - t.b * y = 0
  · simp [h]
  · field_simp

theorem deriv2_eq (t : HyperbolicRTransform ℝ) : t.deriv2 = fun y => 2 * t.a * t.b / (1 - t.b * y) ^ 3 := by
  funext y; simp only [HyperbolicRTransform.deriv2]; rt_norm
  by_cases h : 1 - t.b * y = 0
  · simp [h]
  · field_simp

theorem deriv3_eq (t : HyperbolicRTransform ℝ) :
    t.deriv3 = fun y => 6 * t.a * t.b * t.b / (1 - t.b * y) ^ 4 := by
  funext y; simp only [HyperbolicRTransform.deriv3]; rt_norm
  by_cases h : 1 - t.b * y = 0
  · simp [h]
  · field_simp

theorem inverse_eq (t : HyperbolicRTransform ℝ) : t.inverse = fun r => r / (t.a + t.b * r) := by
  funext y; simp only [HyperbolicRTransform.inverse]

theorem hasDerivAt_den (t : HyperbolicRTransform ℝ) (x : ℝ) : HasDerivAt (fun y => 1 - t.b * y) (-t.b) x := by
  have h := ((hasDerivAt_id x).const_mul t.b).const_sub 1
  refine h.congr_deriv ?_
  ring

/-- (1a) `deriv` is the derivative of `transform` on the domain of use. -/
theorem hasDerivAt_transform (t : HyperbolicRTransform ℝ) (_ht : t.Admissible) (x : ℝ) (hx : Interior t x) :
    HasDerivAt t.transform (t.deriv x) x := by
  rw [interior_iff] at hx
  have h1 : 1 - t.b * x ≠ 0 := by linarith [hx.2]
  rw [transform_eq, deriv_eq]
  have h := ((hasDerivAt_id x).const_mul t.a).div (hasDerivAt_den t x) h1
  refine h.congr_deriv ?_
  simp only [id]
  deriv_finish

/-- (1b) `deriv2` is the derivative of `deriv`. -/
theorem hasDerivAt_deriv (t : HyperbolicRTransform ℝ) (_ht : t.Admissible) (x : ℝ) (hx : Interior t x) :
    HasDerivAt t.deriv (t.deriv2 x) x := by
  rw [interior_iff] at hx
  have h1 : 1 - t.b * x ≠ 0 := by linarith [hx.2]
  rw [deriv_eq, deriv2_eq]
  have h := (hasDerivAt_const x t.a).div ((hasDerivAt_den t x).pow 2) (pow_ne_zero 2 h1)
  refine h.congr_deriv ?_
  deriv_finish

/-- (1c) `deriv3` is the derivative of `deriv2`. -/
theorem hasDerivAt_deriv2 (t : HyperbolicRTransform ℝ) (_ht : t.Admissible) (x : ℝ) (hx : Interior t x) :
    HasDerivAt t.deriv2 (t.deriv3 x) x := by
  rw [interior_iff] at hx
  have h1 : 1 - t.b * x ≠ 0 := by linarith [hx.2]
  rw [deriv2_eq, deriv3_eq]
  have h := (hasDerivAt_const x (2 * t.a * t.b)).div ((hasDerivAt_den t x).pow 3) (pow_ne_zero 3 h1)
  refine h.congr_deriv ?_
  deriv_finish

example : ∃ t : HyperbolicRTransform ℝ, t.Admissible ∧ Interior t 7 ∧ CoInterior t 2 :=
  ⟨⟨3 / 2, 1 / 10⟩, by rw [admissible_iff]; norm_num, by rw [interior_iff]; norm_num,
    by simp [CoInterior, HyperbolicRTransform.codomain_lo]⟩

/-- (2a) The inverse undoes the forward map on the domain of use. -/
theorem inverse_transform (t : HyperbolicRTransform ℝ) (ht : t.Admissible) (x : ℝ) (hx : Interior t x) :
    t.inverse (t.transform x) = x := by
  rw [interior_iff] at hx
  rw [admissible_iff] at ht
  have h1 : 1 - t.b * x ≠ 0 := by linarith [hx.2]
  rw [transform_eq, inverse_eq]
  simp only
  have e : t.a + t.b * (t.a * x / (1 - t.b * x)) = t.a / (1 - t.b * x) := by field_simp; ring
  rw [e]
  have := ht.1.ne'
  have h1' : 1 - x * t.b ≠ 0 := by rw [mul_comm]; exact h1
  field_simp

/-- (2b) The forward map undoes the inverse on the interior of the codomain. -/
theorem transform_inverse (t : HyperbolicRTransform ℝ) (ht : t.Admissible) (r : ℝ) (hr : CoInterior t r) :
    t.transform (t.inverse r) = r := by
  simp only [CoInterior, HyperbolicRTransform.codomain_lo, Nat.cast_zero] at hr
  rw [admissible_iff] at ht
  have h1 : t.a + t.b * r ≠ 0 := by nlinarith [ht.1, ht.2, mul_pos ht.2 hr]
  rw [transform_eq, inverse_eq]
  simp only
  have e : 1 - t.b * (r / (t.a + t.b * r)) = t.a / (t.a + t.b * r) := by field_simp; ring
  rw [e]
  have := ht.1.ne'
  have h1' : t.a + r * t.b ≠ 0 := by rw [mul_comm r]; exact h1
  field_simp

/-- The inverse maps the interior of the codomain into the domain of use. -/
theorem inverse_mem (t : HyperbolicRTransform ℝ) (ht : t.Admissible) (r : ℝ) (hr : CoInterior t r) :
    Interior t (t.inverse r) := by
  simp only [CoInterior, HyperbolicRTransform.codomain_lo, Nat.cast_zero] at hr
  rw [admissible_iff] at ht
  have h1 : 0 < t.a + t.b * r := by nlinarith [ht.1, ht.2, mul_pos ht.2 hr]
  rw [interior_iff, inverse_eq]
  refine ⟨div_pos hr h1, ?_⟩
  rw [← mul_div_assoc, div_lt_one h1]
  linarith [ht.1]

/-- (4a) The derivative is positive on the domain of use. -/
theorem deriv_pos (t : HyperbolicRTransform ℝ) (ht : t.Admissible) (x : ℝ) (hx : Interior t x) :
    0 < t.deriv x := by
  rw [interior_iff] at hx
  rw [admissible_iff] at ht
  rw [deriv_eq]
  have h1 : 0 < 1 - t.b * x := by linarith [hx.2]
  have := ht.1
  positivity

theorem convex_domain (t : HyperbolicRTransform ℝ) (ht : t.Admissible) :
    Convex ℝ {x : ℝ | Interior t x} := by
  rw [admissible_iff] at ht
  have : {x : ℝ | Interior t x} = Set.Ioo 0 (1 / t.b) := by
    ext x; simp only [Set.mem_ofPred_eq, interior_iff, Set.mem_Ioo, lt_div_iff₀ ht.2, mul_comm x t.b]
  rw [this]; exact convex_Ioo _ _

/-- (4b) Strictly increasing on the domain of use. -/
theorem strictMonoOn_transform (t : HyperbolicRTransform ℝ) (ht : t.Admissible) :
    StrictMonoOn t.transform {x : ℝ | Interior t x} :=
  strictMonoOn_of_hasDerivAt_pos (convex_domain t ht) (fun x hx => hasDerivAt_transform t ht x hx)
    (fun x hx => deriv_pos t ht x hx)

/-- (4c) End point: `0 ↦ 0`. -/
theorem transform_domain_lo (t : HyperbolicRTransform ℝ) : t.transform t.domain_lo = t.codomain_lo := by
  rw [transform_eq]; simp [HyperbolicRTransform.domain_lo, HyperbolicRTransform.codomain_lo]

/-- (4d) End point: towards the pole `1/b` (upper end of the domain of use) the map grows beyond every bound. -/
theorem tendsto_transform_pole (t : HyperbolicRTransform ℝ) (ht : t.Admissible) :
    Tendsto t.transform (𝓝[<] (1 / t.b)) atTop := by
  rw [admissible_iff] at ht
  rw [transform_eq]
  have hb := ht.2
  have h1 : Tendsto (fun y : ℝ => 1 - t.b * y) (𝓝[<] (1 / t.b)) (𝓝[>] 0) := by
    rw [tendsto_nhdsWithin_iff]
    constructor
    · have : Tendsto (fun y : ℝ => 1 - t.b * y) (𝓝 (1 / t.b)) (𝓝 (1 - t.b * (1 / t.b))) :=
        (continuous_const.sub (continuous_const.mul continuous_id)).tendsto _
      rw [mul_one_div_cancel hb.ne', sub_self] at this
      exact this.mono_left nhdsWithin_le_nhds
    · filter_upwards [self_mem_nhdsWithin] with y hy
      simp only [Set.mem_Iio, lt_div_iff₀ hb] at hy
      simp only [Set.mem_Ioi]; nlinarith
  have h2 : Tendsto (fun y : ℝ => t.a * y) (𝓝[<] (1 / t.b)) (𝓝 (t.a * (1 / t.b))) :=
    ((continuous_const.mul continuous_id).tendsto _).mono_left nhdsWithin_le_nhds
  have h3 : 0 < t.a * (1 / t.b) := by have := ht.1; positivity
  have := h2.pos_mul_atTop h3 (h1.inv_tendsto_nhdsGT_zero)
  refine this.congr ?_
  intro y; simp [div_eq_mul_inv]

/-- (3) The inverse-derivative package applies at every interior point of the codomain. -/
theorem localInverseAt (t : HyperbolicRTransform ℝ) (ht : t.Admissible) (r : ℝ) (hr : CoInterior t r) :
    LocalInverseAt t.ops r := by
  have hx := inverse_mem t ht r hr
  have hr' := hr
  simp only [CoInterior, HyperbolicRTransform.codomain_lo, Nat.cast_zero] at hr'
  have hab := (admissible_iff t).mp ht
  refine ⟨hasDerivAt_transform t ht _ hx, hasDerivAt_deriv t ht _ hx, hasDerivAt_deriv2 t ht _ hx,
    (deriv_pos t ht (t.inverse r) hx).ne', ?_, ?_⟩
  · show ContinuousAt t.inverse r
    rw [inverse_eq]
    have h1 : t.a + t.b * r ≠ 0 := by nlinarith [hab.1, hab.2, mul_pos hab.2 hr']
    exact ContinuousAt.div (by fun_prop) (by fun_prop) h1
  · show ∀ᶠ y in 𝓝 r, t.transform (t.inverse y) = y
    filter_upwards [Ioi_mem_nhds hr'] with y hy
    exact transform_inverse t ht y (by simpa [CoInterior, HyperbolicRTransform.codomain_lo] using hy)

/-- (3) `deriv_inverse`, `deriv2_inverse`, `deriv3_inverse` are the first three derivatives of `inverse`. -/
theorem inverse_derivs (t : HyperbolicRTransform ℝ) (ht : t.Admissible) (r : ℝ) (hr : CoInterior t r) :
    HasDerivAt t.inverse (BaseTransform.deriv_inverse t.ops r) r ∧
    HasDerivAt (BaseTransform.deriv_inverse t.ops) (BaseTransform.deriv2_inverse t.ops r) r ∧
    HasDerivAt (BaseTransform.deriv2_inverse t.ops) (BaseTransform.deriv3_inverse t.ops r) r :=
  deriv_inverse_package t.ops r (localInverseAt t ht r hr)

end GridVerif.C03.HyperbolicRTransform

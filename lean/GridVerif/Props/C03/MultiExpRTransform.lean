/-
  C03 — `MultiExpRTransform(rmin, R, trim_inf)`:  r(x) = -R log((x+1)/2) + rmin,  (-1, 1) → (rmin, ∞), DEcreasing.

  Definitions: `Gen/RTransform.lean` (regenerated from rtransform.py on every run).
  The constructor has no guard; `R ≠ 0` / `0 < R` is an explicit hypothesis where needed (derivative
  identities hold for every `R`).  The map sends the upper end `1` of the domain to the lower end `rmin`
  of the codomain and grows beyond every bound towards `-1`.
-/
import GridVerif.Lemmas.RTransform

namespace GridVerif.C03.MultiExpRTransform
open GridVerif.Gen.RTransform GridVerif.C03 Filter Topology

/-- Interior of the declared domain `(-1, 1)`. -/
def Interior (t : MultiExpRTransform ℝ) (x : ℝ) : Prop := t.domain_lo < x ∧ x < t.domain_hi

/-- Interior of the codomain `(rmin, ∞)`. -/
def CoInterior (t : MultiExpRTransform ℝ) (r : ℝ) : Prop := t.codomain_lo < r

theorem interior_iff (t : MultiExpRTransform ℝ) (x : ℝ) : Interior t x ↔ -1 < x ∧ x < 1 := by
  simp [Interior, MultiExpRTransform.domain_lo, MultiExpRTransform.domain_hi]

theorem transform_eq (t : MultiExpRTransform ℝ) :
    t.transform = fun y => -t.R * Real.log ((1 + y) / 2) + t.rmin := by
  funext y; simp only [MultiExpRTransform.transform]; rt_norm; rw [add_comm y 1]

theorem deriv_eq (t : MultiExpRTransform ℝ) : t.deriv = fun y => -t.R / (1 + y) := by
  funext y; simp only [MultiExpRTransform.deriv]; rt_norm

theorem deriv2_eq (t : MultiExpRTransform ℝ) : t.deriv2 = fun y => t.R / (1 + y) ^ 2 := by
  funext y; simp only [MultiExpRTransform.deriv2]; rt_norm

theorem deriv3_eq (t : MultiExpRTransform ℝ) : t.deriv3 = fun y => -2 * t.R / (1 + y) ^ 3 := by
  funext y; simp only [MultiExpRTransform.deriv3]; rt_norm

theorem inverse_eq (t : MultiExpRTransform ℝ) :
    t.inverse = fun r => 2 * Real.exp (-(r - t.rmin) / t.R) - 1 := by
  funext y; simp only [MultiExpRTransform.inverse]; rt_norm

/-- (1a) `deriv` is the derivative of `transform` on the interior of the domain (every `R`). -/
theorem hasDerivAt_transform (t : MultiExpRTransform ℝ) (_ht : t.Admissible) (x : ℝ) (hx : Interior t x) :
    HasDerivAt t.transform (t.deriv x) x := by
  rw [interior_iff] at hx
  have h1 : 1 + x ≠ 0 := by linarith [hx.1]
  have h2 : (1 + x) / 2 ≠ 0 := div_ne_zero h1 (by norm_num)
  rw [transform_eq, deriv_eq]
  have h := ((((hasDerivAt_one_add x).div_const 2).log h2).const_mul (-t.R)).add_const t.rmin
  refine h.congr_deriv ?_
  field_simp

/-- (1b) `deriv2` is the derivative of `deriv`. -/
theorem hasDerivAt_deriv (t : MultiExpRTransform ℝ) (_ht : t.Admissible) (x : ℝ) (hx : Interior t x) :
    HasDerivAt t.deriv (t.deriv2 x) x := by
  rw [interior_iff] at hx
  have h1 : 1 + x ≠ 0 := by linarith [hx.1]
  rw [deriv_eq, deriv2_eq]
  have h := (hasDerivAt_const x (-t.R)).div (hasDerivAt_one_add x) h1
  refine h.congr_deriv ?_
  deriv_finish

/-- (1c) `deriv3` is the derivative of `deriv2`. -/
theorem hasDerivAt_deriv2 (t : MultiExpRTransform ℝ) (_ht : t.Admissible) (x : ℝ) (hx : Interior t x) :
    HasDerivAt t.deriv2 (t.deriv3 x) x := by
  rw [interior_iff] at hx
  have h1 : 1 + x ≠ 0 := by linarith [hx.1]
  rw [deriv2_eq, deriv3_eq]
  have h := (hasDerivAt_const x t.R).div ((hasDerivAt_one_add x).pow 2) (pow_ne_zero 2 h1)
  refine h.congr_deriv ?_
  deriv_finish

example : ∃ t : MultiExpRTransform ℝ, t.Admissible ∧ 0 < t.R ∧ Interior t (1 / 2) ∧ CoInterior t 2 :=
  ⟨⟨1 / 10, 3 / 2, true⟩, trivial, by norm_num, by rw [interior_iff]; norm_num,
    by simp [CoInterior, MultiExpRTransform.codomain_lo]; norm_num⟩

/-- (2a) The inverse undoes the forward map on the interior of the domain (`R ≠ 0`, not checked by the code). -/
theorem inverse_transform (t : MultiExpRTransform ℝ) (_ht : t.Admissible) (hR : t.R ≠ 0) (x : ℝ)
    (hx : Interior t x) : t.inverse (t.transform x) = x := by
  rw [interior_iff] at hx
  have h1 : 0 < (1 + x) / 2 := by linarith [hx.1]
  rw [transform_eq, inverse_eq]
  simp only
  have e : -(-t.R * Real.log ((1 + x) / 2) + t.rmin - t.rmin) / t.R = Real.log ((1 + x) / 2) := by
    field_simp; ring
  rw [e, Real.exp_log h1]
  ring

/-- (2b) The forward map undoes the inverse (every `r`; `R ≠ 0`). -/
theorem transform_inverse (t : MultiExpRTransform ℝ) (_ht : t.Admissible) (hR : t.R ≠ 0) (r : ℝ) :
    t.transform (t.inverse r) = r := by
  rw [transform_eq, inverse_eq]
  simp only
  rw [show (1 + (2 * Real.exp (-(r - t.rmin) / t.R) - 1)) / 2 = Real.exp (-(r - t.rmin) / t.R) by ring,
    Real.log_exp]
  field_simp; ring

/-- The inverse maps the interior of the codomain into the interior of the domain (`0 < R`). -/
theorem inverse_mem (t : MultiExpRTransform ℝ) (hR : 0 < t.R) (r : ℝ) (hr : CoInterior t r) :
    Interior t (t.inverse r) := by
  simp only [CoInterior, MultiExpRTransform.codomain_lo] at hr
  rw [interior_iff, inverse_eq]
  simp only
  have h0 : -(r - t.rmin) / t.R < 0 := div_neg_of_neg_of_pos (by linarith) hR
  have h1 : 0 < Real.exp (-(r - t.rmin) / t.R) := Real.exp_pos _
  have h2 : Real.exp (-(r - t.rmin) / t.R) < 1 := by rw [← Real.exp_zero]; exact Real.exp_lt_exp.mpr h0
  constructor <;> linarith

/-- (4a) The derivative is negative on the interior (`0 < R`): the map is decreasing. -/
theorem deriv_neg (t : MultiExpRTransform ℝ) (hR : 0 < t.R) (x : ℝ) (hx : Interior t x) : t.deriv x < 0 := by
  rw [interior_iff] at hx
  rw [deriv_eq]
  have h1 : 0 < 1 + x := by linarith [hx.1]
  exact div_neg_of_neg_of_pos (by linarith) h1

/-- (4b) The forward map is strictly decreasing on the interior of its domain (`0 < R`). -/
theorem strictAntiOn_transform (t : MultiExpRTransform ℝ) (ht : t.Admissible) (hR : 0 < t.R) :
    StrictAntiOn t.transform (Set.Ioo t.domain_lo t.domain_hi) :=
  strictAntiOn_of_hasDerivAt_neg (convex_Ioo _ _) (fun x hx => hasDerivAt_transform t ht x hx)
    (fun x hx => deriv_neg t hR x hx)

/-- (4c) End point: the upper end `1` of the domain goes to the lower end `rmin` of the codomain (every `R`). -/
theorem transform_domain_hi (t : MultiExpRTransform ℝ) : t.transform t.domain_hi = t.codomain_lo := by
  rw [transform_eq]; simp only [MultiExpRTransform.domain_hi, MultiExpRTransform.codomain_lo, Nat.cast_one]
  norm_num

/-- (4d) End point: towards the lower end `-1` of the domain the map grows beyond every bound (`0 < R`);
the code represents the value at `x = -1` by `1e16` (trim on) or `inf`, see the correspondence. -/
theorem tendsto_transform_domain_lo (t : MultiExpRTransform ℝ) (hR : 0 < t.R) :
    Tendsto t.transform (𝓝[>] t.domain_lo) atTop := by
  rw [transform_eq]
  simp only [MultiExpRTransform.domain_lo, Nat.cast_one]
  apply tendsto_atTop_add_const_right
  have h1 : Tendsto (fun y : ℝ => (1 + y) / 2) (𝓝[>] (-1)) (𝓝[>] 0) := by
    have h := tendsto_one_add_nhdsGT
    rw [tendsto_nhdsWithin_iff] at h ⊢
    constructor
    · have := h.1.div_const 2
      simpa using this
    · filter_upwards [h.2] with y hy
      simp only [Set.mem_Ioi] at hy ⊢; positivity
  have h2 : Tendsto (fun y : ℝ => Real.log ((1 + y) / 2)) (𝓝[>] (-1)) atBot :=
    Real.tendsto_log_nhdsGT_zero.comp h1
  have h3 : Tendsto (fun y : ℝ => t.R * -Real.log ((1 + y) / 2)) (𝓝[>] (-1)) atTop :=
    (tendsto_neg_atBot_atTop.comp h2).const_mul_atTop hR
  refine h3.congr ?_
  intro y; ring

/-- (3) The inverse-derivative package applies at every interior point of the codomain (`0 < R`). -/
theorem localInverseAt (t : MultiExpRTransform ℝ) (ht : t.Admissible) (hR : 0 < t.R) (r : ℝ)
    (hr : CoInterior t r) : LocalInverseAt t.ops r := by
  have hx := inverse_mem t hR r hr
  refine ⟨hasDerivAt_transform t ht _ hx, hasDerivAt_deriv t ht _ hx, hasDerivAt_deriv2 t ht _ hx,
    (deriv_neg t hR (t.inverse r) hx).ne, ?_, ?_⟩
  · show ContinuousAt t.inverse r
    rw [inverse_eq]; fun_prop
  · exact Eventually.of_forall fun y => transform_inverse t ht hR.ne' y

/-- (3) `deriv_inverse`, `deriv2_inverse`, `deriv3_inverse` are the first three derivatives of `inverse`. -/
theorem inverse_derivs (t : MultiExpRTransform ℝ) (ht : t.Admissible) (hR : 0 < t.R) (r : ℝ)
    (hr : CoInterior t r) :
    HasDerivAt t.inverse (BaseTransform.deriv_inverse t.ops r) r ∧
    HasDerivAt (BaseTransform.deriv_inverse t.ops) (BaseTransform.deriv2_inverse t.ops r) r ∧
    HasDerivAt (BaseTransform.deriv2_inverse t.ops) (BaseTransform.deriv3_inverse t.ops r) r :=
  deriv_inverse_package t.ops r (localInverseAt t ht hR r hr)

end GridVerif.C03.MultiExpRTransform

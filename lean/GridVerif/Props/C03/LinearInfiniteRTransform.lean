/-
  C03 — `LinearInfiniteRTransform(rmin, rmax, b)`:  r(x) = (rmax-rmin)/b · x + rmin,  reference points 0 ↦ rmin, b ↦ rmax.

  Definitions: `Gen/RTransform.lean` (regenerated from rtransform.py on every run); `b` is the scale
  parameter once it is set (given to the constructor, or inferred as the maximum of the first array, where the
  code only rejects `|b| < 1e-16`).  The constructor checks `rmin < rmax` only; `b ≠ 0` / `0 < b` is an
  explicit hypothesis of the theorems (a negative `b` makes the map decreasing).
-/
import GridVerif.Lemmas.RTransform

namespace GridVerif.C03.LinearInfiniteRTransform
open GridVerif.Gen.RTransform GridVerif.C03 Filter Topology

/-- Interior of the declared domain `(0, ∞)`. -/
def Interior (t : LinearInfiniteRTransform ℝ) (x : ℝ) : Prop := t.domain_lo < x

theorem admissible_iff (t : LinearInfiniteRTransform ℝ) : t.Admissible ↔ t.rmin < t.rmax := by
  simp [LinearInfiniteRTransform.Admissible]

theorem transform_eq (t : LinearInfiniteRTransform ℝ) :
    t.transform = fun y => (t.rmax - t.rmin) / t.b * y + t.rmin := by
  funext y; simp only [LinearInfiniteRTransform.transform]

theorem deriv_eq (t : LinearInfiniteRTransform ℝ) : t.deriv = fun _ => (t.rmax - t.rmin) / t.b := by
  funext y; simp only [LinearInfiniteRTransform.deriv]; rt_norm; ring

theorem deriv2_eq (t : LinearInfiniteRTransform ℝ) : t.deriv2 = fun _ => 0 := by
  funext y; simp only [LinearInfiniteRTransform.deriv2]; rt_norm

theorem deriv3_eq (t : LinearInfiniteRTransform ℝ) : t.deriv3 = fun _ => 0 := by
  funext y; simp only [LinearInfiniteRTransform.deriv3]; rt_norm

theorem inverse_eq (t : LinearInfiniteRTransform ℝ) :
    t.inverse = fun r => (r - t.rmin) / ((t.rmax - t.rmin) / t.b) := by
  funext y; simp only [LinearInfiniteRTransform.inverse]

/-- (1a) `deriv` is the derivative of `transform` (`b ≠ 0`: the code divides by `b`). -/
theorem hasDerivAt_transform (t : LinearInfiniteRTransform ℝ) (_ht : t.Admissible) (_hb : t.b ≠ 0) (x : ℝ)
    (_hx : Interior t x) : HasDerivAt t.transform (t.deriv x) x := by
  rw [transform_eq, deriv_eq]
  have h := ((hasDerivAt_id x).const_mul ((t.rmax - t.rmin) / t.b)).add_const t.rmin
  refine h.congr_deriv ?_
  ring

/-- (1b) `deriv2` is the derivative of `deriv`. -/
theorem hasDerivAt_deriv (t : LinearInfiniteRTransform ℝ) (_ht : t.Admissible) (_hb : t.b ≠ 0) (x : ℝ)
    (_hx : Interior t x) : HasDerivAt t.deriv (t.deriv2 x) x := by
  rw [deriv_eq, deriv2_eq]; exact hasDerivAt_const x _

/-- (1c) `deriv3` is the derivative of `deriv2`. -/
theorem hasDerivAt_deriv2 (t : LinearInfiniteRTransform ℝ) (_ht : t.Admissible) (_hb : t.b ≠ 0) (x : ℝ)
    (_hx : Interior t x) : HasDerivAt t.deriv2 (t.deriv3 x) x := by
  rw [deriv2_eq, deriv3_eq]; exact hasDerivAt_const x _

/-- The `isinstance(x, Number)` branches of `deriv`, `deriv2`, `deriv3` compute the same values as the array branches. -/
theorem scalar_branch_eq (t : LinearInfiniteRTransform ℝ) (x : ℝ) :
    t.deriv_scalar x = t.deriv x ∧ t.deriv2_scalar x = t.deriv2 x ∧ t.deriv3_scalar x = t.deriv3 x := by
  rw [deriv_eq]
  refine ⟨?_, rfl, rfl⟩
  simp only [LinearInfiniteRTransform.deriv_scalar]

example : ∃ t : LinearInfiniteRTransform ℝ, t.Admissible ∧ 0 < t.b ∧ Interior t (7 / 2) :=
  ⟨⟨1 / 10, 5, 3⟩, by rw [admissible_iff]; norm_num, by norm_num,
    by simp [Interior, LinearInfiniteRTransform.domain_lo]⟩

/-- (2a) The inverse undoes the forward map (`b ≠ 0`). -/
theorem inverse_transform (t : LinearInfiniteRTransform ℝ) (ht : t.Admissible) (hb : t.b ≠ 0) (x : ℝ)
    (_hx : Interior t x) : t.inverse (t.transform x) = x := by
  rw [admissible_iff] at ht
  have h1 : t.rmax - t.rmin ≠ 0 := by linarith
  rw [transform_eq, inverse_eq]
  field_simp; ring

/-- (2b) The forward map undoes the inverse, at every `r` (`b ≠ 0`). -/
theorem transform_inverse (t : LinearInfiniteRTransform ℝ) (ht : t.Admissible) (hb : t.b ≠ 0) (r : ℝ) :
    t.transform (t.inverse r) = r := by
  rw [admissible_iff] at ht
  have h1 : t.rmax - t.rmin ≠ 0 := by linarith
  rw [transform_eq, inverse_eq]
  field_simp; ring

/-- (4a) The derivative is positive (`0 < b`). -/
theorem deriv_pos (t : LinearInfiniteRTransform ℝ) (ht : t.Admissible) (hb : 0 < t.b) (x : ℝ) : 0 < t.deriv x := by
  rw [admissible_iff] at ht
  rw [deriv_eq]
  exact div_pos (sub_pos.mpr ht) hb

/-- (4b) Strictly increasing on the interior of the domain (`0 < b`). -/
theorem strictMonoOn_transform (t : LinearInfiniteRTransform ℝ) (ht : t.Admissible) (hb : 0 < t.b) :
    StrictMonoOn t.transform (Set.Ioi t.domain_lo) :=
  strictMonoOn_of_hasDerivAt_pos (convex_Ioi _) (fun x hx => hasDerivAt_transform t ht hb.ne' x hx)
    (fun x _ => deriv_pos t ht hb x)

/-- (4c) Reference point `0 ↦ rmin`. -/
theorem transform_domain_lo (t : LinearInfiniteRTransform ℝ) : t.transform t.domain_lo = t.codomain_lo := by
  rw [transform_eq]; simp [LinearInfiniteRTransform.domain_lo, LinearInfiniteRTransform.codomain_lo]

/-- (4c) Reference point `b ↦ rmax` (`b ≠ 0`). -/
theorem transform_b (t : LinearInfiniteRTransform ℝ) (hb : t.b ≠ 0) : t.transform t.b = t.codomain_hi := by
  rw [transform_eq]; simp only [LinearInfiniteRTransform.codomain_hi]
  field_simp; ring

/-- (3) The inverse-derivative package applies at every `r` whose preimage is in the domain (`0 < b`). -/
theorem localInverseAt (t : LinearInfiniteRTransform ℝ) (ht : t.Admissible) (hb : 0 < t.b) (r : ℝ)
    (hx : Interior t (t.inverse r)) : LocalInverseAt t.ops r := by
  refine ⟨hasDerivAt_transform t ht hb.ne' _ hx, hasDerivAt_deriv t ht hb.ne' _ hx,
    hasDerivAt_deriv2 t ht hb.ne' _ hx, (deriv_pos t ht hb (t.inverse r)).ne', ?_, ?_⟩
  · show ContinuousAt t.inverse r
    rw [inverse_eq]; fun_prop
  · exact Eventually.of_forall fun y => transform_inverse t ht hb.ne' y

/-- (3) `deriv_inverse`, `deriv2_inverse`, `deriv3_inverse` are the first three derivatives of `inverse`. -/
theorem inverse_derivs (t : LinearInfiniteRTransform ℝ) (ht : t.Admissible) (hb : 0 < t.b) (r : ℝ)
    (hx : Interior t (t.inverse r)) :
    HasDerivAt t.inverse (BaseTransform.deriv_inverse t.ops r) r ∧
    HasDerivAt (BaseTransform.deriv_inverse t.ops) (BaseTransform.deriv2_inverse t.ops r) r ∧
    HasDerivAt (BaseTransform.deriv2_inverse t.ops) (BaseTransform.deriv3_inverse t.ops r) r :=
  deriv_inverse_package t.ops r (localInverseAt t ht hb r hx)

end GridVerif.C03.LinearInfiniteRTransform

/-
  C03, round 3 — the hard-coded thresholds of rtransform.py, as regenerated into `Gen/RTransform.lean`.

  * `set_maximum_parameter_b` of the three b-scaled maps (`LinearInfiniteRTransform`, `ExpRTransform`,
    `PowerRTransform`), carried statement by statement: the scale `b` is taken from the first grid
    (`np.max(x)`) only while the attribute is `None`, and the call raises `ValueError` exactly when
    `|np.max(x)| < 1e-16` — the window is the regenerated constant (the double nearest to `1e-16`).  The check stands
    before the assignment (repair 92a7e5b): a rejected grid leaves the attribute `None` (`setb_rejected_keeps_none`).
    What the guard buys for the property: a grid in the declared domain `[0, ∞)` that is accepted yields
    `b > 0`, which is the explicit hypothesis of every clause of the three class files — so the map with
    the inferred scale sends its reference point `b = max(x)` to `rmax`.
  * the `== 0` guards of `BaseTransform.deriv_inverse / deriv2_inverse / deriv3_inverse`: they raise exactly
    when the first derivative at the preimage is `0`; a non-zero derivative of any magnitude is not rejected.
  * the `power < 2` warning of `PowerRTransform.transform`: issued exactly when `rmax < rmin (b+1)²`; it does not
    enter the returned value (the generated `transform` does not mention it).
-/
import GridVerif.Props.C03.LinearInfiniteRTransform
import GridVerif.Props.C03.ExpRTransform
import GridVerif.Props.C03.PowerRTransform

namespace GridVerif.C03.Thresholds
open GridVerif.Gen.RTransform GridVerif.C03

/-- The guard constant of `set_maximum_parameter_b` as the source has it: the IEEE double written `1e-16`. -/
noncomputable def bGuard : ℝ := 2028240960365167 / 20282409603651670423947251286016

theorem bGuard_pos : 0 < bGuard := by unfold bGuard; norm_num

/-- The constant is `10⁻¹⁶` up to the rounding of the decimal literal. -/
theorem bGuard_window : |bGuard - 1 / 10 ^ 16| < 1 / 10 ^ 32 := by
  unfold bGuard; rw [abs_lt]; constructor <;> norm_num

theorem elem_abs (a : ℝ) : Elem.abs a = |a| := rfl

/-! ### `set_maximum_parameter_b` -/

/-- Window of the guard (regenerated constant): with `b = None` the call raises iff `|max(x)| < 1e-16`. -/
theorem linearInfinite_setb_raises_iff (xm : ℝ) :
    LinearInfiniteRTransform.set_maximum_parameter_b_raises (K := ℝ) none xm ↔ |xm| < bGuard := by
  simp [LinearInfiniteRTransform.set_maximum_parameter_b_raises, elem_abs, bGuard]

theorem exp_setb_raises_iff (xm : ℝ) :
    ExpRTransform.set_maximum_parameter_b_raises (K := ℝ) none xm ↔ |xm| < bGuard := by
  simp [ExpRTransform.set_maximum_parameter_b_raises, elem_abs, bGuard]

theorem power_setb_raises_iff (xm : ℝ) :
    PowerRTransform.set_maximum_parameter_b_raises (K := ℝ) none xm ↔ |xm| < bGuard := by
  simp [PowerRTransform.set_maximum_parameter_b_raises, elem_abs, bGuard]

/-- Once `b` is set the call changes nothing and never raises, whatever grid it sees (all three classes). -/
theorem setb_noop_once_set (b xm : ℝ) :
    (LinearInfiniteRTransform.set_maximum_parameter_b (some b) xm = some b ∧
      ¬ LinearInfiniteRTransform.set_maximum_parameter_b_raises (K := ℝ) (some b) xm) ∧
    (ExpRTransform.set_maximum_parameter_b (some b) xm = some b ∧
      ¬ ExpRTransform.set_maximum_parameter_b_raises (K := ℝ) (some b) xm) ∧
    (PowerRTransform.set_maximum_parameter_b (some b) xm = some b ∧
      ¬ PowerRTransform.set_maximum_parameter_b_raises (K := ℝ) (some b) xm) := by
  simp [LinearInfiniteRTransform.set_maximum_parameter_b, LinearInfiniteRTransform.set_maximum_parameter_b_raises,
    ExpRTransform.set_maximum_parameter_b, ExpRTransform.set_maximum_parameter_b_raises,
    PowerRTransform.set_maximum_parameter_b, PowerRTransform.set_maximum_parameter_b_raises]

/-- With `b = None` an accepted grid makes the attribute the maximum of the grid (all three classes). -/
theorem setb_first_grid (xm : ℝ) (h : ¬ |xm| < bGuard) :
    LinearInfiniteRTransform.set_maximum_parameter_b (none : Option ℝ) xm = some xm ∧
    ExpRTransform.set_maximum_parameter_b (none : Option ℝ) xm = some xm ∧
    PowerRTransform.set_maximum_parameter_b (none : Option ℝ) xm = some xm := by
  unfold bGuard at h
  simp only [LinearInfiniteRTransform.set_maximum_parameter_b, ExpRTransform.set_maximum_parameter_b,
    PowerRTransform.set_maximum_parameter_b, elem_abs, Nat.cast_ofNat]
  simp [h]

/-- A rejected grid (the call raises: `|max(x)| < 1e-16`) leaves the attribute `None`: the next grid is the first one
again (all three classes; the check precedes the assignment). -/
theorem setb_rejected_keeps_none (xm : ℝ) (h : |xm| < bGuard) :
    (LinearInfiniteRTransform.set_maximum_parameter_b_raises (K := ℝ) none xm ∧
      LinearInfiniteRTransform.set_maximum_parameter_b (none : Option ℝ) xm = none) ∧
    (ExpRTransform.set_maximum_parameter_b_raises (K := ℝ) none xm ∧
      ExpRTransform.set_maximum_parameter_b (none : Option ℝ) xm = none) ∧
    (PowerRTransform.set_maximum_parameter_b_raises (K := ℝ) none xm ∧
      PowerRTransform.set_maximum_parameter_b (none : Option ℝ) xm = none) := by
  refine ⟨⟨(linearInfinite_setb_raises_iff xm).2 h, ?_⟩, ⟨(exp_setb_raises_iff xm).2 h, ?_⟩,
    ⟨(power_setb_raises_iff xm).2 h, ?_⟩⟩ <;>
  · unfold bGuard at h
    simp only [LinearInfiniteRTransform.set_maximum_parameter_b, ExpRTransform.set_maximum_parameter_b,
      PowerRTransform.set_maximum_parameter_b, elem_abs, Nat.cast_ofNat]
    simp [h]

/-- The attribute is `None` after the call exactly when the call raised (with `b = None` before). -/
theorem setb_none_iff_raises (xm : ℝ) :
    PowerRTransform.set_maximum_parameter_b (none : Option ℝ) xm = none ↔
      PowerRTransform.set_maximum_parameter_b_raises (K := ℝ) none xm := by
  rw [power_setb_raises_iff]
  by_cases h : |xm| < bGuard
  · exact ⟨fun _ => h, fun _ => (setb_rejected_keeps_none xm h).2.2.2⟩
  · refine ⟨fun hn => ?_, fun hc => absurd hc h⟩
    rw [(setb_first_grid xm h).2.2] at hn
    cases hn

/-- An accepted grid inside the declared domain `[0, ∞)` gives a positive scale, at least the guard constant. -/
theorem inferred_b_ge_guard (xm : ℝ) (h0 : 0 ≤ xm) (h : ¬ |xm| < bGuard) : bGuard ≤ xm ∧ 0 < xm := by
  rw [abs_of_nonneg h0, not_lt] at h
  exact ⟨h, lt_of_lt_of_le bGuard_pos h⟩

/-- The end-point clause with the scale taken from the grid.  `t` is the object after the call (`t.b = max(x)`): if
`set_maximum_parameter_b` accepted a grid with maximum `t.b ≥ 0`, then `0 < b`, and the map sends `0 ↦ rmin`, `b ↦ rmax`. -/
theorem linearInfinite_inferred_end_points (t : LinearInfiniteRTransform ℝ) (h0 : 0 ≤ t.b)
    (h : ¬ LinearInfiniteRTransform.set_maximum_parameter_b_raises (K := ℝ) none t.b) :
    LinearInfiniteRTransform.set_maximum_parameter_b (none : Option ℝ) t.b = some t.b ∧ 0 < t.b ∧
      t.transform t.domain_lo = t.codomain_lo ∧ t.transform t.b = t.codomain_hi := by
  rw [linearInfinite_setb_raises_iff] at h
  have hb := (inferred_b_ge_guard t.b h0 h).2
  exact ⟨(setb_first_grid t.b h).1, hb, LinearInfiniteRTransform.transform_domain_lo t, LinearInfiniteRTransform.transform_b t hb.ne'⟩

theorem exp_inferred_end_points (t : ExpRTransform ℝ) (ht : t.Admissible) (hmin : 0 < t.rmin) (h0 : 0 ≤ t.b)
    (h : ¬ ExpRTransform.set_maximum_parameter_b_raises (K := ℝ) none t.b) :
    ExpRTransform.set_maximum_parameter_b (none : Option ℝ) t.b = some t.b ∧ 0 < t.b ∧
      t.transform t.domain_lo = t.codomain_lo ∧ t.transform t.b = t.codomain_hi := by
  rw [exp_setb_raises_iff] at h
  have hb := (inferred_b_ge_guard t.b h0 h).2
  exact ⟨(setb_first_grid t.b h).2.1, hb, ExpRTransform.transform_domain_lo t, ExpRTransform.transform_b t ht hmin hb.ne'⟩

theorem power_inferred_end_points (t : PowerRTransform ℝ) (ht : t.Admissible) (h0 : 0 ≤ t.b)
    (h : ¬ PowerRTransform.set_maximum_parameter_b_raises (K := ℝ) none t.b) :
    PowerRTransform.set_maximum_parameter_b (none : Option ℝ) t.b = some t.b ∧ 0 < t.b ∧
      t.transform t.domain_lo = t.codomain_lo ∧ t.transform t.b = t.codomain_hi := by
  rw [power_setb_raises_iff] at h
  have hb := (inferred_b_ge_guard t.b h0 h).2
  exact ⟨(setb_first_grid t.b h).2.2, hb, PowerRTransform.transform_domain_lo t, PowerRTransform.transform_b t ht hb⟩

example : (⟨1 / 10, 5, 3⟩ : PowerRTransform ℝ).Admissible ∧ (0 : ℝ) ≤ 3 ∧
    ¬ PowerRTransform.set_maximum_parameter_b_raises (K := ℝ) none 3 := by
  refine ⟨by rw [PowerRTransform.admissible_iff]; norm_num, by norm_num, ?_⟩
  rw [power_setb_raises_iff, bGuard]; norm_num

/-- A grid whose maximum is `0` (the single point `0`, say) is rejected; one at `2e-16` is accepted. -/
example : PowerRTransform.set_maximum_parameter_b_raises (K := ℝ) none 0 ∧
    ¬ PowerRTransform.set_maximum_parameter_b_raises (K := ℝ) none (2 / 10 ^ 16) := by
  rw [power_setb_raises_iff, power_setb_raises_iff, bGuard]; norm_num

/-! ### the `== 0` guards of the inverse-derivative methods -/

/-- `deriv_inverse` raises `ZeroDivisionError` exactly when the first derivative at the preimage is `0`:
no non-zero value, however small, is rejected. -/
theorem deriv_inverse_raises_iff (F : BaseTransform ℝ) (r : ℝ) :
    BaseTransform.deriv_inverse_raises F r ↔ F.deriv (F.inverse r) = 0 := by
  simp [BaseTransform.deriv_inverse_raises]

theorem deriv2_inverse_raises_iff (F : BaseTransform ℝ) (r : ℝ) :
    BaseTransform.deriv2_inverse_raises F r ↔ F.deriv (F.inverse r) = 0 := by
  simp [BaseTransform.deriv2_inverse_raises]

theorem deriv3_inverse_raises_iff (F : BaseTransform ℝ) (r : ℝ) :
    BaseTransform.deriv3_inverse_raises F r ↔ F.deriv (F.inverse r) = 0 := by
  simp [BaseTransform.deriv3_inverse_raises]

/-- Where the inverse-function package applies (every interior point of every class, `<Class>.localInverseAt`)
none of the three methods raises. -/
theorem inverse_derivs_do_not_raise (F : BaseTransform ℝ) (r : ℝ) (h : LocalInverseAt F r) :
    ¬ BaseTransform.deriv_inverse_raises F r ∧ ¬ BaseTransform.deriv2_inverse_raises F r ∧
      ¬ BaseTransform.deriv3_inverse_raises F r := by
  rw [deriv_inverse_raises_iff, deriv2_inverse_raises_iff, deriv3_inverse_raises_iff]
  exact ⟨h.ne, h.ne, h.ne⟩

/-- A very short interval is not a singular one: `LinearFiniteRTransform(rmin, rmin + 2e-8)` has the constant
Jacobian `1e-8` and `deriv_inverse` does not raise. -/
example : ¬ BaseTransform.deriv_inverse_raises (LinearFiniteRTransform.ops (⟨1, 1 + 2 / 10 ^ 8⟩ : LinearFiniteRTransform ℝ)) 1 := by
  rw [deriv_inverse_raises_iff]
  simp only [LinearFiniteRTransform.ops, LinearFiniteRTransform.deriv]
  norm_num

/-! ### the `power < 2` warning of `PowerRTransform.transform` -/

/-- The warning condition is `power < 2` for the exponent of the class file. -/
theorem power_transform_warns_iff_power (t : PowerRTransform ℝ) (x : ℝ) :
    t.transform_warns x ↔ PowerRTransform.power t < 2 := by
  simp only [PowerRTransform.transform_warns, PowerRTransform.power]; rt_norm

/-- In terms of the parameters: the warning is issued exactly when `rmax < rmin (b+1)²` (`0 < b`). -/
theorem power_transform_warns_iff (t : PowerRTransform ℝ) (ht : t.Admissible) (hb : 0 < t.b) (x : ℝ) :
    t.transform_warns x ↔ t.rmax < t.rmin * (t.b + 1) ^ 2 := by
  rw [power_transform_warns_iff_power, PowerRTransform.power]
  rw [PowerRTransform.admissible_iff] at ht
  have hb1 : (0 : ℝ) < t.b + 1 := by linarith
  have hl : 0 < Real.log (t.b + 1) := Real.log_pos (by linarith)
  have hsq : (0 : ℝ) < (t.b + 1) ^ 2 := pow_pos hb1 2
  have hprod : 0 < t.rmin * (t.b + 1) ^ 2 := mul_pos ht.2.1 hsq
  rw [div_lt_iff₀ hl, sub_lt_iff_lt_add, ← Real.log_lt_log_iff ht.2.2 hprod, Real.log_mul ht.2.1.ne' hsq.ne',
    Real.log_pow]
  push_cast
  constructor <;> intro h <;> linarith

/-- The stack level is the caller's frame, and the warned-about exponent still gives a transform: the warning does not
enter the value (`transform` is the generated definition, which has no branch on it). -/
theorem power_transform_warn_stacklevel : PowerRTransform.transform_warn_stacklevel = 2 := rfl

example : (⟨1, 3, 1⟩ : PowerRTransform ℝ).transform_warns 0 ∧ ¬ (⟨1, 5, 1⟩ : PowerRTransform ℝ).transform_warns 0 := by
  rw [power_transform_warns_iff _ (by rw [PowerRTransform.admissible_iff]; norm_num) (by norm_num),
    power_transform_warns_iff _ (by rw [PowerRTransform.admissible_iff]; norm_num) (by norm_num)]
  norm_num

end GridVerif.C03.Thresholds

/-
  C03 — composition facts used by C04 / C15: for EVERY concrete class `T`, `InverseRTransform(T)` is itself a
  radial transform:

  * its declared domain is `T`'s codomain and its codomain is `T`'s domain (generated `InverseRTransform.domainExt /
    codomainExt` applied to the generated intervals `T.domainExt / T.codomainExt`, infinite ends included);
  * at every interior point `r` of that domain (`Inside`), its `deriv`, `deriv2`, `deriv3` are the successive
    derivatives of its forward map (they are the inverse-derivative package `1/d₁, -d₂/d₁³, (3d₂²-d₁d₃)/d₁⁵` of `T`),
    its `inverse` undoes its forward map, nothing raises (`ZeroDivisionError` needs `T.deriv = 0`), the Jacobian has the
    sign of `T`'s, and the image lies in the interior of its codomain.

  One theorem per class (`becke`, `linearFinite`, `identity`, `linearInfinite`, `exp`, `power`, `hyperbolic`,
  `multiExp`, `knowles`, `handy`, `handyMod`), all of the same shape `InverseWrapperAt`, under the same explicit
  hypotheses as the class files (`0 < R`, `0 < b`, `0 < rmin`, `rmin < rmax`, `2^m - 1 < rmax - rmin`).
-/
import GridVerif.Props.C03.BeckeRTransform
import GridVerif.Props.C03.LinearFiniteRTransform
import GridVerif.Props.C03.IdentityRTransform
import GridVerif.Props.C03.LinearInfiniteRTransform
import GridVerif.Props.C03.ExpRTransform
import GridVerif.Props.C03.PowerRTransform
import GridVerif.Props.C03.HyperbolicRTransform
import GridVerif.Props.C03.MultiExpRTransform
import GridVerif.Props.C03.KnowlesRTransform
import GridVerif.Props.C03.HandyRTransform
import GridVerif.Props.C03.HandyModRTransform
import GridVerif.Props.C03.InverseRTransform

namespace GridVerif.C03.Composition
open GridVerif GridVerif.Gen.RTransform GridVerif.C03 Filter Topology

/-- Strictly inside an interval whose ends may be infinite. -/
def Inside (I : ExtVal ℝ × ExtVal ℝ) (r : ℝ) : Prop :=
  (match I.1 with | .fin a => a < r | .negInf => True | .posInf => False) ∧
  (match I.2 with | .fin b => r < b | .posInf => True | .negInf => False)

/-- The wrapper swaps the two intervals (generated text of `InverseRTransform.__init__`). -/
theorem domain_swap {D : Type} (tfm_domain tfm_codomain : D) :
    InverseRTransform.domainExt tfm_domain tfm_codomain = tfm_codomain ∧
    InverseRTransform.codomainExt tfm_domain tfm_codomain = tfm_domain := ⟨rfl, rfl⟩

/-- What it means for `InverseRTransform(F)`, with declared intervals `dom`/`cod`, to be a transform at the point `r`
of its domain; `s = 1` for an increasing wrapped map, `s = -1` for a decreasing one. -/
structure InverseWrapperAt (F : BaseTransform ℝ) (cod : ExtVal ℝ × ExtVal ℝ) (s : ℝ) (r : ℝ) : Prop where
  d1 : HasDerivAt (wrapInverseRTransform F).transform ((wrapInverseRTransform F).deriv r) r
  d2 : HasDerivAt (wrapInverseRTransform F).deriv ((wrapInverseRTransform F).deriv2 r) r
  d3 : HasDerivAt (wrapInverseRTransform F).deriv2 ((wrapInverseRTransform F).deriv3 r) r
  /-- the derivative methods are the inverse-derivative package of the wrapped transform -/
  package : (wrapInverseRTransform F).deriv r = 1 / F.deriv (F.inverse r) ∧
    (wrapInverseRTransform F).deriv2 r = -(F.deriv2 (F.inverse r)) / F.deriv (F.inverse r) ^ 3 ∧
    (wrapInverseRTransform F).deriv3 r =
      (3 * F.deriv2 (F.inverse r) ^ 2 - F.deriv (F.inverse r) * F.deriv3 (F.inverse r)) / F.deriv (F.inverse r) ^ 5
  round_trip : (wrapInverseRTransform F).inverse ((wrapInverseRTransform F).transform r) = r
  not_raises : ¬ InverseRTransform.deriv_raises { tfm := F } r
  sign : 0 < s * (wrapInverseRTransform F).deriv r
  maps : Inside cod ((wrapInverseRTransform F).transform r)

/-- Assembly from what the class files prove. -/
theorem ofLocalInverse (F : BaseTransform ℝ) (cod : ExtVal ℝ × ExtVal ℝ) (s r : ℝ) (h : LocalInverseAt F r)
    (hrt : F.transform (F.inverse r) = r) (hs : 0 < s * F.deriv (F.inverse r)) (hs1 : s = 1 ∨ s = -1)
    (hm : Inside cod (F.inverse r)) : InverseWrapperAt F cod s r := by
  have hp : (wrapInverseRTransform F).deriv r = 1 / F.deriv (F.inverse r) := by
    show BaseTransform.deriv_inverse F r = _
    rw [deriv_inverse_fun]
  refine ⟨InverseRTransform.hasDerivAt_transform F r h, InverseRTransform.hasDerivAt_deriv F r h,
    InverseRTransform.hasDerivAt_deriv2 F r h, ⟨hp, ?_, ?_⟩, hrt, ?_, ?_, hm⟩
  · show BaseTransform.deriv2_inverse F r = _
    rw [deriv2_inverse_fun]
  · show BaseTransform.deriv3_inverse F r = _
    rw [deriv3_inverse_val]
  · rw [InverseRTransform.deriv_raises_iff]; exact h.ne
  · rw [hp]
    rcases hs1 with rfl | rfl
    · have : 0 < F.deriv (F.inverse r) := by simpa using hs
      simpa using this
    · have : F.deriv (F.inverse r) < 0 := by linarith
      have h2 : 1 / F.deriv (F.inverse r) < 0 := one_div_neg.mpr this
      linarith

/-! ### The eleven classes -/

theorem becke (t : BeckeRTransform ℝ) (ht : t.Admissible) (hR : 0 < t.R) (r : ℝ)
    (hr : Inside (InverseRTransform.domainExt t.domainExt t.codomainExt) r) :
    InverseWrapperAt t.ops (InverseRTransform.codomainExt t.domainExt t.codomainExt) 1 r := by
  have hc : BeckeRTransform.CoInterior t r := hr.1
  have hx := BeckeRTransform.inverse_mem t hR r hc
  refine ofLocalInverse _ _ _ _ (BeckeRTransform.localInverseAt t ht hR r hc) (BeckeRTransform.transform_inverse t ht hR r hc)
    (by simpa [BeckeRTransform.ops] using BeckeRTransform.deriv_pos t hR _ hx) (Or.inl rfl) ?_
  rw [BeckeRTransform.interior_iff] at hx
  exact ⟨by simpa [InverseRTransform.codomainExt, BeckeRTransform.domainExt, BeckeRTransform.ops] using hx.1,
    by simpa [InverseRTransform.codomainExt, BeckeRTransform.domainExt, BeckeRTransform.ops] using hx.2⟩

theorem linearFinite (t : LinearFiniteRTransform ℝ) (ht : t.Admissible) (hlt : t.rmin < t.rmax) (r : ℝ)
    (hr : Inside (InverseRTransform.domainExt t.domainExt t.codomainExt) r) :
    InverseWrapperAt t.ops (InverseRTransform.codomainExt t.domainExt t.codomainExt) 1 r := by
  have hc : LinearFiniteRTransform.CoInterior t r := ⟨hr.1, hr.2⟩
  have hx := LinearFiniteRTransform.inverse_mem t hlt r hc
  refine ofLocalInverse _ _ _ _ (LinearFiniteRTransform.localInverseAt t ht hlt r hc)
    (LinearFiniteRTransform.transform_inverse t ht hlt.ne r hc)
    (by simpa [LinearFiniteRTransform.ops] using LinearFiniteRTransform.deriv_pos t hlt _) (Or.inl rfl) ?_
  rw [LinearFiniteRTransform.interior_iff] at hx
  exact ⟨by simpa [InverseRTransform.codomainExt, LinearFiniteRTransform.domainExt, LinearFiniteRTransform.ops] using hx.1,
    by simpa [InverseRTransform.codomainExt, LinearFiniteRTransform.domainExt, LinearFiniteRTransform.ops] using hx.2⟩

theorem identity (t : IdentityRTransform ℝ) (ht : t.Admissible) (r : ℝ)
    (hr : Inside (InverseRTransform.domainExt t.domainExt t.codomainExt) r) :
    InverseWrapperAt t.ops (InverseRTransform.codomainExt t.domainExt t.codomainExt) 1 r := by
  have hc : IdentityRTransform.CoInterior t r := by
    have := hr.1
    simpa [IdentityRTransform.CoInterior, IdentityRTransform.codomain_lo, InverseRTransform.domainExt,
      IdentityRTransform.codomainExt] using this
  refine ofLocalInverse _ _ _ _ (IdentityRTransform.localInverseAt t ht r hc) (IdentityRTransform.transform_inverse t ht r hc)
    (by simpa [IdentityRTransform.ops] using IdentityRTransform.deriv_pos t _) (Or.inl rfl) ?_
  exact ⟨hr.1, trivial⟩

/-- `LinearInfiniteRTransform`: the inverse maps `(rmin, rmax)` into `(0, b) ⊂ (0, ∞)` (`0 < b`). -/
theorem linearInfinite_inverse_pos (t : LinearInfiniteRTransform ℝ) (ht : t.Admissible) (hb : 0 < t.b) {r : ℝ}
    (hr : t.rmin < r) : 0 < t.inverse r := by
  rw [LinearInfiniteRTransform.admissible_iff] at ht
  rw [LinearInfiniteRTransform.inverse_eq]
  have h1 : 0 < (t.rmax - t.rmin) / t.b := div_pos (by linarith) hb
  exact div_pos (by linarith) h1

theorem linearInfinite (t : LinearInfiniteRTransform ℝ) (ht : t.Admissible) (hb : 0 < t.b) (r : ℝ)
    (hr : Inside (InverseRTransform.domainExt t.domainExt t.codomainExt) r) :
    InverseWrapperAt t.ops (InverseRTransform.codomainExt t.domainExt t.codomainExt) 1 r := by
  have hpos := linearInfinite_inverse_pos t ht hb (r := r) hr.1
  have hx : LinearInfiniteRTransform.Interior t (t.inverse r) := by
    simpa [LinearInfiniteRTransform.Interior, LinearInfiniteRTransform.domain_lo] using hpos
  refine ofLocalInverse _ _ _ _ (LinearInfiniteRTransform.localInverseAt t ht hb r hx)
    (LinearInfiniteRTransform.transform_inverse t ht hb.ne' r)
    (by simpa [LinearInfiniteRTransform.ops] using LinearInfiniteRTransform.deriv_pos t ht hb _) (Or.inl rfl) ?_
  exact ⟨by simpa [InverseRTransform.codomainExt, LinearInfiniteRTransform.domainExt, LinearInfiniteRTransform.ops] using hpos, trivial⟩

/-- `ExpRTransform`: the inverse maps radii above `rmin` to positive `x` (`0 < rmin`, `0 < b`). -/
theorem exp_inverse_pos (t : ExpRTransform ℝ) (ht : t.Admissible) (hmin : 0 < t.rmin) (hb : 0 < t.b) {r : ℝ}
    (hr : t.rmin < r) : 0 < t.inverse r := by
  rw [ExpRTransform.inverse_eq]
  have ha : 0 < ExpRTransform.alpha t := div_pos (ExpRTransform.log_ratio_pos t ht hmin) hb
  have h1 : 1 < r / t.rmin := (one_lt_div hmin).mpr hr
  exact div_pos (Real.log_pos h1) ha

theorem exp (t : ExpRTransform ℝ) (ht : t.Admissible) (hmin : 0 < t.rmin) (hb : 0 < t.b) (r : ℝ)
    (hr : Inside (InverseRTransform.domainExt t.domainExt t.codomainExt) r) :
    InverseWrapperAt t.ops (InverseRTransform.codomainExt t.domainExt t.codomainExt) 1 r := by
  have hlo : t.rmin < r := hr.1
  have hc : ExpRTransform.CoInterior t r := by show 0 < r; linarith
  have hpos := exp_inverse_pos t ht hmin hb hlo
  have hx : ExpRTransform.Interior t (t.inverse r) := by
    simpa [ExpRTransform.Interior, ExpRTransform.domain_lo] using hpos
  refine ofLocalInverse _ _ _ _ (ExpRTransform.localInverseAt t ht hmin hb r hc hx)
    (ExpRTransform.transform_inverse t ht hmin hb.ne' r hc)
    (by simpa [ExpRTransform.ops] using ExpRTransform.deriv_pos t ht hmin hb _) (Or.inl rfl) ?_
  exact ⟨by simpa [InverseRTransform.codomainExt, ExpRTransform.domainExt, ExpRTransform.ops] using hpos, trivial⟩

/-- `PowerRTransform`: the inverse maps radii above `rmin` to positive `x` (`0 < b`). -/
theorem power_inverse_pos (t : PowerRTransform ℝ) (ht : t.Admissible) (hb : 0 < t.b) {r : ℝ}
    (hr : t.rmin < r) : 0 < t.inverse r := by
  have hp := PowerRTransform.power_pos t ht hb
  rw [PowerRTransform.admissible_iff] at ht
  rw [PowerRTransform.inverse_eq]
  have h1 : 1 < r / t.rmin := (one_lt_div ht.2.1).mpr hr
  have h2 : 1 < (r / t.rmin) ^ (1 / PowerRTransform.power t) :=
    Real.one_lt_rpow h1 (one_div_pos.mpr hp)
  simp only
  linarith

theorem power (t : PowerRTransform ℝ) (ht : t.Admissible) (hb : 0 < t.b) (r : ℝ)
    (hr : Inside (InverseRTransform.domainExt t.domainExt t.codomainExt) r) :
    InverseWrapperAt t.ops (InverseRTransform.codomainExt t.domainExt t.codomainExt) 1 r := by
  have hlo : t.rmin < r := hr.1
  have hmin : 0 < t.rmin := ((PowerRTransform.admissible_iff t).mp ht).2.1
  have hc : PowerRTransform.CoInterior t r := by show 0 < r; linarith
  have hpos := power_inverse_pos t ht hb hlo
  have hx : PowerRTransform.Interior t (t.inverse r) := by
    rw [PowerRTransform.interior_iff]; exact hpos
  refine ofLocalInverse _ _ _ _ (PowerRTransform.localInverseAt t ht hb r hc hx)
    (PowerRTransform.transform_inverse t ht hb r hc)
    (by simpa [PowerRTransform.ops] using PowerRTransform.deriv_pos t ht hb _ hx) (Or.inl rfl) ?_
  exact ⟨by simpa [InverseRTransform.codomainExt, PowerRTransform.domainExt, PowerRTransform.ops] using hpos, trivial⟩

theorem hyperbolic (t : HyperbolicRTransform ℝ) (ht : t.Admissible) (r : ℝ)
    (hr : Inside (InverseRTransform.domainExt t.domainExt t.codomainExt) r) :
    InverseWrapperAt t.ops (InverseRTransform.codomainExt t.domainExt t.codomainExt) 1 r := by
  have hc : HyperbolicRTransform.CoInterior t r := by
    have := hr.1
    simpa [HyperbolicRTransform.CoInterior, HyperbolicRTransform.codomain_lo, InverseRTransform.domainExt,
      HyperbolicRTransform.codomainExt] using this
  have hx := HyperbolicRTransform.inverse_mem t ht r hc
  refine ofLocalInverse _ _ _ _ (HyperbolicRTransform.localInverseAt t ht r hc) (HyperbolicRTransform.transform_inverse t ht r hc)
    (by simpa [HyperbolicRTransform.ops] using HyperbolicRTransform.deriv_pos t ht _ hx) (Or.inl rfl) ?_
  rw [HyperbolicRTransform.interior_iff] at hx
  exact ⟨by simpa [InverseRTransform.codomainExt, HyperbolicRTransform.domainExt, HyperbolicRTransform.ops] using hx.1, trivial⟩

/-- The decreasing class: the wrapper's Jacobian is negative (`s = -1`). -/
theorem multiExp (t : MultiExpRTransform ℝ) (ht : t.Admissible) (hR : 0 < t.R) (r : ℝ)
    (hr : Inside (InverseRTransform.domainExt t.domainExt t.codomainExt) r) :
    InverseWrapperAt t.ops (InverseRTransform.codomainExt t.domainExt t.codomainExt) (-1) r := by
  have hc : MultiExpRTransform.CoInterior t r := hr.1
  have hx := MultiExpRTransform.inverse_mem t hR r hc
  refine ofLocalInverse _ _ _ _ (MultiExpRTransform.localInverseAt t ht hR r hc)
    (MultiExpRTransform.transform_inverse t ht hR.ne' r)
    (by have := MultiExpRTransform.deriv_neg t hR _ hx; show 0 < -1 * t.deriv (t.inverse r); linarith) (Or.inr rfl) ?_
  rw [MultiExpRTransform.interior_iff] at hx
  exact ⟨by simpa [InverseRTransform.codomainExt, MultiExpRTransform.domainExt, MultiExpRTransform.ops] using hx.1,
    by simpa [InverseRTransform.codomainExt, MultiExpRTransform.domainExt, MultiExpRTransform.ops] using hx.2⟩

theorem knowles (t : KnowlesRTransform ℝ) (ht : t.Admissible) (hR : 0 < t.R) (r : ℝ)
    (hr : Inside (InverseRTransform.domainExt t.domainExt t.codomainExt) r) :
    InverseWrapperAt t.ops (InverseRTransform.codomainExt t.domainExt t.codomainExt) 1 r := by
  have hc : KnowlesRTransform.CoInterior t r := hr.1
  have hx := KnowlesRTransform.inverse_mem t ht hR r hc
  refine ofLocalInverse _ _ _ _ (KnowlesRTransform.localInverseAt t ht hR r hc) (KnowlesRTransform.transform_inverse t ht hR r hc)
    (by simpa [KnowlesRTransform.ops] using KnowlesRTransform.deriv_pos t ht hR _ hx) (Or.inl rfl) ?_
  rw [KnowlesRTransform.interior_iff] at hx
  exact ⟨by simpa [InverseRTransform.codomainExt, KnowlesRTransform.domainExt, KnowlesRTransform.ops] using hx.1,
    by simpa [InverseRTransform.codomainExt, KnowlesRTransform.domainExt, KnowlesRTransform.ops] using hx.2⟩

theorem handy (t : HandyRTransform ℝ) (ht : t.Admissible) (hR : 0 < t.R) (r : ℝ)
    (hr : Inside (InverseRTransform.domainExt t.domainExt t.codomainExt) r) :
    InverseWrapperAt t.ops (InverseRTransform.codomainExt t.domainExt t.codomainExt) 1 r := by
  have hc : HandyRTransform.CoInterior t r := hr.1
  have hx := HandyRTransform.inverse_mem t hR r hc
  refine ofLocalInverse _ _ _ _ (HandyRTransform.localInverseAt t ht hR r hc) (HandyRTransform.transform_inverse t ht hR r hc)
    (by simpa [HandyRTransform.ops] using HandyRTransform.deriv_pos t ht hR _ hx) (Or.inl rfl) ?_
  rw [HandyRTransform.interior_iff] at hx
  exact ⟨by simpa [InverseRTransform.codomainExt, HandyRTransform.domainExt, HandyRTransform.ops] using hx.1,
    by simpa [InverseRTransform.codomainExt, HandyRTransform.domainExt, HandyRTransform.ops] using hx.2⟩

theorem handyMod (t : HandyModRTransform ℝ) (ht : t.Admissible) (hgap : (2 : ℝ) ^ t.m - 1 < t.rmax - t.rmin) (r : ℝ)
    (hr : Inside (InverseRTransform.domainExt t.domainExt t.codomainExt) r) :
    InverseWrapperAt t.ops (InverseRTransform.codomainExt t.domainExt t.codomainExt) 1 r := by
  have hc : HandyModRTransform.CoInterior t r := ⟨hr.1, hr.2⟩
  have hx := HandyModRTransform.inverse_mem t ht hgap r hc
  refine ofLocalInverse _ _ _ _ (HandyModRTransform.localInverseAt t ht hgap r hc)
    (HandyModRTransform.transform_inverse t ht hgap r hc)
    (by simpa [HandyModRTransform.ops] using HandyModRTransform.deriv_pos t ht hgap _ hx) (Or.inl rfl) ?_
  rw [HandyModRTransform.interior_iff] at hx
  exact ⟨by simpa [InverseRTransform.codomainExt, HandyModRTransform.domainExt, HandyModRTransform.ops] using hx.1,
    by simpa [InverseRTransform.codomainExt, HandyModRTransform.domainExt, HandyModRTransform.ops] using hx.2⟩

/-- Non-vacuity: `r = 2` is inside the domain `(1/10, ∞)` of `InverseRTransform(BeckeRTransform(1/10, 3/2))`. -/
example : ∃ t : BeckeRTransform ℝ, t.Admissible ∧ 0 < t.R ∧
    Inside (InverseRTransform.domainExt t.domainExt t.codomainExt) 2 :=
  ⟨⟨1 / 10, 3 / 2, true⟩, trivial, by norm_num,
    ⟨by simp [InverseRTransform.domainExt, BeckeRTransform.codomainExt]; norm_num, trivial⟩⟩

end GridVerif.C03.Composition

/-
  C03 — `HandyModRTransform(rmin, rmax, m, trim_inf)`:
    r(x) = (1+x)^m s / (T (1 - T + s) - (1+x)^m (s - T)) + rmin,   T = 2^m,  s = rmax - rmin,
  (-1, 1) → (rmin, rmax)  (both ends finite).

  Definitions: `Gen/RTransform.lean` (regenerated from rtransform.py on every run).
  The constructor checks `m > 0` and `rmin ≤ rmax` only.  It does *not* exclude parameters with a pole
  inside the domain: the common denominator `D(x) = T (1 - T + s) + (T - s) (1+x)^m` vanishes somewhere
  in `(-1, 1)` when `s < T - 1`, and for `s = T - 1` or `s = 0` the map is constant.  Therefore the theorems
  of this class carry the extra hypothesis
    `hgap : 2 ^ m - 1 < rmax - rmin`        (not checked by the constructor).
  The derivative identities are also stated in the stronger pointwise form `…_of_ne`, which needs only
  `D(x) ≠ 0` at the point in question (no admissibility, no `hgap`).
-/
import GridVerif.Lemmas.RTransform

namespace GridVerif.C03.HandyModRTransform
open GridVerif.Gen.RTransform GridVerif.C03 Filter Topology

/-- Interior of the declared domain `(-1, 1)`. -/
def Interior (t : HandyModRTransform ℝ) (x : ℝ) : Prop := t.domain_lo < x ∧ x < t.domain_hi

theorem interior_iff (t : HandyModRTransform ℝ) (x : ℝ) : Interior t x ↔ -1 < x ∧ x < 1 := by
  simp [Interior, HandyModRTransform.domain_lo, HandyModRTransform.domain_hi]

theorem transform_eq (t : HandyModRTransform ℝ) :
    t.transform = fun y => (1 + y) ^ t.m * (t.rmax - t.rmin) /
      ((2 : ℝ) ^ t.m * (1 - (2 : ℝ) ^ t.m + (t.rmax - t.rmin)) - (1 + y) ^ t.m * (t.rmax - t.rmin - (2 : ℝ) ^ t.m))
      + t.rmin := by
  funext y; simp only [HandyModRTransform.transform]; rt_norm

theorem deriv_eq (t : HandyModRTransform ℝ) :
    t.deriv = fun y =>
      -(t.m * (2 : ℝ) ^ t.m * ((2 : ℝ) ^ t.m - (t.rmax - t.rmin) - 1) * (t.rmax - t.rmin) * (1 + y) ^ (t.m - 1)) /
        ((2 : ℝ) ^ t.m * (1 - (2 : ℝ) ^ t.m + (t.rmax - t.rmin)) + ((2 : ℝ) ^ t.m - (t.rmax - t.rmin)) * (1 + y) ^ t.m) ^ 2 := by
  funext y; simp only [HandyModRTransform.deriv]; rt_norm

theorem deriv2_eq (t : HandyModRTransform ℝ) :
    t.deriv2 = fun y =>
      -(t.m * (2 : ℝ) ^ t.m * ((2 : ℝ) ^ t.m - (t.rmax - t.rmin) - 1) * (t.rmax - t.rmin) * (1 + y) ^ (t.m - 2) *
          (-(2 : ℝ) ^ t.m * (t.m - 1) * ((2 : ℝ) ^ t.m - (t.rmax - t.rmin) - 1)
            - (t.m + 1) * ((2 : ℝ) ^ t.m - (t.rmax - t.rmin)) * (1 + y) ^ t.m)) /
        ((2 : ℝ) ^ t.m * (1 - (2 : ℝ) ^ t.m + (t.rmax - t.rmin)) + ((2 : ℝ) ^ t.m - (t.rmax - t.rmin)) * (1 + y) ^ t.m) ^ 3 := by
  funext y; simp only [HandyModRTransform.deriv2]; rt_norm

theorem deriv3_eq (t : HandyModRTransform ℝ) :
    t.deriv3 = fun y =>
      -(t.m * (2 : ℝ) ^ t.m * (t.rmax - t.rmin) * ((2 : ℝ) ^ t.m - (t.rmax - t.rmin) - 1) * (1 + y) ^ (t.m - 3) *
          (((2 : ℝ) ^ t.m) ^ 2 * (t.m - 2) * (t.m - 1) * (1 - (2 : ℝ) ^ t.m + (t.rmax - t.rmin)) ^ 2
            + (2 : ℝ) ^ (t.m + 2) * (t.m - 1) * (t.m + 1) * ((2 : ℝ) ^ t.m - 1 - (t.rmax - t.rmin))
                * ((2 : ℝ) ^ t.m - (t.rmax - t.rmin)) * (1 + y) ^ t.m
            + (t.m + 2) * (t.m + 1) * ((2 : ℝ) ^ t.m - (t.rmax - t.rmin)) ^ 2 * (y + 1) ^ (2 * t.m))) /
        ((2 : ℝ) ^ t.m * (1 - (2 : ℝ) ^ t.m + (t.rmax - t.rmin)) + ((2 : ℝ) ^ t.m - (t.rmax - t.rmin)) * (1 + y) ^ t.m) ^ 4 := by
  funext y; simp only [HandyModRTransform.deriv3]; rt_norm

theorem inverse_eq (t : HandyModRTransform ℝ) :
    t.inverse = fun r =>
      2 * ((r - t.rmin) * (t.rmax - t.rmin - (2 : ℝ) ^ t.m + 1) /
            ((r - t.rmin) * (t.rmax - t.rmin - (2 : ℝ) ^ t.m) + (t.rmax - t.rmin))) ^ (1 / t.m) - 1 := by
  funext y; simp only [HandyModRTransform.inverse]; rt_norm

/-- (1a), pointwise form: `deriv` is the derivative of `transform` at every interior point where the
common denominator `D(x) = T (1 - T + s) + (T - s) (1+x)^m` does not vanish (no other condition). -/
theorem hasDerivAt_transform_of_ne (t : HandyModRTransform ℝ) (x : ℝ) (hx : Interior t x)
    (hD : (2 : ℝ) ^ t.m * (1 - (2 : ℝ) ^ t.m + (t.rmax - t.rmin))
      + ((2 : ℝ) ^ t.m - (t.rmax - t.rmin)) * (1 + x) ^ t.m ≠ 0) :
    HasDerivAt t.transform (t.deriv x) x := by
  rw [interior_iff] at hx
  have h0 : 0 < 1 + x := by linarith [hx.1]
  have h0' : 1 + x ≠ 0 := h0.ne'
  rw [transform_eq, deriv_eq]
  generalize (2 : ℝ) ^ t.m = T at *
  generalize t.rmax - t.rmin = s at *
  generalize t.m = m at *
  have hD' : T * (1 - T + s) - (1 + x) ^ m * (s - T) ≠ 0 := by
    intro h; apply hD; linarith
  have hq := hasDerivAt_one_add_rpow x m h0
  have h := ((hq.mul_const s).div ((hq.mul_const (s - T)).const_sub (T * (1 - T + s))) hD').add_const t.rmin
  refine h.congr_deriv ?_
  clear h hq
  simp only [rpow_sub_one' h0]
  generalize (1 + x) ^ m = q at *
  have e : T * (1 - T + s) - q * (s - T) = T * (1 - T + s) + (T - s) * q := by ring
  rw [e]
  field_simp
  ring

/-- (1b), pointwise form: `deriv2` is the derivative of `deriv` wherever `D(x) ≠ 0`. -/
theorem hasDerivAt_deriv_of_ne (t : HandyModRTransform ℝ) (x : ℝ) (hx : Interior t x)
    (hD : (2 : ℝ) ^ t.m * (1 - (2 : ℝ) ^ t.m + (t.rmax - t.rmin))
      + ((2 : ℝ) ^ t.m - (t.rmax - t.rmin)) * (1 + x) ^ t.m ≠ 0) :
    HasDerivAt t.deriv (t.deriv2 x) x := by
  rw [interior_iff] at hx
  have h0 : 0 < 1 + x := by linarith [hx.1]
  have h0' : 1 + x ≠ 0 := h0.ne'
  rw [deriv_eq, deriv2_eq]
  generalize (2 : ℝ) ^ t.m = T at *
  generalize t.rmax - t.rmin = s at *
  generalize t.m = m at *
  have hq := hasDerivAt_one_add_rpow x m h0
  have hq1 := hasDerivAt_one_add_rpow x (m - 1) h0
  have h := ((hq1.const_mul (m * T * (T - s - 1) * s)).neg).div
    (((hq.const_mul (T - s)).const_add (T * (1 - T + s))).pow 2) (pow_ne_zero 2 hD)
  refine h.congr_deriv ?_
  clear h hq hq1
  simp only [rpow_sub_one' h0, rpow_sub_two' h0, Pi.pow_apply, Pi.neg_apply]
  generalize (1 + x) ^ m = q at *
  field_simp
  ring

/-- (1c), pointwise form: `deriv3` is the derivative of `deriv2` wherever `D(x) ≠ 0`. -/
theorem hasDerivAt_deriv2_of_ne (t : HandyModRTransform ℝ) (x : ℝ) (hx : Interior t x)
    (hD : (2 : ℝ) ^ t.m * (1 - (2 : ℝ) ^ t.m + (t.rmax - t.rmin))
      + ((2 : ℝ) ^ t.m - (t.rmax - t.rmin)) * (1 + x) ^ t.m ≠ 0) :
    HasDerivAt t.deriv2 (t.deriv3 x) x := by
  rw [interior_iff] at hx
  have h0 : 0 < 1 + x := by linarith [hx.1]
  have h0' : 1 + x ≠ 0 := h0.ne'
  have hx1 : x + 1 = 1 + x := add_comm _ _
  rw [deriv2_eq, deriv3_eq]
  simp only [rpow_add_two' (by norm_num : (0 : ℝ) < 2), hx1, rpow_two_mul' h0.le]
  generalize (2 : ℝ) ^ t.m = T at *
  generalize t.rmax - t.rmin = s at *
  generalize t.m = m at *
  have hq := hasDerivAt_one_add_rpow x m h0
  have hq2 := hasDerivAt_one_add_rpow x (m - 2) h0
  have h := (((hq2.const_mul (m * T * (T - s - 1) * s)).mul
      ((hq.const_mul ((m + 1) * (T - s))).const_sub (-T * (m - 1) * (T - s - 1)))).neg).div
    (((hq.const_mul (T - s)).const_add (T * (1 - T + s))).pow 3) (pow_ne_zero 3 hD)
  refine h.congr_deriv ?_
  clear h hq hq2
  simp only [rpow_sub_one' h0, rpow_sub_two' h0, rpow_sub_three' h0, Pi.pow_apply, Pi.neg_apply, Pi.mul_apply]
  generalize (1 + x) ^ m = q at *
  field_simp
  ring

/-! ### Consequences of `hgap` -/

theorem m_pos (t : HandyModRTransform ℝ) (ht : t.Admissible) : 0 < t.m := by
  have := ht.1
  simpa using this

theorem one_lt_two_m (t : HandyModRTransform ℝ) (ht : t.Admissible) : 1 < (2 : ℝ) ^ t.m :=
  Real.one_lt_rpow (by norm_num) (m_pos t ht)

/-- Under `hgap` the common denominator is positive on the interior of the domain:
`D = (T - q) (1 - T + s) + q` with `0 < q = (1+x)^m < T`. -/
theorem denom_pos (t : HandyModRTransform ℝ) (ht : t.Admissible)
    (hgap : (2 : ℝ) ^ t.m - 1 < t.rmax - t.rmin) (x : ℝ) (hx : Interior t x) :
    0 < (2 : ℝ) ^ t.m * (1 - (2 : ℝ) ^ t.m + (t.rmax - t.rmin))
      + ((2 : ℝ) ^ t.m - (t.rmax - t.rmin)) * (1 + x) ^ t.m := by
  rw [interior_iff] at hx
  have h0 : 0 < 1 + x := by linarith [hx.1]
  have hq0 : 0 < (1 + x) ^ t.m := Real.rpow_pos_of_pos h0 _
  have hqT : (1 + x) ^ t.m < (2 : ℝ) ^ t.m :=
    Real.rpow_lt_rpow h0.le (by linarith [hx.2]) (m_pos t ht)
  generalize (2 : ℝ) ^ t.m = T at *
  generalize t.rmax - t.rmin = s at *
  generalize (1 + x) ^ t.m = q at *
  nlinarith [mul_pos (sub_pos.mpr hqT) (by linarith : 0 < 1 - T + s)]

/-- (1a) `deriv` is the derivative of `transform` on the interior of the domain.
Extra hypothesis `hgap` (not checked by the constructor; without it the map can have a pole inside `(-1, 1)`). -/
theorem hasDerivAt_transform (t : HandyModRTransform ℝ) (ht : t.Admissible)
    (hgap : (2 : ℝ) ^ t.m - 1 < t.rmax - t.rmin) (x : ℝ) (hx : Interior t x) :
    HasDerivAt t.transform (t.deriv x) x :=
  hasDerivAt_transform_of_ne t x hx (denom_pos t ht hgap x hx).ne'

/-- (1b) `deriv2` is the derivative of `deriv` (`hgap`: not checked by the constructor). -/
theorem hasDerivAt_deriv (t : HandyModRTransform ℝ) (ht : t.Admissible)
    (hgap : (2 : ℝ) ^ t.m - 1 < t.rmax - t.rmin) (x : ℝ) (hx : Interior t x) :
    HasDerivAt t.deriv (t.deriv2 x) x :=
  hasDerivAt_deriv_of_ne t x hx (denom_pos t ht hgap x hx).ne'

/-- (1c) `deriv3` is the derivative of `deriv2` (`hgap`: not checked by the constructor). -/
theorem hasDerivAt_deriv2 (t : HandyModRTransform ℝ) (ht : t.Admissible)
    (hgap : (2 : ℝ) ^ t.m - 1 < t.rmax - t.rmin) (x : ℝ) (hx : Interior t x) :
    HasDerivAt t.deriv2 (t.deriv3 x) x :=
  hasDerivAt_deriv2_of_ne t x hx (denom_pos t ht hgap x hx).ne'

example : ∃ t : HandyModRTransform ℝ, t.Admissible ∧ (2 : ℝ) ^ t.m - 1 < t.rmax - t.rmin ∧ Interior t (1 / 2) := by
  refine ⟨⟨1 / 10, 20, 3, true⟩, ⟨by norm_num, by norm_num⟩, ?_, by rw [interior_iff]; norm_num⟩
  have h8 : (2 : ℝ) ^ (3 : ℝ) = 8 := by
    rw [show (3 : ℝ) = ((3 : ℕ) : ℝ) by norm_num, Real.rpow_natCast]; norm_num
  show (2 : ℝ) ^ (3 : ℝ) - 1 < 20 - 1 / 10
  rw [h8]; norm_num

/-- (2a) The inverse undoes the forward map on the interior of the domain.
Extra hypothesis `hgap` (not checked by the constructor; for `s = 2^m - 1` or `s = 0` the map is constant,
for `s < 2^m - 1` it has a pole inside the domain). -/
theorem inverse_transform (t : HandyModRTransform ℝ) (ht : t.Admissible)
    (hgap : (2 : ℝ) ^ t.m - 1 < t.rmax - t.rmin) (x : ℝ) (hx : Interior t x) :
    t.inverse (t.transform x) = x := by
  have hD := denom_pos t ht hgap x hx
  have hm := m_pos t ht
  have hT := one_lt_two_m t ht
  rw [interior_iff] at hx
  have h0 : 0 < 1 + x := by linarith [hx.1]
  rw [transform_eq, inverse_eq]
  beta_reduce
  have fin : ∀ E : ℝ, E = ((1 + x) / 2) ^ t.m → 2 * E ^ (1 / t.m) - 1 = x := by
    intro E hE
    rw [hE, one_div, Real.rpow_rpow_inv (by positivity) hm.ne']
    ring
  apply fin
  rw [Real.div_rpow h0.le (by norm_num)]
  generalize (2 : ℝ) ^ t.m = T at *
  generalize t.rmax - t.rmin = s at *
  generalize (1 + x) ^ t.m = q at *
  have hD' : T * (1 - T + s) - q * (s - T) ≠ 0 := by
    have e : T * (1 - T + s) - q * (s - T) = T * (1 - T + s) + (T - s) * q := by ring
    rw [e]; exact hD.ne'
  have hs : s ≠ 0 := by intro h; rw [h] at hgap; linarith
  have hA : s - T + 1 ≠ 0 := by intro h; linarith
  have hT0 : T ≠ 0 := by intro h; rw [h] at hT; linarith
  have e1 : q * s / (T * (1 - T + s) - q * (s - T)) + t.rmin - t.rmin
      = q * s / (T * (1 - T + s) - q * (s - T)) := by ring
  have e2 : q * s / (T * (1 - T + s) - q * (s - T)) * (s - T) + s
      = s * T * (s - T + 1) / (T * (1 - T + s) - q * (s - T)) := by
    field_simp; ring
  rw [e1, e2]
  field_simp

/-- Interior of the codomain `(rmin, rmax)`. -/
def CoInterior (t : HandyModRTransform ℝ) (r : ℝ) : Prop := t.codomain_lo < r ∧ r < t.codomain_hi

/-- The argument of the `m`-th root in `inverse`: for `0 < u < s`, `1 < T`, `T - 1 < s` its denominator is
positive and its value lies in `(0, 1)`. -/
theorem root_arg_bounds {T s u : ℝ} (hgap : T - 1 < s) (hu : 0 < u) (hus : u < s) :
    0 < u * (s - T) + s ∧ 0 < u * (s - T + 1) / (u * (s - T) + s) ∧ u * (s - T + 1) / (u * (s - T) + s) < 1 := by
  have h1 : 0 < u * (s - T + 1) := mul_pos hu (by linarith)
  have hE : 0 < u * (s - T) + s := by nlinarith
  refine ⟨hE, div_pos h1 hE, ?_⟩
  rw [div_lt_one hE]; nlinarith

/-- (2b) The forward map undoes the inverse on the interior of the codomain
(`hgap`: not checked by the constructor). -/
theorem transform_inverse (t : HandyModRTransform ℝ) (ht : t.Admissible)
    (hgap : (2 : ℝ) ^ t.m - 1 < t.rmax - t.rmin) (r : ℝ) (hr : CoInterior t r) :
    t.transform (t.inverse r) = r := by
  have hm := m_pos t ht
  have hT := one_lt_two_m t ht
  simp only [CoInterior, HandyModRTransform.codomain_lo, HandyModRTransform.codomain_hi] at hr
  obtain ⟨u, rfl⟩ : ∃ u, r = u + t.rmin := ⟨r - t.rmin, by ring⟩
  have hu : 0 < u := by linarith [hr.1]
  have hus : u < t.rmax - t.rmin := by linarith [hr.2]
  rw [transform_eq, inverse_eq]
  simp only [add_sub_cancel_right]
  obtain ⟨hE, hw0, -⟩ := root_arg_bounds hgap hu hus
  have hq : (1 + (2 * (u * (t.rmax - t.rmin - (2 : ℝ) ^ t.m + 1) /
      (u * (t.rmax - t.rmin - (2 : ℝ) ^ t.m) + (t.rmax - t.rmin))) ^ (1 / t.m) - 1)) ^ t.m
      = (2 : ℝ) ^ t.m * (u * (t.rmax - t.rmin - (2 : ℝ) ^ t.m + 1) /
          (u * (t.rmax - t.rmin - (2 : ℝ) ^ t.m) + (t.rmax - t.rmin))) := by
    rw [show ∀ a : ℝ, 1 + (2 * a - 1) = 2 * a from fun a => by ring,
      Real.mul_rpow (by norm_num) (Real.rpow_nonneg hw0.le _), one_div, Real.rpow_inv_rpow hw0.le hm.ne']
  rw [hq]
  generalize (2 : ℝ) ^ t.m = T at *
  generalize t.rmax - t.rmin = s at *
  have hE' : u * (s - T) + s ≠ 0 := hE.ne'
  have hs : s ≠ 0 := by intro h; rw [h] at hgap; linarith
  have hA : s - T + 1 ≠ 0 := by intro h; linarith
  have hT0 : T ≠ 0 := by intro h; rw [h] at hT; linarith
  have e : T * (1 - T + s) - T * (u * (s - T + 1) / (u * (s - T) + s)) * (s - T)
      = T * (s - T + 1) * s / (u * (s - T) + s) := by
    field_simp; ring
  rw [e]
  field_simp

/-- The inverse maps the interior of the codomain into the interior of the domain
(`hgap`: not checked by the constructor). -/
theorem inverse_mem (t : HandyModRTransform ℝ) (ht : t.Admissible)
    (hgap : (2 : ℝ) ^ t.m - 1 < t.rmax - t.rmin) (r : ℝ) (hr : CoInterior t r) :
    Interior t (t.inverse r) := by
  have hm := m_pos t ht
  simp only [CoInterior, HandyModRTransform.codomain_lo, HandyModRTransform.codomain_hi] at hr
  have hu : 0 < r - t.rmin := by linarith [hr.1]
  have hus : r - t.rmin < t.rmax - t.rmin := by linarith [hr.2]
  obtain ⟨-, hw0, hw1⟩ := root_arg_bounds hgap hu hus
  have hp : 0 < 1 / t.m := by positivity
  rw [interior_iff, inverse_eq]
  have h1 := Real.rpow_pos_of_pos hw0 (1 / t.m)
  have h2 := Real.rpow_lt_one hw0.le hw1 hp
  constructor <;> linarith

/-- (4a) The derivative is positive on the interior (`hgap`: not checked by the constructor;
for `s < 2^m - 1` the derivative is negative wherever it is defined). -/
theorem deriv_pos (t : HandyModRTransform ℝ) (ht : t.Admissible)
    (hgap : (2 : ℝ) ^ t.m - 1 < t.rmax - t.rmin) (x : ℝ) (hx : Interior t x) : 0 < t.deriv x := by
  have hD := denom_pos t ht hgap x hx
  have hm := m_pos t ht
  have hT := one_lt_two_m t ht
  rw [interior_iff] at hx
  have h0 : 0 < 1 + x := by linarith [hx.1]
  have hq1 : 0 < (1 + x) ^ (t.m - 1) := Real.rpow_pos_of_pos h0 _
  rw [deriv_eq]
  beta_reduce
  generalize (2 : ℝ) ^ t.m = T at *
  generalize t.rmax - t.rmin = s at *
  generalize (1 + x) ^ (t.m - 1) = q1 at *
  have hs : 0 < s := by linarith
  have hA : 0 < 1 - T + s := by linarith
  have hT0 : 0 < T := by linarith
  have e : -(t.m * T * (T - s - 1) * s * q1) = t.m * T * (1 - T + s) * s * q1 := by ring
  rw [e]
  positivity

/-- (4b) The forward map is strictly increasing on the interior of its domain
(`hgap`: not checked by the constructor). -/
theorem strictMonoOn_transform (t : HandyModRTransform ℝ) (ht : t.Admissible)
    (hgap : (2 : ℝ) ^ t.m - 1 < t.rmax - t.rmin) :
    StrictMonoOn t.transform (Set.Ioo t.domain_lo t.domain_hi) :=
  strictMonoOn_of_hasDerivAt_pos (convex_Ioo _ _) (fun x hx => hasDerivAt_transform t ht hgap x hx)
    (fun x hx => deriv_pos t ht hgap x hx)

/-- (4c) End point: the lower end of the domain goes to the lower end of the codomain
(`0 ^ m = 0` because `m ≠ 0`).  `hgap` (not checked by the constructor) is not needed for the algebra but
is kept so that the statement does not cover the case `s = 2^m - 1`, where the code evaluates `0 / 0`. -/
theorem transform_domain_lo (t : HandyModRTransform ℝ) (ht : t.Admissible)
    (_hgap : (2 : ℝ) ^ t.m - 1 < t.rmax - t.rmin) : t.transform t.domain_lo = t.codomain_lo := by
  have hm := m_pos t ht
  rw [transform_eq]
  simp [HandyModRTransform.domain_lo, HandyModRTransform.codomain_lo, Real.zero_rpow hm.ne']

/-- (4d) End point: the upper end of the domain goes to the upper end of the codomain
(every parameter set: the denominator at `x = 1` is `2^m ≠ 0`). -/
theorem transform_domain_hi (t : HandyModRTransform ℝ) : t.transform t.domain_hi = t.codomain_hi := by
  have hT : (2 : ℝ) ^ t.m ≠ 0 := (Real.rpow_pos_of_pos (by norm_num) _).ne'
  rw [transform_eq]
  simp only [HandyModRTransform.domain_hi, HandyModRTransform.codomain_hi, Nat.cast_one]
  rw [show (1 : ℝ) + 1 = 2 by norm_num]
  generalize (2 : ℝ) ^ t.m = T at *
  have e : T * (1 - T + (t.rmax - t.rmin)) - T * (t.rmax - t.rmin - T) = T := by ring
  rw [e]
  field_simp
  ring

/-- (3) The inverse-derivative package applies at every interior point of the codomain
(`hgap`: not checked by the constructor). -/
theorem localInverseAt (t : HandyModRTransform ℝ) (ht : t.Admissible)
    (hgap : (2 : ℝ) ^ t.m - 1 < t.rmax - t.rmin) (r : ℝ) (hr : CoInterior t r) :
    LocalInverseAt t.ops r := by
  have hx := inverse_mem t ht hgap r hr
  have hr' := hr
  simp only [CoInterior, HandyModRTransform.codomain_lo, HandyModRTransform.codomain_hi] at hr'
  refine ⟨hasDerivAt_transform t ht hgap _ hx, hasDerivAt_deriv t ht hgap _ hx, hasDerivAt_deriv2 t ht hgap _ hx,
    (deriv_pos t ht hgap _ hx).ne', ?_, ?_⟩
  · show ContinuousAt t.inverse r
    rw [inverse_eq]
    have hu : 0 < r - t.rmin := by linarith [hr'.1]
    have hus : r - t.rmin < t.rmax - t.rmin := by linarith [hr'.2]
    obtain ⟨hE, hw0, -⟩ := root_arg_bounds hgap hu hus
    have hf : ContinuousAt (fun r : ℝ => (r - t.rmin) * (t.rmax - t.rmin - (2 : ℝ) ^ t.m + 1) /
        ((r - t.rmin) * (t.rmax - t.rmin - (2 : ℝ) ^ t.m) + (t.rmax - t.rmin))) r :=
      ContinuousAt.div (by fun_prop) (by fun_prop) hE.ne'
    exact (continuousAt_const.mul (hf.rpow_const (Or.inl hw0.ne'))).sub continuousAt_const
  · show ∀ᶠ y in 𝓝 r, t.transform (t.inverse y) = y
    filter_upwards [Ioo_mem_nhds hr'.1 hr'.2] with y hy
    exact transform_inverse t ht hgap y hy

/-- (3) `deriv_inverse`, `deriv2_inverse`, `deriv3_inverse` (inherited from `BaseTransform`; the same
expressions are `InverseRTransform(t).deriv/deriv2/deriv3`) are the first three derivatives of `inverse`
on the interior of the codomain (`hgap`: not checked by the constructor). -/
theorem inverse_derivs (t : HandyModRTransform ℝ) (ht : t.Admissible)
    (hgap : (2 : ℝ) ^ t.m - 1 < t.rmax - t.rmin) (r : ℝ) (hr : CoInterior t r) :
    HasDerivAt t.inverse (BaseTransform.deriv_inverse t.ops r) r ∧
    HasDerivAt (BaseTransform.deriv_inverse t.ops) (BaseTransform.deriv2_inverse t.ops r) r ∧
    HasDerivAt (BaseTransform.deriv2_inverse t.ops) (BaseTransform.deriv3_inverse t.ops r) r :=
  deriv_inverse_package t.ops r (localInverseAt t ht hgap r hr)

example : ∃ t : HandyModRTransform ℝ, t.Admissible ∧ (2 : ℝ) ^ t.m - 1 < t.rmax - t.rmin ∧ CoInterior t 2 := by
  refine ⟨⟨1 / 10, 20, 5 / 2, true⟩, ⟨by norm_num, by norm_num⟩, ?_,
    by simp only [CoInterior, HandyModRTransform.codomain_lo, HandyModRTransform.codomain_hi]; norm_num⟩
  have h8 : (2 : ℝ) ^ (5 / 2 : ℝ) < 8 := by
    have h := Real.rpow_lt_rpow_of_exponent_lt (by norm_num : (1 : ℝ) < 2) (by norm_num : (5 / 2 : ℝ) < 3)
    rw [show (3 : ℝ) = ((3 : ℕ) : ℝ) by norm_num, Real.rpow_natCast] at h
    linarith
  show (2 : ℝ) ^ (5 / 2 : ℝ) - 1 < 20 - 1 / 10
  linarith

end GridVerif.C03.HandyModRTransform

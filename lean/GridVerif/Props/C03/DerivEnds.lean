/-
  C03 (4), Jacobian at the singular end of the domain, over the reals (generated definitions of `Gen/RTransform.lean`):
  the first derivative grows beyond every bound where the forward map does — `BeckeRTransform.deriv → +∞` as `x → 1⁻`,
  `MultiExpRTransform.deriv → -∞` as `x → -1⁺` (`0 < R`).  These are the limits behind the `inf` / `1e16` weights that
  `transform_1d_grid` (C04) produces for a rule with a node on the singular end; the *values* the code returns at the
  end itself are in `Props/C03/Trimming.lean` (`becke_deriv_domain_hi`).
-/
import GridVerif.Props.C03.BeckeRTransform
import GridVerif.Props.C03.MultiExpRTransform

namespace GridVerif.C03.DerivEnds
open GridVerif.Gen.RTransform GridVerif.C03 Filter Topology

/-- (4) `BeckeRTransform.deriv x = 2R/(1-x)² → +∞` as `x → 1⁻` (`0 < R`). -/
theorem becke_tendsto_deriv_domain_hi (t : BeckeRTransform ℝ) (hR : 0 < t.R) :
    Tendsto t.deriv (𝓝[<] t.domain_hi) atTop := by
  rw [BeckeRTransform.deriv_eq]
  simp only [BeckeRTransform.domain_hi, Nat.cast_one]
  have h1 : Tendsto (fun y : ℝ => (1 - y)⁻¹) (𝓝[<] 1) atTop := tendsto_one_sub_nhdsLT.inv_tendsto_nhdsGT_zero
  have h2 : Tendsto (fun y : ℝ => ((1 - y)⁻¹) ^ 2) (𝓝[<] 1) atTop := (tendsto_pow_atTop (by norm_num)).comp h1
  have h3 := h2.const_mul_atTop (show (0:ℝ) < 2 * t.R by positivity)
  refine h3.congr ?_
  intro y
  rw [div_eq_mul_inv, inv_pow]

/-- (4) `MultiExpRTransform.deriv x = -R/(1+x) → -∞` as `x → -1⁺` (`0 < R`): the decreasing map is infinitely
steep at its singular end. -/
theorem multiExp_tendsto_deriv_domain_lo (t : MultiExpRTransform ℝ) (hR : 0 < t.R) :
    Tendsto t.deriv (𝓝[>] t.domain_lo) atBot := by
  rw [MultiExpRTransform.deriv_eq]
  simp only [MultiExpRTransform.domain_lo, Nat.cast_one]
  have h1 : Tendsto (fun y : ℝ => (1 + y)⁻¹) (𝓝[>] (-1)) atTop := tendsto_one_add_nhdsGT.inv_tendsto_nhdsGT_zero
  have h3 := h1.const_mul_atTop_of_neg (show -t.R < 0 by linarith)
  refine h3.congr ?_
  intro y
  rw [div_eq_mul_inv]

example : ∃ t : BeckeRTransform ℝ, 0 < t.R := ⟨⟨1 / 10, 3 / 2, true⟩, by norm_num⟩

end GridVerif.C03.DerivEnds

/-
  C03 — `LinearFiniteRTransform(rmin, rmax)`:  r(x) = (1+x)(rmax-rmin)/2 + rmin,  (-1, 1) → (rmin, rmax).

  Definitions: `Gen/RTransform.lean` (regenerated from rtransform.py on every run).
  The constructor has no guard at all: `rmin < rmax` is *not* checked by the code.  The derivative
  identities and the end-point values hold for every pair; the round trips need `rmin ≠ rmax`,
  monotonicity needs `rmin < rmax` (explicit hypotheses).
-/
import GridVerif.Lemmas.RTransform

namespace GridVerif.C03.LinearFiniteRTransform
open GridVerif.Gen.RTransform GridVerif.C03 Filter Topology

/-- Interior of the declared domain `(-1, 1)`. -/
def Interior (t : LinearFiniteRTransform ℝ) (x : ℝ) : Prop := t.domain_lo < x ∧ x < t.domain_hi

theorem interior_iff (t : LinearFiniteRTransform ℝ) (x : ℝ) : Interior t x ↔ -1 < x ∧ x < 1 := by
  simp [Interior, LinearFiniteRTransform.domain_lo, LinearFiniteRTransform.domain_hi]

/-- Interior of the codomain `(rmin, rmax)`. -/
def CoInterior (t : LinearFiniteRTransform ℝ) (r : ℝ) : Prop := t.codomain_lo < r ∧ r < t.codomain_hi

theorem transform_eq (t : LinearFiniteRTransform ℝ) :
    t.transform = fun y => (1 + y) * (t.rmax - t.rmin) / 2 + t.rmin := by
  funext y; simp only [LinearFiniteRTransform.transform]; rt_norm

theorem deriv_eq (t : LinearFiniteRTransform ℝ) : t.deriv = fun _ => (t.rmax - t.rmin) / 2 := by
  funext y; simp only [LinearFiniteRTransform.deriv]; rt_norm; ring

theorem deriv2_eq (t : LinearFiniteRTransform ℝ) : t.deriv2 = fun _ => 0 := by
  funext y; simp only [LinearFiniteRTransform.deriv2]; rt_norm

theorem deriv3_eq (t : LinearFiniteRTransform ℝ) : t.deriv3 = fun _ => 0 := by
  funext y; simp only [LinearFiniteRTransform.deriv3]; rt_norm

theorem inverse_eq (t : LinearFiniteRTransform ℝ) :
    t.inverse = fun r => (2 * r - (t.rmax + t.rmin)) / (t.rmax - t.rmin) := by
  funext y; simp only [LinearFiniteRTransform.inverse]; rt_norm

/-- (1a) `deriv` is the derivative of `transform` (everywhere, every parameter pair). -/
theorem hasDerivAt_transform (t : LinearFiniteRTransform ℝ) (_ht : t.Admissible) (x : ℝ) (_hx : Interior t x) :
    HasDerivAt t.transform (t.deriv x) x := by
  rw [transform_eq, deriv_eq]
  have h := ((((hasDerivAt_one_add x).mul_const (t.rmax - t.rmin)).div_const 2).add_const t.rmin)
  refine h.congr_deriv ?_
  ring

/-- (1b) `deriv2` is the derivative of `deriv`. -/
theorem hasDerivAt_deriv (t : LinearFiniteRTransform ℝ) (_ht : t.Admissible) (x : ℝ) (_hx : Interior t x) :
    HasDerivAt t.deriv (t.deriv2 x) x := by
  rw [deriv_eq, deriv2_eq]; exact hasDerivAt_const x _

/-- (1c) `deriv3` is the derivative of `deriv2`. -/
theorem hasDerivAt_deriv2 (t : LinearFiniteRTransform ℝ) (_ht : t.Admissible) (x : ℝ) (_hx : Interior t x) :
    HasDerivAt t.deriv2 (t.deriv3 x) x := by
  rw [deriv2_eq, deriv3_eq]; exact hasDerivAt_const x _

/-- The `isinstance(x, Number)` branches of `deriv`, `deriv2`, `deriv3` compute the same values as the array branches. -/
theorem scalar_branch_eq (t : LinearFiniteRTransform ℝ) (x : ℝ) :
    t.deriv_scalar x = t.deriv x ∧ t.deriv2_scalar x = t.deriv2 x ∧ t.deriv3_scalar x = t.deriv3 x := by
  rw [deriv_eq]
  refine ⟨?_, rfl, rfl⟩
  simp only [LinearFiniteRTransform.deriv_scalar]; rt_norm

example : ∃ t : LinearFiniteRTransform ℝ, t.Admissible ∧ t.rmin < t.rmax ∧ Interior t (1 / 2) ∧ CoInterior t 2 :=
  ⟨⟨1 / 10, 5⟩, trivial, by norm_num, by rw [interior_iff]; norm_num,
    by simp [CoInterior, LinearFiniteRTransform.codomain_lo, LinearFiniteRTransform.codomain_hi]; norm_num⟩

/-- (2a) The inverse undoes the forward map. Extra hypothesis `rmin ≠ rmax` (not checked by the constructor). -/
theorem inverse_transform (t : LinearFiniteRTransform ℝ) (_ht : t.Admissible) (hne : t.rmin ≠ t.rmax) (x : ℝ)
    (_hx : Interior t x) : t.inverse (t.transform x) = x := by
  have h1 : t.rmax - t.rmin ≠ 0 := sub_ne_zero.mpr (Ne.symm hne)
  rw [transform_eq, inverse_eq]
  field_simp; ring

/-- (2b) The forward map undoes the inverse (`rmin ≠ rmax`). -/
theorem transform_inverse (t : LinearFiniteRTransform ℝ) (_ht : t.Admissible) (hne : t.rmin ≠ t.rmax) (r : ℝ)
    (_hr : CoInterior t r) : t.transform (t.inverse r) = r := by
  have h1 : t.rmax - t.rmin ≠ 0 := sub_ne_zero.mpr (Ne.symm hne)
  rw [transform_eq, inverse_eq]
  field_simp; ring

/-- The inverse maps the interior of the codomain into the interior of the domain (`rmin < rmax`). -/
theorem inverse_mem (t : LinearFiniteRTransform ℝ) (hlt : t.rmin < t.rmax) (r : ℝ) (hr : CoInterior t r) :
    Interior t (t.inverse r) := by
  simp only [CoInterior, LinearFiniteRTransform.codomain_lo, LinearFiniteRTransform.codomain_hi] at hr
  rw [interior_iff, inverse_eq]
  have h1 : 0 < t.rmax - t.rmin := sub_pos.mpr hlt
  constructor
  · rw [lt_div_iff₀ h1]; linarith [hr.1]
  · rw [div_lt_one h1]; linarith [hr.2]

/-- (4a) The derivative is positive (`rmin < rmax`, not checked by the constructor). -/
theorem deriv_pos (t : LinearFiniteRTransform ℝ) (hlt : t.rmin < t.rmax) (x : ℝ) : 0 < t.deriv x := by
  rw [deriv_eq]; simp only; linarith [hlt]

/-- (4b) Strictly increasing on the interior of the domain (`rmin < rmax`). -/
theorem strictMonoOn_transform (t : LinearFiniteRTransform ℝ) (ht : t.Admissible) (hlt : t.rmin < t.rmax) :
    StrictMonoOn t.transform (Set.Ioo t.domain_lo t.domain_hi) :=
  strictMonoOn_of_hasDerivAt_pos (convex_Ioo _ _) (fun x hx => hasDerivAt_transform t ht x hx)
    (fun x _ => deriv_pos t hlt x)

/-- (4c) End points: `-1 ↦ rmin`. -/
theorem transform_domain_lo (t : LinearFiniteRTransform ℝ) : t.transform t.domain_lo = t.codomain_lo := by
  rw [transform_eq]; simp [LinearFiniteRTransform.domain_lo, LinearFiniteRTransform.codomain_lo]

/-- (4c) End points: `1 ↦ rmax`. -/
theorem transform_domain_hi (t : LinearFiniteRTransform ℝ) : t.transform t.domain_hi = t.codomain_hi := by
  rw [transform_eq]; simp only [LinearFiniteRTransform.domain_hi, LinearFiniteRTransform.codomain_hi, Nat.cast_one]
  ring

/-- (3) The inverse-derivative package applies at every interior point of the codomain (`rmin < rmax`). -/
theorem localInverseAt (t : LinearFiniteRTransform ℝ) (ht : t.Admissible) (hlt : t.rmin < t.rmax) (r : ℝ)
    (hr : CoInterior t r) : LocalInverseAt t.ops r := by
  have hx := inverse_mem t hlt r hr
  refine ⟨hasDerivAt_transform t ht _ hx, hasDerivAt_deriv t ht _ hx, hasDerivAt_deriv2 t ht _ hx,
    (deriv_pos t hlt (t.inverse r)).ne', ?_, ?_⟩
  · show ContinuousAt t.inverse r
    rw [inverse_eq]; fun_prop
  · show ∀ᶠ y in 𝓝 r, t.transform (t.inverse y) = y
    have hopen : IsOpen {y : ℝ | t.rmin < y ∧ y < t.rmax} := isOpen_Ioo
    filter_upwards [hopen.mem_nhds hr] with y hy
    exact transform_inverse t ht hlt.ne y hy

/-- (3) `deriv_inverse`, `deriv2_inverse`, `deriv3_inverse` are the first three derivatives of `inverse`. -/
theorem inverse_derivs (t : LinearFiniteRTransform ℝ) (ht : t.Admissible) (hlt : t.rmin < t.rmax) (r : ℝ)
    (hr : CoInterior t r) :
    HasDerivAt t.inverse (BaseTransform.deriv_inverse t.ops r) r ∧
    HasDerivAt (BaseTransform.deriv_inverse t.ops) (BaseTransform.deriv2_inverse t.ops r) r ∧
    HasDerivAt (BaseTransform.deriv2_inverse t.ops) (BaseTransform.deriv3_inverse t.ops r) r :=
  deriv_inverse_package t.ops r (localInverseAt t ht hlt r hr)

end GridVerif.C03.LinearFiniteRTransform

/-
  C03 — `BeckeRTransform(rmin, R, trim_inf)`:  r(x) = R (1+x)/(1-x) + rmin,  (-1, 1) → (rmin, ∞).

  Definitions: `Gen/RTransform.lean` (regenerated from rtransform.py on every run).
  The constructor has no guard.  `R ≠ 0` / `0 < R` is *not* checked by the code; the theorems
  that need it carry it as an explicit hypothesis (derivative identities hold for every `R`).
-/
import GridVerif.Lemmas.RTransform

namespace GridVerif.C03.BeckeRTransform
open GridVerif.Gen.RTransform GridVerif.C03 Filter Topology

/-- Interior of the declared domain `(-1, 1)`. -/
def Interior (t : BeckeRTransform ℝ) (x : ℝ) : Prop := t.domain_lo < x ∧ x < t.domain_hi

theorem interior_iff (t : BeckeRTransform ℝ) (x : ℝ) : Interior t x ↔ -1 < x ∧ x < 1 := by
  simp [Interior, BeckeRTransform.domain_lo, BeckeRTransform.domain_hi]

theorem transform_eq (t : BeckeRTransform ℝ) :
    t.transform = fun y => t.R * (1 + y) / (1 - y) + t.rmin := by
  funext y; simp only [BeckeRTransform.transform]; rt_norm

theorem deriv_eq (t : BeckeRTransform ℝ) : t.deriv = fun y => 2 * t.R / (1 - y) ^ 2 := by
  funext y; simp only [BeckeRTransform.deriv]; rt_norm

theorem deriv2_eq (t : BeckeRTransform ℝ) : t.deriv2 = fun y => 4 * t.R / (1 - y) ^ 3 := by
  funext y; simp only [BeckeRTransform.deriv2]; rt_norm

theorem deriv3_eq (t : BeckeRTransform ℝ) : t.deriv3 = fun y => 12 * t.R / (1 - y) ^ 4 := by
  funext y; simp only [BeckeRTransform.deriv3]; rt_norm

theorem inverse_eq (t : BeckeRTransform ℝ) :
    t.inverse = fun r => (r - t.rmin - t.R) / (r - t.rmin + t.R) := by
  funext y; simp only [BeckeRTransform.inverse]

/-- (1a) `deriv` is the derivative of `transform` on the interior of the domain. -/
theorem hasDerivAt_transform (t : BeckeRTransform ℝ) (_ht : t.Admissible) (x : ℝ) (hx : Interior t x) :
    HasDerivAt t.transform (t.deriv x) x := by
  rw [interior_iff] at hx
  have h1 : 1 - x ≠ 0 := by linarith [hx.2]
  rw [transform_eq, deriv_eq]
  have h := (((hasDerivAt_one_add x).const_mul t.R).div (hasDerivAt_one_sub x) h1).add_const t.rmin
  refine h.congr_deriv ?_
  deriv_finish

/-- (1b) `deriv2` is the derivative of `deriv`. -/
theorem hasDerivAt_deriv (t : BeckeRTransform ℝ) (_ht : t.Admissible) (x : ℝ) (hx : Interior t x) :
    HasDerivAt t.deriv (t.deriv2 x) x := by
  rw [interior_iff] at hx
  have h1 : 1 - x ≠ 0 := by linarith [hx.2]
  rw [deriv_eq, deriv2_eq]
  have h := (hasDerivAt_const x (2 * t.R)).div ((hasDerivAt_one_sub x).pow 2) (pow_ne_zero 2 h1)
  refine h.congr_deriv ?_
  deriv_finish

/-- (1c) `deriv3` is the derivative of `deriv2`. -/
theorem hasDerivAt_deriv2 (t : BeckeRTransform ℝ) (_ht : t.Admissible) (x : ℝ) (hx : Interior t x) :
    HasDerivAt t.deriv2 (t.deriv3 x) x := by
  rw [interior_iff] at hx
  have h1 : 1 - x ≠ 0 := by linarith [hx.2]
  rw [deriv2_eq, deriv3_eq]
  have h := (hasDerivAt_const x (4 * t.R)).div ((hasDerivAt_one_sub x).pow 3) (pow_ne_zero 3 h1)
  refine h.congr_deriv ?_
  deriv_finish

example : ∃ t : BeckeRTransform ℝ, t.Admissible ∧ Interior t (1 / 2) :=
  ⟨⟨1 / 10, 3 / 2, true⟩, trivial, by rw [interior_iff]; norm_num⟩

/-- (2a) The inverse undoes the forward map on the interior of the domain.
Extra hypothesis `R ≠ 0` (not checked by the constructor; for `R = 0` the map is constant). -/
theorem inverse_transform (t : BeckeRTransform ℝ) (_ht : t.Admissible) (hR : t.R ≠ 0) (x : ℝ) (hx : Interior t x) :
    t.inverse (t.transform x) = x := by
  rw [interior_iff] at hx
  have h1 : 1 - x ≠ 0 := by linarith [hx.2]
  rw [transform_eq, inverse_eq]
  have e1 : t.R * (1 + x) / (1 - x) + t.rmin - t.rmin - t.R = 2 * t.R * x / (1 - x) := by field_simp; ring
  have e2 : t.R * (1 + x) / (1 - x) + t.rmin - t.rmin + t.R = 2 * t.R / (1 - x) := by field_simp; ring
  simp only [e1, e2]
  field_simp

/-- Interior of the codomain `(rmin, ∞)`. -/
def CoInterior (t : BeckeRTransform ℝ) (r : ℝ) : Prop := t.codomain_lo < r

/-- (2b) The forward map undoes the inverse on the interior of the codomain (`0 < R`, not checked by the code). -/
theorem transform_inverse (t : BeckeRTransform ℝ) (_ht : t.Admissible) (hR : 0 < t.R) (r : ℝ) (hr : CoInterior t r) :
    t.transform (t.inverse r) = r := by
  simp only [CoInterior, BeckeRTransform.codomain_lo] at hr
  have h1 : r - t.rmin + t.R ≠ 0 := by linarith
  rw [transform_eq, inverse_eq]
  have e1 : 1 + (r - t.rmin - t.R) / (r - t.rmin + t.R) = 2 * (r - t.rmin) / (r - t.rmin + t.R) := by
    field_simp; ring
  have e2 : 1 - (r - t.rmin - t.R) / (r - t.rmin + t.R) = 2 * t.R / (r - t.rmin + t.R) := by
    field_simp; ring
  simp only [e1, e2]
  field_simp
  ring

/-- The inverse maps the interior of the codomain into the interior of the domain. -/
theorem inverse_mem (t : BeckeRTransform ℝ) (hR : 0 < t.R) (r : ℝ) (hr : CoInterior t r) :
    Interior t (t.inverse r) := by
  simp only [CoInterior, BeckeRTransform.codomain_lo] at hr
  rw [interior_iff, inverse_eq]
  have h1 : 0 < r - t.rmin + t.R := by linarith
  constructor
  · rw [lt_div_iff₀ h1]; linarith
  · rw [div_lt_one h1]; linarith

/-- (4a) The derivative is positive on the interior (`0 < R`). -/
theorem deriv_pos (t : BeckeRTransform ℝ) (hR : 0 < t.R) (x : ℝ) (hx : Interior t x) : 0 < t.deriv x := by
  rw [interior_iff] at hx
  rw [deriv_eq]
  have h1 : 0 < 1 - x := by linarith [hx.2]
  positivity

/-- (4b) The forward map is strictly increasing on the interior of its domain (`0 < R`). -/
theorem strictMonoOn_transform (t : BeckeRTransform ℝ) (ht : t.Admissible) (hR : 0 < t.R) :
    StrictMonoOn t.transform (Set.Ioo t.domain_lo t.domain_hi) :=
  strictMonoOn_of_hasDerivAt_pos (convex_Ioo _ _) (fun x hx => hasDerivAt_transform t ht x hx)
    (fun x hx => deriv_pos t hR x hx)

/-- (4c) End point: the lower end of the domain goes to the lower end of the codomain (every `R`). -/
theorem transform_domain_lo (t : BeckeRTransform ℝ) : t.transform t.domain_lo = t.codomain_lo := by
  rw [transform_eq]; simp [BeckeRTransform.domain_lo, BeckeRTransform.codomain_lo]

/-- (4d) End point: towards the upper end of the domain the map grows beyond every bound (`0 < R`);
the code represents the value at `x = 1` by `1e16` (trim on) or `inf`, see the correspondence. -/
theorem tendsto_transform_domain_hi (t : BeckeRTransform ℝ) (hR : 0 < t.R) :
    Tendsto t.transform (𝓝[<] t.domain_hi) atTop := by
  rw [transform_eq]
  simp only [BeckeRTransform.domain_hi, Nat.cast_one]
  apply tendsto_atTop_add_const_right
  have h1 := tendsto_one_sub_nhdsLT
  have h2 : Tendsto (fun y : ℝ => t.R * (1 + y)) (𝓝[<] 1) (𝓝 (t.R * (1 + 1))) :=
    ((continuous_const.mul (continuous_const.add continuous_id)).tendsto 1).mono_left nhdsWithin_le_nhds
  have h3 : 0 < t.R * (1 + 1) := by positivity
  have := h2.pos_mul_atTop h3 (h1.inv_tendsto_nhdsGT_zero)
  refine this.congr ?_
  intro y; simp [div_eq_mul_inv]

/-- (3) The inverse-derivative package applies at every interior point of the codomain (`0 < R`). -/
theorem localInverseAt (t : BeckeRTransform ℝ) (ht : t.Admissible) (hR : 0 < t.R) (r : ℝ) (hr : CoInterior t r) :
    LocalInverseAt t.ops r := by
  have hx := inverse_mem t hR r hr
  have hr' := hr
  simp only [CoInterior, BeckeRTransform.codomain_lo] at hr'
  refine ⟨hasDerivAt_transform t ht _ hx, hasDerivAt_deriv t ht _ hx, hasDerivAt_deriv2 t ht _ hx,
    (deriv_pos t hR _ hx).ne', ?_, ?_⟩
  · show ContinuousAt t.inverse r
    rw [inverse_eq]
    have h1 : r - t.rmin + t.R ≠ 0 := by linarith
    exact ContinuousAt.div (by fun_prop) (by fun_prop) h1
  · show ∀ᶠ y in 𝓝 r, t.transform (t.inverse y) = y
    filter_upwards [Ioi_mem_nhds hr'] with y hy
    exact transform_inverse t ht hR y hy

/-- (3) `deriv_inverse`, `deriv2_inverse`, `deriv3_inverse` (inherited from `BaseTransform`; the same
expressions are `InverseRTransform(t).deriv/deriv2/deriv3`) are the first three derivatives of `inverse`
on the interior of the codomain. -/
theorem inverse_derivs (t : BeckeRTransform ℝ) (ht : t.Admissible) (hR : 0 < t.R) (r : ℝ) (hr : CoInterior t r) :
    HasDerivAt t.inverse (BaseTransform.deriv_inverse t.ops r) r ∧
    HasDerivAt (BaseTransform.deriv_inverse t.ops) (BaseTransform.deriv2_inverse t.ops r) r ∧
    HasDerivAt (BaseTransform.deriv2_inverse t.ops) (BaseTransform.deriv3_inverse t.ops r) r :=
  deriv_inverse_package t.ops r (localInverseAt t ht hR r hr)

example : ∃ t : BeckeRTransform ℝ, t.Admissible ∧ 0 < t.R ∧ CoInterior t 2 :=
  ⟨⟨1 / 10, 3 / 2, true⟩, trivial, by norm_num, by simp [CoInterior, BeckeRTransform.codomain_lo]; norm_num⟩

end GridVerif.C03.BeckeRTransform

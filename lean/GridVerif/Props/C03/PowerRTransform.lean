/-
  C03 — `PowerRTransform(rmin, rmax, b)`:  r(x) = rmin (x+1)^p,  p = (log rmax - log rmin)/log(b+1),
  reference points 0 ↦ rmin, b ↦ rmax.

  Definitions: `Gen/RTransform.lean` (regenerated from rtransform.py on every run); `b` is the scale
  parameter once it is set.  The constructor checks `0 < rmin < rmax`; `0 < b` (so that `log(b+1) > 0`)
  is *not* checked and is an explicit hypothesis here.  The exponent `p` is any positive real.
-/
import GridVerif.Lemmas.RTransform

namespace GridVerif.C03.PowerRTransform
open GridVerif.Gen.RTransform GridVerif.C03 Filter Topology

/-- Interior of the declared domain `(0, ∞)`. -/
def Interior (t : PowerRTransform ℝ) (x : ℝ) : Prop := t.domain_lo < x

theorem interior_iff (t : PowerRTransform ℝ) (x : ℝ) : Interior t x ↔ 0 < x := by
  simp [Interior, PowerRTransform.domain_lo]

/-- Positive radii (the codomain of interest is `(rmin, rmax)`; the round trip holds for every `r > 0`). -/
def CoInterior (_t : PowerRTransform ℝ) (r : ℝ) : Prop := 0 < r

theorem admissible_iff (t : PowerRTransform ℝ) : t.Admissible ↔ t.rmin < t.rmax ∧ 0 < t.rmin ∧ 0 < t.rmax := by
  simp [PowerRTransform.Admissible]

/-- The exponent `power` of the code. -/
noncomputable def power (t : PowerRTransform ℝ) : ℝ := (Real.log t.rmax - Real.log t.rmin) / Real.log (t.b + 1)

theorem power_pos (t : PowerRTransform ℝ) (ht : t.Admissible) (hb : 0 < t.b) : 0 < power t := by
  rw [admissible_iff] at ht
  apply div_pos
  · exact sub_pos.mpr (Real.log_lt_log ht.2.1 ht.1)
  · exact Real.log_pos (by linarith)

theorem transform_eq (t : PowerRTransform ℝ) : t.transform = fun y => t.rmin * (1 + y) ^ power t := by
  funext y; simp only [PowerRTransform.transform, power]; rt_norm; rw [add_comm y 1]

theorem deriv_eq (t : PowerRTransform ℝ) :
    t.deriv = fun y => power t * t.rmin * (1 + y) ^ (power t - 1) := by
  funext y; simp only [PowerRTransform.deriv, power]; rt_norm; rw [add_comm y 1]

theorem deriv2_eq (t : PowerRTransform ℝ) :
    t.deriv2 = fun y => power t * (power t - 1) * t.rmin * (1 + y) ^ (power t - 2) := by
  funext y; simp only [PowerRTransform.deriv2, power]; rt_norm; rw [add_comm y 1]

theorem deriv3_eq (t : PowerRTransform ℝ) :
    t.deriv3 = fun y => power t * (power t - 1) * (power t - 2) * t.rmin * (1 + y) ^ (power t - 3) := by
  funext y; simp only [PowerRTransform.deriv3, power]; rt_norm; rw [add_comm y 1]

theorem inverse_eq (t : PowerRTransform ℝ) : t.inverse = fun r => (r / t.rmin) ^ (1 / power t) - 1 := by
  funext y; simp only [PowerRTransform.inverse, power]; rt_norm

/-- (1a) `deriv` is the derivative of `transform` (`0 < b`, not checked by the constructor). -/
theorem hasDerivAt_transform (t : PowerRTransform ℝ) (_ht : t.Admissible) (_hb : 0 < t.b) (x : ℝ)
    (hx : Interior t x) : HasDerivAt t.transform (t.deriv x) x := by
  rw [interior_iff] at hx
  rw [transform_eq, deriv_eq]
  have h := (hasDerivAt_one_add_rpow x (power t) (by linarith)).const_mul t.rmin
  refine h.congr_deriv ?_
  ring

/-- (1b) `deriv2` is the derivative of `deriv`. -/
theorem hasDerivAt_deriv (t : PowerRTransform ℝ) (_ht : t.Admissible) (_hb : 0 < t.b) (x : ℝ)
    (hx : Interior t x) : HasDerivAt t.deriv (t.deriv2 x) x := by
  rw [interior_iff] at hx
  rw [deriv_eq, deriv2_eq]
  have h := (hasDerivAt_one_add_rpow x (power t - 1) (by linarith)).const_mul (power t * t.rmin)
  refine h.congr_deriv ?_
  rw [show power t - 1 - 1 = power t - 2 by ring]
  ring

/-- (1c) `deriv3` is the derivative of `deriv2`. -/
theorem hasDerivAt_deriv2 (t : PowerRTransform ℝ) (_ht : t.Admissible) (_hb : 0 < t.b) (x : ℝ)
    (hx : Interior t x) : HasDerivAt t.deriv2 (t.deriv3 x) x := by
  rw [interior_iff] at hx
  rw [deriv2_eq, deriv3_eq]
  have h := (hasDerivAt_one_add_rpow x (power t - 2) (by linarith)).const_mul (power t * (power t - 1) * t.rmin)
  refine h.congr_deriv ?_
  rw [show power t - 2 - 1 = power t - 3 by ring]
  ring

example : ∃ t : PowerRTransform ℝ, t.Admissible ∧ 0 < t.b ∧ Interior t (7 / 2) ∧ CoInterior t 2 :=
  ⟨⟨1 / 10, 5, 3⟩, by rw [admissible_iff]; norm_num, by norm_num, by rw [interior_iff]; norm_num,
    by simp [CoInterior]⟩

/-- (2a) The inverse undoes the forward map (`0 < b`). -/
theorem inverse_transform (t : PowerRTransform ℝ) (ht : t.Admissible) (hb : 0 < t.b) (x : ℝ)
    (hx : Interior t x) : t.inverse (t.transform x) = x := by
  have hp := power_pos t ht hb
  rw [interior_iff] at hx
  rw [admissible_iff] at ht
  have h1 : (0 : ℝ) ≤ 1 + x := by linarith
  rw [transform_eq, inverse_eq]
  simp only
  rw [mul_div_cancel_left₀ _ ht.2.1.ne', ← Real.rpow_mul h1, mul_one_div_cancel hp.ne', Real.rpow_one]
  ring

/-- (2b) The forward map undoes the inverse at every `r > 0` (`0 < b`). -/
theorem transform_inverse (t : PowerRTransform ℝ) (ht : t.Admissible) (hb : 0 < t.b) (r : ℝ)
    (hr : CoInterior t r) : t.transform (t.inverse r) = r := by
  have hp := power_pos t ht hb
  rw [admissible_iff] at ht
  simp only [CoInterior] at hr
  have h1 : (0 : ℝ) ≤ r / t.rmin := (div_pos hr ht.2.1).le
  rw [transform_eq, inverse_eq]
  simp only
  rw [show 1 + ((r / t.rmin) ^ (1 / power t) - 1) = (r / t.rmin) ^ (1 / power t) by ring,
    ← Real.rpow_mul h1, one_div_mul_cancel hp.ne', Real.rpow_one]
  exact mul_div_cancel₀ _ ht.2.1.ne'

/-- (4a) The derivative is positive on the interior (`0 < b`). -/
theorem deriv_pos (t : PowerRTransform ℝ) (ht : t.Admissible) (hb : 0 < t.b) (x : ℝ) (hx : Interior t x) :
    0 < t.deriv x := by
  have hp := power_pos t ht hb
  rw [interior_iff] at hx
  rw [admissible_iff] at ht
  rw [deriv_eq]
  have h1 : 0 < (1 + x) ^ (power t - 1) := Real.rpow_pos_of_pos (by linarith) _
  have := ht.2.1
  positivity

/-- (4b) Strictly increasing on the interior of the domain (`0 < b`). -/
theorem strictMonoOn_transform (t : PowerRTransform ℝ) (ht : t.Admissible) (hb : 0 < t.b) :
    StrictMonoOn t.transform (Set.Ioi t.domain_lo) :=
  strictMonoOn_of_hasDerivAt_pos (convex_Ioi _) (fun x hx => hasDerivAt_transform t ht hb x hx)
    (fun x hx => deriv_pos t ht hb x hx)

/-- (4c) Reference point `0 ↦ rmin`. -/
theorem transform_domain_lo (t : PowerRTransform ℝ) : t.transform t.domain_lo = t.codomain_lo := by
  rw [transform_eq]; simp [PowerRTransform.domain_lo, PowerRTransform.codomain_lo]

/-- (4c) Reference point `b ↦ rmax` (`0 < b`). -/
theorem transform_b (t : PowerRTransform ℝ) (ht : t.Admissible) (hb : 0 < t.b) :
    t.transform t.b = t.codomain_hi := by
  rw [admissible_iff] at ht
  have hl : Real.log (t.b + 1) ≠ 0 := (Real.log_pos (by linarith)).ne'
  have h1 : (0 : ℝ) < 1 + t.b := by linarith
  rw [transform_eq]; simp only [PowerRTransform.codomain_hi, power]
  rw [Real.rpow_def_of_pos h1, add_comm 1 t.b, mul_div_cancel₀ _ hl, Real.exp_sub, Real.exp_log ht.2.2,
    Real.exp_log ht.2.1]
  exact mul_div_cancel₀ _ ht.2.1.ne'

/-- (3) The inverse-derivative package applies at every `r > 0` whose preimage is in the domain (`0 < b`). -/
theorem localInverseAt (t : PowerRTransform ℝ) (ht : t.Admissible) (hb : 0 < t.b) (r : ℝ)
    (hr : CoInterior t r) (hx : Interior t (t.inverse r)) : LocalInverseAt t.ops r := by
  have hr' : 0 < r := hr
  have hmin : 0 < t.rmin := ((admissible_iff t).mp ht).2.1
  refine ⟨hasDerivAt_transform t ht hb _ hx, hasDerivAt_deriv t ht hb _ hx,
    hasDerivAt_deriv2 t ht hb _ hx, (deriv_pos t ht hb (t.inverse r) hx).ne', ?_, ?_⟩
  · show ContinuousAt t.inverse r
    rw [inverse_eq]
    have h1 : r / t.rmin ≠ 0 := (div_pos hr' hmin).ne'
    exact ((continuousAt_id.div_const _).rpow_const (Or.inl h1)).sub continuousAt_const
  · show ∀ᶠ y in 𝓝 r, t.transform (t.inverse y) = y
    filter_upwards [Ioi_mem_nhds hr'] with y hy
    exact transform_inverse t ht hb y hy

/-- (3) `deriv_inverse`, `deriv2_inverse`, `deriv3_inverse` are the first three derivatives of `inverse`. -/
theorem inverse_derivs (t : PowerRTransform ℝ) (ht : t.Admissible) (hb : 0 < t.b) (r : ℝ)
    (hr : CoInterior t r) (hx : Interior t (t.inverse r)) :
    HasDerivAt t.inverse (BaseTransform.deriv_inverse t.ops r) r ∧
    HasDerivAt (BaseTransform.deriv_inverse t.ops) (BaseTransform.deriv2_inverse t.ops r) r ∧
    HasDerivAt (BaseTransform.deriv2_inverse t.ops) (BaseTransform.deriv3_inverse t.ops r) r :=
  deriv_inverse_package t.ops r (localInverseAt t ht hb r hr hx)

end GridVerif.C03.PowerRTransform

/-
  C03 — `BaseTransform._convert_inf` (trimming of infinities), as generated in `Gen/RTransform.lean`.

  Stated for EVERY carrier `K` with infinity tests (`HasInf K`), hence also for `Float`, where
  `eqPosInf v` is `v == inf` and `eqNegInf v` is `v == -inf`: values that are neither pass unchanged,
  `+inf ↦ replace_inf`, `-inf ↦ -replace_inf` (default `replace_inf = 10^16`).  On `ℝ` nothing is
  infinite and both branches are the identity.
-/
import GridVerif.Lemmas.RTransform

set_option linter.unusedSectionVars false

namespace GridVerif.C03.ConvertInf
open GridVerif.Gen.RTransform

variable {K : Type} [Add K] [Sub K] [Mul K] [Div K] [Neg K] [NatCast K] [Elem K] [HasInf K] [LT K] [LE K] [BEq K]

/-- (5) Array branch: a value that is not `±inf` passes unchanged. -/
theorem convert_inf_finite (a r : K) (hp : HasInf.eqPosInf a = false) (hn : HasInf.eqNegInf a = false) :
    BaseTransform.convert_inf a r = a := by
  simp [BaseTransform.convert_inf, hp, hn]

/-- (5) Array branch: `+inf ↦ replace_inf` (provided the replacement is not itself `-inf`). -/
theorem convert_inf_posInf (a r : K) (hp : HasInf.eqPosInf a = true) (hr : HasInf.eqNegInf r = false) :
    BaseTransform.convert_inf a r = r := by
  simp [BaseTransform.convert_inf, hp, hr]

/-- (5) Array branch: `-inf ↦ -replace_inf`. -/
theorem convert_inf_negInf (a r : K) (hp : HasInf.eqPosInf a = false) (hn : HasInf.eqNegInf a = true) :
    BaseTransform.convert_inf a r = -r := by
  simp [BaseTransform.convert_inf, hp, hn]

/-- (5) Scalar branch: a value that is not infinite passes unchanged; an infinite one becomes `sign · replace_inf`. -/
theorem convert_inf_scalar_spec (a r : K) :
    BaseTransform.convert_inf_scalar a r = if HasInf.isInf a then HasInf.sign a * r else a := by
  simp [BaseTransform.convert_inf_scalar]

/-- (5) The default replacement is `10^16` (the literal `1e16` of the source). -/
theorem convert_inf_default (a : K) :
    BaseTransform.convert_inf a = BaseTransform.convert_inf a ((10000000000000000 : Nat) : K) := rfl

/-- (5) On the reals both branches are the identity (no real number is infinite). -/
theorem convert_inf_real (a r : ℝ) :
    BaseTransform.convert_inf a r = a ∧ BaseTransform.convert_inf_scalar a r = a := ⟨rfl, rfl⟩

/-- (5) Agreement with the specification on values extended by `±∞`: with tests that recognise the
two infinities of an extended carrier, the generated array branch is `convertInfExt`. -/
theorem convert_inf_spec (big : K) (v : ExtVal K) (emb : ExtVal K → K)
    (hfin : ∀ x, emb (.fin x) = x)
    (hpos : ∀ w, HasInf.eqPosInf (emb w) = true ↔ w = .posInf)
    (hneg : ∀ w, HasInf.eqNegInf (emb w) = true ↔ w = .negInf)
    (hbig : HasInf.eqNegInf big = false) :
    BaseTransform.convert_inf (emb v) big = convertInfExt big v := by
  cases v with
  | fin x =>
    have h1 : HasInf.eqPosInf (emb (.fin x)) = false := by
      cases h : HasInf.eqPosInf (emb (ExtVal.fin x)) with
      | false => rfl
      | true => exact absurd ((hpos _).mp h) (by simp)
    have h2 : HasInf.eqNegInf (emb (.fin x)) = false := by
      cases h : HasInf.eqNegInf (emb (ExtVal.fin x)) with
      | false => rfl
      | true => exact absurd ((hneg _).mp h) (by simp)
    rw [convert_inf_finite _ _ h1 h2, hfin]; rfl
  | posInf =>
    rw [convert_inf_posInf _ _ ((hpos _).mpr rfl) hbig]; rfl
  | negInf =>
    have h1 : HasInf.eqPosInf (emb (ExtVal.negInf : ExtVal K)) = false := by
      cases h : HasInf.eqPosInf (emb (ExtVal.negInf : ExtVal K)) with
      | false => rfl
      | true => exact absurd ((hpos _).mp h) (by simp)
    rw [convert_inf_negInf _ _ h1 ((hneg _).mpr rfl)]; rfl

example : BaseTransform.convert_inf (3 : ℝ) = 3 := rfl

end GridVerif.C03.ConvertInf

/-
  C08 — real spherical harmonics, their derivatives, solid harmonics, coordinate conversion.

  Model: `Model/Harmonics.lean` (hand-written, the recursion of `generate_real_spherical_harmonics` exactly
  as written; tied to the code by the differential run of `harness/props/c08.py`).
  Property theorems only; the loop invariant and the algebra live in `Lemmas/Harmonics*.lean`.

  Angles: `θ` azimuth, `φ` polar (the convention of the docstrings).  All statements are about the
  *rows returned by the routine* (`ylmCode L θ φ`), for every `l_max = L`.

  Proved here, all `L`: row map and order (i), what every row is in terms of the recursion and the closed
  form of its normalisation (i′), Cartesian closed forms for `l ≤ 3` (ii), invariance under
  reparametrisation / periodicity (iii), the azimuthal derivative and its routine (iv), solid harmonics (v),
  the coordinate round trip (vi), the derivative conversion (vii), the polar derivative for `l ≤ 2`
  at every polar angle (viii), the addition theorem for `l ≤ 3` (ix), the oracle recursion (x).
  Kept as `def …_full : Prop` (not provable here, Mathlib has no associated Legendre theory): the addition
  theorem for every `l`, the polar derivative for every `l`.
-/
import GridVerif.Lemmas.HarmonicsDphi2
import GridVerif.Lemmas.HarmonicsAdd
import GridVerif.Lemmas.HarmonicsCoord
import GridVerif.Lemmas.HarmonicsNorm

namespace GridVerif.C08
open GridVerif.Harmonics Real

/-! ## (i) rows, order -/

/-- **(i) Row map.** `(l, m) ↦ l² + 2m − 1` (`m > 0`) `| l² + 2|m|` is a bijection from
`{(l, m) : l ≤ L, |m| ≤ l}` onto `[0, (L+1)²)`, and it is the position of `(l, m)` in the Horton-2
enumeration `m = 0, 1, −1, …, l, −l` of the degrees `0..L`. -/
theorem row_index_bij (L : ℕ) :
    (∀ l m, l ≤ L → Int.natAbs m ≤ l → rowIndex l m < (L + 1) * (L + 1)) ∧
    (∀ l l' m m', Int.natAbs m ≤ l → Int.natAbs m' ≤ l' → rowIndex l m = rowIndex l' m' → l = l' ∧ m = m') ∧
    (∀ i, i < (L + 1) * (L + 1) → ∃ l m, l ≤ L ∧ Int.natAbs m ≤ l ∧ rowIndex l m = i) ∧
    (lmOrder L).length = (L + 1) * (L + 1) ∧
    (∀ l m, l ≤ L → Int.natAbs m ≤ l → (lmOrder L)[rowIndex l m]? = some (l, m)) ∧
    (∀ l m, (0 < m → rowIndex l m = l * l + (2 * m - 1).toNat) ∧ (m ≤ 0 → rowIndex l m = l * l + 2 * m.natAbs)) :=
  ⟨fun l m hl hm => rowIndex_lt L l m hl hm,
   fun l l' m m' h h' e => rowIndex_inj l l' m m' h h' e,
   fun i hi => rowIndex_surj L i hi,
   lmOrder_length L,
   fun l m hl hm => lmOrder_getElem? L l m hl hm,
   fun l m => ⟨fun h => by simp [rowIndex, indexM, h], fun h => by
     have : ¬ 0 < m := by omega
     simp [rowIndex, indexM, this]⟩⟩

example : rowIndex 3 (-2) = 13 ∧ rowIndex 3 2 = 12 ∧ (lmOrder 1) = [(0, 0), (1, 0), (1, 1), (1, -1)] := by
  decide

/-- **(i, second half) The recursion fills the rows in that order**, for every `l_max`: the in-place
double loop (two work columns, running factorial, row counter) returns `(L+1)²` rows and row
`rowIndex l m` is `ylmSpec`, i.e. `√((2l+1)/4π) · [1 | √2 cos mθ | √2 sin|m|θ] · P_l^{|m|} / F_{l,|m|}`
with `P` the unnormalised Legendre recursion (`pleg`) and `F` the factorial product of the code (`factG`). -/
theorem ylm_rows_spec (L : ℕ) (θ φ : ℝ) :
    (ylmCode L θ φ).length = (L + 1) * (L + 1) ∧
    ∀ l m, l ≤ L → Int.natAbs m ≤ l →
      (ylmCode L θ φ)[rowIndex l m]? = some (ylmSpec (sin φ) (cos φ) θ l m) :=
  ⟨ylmCode_length L θ φ, fun l m hl hm => ylmCode_getElem? L θ φ l m hl hm⟩

example : (ylmCode 2 (1 : ℝ) 2).length = 9 := (ylm_rows_spec 2 1 2).1

/-- **(i′) Normalisation in closed form.** The running product of the code is `√((l+m)!/(l−m)!)`, so for
`1 ≤ k ≤ l` the rows `(l, ±k)` are `√((2l+1)/4π) √2 · P_l^k / √((l+k)!/(l−k)!) · cos kθ | sin kθ`
— the documented `√((2l+1)(l−m)!/(4π(l+m)!))` — and row `(l, 0)` is `√((2l+1)/4π) P_l^0`. -/
theorem ylm_normalisation (s c θ : ℝ) (l k : ℕ) (hk : 1 ≤ k) (hkl : k ≤ l) :
    ylmSpec s c θ l 0 = √((2 * (l : ℝ) + 1) / (4 * π)) * pleg s c l 0 ∧
    ylmSpec s c θ l (k : ℤ) =
      pleg s c l k / √(((l + k).factorial : ℝ) / ((l - k).factorial : ℝ)) * √((2 * (l : ℝ) + 1) / (4 * π)) * √2 *
        cos ((k : ℝ) * θ) ∧
    ylmSpec s c θ l (-(k : ℤ)) =
      pleg s c l k / √(((l + k).factorial : ℝ) / ((l - k).factorial : ℝ)) * √((2 * (l : ℝ) + 1) / (4 * π)) * √2 *
        sin ((k : ℝ) * θ) := by
  have hF : factG l (k - 1) = √(((l + k).factorial : ℝ) / ((l - k).factorial : ℝ)) := by
    rw [factG_closed l (k - 1) (by omega)]
    have e1 : l + (k - 1) + 1 = l + k := by omega
    have e2 : l - (k - 1) - 1 = l - k := by omega
    rw [e1, e2]
  refine ⟨by rw [ylmSpec_zero, facSph_real], ?_, ?_⟩
  · rw [ylmSpec_pos _ _ _ _ _ (by omega), hF, facSph_real]
  · rw [ylmSpec_neg _ _ _ _ _ (by omega), hF, facSph_real]

example (s c θ : ℝ) : ylmSpec s c θ 5 (-2) =
    pleg s c 5 2 / √(((5 + 2).factorial : ℝ) / ((5 - 2).factorial : ℝ)) * √((2 * ((5 : ℕ) : ℝ) + 1) / (4 * π)) * √2 *
      sin (((2 : ℕ) : ℝ) * θ) :=
  (ylm_normalisation s c θ 5 2 (by norm_num) (by norm_num)).2.2

/-! ## (ii) low degree -/

/-- **(ii) Closed forms for `l ≤ 3`**, all angles, every `l_max ≥ l`: row `(l, m)` of the routine is the
familiar Cartesian real harmonic of the point `(sin φ cos θ, sin φ sin θ, cos φ)`: normalisation, sign
(no Condon–Shortley phase), `m > 0 ↔ cos`, `m < 0 ↔ sin`. -/
theorem ylm_low_degree (L : ℕ) (θ φ : ℝ) (l : ℕ) (m : ℤ) (hL : l ≤ L) (hl : l ≤ 3)
    (hm : Int.natAbs m ≤ l) :
    (ylmCode L θ φ)[rowIndex l m]? =
      some (cartY l m (sin φ * cos θ) (sin φ * sin θ) (cos φ)) := by
  rw [ylmCode_getElem? L θ φ l m hL hm, ylmSpec_low _ _ _ l m hl hm]

example (θ φ : ℝ) : (ylmCode 5 θ φ)[rowIndex 2 (-2)]? =
    some (√(15 / (4 * π)) * (sin φ * cos θ * (sin φ * sin θ))) := by
  rw [ylm_low_degree 5 θ φ 2 (-2) (by norm_num) (by norm_num) (by decide)]
  simp [cartY]

/-! ## (iii) angles outside the principal range -/

/-- **(iii) Reparametrisation.** `(θ + π, −φ)` addresses the same point of the sphere as `(θ, φ)`; the
routine returns the same rows (so a negative polar angle is handled, for every `l_max`). -/
theorem ylm_reparam (L : ℕ) (θ φ : ℝ) : ylmCode L (θ + π) (-φ) = ylmCode L θ φ := by
  rw [ylmCode_eq, ylmCode_eq]
  apply List.map_congr_left
  intro lm _
  rw [Real.sin_neg, Real.cos_neg]
  exact ylmSpec_reparam _ _ _ _ _

/-- **(iii) `2π`-periodicity in the azimuth.** -/
theorem ylm_theta_periodic (L : ℕ) (θ φ : ℝ) : ylmCode L (θ + 2 * π) φ = ylmCode L θ φ := by
  rw [ylmCode_eq, ylmCode_eq]
  apply List.map_congr_left
  intro lm _
  exact ylmSpec_theta_periodic _ _ _ _ _

/-- **(iii) `2π`-periodicity in the polar angle.** -/
theorem ylm_phi_periodic (L : ℕ) (θ φ : ℝ) : ylmCode L θ (φ + 2 * π) = ylmCode L θ φ := by
  unfold ylmCode
  simp only [Elem.sin, Elem.cos, Real.sin_add_two_pi, Real.cos_add_two_pi]

/-- **(iii) South side.** `(θ + π, 2π − φ)` is again the same point: polar angles in `(π, 2π)`. -/
theorem ylm_reparam_gt_pi (L : ℕ) (θ φ : ℝ) : ylmCode L (θ + π) (2 * π - φ) = ylmCode L θ φ := by
  have : 2 * π - φ = -φ + 2 * π := by ring
  rw [this, ylm_phi_periodic, ylm_reparam]

example : ylmCode 4 ((1 : ℝ) + π) (-2) = ylmCode 4 1 2 := ylm_reparam 4 1 2

/-! ## (iv) azimuthal derivative -/

/-- **(iv)** `∂/∂θ Y_{l,m} = −m Y_{l,−m}` for every `l_max`, `l`, `m` and all angles, as `HasDerivAt` of the
row of the routine, and this is what `generate_derivative_real_spherical_harmonics` returns in
`output[0]`. -/
theorem dtheta_spec (L : ℕ) (θ φ : ℝ) (l : ℕ) (m : ℤ) (hl : l ≤ L) (hm : Int.natAbs m ≤ l) :
    ∃ f : ℝ → ℝ, ∃ d v : ℝ,
      (∀ t, (ylmCode L t φ)[rowIndex l m]? = some (f t)) ∧
      (ylmCode L θ φ)[rowIndex l (-m)]? = some v ∧
      (dYlm L θ φ).1[rowIndex l m]? = some d ∧
      d = -(m : ℝ) * v ∧ HasDerivAt f d θ := by
  have hm' : Int.natAbs (-m) ≤ l := by simpa using hm
  refine ⟨fun t => ylmSpec (sin φ) (cos φ) t l m, -(m : ℝ) * ylmSpec (sin φ) (cos φ) θ l (-m),
    ylmSpec (sin φ) (cos φ) θ l (-m), fun t => ylmCode_getElem? L t φ l m hl hm,
    ylmCode_getElem? L θ φ l (-m) hl hm', ?_, rfl, ylmSpec_hasDerivAt_theta _ _ _ _ _⟩
  rw [dYlm_theta_eq, List.getElem?_map, lmOrder_getElem? L l m hl hm]
  rfl

example (θ φ : ℝ) : ∃ f : ℝ → ℝ, ∃ d v : ℝ,
    (∀ t, (ylmCode 6 t φ)[rowIndex 4 (-3)]? = some (f t)) ∧ (ylmCode 6 θ φ)[rowIndex 4 (- -3)]? = some v ∧
      (dYlm 6 θ φ).1[rowIndex 4 (-3)]? = some d ∧ d = -((-3 : ℤ) : ℝ) * v ∧ HasDerivAt f d θ :=
  dtheta_spec 6 θ φ 4 (-3) (by norm_num) (by decide)

/-! ## (v) solid harmonics -/

/-- **(v)** `solid_harmonics`: row `(l, m)` is `√(4π/(2l+1)) r^l Y_lm` (`r^0 = 1` also at `r = 0`), and the
degree list built by the routine assigns degree `l` to row `rowIndex l m`. -/
theorem solid_spec (L : ℕ) (r θ φ : ℝ) (l : ℕ) (m : ℤ) (hl : l ≤ L) (hm : Int.natAbs m ≤ l) :
    (degreeList L)[rowIndex l m]? = some l ∧
    ∃ y, (ylmCode L θ φ)[rowIndex l m]? = some y ∧
      (solidHarmonics L r θ φ)[rowIndex l m]? = some (√(4 * π / (2 * (l : ℝ) + 1)) * r ^ l * y) := by
  refine ⟨?_, ylmSpec (sin φ) (cos φ) θ l m, ylmCode_getElem? L θ φ l m hl hm, ?_⟩
  · rw [degreeList_eq, List.getElem?_map, lmOrder_getElem? L l m hl hm]; rfl
  · rw [solidHarmonics_eq, List.getElem?_map, lmOrder_getElem? L l m hl hm]
    simp only [Option.map_some]
    congr 1
    ring

example : (degreeList 2) = [0, 1, 1, 1, 2, 2, 2, 2, 2] := by decide

/-! ## (vi) Cartesian → spherical -/

/-- **(vi) Round trip**, any centre: for `p ≠ c` the parametrisation
`c + r (cos θ sin φ, sin θ sin φ, cos φ)` applied to `convert_cart_to_sph(p, c)` gives `p` back. -/
theorem sph_roundtrip (p c : P3 ℝ) (h : p ≠ c) : sphToCart (cartToSph p c) c = p :=
  sphToCart_cartToSph p c h

/-- **(vi)** The centre itself maps to `r = 0` and both angles `0` (the documented repair of `0/0`), and the
outputs always lie in `r ≥ 0`, `θ ∈ (−π, π]`, `φ ∈ [0, π]`. -/
theorem sph_center_and_range (p c : P3 ℝ) :
    cartToSph c c = (0, 0, 0) ∧
    0 ≤ (cartToSph p c).1 ∧ -π < (cartToSph p c).2.1 ∧ (cartToSph p c).2.1 ≤ π ∧
      0 ≤ (cartToSph p c).2.2 ∧ (cartToSph p c).2.2 ≤ π :=
  ⟨cartToSph_center c, cartToSph_range p c⟩

example : sphToCart (cartToSph ((1 : ℝ), (2 : ℝ), (3 : ℝ)) (0, 2, 5)) (0, 2, 5) = (1, 2, 3) :=
  sph_roundtrip _ _ (by intro h; have := congrArg Prod.fst h; norm_num at this)

/-! ## (vii) derivative conversion -/

/-- **(vii)** The matrix of `convert_derivative_from_spherical_to_cartesian` is the inverse transpose Jacobian
of the parametrisation: fed with the chain-rule derivatives `(g·∂p/∂r, g·∂p/∂θ, g·∂p/∂φ)` of a function with
Cartesian gradient `g` it returns `g` (no convention triggered, `sin φ ≠ 0`); the three vectors
`∂p/∂r, ∂p/∂θ, ∂p/∂φ` used are the derivatives of the parametrisation; below the thresholds the matrix is the
documented truncation (`|r| < 1e-10`: radial column only; `|φ| < 1e-10`: `θ` column zero). -/
theorem jacobian_spec (r θ φ gx gy gz : ℝ) :
    ((tol10 : ℝ) ≤ |r| → (tol10 : ℝ) ≤ |φ| → sin φ ≠ 0 →
      convDeriv
        (gx * (cos θ * sin φ) + gy * (sin θ * sin φ) + gz * cos φ)
        (gx * (-(r * (sin θ * sin φ))) + gy * (r * (cos θ * sin φ)))
        (gx * (r * (cos θ * cos φ)) + gy * (r * (sin θ * cos φ)) + gz * (-(r * sin φ)))
        r θ φ = [gx, gy, gz]) ∧
    (HasDerivAt (fun t => t * (cos θ * sin φ)) (cos θ * sin φ) r ∧
      HasDerivAt (fun t => t * (sin θ * sin φ)) (sin θ * sin φ) r ∧
      HasDerivAt (fun t => t * cos φ) (cos φ) r) ∧
    (HasDerivAt (fun t => r * (cos t * sin φ)) (-(r * (sin θ * sin φ))) θ ∧
      HasDerivAt (fun t => r * (sin t * sin φ)) (r * (cos θ * sin φ)) θ) ∧
    (HasDerivAt (fun t => r * (cos θ * sin t)) (r * (cos θ * cos φ)) φ ∧
      HasDerivAt (fun t => r * (sin θ * sin t)) (r * (sin θ * cos φ)) φ ∧
      HasDerivAt (fun t => r * cos t) (-(r * sin φ)) φ) ∧
    (|r| < (tol10 : ℝ) →
      convJacobian r θ φ = [[cos θ * sin φ, 0, 0], [sin θ * sin φ, 0, 0], [cos φ, 0, 0]]) ∧
    ((tol10 : ℝ) ≤ |r| → |φ| < (tol10 : ℝ) →
      convJacobian r θ φ =
        [[cos θ * sin φ, 0, cos θ * cos φ / r], [sin θ * sin φ, 0, sin θ * cos φ / r],
          [cos φ, 0, -sin φ / r]]) := by
  obtain ⟨h1, h2, h3⟩ := param_hasDerivAt r θ φ
  exact ⟨fun hr hφ hs => convDeriv_chain r θ φ gx gy gz hr hφ hs, h1, h2, h3,
    fun h => convJacobian_r_small r θ φ h, fun hr h => convJacobian_phi_small r θ φ hr h⟩

example (θ gx gy gz : ℝ) :
    convDeriv
      (gx * (cos θ * sin (π / 2)) + gy * (sin θ * sin (π / 2)) + gz * cos (π / 2))
      (gx * (-(2 * (sin θ * sin (π / 2)))) + gy * (2 * (cos θ * sin (π / 2))))
      (gx * (2 * (cos θ * cos (π / 2))) + gy * (2 * (sin θ * cos (π / 2))) + gz * (-(2 * sin (π / 2))))
      2 θ (π / 2) = [gx, gy, gz] := by
  refine (jacobian_spec 2 θ (π / 2) gx gy gz).1 ?_ ?_ (by rw [Real.sin_pi_div_two]; norm_num)
  · unfold tol10; rw [abs_of_pos (by norm_num)]; norm_num
  · unfold tol10; rw [abs_of_pos (by positivity)]
    have := Real.pi_pos
    have h2 := Real.two_le_pi
    norm_num; linarith

/-! ## (viii) polar derivative -/

/-- The full clause for the polar derivative: for every `l_max`, every row and all polar angles — inside or
outside the principal range — away from the poles (`|tan φ| ≥ 1e-10`, where the routine does not apply its pole
convention; this implies `sin φ ≠ 0`), `output[1]` is the partial derivative of the row with respect to `φ`.
Proved for `l ≤ 2` (`dphi_partial`); **not provable here for every `l`** (needs the derivative recurrences of the
associated Legendre functions, absent from Mathlib): decided by exploration (50-digit numerical derivatives of the
definition, `l ≤ 8`, angles with `sin φ` of either sign). -/
def dphi_spec_full : Prop :=
  ∀ (L : ℕ) (θ φ : ℝ) (l : ℕ) (m : ℤ), l ≤ L → Int.natAbs m ≤ l → (tol10 : ℝ) ≤ |tan φ| →
    ∃ d, (dYlm L θ φ).2[rowIndex l m]? = some d ∧
      HasDerivAt (fun p => (ylmCode L θ p).getD (rowIndex l m) 0) d φ

theorem getD_row (L : ℕ) (θ p : ℝ) (l : ℕ) (m : ℤ) (hl : l ≤ L) (hm : Int.natAbs m ≤ l) :
    (ylmCode L θ p).getD (rowIndex l m) 0 = ylmSpec (sin p) (cos p) θ l m := by
  rw [List.getD_eq_getElem?_getD, ylmCode_getElem? L θ p l m hl hm]; rfl

/-- **(viii) partial**: the polar derivative is right for `l ≤ 2`, every `l_max ≥ l`, every polar angle
(`sin φ` of either sign: SciPy's `|sin φ|` is compensated by the sign factor of the routine — `sign(sin φ)` for
row `(2, 0)`, `sign(sin φ)²` for rows `(2, ±1)`) wherever the pole convention is not applied. -/
theorem dphi_partial (L : ℕ) (θ φ : ℝ) (l : ℕ) (m : ℤ) (hL : l ≤ L) (hl : l ≤ 2)
    (hm : Int.natAbs m ≤ l) (ht : (tol10 : ℝ) ≤ |tan φ|) :
    ∃ d, (dYlm L θ φ).2[rowIndex l m]? = some d ∧
      HasDerivAt (fun p => (ylmCode L θ p).getD (rowIndex l m) 0) d φ := by
  have hf : (fun p => (ylmCode L θ p).getD (rowIndex l m) 0) =
      fun p => ylmSpec (sin p) (cos p) θ l m := by
    funext p; exact getD_row L θ p l m hL hm
  rw [hf]
  have hsin : sin φ ≠ 0 := by
    intro h0
    have : tan φ = 0 := by rw [Real.tan_eq_sin_div_cos, h0, zero_div]
    rw [this, abs_zero] at ht
    linarith [tol10_pos]
  have h1 : -(l : ℤ) ≤ m := by omega
  have h2 : m ≤ (l : ℤ) := by omega
  interval_cases l
  · have : m = 0 := by omega
    subst this
    refine ⟨0, ?_, ?_⟩
    · rw [dYlm_phi_getElem? L θ φ 0 0 hL (by simp)]
      simp [dEntry, absK]
    · have : (fun p => ylmSpec (sin p) (cos p) θ 0 0) = fun _ => √(1 / (4 * π)) := by
        funext p; exact y00 _ _ _
      rw [this]; exact hasDerivAt_const _ _
  · simp only [Nat.cast_one] at h1 h2
    interval_cases m
    · refine ⟨_, dYlm_phi_1_m1 L θ φ hL, ?_⟩
      have : (fun p => ylmSpec (sin p) (cos p) θ 1 (-1)) = fun p => √(3 / (4 * π)) * (sin p * sin θ) := by
        funext p; exact y1m1 _ _ _
      rw [this, cotTangent_generic φ ht]
      refine (((Real.hasDerivAt_sin φ).mul_const (sin θ)).const_mul _).congr_deriv ?_
      field_simp
    · exact ⟨_, dYlm_phi_1_0 L θ φ hL, ylm_1_0_hasDerivAt_phi θ φ⟩
    · refine ⟨_, dYlm_phi_1_1 L θ φ hL, ?_⟩
      have : (fun p => ylmSpec (sin p) (cos p) θ 1 1) = fun p => √(3 / (4 * π)) * (sin p * cos θ) := by
        funext p; exact y11 _ _ _
      rw [this, cotTangent_generic φ ht]
      refine (((Real.hasDerivAt_sin φ).mul_const (cos θ)).const_mul _).congr_deriv ?_
      field_simp
  · exact dphi_deg2 L θ φ m hL hm ht

example (θ : ℝ) : ∃ d, (dYlm 3 θ (-(π / 4))).2[rowIndex 1 0]? = some d ∧
    HasDerivAt (fun p => (ylmCode 3 θ p).getD (rowIndex 1 0) 0) d (-(π / 4)) := by
  refine dphi_partial 3 θ (-(π / 4)) 1 0 (by norm_num) (by norm_num) (by decide) ?_
  rw [Real.tan_neg, Real.tan_pi_div_four, abs_neg, abs_one]; unfold tol10; norm_num

/-- degree 2, a row with a raising term, a polar angle with `sin φ < 0`. -/
example (θ : ℝ) : ∃ d, (dYlm 3 θ (-(π / 4))).2[rowIndex 2 (-1)]? = some d ∧
    HasDerivAt (fun p => (ylmCode 3 θ p).getD (rowIndex 2 (-1)) 0) d (-(π / 4)) := by
  refine dphi_partial 3 θ (-(π / 4)) 2 (-1) (by norm_num) (by norm_num) (by decide) ?_
  rw [Real.tan_neg, Real.tan_pi_div_four, abs_neg, abs_one]; unfold tol10; norm_num

/-- **(viii) about the formula before d7630ad** (kept for the record; not a statement about the current
code): without the sign factor row `(1, 0)` was `−√(3/4π) |sin φ|`; at `φ = −π/4` that is not the derivative
`−√(3/4π) sin φ` of the row — the witness of the repaired defect. -/
theorem dphi_unsigned_formula_fails_at :
    -(√(3 / (4 * π)) * |sin (-(π / 4))|) ≠ -(√(3 / (4 * π)) * sin (-(π / 4))) := by
  rw [Real.sin_neg, Real.sin_pi_div_four, abs_neg, abs_of_pos (by positivity)]
  have hK := sqrt_three_div_four_pi_pos
  have h2 : (0 : ℝ) < √2 / 2 := by positivity
  intro h
  nlinarith [mul_pos hK h2]

/-! ## (ix) addition theorem -/

/-- Legendre polynomial `P_l(x)` by Bonnet's recursion (the `m = 0` column of the recursion, which does not
involve `sin φ`). -/
noncomputable def legendreP (l : ℕ) (x : ℝ) : ℝ := pleg 0 x l 0

/-- The full clause: for every `l_max`, every `l ≤ l_max` and any two directions (any angles),
`Σ_m Y_lm(a) Y_lm(b) = (2l+1)/(4π) P_l(cos γ)`, `cos γ = a·b`.  Together with (i)–(iii) this is "the recursion
equals the real spherical harmonics for every `l`".  **Not provable here** (no associated Legendre theory in
Mathlib); decided by exploration (`mpmath`, 50 digits, `l ≤ 60`; through C02 up to degree 325). -/
def addition_theorem_full : Prop :=
  ∀ (L l : ℕ), l ≤ L → ∀ θ φ θ' φ' : ℝ,
    ((List.range (2 * l + 1)).map (fun j =>
      (ylmCode L θ φ).getD (l * l + j) 0 * (ylmCode L θ' φ').getD (l * l + j) 0)).sum =
    (2 * (l : ℝ) + 1) / (4 * π) *
      legendreP l (sin φ * cos θ * (sin φ' * cos θ') + sin φ * sin θ * (sin φ' * sin θ') + cos φ * cos φ')

/-- **(ix) partial**: the addition theorem for `l ≤ 3`, every `l_max`, all angles. -/
theorem addition_theorem_partial (L l : ℕ) (hL : l ≤ L) (hl : l ≤ 3) (θ φ θ' φ' : ℝ) :
    ((List.range (2 * l + 1)).map (fun j =>
      (ylmCode L θ φ).getD (l * l + j) 0 * (ylmCode L θ' φ').getD (l * l + j) 0)).sum =
    (2 * (l : ℝ) + 1) / (4 * π) *
      legendreP l (sin φ * cos θ * (sin φ' * cos θ') + sin φ * sin θ * (sin φ' * sin θ') + cos φ * cos φ') := by
  interval_cases l
  · have e : ∀ t p : ℝ, (ylmCode L t p).getD (0 * 0 + 0) 0 = √(1 / (4 * π)) := by
      intro t p
      have := getD_row L t p 0 0 hL (by simp)
      rw [y00] at this
      simpa [rowIndex, indexM] using this
    simp only [Nat.mul_zero, Nat.zero_add, List.range_one, List.map_cons, List.map_nil, List.sum_cons,
      List.sum_nil, add_zero]
    rw [e, e, legendreP, pleg_zero]
    simp only [↓reduceIte, Nat.cast_zero, mul_zero, zero_add, mul_one]
    rw [Real.mul_self_sqrt (by positivity)]
  · have e0 : ∀ t p : ℝ, (ylmCode L t p).getD (1 * 1 + 0) 0 = √(3 / (4 * π)) * cos p := by
      intro t p
      have := getD_row L t p 1 0 hL (by simp)
      rw [y10] at this
      simpa [rowIndex, indexM] using this
    have e1 : ∀ t p : ℝ, (ylmCode L t p).getD (1 * 1 + 1) 0 = √(3 / (4 * π)) * (sin p * cos t) := by
      intro t p
      have := getD_row L t p 1 1 hL (by simp)
      rw [y11] at this
      simpa [rowIndex, indexM] using this
    have e2 : ∀ t p : ℝ, (ylmCode L t p).getD (1 * 1 + 2) 0 = √(3 / (4 * π)) * (sin p * sin t) := by
      intro t p
      have := getD_row L t p 1 (-1) hL (by simp)
      rw [y1m1] at this
      simpa [rowIndex, indexM] using this
    have hK : √(3 / (4 * π)) * √(3 / (4 * π)) = 3 / (4 * π) := Real.mul_self_sqrt (by positivity)
    have hr : List.range (2 * 1 + 1) = [0, 1, 2] := by decide
    rw [hr]
    simp only [List.map_cons, List.map_nil, List.sum_cons, List.sum_nil, add_zero]
    rw [e0, e0, e1, e1, e2, e2, legendreP, pleg_1_0]
    push_cast
    linear_combination (cos φ * cos φ' + sin φ * cos θ * (sin φ' * cos θ') + sin φ * sin θ * (sin φ' * sin θ')) * hK
  · have row : ∀ (m : ℤ) (j : ℕ), Int.natAbs m ≤ 2 → rowIndex 2 m = 2 * 2 + j → ∀ t p : ℝ,
        (ylmCode L t p).getD (2 * 2 + j) 0 = ylmSpec (sin p) (cos p) t 2 m := by
      intro m j hm hj t p
      rw [← hj]; exact getD_row L t p 2 m hL hm
    have e0 := row 0 0 (by decide) (by decide)
    have e1 := row 1 1 (by decide) (by decide)
    have e2 := row (-1) 2 (by decide) (by decide)
    have e3 := row 2 3 (by decide) (by decide)
    have e4 := row (-2) 4 (by decide) (by decide)
    have hA : √(5 / (16 * π)) * √(5 / (16 * π)) = 5 / (16 * π) := Real.mul_self_sqrt (by positivity)
    have hB : √(15 / (4 * π)) * √(15 / (4 * π)) = 15 / (4 * π) := Real.mul_self_sqrt (by positivity)
    have hC : √(15 / (16 * π)) * √(15 / (16 * π)) = 15 / (16 * π) := Real.mul_self_sqrt (by positivity)
    have h1 := Real.sin_sq_add_cos_sq θ
    have h2 := Real.sin_sq_add_cos_sq φ
    have h3 := Real.sin_sq_add_cos_sq θ'
    have h4 := Real.sin_sq_add_cos_sq φ'
    have hr : List.range (2 * 2 + 1) = [0, 1, 2, 3, 4] := by decide
    rw [hr]
    simp only [List.map_cons, List.map_nil, List.sum_cons, List.sum_nil, add_zero]
    rw [e0, e0, e1, e1, e2, e2, e3, e3, e4, e4, y20, y20, y21, y21, y2m1, y2m1, y22, y22, y2m2, y2m2,
      legendreP, pleg_2_0]
    have hpi : π ≠ 0 := Real.pi_ne_zero
    push_cast
    linear_combination
      ((3 * cos φ ^ 2 - 1) * (3 * cos φ' ^ 2 - 1)) * hA +
      ((sin φ * cos θ * cos φ) * (sin φ' * cos θ' * cos φ') + (sin φ * sin θ * cos φ) * (sin φ' * sin θ' * cos φ') +
        (sin φ * cos θ * (sin φ * sin θ)) * (sin φ' * cos θ' * (sin φ' * sin θ'))) * hB +
      (((sin φ * cos θ) ^ 2 - (sin φ * sin θ) ^ 2) * ((sin φ' * cos θ') ^ 2 - (sin φ' * sin θ') ^ 2)) * hC +
      (1 / (16 * π)) * ((-15 * sin φ ^ 2 * sin φ' ^ 2 * (cos θ' ^ 2 + sin θ' ^ 2)) * h1 +
        (15 * (cos φ' - 1) * (cos φ' + 1)) * h2 + (-15 * sin φ ^ 2 * sin φ' ^ 2) * h3 + (-15 * sin φ ^ 2) * h4)
  · have row : ∀ (m : ℤ) (j : ℕ), Int.natAbs m ≤ 3 → rowIndex 3 m = 3 * 3 + j → ∀ t p : ℝ,
        (ylmCode L t p).getD (3 * 3 + j) 0 = ylmSpec (sin p) (cos p) t 3 m := by
      intro m j hm hj t p
      rw [← hj]; exact getD_row L t p 3 m hL hm
    have e0 := row 0 0 (by decide) (by decide)
    have e1 := row 1 1 (by decide) (by decide)
    have e2 := row (-1) 2 (by decide) (by decide)
    have e3 := row 2 3 (by decide) (by decide)
    have e4 := row (-2) 4 (by decide) (by decide)
    have e5 := row 3 5 (by decide) (by decide)
    have e6 := row (-3) 6 (by decide) (by decide)
    have hr : List.range (2 * 3 + 1) = [0, 1, 2, 3, 4, 5, 6] := by decide
    rw [hr]
    simp only [List.map_cons, List.map_nil, List.sum_cons, List.sum_nil, add_zero]
    rw [e0, e0, e1, e1, e2, e2, e3, e3, e4, e4, e5, e5, e6, e6, legendreP, add3_spec]
    push_cast
    norm_num

example (θ φ θ' φ' : ℝ) :
    ((List.range (2 * 3 + 1)).map (fun j =>
      (ylmCode 5 θ φ).getD (3 * 3 + j) 0 * (ylmCode 5 θ' φ').getD (3 * 3 + j) 0)).sum =
    (2 * ((3 : ℕ) : ℝ) + 1) / (4 * π) *
      legendreP 3 (sin φ * cos θ * (sin φ' * cos θ') + sin φ * sin θ * (sin φ' * sin θ') + cos φ * cos φ') :=
  addition_theorem_partial 5 3 (by norm_num) (by norm_num) θ φ θ' φ'

/-! ## (x) the recursion of the quadrature oracle (C02) -/

/-- **(x)** The fully normalised recursion `ylmNorm` — the one the oracle of C02 evaluates up to degree 325,
where the code-shaped recursion would overflow in double precision — returns the same rows as the model of
`generate_real_spherical_harmonics`, for every `l_max` and all angles (over ℝ). -/
theorem ylm_norm_eq_code (L : ℕ) (θ φ : ℝ) : ylmNorm L θ φ = ylmCode L θ φ :=
  ylmNorm_eq_ylmCode L θ φ

example (θ φ : ℝ) : (ylmNorm 7 θ φ)[rowIndex 1 1]? = some (√(3 / (4 * π)) * (sin φ * cos θ)) := by
  rw [ylm_norm_eq_code, ylm_low_degree 7 θ φ 1 1 (by norm_num) (by norm_num) (by decide)]
  simp [cartY]

/-- **(x) `weights_sum`.** Row `0` is the constant `1/√(4π)`, so a weighted point set integrates `Y_00` to
`√(4π)` iff its weights sum to `4π` (the `l = 0` clause of C02). `pts` = `(w, θ, φ)`. -/
theorem weights_sum (L : ℕ) (pts : List (ℝ × ℝ × ℝ)) :
    ((pts.map (fun p => p.1 * (ylmCode L p.2.1 p.2.2).getD 0 0)).sum = √(4 * π)) ↔
      (pts.map (fun p => p.1)).sum = 4 * π := by
  have hrow : ∀ p : ℝ × ℝ × ℝ, (ylmCode L p.2.1 p.2.2).getD 0 0 = √(1 / (4 * π)) := by
    intro p
    have := getD_row L p.2.1 p.2.2 0 0 (Nat.zero_le _) (by simp)
    rw [y00] at this
    simpa [rowIndex, indexM] using this
  have hsum : (pts.map (fun p => p.1 * (ylmCode L p.2.1 p.2.2).getD 0 0)).sum =
      (pts.map (fun p => p.1)).sum * √(1 / (4 * π)) := by
    induction pts with
    | nil => simp
    | cons p t ih => simp only [List.map_cons, List.sum_cons, ih, hrow p]; ring
  rw [hsum]
  have h4 : (0 : ℝ) < 4 * π := by positivity
  have hK : √(1 / (4 * π)) * √(4 * π) = 1 := by
    rw [← Real.sqrt_mul (by positivity)]
    have : 1 / (4 * π) * (4 * π) = 1 := by field_simp
    rw [this, Real.sqrt_one]
  have hs : √(4 * π) * √(4 * π) = 4 * π := Real.mul_self_sqrt h4.le
  constructor
  · intro h
    have : (pts.map (fun p => p.1)).sum * (√(1 / (4 * π)) * √(4 * π)) = √(4 * π) * √(4 * π) := by
      rw [← mul_assoc, h]
    rwa [hK, mul_one, hs] at this
  · intro h
    rw [h]
    calc 4 * π * √(1 / (4 * π)) = (√(4 * π) * √(4 * π)) * √(1 / (4 * π)) := by rw [hs]
      _ = √(4 * π) * (√(1 / (4 * π)) * √(4 * π)) := by ring
      _ = √(4 * π) := by rw [hK, mul_one]

end GridVerif.C08

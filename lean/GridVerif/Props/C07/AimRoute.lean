/-
  C07, round 6 — every convenience constructor hands the caller's `aim_weights` on unchanged whenever it is not `None`
  (callable, array or anything else) and uses `BeckeWeights(order=3)` exactly for `None`: over
  `Gen.MolGrid.fromPreset_aim`, `fromSize_aim`, `fromPruned_aim`, the statements of the three preludes that re-bind
  `aim_weights`, translated from the current source (seeded change C07-h — `if not callable(aim_weights)` — makes the
  generated definition another one and these statements false for arrays). Imports the generated file only.
-/
import GridVerif.Gen.MolGrid

namespace GridVerif.C07
open GridVerif.MolGrid

variable {P K : Type}

/-- **The generated aim-weights default of the three constructors is the hand model** `aimOrDefault` with
`BeckeWeights(order=3)`. -/
theorem gen_aim_eq_model (becke : Nat → AimArg P K) (o : Option (AimArg P K)) :
    Gen.MolGrid.fromPreset_aim becke o = aimOrDefault o (becke 3) ∧
    Gen.MolGrid.fromSize_aim becke o = aimOrDefault o (becke 3) ∧
    Gen.MolGrid.fromPruned_aim becke o = aimOrDefault o (becke 3) := by
  cases o <;> exact ⟨rfl, rfl, rfl⟩

/-- **Every constructor route passes the caller's `aim_weights` through unchanged when it is not `None`** —
a callable, an array, or an object of another type (rejected later by `MolGrid.__init__`, not replaced) —
and uses `BeckeWeights(order=3)` exactly when it is `None`. -/
theorem aim_passed_through_every_route (becke : Nat → AimArg P K) (a : AimArg P K) :
    Gen.MolGrid.fromPreset_aim becke (some a) = a ∧ Gen.MolGrid.fromSize_aim becke (some a) = a ∧
    Gen.MolGrid.fromPruned_aim becke (some a) = a ∧
    Gen.MolGrid.fromPreset_aim becke none = becke 3 ∧ Gen.MolGrid.fromSize_aim becke none = becke 3 ∧
    Gen.MolGrid.fromPruned_aim becke none = becke 3 :=
  ⟨rfl, rfl, rfl, rfl, rfl, rfl⟩

/-- Non-vacuity: an array with a negative and a large entry goes through every route as it is. -/
example : Gen.MolGrid.fromPreset_aim (P := Nat) (K := Int) (fun _ => .other) (some (.array [-2, 7, 0])) = .array [-2, 7, 0] ∧
    Gen.MolGrid.fromSize_aim (P := Nat) (K := Int) (fun _ => .other) (some (.array [-2, 7, 0])) = .array [-2, 7, 0] ∧
    Gen.MolGrid.fromPruned_aim (P := Nat) (K := Int) (fun k => .array [k]) none = .array [3] :=
  ⟨rfl, rfl, rfl⟩

end GridVerif.C07

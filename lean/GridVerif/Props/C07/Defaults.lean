/-
  C07, round 3 — the defaults of the signatures of the three convenience constructors, as carried by
  the translator from the current source (`Gen.MolGrid.fromPreset_defaults`, … and the typed
  `…_default_rotate`, `…_default_store`, `fromPruned_default_d_sectors`). The hand model of
  `Model/MolGrid.lean` (`fromPreset`, `fromSize`, `fromPruned`) takes every argument explicitly; a call
  that omits an argument is the call with the value pinned here (`aim_weights=None` is
  `BeckeWeights(order=3)`: `aimOrDefault`; `rgrid=None` the default radial grid of each element: `pick`;
  `s_sectors=None`: `SArg.none`). The correspondence calls the constructors with these arguments left
  out and compares with grids built by hand with the values the driver reports from these definitions.
-/
import GridVerif.Props.C07

namespace GridVerif.C07
open GridVerif.MolGrid

/-- **The defaults the constructors are documented with**: `rotate=37`, `store=False`, no radial grid /
aim weights given (`None`) for all three; `d_sectors=50`, `s_sectors=None` for `from_pruned`. -/
theorem signature_defaults_pinned :
    Gen.MolGrid.fromPreset_defaults =
      [("rgrid", "None"), ("aim_weights", "None"), ("rotate", "37"), ("store", "False")] ∧
    Gen.MolGrid.fromSize_defaults = Gen.MolGrid.fromPreset_defaults ∧
    Gen.MolGrid.fromPruned_defaults =
      [("d_sectors", "50"), ("s_sectors", "None"), ("rgrid", "None"), ("aim_weights", "None"),
       ("rotate", "37"), ("store", "False")] ∧
    Gen.MolGrid.fromPreset_default_rotate = 37 ∧ Gen.MolGrid.fromSize_default_rotate = 37 ∧
    Gen.MolGrid.fromPruned_default_rotate = 37 ∧
    Gen.MolGrid.fromPreset_default_store = false ∧ Gen.MolGrid.fromSize_default_store = false ∧
    Gen.MolGrid.fromPruned_default_store = false ∧
    Gen.MolGrid.fromPruned_default_d_sectors = 50 :=
  ⟨rfl, rfl, rfl, rfl, rfl, rfl, rfl, rfl, rfl, rfl⟩

/-- `from_pruned` called without `d_sectors` / `s_sectors`: the integer default is repeated for every
atom and no sizes are passed (`prunedSectors` on `DArg.int <default>`, `SArg.none`) — for a molecule
with as many radial sector lists as atoms. -/
theorem fromPruned_default_sectors (natoms : Nat) :
    prunedSectors (DS := Nat) (SS := Nat) natoms natoms (.int Gen.MolGrid.fromPruned_default_d_sectors) .none =
      .ok (List.replicate natoms (some 50), List.replicate natoms none) := by
  unfold prunedSectors DArg.toList
  simp [Gen.MolGrid.fromPruned_default_d_sectors, pure, Except.pure]

example : prunedSectors (DS := Nat) (SS := Nat) 3 3 (.int Gen.MolGrid.fromPruned_default_d_sectors) .none =
    .ok ([some 50, some 50, some 50], [none, none, none]) := by decide

/-- **The statements of `MolGrid.save` the hand model `MolGrid.saveKeys` was written against** (text of the
current source): the six molecular arrays under their names, then per stored atomic grid `i` the seven keys
`atgrid_<i>_points`, `_weights`, `_center`, `_degrees`, `_indices`, `_rgrid_pts`, `_rgrid_weights`, then
`np.savez`. (`save_needs_store` and the correspondence are about `saveKeys`.) -/
theorem save_site_pinned :
    Gen.MolGrid.save_body =
      ["dict_save = {'points': self.points, 'weights': self.weights, 'atweights': self.atweights, 'atcoords': self.atcoords, 'aim_weights': self.aim_weights, 'indices': self.indices}",
       "for i, atomgrid in enumerate(self.atgrids):",
       "    dict_save['atgrid_' + str(i) + '_points'] = atomgrid.points",
       "    dict_save['atgrid_' + str(i) + '_weights'] = atomgrid.weights",
       "    dict_save['atgrid_' + str(i) + '_center'] = atomgrid.center",
       "    dict_save['atgrid_' + str(i) + '_degrees'] = atomgrid.degrees",
       "    dict_save['atgrid_' + str(i) + '_indices'] = atomgrid.indices",
       "    dict_save['atgrid_' + str(i) + '_rgrid_pts'] = atomgrid.rgrid.points",
       "    dict_save['atgrid_' + str(i) + '_rgrid_weights'] = atomgrid.rgrid.weights",
       "np.savez(filename, **dict_save)"] := rfl

end GridVerif.C07

/-
  C07, round 3 — the default radial grids: `_generate_default_rgrid` as *generated* code
  (`Gen.MolGrid.generate_default_rgrid`, statement by statement) and the module-level table
  `_DEFAULT_POWER_RTRANSFORM_PARAMS` of utils.py carried row by row as exact decimals
  (`Gen.MolGrid.defaultRgridParams`).

  The clause: for every atomic number `Z` of the table the default radial grid is
  `PowerRTransform(rmin·Å/a₀, rmax·Å/a₀).transform_1d_grid(UniformInteger(npt))` of `Z`'s row — a
  `ValueError` for every other `Z` —, and every row is admissible for that construction: `0 < rmin < rmax`,
  `npt ≥ 34`, and the exponent `p = ln(rmax/rmin)/ln(npt)` of the power transform is at least 2 (the
  transform warns below 2), so that the radial points `rmin·(i+1)^p`, `i = 0 … npt-1`, run strictly
  increasing from `rmin` to `rmax` (in bohr) with positive weights `p·rmin·(i+1)^(p-1)`.
  `UniformInteger`, `PowerRTransform` themselves are given components (C01, C03, C04).
-/
import GridVerif.Props.C07
import GridVerif.Lemmas.ElemReal
import Mathlib.Analysis.SpecialFunctions.Pow.Real

namespace GridVerif.C07
open GridVerif.MolGrid List

/-- The table as carried in round 2 (`(Z, npt)`) is the projection of the full table. -/
theorem defaultRgridParams_npt :
    Gen.MolGrid.defaultRgridParams.map (fun r => (r.1, r.2.2.2)) = Gen.MolGrid.defaultRgridNpt := by
  decide +kernel

theorem pyDictIn_eq_find {T : Type} (d : List (Nat × T)) (k : Nat) :
    pyDictIn d k = (d.find? (fun p => p.1 == k)).isSome := by
  unfold pyDictIn
  induction d with
  | nil => rfl
  | cons a r ih =>
    rw [List.any_cons, List.find?_cons]
    cases h : (a.1 == k) <;> simp [ih]

/-- **The generated `_generate_default_rgrid` is the hand model** `defaultRgrid` over the generated
table: defined exactly on the keys of the table (`ValueError` elsewhere, `defaultRgrid_spec`), and then
`PowerRTransform(rmin·angstrom/bohr, rmax·angstrom/bohr).transform_1d_grid(UniformInteger(npt))` of that
row. -/
theorem gen_defaultRgrid_eq_model {K G1 G : Type} [Mul K] [Div K] [NatCast K] (angstrom bohr : K)
    (U : Nat → Py G1) (T : K → K → G1 → Py G) (atnum : Nat) :
    Gen.MolGrid.generate_default_rgrid angstrom bohr U T atnum =
      (defaultRgrid Gen.MolGrid.defaultRgridParams id atnum >>= fun row => do
        let g1 ← U row.2.2
        T (Dec.val row.1 * angstrom / bohr) (Dec.val row.2.1 * angstrom / bohr) g1) := by
  unfold Gen.MolGrid.generate_default_rgrid defaultRgrid pyDictGet
  rw [pyDictIn_eq_find]
  cases Gen.MolGrid.defaultRgridParams.find? (fun p => p.1 == atnum) with
  | none => rfl
  | some p => rfl

/-- What `PowerRTransform(rmin, rmax)` of `UniformInteger(npt)` needs of a row, decided on the exact
decimals by integer arithmetic: `0 < rmin`, `rmin · npt² ≤ rmax` (exponent ≥ 2, hence `rmin < rmax`),
`34 ≤ npt`. -/
def rowOk (row : Dec × Dec × Nat) : Bool :=
  decide (0 < row.1.mant) &&
  decide (row.1.mant * row.2.2 ^ 2 * 10 ^ row.2.1.scale ≤ row.2.1.mant * 10 ^ row.1.scale) &&
  decide (34 ≤ row.2.2)

/-- **Every row of the regenerated table is admissible** (all 68 elements, kernel-decided integer
arithmetic on the exact decimals), the keys are H–La and Hf–Pb, each once. -/
theorem defaultRgrid_rows_ok :
    (∀ r ∈ Gen.MolGrid.defaultRgridParams, rowOk r.2 = true) ∧
    (Gen.MolGrid.defaultRgridParams.map Prod.fst).Nodup ∧
    Gen.MolGrid.defaultRgridParams.map Prod.fst = Gen.MolGrid.defaultRgridNpt.map Prod.fst := by
  refine ⟨by decide +kernel, by decide +kernel, by decide +kernel⟩

theorem Dec.val_real (d : Dec) : (Dec.val d : ℝ) = (d.mant : ℝ) / (10 : ℝ) ^ d.scale := by
  unfold Dec.val; push_cast; rfl

/-- The exponent of `PowerRTransform(a, b)` on `UniformInteger(npt)`: `b = max(points) = npt - 1`,
`power = (ln b − ln a) / ln(npt)`. -/
noncomputable def powerExponent (a b : ℝ) (npt : ℕ) : ℝ := (Real.log b - Real.log a) / Real.log npt

/-- **The default-radial-grid clause over the generated table, for every `Z`.** For every row
`(Z, rmin, rmax, npt)` of the regenerated table and positive unit constants `angstrom`, `bohr`
(`scipy.constants`), with `a = rmin·angstrom/bohr`, `b = rmax·angstrom/bohr` the arguments the generated
function hands to `PowerRTransform`, and `p` the transform's exponent: `0 < a < b` (the constructor's
guards), `2 ≤ p` (no "power need to be larger than 2" warning), the first radial point `a·(0+1)^p` is
`a`, the last one `a·((npt-1)+1)^p` is `b`, the points `a·(x+1)^p` increase strictly and the weights
`p·a·(x+1)^(p-1)` are positive on `x ≥ 0`. -/
theorem defaultRgrid_clause (Z : ℕ) (rmin rmax : Dec) (npt : ℕ)
    (hrow : (Z, rmin, rmax, npt) ∈ Gen.MolGrid.defaultRgridParams) (angstrom bohr : ℝ)
    (hang : 0 < angstrom) (hbohr : 0 < bohr) :
    let a : ℝ := Dec.val rmin * angstrom / bohr
    let b : ℝ := Dec.val rmax * angstrom / bohr
    let p : ℝ := powerExponent a b npt
    0 < a ∧ a < b ∧ 34 ≤ npt ∧ 2 ≤ p ∧ a * ((0 : ℝ) + 1) ^ p = a ∧
    a * (((npt - 1 : ℕ) : ℝ) + 1) ^ p = b ∧
    (∀ x y : ℝ, 0 ≤ x → x < y → a * (x + 1) ^ p < a * (y + 1) ^ p) ∧
    (∀ x : ℝ, 0 ≤ x → 0 < p * a * (x + 1) ^ (p - 1)) := by
  intro a b p
  have hok := defaultRgrid_rows_ok.1 _ hrow
  simp only [rowOk, Bool.and_eq_true, decide_eq_true_eq] at hok
  obtain ⟨⟨h1, h2⟩, h3⟩ := hok
  have hc : 0 < angstrom / bohr := div_pos hang hbohr
  have hmin : (0 : ℝ) < Dec.val rmin := by
    rw [Dec.val_real]; exact div_pos (by exact_mod_cast h1) (by positivity)
  have hle : (Dec.val rmin : ℝ) * (npt : ℝ) ^ 2 ≤ Dec.val rmax := by
    rw [Dec.val_real, Dec.val_real, div_mul_eq_mul_div, div_le_div_iff₀ (by positivity) (by positivity)]
    exact_mod_cast h2
  have hnpt : (34 : ℝ) ≤ (npt : ℝ) := by exact_mod_cast h3
  have hnpos : (0 : ℝ) < npt := by linarith
  have ha : 0 < a := by
    show 0 < Dec.val rmin * angstrom / bohr
    rw [mul_div_assoc]; exact mul_pos hmin hc
  have hab2 : a * (npt : ℝ) ^ 2 ≤ b := by
    show Dec.val rmin * angstrom / bohr * (npt : ℝ) ^ 2 ≤ Dec.val rmax * angstrom / bohr
    rw [mul_div_assoc, mul_div_assoc]
    calc Dec.val rmin * (angstrom / bohr) * (npt : ℝ) ^ 2
        = (Dec.val rmin * (npt : ℝ) ^ 2) * (angstrom / bohr) := by ring
      _ ≤ Dec.val rmax * (angstrom / bohr) := mul_le_mul_of_nonneg_right hle hc.le
  have hsq : (1 : ℝ) < (npt : ℝ) ^ 2 := by nlinarith
  have hab : a < b := by nlinarith
  have hb : 0 < b := lt_trans ha hab
  have hlogn : 0 < Real.log npt := Real.log_pos (by linarith)
  have hp : 2 ≤ p := by
    show 2 ≤ (Real.log b - Real.log a) / Real.log npt
    rw [le_div_iff₀ hlogn]
    have : Real.log (a * (npt : ℝ) ^ 2) ≤ Real.log b := Real.log_le_log (by positivity) hab2
    rw [Real.log_mul ha.ne' (by positivity), Real.log_pow] at this
    push_cast at this
    linarith
  have hlast : a * (((npt - 1 : ℕ) : ℝ) + 1) ^ p = b := by
    have h1' : 1 ≤ npt := by omega
    rw [Nat.cast_sub h1', Nat.cast_one, sub_add_cancel, Real.rpow_def_of_pos hnpos]
    show a * Real.exp (Real.log npt * ((Real.log b - Real.log a) / Real.log npt)) = b
    rw [mul_div_cancel₀ _ hlogn.ne', Real.exp_sub, Real.exp_log hb, Real.exp_log ha]
    field_simp
  refine ⟨ha, hab, h3, hp, by simp, hlast, ?_, ?_⟩
  · intro x y hx hxy
    have : (x + 1) ^ p < (y + 1) ^ p :=
      Real.rpow_lt_rpow (by linarith) (by linarith) (by linarith)
    exact mul_lt_mul_of_pos_left this ha
  · intro x hx
    have : 0 < (x + 1) ^ (p - 1) := Real.rpow_pos_of_pos (by linarith) _
    have hp0 : 0 < p := by linarith
    positivity

/-- Non-vacuity: hydrogen's row is in the table (and so are the rows with the extreme entries: Br has the
smallest `rmin`, Ge the largest `rmax` and `npt`, Pt the largest `rmin`, F the smallest `rmax`). -/
example : (1, ⟨2577533167224667, 22⟩, ⟨16276983371222354, 15⟩, 34) ∈ Gen.MolGrid.defaultRgridParams ∧
    (35, ⟨43301047214875017, 30⟩, ⟨16309446059148527, 15⟩, 85) ∈ Gen.MolGrid.defaultRgridParams ∧
    (32, ⟨3055246063471103, 25⟩, ⟨37391722877573585, 15⟩, 148) ∈ Gen.MolGrid.defaultRgridParams ∧
    (78, ⟨5019006440323396, 18⟩, ⟨1781498800521723, 14⟩, 49) ∈ Gen.MolGrid.defaultRgridParams ∧
    (9, ⟨11147270392375693, 24⟩, ⟨12748095827643704, 15⟩, 59) ∈ Gen.MolGrid.defaultRgridParams := by
  decide +kernel

/-- On the generated function: for a `Z` of the table it calls the two components with exactly that
row's numbers; outside the table it raises `ValueError` without calling them. -/
theorem generate_default_rgrid_spec {K G1 G : Type} [Mul K] [Div K] [NatCast K] (angstrom bohr : K)
    (U : Nat → Py G1) (T : K → K → G1 → Py G) (Z : Nat) :
    (Z ∉ Gen.MolGrid.defaultRgridParams.map Prod.fst →
      Gen.MolGrid.generate_default_rgrid angstrom bohr U T Z = .error .valueError) ∧
    (Z ∈ Gen.MolGrid.defaultRgridParams.map Prod.fst → ∃ row, (Z, row) ∈ Gen.MolGrid.defaultRgridParams ∧
      Gen.MolGrid.generate_default_rgrid angstrom bohr U T Z = (do
        let g1 ← U row.2.2
        T (Dec.val row.1 * angstrom / bohr) (Dec.val row.2.1 * angstrom / bohr) g1)) := by
  rw [gen_defaultRgrid_eq_model]
  obtain ⟨h1, h2⟩ := defaultRgrid_spec Gen.MolGrid.defaultRgridParams id Z
  refine ⟨fun hn => by rw [h1 hn]; rfl, fun hm => ?_⟩
  obtain ⟨row, hmem, he⟩ := h2 hm
  exact ⟨row, hmem, by rw [he]; rfl⟩

/-- Non-vacuity (over `ℕ`, where `/` truncates: only the call structure shows). -/
example : Gen.MolGrid.generate_default_rgrid (K := Nat) 1 1 (fun n => .ok n)
      (fun a b g => .ok (a, b, g)) 58 = .error .valueError ∧
    Gen.MolGrid.generate_default_rgrid (K := Nat) 10 1 (fun n => .ok n)
      (fun a b g => .ok (a, b, g)) 1 = .ok (2577533167224667 / 10 ^ 22 * 10 / 1, 16276983371222354 / 10 ^ 15 * 10 / 1, 34) := by
  decide +kernel

end GridVerif.C07

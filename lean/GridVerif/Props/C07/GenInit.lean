/-
  C07 — the constructor `MolGrid.__init__` and the accessors `get_atomic_grid`, `__getitem__` as *generated* code
  (`Gen.MolGrid.init_loop`, `init`, `getAtomicGrid`, `getItem`) against the hand model (round 2), and — round 6 — the
  clauses about the weights stated directly over the generated constructor:

  * `weights = atweights · aim_weights` for *any* aim values — no sign, range or normalisation assumption, over any
    value type with `+`, `·` and naturals — and `aim_weights` is what was given / returned (seeded change C07-g, a clip
    to [0, 1], is carried by the translator as `npClip`: the generated `init` then needs an order on `K` and these
    statements no longer hold);
  * a one-atom molecule is the general formula at `n = 1`: the callable is evaluated on the atom's points (seeded change
    C07-b, "a single centre owns all of space", is carried as a branch on `len(atgrids) == 1`).

  Kept apart from `Props/C07.lean` so that a change of the constructor breaks these statements and not the theorems
  about the hand model.
-/
import GridVerif.Props.C07

namespace GridVerif.C07
open GridVerif.MolGrid List

variable {α P K R S Rot Sz Rad RS DS SS : Type}

/-! ### round 2: the constructor and the accessors as *generated* code

`Gen.MolGrid.init_loop`, `Gen.MolGrid.init`, `Gen.MolGrid.getAtomicGrid`, `Gen.MolGrid.getItem` are
translated statement by statement from the current `molgrid.py` (zero-initialised arrays, the
`enumerate` loop with item / slice assignments, the aim-weights dispatch, `super().__init__`; the
guards, `is None` branches, slices and `LocalGrid(...)` of the accessors). The theorems below
tie them to the hand model for *all* inputs; a semantic change of the source inside the
translator's vocabulary changes the generated definitions and breaks these proofs, a change
outside the vocabulary makes the translator raise. -/

/-- One turn of the constructor's loop (generated `init_loop`) on the loop invariant `loopState`:
atom number `len(d)` with grid `g`, `r` atoms and `z` points still to come. The centre goes to
`_atcoords[i]`, `_indices[i+1]` becomes the running sum, the two slice assignments fill exactly
the next `g.size` cells — or NumPy raises `ValueError` when the points do not fit the segment. -/
theorem init_loop_step [NatCast K] (zeroRow : P) (d : List (AtGrid P K)) (hd : ∀ g ∈ d, g.Fits)
    (g : AtGrid P K) (r z : Nat) :
    Gen.MolGrid.init_loop d.length g (loopState zeroRow d (r + 1) (g.size + z)).1
      (loopState zeroRow d (r + 1) (g.size + z)).2.1 (loopState zeroRow d (r + 1) (g.size + z)).2.2.1
      (loopState zeroRow d (r + 1) (g.size + z)).2.2.2 =
    if g.Fits then .ok (loopState zeroRow (d ++ [g]) r z) else .error .valueError := by
  have hT : (indexTable (d.map AtGrid.size)).length = d.length + 1 := by
    rw [indexTable_length, List.length_map]
  have hC : (d.map AtGrid.center).length = d.length := List.length_map _
  have hS : (indexTable (d.map AtGrid.size))[d.length]? = some (d.map AtGrid.size).sum := by
    have := indexTable_getElem? (d.map AtGrid.size) d.length (by simp)
    rwa [List.take_of_length_le (by simp)] at this
  -- 1. atcoords[i] = center
  have h1 : pySetItem (d.map AtGrid.center ++ replicate (r + 1) zeroRow) (d.length : Int) g.center =
      .ok ((d ++ [g]).map AtGrid.center ++ replicate r zeroRow) := by
    rw [pySetItem_nat_lt _ _ _ (by simp)]
    congr 1
    have := set_append_replicate (d.map AtGrid.center) r zeroRow g.center
    rw [hC] at this
    rw [this]; simp
  -- 2. indices
  have h2 : pyGet (indexTable (d.map AtGrid.size) ++ replicate (r + 1) 0) ((d.length : Int) + 1) = .ok 0 := by
    rw [pyGet_succ, pyGet_nat]
    have := getElem?_append_replicate (indexTable (d.map AtGrid.size)) r 0
    rw [hT] at this
    rw [this]
  have h3 : pyGet (indexTable (d.map AtGrid.size) ++ replicate (r + 1) 0) (d.length : Int) =
      .ok (d.map AtGrid.size).sum := by
    rw [pyGet_nat, List.getElem?_append_left (by omega), hS]
  have h4 : pySetItem (indexTable (d.map AtGrid.size) ++ replicate (r + 1) 0) ((d.length : Int) + 1)
      (0 + ((d.map AtGrid.size).sum + g.size)) =
      .ok (indexTable ((d ++ [g]).map AtGrid.size) ++ replicate r 0) := by
    rw [pySetItem_succ, pySetItem_nat_lt _ _ _ (by simp; omega)]
    congr 1
    have := set_append_replicate (indexTable (d.map AtGrid.size)) r 0 (0 + ((d.map AtGrid.size).sum + g.size))
    rw [hT] at this
    rw [this, List.map_append, List.map_cons, List.map_nil, indexTable_append_singleton, Nat.zero_add]
  have hT' : (indexTable ((d ++ [g]).map AtGrid.size)).length = d.length + 2 := by
    rw [indexTable_length, List.length_map, List.length_append]; rfl
  have h5 : pyGet (indexTable ((d ++ [g]).map AtGrid.size) ++ replicate r 0) (d.length : Int) =
      .ok (d.map AtGrid.size).sum := by
    rw [pyGet_nat, List.getElem?_append_left (by omega), List.map_append, List.map_cons, List.map_nil,
      indexTable_append_singleton, List.getElem?_append_left (by omega), hS]
  have h6 : pyGet (indexTable ((d ++ [g]).map AtGrid.size) ++ replicate r 0) ((d.length : Int) + 1) =
      .ok ((d.map AtGrid.size).sum + g.size) := by
    rw [pyGet_succ, pyGet_nat, List.getElem?_append_left (by omega), List.map_append, List.map_cons,
      List.map_nil, indexTable_append_singleton, List.getElem?_append_right (by omega), hT]
    simp
  -- 3. the slices
  have hF : ((d.map AtGrid.segPoints).flatten).length = (d.map AtGrid.size).sum :=
    flatten_points_length d hd
  have hW : ((d.map AtGrid.weights).flatten).length = (d.map AtGrid.size).sum :=
    flatten_weights_length d
  have h7 := pySetSlice_append_replicate (d.map AtGrid.segPoints).flatten g.size z zeroRow g.points
  rw [hF, fitSlice_points] at h7
  have h8 := pySetSlice_append_replicate (d.map AtGrid.weights).flatten g.size z ((0 : Nat) : K) g.weights
  have hfw : fitSlice g.size g.weights = .ok g.weights := fitSlice_self g.weights
  rw [hW, hfw] at h8
  unfold Gen.MolGrid.init_loop loopState
  simp only [h1, h2, h3, h4, h5, h6, ok_bind]
  by_cases hg : g.Fits
  · rw [if_pos hg] at h7 ⊢
    simp only [h7, h8, ok_bind]
    simp [pure, Except.pure]
  · rw [if_neg hg] at h7 ⊢
    simp only [h7]
    rfl


/-- The whole loop: started behind the atoms `d` it fills in the atoms `rest`, or raises the
`ValueError` of the first atomic grid whose points do not fit. -/
theorem init_loop_spec [NatCast K] (zeroRow : P) (rest d : List (AtGrid P K)) (hd : ∀ g ∈ d, g.Fits) :
    pyForEnum (fun st i atom_grid => Gen.MolGrid.init_loop i atom_grid st.1 st.2.1 st.2.2.1 st.2.2.2)
      d.length rest (loopState zeroRow d rest.length (rest.map AtGrid.size).sum) =
    if ∀ g ∈ rest, g.Fits then .ok (loopState zeroRow (d ++ rest) 0 0) else .error .valueError := by
  induction rest generalizing d with
  | nil => simp [pyForEnum_nil]
  | cons g rest ih =>
    have hstep := init_loop_step zeroRow d hd g rest.length (rest.map AtGrid.size).sum
    simp only [List.length_cons, List.map_cons, List.sum_cons]
    by_cases hg : g.Fits
    · rw [if_pos hg] at hstep
      rw [pyForEnum_cons_ok _ _ _ _ _ _ hstep]
      have hd' : ∀ x ∈ d ++ [g], x.Fits := by
        intro x hx
        rcases List.mem_append.mp hx with hx | hx
        · exact hd x hx
        · rw [List.mem_singleton.mp hx]; exact hg
      have := ih (d ++ [g]) hd'
      rw [List.length_append, List.length_singleton] at this
      rw [this, List.append_assoc, List.singleton_append]
      simp [hg]
    · rw [if_neg hg] at hstep
      rw [pyForEnum_cons_error _ _ _ _ _ _ hstep]
      simp [hg]


/-- **The generated constructor is the hand model** (`MolGrid.__init__`, for every input): for
every row `zeroRow` the zero-initialised arrays are completely overwritten — `_indices` by the
running sums, `_atcoords` by the centres, `_points` / `_atweights` by the concatenation of the
atomic grids —, the exceptions agree as well: no atomic grid → `TypeError` (`np.sum([])` is the
float `0.0`, not a shape), points that do not fit their segment → `ValueError` (a *single* point
is broadcast by NumPy, `AtGrid.segPoints`; found by experiment on the real constructor, the hand
model said `ValueError` there before round 2), aim weights of a wrong size / type →
`ValueError` / `TypeError`, a callable's result of a wrong length → `ValueError`. -/
theorem gen_init_eq_model [Add K] [Mul K] [NatCast K] (zeroRow : P) (atnums : List Nat)
    (atgrids : List (AtGrid P K)) (aim : AimArg P K) (store : Bool) :
    Gen.MolGrid.init zeroRow atnums atgrids aim store = MolGrid.init atnums atgrids aim store := by
  unfold Gen.MolGrid.init MolGrid.init
  cases hne : atgrids with
  | nil => rfl
  | cons g0 r0 =>
    rw [← hne]
    have he : atgrids.isEmpty = false := by rw [hne]; rfl
    have hsum : npSum (atgrids.map fun atomgrid => atomgrid.size) = .int (atgrids.map AtGrid.size).sum := by
      apply npSum_ne_nil; rw [hne]; simp
    have hloop := init_loop_spec (K := K) zeroRow atgrids [] (by simp)
    simp only [loopState, List.map_nil, List.nil_append, List.length_nil, List.flatten_nil, indexTable,
      prefixSums] at hloop
    simp only [he, Bool.false_eq_true, ↓reduceIte, hsum, npZeros_int, ok_bind]
    simp only [List.replicate_zero, List.append_nil, List.singleton_append] at hloop
    rw [List.replicate_succ, hloop]
    by_cases hf : ∀ g ∈ atgrids, g.Fits
    · rw [if_pos hf, if_neg (not_not.mpr hf)]
      simp only [ok_bind, NpNum.toNat]
      cases aim with
      | callable f => rfl
      | array a =>
        simp only
        by_cases hl : a.length = (atgrids.map AtGrid.size).sum
        · simp only [hl, ne_eq, not_true_eq_false, ↓reduceIte]; rfl
        · simp only [ne_eq, hl, not_false_eq_true, ↓reduceIte]; rfl
      | other => rfl
    · rw [if_neg hf, if_pos hf]; rfl

/-- Non-vacuity, all four outcomes on numbers: a regular molecule; one point broadcast over three
weights; two points for three weights; no atoms. -/
example :
    Gen.MolGrid.init (P := Nat) (K := Nat) 0 [1, 8] [⟨[10, 11], [1, 2], 0⟩, ⟨[20], [3], 5⟩]
      (.array [1, 0, 1]) false =
      .ok ⟨[10, 11, 20], [1, 0, 3], [1, 2, 3], [1, 0, 1], [0, 5], [0, 2, 3], none⟩ ∧
    (Gen.MolGrid.init (P := Nat) (K := Nat) 0 [1] [⟨[7], [1, 2, 3], 9⟩]
      (.callable fun p _ _ i => p.map fun _ => i.length) true).toOption.map
        (fun m => (m.points, m.weights, m.indices)) = some ([7, 7, 7], [2, 4, 6], [0, 3]) ∧
    Gen.MolGrid.init (P := Nat) (K := Nat) 0 [1] [⟨[7, 8], [1, 2, 3], 9⟩] (.array [1, 1, 1]) false =
      .error .valueError ∧
    Gen.MolGrid.init (P := Nat) (K := Nat) 0 [] [] (.array []) false = .error .typeError := by
  decide

/-- The content of `np.zeros` never shows: any two zero rows give the same molecular grid. -/
theorem gen_init_overwrites_zeros [Add K] [Mul K] [NatCast K] (z1 z2 : P) (atnums : List Nat)
    (atgrids : List (AtGrid P K)) (aim : AimArg P K) (store : Bool) :
    Gen.MolGrid.init z1 atnums atgrids aim store = Gen.MolGrid.init z2 atnums atgrids aim store := by
  rw [gen_init_eq_model, gen_init_eq_model]

example : Gen.MolGrid.init (P := Nat) (K := Nat) 0 [1, 1] [⟨[7], [1], 0⟩, ⟨[7, 8], [1, 3], 1⟩]
      (.array [1, 1, 1]) true =
    Gen.MolGrid.init (P := Nat) (K := Nat) 99 [1, 1] [⟨[7], [1], 0⟩, ⟨[7, 8], [1, 3], 1⟩]
      (.array [1, 1, 1]) true := by
  decide

/-- **The generated `get_atomic_grid` is the hand model**, for every molecular grid value and
every integer index (sign guard, stored / not stored, the two slices with their four index
look-ups, `LocalGrid`'s length check). -/
theorem gen_getAtomicGrid_eq_model (m : MolGrid P K) (index : Int) :
    Gen.MolGrid.getAtomicGrid m index = m.getAtomicGrid index := by
  unfold Gen.MolGrid.getAtomicGrid MolGrid.getAtomicGrid
  by_cases hn : index < 0
  · simp only [hn, ↓reduceIte]; rfl
  · simp only [hn, ↓reduceIte]
    cases m.atgrids with
    | some gs => rfl
    | none =>
      simp only
      cases pyGet m.indices index with
      | error e => rfl
      | ok a =>
        cases pyGet m.indices (index + 1) with
        | error e => rfl
        | ok b => rfl


/-- **The generated `__getitem__` is the hand model** (no sign guard; `self.weights`, i.e. the
aim-weighted weights, when the grids are not stored). -/
theorem gen_getItem_eq_model (m : MolGrid P K) (index : Int) :
    Gen.MolGrid.getItem m index = m.getItem index := by
  unfold Gen.MolGrid.getItem MolGrid.getItem
  cases m.atgrids <;> rfl

/-- Non-vacuity: the generated accessors on the witness molecule of `getItem_spec` (stored and not
stored; indices inside, negative, beyond). -/
example :
    let m1 : MolGrid Nat Nat := ⟨[7, 7, 8], [2, 2, 6], [1, 1, 3], [2, 2, 2], [0, 1], [0, 1, 3],
      some [⟨[7], [1], 0⟩, ⟨[7, 8], [1, 3], 1⟩]⟩
    let m2 : MolGrid Nat Nat := { m1 with atgrids := none }
    Gen.MolGrid.getAtomicGrid m1 1 = .ok (.atom ⟨[7, 8], [1, 3], 1⟩) ∧
    Gen.MolGrid.getAtomicGrid m2 1 = .ok (.localGrid [7, 8] [1, 3] 1) ∧
    Gen.MolGrid.getItem m2 1 = .ok (.localGrid [7, 8] [2, 6] 1) ∧
    Gen.MolGrid.getItem m2 (-1) = .ok (.localGrid [] [] 1) ∧
    Gen.MolGrid.getAtomicGrid m2 (-1) = .error .valueError ∧
    Gen.MolGrid.getItem m2 2 = .error .indexError := by
  decide

/-- **`weights = atweights · aim_weights` for any aim array** (generated `__init__`): whatever numbers the
array holds — negative, above one, not summing to one; `K` needs no order at all —, after a successful
construction `aim_weights` *is* the given array, `atweights` is the concatenation of the atomic weights and
`weights` their entry-by-entry product. -/
theorem gen_init_weights_any_aim_array [Add K] [Mul K] [NatCast K] (zeroRow : P) (atnums : List Nat)
    (atgrids : List (AtGrid P K)) (a : List K) (store : Bool) (m : MolGrid P K)
    (h : Gen.MolGrid.init zeroRow atnums atgrids (.array a) store = .ok m) :
    m.aimWeights = a ∧ m.atweights = (atgrids.map AtGrid.weights).flatten ∧
    m.weights = zipWith (· * ·) (atgrids.map AtGrid.weights).flatten a := by
  rw [gen_init_eq_model] at h
  have sp := init_spec h
  obtain ⟨ha, hsz⟩ := (aim_array_size atnums atgrids a store).1 m h
  have haim : m.aimWeights.length = m.size := by rw [ha]; exact hsz
  refine ⟨ha, sp.atweights, ?_⟩
  rw [(weights_spec h haim).1, sp.atweights, ha]

/-- … and for any callable: `aim_weights` is what the callable returned for `(points, atcoords, atnums,
indices)` of this grid — it is always evaluated, for one atom as for many —, and `weights` is the product
with it whenever it has one value per point. -/
theorem gen_init_weights_any_aim_callable [Add K] [Mul K] [NatCast K] (zeroRow : P) (atnums : List Nat)
    (atgrids : List (AtGrid P K)) (f : List P → List P → List Nat → List Nat → List K) (store : Bool)
    (m : MolGrid P K) (h : Gen.MolGrid.init zeroRow atnums atgrids (.callable f) store = .ok m) :
    m.aimWeights = f m.points m.atcoords atnums m.indices ∧
    (m.aimWeights.length = m.size → m.weights = zipWith (· * ·) m.atweights m.aimWeights) := by
  rw [gen_init_eq_model] at h
  have sp := init_spec h
  refine ⟨?_, fun haim => (weights_spec h haim).1⟩
  have := sp.aim
  simp only at this
  rw [this, sp.points, sp.atcoords, sp.indices]

/-- Non-vacuity (values in `ℤ`): aim weights `-2, 7, 0` on atoms with 2 and 1 points. -/
example : (Gen.MolGrid.init (P := Nat) (K := Int) 0 [1, 8] [⟨[10, 11], [1, 2], 0⟩, ⟨[20], [3], 5⟩]
    (.array [-2, 7, 0]) false).toOption.map (fun m => (m.weights, m.aimWeights)) = some ([-2, 14, 0], [-2, 7, 0]) := by
  decide

/-- **A one-atom molecule is the general formula at `n = 1`** (generated `__init__`): the callable is
evaluated on the atom's points, its centre, the atomic numbers and the index table `[0, size]`; nothing is
short-cut to ones. -/
theorem gen_init_one_atom [Add K] [Mul K] [NatCast K] (zeroRow : P) (atnums : List Nat) (g : AtGrid P K)
    (hg : g.WF) (f : List P → List P → List Nat → List Nat → List K) (store : Bool) :
    Gen.MolGrid.init zeroRow atnums [g] (.callable f) store =
      (mulBroadcast g.weights (f g.points [g.center] atnums [0, g.size])).map fun w =>
        ⟨g.points, w, g.weights, f g.points [g.center] atnums [0, g.size], [g.center], [0, g.size],
          if store then some [g] else none⟩ := by
  rw [gen_init_eq_model]
  unfold MolGrid.init
  have hf : ∀ x ∈ [g], x.Fits := by
    intro x hx; rw [List.mem_singleton.mp hx]; exact fits_of_wf hg
  simp only [List.isEmpty_cons, Bool.false_eq_true, ↓reduceIte, not_not.mpr hf, List.map_cons, List.map_nil,
    List.flatten_cons, List.flatten_nil, List.append_nil, segPoints_of_wf hg, indexTable, prefixSums,
    Nat.zero_add]
  cases mulBroadcast g.weights (f g.points [g.center] atnums [0, g.size]) <;> rfl

/-- Non-vacuity: one atom with two points, a callable that is *not* identically one. -/
example : (Gen.MolGrid.init (P := Nat) (K := Int) 0 [1] [⟨[10, 11], [1, 2], 0⟩]
    (.callable fun p _ _ i => p.map fun x => (x : Int) - 10 + i.length) true).toOption.map (fun m => m.weights) =
    some [2, 6] := by
  decide

end GridVerif.C07
